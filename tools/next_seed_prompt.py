#!/usr/bin/env python3
"""next_seed_prompt.py <ID>... : write /tmp/seedprompts/<ID>_<N>.txt for the next round from the previous prompt of that
property plus the summary of the last recorded seed (so the new seeder is told which mechanisms are taken). Prints the paths."""
import sys, os, re, json, glob
PD = "/tmp/seedprompts"  # working copies; the last prompt of every property is kept under tools/seedprompts/latest (copy them to /tmp/seedprompts to continue)
for ID in sys.argv[1:]:
    ns = [int(re.search(r'_(\d+)\.txt$', p).group(1)) for p in glob.glob(f'{PD}/{ID}_*.txt')]
    ns += [int(d.split('-')[1]) for d in os.listdir('/verif/seeded') if d.startswith(ID + '-')]
    prev_prompt = max(int(re.search(r'_(\d+)\.txt$', p).group(1)) for p in glob.glob(f'{PD}/{ID}_*.txt'))
    n = max(ns) + 1
    txt = open(f'{PD}/{ID}_{prev_prompt}.txt').read()
    txt = txt.replace(f'seed-{ID}-{prev_prompt}', f'seed-{ID}-{n}')
    lines = txt.split('\n')
    last = max(i for i, l in enumerate(lines) if l.startswith('  - '))
    have = '\n'.join(l for l in lines if l.startswith('  - '))
    add = []
    for d in sorted(os.listdir('/verif/seeded')):
        if not d.startswith(ID + '-'):
            continue
        try:
            s = json.load(open(f'/verif/seeded/{d}/meta.json')).get('summary', '')
        except Exception:
            continue
        s = ' '.join(s.split())
        if s and s[:80] not in have:
            add.append('  - ' + s[:300])
    lines[last + 1:last + 1] = add
    out = f'{PD}/{ID}_{n}.txt'
    open(out, 'w').write('\n'.join(lines))
    print(out, f'(+{len(add)} earlier summaries)')
