#!/usr/bin/env python3
"""seed_recheck.py [<ID>-<n> ...] [--tier quick] : re-run the stored seeded changes (/verif/seeded/<ID>-<n>/patch.diff)
against the CURRENT checks and /repo HEAD, each in a scratch worktree (never /repo itself). Records the outcome in
meta.json["recheck"] and prints one line per seed. Seeds whose patch no longer applies to HEAD (the code they
touch was repaired since) are reported as such."""
import sys, os, json, subprocess, shutil, time, glob
args = [a for a in sys.argv[1:] if not a.startswith('--')]
tier = 'quick'
if '--tier' in sys.argv: tier = sys.argv[sys.argv.index('--tier') + 1]
seeds = args or sorted(os.path.basename(d) for d in glob.glob('/verif/seeded/C*-*'))
ENV = dict(os.environ, GOFLAGS='-mod=mod', GOPROXY='off')
def sh(cmd, cwd=None, env=ENV, timeout=7200):
    p = subprocess.run(cmd, shell=True, cwd=cwd, env=env, capture_output=True, text=True, timeout=timeout)
    return p.returncode, p.stdout + p.stderr
head = subprocess.run(['git', '-C', '/repo', 'rev-parse', '--short', 'HEAD'], capture_output=True, text=True).stdout.strip()
for s in seeds:
    d = f'/verif/seeded/{s}'
    meta = json.load(open(f'{d}/meta.json'))
    prop = meta.get('property', s.split('-')[0])
    wt = f'/tmp/wt-recheck-{s}'
    vd = f'/verif/build/recheck-{s}'
    sh(f'git -C /repo worktree remove --force {wt}')
    rc, out = sh(f'git -C /repo worktree add --detach {wt} HEAD')
    assert rc == 0, out
    try:
        rc, out = sh(f'git apply {d}/patch.diff', cwd=wt)
        how = 'clean'
        if rc != 0:
            rc, out = sh(f'git apply --3way {d}/patch.diff', cwd=wt)
            how = '3way'
        if rc != 0:
            rc, out = sh(f'patch -p1 --fuzz=3 < {d}/patch.diff', cwd=wt)
            how = 'fuzz'
        if rc != 0:
            res = {'repo_commit': head, 'applies': False, 'note': out[-300:]}
            print(f'{s}: patch no longer applies to {head}')
        else:
            rcb, outb = sh('go build ./...', cwd=wt)
            if rcb != 0:
                res = {'repo_commit': head, 'applies': True, 'builds': False, 'note': outb[-300:]}
                print(f'{s}: patched tree no longer builds')
            else:
                shutil.rmtree(vd, ignore_errors=True); os.makedirs(vd + '/evidence')
                shutil.copy('/verif/known_findings.json', vd)
                t0 = time.time()
                rc, out = sh(f'./run.sh {prop} {tier}', cwd='/verif', env=dict(ENV, VERIF_REPO=wt, VERIF_DIR=vd))
                sigs = [l.split('signature:')[1].strip() for l in out.splitlines() if 'signature:' in l]
                res = {'repo_commit': head, 'applies': True, 'apply_mode': how, 'tier': tier, 'rc': rc, 'wall_s': round(time.time() - t0, 1), 'signatures': sigs[:6]}
                print(f'{s}: check {prop} {tier} exit {rc} {"DETECTED " + sigs[0] if rc == 1 and sigs else ("MISSED" if rc == 0 else "INFRA")}')
                shutil.rmtree(vd, ignore_errors=True)
        meta['recheck'] = res
        json.dump(meta, open(f'{d}/meta.json', 'w'), indent=1)
    finally:
        sh(f'git -C /repo worktree remove --force {wt}')
        tag = subprocess.run(f'echo {wt} | md5sum | cut -c1-8', shell=True, capture_output=True, text=True).stdout.strip()
        shutil.rmtree(f'/verif/build/mod-{tag}', ignore_errors=True)
        shutil.rmtree(f'/verif/build/e3/{tag}', ignore_errors=True)
