#!/usr/bin/env python3
"""mut.py <check-id> <file-under-repo> <old> <new> [tier]: apply a one-off textual mutation in a scratch
worktree of /repo (never /repo itself), run the check against it, print the verdict lines, revert."""
import sys, subprocess, os
WT = os.environ.get('MUT_WT', '/tmp/wt-mut')
if not os.path.isdir(WT):
    subprocess.run(['git', '-C', '/repo', 'worktree', 'add', '--detach', WT], check=True, capture_output=True)
cid, f, old, new = sys.argv[1:5]
tier = sys.argv[5] if len(sys.argv) > 5 else 'quick'
subprocess.run(['git', '-C', WT, 'checkout', '--detach', subprocess.run(['git','-C','/repo','rev-parse','HEAD'],capture_output=True,text=True).stdout.strip()], capture_output=True)
p = WT + '/' + f
s = open(p).read()
if s.count(old) < 1:
    print('MUTATION SITE NOT FOUND'); sys.exit(3)
open(p, 'w').write(s.replace(old, new, 1))
try:
    b = subprocess.run('cd %s && GOFLAGS=-mod=mod GOPROXY=off go build ./%s/' % (WT, '/'.join(f.split('/')[:-1])), shell=True, capture_output=True, text=True)
    if b.returncode != 0:
        print('MUTANT DOES NOT COMPILE', b.stderr[:500]); sys.exit(3)
    env = dict(os.environ, VERIF_REPO=WT, VERIF_DIR='/verif/build/mutdir')
    os.makedirs('/verif/build/mutdir', exist_ok=True)
    subprocess.run('cp /verif/known_findings.json /verif/build/mutdir/ 2>/dev/null', shell=True)
    r = subprocess.run(['/verif/run.sh', cid, tier], capture_output=True, text=True, env=env)
    lines = [l for l in r.stdout.splitlines() if l.startswith(('VIOLATION', 'KNOWN', 'OK', '  signature', 'INFRA'))]
    print('\n'.join(lines[:12])); print('exit', r.returncode)
    if r.returncode == 2: print(r.stdout[-500:], r.stderr[-800:])
finally:
    subprocess.run(['git', '-C', WT, 'checkout', '--', f])
