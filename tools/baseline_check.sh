#!/bin/bash
# Runs the repository's pinned suite with the verif guard OFF and checks that the 32 stable tests of /root/.vp/BASELINE.json pass.
cd /repo && export GOFLAGS=-mod=mod GOPROXY=off
go build ./... || exit 2
go test -json -vet=off -count=1 -timeout 25m ./... > /tmp/baseline.gotest.json 2>/dev/null
python3 - <<'PY'
import json
want=set(json.load(open('/root/.vp/BASELINE.json'))['stable_pass'])
res={}
for l in open('/tmp/baseline.gotest.json'):
    try: e=json.loads(l)
    except Exception: continue
    if e.get('Test') and e.get('Action') in('pass','fail') and '/' not in e['Test']:
        res[e['Package']+'::'+e['Test']]=e['Action']
bad=[t for t in sorted(want) if res.get(t)!='pass']
print('stable tests passing: %d of %d'%(len(want)-len(bad),len(want)))
for t in bad: print('NOT PASSING:',t,res.get(t))
PY
