#!/usr/bin/env python3
"""Regenerates the machine-written tables of DESIGN.md (between <!-- BEGIN x --> / <!-- END x --> markers):
findings (from known_findings.json) and seeded changes (from seeded/*/meta.json)."""
import json, glob, os, re, collections
R = os.path.dirname(os.path.dirname(os.path.abspath(__file__)))
kf = json.load(open(f'{R}/known_findings.json'))['findings']
def esc(s): return s.replace('|', '\\|').replace('\n', ' ')
# fixed: group by (property, commit)
fx = collections.OrderedDict()
for f in kf:
    if f['status'] == 'fixed':
        fx.setdefault((f['property'], f.get('commit', '?')), []).append(f)
out = ['| property | commit | signatures | what failed |', '|---|---|---|---|']
for (p, c), fs in sorted(fx.items()):
    sigs = ', '.join('`%s`' % esc(f['signature']) for f in fs[:3]) + (' (+%d more)' % (len(fs) - 3) if len(fs) > 3 else '')
    out.append('| %s | %s | %s | %s |' % (p, c, sigs, esc(fs[0]['what'][:260])))
fixed_tbl = '\n'.join(out)
op = collections.OrderedDict()
for f in kf:
    if f['status'] == 'open':
        op.setdefault(f['property'], []).append(f)
out = ['| property | open findings | signatures (first few) |', '|---|---|---|']
for p, fs in sorted(op.items()):
    out.append('| %s | %d | %s |' % (p, len(fs), '; '.join('`%s`' % esc(f['signature'][:90]) for f in fs[:6]) + (' …' if len(fs) > 6 else '')))
open_tbl = '\n'.join(out)
out = ['| seed | property | what was changed | needs | confirmed | detected by | first attempt |', '|---|---|---|---|---|---|---|']
for d in sorted(glob.glob(f'{R}/seeded/*/')):
    m = json.load(open(d + 'meta.json'))
    ev = m.get('evaluation', {})
    first = m.get('first_attempt', '')
    out.append('| %s | %s | %s | %s | %s | %s | %s |' % (os.path.basename(d[:-1]), m.get('property'), esc(m.get('summary', '')[:220]), esc(m.get('needs', '')[:200]),
        'yes' if ev.get('confirmed') else 'no', ('%s tier: `%s`' % (ev.get('check', {}).get('tier'), esc(next((l for l in (ev.get('check', {}).get('lines') or []) if 'signature:' in l), '').replace('signature:', '').strip()))) if m.get('detected_by_check') else 'NOT detected', esc(first)))
seed_tbl = '\n'.join(out)
# per-check summary from claims + evidence
out = ['| id | level | decided by | quick tier measured (last run) | seeded changes caught |', '|---|---|---|---|---|']
seeds = collections.defaultdict(list)
for d in sorted(glob.glob(f'{R}/seeded/*/')):
    m = json.load(open(d + 'meta.json'))
    seeds[m.get('property')].append(os.path.basename(d[:-1]) + ('' if m.get('detected_by_check') else ' (missed)'))
for f in sorted(glob.glob(f'{R}/tools/claims/C*.json')):
    i = os.path.basename(f)[:-5]
    c = json.load(open(f))
    ev = {}
    try: ev = json.load(open(f'{R}/evidence/{i}.json'))
    except Exception: pass
    cov = ev.get('coverage', {})
    nums = []
    for k in ('evaluations', 'states', 'transitions', 'traces_validated_against_impl', 'distinct_nontrivial', 'scenarios_total', 'programs'):
        if k in cov: nums.append('%s=%s' % (k, cov[k]))
    nums.append('exhaustive=%s' % cov.get('exhaustive'))
    nums.append('tier=%s wall=%.0fs' % (ev.get('tier'), ev.get('wall_s', 0)))
    out.append('| %s | %s | %s | %s | %s |' % (i, c['category'], esc(c['technique'][:230]), esc(', '.join(nums)), ', '.join(seeds.get(i, [])) or '-'))
checks_tbl = '\n'.join(out)
p = f'{R}/DESIGN.md'
s = open(p).read()
for name, tbl in (('FIXED', fixed_tbl), ('OPEN', open_tbl), ('SEEDED', seed_tbl), ('CHECKS', checks_tbl)):
    pat = re.compile(r'(<!-- BEGIN %s -->).*?(<!-- END %s -->)' % (name, name), re.S)
    if pat.search(s):
        s = pat.sub(lambda m: m.group(1) + '\n' + tbl + '\n' + m.group(2), s)
open(p, 'w').write(s)
print('fixed groups', len(fx), 'open', sum(len(v) for v in op.values()), 'seeded', len(glob.glob(f'{R}/seeded/*/')))
