import re,sys,glob,os
def parse_stream(d):
    # tokenizer
    i=0;n=len(d)
    stack=[]
    items=[] # (y,x,text)
    tm=[1,0,0,1,0,0]; lm=[1,0,0,1,0,0]; lead=0
    cur=[]
    def emit(s):
        items.append((round(lm[5],1), lm[4], s))
    while i<n:
        c=d[i]
        if c in b' \r\n\t\x00\x0c': i+=1; continue
        if c==ord('('):
            depth=1;j=i+1;out=bytearray()
            while j<n and depth>0:
                ch=d[j]
                if ch==ord('\\'):
                    j+=1;e=d[j]
                    if e in b'nrtbf': out.append({ord('n'):10,ord('r'):13,ord('t'):9,ord('b'):8,ord('f'):12}[e])
                    elif 48<=e<=55:
                        v=0;k=0
                        while k<3 and j<n and 48<=d[j]<=55: v=v*8+d[j]-48;j+=1;k+=1
                        j-=1;out.append(v&255)
                    elif e in b'\r\n': pass
                    else: out.append(e)
                elif ch==ord('('): depth+=1;out.append(ch)
                elif ch==ord(')'):
                    depth-=1
                    if depth>0: out.append(ch)
                else: out.append(ch)
                j+=1
            stack.append(('s',bytes(out)));i=j;continue
        if c==ord('['):
            stack.append(('[',None));i+=1;continue
        if c==ord(']'):
            arr=[]
            while stack and stack[-1][0]!='[': arr.append(stack.pop())
            if stack: stack.pop()
            arr.reverse();stack.append(('a',arr));i+=1;continue
        if c==ord('<'):
            if d[i+1:i+2]==b'<':
                j=d.find(b'>>',i); 
                # nested dicts: crude
                depth=0;j=i
                while j<n:
                    if d[j:j+2]==b'<<': depth+=1;j+=2
                    elif d[j:j+2]==b'>>':
                        depth-=1;j+=2
                        if depth==0:break
                    else:j+=1
                stack.append(('d',None));i=j;continue
            j=d.find(b'>',i);h=re.sub(rb'\s',b'',d[i+1:j])
            try: stack.append(('s',bytes.fromhex(h.decode()+('0' if len(h)%2 else ''))))
            except: stack.append(('s',b''))
            i=j+1;continue
        if c==ord('/'):
            j=i+1
            while j<n and d[j] not in b' \r\n\t/[]()<>': j+=1
            stack.append(('n',d[i:j]));i=j;continue
        if c==ord('%'):
            j=d.find(b'\n',i); i=n if j<0 else j; continue
        # number or operator
        j=i
        while j<n and d[j] not in b' \r\n\t/[]()<>': j+=1
        tok=d[i:j];i=j
        try:
            stack.append(('f',float(tok)));continue
        except: pass
        op=tok
        def nums(k): 
            v=[x[1] for x in stack[-k:] if x[0]=='f']
            return v if len(v)==k else None
        if op==b'Tm':
            v=nums(6)
            if v: tm=v[:];lm=v[:]
        elif op in(b'Td',b'TD'):
            v=nums(2)
            if v:
                tx,ty=v
                lm=[lm[0],lm[1],lm[2],lm[3],tx*lm[0]+ty*lm[2]+lm[4],tx*lm[1]+ty*lm[3]+lm[5]]
                if op==b'TD': lead=-ty
        elif op==b'TL':
            v=nums(1)
            if v: lead=v[0]
        elif op==b'T*':
            lm=[lm[0],lm[1],lm[2],lm[3],-lead*lm[2]+lm[4],-lead*lm[3]+lm[5]]
        elif op==b'Tj':
            if stack and stack[-1][0]=='s': emit(stack[-1][1].decode('latin1'))
        elif op in(b"'",b'"'):
            lm=[lm[0],lm[1],lm[2],lm[3],-lead*lm[2]+lm[4],-lead*lm[3]+lm[5]]
            if stack and stack[-1][0]=='s': emit(stack[-1][1].decode('latin1'))
        elif op==b'TJ':
            if stack and stack[-1][0]=='a':
                s=''
                for t,v in stack[-1][1]:
                    if t=='s': s+=v.decode('latin1')
                    elif t=='f' and v< -220: s+=' '
                emit(s)
        elif op==b'BT':
            tm=[1,0,0,1,0,0];lm=tm[:]
        stack=[]
    return items
def render(items):
    # group by y (tolerance 2), preserve emission order within line sorted by x
    lines={}
    for idx,(y,x,s) in enumerate(items):
        key=None
        for k in lines:
            if abs(k-y)<2.5: key=k;break
        if key is None: key=y;lines[key]=[]
        lines[key].append((x,idx,s))
    out=[]
    for y in sorted(lines,reverse=True):
        parts=sorted(lines[y])
        line='';lastx=None
        for x,idx,s in parts:
            if line and not line.endswith(' ') and not s.startswith(' ') : 
                # insert space if gap (unknown widths) -- heuristic: always join w/o space if same emission run
                line+='' 
            line+=s
        out.append(line)
    return '\n'.join(out)
if __name__=='__main__':
    d=sys.argv[1]
    out=open(sys.argv[2],'w')
    for f in sorted(glob.glob(d+'/*.bin')):
        data=open(f,'rb').read()
        if b'BT' not in data or (b'Tj' not in data and b'TJ' not in data): continue
        if data.startswith(b'<?xpacket'): continue
        try:
            items=parse_stream(data)
        except Exception as e:
            out.write('=== %s ERROR %s\n'%(f,e));continue
        if not items: continue
        out.write('=== %s\n'%os.path.basename(f))
        out.write(render(items)+'\n')
