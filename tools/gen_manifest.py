#!/usr/bin/env python3
"""Regenerates /verif/MANIFEST.json from tools/claims/<ID>.json (one file per claimed property)."""
import json, os, glob
ROOT = os.path.dirname(os.path.dirname(os.path.abspath(__file__)))
props = [json.loads(l) for l in open(os.path.join(ROOT, 'properties.jsonl'))]
claimed = {os.path.basename(f)[:-5]: json.load(open(f)) for f in glob.glob(os.path.join(ROOT, 'tools/claims/C*.json'))}
checks = []
for p in props:
    i = p['id']
    if i not in claimed: continue
    c = claimed[i]
    e = {
        'property_id': i,
        'quick_cmd': f'./run.sh {i} quick',
        'thorough_cmd': f'./run.sh {i} thorough',
        'evidence_file': f'/verif/evidence/{i}.json',
        'replay_cmd_template': f'./run.sh {i} --replay {{path}}',
        'engine': c.get('engine', ''),
        'level_claimed': {'category': c['category'], 'text': c['text'], 'design_ref': c.get('design_ref', '')},
        'level_note': c['note'],
        'technique': c['technique'],
    }
    checks.append(e)
na_reason = json.load(open(os.path.join(ROOT, 'tools/not_applicable.json'))) if os.path.exists(os.path.join(ROOT, 'tools/not_applicable.json')) else {}
na = [{'property_id': p['id'], 'reason': na_reason.get(p['id'], 'check not built yet in this session (designed in DESIGN.md §4; will be claimed once its harness exists and passes on the unchanged tree)')}
      for p in props if p['id'] not in claimed]
hc = os.path.join(ROOT, 'hooks_commits.txt')
hooks_commits = [l.strip() for l in open(hc) if l.strip()] if os.path.exists(hc) else []
def serves(tag): return [i for i in sorted(claimed) if tag in claimed[i].get('engine', '')]
m = {
 'version': 1,
 'setup_cmd': './setup.sh',
 'hooks': {
   'guard': 'verif',
   'enable': 'go build -tags verif (run.sh passes it to every check build; hook files are verif_hooks*.go with //go:build verif)',
   'baseline_off_cmd': 'cd /repo && GOFLAGS=-mod=mod go build ./... && GOFLAGS=-mod=mod go test -vet=off -count=1 -timeout 25m ./...',
   'source_commits': hooks_commits,
   'add_only': True,
 },
 'engines': [
   {'name': 'E1', 'path': 'mc/explore', 'serves_properties': serves('E1'), 'kind_free_text': 'stateless deviation-bounded exhaustive choice-sequence explorer with replay, determinism guard and optional state cache'},
   {'name': 'E4', 'path': 'mc/world', 'serves_properties': serves('E4'), 'kind_free_text': 'world harness: real akita engine + passive wires + explorer-driven environment agent'},
   {'name': 'harness', 'path': 'mc/harness', 'serves_properties': sorted(claimed), 'kind_free_text': 'front end: tiers, known findings, replay files, evidence, exit codes, parallel enumeration'},
 ],
 'checks': checks,
 'not_applicable': na,
 'notes': 'All checks are Go programs under mc/checks/<id>, rebuilt by run.sh from /repo\'s working tree with -tags verif. Exit 0 held / 1 VIOLATION / 2 infrastructure error. known_findings.json lists genuine defects by signature (open ones print KNOWN-FINDING; fixed ones suppress nothing).',
}
json.dump(m, open(os.path.join(ROOT, 'MANIFEST.json'), 'w'), indent=1)
print('claimed', len(checks), sorted(claimed), 'not_applicable', len(na))
