#!/usr/bin/env python3
"""Regenerates /verif/MANIFEST.json from the table below (single source of truth)."""
import json, os
ROOT = os.path.dirname(os.path.dirname(os.path.abspath(__file__)))
props = [json.loads(l) for l in open(os.path.join(ROOT, 'properties.jsonl'))]

MC = 'model_checking'
EX = 'exploration'
# id -> (category, technique, text, note, design_ref, engine)
claimed = {
 'C09': (MC, 'stateless deviation-bounded exhaustive exploration of the real command processor / dispatchers / CU resource pool under an explorer-driven environment',
   'Real cp.CommandProcessor with its real dispatchers (Builder configuration: 8 round-robin; through the verif hook also 1-2 dispatchers with round-robin, greedy and partition) and real CU resource pool under the real akita SerialEngine. The environment plays the driver and 1-3 compute units with finite resources (SIMDs, wavefront slots, SGPR, VGPR, LDS), answering each MapWGReq individually or batched like the emulation CU. 94 scenarios over 8 kernel shapes (fits-twice, one-at-a-time, zero demand, whole CU, dynamic LDS, filtered, non-granular demand, 1-WG) incl. 2-3 overlapping launches. Every vector of environment answers (completion order/delay, stalls of the CU-facing and driver-facing wires, launch delays) with <= 2 (quick) / <= 3 (thorough) non-default answers is executed; an independent occupancy model checks every map request (exactly once, inside the grid/filter, slots/SGPR/VGPR/LDS within capacity and disjoint from resident work-groups), one LaunchKernelRsp after the last completion, and a whole-CU probe kernel at the end makes any resource leak visible as non-completion at quiescence.',
   'Trusted: akita SerialEngine/Port; the occupancy model (granularity 16 SGPR / 4 VGPR / 256 B LDS as in the dispatcher). 1-D kernels with work-group sizes that are multiples of 64. Two genuine defects found here were repaired by fix: commits (dynamic LDS accounting; batched completion across dispatchers).',
   'DESIGN.md §4 C09', 'E1+E4'),
 'C15': (MC, 'stateless deviation-bounded exhaustive exploration of the real component under an explorer-driven environment',
   'Real rob.ReorderBuffer under the real akita SerialEngine, closed by an explorer-owned environment (requester, memory, controller). '
   'Every vector of environment answers (per-request injection delay, per-message wire stall, memory response delay and response order, flush cycle, restart delay) with <= 3 (quick) / <= 4 (thorough) non-default answers is executed on a fresh instance; a port-level monitor checks order, exactly-once, payload, forward fidelity, capacity and flush discipline in every execution.',
   'Trusted: akita SerialEngine/Port; the monitor; bounds = 3-5 requests, buffer 1-3, width 1-2, flush at cycles 1-12. Requester is silent during a flush.',
   'DESIGN.md §4 C15', 'E1+E4'),
 'C16': (MC, 'stateless deviation-bounded exhaustive exploration of the real component under an explorer-driven environment',
   'Real addresstranslator.Comp under the real akita SerialEngine; the environment plays requester, translation service (non-identity page table, two PIDs), two interleaved memory modules and the controller. '
   'Every vector of environment answers (injection delays, stalls of the Top/Bottom/Translation wires, translation and memory reply delay and order, flush cycle, restart delay) with <= 3 (quick) / <= 4 (thorough) non-default answers is executed; the monitor checks physical address = frame(PID,page)+offset, size/data/mask fidelity, destination module, exactly-once forward and response, original ID, payload, and flush discipline.',
   'Trusted: akita SerialEngine/Port; the monitor. Bounds: 3-5 accesses over 2 pages x 2 PIDs, width 1-2, flush at cycles 1-14; accesses do not cross pages; requester silent during a flush.',
   'DESIGN.md §4 C16', 'E1+E4'),
 'C17': (MC, 'exhaustive configuration lattice x stateless deviation-bounded exploration of arrival timings on the real component',
   'Real simplebankedmemory.Comp under the real akita SerialEngine for every configuration in banks{1,2,4} x pipeline width{1,2} x depth{1,2} x stage latency{1,2} x post-buffer{1,2} x port buffer{1,4} x row tracking{off,(2^7,1),(2^7,3)} and 8 request sequences (RAW, WAW, WAR, masked, sub-range, two banks, row switch, same-row triple; 2-6 requests). '
   'For each, every vector of arrival delays and response-wire stalls with <= 2 (quick) / <= 3 (thorough) non-default answers is executed; oracle = flat byte array applied in arrival order (read data, exactly one response each, final Storage contents).',
   'Trusted: akita SerialEngine/Port/Storage; the flat reference. Accesses stay inside one 64 B interleave unit. Known finding (open): lane overtaking with pipeline width 2 comes from akita pipelining and is listed by signature; the row-miss reordering was repaired by a fix: commit.',
   'DESIGN.md §4 C17', 'E1+E4'),
 'C18': (MC, 'stateless deviation-bounded exhaustive exploration of the real RDMA engine under an explorer-driven environment (+ configuration lattice over GPU sets when available)',
   'Part (b): real rdma.Comp under the real akita SerialEngine; the environment plays L1 requesters, local L2 modules, remote RDMA engines (as owners and as requesters) and the command processor. Every vector of environment answers (injection delays, stalls on the four data wires, owner reply delay and order, drain cycle, restart delay, L1 traffic arriving while paused) with <= 3 (quick) / <= 4 (thorough) non-default answers is executed; the monitor checks forwarding to the owner from the address table exactly once with unchanged address/size/data/mask, one reply to the originator with the original ID and the owner payload, DrainRsp only with both transaction tables empty, nothing forwarded between DrainRsp and RestartRsp, and paused traffic served after restart. Part (a) (same final data on 1/2/4 GPUs, plain and unified) is a configuration lattice run by the same binary.',
   'Trusted: akita SerialEngine/Port; the monitor; valid control protocol order; unique addresses per scenario. Bounds: 2-3 accesses per direction, port buffers 1-2, drain at cycles 1-12.',
   'DESIGN.md §4 C18', 'E1+E4'),
 'C19': (MC, 'stateless deviation-bounded exhaustive exploration of two real page-migration controllers under an explorer-driven environment',
   'Two real PageMigrationControllers under one real akita SerialEngine; the environment owns both local memories (byte arrays), both command processors and the inter-PMC wire. Page sizes 64/128/256 B x 6 request sequences (single, queued, arriving during a migration, both directions, staggered, three). Every vector of environment answers (memory reply delay/order, wire delay, stalls on all six 1-entry ports) with <= 2 (quick) / <= 3 (thorough) non-default answers is executed. Oracle: destination page == source page, no other byte of either memory changed, one completion per request in order, completion only after all write acknowledgements and after the page is fully copied, queued requests served.',
   'Trusted: akita SerialEngine/Port; the byte-array memories. No concurrent writer of migrating pages; FIFO network. The driver-side mapping update is covered by C10.',
   'DESIGN.md §4 C19', 'E1+E4'),
}
checks = []
for p in props:
    i = p['id']
    if i not in claimed: continue
    cat, tech, text, note, ref, eng = claimed[i]
    checks.append({
        'property_id': i,
        'quick_cmd': f'./run.sh {i} quick',
        'thorough_cmd': f'./run.sh {i} thorough',
        'evidence_file': f'/verif/evidence/{i}.json',
        'replay_cmd_template': f'./run.sh {i} --replay {{path}}',
        'engine': eng,
        'level_claimed': {'category': cat, 'text': text, 'design_ref': ref},
        'level_note': note,
        'technique': tech,
    })
na_reason = {}
na = [{'property_id': p['id'], 'reason': na_reason.get(p['id'], 'check not built yet in this session (designed in DESIGN.md §4; will be claimed once its harness exists and passes on the unchanged tree)')}
      for p in props if p['id'] not in claimed]
hooks_commits = [l.strip() for l in open(os.path.join(ROOT, 'hooks_commits.txt'))] if os.path.exists(os.path.join(ROOT, 'hooks_commits.txt')) else []
m = {
 'version': 1,
 'setup_cmd': './setup.sh',
 'hooks': {
   'guard': 'verif',
   'enable': 'go build -tags verif (run.sh passes it to every check build; files are *_verif.go / verif_hooks.go with //go:build verif)',
   'baseline_off_cmd': 'cd /repo && GOFLAGS=-mod=mod go build ./... && GOFLAGS=-mod=mod go test -vet=off -count=1 -timeout 25m ./...',
   'source_commits': hooks_commits,
   'add_only': True,
 },
 'engines': [
   {'name': 'E1', 'path': 'mc/explore', 'serves_properties': sorted(claimed), 'kind_free_text': 'stateless deviation-bounded exhaustive choice-sequence explorer with replay, determinism guard and optional state cache'},
   {'name': 'E4', 'path': 'mc/world', 'serves_properties': [c for c in sorted(claimed) if 'E4' in claimed[c][5]], 'kind_free_text': 'world harness: real akita engine + passive wires + explorer-driven environment agent'},
 ],
 'checks': checks,
 'not_applicable': na,
 'notes': 'All checks are Go programs under mc/checks/<id>, rebuilt by run.sh from /repo\'s working tree with -tags verif. Exit 0 held / 1 VIOLATION / 2 infrastructure error. known_findings.json lists genuine defects by signature.',
}
json.dump(m, open(os.path.join(ROOT, 'MANIFEST.json'), 'w'), indent=1)
print('claimed', len(checks), 'not_applicable', len(na))
