#!/bin/bash
# run_all.sh <tier>: runs every claimed check in sequence and prints one line per check (id, exit code, wall).
cd "$(dirname "$0")/.."
tier=${1:-quick}
for ID in $(python3 -c "import json;print(' '.join(c['property_id'] for c in json.load(open('MANIFEST.json'))['checks']))"); do
  s=$(date +%s); ./run.sh $ID $tier > /tmp/runall_$ID.log 2>&1; rc=$?; e=$(date +%s)
  echo "$ID tier=$tier exit=$rc wall=$((e-s))s $(grep -c '^KNOWN-FINDING' /tmp/runall_$ID.log) known, $(grep -c '^VIOLATION' /tmp/runall_$ID.log) violations, exhaustive=$(python3 -c "import json;print(json.load(open('evidence/$ID.json'))['coverage'].get('exhaustive'))" 2>/dev/null)"
done
