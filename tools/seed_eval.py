#!/usr/bin/env python3
"""seed_eval.py <ID> <N> [--tier quick|thorough] : confirm a seeded change produced by a sub-agent in /tmp/seed-<ID>-<N>/SEED
and run the check for <ID> against it. Everything happens in the scratch worktree /tmp/wt-seedeval (never /repo).
Steps: patch applies to /repo's HEAD; go build ./... ; demonstration passes without the patch and fails with it;
touched packages' tests give the same result with and without the patch; then the check runs with VERIF_REPO=<worktree>.
On success the artefacts are stored under /verif/seeded/<ID>-<N>/ (patch.diff, demo, meta.json with what was run)."""
import sys, os, json, subprocess, shutil, time
ID, N = sys.argv[1], sys.argv[2]
tier = 'quick'
if '--tier' in sys.argv:
    tier = sys.argv[sys.argv.index('--tier') + 1]
SEED = f'/tmp/seed-{ID}-{N}/SEED'
WT = f'/tmp/wt-seedeval-{ID}-{N}'
ENV = dict(os.environ, GOFLAGS='-mod=mod', GOPROXY='off')
def sh(cmd, cwd=None, env=ENV, timeout=3600):
    p = subprocess.run(cmd, shell=True, cwd=cwd, env=env, capture_output=True, text=True, timeout=timeout)
    return p.returncode, (p.stdout + p.stderr)
log = {}
meta = json.load(open(f'{SEED}/meta.json'))
head = subprocess.run(['git', '-C', '/repo', 'rev-parse', 'HEAD'], capture_output=True, text=True).stdout.strip()
if os.path.isdir(WT):
    sh(f'git -C /repo worktree remove --force {WT}')
rc, out = sh(f'git -C /repo worktree add --detach {WT} {head}')
assert rc == 0, out
try:
    demo = meta.get('demo', {})
    copy_to = demo.get('copy_to', '')
    cmd = demo.get('cmd', '')
    # normalise paths the agent may have written as absolute paths in its own worktree
    for pref in (f'/tmp/seed-{ID}-{N}/', f'/tmp/seed-{ID}-{N}'):
        copy_to = copy_to.replace(pref, '')
    # in the command the seeder's worktree becomes the evaluation worktree ("cd /tmp/seed-X-N && ..." stays meaningful)
    cmd = cmd.replace(f'/tmp/seed-{ID}-{N}', WT)
    copy_dir = copy_to.split(' ')[0].strip() if copy_to else ''
    created = []
    def put_demo():
        shutil.copytree(SEED, os.path.join(WT, 'SEED'), dirs_exist_ok=True)
        if os.path.exists(f'{SEED}/demo_test.go') and 'cp ' not in cmd and copy_dir:
            dst = os.path.join(WT, copy_dir)
            if not os.path.isdir(dst):
                os.makedirs(dst); created.append(dst)
            shutil.copy(f'{SEED}/demo_test.go', os.path.join(dst, 'zz_seed_demo_test.go'))
    def del_demo():
        # remove everything untracked that the demonstration created
        sh('git clean -fdq', cwd=WT)
    # 1. demo without the patch
    put_demo()
    rc0, out0 = sh(cmd, cwd=WT)
    log['demo_without_patch'] = {'cmd': cmd, 'rc': rc0, 'tail': out0[-600:]}
    # touched packages' tests without the patch
    pkgs = sorted({'./' + os.path.dirname(f) for f in meta.get('files_changed', []) if f.endswith('.go')})
    del_demo()
    base = {}
    for p in pkgs:
        base[p] = sh(f'go test -count=1 -vet=off {p}', cwd=WT, timeout=1800)[0]
    # 2. apply
    rc, out = sh(f'git apply {SEED}/patch.diff', cwd=WT)
    if rc != 0:  # /repo moved on since the seed was made (a fix: commit nearby): try a 3-way / fuzzy application
        rc, out2 = sh(f'git apply --3way {SEED}/patch.diff', cwd=WT)
        if rc != 0:
            rc, out2 = sh(f'patch -p1 -F3 --no-backup-if-mismatch < {SEED}/patch.diff', cwd=WT)
        out += out2
        sh('git reset -q', cwd=WT)
        log['apply_note'] = 'applied with 3-way/fuzz because /repo HEAD changed near the patch'
    log['apply'] = {'rc': rc, 'out': out[-400:]}
    assert rc == 0, 'patch does not apply: ' + out
    rc, out = sh('go build ./...', cwd=WT)
    log['build'] = {'rc': rc, 'tail': out[-400:]}
    assert rc == 0, 'patched tree does not build'
    withp = {}
    for p in pkgs:
        withp[p] = sh(f'go test -count=1 -vet=off {p}', cwd=WT, timeout=1800)[0]
    log['package_tests'] = {'without': base, 'with': withp}
    put_demo()
    rc1, out1 = sh(cmd, cwd=WT)
    log['demo_with_patch'] = {'rc': rc1, 'tail': out1[-600:]}
    del_demo()
    ok = (rc0 == 0 and rc1 != 0 and base == withp)
    log['confirmed'] = ok
    print(f'[{ID}-{N}] demo without patch rc={rc0}, with patch rc={rc1}; package tests same={base == withp} {withp}')
    # 3. run the check
    vd = f'/verif/build/seeddir-{ID}-{N}'
    os.makedirs(vd, exist_ok=True)
    shutil.copy('/verif/known_findings.json', vd)
    t0 = time.time()
    env = dict(ENV, VERIF_REPO=WT, VERIF_DIR=vd)
    rc, out = sh(f'/verif/run.sh {ID} {tier}', env=env, timeout=7200)
    lines = [l for l in out.splitlines() if l.startswith(('VIOLATION', 'OK ', '  signature', 'INFRA'))]
    log['check'] = {'tier': tier, 'rc': rc, 'wall_s': round(time.time() - t0, 1), 'lines': lines[:10]}
    print(f'[{ID}-{N}] check {tier}: exit {rc} in {log["check"]["wall_s"]}s')
    for l in lines[:6]: print('   ', l)
    if rc == 2: print(out[-1500:])
    # 4. store
    dst = f'/verif/seeded/{ID}-{N}'
    os.makedirs(dst, exist_ok=True)
    shutil.copy(f'{SEED}/patch.diff', dst)
    for f in ('demo_test.go',):
        if os.path.exists(f'{SEED}/{f}'): shutil.copy(f'{SEED}/{f}', dst)
    if os.path.isdir(f'{SEED}/demo'): shutil.copytree(f'{SEED}/demo', f'{dst}/demo', dirs_exist_ok=True)
    meta['evaluation'] = log
    meta['repo_commit'] = head
    meta['detected_by_check'] = (rc == 1)
    json.dump(meta, open(f'{dst}/meta.json', 'w'), indent=1)
    shutil.rmtree(vd, ignore_errors=True)
finally:
    sh(f'git -C /repo worktree remove --force {WT}')
