#!/bin/bash
# thor_subset.sh <ID>...: thorough tier of the named checks, one line each
cd "$(dirname "$0")/.."
for ID in "$@"; do s=$(date +%s); ./run.sh $ID thorough > /tmp/thor2_$ID.log 2>&1; rc=$?; e=$(date +%s); echo "$ID thorough exit=$rc wall=$((e-s))s $(grep -c '^VIOLATION' /tmp/thor2_$ID.log) violations"; done
