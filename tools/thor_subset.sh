#!/bin/bash
for ID in C07 C08 C09 C20 C02 C14; do s=$(date +%s); ./run.sh $ID thorough > /tmp/thor2_$ID.log 2>&1; rc=$?; e=$(date +%s); echo "$ID thorough exit=$rc wall=$((e-s))s $(grep -c '^VIOLATION' /tmp/thor2_$ID.log) violations"; done
