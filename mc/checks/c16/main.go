// C16: address translation forwards every access faithfully, exactly once.
// Real addresstranslator.Comp under the real serial engine; the environment
// plays requester (Top), translation service, two memory modules (Bottom) and
// the controller, with reply order / delay / back-pressure owned by the explorer.
package main

import (
	"bytes"
	"fmt"

	"github.com/sarchlab/akita/v4/mem/mem"
	"github.com/sarchlab/akita/v4/mem/vm"
	"github.com/sarchlab/akita/v4/sim"
	"github.com/sarchlab/mgpusim/v4/amd/timing/mem/addresstranslator"

	"verif/mc/explore"
	"verif/mc/harness"
	"verif/mc/world"
)

type reqSpec struct {
	write bool
	addr  uint64
	size  uint64
	pid   vm.PID
	mask  bool
}

type cfg struct {
	width        int
	log2Page     uint64
	stream, post []reqSpec
	flushAt      int
	flush2At     int       // second flush this many cycles after the first restart was acknowledged; 0 = none
	post2        []reqSpec // injected after the second restart
	restartDelay int
	// twoTLBs: two translation providers interleaved by virtual page; singleMem: one memory module instead of two
	// interleaved by physical page (the builder's other mapper types)
	twoTLBs, singleMem bool
}

// frame is the (non-identity) page table of the environment.
func frame(pid vm.PID, vpage uint64, log2 uint64) uint64 {
	return (uint64(pid)*7+(vpage>>log2)*3+5)<<log2 + 0x100000
}

func mkReq(s reqSpec, i int, src, dst sim.RemotePort) mem.AccessReq {
	if s.write {
		data := make([]byte, s.size)
		for j := range data {
			data[j] = byte(0x40 + i*16 + j%16)
		}
		b := mem.WriteReqBuilder{}.WithSrc(src).WithDst(dst).WithAddress(s.addr).WithPID(s.pid).WithData(data)
		if s.mask {
			m := make([]bool, s.size)
			for j := range m {
				m[j] = j%2 == 0
			}
			b = b.WithDirtyMask(m)
		}
		return b.Build()
	}
	return mem.ReadReqBuilder{}.WithSrc(src).WithDst(dst).WithAddress(s.addr).WithByteSize(s.size).WithPID(s.pid).Build()
}

func body(c cfg) explore.Body {
	return func(x *explore.Exec) *explore.Violation {
		w := world.New(x, 500)
		const reqName, ctlName, tlbName = sim.RemotePort("Env.Req"), sim.RemotePort("Env.Ctl"), sim.RemotePort("Env.TLB")
		mems := []sim.RemotePort{"Env.Mem0", "Env.Mem1"}
		tlbs := []sim.RemotePort{tlbName}
		ab := addresstranslator.MakeBuilder().WithEngine(w.Engine).WithFreq(w.Freq).
			WithNumReqPerCycle(c.width).WithLog2PageSize(c.log2Page).WithDeviceID(3)
		if c.twoTLBs {
			tlbs = []sim.RemotePort{"Env.TLB0", "Env.TLB1"}
			ab = ab.WithTranslationProviderMapperType("interleaved").WithTranslationProviders(tlbs...)
		} else {
			ab = ab.WithTranslationProvider(tlbName)
		}
		if c.singleMem {
			mems = mems[:1]
			ab = ab.WithMemoryProviderType("single").WithMemoryProviders(mems...)
		} else {
			ab = ab.WithMemoryProviderType("interleaved").WithMemoryProviders(mems...)
		}
		at := ab.Build("AT")
		top, bot, tr, ctl := at.GetPortByName("Top"), at.GetPortByName("Bottom"), at.GetPortByName("Translation"), at.GetPortByName("Control")
		w.NewWire("wire", top, bot, tr, ctl)
		pageSize := uint64(1) << c.log2Page

		var viol *explore.Violation
		fail := func(sig, f string, a ...any) {
			if viol == nil {
				viol = explore.Viol(sig, f, a...)
			}
		}
		type acc struct {
			n         int
			req       mem.AccessReq
			discarded bool
			answered  bool
			fwd       mem.AccessReq
			memData   []byte
		}
		var accepted []*acc
		byID := map[string]*acc{}
		byFwd := map[string]*acc{}
		flushed, restarted := false, false
		nCtlAcks := 0
		var trace bytes.Buffer
		expPAddr := func(a *acc) uint64 {
			va := a.req.GetAddress()
			return frame(a.req.GetPID(), va&^(pageSize-1), c.log2Page) + va%pageSize
		}

		world.OnSend(bot, func(m sim.Msg) {
			req, ok := m.(mem.AccessReq)
			if !ok {
				fail("bottom-non-request", "%T on bottom port", m)
				return
			}
			// find the accepted access this forward belongs to
			var match *acc
			for _, a := range accepted {
				if a.fwd != nil || a.discarded {
					continue
				}
				if expPAddr(a) != req.GetAddress() {
					continue
				}
				switch o := a.req.(type) {
				case *mem.ReadReq:
					if fr, ok := req.(*mem.ReadReq); ok && fr.AccessByteSize == o.AccessByteSize {
						match = a
					}
				case *mem.WriteReq:
					if fw, ok := req.(*mem.WriteReq); ok && bytes.Equal(fw.Data, o.Data) && fmt.Sprint(fw.DirtyMask) == fmt.Sprint(o.DirtyMask) {
						match = a
					}
				}
				if match != nil {
					break
				}
			}
			if match == nil {
				// explain: same address but different payload, or wrong address
				for _, a := range accepted {
					if a.fwd != nil && expPAddr(a) == req.GetAddress() {
						fail("access-forwarded-twice", "access #%d forwarded again (paddr %x)", a.n, req.GetAddress())
						return
					}
				}
				for _, a := range accepted {
					if a.discarded && a.fwd == nil && expPAddr(a) == req.GetAddress() {
						fail("discarded-access-forwarded", "access #%d was discarded by the flush but is forwarded (paddr %x)", a.n, req.GetAddress())
						return
					}
				}
				fail("forward-not-faithful", "forwarded %T paddr=%x size=%d matches no pending access (wrong physical address, size, data or mask)", req, req.GetAddress(), req.GetByteSize())
				return
			}
			match.fwd = req
			byFwd[req.Meta().ID] = match
			wantDst := mems[(req.GetAddress()/pageSize)%uint64(len(mems))]
			if m.Meta().Dst != wantDst {
				fail("forward-wrong-memory-module", "paddr %x sent to %s want %s", req.GetAddress(), m.Meta().Dst, wantDst)
			}
			fmt.Fprintf(&trace, "F%d;", match.n)
		})
		world.OnSend(top, func(m sim.Msg) {
			rsp, ok := m.(mem.AccessRsp)
			if !ok {
				fail("top-non-response", "%T on top port", m)
				return
			}
			a := byID[rsp.GetRspTo()]
			if a == nil {
				fail("response-unknown-id", "response to unknown id %s", rsp.GetRspTo())
				return
			}
			fmt.Fprintf(&trace, "R%d@%d;", a.n, w.Cycle())
			if a.discarded {
				fail("response-for-discarded-access", "response for access #%d delivered after the flush", a.n)
				return
			}
			if a.answered {
				fail("duplicate-response", "access #%d answered twice", a.n)
				return
			}
			a.answered = true
			if a.fwd == nil {
				fail("response-before-forward", "access #%d answered but never forwarded", a.n)
				return
			}
			if m.Meta().Dst != a.req.Meta().Src {
				fail("response-wrong-destination", "dst %s want %s", m.Meta().Dst, a.req.Meta().Src)
			}
			switch a.req.(type) {
			case *mem.ReadReq:
				dr, ok := rsp.(*mem.DataReadyRsp)
				if !ok {
					fail("response-wrong-type", "read answered with %T", rsp)
				} else if !bytes.Equal(dr.Data, a.memData) {
					fail("response-wrong-payload", "read #%d answered with %x, memory returned %x", a.n, dr.Data, a.memData)
				}
			case *mem.WriteReq:
				if _, ok := rsp.(*mem.WriteDoneRsp); !ok {
					fail("response-wrong-type", "write answered with %T", rsp)
				}
			}
		})
		world.OnSend(ctl, func(m sim.Msg) {
			nCtlAcks++
			if nCtlAcks%2 == 1 {
				flushed, restarted = true, false
				for _, a := range accepted {
					if !a.answered {
						a.discarded = true
					}
				}
				fmt.Fprintf(&trace, "FLUSH;")
			} else {
				restarted = true
				fmt.Fprintf(&trace, "RESTART;")
			}
		})
		translations := 0
		world.OnSend(tr, func(m sim.Msg) {
			translations++
			t, ok := m.(*vm.TranslationReq)
			if !ok {
				fail("translation-port-non-request", "%T", m)
				return
			}
			if want := tlbs[(t.VAddr/pageSize)%uint64(len(tlbs))]; m.Meta().Dst != want {
				fail("translation-sent-to-wrong-provider", "lookup of vaddr %x sent to %s, the mapper gives %s", t.VAddr, m.Meta().Dst, want)
			}
		})

		src := &world.Feeder{W: w, Port: top, Tag: "top", DelayAlphabet: []int{1, 3}}
		src.OnDeliver = func(m sim.Msg) {
			a := &acc{n: len(accepted), req: m.(mem.AccessReq)}
			if flushed && !restarted {
				a.discarded = true
			}
			accepted = append(accepted, a)
			byID[m.Meta().ID] = a
			fmt.Fprintf(&trace, "A%d;", a.n)
		}
		for i, s := range c.stream {
			src.Add(mkReq(s, i, reqName, top.AsRemote()), true)
		}
		tlbF := &world.Feeder{W: w, Port: tr, Tag: "tlb", Reorder: true, DelayAlphabet: []int{2, 6}}
		trSink := &world.Sink{W: w, Port: tr, Tag: "tlb", StallAlphabet: []int{1, 4}}
		trSink.Handle = func(m sim.Msg) {
			t := m.(*vm.TranslationReq)
			page := vm.Page{PID: t.PID, VAddr: t.VAddr &^ (pageSize - 1), PAddr: frame(t.PID, t.VAddr&^(pageSize-1), c.log2Page), PageSize: pageSize, Valid: true, DeviceID: t.DeviceID}
			tlbF.Add(vm.TranslationRspBuilder{}.WithSrc(m.Meta().Dst).WithDst(tr.AsRemote()).WithRspTo(t.ID).WithPage(page).Build(), true)
		}
		memF := &world.Feeder{W: w, Port: bot, Tag: "mem", Reorder: true, DelayAlphabet: []int{2, 6}}
		nMem := 0
		botSink := &world.Sink{W: w, Port: bot, Tag: "mem", StallAlphabet: []int{1, 4}}
		botSink.Handle = func(m sim.Msg) {
			nMem++
			a := byFwd[m.Meta().ID]
			switch r := m.(type) {
			case *mem.ReadReq:
				data := make([]byte, r.AccessByteSize)
				for j := range data {
					data[j] = byte(nMem*16 + j)
				}
				if a != nil {
					a.memData = data
				}
				memF.Add(mem.DataReadyRspBuilder{}.WithSrc(m.Meta().Dst).WithDst(bot.AsRemote()).WithRspTo(r.ID).WithData(data).Build(), true)
			case *mem.WriteReq:
				memF.Add(mem.WriteDoneRspBuilder{}.WithSrc(m.Meta().Dst).WithDst(bot.AsRemote()).WithRspTo(r.ID).Build(), true)
			}
		}
		memF.OnDeliver = func(m sim.Msg) {
			if a := byFwd[m.(mem.AccessRsp).GetRspTo()]; a != nil {
				fmt.Fprintf(&trace, "M%d;", a.n)
			}
		}
		topSink := &world.Sink{W: w, Port: top, Tag: "top", StallAlphabet: []int{1, 4}}
		topSink.Handle = func(m sim.Msg) {}
		fc := &world.FlushCtl{W: w, Port: ctl, Name: ctlName, At: c.flushAt, RestartDelay: c.restartDelay, At2: c.flush2At}
		fc.OnRestarted2 = func() {
			for i, s := range c.post2 {
				src.Add(mkReq(s, 12+i, reqName, top.AsRemote()), true)
			}
		}
		fc.MkDiscard = func() sim.Msg {
			return mem.ControlMsgBuilder{}.WithSrc(ctlName).WithDst(ctl.AsRemote()).ToDiscardTransactions().Build()
		}
		fc.MkRestart = func() sim.Msg {
			return mem.ControlMsgBuilder{}.WithSrc(ctlName).WithDst(ctl.AsRemote()).ToRestart().Build()
		}
		fc.OnRestarted = func() {
			for i, s := range c.post {
				src.Add(mkReq(s, 8+i, reqName, top.AsRemote()), true)
			}
		}
		w.Step = func() bool {
			pending := fc.Step()
			pending = topSink.Step(c.width) || pending
			pending = botSink.Step(c.width) || pending
			pending = trSink.Step(c.width) || pending
			if !fc.Active() {
				pending = src.Step(c.width) || pending
			}
			pending = tlbF.Step(c.width) || pending
			pending = memF.Step(c.width) || pending
			return pending
		}
		quiet := w.Run()
		if viol != nil {
			return viol
		}
		if !quiet {
			return nil
		}
		for _, a := range accepted {
			if a.discarded {
				continue
			}
			if a.fwd == nil {
				return explore.Viol("access-never-forwarded", "access #%d of %d never left the Bottom port at quiescence", a.n, len(accepted))
			}
			if !a.answered {
				return explore.Viol("access-never-answered", "access #%d of %d never answered at quiescence", a.n, len(accepted))
			}
		}
		want := len(c.stream)
		if c.flushAt > 0 {
			want += len(c.post)
			if c.flush2At > 0 {
				want += len(c.post2)
			}
			if fc.Acks != fc.WantAcks() {
				return explore.Viol("flush-not-acknowledged", "control acks=%d want %d", fc.Acks, fc.WantAcks())
			}
		}
		if len(accepted) != want {
			return explore.Viol("request-not-accepted", "accepted %d of %d", len(accepted), want)
		}
		fmt.Fprintf(&trace, "T%d", translations)
		x.Outcome(trace.String())
		return nil
	}
}

func main() {
	r := harness.Start("C16", "model_checking")
	// two virtual pages x two PIDs; offsets are unique so a forwarded request identifies its access
	streams := [][]reqSpec{
		{{false, 0x1004, 4, 1, false}, {true, 0x1008, 4, 1, false}, {false, 0x1c10, 8, 2, false}},                              // same page+PID coalesce; same page other PID
		{{true, 0x1ffc, 4, 1, true}, {false, 0x2fc0, 64, 1, false}, {false, 0x2840, 4, 2, false}},                              // page end / next page
		{{false, 0x1020, 4, 2, false}, {false, 0x2024, 4, 2, false}, {true, 0x1028, 8, 2, true}, {false, 0x1030, 4, 1, false}}, // interleaved pages, return to first
		// accesses that run past the end of their page (valid: size, data and mask must leave unchanged; only the start address is translated)
		{{false, 0x1fe0, 64, 1, false}, {true, 0x2fff, 4, 2, true}, {true, 0x1ffe, 4, 1, false}, {false, 0x1ff9, 8, 1, false}},
	}
	long := []reqSpec{{false, 0x1004, 4, 1, false}, {true, 0x1008, 4, 1, false}, {false, 0x100c, 8, 2, false}, {true, 0x2010, 8, 1, true}, {false, 0x1018, 16, 1, false}}
	post := []reqSpec{{false, 0x1044, 4, 1, false}, {true, 0x2048, 4, 2, true}}
	bound := 3
	if r.Thorough() {
		bound = 4
		streams = append(streams, long)
	}
	var scs []harness.Scenario
	add := func(name string, c cfg, b int) {
		scs = append(scs, harness.Scenario{Name: name, Bound: b, Body: body(c)})
	}
	for si, st := range streams {
		for _, wd := range []int{1, 2} {
			b := bound
			if len(st) >= 4 && !r.Thorough() {
				b = bound - 1
			}
			add(fmt.Sprintf("stream%d/width%d/noflush", si, wd), cfg{width: wd, log2Page: 12, stream: st}, b)
		}
	}
	// page sizes other than 4 KiB (the builder's default): offsets that use the bits between 12 and the page size, and
	// small pages whose number takes bits below 12
	for _, lp := range []uint64{10, 16, 21} {
		pg := uint64(1) << lp
		st := []reqSpec{
			{false, 1*pg | 0x4, 4, 1, false},
			{true, 1*pg | pg/2 | 0x8, 4, 1, true},    // offset with its top bit set
			{false, 2*pg - 64, 64, 1, false},         // last line of page 1
			{false, 2*pg | pg/4 | 0x40, 4, 2, false}, // next page, other PID
			{true, 1*pg | (pg - 128), 8, 2, false},   // near the end of page 1, other PID
		}
		for _, wd := range []int{1, 2} {
			add(fmt.Sprintf("page2^%d/width%d/noflush", lp, wd), cfg{width: wd, log2Page: lp, stream: st}, bound-1)
		}
	}
	// the builder's other mapper types
	for si, st := range streams[:2] {
		add(fmt.Sprintf("stream%d/width2/two-tlbs", si), cfg{width: 2, log2Page: 12, stream: st, twoTLBs: true}, bound-1)
		add(fmt.Sprintf("stream%d/width2/single-memory", si), cfg{width: 2, log2Page: 12, stream: st, singleMem: true}, bound-1)
	}
	add("page2^16/width2/two-tlbs+single-memory", cfg{width: 2, log2Page: 16, stream: []reqSpec{{false, 1<<16 | 0x4, 4, 1, false}, {true, 2<<16 | 0x8008, 4, 1, true}, {false, 3<<16 | 0x40, 64, 2, false}}, twoTLBs: true, singleMem: true}, bound-1)
	flushPoints := []int{2, 3, 4, 5, 6, 8}
	if r.Thorough() {
		flushPoints = []int{1, 2, 3, 4, 5, 6, 7, 8, 9, 10, 12, 14}
	}
	for _, fa := range flushPoints {
		for _, rd := range []int{0, 3} {
			add(fmt.Sprintf("stream0/width1/flush@%d/restart+%d", fa, rd), cfg{width: 1, log2Page: 12, stream: streams[0], post: post, flushAt: fa, restartDelay: rd}, bound-1)
		}
		add(fmt.Sprintf("stream1/width2/flush@%d/restart+0", fa), cfg{width: 2, log2Page: 12, stream: streams[1], post: post, flushAt: fa}, bound-1)
	}
	// two flush/restart rounds: the second flush meets a translator that was already flushed and restarted once and is
	// serving the traffic injected after the first restart (same page as discarded accesses: a stale translation must not be reused)
	post2 := []reqSpec{{true, 0x1050, 8, 1, false}, {false, 0x2058, 4, 2, false}}
	flush2, first := []int{2, 4}, []int{3, 5}
	if r.Thorough() {
		flush2, first = []int{1, 2, 3, 4, 5, 7, 9}, []int{2, 3, 4, 5, 6, 8}
	}
	for _, fa := range first {
		for _, f2 := range flush2 {
			add(fmt.Sprintf("stream0/width1/flush@%d/restart+0/flush2@+%d", fa, f2),
				cfg{width: 1, log2Page: 12, stream: streams[0], post: post, flushAt: fa, flush2At: f2, post2: post2}, bound-1)
			if r.Thorough() {
				add(fmt.Sprintf("stream1/width2/flush@%d/restart+3/flush2@+%d", fa, f2),
					cfg{width: 2, log2Page: 12, stream: streams[1], post: post, flushAt: fa, restartDelay: 3, flush2At: f2, post2: post2}, bound-2)
			}
		}
	}
	r.Assume = []string{
		"requester sends no new request between the flush request and the restart acknowledgement",
		"'discarded' = accepted but not yet answered when the flush is acknowledged",
		"accesses do not cross a page boundary (a translator works on one page per access)",
		"each access in a stream has a unique page offset so that forwarded requests identify their origin",
	}
	r.RunScenarios(scs)
	r.Finish()
}
