// C09: work-groups are dispatched exactly once within compute-unit resources.
// Real cp.CommandProcessor (with its real dispatchers, algorithms and CU
// resource pool) under the real serial engine. The environment plays the
// driver and the compute units (finite resources); the explorer owns the
// order and delay of work-group completions, back-pressure on the CU-facing
// and driver-facing wires and launch timing. A full-capacity probe kernel at
// the end makes a resource leak observable as non-completion.
package main

import (
	"bytes"
	"flag"
	"fmt"
	"os"
	"strings"

	"github.com/sarchlab/akita/v4/sim"
	"github.com/sarchlab/mgpusim/v4/amd/insts"
	"github.com/sarchlab/mgpusim/v4/amd/kernels"
	"github.com/sarchlab/mgpusim/v4/amd/protocol"
	"github.com/sarchlab/mgpusim/v4/amd/timing/cp"

	"verif/mc/cuworld"
	"verif/mc/explore"
	"verif/mc/harness"
	"verif/mc/world"
)

// ---------------------------------------------------------------- model of a CU's resources
type cuSpec struct {
	simds, slots, sgprs, vgprsPerLane, lds int
	// vgprsLast > 0: the last SIMD's register file holds this many VGPRs per lane instead of vgprsPerLane
	// (DispatchableCU.VRegCounts is a per-SIMD list; nothing says the entries are equal)
	vgprsLast int
}

func (s cuSpec) vgprsOf(simd int) int {
	if s.vgprsLast > 0 && simd == s.simds-1 {
		return s.vgprsLast
	}
	return s.vgprsPerLane
}

type envCU struct {
	name string
	spec cuSpec
}

func (c *envCU) DispatchingPort() sim.RemotePort { return sim.RemotePort(c.name + ".Dispatch") }
func (c *envCU) ControlPort() sim.RemotePort     { return sim.RemotePort(c.name + ".Ctrl") }
func (c *envCU) WfPoolSizes() []int {
	s := make([]int, c.spec.simds)
	for i := range s {
		s[i] = c.spec.slots
	}
	return s
}
func (c *envCU) VRegCounts() []int {
	s := make([]int, c.spec.simds)
	for i := range s {
		s[i] = c.spec.vgprsOf(i) * 64
	}
	return s
}
func (c *envCU) SRegCount() int { return c.spec.sgprs }
func (c *envCU) LDSBytes() int  { return c.spec.lds }

type kern struct {
	wgs, wfPerWG int
	sgpr, vgpr   int // per wavefront / per work-item register demand
	lds          int // static LDS in the code object
	dynLDS       int // extra dynamic LDS (packet.GroupSegmentSize = lds + dynLDS)
	filterOdd    bool
	injectAt     int
	// tail > 0: the last work-group holds only tail work-items (grid size not a multiple of the work-group size),
	// so its last wavefront is partially populated
	tail int
}

type cfg struct {
	cuPortBuf   int    // > 0: the CP's CU-facing port gets this outgoing-buffer size (default 4096): back-pressure on map requests
	batch       bool   // CUs batch completions like the emulation CU: one message when the CU becomes idle
	alg         string // "" = the Builder's own (round-robin)
	dispatchers int
	cus         []cuSpec
	kernels     []kern
	// drvPortBuf > 0: the CP's driver-facing port gets this outgoing-buffer size (default 4096) and the driver takes
	// one message per drvEvery cycles: back-pressure on kernel-completion responses
	drvPortBuf, drvEvery int
	only                 map[string]bool // report these signatures only (part mode)
}

func mkCfg(cuPortBuf int, batch bool, alg string, dispatchers int, cus []cuSpec, kernels []kern) cfg {
	return cfg{cuPortBuf: cuPortBuf, batch: batch, alg: alg, dispatchers: dispatchers, cus: cus, kernels: kernels}
}

type resident struct {
	k, wg int
	cu    int
	locs  []protocol.WfDispatchLocation
	sgprB int // bytes
	vgprB int
	ldsB  int
	done  bool
	mapID string
}

func roundUp(a, g int) int { return (a + g - 1) / g * g }

func body(c cfg) explore.Body {
	return func(x *explore.Exec) *explore.Violation {
		w := world.New(x, 4000)
		var viol *explore.Violation
		fail := func(sig, f string, a ...any) {
			if c.only != nil && !c.only[sig] {
				return // running as a part of another check: that check's oracles only (the first failure of ITS class counts)
			}
			if viol == nil {
				viol = explore.Viol(sig, f, a...)
			}
		}
		var cus []*envCU
		var ifc []cp.CUInterfaceForCP
		for i, s := range c.cus {
			u := &envCU{name: fmt.Sprintf("CU%d", i), spec: s}
			cus = append(cus, u)
			ifc = append(ifc, u)
		}
		b := cp.MakeBuilder().WithEngine(w.Engine).WithFreq(w.Freq).WithConstantKernelOverhead(2)
		if c.alg == "" { // the Builder's own configuration: 8 round-robin dispatchers
			for _, u := range ifc {
				b = b.WithCU(u)
			}
		}
		p := b.Build("CP")
		if c.cuPortBuf > 0 && c.alg != "" {
			p.ToCUs = sim.NewPort(p, 4096, c.cuPortBuf, "CP.ToCUs")
		}
		if c.drvPortBuf > 0 && c.alg != "" {
			p.ToDriver = sim.NewPort(p, 4096, c.drvPortBuf, "CP.ToDriver")
		}
		if c.alg != "" {
			cp.VerifUseDispatchers(p, c.alg, c.dispatchers, 2, ifc)
		}
		toDriver, toCUs := p.ToDriver, p.ToCUs
		w.NewWire("wire", toDriver, toCUs)
		const drv = sim.RemotePort("Env.Driver")

		// ---- kernels: plus the probe kernel
		type launch struct {
			k        kern
			req      *protocol.LaunchKernelReq
			numWG    int
			mapped   map[[3]int]int
			complete int // completions delivered to the CP
			rsp      int
			sent     bool
		}
		var launches []*launch
		mkLaunch := func(k kern) *launch {
			co := &insts.KernelCodeObject{KernelCodeObjectMeta: &insts.KernelCodeObjectMeta{}}
			co.WFSgprCount = uint16(k.sgpr)
			co.WIVgprCount = uint16(k.vgpr)
			co.GroupSegmentByteSize = uint32(k.lds)
			pk := &kernels.HsaKernelDispatchPacket{
				WorkgroupSizeX: uint16(64 * k.wfPerWG), WorkgroupSizeY: 1, WorkgroupSizeZ: 1,
				GridSizeX: uint32(64 * k.wfPerWG * k.wgs), GridSizeY: 1, GridSizeZ: 1,
				GroupSegmentSize: uint32(k.lds + k.dynLDS),
			}
			if k.tail > 0 {
				pk.GridSizeX = uint32(64*k.wfPerWG*(k.wgs-1) + k.tail)
			}
			r := protocol.NewLaunchKernelReq(fakePort(drv), toDriver)
			r.PID = 1
			r.Packet = pk
			r.CodeObject = co
			n := k.wgs
			if k.filterOdd {
				r.WGFilter = func(pkt *kernels.HsaKernelDispatchPacket, wg *kernels.WorkGroup) bool { return wg.IDX%2 == 1 }
				n = k.wgs / 2
			}
			return &launch{k: k, req: r, numWG: n, mapped: map[[3]int]int{}}
		}
		for _, k := range c.kernels {
			launches = append(launches, mkLaunch(k))
		}
		// probe: one work-group per CU that needs the CU's whole capacity, launched after everything else finished
		var probes []*launch
		for _, s := range c.cus {
			minV := s.vgprsPerLane // every wavefront of the probe asks for the same number: the smallest register file decides
			if s.vgprsLast > 0 && s.vgprsLast < minV {
				minV = s.vgprsLast
			}
			probes = append(probes, mkLaunch(kern{wgs: 1, wfPerWG: s.simds * s.slots, sgpr: s.sgprs / (s.simds * s.slots), vgpr: minV / s.slots, lds: s.lds}))
		}
		_ = probes

		var res []*resident
		var trace bytes.Buffer
		byMap := map[string]*resident{}
		findLaunch := func(wg *kernels.WorkGroup) (int, *launch) {
			for i, l := range launches {
				if l.req.Packet == wg.Packet {
					return i, l
				}
			}
			return -1, nil
		}

		// ---- monitor on the CP's own ports
		world.OnSend(toCUs, func(m sim.Msg) {
			req, ok := m.(*protocol.MapWGReq)
			if !ok {
				return // control traffic is not used here
			}
			ki, l := findLaunch(req.WorkGroup)
			if l == nil {
				fail("map-unknown-kernel", "MapWGReq for an unknown kernel")
				return
			}
			id := [3]int{req.WorkGroup.IDX, req.WorkGroup.IDY, req.WorkGroup.IDZ}
			l.mapped[id]++
			if l.mapped[id] > 1 {
				fail("work-group-mapped-twice", "kernel %d work-group %v mapped %d times", ki, id, l.mapped[id])
				return
			}
			if l.k.filterOdd && id[0]%2 != 1 {
				fail("filtered-work-group-mapped", "kernel %d work-group %v is excluded by the filter", ki, id)
			}
			if id[0] < 0 || id[0] >= l.k.wgs {
				fail("work-group-outside-grid", "kernel %d work-group %v", ki, id)
			}
			cuIdx := -1
			for i, u := range cus {
				if u.DispatchingPort() == m.Meta().Dst {
					cuIdx = i
				}
			}
			if cuIdx < 0 {
				fail("map-unknown-cu", "MapWGReq to %s", m.Meta().Dst)
				return
			}
			spec := c.cus[cuIdx]
			wgItems := 64 * l.k.wfPerWG
			if l.k.tail > 0 && id[0] == l.k.wgs-1 {
				wgItems = l.k.tail
			}
			if wantWfs := (wgItems + 63) / 64; len(req.Wavefronts) != wantWfs || len(req.WorkGroup.Wavefronts) != wantWfs {
				fail("map-wrong-wavefront-count", "kernel %d wg %v: %d wavefront locations, %d wavefronts in the work-group, %d expected", ki, id, len(req.Wavefronts), len(req.WorkGroup.Wavefronts), wantWfs)
			}
			// the lanes a wavefront starts with are exactly the work-items it holds (no lane for a coordinate outside the grid)
			for j, wf := range req.WorkGroup.Wavefronts {
				n := wgItems - 64*j
				if n > 64 {
					n = 64
				}
				want := ^uint64(0)
				if n < 64 {
					want = uint64(1)<<uint(n) - 1
				}
				if wf.InitExecMask != want {
					fail("wavefront-initial-exec-mask-wrong", "kernel %d wg %v wavefront %d holds %d work-items but starts with EXEC %#016x (want %#016x)", ki, id, j, n, wf.InitExecMask, want)
				}
			}
			r := &resident{k: ki, wg: id[0], cu: cuIdx, locs: req.Wavefronts, mapID: req.ID,
				sgprB: roundUp(l.k.sgpr, 16) * 4, vgprB: roundUp(l.k.vgpr, 4) * 4, ldsB: roundUp(l.k.lds+l.k.dynLDS, 256)}
			// independent occupancy model: within capacity and disjoint from every resident work-group of this CU
			type rng struct{ lo, hi int }
			overlap := func(a, b rng) bool { return a.lo < b.hi && b.lo < a.hi && a.hi > a.lo && b.hi > b.lo }
			slots := make([]int, spec.simds)
			var sg, lds []rng
			vg := make([][]rng, spec.simds)
			note := func(q *resident, isNew bool) {
				for _, loc := range q.locs {
					if loc.SIMDID < 0 || loc.SIMDID >= spec.simds {
						fail("simd-out-of-range", "SIMD %d", loc.SIMDID)
						return
					}
					slots[loc.SIMDID]++
					ns := rng{loc.SGPROffset, loc.SGPROffset + q.sgprB}
					nv := rng{loc.VGPROffset, loc.VGPROffset + q.vgprB}
					if isNew {
						if ns.hi > spec.sgprs*4 {
							fail("sgpr-beyond-capacity", "kernel %d wg %d on CU%d: SGPR bytes [%d,%d) capacity %d", q.k, q.wg, q.cu, ns.lo, ns.hi, spec.sgprs*4)
						}
						if nv.hi > spec.vgprsOf(loc.SIMDID)*4 {
							fail("vgpr-beyond-capacity", "kernel %d wg %d on CU%d SIMD%d: VGPR bytes/lane [%d,%d) capacity %d", q.k, q.wg, q.cu, loc.SIMDID, nv.lo, nv.hi, spec.vgprsOf(loc.SIMDID)*4)
						}
						for _, o := range sg {
							if overlap(o, ns) {
								fail("sgpr-overlap", "kernel %d wg %d on CU%d: SGPR bytes [%d,%d) overlap resident [%d,%d)", q.k, q.wg, q.cu, ns.lo, ns.hi, o.lo, o.hi)
							}
						}
						for _, o := range vg[loc.SIMDID] {
							if overlap(o, nv) {
								fail("vgpr-overlap", "kernel %d wg %d on CU%d SIMD%d: VGPR [%d,%d) overlap resident [%d,%d)", q.k, q.wg, q.cu, loc.SIMDID, nv.lo, nv.hi, o.lo, o.hi)
							}
						}
					}
					sg = append(sg, ns)
					vg[loc.SIMDID] = append(vg[loc.SIMDID], nv)
				}
				if len(q.locs) > 0 {
					nl := rng{q.locs[0].LDSOffset, q.locs[0].LDSOffset + q.ldsB}
					for _, loc := range q.locs {
						if loc.LDSOffset != nl.lo {
							fail("lds-offset-differs-within-work-group", "kernel %d wg %d", q.k, q.wg)
						}
					}
					if isNew {
						if nl.hi > spec.lds {
							sig := "lds-beyond-capacity"
							if launches[q.k].k.dynLDS > 0 {
								sig = "lds-beyond-capacity/dynamic-lds-not-accounted"
							}
							fail(sig, "kernel %d wg %d on CU%d: LDS [%d,%d) capacity %d", q.k, q.wg, q.cu, nl.lo, nl.hi, spec.lds)
						}
						for _, o := range lds {
							if overlap(o, nl) {
								sig := "lds-overlap"
								if launches[q.k].k.dynLDS > 0 {
									sig = "lds-overlap/dynamic-lds-not-accounted"
								}
								fail(sig, "kernel %d wg %d on CU%d: LDS [%d,%d) overlaps resident [%d,%d)", q.k, q.wg, q.cu, nl.lo, nl.hi, o.lo, o.hi)
							}
						}
					}
					lds = append(lds, nl)
				}
			}
			for _, q := range res {
				if q.cu == cuIdx && !q.done {
					note(q, false)
				}
			}
			note(r, true)
			for s, n := range slots {
				if n > spec.slots {
					fail("wavefront-slots-exceeded", "CU%d SIMD%d holds %d wavefronts, capacity %d", cuIdx, s, n, spec.slots)
				}
			}
			res = append(res, r)
			byMap[req.ID] = r
			fmt.Fprintf(&trace, "M%d.%d>%d;", ki, id[0], cuIdx)
		})
		world.OnSend(toDriver, func(m sim.Msg) {
			rsp, ok := m.(*protocol.LaunchKernelRsp)
			if !ok {
				fail("driver-port-unexpected-message", "%T", m)
				return
			}
			for i, l := range launches {
				if l.req.ID == rsp.RspTo {
					l.rsp++
					fmt.Fprintf(&trace, "K%d@%d;", i, w.Cycle())
					if l.rsp > 1 {
						fail("kernel-completion-sent-twice", "kernel %d", i)
					}
					if l.complete < l.numWG {
						fail("kernel-completion-before-last-work-group", "kernel %d: response after %d of %d work-group completions", i, l.complete, l.numWG)
					}
					if m.Meta().Dst != drv {
						fail("kernel-completion-wrong-destination", "%s", m.Meta().Dst)
					}
					return
				}
			}
			fail("kernel-completion-unknown-request", "RspTo %s", rsp.RspTo)
		})

		// ---- environment
		drvF := &world.Feeder{W: w, Port: toDriver, Tag: "driver", DelayAlphabet: []int{1, 3}}
		drvSink := &world.Sink{W: w, Port: toDriver, Tag: "driver", StallAlphabet: []int{1, 4}, Handle: func(m sim.Msg) {}}
		if c.drvEvery > 0 {
			drvSink.Every, drvSink.NoChoice = c.drvEvery, true
		}
		cuF := &world.Feeder{W: w, Port: toCUs, Tag: "cu-completions", Reorder: true, DelayAlphabet: []int{2, 7}}
		cuF.OnDeliver = func(m sim.Msg) {
			for _, id := range m.(*protocol.WGCompletionMsg).RspTo {
				if r := byMap[id]; r != nil {
					launches[r.k].complete++
					fmt.Fprintf(&trace, "C%d.%d;", r.k, r.wg)
				}
			}
		}
		cuSink := &world.Sink{W: w, Port: toCUs, Tag: "cus", StallAlphabet: []int{1, 4}}
		finF := &world.Feeder{W: w, Port: nullPort{}, Tag: "wg-finish", Reorder: true, DelayAlphabet: []int{2, 7}}
		held := map[int][]string{}
		finF.OnDeliver = func(m sim.Msg) {
			id := m.(*protocol.WGCompletionMsg).RspTo[0]
			r := byMap[id]
			r.done = true
			held[r.cu] = append(held[r.cu], id)
			for _, q := range res {
				if q.cu == r.cu && !q.done {
					return // the CU still runs another work-group: keep the finished ids (emu CU behaviour)
				}
			}
			msg := protocol.WGCompletionMsgBuilder{}.WithSrc(cus[r.cu].DispatchingPort()).WithDst(toCUs.AsRemote()).WithRspTo(held[r.cu]).Build()
			held[r.cu] = nil
			cuF.Add(msg, false)
		}
		cuSink.Handle = func(m sim.Msg) {
			req, ok := m.(*protocol.MapWGReq)
			if !ok {
				return
			}
			msg := protocol.WGCompletionMsgBuilder{}.WithSrc(m.Meta().Dst).WithDst(toCUs.AsRemote()).WithRspTo([]string{req.ID}).Build()
			if c.batch {
				finF.Add(msg, true)
			} else {
				cuF.Add(msg, true)
			}
		}
		prevDeliver := cuF.OnDeliver
		cuF.OnDeliver = func(m sim.Msg) {
			for _, id := range m.(*protocol.WGCompletionMsg).RspTo {
				if r := byMap[id]; r != nil {
					r.done = true
				}
			}
			prevDeliver(m)
		}
		probeSent := false
		w.Step = func() bool {
			pending := false
			for _, l := range launches {
				if !l.sent {
					if w.Cycle() >= l.k.injectAt {
						l.sent = true
						drvF.Add(l.req, true)
					} else {
						pending = true
					}
				}
			}
			pending = drvSink.Step(2) || pending
			pending = cuSink.Step(8) || pending
			pending = drvF.Step(1) || pending
			pending = finF.Step(8) || pending
			pending = cuF.Step(8) || pending
			if !pending && !probeSent {
				all := true
				for _, l := range launches {
					if l.rsp == 0 {
						all = false
					}
				}
				if all {
					probeSent = true
					for _, pl := range probes {
						pl.k.injectAt = 0
						launches = append(launches, pl)
					}
					pending = true
				}
			}
			return pending
		}
		quiet := w.Run()
		if viol != nil {
			return viol
		}
		if !quiet {
			return nil
		}
		for i, l := range launches {
			isProbe := i >= len(c.kernels)
			if len(l.mapped) != l.numWG {
				if isProbe {
					return explore.Viol("resources-not-returned", "after all kernels completed, a work-group that needs a whole CU (probe %d) is never mapped: resources leaked (trace %s)", i-len(c.kernels), tail(trace.String()))
				}
				return explore.Viol("work-group-never-mapped", "kernel %d: %d of %d work-groups mapped at quiescence", i, len(l.mapped), l.numWG)
			}
			if l.rsp != 1 {
				return explore.Viol("kernel-completion-missing", "kernel %d: all %d work-groups completed but %d LaunchKernelRsp at quiescence", i, l.numWG, l.rsp)
			}
		}
		if !probeSent {
			return explore.Viol("kernel-completion-missing", "not all kernels completed at quiescence")
		}
		x.Outcome(trace.String())
		return nil
	}
}

func tail(s string) string {
	if len(s) > 200 {
		return "…" + s[len(s)-200:]
	}
	return s
}

type nullPort struct{ sim.Port }

func (nullPort) Deliver(m sim.Msg) *sim.SendError { return nil }

type fakeP struct {
	sim.Port
	n sim.RemotePort
}

func (f fakeP) AsRemote() sim.RemotePort { return f.n }
func fakePort(n sim.RemotePort) sim.Port { return fakeP{n: n} }

func panicSig(txt string) string {
	switch {
	case strings.Contains(txt, "In emulation all finished WGs from more than one dispatcher"):
		return "panic/batched-completion-for-several-dispatchers"
	case strings.Contains(txt, "reserving a work-group twice"):
		return "panic/reserving-a-work-group-twice"
	case strings.Contains(txt, "work-group not found"):
		return "panic/free-of-unknown-work-group"
	}
	if len(txt) > 60 {
		txt = txt[:60]
	}
	return "panic/" + txt
}

// c08Sigs are the oracles of this world that belong to property C08 ("every work-item is executed exactly
// once ... the announced number of work-groups equals the number produced, also when a work-group filter
// splits the grid"): when this binary runs as the part "dispatch" of check C08 only they are reported.
var c08Sigs = map[string]bool{"work-group-mapped-twice": true, "work-group-never-mapped": true, "filtered-work-group-mapped": true,
	"work-group-outside-grid": true, "map-wrong-wavefront-count": true, "map-unknown-kernel": true, "wavefront-initial-exec-mask-wrong": true}

func main() {
	partOf := ""
	for _, a := range os.Args[1:] {
		if strings.HasPrefix(a, "-part-of=") {
			partOf = strings.TrimPrefix(a, "-part-of=")
		}
	}
	flag.String("part-of", "", "run as the part 'dispatch' of that check (C08)")
	var r *harness.Run
	if partOf != "" {
		r = harness.StartPart(partOf, "dispatch", "model_checking")
	} else {
		r = harness.Start("C09", "model_checking")
	}
	small := cuSpec{simds: 2, slots: 2, sgprs: 64, vgprsPerLane: 16, lds: 1024}
	tiny := cuSpec{simds: 1, slots: 2, sgprs: 32, vgprsPerLane: 8, lds: 512}
	uneven := cuSpec{simds: 2, slots: 4, sgprs: 128, vgprsPerLane: 32, lds: 2048, vgprsLast: 16}
	kV := kern{wgs: 4, wfPerWG: 2, sgpr: 16, vgpr: 12, lds: 0} // VGPR-bound: SIMD 1 of the uneven CU holds one such wavefront, SIMD 0 two
	type sc struct {
		name string
		c    cfg
	}
	kA := kern{wgs: 4, wfPerWG: 2, sgpr: 16, vgpr: 4, lds: 256}              // two fit per small CU (slots)
	kBig := kern{wgs: 3, wfPerWG: 1, sgpr: 48, vgpr: 12, lds: 768}           // only one at a time per CU (SGPR/VGPR/LDS)
	kZero := kern{wgs: 5, wfPerWG: 1, sgpr: 0, vgpr: 0, lds: 0}              // zero demand: slots only
	kFull := kern{wgs: 2, wfPerWG: 4, sgpr: 16, vgpr: 4, lds: 1024}          // a whole small CU each
	kDyn := kern{wgs: 3, wfPerWG: 1, sgpr: 16, vgpr: 4, lds: 0, dynLDS: 768} // dynamic LDS only
	kFilt := kern{wgs: 6, wfPerWG: 1, sgpr: 16, vgpr: 4, lds: 256, filterOdd: true}
	kOdd := kern{wgs: 5, wfPerWG: 2, sgpr: 17, vgpr: 5, lds: 300} // demands that are not multiples of the granularity
	kOne := kern{wgs: 1, wfPerWG: 1, sgpr: 16, vgpr: 4, lds: 256}
	late := func(k kern, at int) kern { k.injectAt = at; return k }
	var list []sc
	algs := []string{"", "round-robin", "greedy", "partition"}
	for _, alg := range algs {
		nd := []int{1, 2}
		if alg == "" {
			nd = []int{8}
		}
		for _, d := range nd {
			an := alg
			if an == "" {
				an = "builder"
			}
			pre := fmt.Sprintf("%s/disp%d/", an, d)
			list = append(list,
				sc{pre + "1cu/kA", mkCfg(0, false, alg, d, []cuSpec{small}, []kern{kA})},
				// SIMD 1 has half the vector registers of SIMD 0
				sc{pre + "1cu-uneven-vgprs/kV", mkCfg(0, false, alg, d, []cuSpec{uneven}, []kern{kV})},
				sc{pre + "1cu-uneven-vgprs/kA+kV", mkCfg(0, false, alg, d, []cuSpec{uneven}, []kern{kA, kV})},
				sc{pre + "2cu/kA", mkCfg(0, false, alg, d, []cuSpec{small, small}, []kern{kA})},
				sc{pre + "2cu/kBig", mkCfg(0, false, alg, d, []cuSpec{small, small}, []kern{kBig})},
				sc{pre + "1cu/kZero", mkCfg(0, false, alg, d, []cuSpec{tiny}, []kern{kZero})},
				sc{pre + "2cu/kFull", mkCfg(0, false, alg, d, []cuSpec{small, small}, []kern{kFull})},
				sc{pre + "2cu/kFilt", mkCfg(0, false, alg, d, []cuSpec{small, tiny}, []kern{kFilt})},
				sc{pre + "3cu/kOdd", mkCfg(0, false, alg, d, []cuSpec{small, tiny, small}, []kern{kOdd})},
				sc{pre + "1cu/kDyn", mkCfg(0, false, alg, d, []cuSpec{small}, []kern{kDyn})},
			)
			// grids that are not a multiple of the work-group size: the last work-group is built after earlier ones have
			// completed (seed C08-7: recycled wavefront objects kept the EXEC mask of their previous life)
			kTail1 := kern{wgs: 5, wfPerWG: 1, sgpr: 16, vgpr: 4, lds: 256, tail: 10}
			kTail2 := kern{wgs: 4, wfPerWG: 2, sgpr: 16, vgpr: 4, lds: 256, tail: 70}
			list = append(list,
				sc{pre + "1cu-tiny/kTail1", mkCfg(0, false, alg, d, []cuSpec{tiny}, []kern{kTail1})},
				sc{pre + "1cu/kTail2", mkCfg(0, false, alg, d, []cuSpec{small}, []kern{kTail2})},
				sc{pre + "2cu/kTail2+kTail1-late", mkCfg(0, false, alg, d, []cuSpec{small, tiny}, []kern{kTail2, late(kTail1, 3)})},
			)
			list = append(list,
				sc{pre + "batch/2cu/kA", mkCfg(0, true, alg, d, []cuSpec{small, small}, []kern{kA})},
				sc{pre + "batch/1cu/kZero", mkCfg(0, true, alg, d, []cuSpec{tiny}, []kern{kZero})},
			)
			if d > 1 && alg != "" {
				// a full CU-facing port while another dispatcher sends the last work-group of its kernel
				list = append(list,
					sc{pre + "portbuf2/1cu/kA+kOne", mkCfg(2, false, alg, d, []cuSpec{small}, []kern{kA, kOne})},
					sc{pre + "portbuf1/2cu/kZero+kOne+kOne", mkCfg(1, false, alg, d, []cuSpec{small, tiny}, []kern{kZero, kOne, late(kOne, 2)})},
					sc{pre + "portbuf2/2cu/kFull+kOne", mkCfg(2, false, alg, d, []cuSpec{small, small}, []kern{kFull, late(kOne, 1)})},
					// a one-entry port and no later kernel on the dispatcher whose only work-group is refused at first:
					// nothing can flush a forgotten work-group out afterwards (seed C08-9)
					sc{pre + "portbuf1/1cu/kZero+kOne", mkCfg(1, false, alg, d, []cuSpec{small}, []kern{kZero, kOne})},
					sc{pre + "portbuf1/2cu/kA+kOne-late1", mkCfg(1, false, alg, d, []cuSpec{small, tiny}, []kern{kA, late(kOne, 1)})},
				)
			}
			if alg != "" {
				// a full driver-facing port when a kernel completes (the response is retried), then further kernels on
				// the same dispatchers (seed C09-7: the retried response was kept and sent again for later kernels)
				bp := func(buf, every int, ks ...kern) cfg {
					c := mkCfg(0, false, alg, d, []cuSpec{small}, ks)
					c.drvPortBuf, c.drvEvery = buf, every
					return c
				}
				list = append(list,
					sc{pre + "drvbuf1-slow12/1cu/kOne+kOne+kOne-late+kOne-late", bp(1, 12, kOne, kOne, late(kOne, 4), late(kOne, 5))},
					sc{pre + "drvbuf1-slow25/1cu/kZero+kOne+kA-late", bp(1, 25, kZero, kOne, late(kA, 6))},
				)
			}
			if d > 1 {
				// two kernels with different register / LDS demands per wavefront resident together on one roomy CU:
				// the small kernel's work-groups complete out of order and leave holes smaller than the big kernel's
				// request in front of units that are still reserved
				mid := cuSpec{simds: 2, slots: 4, sgprs: 128, vgprsPerLane: 32, lds: 2048}
				kS1 := kern{wgs: 4, wfPerWG: 1, sgpr: 16, vgpr: 4, lds: 256}
				kS2 := kern{wgs: 2, wfPerWG: 1, sgpr: 32, vgpr: 8, lds: 512}
				kS3 := kern{wgs: 2, wfPerWG: 1, sgpr: 48, vgpr: 12, lds: 768}
				list = append(list,
					sc{pre + "1cu-mid/kS1+kS2", mkCfg(0, false, alg, d, []cuSpec{mid}, []kern{kS1, kS2})},
					sc{pre + "1cu-mid/kS1+kS2-late3", mkCfg(0, false, alg, d, []cuSpec{mid}, []kern{kS1, late(kS2, 3)})},
					sc{pre + "1cu-mid/kS1+kS3-late5", mkCfg(0, false, alg, d, []cuSpec{mid}, []kern{kS1, late(kS3, 5)})},
					sc{pre + "1cu-mid/kS2+kS1-late2+kS3-late6", mkCfg(0, false, alg, d, []cuSpec{mid}, []kern{kS2, late(kS1, 2), late(kS3, 6)})},
				)
				list = append(list,
					sc{pre + "batch/1cu/kOne+kOne", mkCfg(0, true, alg, d, []cuSpec{small}, []kern{kOne, kOne})},
					sc{pre + "1cu/kOne+kOne+kZero", mkCfg(0, false, alg, d, []cuSpec{small}, []kern{kOne, kOne, late(kZero, 3)})},
					sc{pre + "batch/1cu/kA+kA-late", mkCfg(0, true, alg, d, []cuSpec{small}, []kern{kA, late(kA, 4)})},
					sc{pre + "2cu/kA+kBig", mkCfg(0, false, alg, d, []cuSpec{small, small}, []kern{kA, kBig})},
					sc{pre + "1cu/kA+kA-late", mkCfg(0, false, alg, d, []cuSpec{small}, []kern{kA, late(kA, 4)})},
					sc{pre + "2cu/kFull+kZero+kBig", mkCfg(0, false, alg, d, []cuSpec{small, tiny}, []kern{kFull, late(kZero, 2), late(kBig, 6)})},
				)
			}
		}
	}
	bound := 2
	if r.Thorough() {
		bound = 3
	}
	var scs []harness.Scenario
	for _, s := range list {
		if partOf != "" {
			s.c.only = c08Sigs
		}
		b := body(s.c)
		if partOf != "" {
			if strings.Contains(s.name, "+") && !strings.Contains(s.name, "portbuf") && r.Replay == "" {
				// single kernels (the partition of one grid over the CUs), plus the scenarios in which the CU-facing
				// port refuses a work-group (seed C08-9: a refused last work-group was forgotten)
				continue
			}
			inner := b
			b = func(x *explore.Exec) *explore.Violation {
				if v := inner(x); v != nil && c08Sigs[v.Sig] {
					return v
				}
				return nil
			}
		}
		scs = append(scs, harness.Scenario{Name: s.name, Bound: bound, Body: b, PanicSig: panicSig})
	}
	// the real functional-emulation CU (anchored in the property) under a dispatcher that maps in batches and may
	// read completions late
	if partOf == "" {
		ks := cuworld.LoadKernels(harness.Dir())
		k := ks["k8_store_then_endpgm"]
		for _, bs := range [][]int{{1, 1, 1}, {2, 1, 2}, {3, 2}, {1, 3, 1, 1}} {
			n := 0
			for _, b := range bs {
				n += b
			}
			scs = append(scs, harness.Scenario{Name: fmt.Sprintf("emu-cu/batches%v", bs), Bound: bound + 1,
				Body: cuworld.EmuDispatchBody(k, cuworld.Geometry{WGSize: 64, NumWG: n}, bs)})
		}
	}
	r.Assume = []string{
		"a CU's resources are occupied from the MapWGReq until the CU sends the WGCompletionMsg",
		"CUs answer every MapWGReq with exactly one completion; order and delay are explored",
		"register demand is accounted in the dispatcher's granularity (16 SGPRs, 4 VGPRs, 256 B LDS), as the CU's allocators use the offsets it is given",
		"kernels are 1-D with work-group sizes that are multiples of 64; some grids end in a partial work-group whose last wavefront is partially populated (the full work-group/wavefront/lane partition is C08's own enumeration)",
	}
	r.Quiet = true
	r.RunScenarios(scs)
	r.Finish()
}
