// c02p_dev: development main for platlat.RunC02Platform (not registered in the
// MANIFEST; the real C02 check calls RunC02Platform next to its CU-level
// layer). Known findings are looked up under property "C02".
package main

import (
	"os"

	"verif/mc/harness"
	"verif/mc/platlat"
)

func main() {
	platlat.MaybeWorker()
	devDir()
	r := harness.Start("C02", "exploration")
	platlat.RunC02Platform(r)
	r.Cov["evaluations"] = r.Cov["platform_comparisons"]
	r.Cov["distinct_nontrivial"] = r.Cov["platform_distinct_classes_identical"]
	r.Cov["rule"] = r.Cov["platform_rule"]
	r.Cov["samples"] = r.Cov["platform_samples"]
	r.Finish()
}

// devDir keeps this development binary away from the real evidence: unless
// VERIF_DIR is set, evidence and replay files go to /verif/build/platdev (with
// a fresh copy of known_findings.json).
func devDir() {
	if os.Getenv("VERIF_DIR") != "" {
		return
	}
	const d = "/verif/build/platdev"
	os.MkdirAll(d, 0o755)
	if data, err := os.ReadFile("/verif/known_findings.json"); err == nil {
		os.WriteFile(d+"/known_findings.json", data, 0o644)
	}
	os.Setenv("VERIF_DIR", d)
}
