// C18: results do not depend on how work and data are spread over GPUs.
// Part (b) (this file + rdma.go): exactly-once routing of the RDMA engine,
// explored with E1+E4. Part (a) (configuration lattice over GPU sets) is
// provided by package platlat when present (see lattice.go).
package main

import (
	"verif/mc/harness"
	"verif/mc/platlat"
)

func main() {
	platlat.MaybeWorker() // the lattice part re-executes this binary as worker processes
	r := harness.Start("C18", "model_checking")
	r.Assume = []string{
		"RDMA: the command processor sends RestartReq only after DrainRsp (valid protocol order)",
		"RDMA: every access in a scenario has a unique address so that forwarded requests identify their origin",
		"RDMA: owners (remote engines, local L2) answer every request exactly once; reply order and delay are explored",
	}
	r.Quiet = true
	platlat.RunC18a(r) // in replay mode: returns at once unless the replay file is a lattice case (then it exits itself)
	r.RunScenarios(rdmaScenarios(r))
	r.Finish()
}
