// C18 part (b): exactly-once routing of the RDMA engine.
// Real rdma.Comp under the real serial engine. The environment plays the L1
// side (inside requesters), the local L2 modules, the remote RDMA engines
// (both as owners answering our requests and as requesters of our memory) and
// the command processor (drain / restart).
package main

import (
	"bytes"
	"fmt"

	"github.com/sarchlab/akita/v4/mem/mem"
	"github.com/sarchlab/akita/v4/sim"
	"github.com/sarchlab/mgpusim/v4/amd/timing/rdma"

	"verif/mc/explore"
	"verif/mc/harness"
	"verif/mc/world"
)

type acc struct {
	write bool
	addr  uint64
	size  int
	mask  bool
}

type rcfg struct {
	buf        int
	inside     []acc // L1 -> remote
	outside    []acc // remote -> local L2
	drainAt    int   // 0 = none
	restartDly int
	postInside []acc // sent by L1 while paused / after restart
	lateAt     int   // cycle at which postInside is injected (can be during the drain)
	ctlStall   bool  // the command processor may stall taking acknowledgements off the control wire
	lateOutside []acc // remote requests that arrive late (e.g. while a drain acknowledgement is stuck)
	lateOutAt  int
	secondDrainAfter int // > 0: a second DrainReq this many cycles after the first RestartRsp was taken
	// pipelined: the second DrainReq follows the RestartReq at once, without waiting for the RestartRsp to be taken
	// (the engine handles control requests in order; an acknowledgement still sitting in the 1-entry control port
	// makes the next one fail to send)
	pipelined bool
}

const (
	bankSize = 0x1000
)

func mkAcc(a acc, tag int, src, dst sim.RemotePort) mem.AccessReq {
	if a.write {
		data := make([]byte, a.size)
		for j := range data {
			data[j] = byte(tag*16 + j%16)
		}
		b := mem.WriteReqBuilder{}.WithSrc(src).WithDst(dst).WithAddress(a.addr).WithData(data)
		if a.mask {
			m := make([]bool, a.size)
			for j := range m {
				m[j] = j%2 == 1
			}
			b = b.WithDirtyMask(m)
		}
		return b.Build()
	}
	return mem.ReadReqBuilder{}.WithSrc(src).WithDst(dst).WithAddress(a.addr).WithByteSize(uint64(a.size)).Build()
}

// dir monitors one direction (requests in on port A, forwarded on port B,
// responses in on B, returned on A).
type dir struct {
	name    string
	items   []*item
	byID    map[string]*item
	byFwd   map[string]*item
	wantDst func(addr uint64) sim.RemotePort
	fail    func(sig, f string, a ...any)
}

type item struct {
	n        int
	req      mem.AccessReq
	fwd      mem.AccessReq
	rspData  []byte
	rspSeen  bool // owner's response delivered to the RDMA engine
	answered bool
}

func (d *dir) accept(m sim.Msg) *item {
	it := &item{n: len(d.items), req: m.(mem.AccessReq)}
	d.items = append(d.items, it)
	d.byID[m.Meta().ID] = it
	return it
}

func (d *dir) inFlight() int {
	n := 0
	for _, it := range d.items {
		if it.fwd != nil && !it.answered {
			n++
		}
	}
	return n
}

func (d *dir) onForward(m sim.Msg) *item {
	req, ok := m.(mem.AccessReq)
	if !ok {
		d.fail(d.name+"/non-request-forwarded", "%T", m)
		return nil
	}
	for _, it := range d.items {
		if it.fwd != nil || it.req.GetAddress() != req.GetAddress() {
			continue
		}
		same := false
		switch o := it.req.(type) {
		case *mem.ReadReq:
			fr, ok := req.(*mem.ReadReq)
			same = ok && fr.AccessByteSize == o.AccessByteSize
		case *mem.WriteReq:
			fw, ok := req.(*mem.WriteReq)
			same = ok && bytes.Equal(fw.Data, o.Data) && fmt.Sprint(fw.DirtyMask) == fmt.Sprint(o.DirtyMask)
		}
		if !same {
			d.fail(d.name+"/forward-changed-payload", "access #%d (addr %x) forwarded with different kind/size/data/mask", it.n, req.GetAddress())
			return nil
		}
		it.fwd = req
		d.byFwd[req.Meta().ID] = it
		if want := d.wantDst(req.GetAddress()); m.Meta().Dst != want {
			d.fail(d.name+"/forward-wrong-owner", "access #%d addr %x forwarded to %s, owner is %s", it.n, req.GetAddress(), m.Meta().Dst, want)
		}
		return it
	}
	for _, it := range d.items {
		if it.fwd != nil && it.req.GetAddress() == req.GetAddress() {
			d.fail(d.name+"/forwarded-twice", "access #%d (addr %x) forwarded twice", it.n, req.GetAddress())
			return nil
		}
	}
	d.fail(d.name+"/forward-unknown", "forwarded request addr %x matches no accepted access", req.GetAddress())
	return nil
}

func (d *dir) onReturn(m sim.Msg) *item {
	rsp, ok := m.(mem.AccessRsp)
	if !ok {
		d.fail(d.name+"/non-response-returned", "%T", m)
		return nil
	}
	it := d.byID[rsp.GetRspTo()]
	if it == nil {
		d.fail(d.name+"/response-unknown-id", "response to unknown id %s", rsp.GetRspTo())
		return nil
	}
	if it.answered {
		d.fail(d.name+"/duplicate-response", "access #%d answered twice", it.n)
		return it
	}
	it.answered = true
	if !it.rspSeen {
		d.fail(d.name+"/response-before-owner-replied", "access #%d answered before the owner's reply arrived", it.n)
	}
	if m.Meta().Dst != it.req.Meta().Src {
		d.fail(d.name+"/response-wrong-originator", "access #%d answered to %s, originator is %s", it.n, m.Meta().Dst, it.req.Meta().Src)
	}
	switch it.req.(type) {
	case *mem.ReadReq:
		dr, ok := rsp.(*mem.DataReadyRsp)
		if !ok {
			d.fail(d.name+"/response-wrong-type", "read answered with %T", rsp)
		} else if !bytes.Equal(dr.Data, it.rspData) {
			d.fail(d.name+"/response-wrong-payload", "read #%d answered with %x, owner returned %x", it.n, dr.Data, it.rspData)
		}
	case *mem.WriteReq:
		if _, ok := rsp.(*mem.WriteDoneRsp); !ok {
			d.fail(d.name+"/response-wrong-type", "write answered with %T", rsp)
		}
	}
	return it
}

func rdmaBody(c rcfg) explore.Body {
	return func(x *explore.Exec) *explore.Violation {
		w := world.New(x, 600)
		remotes := []sim.RemotePort{"GPU0.RDMA", "GPU1.RDMA", "GPU2.RDMA"} // index 0 unused as owner (it is us)
		l2s := []sim.RemotePort{"Env.L2_0", "Env.L2_1"}
		const l1a, l1b, cp = sim.RemotePort("Env.L1_a"), sim.RemotePort("Env.L1_b"), sim.RemotePort("Env.CP")
		rt := mem.NewBankedAddressPortMapper(bankSize)
		rt.LowModules = append(rt.LowModules, remotes...)
		lt := mem.NewInterleavedAddressPortMapper(64)
		lt.LowModules = append(lt.LowModules, l2s...)
		e := rdma.MakeBuilder().WithEngine(w.Engine).WithFreq(w.Freq).WithBufferSize(c.buf).
			WithLocalModules(lt).WithRemoteModules(rt).Build("RDMA")
		pIn, pOut := e.GetPortByName("RDMARequestInside"), e.GetPortByName("RDMARequestOutside")
		dOut, dIn := e.GetPortByName("RDMADataOutside"), e.GetPortByName("RDMADataInside")
		ctl := e.GetPortByName("CtrlPort")
		w.NewWire("wire", pIn, pOut, dOut, dIn, ctl)

		var viol *explore.Violation
		fail := func(sig, f string, a ...any) {
			if viol == nil {
				viol = explore.Viol(sig, f, a...)
			}
		}
		var trace bytes.Buffer
		in := &dir{name: "inside-to-remote", byID: map[string]*item{}, byFwd: map[string]*item{}, fail: fail,
			wantDst: func(a uint64) sim.RemotePort { return remotes[a/bankSize] }}
		out := &dir{name: "remote-to-local", byID: map[string]*item{}, byFwd: map[string]*item{}, fail: fail,
			wantDst: func(a uint64) sim.RemotePort { return l2s[a/64%2] }}

		paused := false // between DrainReq delivery... observed: DrainRsp sent
		drained := false
		restarted := false
		world.OnSend(pOut, func(m sim.Msg) {
			if it := in.onForward(m); it != nil {
				fmt.Fprintf(&trace, "f%d;", it.n)
				if drained && !restarted {
					fail("inside-to-remote/forwarded-while-drained", "L1 access #%d forwarded between drain acknowledgement and restart", it.n)
				}
			}
		})
		world.OnSend(pIn, func(m sim.Msg) {
			if it := in.onReturn(m); it != nil {
				fmt.Fprintf(&trace, "r%d@%d;", it.n, w.Cycle())
			}
		})
		world.OnSend(dIn, func(m sim.Msg) {
			if it := out.onForward(m); it != nil {
				fmt.Fprintf(&trace, "F%d;", it.n)
			}
		})
		world.OnSend(dOut, func(m sim.Msg) {
			if it := out.onReturn(m); it != nil {
				fmt.Fprintf(&trace, "R%d@%d;", it.n, w.Cycle())
			}
		})
		world.OnSend(ctl, func(m sim.Msg) {
			switch m.(type) {
			case *rdma.DrainRsp:
				if drained && !restarted {
					fail("drain/acknowledged-twice", "second DrainRsp")
				}
				drained = true
				restarted = false
				fmt.Fprintf(&trace, "DRAINED(%d,%d);", in.inFlight(), out.inFlight())
				if n := in.inFlight() + out.inFlight(); n != 0 {
					fail("drain/acknowledged-with-transactions-in-flight", "DrainRsp sent with %d inside->remote and %d remote->local transactions in flight", in.inFlight(), out.inFlight())
				}
			case *rdma.RestartRsp:
				restarted = true
				fmt.Fprintf(&trace, "RESTARTED;")
			default:
				fail("ctrl/unexpected-message", "%T", m)
			}
			if m.Meta().Dst != cp {
				fail("ctrl/wrong-destination", "%s", m.Meta().Dst)
			}
		})
		_ = paused

		// L1 side
		l1 := &world.Feeder{W: w, Port: pIn, Tag: "l1", DelayAlphabet: []int{1, 3}}
		l1.OnDeliver = func(m sim.Msg) { it := in.accept(m); fmt.Fprintf(&trace, "a%d;", it.n) }
		for i, a := range c.inside {
			src := l1a
			if i%2 == 1 {
				src = l1b
			}
			l1.Add(mkAcc(a, 1+i, src, pIn.AsRemote()), true)
		}
		l1Sink := &world.Sink{W: w, Port: pIn, Tag: "l1", StallAlphabet: []int{1, 4}, Handle: func(m sim.Msg) {}}
		// remote owners answering our forwarded requests
		rem := &world.Feeder{W: w, Port: pOut, Tag: "remote-owner", Reorder: true, DelayAlphabet: []int{2, 6}}
		rem.OnDeliver = func(m sim.Msg) {
			if it := in.byFwd[m.(mem.AccessRsp).GetRspTo()]; it != nil {
				it.rspSeen = true
			}
		}
		nAns := 0
		answer := func(f *world.Feeder, port sim.Port, d *dir) func(m sim.Msg) {
			return func(m sim.Msg) {
				nAns++
				it := d.byFwd[m.Meta().ID]
				switch r := m.(type) {
				case *mem.ReadReq:
					data := make([]byte, r.AccessByteSize)
					for j := range data {
						data[j] = byte(0x80 + nAns*8 + j)
					}
					if it != nil {
						it.rspData = data
					}
					f.Add(mem.DataReadyRspBuilder{}.WithSrc(m.Meta().Dst).WithDst(port.AsRemote()).WithRspTo(r.ID).WithData(data).Build(), true)
				case *mem.WriteReq:
					f.Add(mem.WriteDoneRspBuilder{}.WithSrc(m.Meta().Dst).WithDst(port.AsRemote()).WithRspTo(r.ID).Build(), true)
				}
			}
		}
		remSink := &world.Sink{W: w, Port: pOut, Tag: "remote-owner", StallAlphabet: []int{1, 4}, Handle: answer(rem, pOut, in)}
		// remote requesters of our memory
		rq := &world.Feeder{W: w, Port: dOut, Tag: "remote-req", DelayAlphabet: []int{1, 3}}
		rq.OnDeliver = func(m sim.Msg) { it := out.accept(m); fmt.Fprintf(&trace, "A%d;", it.n) }
		for i, a := range c.outside {
			rq.Add(mkAcc(a, 9+i, remotes[1+i%2], dOut.AsRemote()), true)
		}
		rqSink := &world.Sink{W: w, Port: dOut, Tag: "remote-req", StallAlphabet: []int{1, 4}, Handle: func(m sim.Msg) {}}
		// local L2
		l2 := &world.Feeder{W: w, Port: dIn, Tag: "l2", Reorder: true, DelayAlphabet: []int{2, 6}}
		l2.OnDeliver = func(m sim.Msg) {
			if it := out.byFwd[m.(mem.AccessRsp).GetRspTo()]; it != nil {
				it.rspSeen = true
			}
		}
		l2Sink := &world.Sink{W: w, Port: dIn, Tag: "l2", StallAlphabet: []int{1, 4}, Handle: answer(l2, dIn, out)}
		// command processor
		ctlF := &world.Feeder{W: w, Port: ctl, Tag: "ctl"}
		ctlSink := &world.Sink{W: w, Port: ctl, Tag: "ctl", NoChoice: !c.ctlStall, StallAlphabet: []int{2, 8}}
		drains := 0
		secondAt := -1
		ctlSink.Handle = func(m sim.Msg) {
			if _, ok := m.(*rdma.DrainRsp); ok {
				ctlF.Add(rdma.RestartReqBuilder{}.WithSrc(cp).WithDst(ctl.AsRemote()).Build(), false)
				ctlF.Q[len(ctlF.Q)-1].Ready += c.restartDly
				if c.pipelined && drains == 1 {
					drains = 2
					ctlF.Add(rdma.DrainReqBuilder{}.WithSrc(cp).WithDst(ctl.AsRemote()).Build(), false)
					ctlF.Q[len(ctlF.Q)-1].Ready += c.restartDly + 1
				}
			}
			if _, ok := m.(*rdma.RestartRsp); ok && c.secondDrainAfter > 0 && drains == 1 {
				secondAt = w.Cycle() + c.secondDrainAfter
			}
		}
		drainSent, lateSent, lateOutSent := false, false, false
		w.Step = func() bool {
			pending := false
			if c.secondDrainAfter > 0 && drains == 1 {
				if secondAt >= 0 && w.Cycle() >= secondAt {
					drains = 2
					ctlF.Add(rdma.DrainReqBuilder{}.WithSrc(cp).WithDst(ctl.AsRemote()).Build(), false)
					ctlF.Q[len(ctlF.Q)-1].Ready = w.Cycle()
				}
				pending = true
			}
			if len(c.lateOutside) > 0 && !lateOutSent {
				if w.Cycle() >= c.lateOutAt {
					lateOutSent = true
					for i, a := range c.lateOutside {
						rq.Add(mkAcc(a, 12+i, remotes[1+i%2], dOut.AsRemote()), true)
					}
				}
				pending = true
			}
			if c.drainAt > 0 && !drainSent {
				if w.Cycle() >= c.drainAt {
					drainSent = true
					drains = 1
					ctlF.Add(rdma.DrainReqBuilder{}.WithSrc(cp).WithDst(ctl.AsRemote()).Build(), false)
					ctlF.Q[len(ctlF.Q)-1].Ready = w.Cycle()
				}
				pending = true
			}
			if len(c.postInside) > 0 && !lateSent {
				if w.Cycle() >= c.lateAt {
					lateSent = true
					for i, a := range c.postInside {
						l1.Add(mkAcc(a, 5+i, l1a, pIn.AsRemote()), true)
					}
				}
				pending = true
			}
			if c.drainAt > 0 && !restarted {
				pending = true
			}
			pending = ctlSink.Step(1) || pending
			pending = l1Sink.Step(2) || pending
			pending = remSink.Step(2) || pending
			pending = rqSink.Step(2) || pending
			pending = l2Sink.Step(2) || pending
			pending = ctlF.Step(1) || pending
			pending = l1.Step(2) || pending
			pending = rq.Step(2) || pending
			pending = rem.Step(2) || pending
			pending = l2.Step(2) || pending
			return pending
		}
		quiet := w.Run()
		if viol != nil {
			return viol
		}
		if !quiet {
			idle := in.inFlight()+out.inFlight() == 0 && len(l1.Q)+len(rq.Q)+len(rem.Q)+len(l2.Q)+len(ctlF.Q) == 0
			if c.drainAt > 0 && !drained && idle {
				// the environment keeps ticking until restart: a drain that is never acknowledged shows up as the horizon
				return explore.Viol("drain/never-acknowledged", "DrainReq sent at cycle %d never acknowledged within the horizon although all owners replied (in flight: %d, %d)", c.drainAt, in.inFlight(), out.inFlight())
			}
			return nil
		}
		for _, d := range []*dir{in, out} {
			for _, it := range d.items {
				if it.fwd == nil {
					return explore.Viol(d.name+"/never-forwarded", "access #%d never forwarded to its owner at quiescence", it.n)
				}
				if !it.answered {
					return explore.Viol(d.name+"/never-answered", "access #%d never answered at quiescence", it.n)
				}
			}
		}
		if len(in.items) != len(c.inside)+len(c.postInside) || len(out.items) != len(c.outside)+len(c.lateOutside) {
			return explore.Viol("request-not-accepted", "accepted %d/%d inside, %d/%d outside", len(in.items), len(c.inside)+len(c.postInside), len(out.items), len(c.outside))
		}
		if c.drainAt > 0 && !(drained && restarted) {
			return explore.Viol("drain/protocol-incomplete", "drained=%v restarted=%v", drained, restarted)
		}
		x.Outcome(trace.String())
		return nil
	}
}

func rdmaScenarios(r *harness.Run) []harness.Scenario {
	ins := [][]acc{
		{{false, 0x1000, 4, false}, {true, 0x2008, 8, true}, {false, 0x1010, 64, false}},
		{{true, 0x1040, 4, false}, {false, 0x2044, 4, false}},
	}
	outs := [][]acc{
		{{false, 0x0, 4, false}, {true, 0x48, 8, true}},
		{{true, 0x80, 64, false}, {false, 0x40, 4, false}, {false, 0x100, 8, false}},
	}
	post := []acc{{false, 0x2100, 4, false}, {true, 0x1108, 4, false}}
	bound := 3
	if r.Thorough() {
		bound = 4
	}
	var scs []harness.Scenario
	add := func(name string, c rcfg, b int) {
		scs = append(scs, harness.Scenario{Name: "rdma/" + name, Bound: b, Body: rdmaBody(c)})
	}
	for _, buf := range []int{1, 2} {
		for i := range ins {
			add(fmt.Sprintf("buf%d/in%d+out%d/nodrain", buf, i, i), rcfg{buf: buf, inside: ins[i], outside: outs[i]}, bound)
		}
	}
	drainPoints := []int{1, 2, 3, 4, 6, 8}
	if r.Thorough() {
		drainPoints = []int{1, 2, 3, 4, 5, 6, 7, 8, 10, 12}
	}
	for _, da := range drainPoints {
		for _, late := range []int{da + 1, da + 4} {
			add(fmt.Sprintf("buf2/in0+out0/drain@%d/late@%d", da, late), rcfg{buf: 2, inside: ins[0], outside: outs[0], drainAt: da, restartDly: 2, postInside: post, lateAt: late}, bound-1)
		}
		add(fmt.Sprintf("buf1/in1+out1/drain@%d/late@%d", da, da), rcfg{buf: 1, inside: ins[1], outside: outs[1], drainAt: da, restartDly: 0, postInside: post, lateAt: da}, bound-1)
	}
	// control-port back-pressure: acknowledgements may be stuck in the 1-entry control port while remote traffic goes on,
	// and a second drain follows the first restart
	lateOut := []acc{{false, 0x140, 4, false}, {true, 0x188, 8, false}}
	for _, da := range []int{2, 4, 7} {
		for _, gap := range []int{1, 3} {
			for _, lo := range []int{da + 6, da + 10, da + 14} {
				add(fmt.Sprintf("buf1/ctl-backpressure/drain@%d/second+%d/late-remote@%d", da, gap, lo),
					rcfg{buf: 1, inside: ins[1][:1], outside: outs[0][:1], drainAt: da, restartDly: 0, ctlStall: true, lateOutside: lateOut, lateOutAt: lo, secondDrainAfter: gap}, bound-1)
			}
		}
	}
	for _, da := range []int{2, 5} {
		for _, lo := range []int{da + 5, da + 7, da + 9, da + 11, da + 13} {
			add(fmt.Sprintf("buf1/ctl-backpressure/drain@%d/pipelined-second/late-remote@%d", da, lo),
				rcfg{buf: 1, inside: ins[1][:1], outside: outs[0][:1], drainAt: da, restartDly: 0, ctlStall: true, lateOutside: lateOut, lateOutAt: lo, pipelined: true}, bound-1)
		}
	}
	return scs
}
