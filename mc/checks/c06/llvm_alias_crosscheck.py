#!/usr/bin/env python3
"""Cross-check of the operand-aliasing encodings of C06 with llvm-mc-14 (development aid, not part of the check).

usage: llvm_alias_crosscheck.py [/verif/bin/c06]

Every aliasing encoding printed by `c06 -encodings` is disassembled (gfx803 for the GCN3 ALU, gfx90a for the
CDNA3 ALU) and the disassembly is assembled again: the assembler applies the operand rules (constant bus,
register alignment, register classes) that the disassembler does not. An aliasing encoding counts as
REJECTED-BECAUSE-OF-ALIASING when llvm refuses it although it accepts the canonical (first, non-aliased)
encoding of the same opcode; opcodes whose canonical encoding llvm refuses too (GFX9-only opcodes run by the
GCN3 ALU, FLAT saddr/offset fields on gfx803, ...) are listed as "baseline" and are not an aliasing matter.
"""
import collections, re, subprocess, sys

BIN = sys.argv[1] if len(sys.argv) > 1 else '/verif/bin/c06'
CPU = {'gcn3': 'gfx803', 'cdna3': 'gfx90a'}


def roundtrip(cpu, hx):
    b = ' '.join('0x' + hx[i:i + 2] for i in range(0, len(hx), 2))
    p = subprocess.run(['llvm-mc-14', '-arch=amdgcn', '-mcpu=' + cpu, '-disassemble'], input=b, capture_output=True, text=True)
    lines = [l.strip() for l in p.stdout.splitlines() if l.strip() and not l.strip().startswith('.text')]
    if len(lines) != 1 or 'warning' in p.stderr:
        return None, 'does not disassemble as one instruction'
    asm = re.sub(r'\s*(;|//).*$', '', lines[0])
    p = subprocess.run(['llvm-mc-14', '-arch=amdgcn', '-mcpu=' + cpu, '-show-encoding'], input=asm + '\n', capture_output=True, text=True)
    m = re.search(r'encoding: \[([^\]]*)\]', p.stdout)
    if not m:
        err = [l for l in p.stderr.splitlines() if 'error' in l]
        return asm, 'assembler: ' + (err[0].split('error:')[1].strip() if err else 'rejected')
    enc = ''.join(x.strip()[2:] for x in m.group(1).split(','))
    if enc != hx[:len(enc)]:
        return asm, 'assembles to other bytes ' + enc
    return asm, ''


rows = [l.rstrip('\n').split('\t') for l in subprocess.run([BIN, '-encodings'], capture_output=True, text=True).stdout.splitlines()]
canon = {}
for r in rows:
    canon.setdefault((r[0], r[1], r[2]), r)
canon_ok = {}
stats = collections.Counter()
for r in rows:
    if r[6] != 'alias':
        continue
    k = (r[0], r[1], r[2])
    if k not in canon_ok:
        canon_ok[k] = roundtrip(CPU[r[0]], canon[k][5])[1]
    asm, why = roundtrip(CPU[r[0]], r[5])
    if why == '':
        stats[r[0] + ' accepted'] += 1
    elif canon_ok[k] != '':
        stats[r[0] + ' baseline (llvm refuses the canonical form too: ' + canon_ok[k][:60] + ')'] += 1
    else:
        stats[r[0] + ' REJECTED-BECAUSE-OF-ALIASING'] += 1
        print('REJECTED', r[0], r[1], r[3], '[' + r[4] + ']', r[5], '|', asm, '|', why)
for k in sorted(stats):
    print(stats[k], k)
