// C06: vector lanes are independent and obey the EXEC mask.
//
// Metamorphic check, no per-opcode reference: every vector opcode that either
// ALU (emu.ALUImpl = GCN3, cdna3.ALU) implements is discovered by probing all
// opcode values of VOP1/VOP2/VOPC/VOP3(a,b)/DS/FLAT through the real decoder
// and the real handler, and then run on an EXEC alphabet x a generating set of
// lane permutations x lane-distinct value patterns. Oracles:
//
//	O1 equivariance   run(v, pi.s) = pi.run(v, s)  (VGPRs, VCC/EXEC/SDST bits, LDS, memory, access set)
//	O2 frame          EXEC=0 lanes keep all VGPRs, make no LDS/memory access; v_cmp* write 0 for them
//	O3 locality       changing lane j's inputs / EXEC bit changes only lane j's outputs
//	O4 scalar         scalar instructions give the same result for every EXEC
package main

import (
	"bytes"
	"encoding/hex"
	"encoding/json"
	"flag"
	"fmt"
	"io"
	"log"
	"math"
	"os"
	"sort"
	"strings"
	"sync"
	"sync/atomic"

	"github.com/sarchlab/mgpusim/v4/amd/insts"

	lib "verif/mc/c06lib"
	"verif/mc/harness"
)

// ---------------------------------------------------------------------------
// Discovery

type opInfo struct {
	Arch      lib.Arch
	Format    lib.Format
	Opcode    int
	Name      string
	FmtName   string // decoder's format name (vop3a / vop3b / ...)
	IsVOP3b   bool
	MaskOp    bool // SRC2 (VOP3) is a lane mask
	Compare   bool // v_cmp*: inactive lanes' result bits are 0 (GCN3 ISA manual 3.9)
	ReadsVCC  bool
	WritesVCC bool
	HasSDst   bool // the encoding names a lane-mask destination (VOP3b; VOP3a compare)
	Facts     lib.OpFacts
	Cases     []*caseT
	Skipped   []string
}

type caseT struct {
	Op    *opInfo
	Var   lib.Variant
	Bytes []byte
	Inst  *insts.Inst
	Shape lib.Shape
	Kind  int // 0 plain, 1 LDS, 2 memory
	Roles lib.Roles
	// AliasPanic: an operand-aliasing variant whose handler faults on the canonical state although the
	// non-aliased form runs: kept (and reported by the oracles) instead of being skipped
	AliasPanic string
}

func (c *caseT) label() string {
	return fmt.Sprintf("%s/%s/%s[%s]", c.Op.Arch, fmtLabel(c.Op), c.Op.Name, c.Var.Name)
}

// encHex prints the instruction's bytes (the decoder's ByteSize can exceed
// the 8 packed bytes when it counts one literal twice, e.g. v_madak with a literal SRC0).
func encHex(c *caseT) string {
	n := c.Inst.ByteSize
	if n > len(c.Bytes) {
		n = len(c.Bytes)
	}
	return hex.EncodeToString(c.Bytes[:n])
}

func fmtLabel(o *opInfo) string {
	if o.Format == lib.VOP3 {
		if o.IsVOP3b {
			return "VOP3b"
		}
		return "VOP3a"
	}
	return o.Format.String()
}

var disasm [2]*insts.Disassembler

func decode(a lib.Arch, b []byte) (inst *insts.Inst, msg string) {
	defer func() {
		if r := recover(); r != nil {
			inst, msg = nil, "decoder panic: "+fmt.Sprint(r)
		}
	}()
	i, err := disasm[a].Decode(b)
	if err != nil {
		return nil, err.Error()
	}
	return i, ""
}

var expectType = map[lib.Format][]insts.FormatType{
	lib.VOP1: {insts.VOP1}, lib.VOP2: {insts.VOP2}, lib.VOPC: {insts.VOPC}, lib.VOP3: {insts.VOP3a, insts.VOP3b},
	lib.DS: {insts.DS}, lib.FLAT: {insts.FLAT}, lib.SOP2: {insts.SOP2}, lib.SOP1: {insts.SOP1}, lib.SOPC: {insts.SOPC},
	lib.SOPK: {insts.SOPK}, lib.SOPP: {insts.SOPP}, lib.SMEM: {insts.SMEM},
}

func typeOK(f lib.Format, t insts.FormatType) bool {
	for _, x := range expectType[f] {
		if x == t {
			return true
		}
	}
	return false
}

func notImplemented(msg string) bool {
	m := strings.ToLower(msg)
	return strings.Contains(m, "not implemented") || strings.Contains(m, "not supported") || strings.Contains(m, "unsupported")
}

// crossLane lists the documented cross-lane / lane-id dependent instructions
// (by the decoder's own instruction name): they are exceptions to C06.
var crossLane = []struct{ sub, why string }{
	{"readfirstlane", "reads the first active lane into an SGPR (ignores EXEC for the write)"},
	{"readlane", "reads one selected lane into an SGPR"},
	{"writelane", "writes one selected lane"},
	{"swizzle", "DS swizzle: cross-lane data movement"},
	{"bpermute", "DS backward permute: cross-lane data movement"},
	{"permute", "DS forward permute: cross-lane data movement"},
	{"mbcnt", "counts mask bits below the lane's own id (lane-id dependent by definition)"},
	{"dpp", "data-parallel primitive: cross-lane operand"},
	{"interp", "parameter interpolation (LDS + lane quad layout)"},
	{"ds_gws", "global wave sync"},
	{"ds_append", "wave-level append counter"},
	{"ds_consume", "wave-level consume counter"},
	{"ds_ordered_count", "wave-level ordered count"},
	{"mov_fed", "debug move"},
}

func crossLaneWhy(name string) string {
	for _, x := range crossLane {
		if strings.Contains(name, x.sub) {
			return x.why
		}
	}
	return ""
}

func widths(f lib.Format, inst *insts.Inst) lib.Widths {
	w := func(o *insts.Operand) int {
		if o == nil || o.OperandType != insts.RegOperand || o.Register == nil || !o.Register.IsVReg() || o.RegCount < 1 {
			return 1
		}
		if o.RegCount > 4 {
			return 4
		}
		return o.RegCount
	}
	switch f {
	case lib.DS:
		return lib.Widths{Src: [3]int{w(inst.Data), w(inst.Data1), 1}}
	case lib.FLAT:
		return lib.Widths{Src: [3]int{w(inst.Data), 1, 1}}
	}
	return lib.Widths{Src: [3]int{w(inst.Src0), w(inst.Src1), w(inst.Src2)}}
}

type discovery struct {
	Ops           []*opInfo           // implemented and checked
	Exceptions    []string            // documented cross-lane instructions that are implemented (not checked)
	Unimplemented map[string][]string // key arch/format -> "op name" list (decodes, handler says not implemented)
	Undecodable   map[string]int      // key arch/format -> count of opcode values without a decode-table entry
	OtherFormat   map[string][]int    // opcode values of the field that belong to another format
	Faulting      []string            // decodes, handler faults on the canonical form (not a C06 matter, listed)
	VariantSkips  map[string]int      // reason -> count
	VariantSkipEx map[string]string   // reason -> one example
}

func newDiscovery() *discovery {
	return &discovery{Unimplemented: map[string][]string{}, Undecodable: map[string]int{}, OtherFormat: map[string][]int{},
		VariantSkips: map[string]int{}, VariantSkipEx: map[string]string{}}
}

func kindOf(f lib.Format) int {
	switch f {
	case lib.DS:
		return 1
	case lib.FLAT, lib.SMEM:
		return 2
	}
	return 0
}

type wctx struct {
	m  [2]*lib.Machine
	st [3]*stset
}

type stset struct{ in, out, in2, out2, alt *lib.State }

func newCtx() *wctx {
	c := &wctx{}
	c.m[0], c.m[1] = lib.NewMachine(lib.GCN3), lib.NewMachine(lib.CDNA3)
	for k := 0; k < 3; k++ {
		mk := func() *lib.State { return lib.NewState(k == 1, k == 2) }
		c.st[k] = &stset{mk(), mk(), mk(), mk(), mk()}
	}
	return c
}

const allLanes = math.MaxUint64

func (d *discovery) skip(reason, example string) {
	d.VariantSkips[reason]++
	if _, ok := d.VariantSkipEx[reason]; !ok {
		d.VariantSkipEx[reason] = example
	}
}

// discoverOp probes one opcode value of one format for one ALU.
func (d *discovery) discoverOp(ctx *wctx, a lib.Arch, f lib.Format, op int) *opInfo {
	key := fmt.Sprintf("%s/%s", a, f)
	vars := lib.AllVariants(f)
	b := lib.Encode(f, op, vars[0], false)
	inst, msg := decode(a, b)
	if inst == nil {
		if strings.Contains(msg, "not found") || strings.Contains(msg, "cannot find the instruction format") {
			d.Undecodable[key]++
		} else {
			d.Faulting = append(d.Faulting, fmt.Sprintf("%s op %d: decode of the canonical encoding %x fails: %s", key, op, b, msg))
		}
		return nil
	}
	if !typeOK(f, inst.FormatType) {
		d.OtherFormat[key] = append(d.OtherFormat[key], op)
		return nil
	}
	o := &opInfo{Arch: a, Format: f, Opcode: op, Name: inst.InstName, FmtName: inst.FormatName, IsVOP3b: inst.FormatType == insts.VOP3b}
	o.MaskOp = f == lib.VOP3 && (strings.Contains(o.Name, "cndmask") || strings.Contains(o.Name, "addc") || strings.Contains(o.Name, "subb"))
	o.Compare = strings.HasPrefix(o.Name, "v_cmp")
	// fields the opcode does not use are packed as zero
	noSrc1, noSrc2 := f == lib.VOP3 && inst.Src1 == nil, f == lib.VOP3 && inst.Src2 == nil
	noData0 := (f == lib.DS && inst.Data == nil) || (f == lib.FLAT && strings.Contains(o.Name, "load"))
	noData1 := f == lib.DS && inst.Data1 == nil
	noDst := (f == lib.DS && inst.Dst == nil) || (f == lib.FLAT && strings.Contains(o.Name, "store"))
	o.HasSDst = f == lib.VOP3 && (o.IsVOP3b || op < 256)
	o.Facts = facts(f, inst, o)
	st := ctx.st[kindOf(f)]
	mach := ctx.m[a]
	seen := map[string]bool{}
	for vi, va := range vars {
		va := va
		if va.Applies != nil && !va.Applies(&o.Facts) {
			continue // not a legal / not a distinct encoding for this opcode
		}
		if ok, why := va.Legal(&o.Facts); !ok {
			d.skip("aliasing variant not encodable: "+why, fmt.Sprintf("%s %s [%s]", key, o.Name, va.Name))
			continue
		}
		if f == lib.VOP3 {
			if o.MaskOp {
				if !va.Src2Mask {
					if va.Src2 != 256+lib.RegSrc2 || va.Src0 < 256 || va.Src1 < 256 {
						continue // a second scalar source is not encodable next to the mask SGPR
					}
					va.Src2 = lib.SRegMask
				}
			} else if va.Src2Mask {
				continue
			}
		}
		va.NoSrc1, va.NoSrc2, va.NoData0, va.NoData1, va.NoDst = noSrc1, noSrc2, noData0, noData1, noDst
		bytesV := lib.Encode(f, op, va, o.IsVOP3b)
		in, msg := decode(a, bytesV)
		ex := fmt.Sprintf("%s %s [%s]", key, o.Name, va.Name)
		if in == nil {
			d.skip("variant does not decode: "+short(msg), ex)
			continue
		}
		if seen[string(bytesV)] {
			continue // the opcode ignores the field that distinguishes this variant: same encoding as an earlier one
		}
		if vi > 0 && f == lib.VOP3 {
			if (va.Src2 != vars[0].Src2 && !o.MaskOp && noSrc2) || (va.Src1 != vars[0].Src1 && noSrc1) {
				continue // the decoder ignores that field for this opcode: identical to the canonical form
			}
		}
		c := &caseT{Op: o, Var: va, Bytes: bytesV, Inst: in, Kind: kindOf(f)}
		c.Shape = lib.Shape{Format: f, Variant: va, W: widths(f, in)}
		c.Shape.Addr64 = f == lib.FLAT && in.Addr != nil && in.Addr.RegCount == 2
		c.Roles = rolesOf(o, &va)
		// canonical state: all lanes active, pattern 0
		lib.Build(st.in, &c.Shape, 0, allLanes, false)
		oc := mach.Run(in, st.in, st.out)
		if oc.Panic != "" {
			if vi == 0 {
				if notImplemented(oc.Panic) {
					d.Unimplemented[key] = append(d.Unimplemented[key], fmt.Sprintf("%d %s", op, o.Name))
				} else {
					d.Faulting = append(d.Faulting, fmt.Sprintf("%s op %d %s: handler faults on the canonical all-VGPR form %x: %s", key, op, o.Name, bytesV, short(oc.Panic)))
				}
				return nil
			}
			if notImplemented(oc.Panic) {
				d.skip("handler: "+short(oc.Panic), ex)
				continue
			}
			if !va.Alias {
				d.skip("handler faults: "+short(oc.Panic), ex)
				continue
			}
			c.AliasPanic = short(oc.Panic) // an aliased form faults where the plain one runs: checked, not skipped
		}
		if vi == 0 {
			if why := crossLaneWhy(o.Name); why != "" {
				d.Exceptions = append(d.Exceptions, fmt.Sprintf("%s op %d %s: %s", key, op, o.Name, why))
				return nil
			}
			if f.IsVector() {
				o.probeVCC(mach, st, c)
				if o.HasSDst {
					o.probeSDst(mach, st, c)
				}
				c.Roles = rolesOf(o, &va)
			}
		}
		if va.VCCData && o.ReadsVCC {
			continue // VCC is an implicit lane-mask INPUT of this opcode, it cannot also be uniform data
		}
		seen[string(bytesV)] = true
		o.Cases = append(o.Cases, c)
	}
	if len(o.Cases) == 0 {
		return nil
	}
	d.Ops = append(d.Ops, o)
	return o
}

// facts collects what the canonical decode tells about the operands of the opcode.
func facts(f lib.Format, inst *insts.Inst, o *opInfo) lib.OpFacts {
	cnt := func(op *insts.Operand) int {
		if op == nil {
			return 0
		}
		if op.OperandType == insts.RegOperand && op.RegCount > 1 {
			return op.RegCount
		}
		return 1
	}
	vcnt := func(op *insts.Operand) int {
		if op == nil || op.OperandType != insts.RegOperand || op.Register == nil || !op.Register.IsVReg() {
			return 0
		}
		return cnt(op)
	}
	x := lib.OpFacts{HasSDst: o.HasSDst, MaskOp: o.MaskOp, EvenVGPRTuples: o.Arch == lib.CDNA3,
		LiteralK: strings.Contains(o.Name, "madak") || strings.Contains(o.Name, "madmk")}
	switch f {
	case lib.VOP1, lib.VOP2, lib.VOPC, lib.VOP3:
		x.DstW = vcnt(inst.Dst)
		x.SrcW = [3]int{cnt(inst.Src0), cnt(inst.Src1), cnt(inst.Src2)}
	case lib.DS:
		x.DstW = vcnt(inst.Dst)
		x.SrcW = [3]int{cnt(inst.Data), cnt(inst.Data1), 0}
		x.IsLoad = x.DstW > 0
	case lib.FLAT:
		x.IsLoad = strings.Contains(o.Name, "load")
		if x.IsLoad {
			x.DstW = vcnt(inst.Dst)
		} else {
			x.SrcW[0] = cnt(inst.Data)
		}
		x.Addr64 = inst.Addr != nil && inst.Addr.RegCount == 2
	case lib.SMEM:
		x.DstW = cnt(inst.Data)
		x.IsLoad = true
	default:
		x.DstW = cnt(inst.Dst)
		x.SrcW = [3]int{cnt(inst.Src0), cnt(inst.Src1), 0}
		if strings.Contains(o.Name, "getpc") {
			x.SrcW[0] = 0 // s_getpc_b64 has no source operand (the decoder fills Src0 anyway)
		}
	}
	return x
}

// rolesOf derives the input and output roles of the scalar registers for one
// variant of an opcode. On input: VCC is a lane mask unless the variant reads
// it as uniform data; s[8:9] (SRC2 mask) and s[20:21] (the default SDST) are
// lane masks, every other SGPR is uniform data. On output: additionally the
// SDST pair the encoding names (any SGPR pair or VCC), if the opcode writes
// it, and VCC if the opcode writes it implicitly (VOPC, VOP2 carry-out) are
// lane masks produced by the instruction - also when the same register was
// uniform data on input.
func rolesOf(o *opInfo, va *lib.Variant) lib.Roles {
	ro := lib.Roles{VCCIn: !va.VCCData, In: []int{lib.SRegMask, lib.SRegDst}, Out: []int{lib.SRegMask, lib.SRegDst}}
	ro.VCCOut = ro.VCCIn || o.WritesVCC
	if o.HasSDst && o.Facts.WritesSDst {
		switch {
		case va.SDst == lib.CodeVCC:
			ro.VCCOut = true
		case va.SDst != lib.SRegMask && va.SDst != lib.SRegDst:
			ro.Out = append(ro.Out, va.SDst)
		}
	}
	return ro
}

// probeSDst finds out whether the handler writes the SDST the encoding names
// (canonical form, SDST = s[20:21], pre-filled with junk).
func (o *opInfo) probeSDst(m *lib.Machine, st *stset, c *caseT) {
	for p := 0; p < lib.NumPatterns; p++ {
		lib.Build(st.in, &c.Shape, p, allLanes, false)
		m.Run(c.Inst, st.in, st.out)
		if lib.S64(st.out, lib.SRegDst) != lib.S64(st.in, lib.SRegDst) {
			o.Facts.WritesSDst = true
		}
	}
}

func short(s string) string {
	s = strings.TrimSpace(strings.ReplaceAll(s, "\n", " "))
	// drop per-opcode numbers so that reasons aggregate
	if i := strings.Index(s, "opcode"); i >= 0 && strings.Contains(s, "not implemented") {
		return "SDWA / opcode form not implemented"
	}
	if len(s) > 90 {
		s = s[:90]
	}
	return s
}

// probeVCC finds out, by running the canonical form under VCC = c and ^c,
// whether the opcode reads and/or writes VCC implicitly.
func (o *opInfo) probeVCC(m *lib.Machine, st *stset, c *caseT) {
	for p := 0; p < lib.NumPatterns; p++ {
		lib.Build(st.in, &c.Shape, p, allLanes, false)
		v0 := st.in.VCC
		m.Run(c.Inst, st.in, st.out)
		if st.out.VCC != v0 {
			o.WritesVCC = true
		}
		lib.Build(st.in2, &c.Shape, p, allLanes, false)
		st.in2.VCC = ^v0
		m.Run(c.Inst, st.in2, st.out2)
		if st.out2.VCC != ^v0 {
			o.WritesVCC = true
		}
		if !bytes.Equal(st.out.V, st.out2.V) || !bytes.Equal(st.out.S, st.out2.S) || st.out.EXEC != st.out2.EXEC ||
			(st.out.LDS != nil && !bytes.Equal(st.out.LDS, st.out2.LDS)) || (st.out.Mem != nil && !bytes.Equal(st.out.Mem, st.out2.Mem)) {
			o.ReadsVCC = true
		}
		if o.WritesVCC && st.out.VCC != st.out2.VCC {
			o.ReadsVCC = true
		}
	}
}

// ---------------------------------------------------------------------------
// Failures

type replayCase struct {
	Kind     string `json:"kind"` // frame | equivariance | locality | scalar
	Arch     string `json:"arch"`
	Format   string `json:"format"`
	Opcode   int    `json:"opcode"`
	Inst     string `json:"inst"`
	Variant  string `json:"variant"`
	Encoding string `json:"encoding_hex"`
	Pattern  int    `json:"pattern"`
	Exec     string `json:"exec_hex"`
	Poison   bool   `json:"inactive_lanes_get_faulting_addresses"`
	PermName string `json:"perm_name,omitempty"`
	Perm     []int  `json:"perm,omitempty"`
	Lane     int    `json:"lane"`
	Mod      string `json:"mod,omitempty"`
	ExecB    string `json:"exec_b_hex,omitempty"`
	MaskMode int    `json:"uniform_lane_masks,omitempty"` // 1 = VCC / mask pair all ones, 2 = all zero
}

type failure struct {
	sig, msg string
	rc       replayCase
	order    int64
}

var (
	failMu   sync.Mutex
	failures = map[string]*failure{}
	runs     atomic.Int64
	nontriv  atomic.Int64
	units    atomic.Int64
	panics   atomic.Int64
)

func fail(order int64, c *caseT, cause, msg string, rc replayCase) {
	sig := fmt.Sprintf("%s/%s/%s/%s", c.Op.Arch, fmtLabel(c.Op), c.Op.Name, cause)
	rc.Arch, rc.Format, rc.Opcode, rc.Inst, rc.Variant = c.Op.Arch.String(), c.Op.Format.String(), c.Op.Opcode, c.Op.Name, c.Var.Name
	rc.Encoding = encHex(c)
	rc.MaskMode = c.Shape.MaskMode
	failMu.Lock()
	defer failMu.Unlock()
	if f, ok := failures[sig]; ok && f.order <= order {
		return
	}
	failures[sig] = &failure{sig, msg, rc, order}
}

// ---------------------------------------------------------------------------
// Oracles

type tierCfg struct {
	execs []lib.NamedExec
	perms []lib.NamedPerm
	lanes []int
}

func hx(x uint64) string { return fmt.Sprintf("%#016x", x) }

// destMask returns the lane-mask result register(s) of a compare.
func compareDest(c *caseT, out *lib.State) (name string, val uint64) {
	if c.Op.Format == lib.VOPC {
		return "VCC", out.VCC
	}
	if c.Var.SDst == lib.CodeVCC {
		return "VCC", out.VCC
	}
	return fmt.Sprintf("s[%d:%d]", c.Var.SDst, c.Var.SDst+1), lib.S64(out, c.Var.SDst)
}

func firstLaneDiff(a, b []byte) (reg int, av, bv uint32) {
	for r := 0; r < 256; r++ {
		x := uint32(a[4*r]) | uint32(a[4*r+1])<<8 | uint32(a[4*r+2])<<16 | uint32(a[4*r+3])<<24
		y := uint32(b[4*r]) | uint32(b[4*r+1])<<8 | uint32(b[4*r+2])<<16 | uint32(b[4*r+3])<<24
		if x != y {
			return r, x, y
		}
	}
	return -1, 0, 0
}

func accStr(a []lib.Access) string {
	var s []string
	for i, x := range a {
		if i == 6 {
			s = append(s, fmt.Sprintf("… (%d)", len(a)))
			break
		}
		s = append(s, x.String())
	}
	return strings.Join(s, " ")
}

func accEqual(a, b []lib.Access) bool {
	if len(a) != len(b) {
		return false
	}
	for i := range a {
		if a[i] != b[i] {
			return false
		}
	}
	return true
}

// laneOfRegion inverts lib.Region for pattern p.
func laneOfRegion(p, region int) int {
	for l := 0; l < 64; l++ {
		if lib.Region(p, l) == region {
			return l
		}
	}
	return -1
}

// checkFrame is oracle O2 on one finished run. It returns cause/message pairs.
func checkFrame(c *caseT, p int, in, out *lib.State, oc lib.Outcome) (cause, msg string) {
	exec := in.EXEC
	for l := 0; l < 64; l++ {
		if exec>>uint(l)&1 == 1 {
			continue
		}
		if !bytes.Equal(in.Lane(l), out.Lane(l)) {
			r, x, y := firstLaneDiff(in.Lane(l), out.Lane(l))
			return "inactive-lane-vgpr-written", fmt.Sprintf("EXEC=%s: lane %d is inactive but v%d changed %#08x -> %#08x", hx(exec), l, r, x, y)
		}
	}
	for _, a := range oc.Accesses {
		region, ok := lib.MemRegionOf(a.Addr)
		if !ok {
			return "access-outside-lane-addresses", fmt.Sprintf("EXEC=%s: access %s is at no lane's address", hx(exec), a)
		}
		l := laneOfRegion(p, region)
		if exec>>uint(l)&1 == 0 {
			return "inactive-lane-access", fmt.Sprintf("EXEC=%s: access %s is at the address held by inactive lane %d", hx(exec), a, l)
		}
	}
	if c.Op.Compare {
		name, v := compareDest(c, out)
		if v&^exec != 0 {
			return "inactive-lane-mask-bit-set", fmt.Sprintf("EXEC=%s: compare result %s=%s has bits set for inactive lanes (%s); ISA 3.9: VCC[n] = EXEC[n] & test[n]", hx(exec), name, hx(v), hx(v&^exec))
		}
		if strings.HasPrefix(c.Op.Name, "v_cmpx") && out.EXEC&^exec != 0 {
			return "inactive-lane-exec-bit-set", fmt.Sprintf("EXEC=%s -> %s: v_cmpx enabled an inactive lane", hx(exec), hx(out.EXEC))
		}
	}
	return "", ""
}

// checkEquiv is oracle O1: out2 (run on pi.in) against pi.out1.
func checkEquiv(c *caseT, pi *lib.Perm, out1, out2 *lib.State, oc1, oc2 lib.Outcome) (cause, msg string) {
	if oc2.Panic != "" {
		return "panic-under-permutation", "the permuted state faults: " + short(oc2.Panic)
	}
	for i := 0; i < 64; i++ {
		a, b := out1.Lane(i), out2.Lane(int(pi[i]))
		if !bytes.Equal(a, b) {
			r, x, y := firstLaneDiff(a, b)
			return "not-equivariant-vgpr", fmt.Sprintf("lane %d of run(s) has v%d=%#08x but lane %d of run(pi.s) has v%d=%#08x", i, r, x, pi[i], r, y)
		}
	}
	want := out1.VCC
	if c.Roles.VCCOut {
		want = pi.Bits(out1.VCC)
	}
	if out2.VCC != want {
		return "not-equivariant-vcc", fmt.Sprintf("VCC: run(s)=%s, pi.run(s)=%s, run(pi.s)=%s", hx(out1.VCC), hx(want), hx(out2.VCC))
	}
	if w := pi.Bits(out1.EXEC); out2.EXEC != w {
		return "not-equivariant-exec", fmt.Sprintf("EXEC: run(s)=%s, pi.run(s)=%s, run(pi.s)=%s", hx(out1.EXEC), hx(w), hx(out2.EXEC))
	}
	for r := 0; r < lib.SFileBytes/4; r++ {
		low, high := c.Roles.IsOut(r)
		if low {
			a, b := lib.S64(out1, r), lib.S64(out2, r)
			if pi.Bits(a) != b {
				return "not-equivariant-sdst", fmt.Sprintf("lane mask s[%d:%d]: run(s)=%s, pi.run(s)=%s, run(pi.s)=%s", r, r+1, hx(a), hx(pi.Bits(a)), hx(b))
			}
			continue
		}
		if high {
			continue
		}
		if !bytes.Equal(out1.S[4*r:4*r+4], out2.S[4*r:4*r+4]) {
			return "not-equivariant-sgpr", fmt.Sprintf("uniform s%d differs between run(s) and run(pi.s)", r)
		}
	}
	if out1.SCC != out2.SCC || out1.M0 != out2.M0 || out1.PC != out2.PC {
		return "not-equivariant-scalar-state", "SCC/M0/PC differ between run(s) and run(pi.s)"
	}
	if out1.LDS != nil && !bytes.Equal(out1.LDS, out2.LDS) {
		i := firstByteDiff(out1.LDS, out2.LDS)
		return "not-equivariant-lds", fmt.Sprintf("LDS byte %#x: run(s)=%#02x run(pi.s)=%#02x", i, out1.LDS[i], out2.LDS[i])
	}
	if out1.Mem != nil && !bytes.Equal(out1.Mem, out2.Mem) {
		i := firstByteDiff(out1.Mem, out2.Mem)
		return "not-equivariant-mem", fmt.Sprintf("memory byte %#x: run(s)=%#02x run(pi.s)=%#02x", lib.MemWindowLo+uint64(i), out1.Mem[i], out2.Mem[i])
	}
	if a, b := lib.SortAccesses(oc1.Accesses), lib.SortAccesses(oc2.Accesses); !accEqual(a, b) {
		return "not-equivariant-access-set", fmt.Sprintf("accesses of run(s): %s; of run(pi.s): %s", accStr(a), accStr(b))
	}
	return "", ""
}

func firstByteDiff(a, b []byte) int {
	for i := range a {
		if a[i] != b[i] {
			return i
		}
	}
	return -1
}

func clearBit(x uint64, j int) uint64 { return x &^ (1 << uint(j)) }

// checkLocal is oracle O3: run B differs from run A only in lane j's inputs
// (or only in EXEC bit j); everything that is not lane j's must be equal.
func checkLocal(c *caseT, p, j int, mod string, outA, outB *lib.State, ocA, ocB lib.Outcome) (cause, msg string) {
	pre := "cross-lane-dependence"
	if mod == "exec" {
		pre = "exec-bit-affects-other-lane"
	}
	if ocB.Panic != "" {
		return pre + "-panic", fmt.Sprintf("after changing only lane %d (%s) the handler faults: %s", j, mod, short(ocB.Panic))
	}
	for i := 0; i < 64; i++ {
		if i == j {
			continue
		}
		if !bytes.Equal(outA.Lane(i), outB.Lane(i)) {
			r, x, y := firstLaneDiff(outA.Lane(i), outB.Lane(i))
			return pre + "-vgpr", fmt.Sprintf("only lane %d's %s changed, but lane %d's v%d went %#08x -> %#08x", j, mod, i, r, x, y)
		}
	}
	if c.Roles.VCCOut && clearBit(outA.VCC, j) != clearBit(outB.VCC, j) {
		return pre + "-vcc", fmt.Sprintf("only lane %d's %s changed, but VCC went %s -> %s", j, mod, hx(outA.VCC), hx(outB.VCC))
	}
	if !c.Roles.VCCOut && outA.VCC != outB.VCC {
		return pre + "-vcc", fmt.Sprintf("only lane %d's %s changed, but VCC (uniform data in this variant) went %s -> %s", j, mod, hx(outA.VCC), hx(outB.VCC))
	}
	if clearBit(outA.EXEC, j) != clearBit(outB.EXEC, j) {
		return pre + "-exec", fmt.Sprintf("only lane %d's %s changed, but EXEC went %s -> %s", j, mod, hx(outA.EXEC), hx(outB.EXEC))
	}
	for r := 0; r < lib.SFileBytes/4; r++ {
		low, high := c.Roles.IsOut(r)
		if low {
			a, b := lib.S64(outA, r), lib.S64(outB, r)
			if clearBit(a, j) != clearBit(b, j) {
				return pre + "-sdst", fmt.Sprintf("only lane %d's %s changed, but lane mask s[%d:%d] went %s -> %s", j, mod, r, r+1, hx(a), hx(b))
			}
			continue
		}
		if high {
			continue
		}
		if !bytes.Equal(outA.S[4*r:4*r+4], outB.S[4*r:4*r+4]) {
			return pre + "-sgpr", fmt.Sprintf("only lane %d's %s changed, but s%d changed", j, mod, r)
		}
	}
	if outA.SCC != outB.SCC || outA.M0 != outB.M0 || outA.PC != outB.PC {
		return pre + "-scalar-state", "SCC/M0/PC changed"
	}
	if outA.LDS != nil {
		lo := int(lib.LDSAddr(p, j))
		hi := lo + 512
		for i := range outA.LDS {
			if (i < lo || i >= hi) && outA.LDS[i] != outB.LDS[i] {
				return pre + "-lds", fmt.Sprintf("only lane %d's %s changed (its LDS window is [%#x,%#x)), but LDS byte %#x went %#02x -> %#02x", j, mod, lo, hi, i, outA.LDS[i], outB.LDS[i])
			}
		}
	}
	if outA.Mem != nil {
		lo := int(lib.MemBase-lib.MemWindowLo) + lib.MemStride*lib.Region(p, j)
		hi := lo + lib.MemStride
		for i := range outA.Mem {
			if (i < lo || i >= hi) && outA.Mem[i] != outB.Mem[i] {
				return pre + "-mem", fmt.Sprintf("only lane %d's %s changed, but memory byte %#x (outside its region) went %#02x -> %#02x", j, mod, lib.MemWindowLo+uint64(i), outA.Mem[i], outB.Mem[i])
			}
		}
		filter := func(a []lib.Access) []lib.Access {
			var o []lib.Access
			for _, x := range lib.SortAccesses(a) {
				if r, ok := lib.MemRegionOf(x.Addr); !ok || r != lib.Region(p, j) {
					o = append(o, x)
				}
			}
			return o
		}
		if a, b := filter(ocA.Accesses), filter(ocB.Accesses); !accEqual(a, b) {
			return pre + "-access-set", fmt.Sprintf("only lane %d's %s changed, but the other lanes' accesses went %s -> %s", j, mod, accStr(a), accStr(b))
		}
	}
	return "", ""
}

// applyMod turns state s (a copy of the base state) into the O3 variant.
func applyMod(c *caseT, s, alt *lib.State, p, j int, mod string, poison bool) {
	switch mod {
	case "values":
		copy(s.Lane(j), alt.Lane((j+1)%64))
		// the address registers stay lane j's own (regions must stay disjoint)
		lib.SetLaneAddr(s, &c.Shape, p, j, poison && s.EXEC>>uint(j)&1 == 0)
		if c.Roles.VCCIn {
			s.VCC ^= 1 << uint(j)
		}
		lib.PutS64(s, lib.SRegMask, lib.S64(s, lib.SRegMask)^(1<<uint(j)))
	case "exec":
		s.EXEC ^= 1 << uint(j)
		lib.SetLaneAddr(s, &c.Shape, p, j, poison && s.EXEC>>uint(j)&1 == 0)
	}
}

// runUnit evaluates all oracles for one (case, pattern, exec, poison).
func runUnit(ctx *wctx, c *caseT, p int, ex lib.NamedExec, poison bool, cfg *tierCfg, order int64) {
	st := ctx.st[c.Kind]
	m := ctx.m[c.Op.Arch]
	units.Add(1)
	base := replayCase{Pattern: p, Exec: hx(ex.Mask), Poison: poison}
	lib.Build(st.in, &c.Shape, p, ex.Mask, poison)
	oc := m.Run(c.Inst, st.in, st.out)
	n := int64(1)
	defer func() { runs.Add(n) }()
	if oc.Panic != "" {
		panics.Add(1)
		rc := base
		rc.Kind = "frame"
		if poison {
			lib.Build(st.in2, &c.Shape, p, ex.Mask, false)
			oc2 := m.Run(c.Inst, st.in2, st.out2)
			n++
			if oc2.Panic == "" {
				fail(order, c, "inactive-lane-access", fmt.Sprintf("EXEC=%s: with faulting addresses in the inactive lanes the handler faults (%s); with valid addresses there it does not: an inactive lane's address is dereferenced", hx(ex.Mask), short(oc.Panic)), rc)
				return
			}
		}
		fail(order, c, "handler-panic", fmt.Sprintf("EXEC=%s pattern %s: %s", hx(ex.Mask), lib.PatternNames[p], short(oc.Panic)), rc)
		return
	}
	if !bytes.Equal(st.in.V, st.out.V) || st.in.VCC != st.out.VCC || !bytes.Equal(st.in.S, st.out.S) || st.in.EXEC != st.out.EXEC ||
		(st.in.LDS != nil && !bytes.Equal(st.in.LDS, st.out.LDS)) || (st.in.Mem != nil && !bytes.Equal(st.in.Mem, st.out.Mem)) {
		nontriv.Add(1)
	}
	if cause, msg := checkFrame(c, p, st.in, st.out, oc); cause != "" {
		rc := base
		rc.Kind = "frame"
		fail(order, c, cause, msg, rc)
	}
	for pi := range cfg.perms {
		np := &cfg.perms[pi]
		lib.Permute(st.in2, st.in, &np.P, &c.Roles)
		oc2 := m.RunInPlace(c.Inst, st.in2)
		n++
		if cause, msg := checkEquiv(c, &np.P, st.out, st.in2, oc, oc2); cause != "" {
			rc := base
			rc.Kind, rc.PermName = "equivariance", np.Name
			for _, x := range np.P {
				rc.Perm = append(rc.Perm, int(x))
			}
			fail(order, c, cause, fmt.Sprintf("EXEC=%s pattern %s pi=%s: %s", hx(ex.Mask), lib.PatternNames[p], np.Name, msg), rc)
		}
	}
	if len(cfg.lanes) > 0 {
		lib.Build(st.alt, &c.Shape, (p+1)%lib.NumPatterns, ex.Mask, poison)
		for _, j := range cfg.lanes {
			for _, mod := range [2]string{"values", "exec"} {
				st.in2.CopyFrom(st.in)
				applyMod(c, st.in2, st.alt, p, j, mod, poison)
				ocB := m.RunInPlace(c.Inst, st.in2)
				n++
				if cause, msg := checkLocal(c, p, j, mod, st.out, st.in2, oc, ocB); cause != "" {
					rc := base
					rc.Kind, rc.Lane, rc.Mod = "locality", j, mod
					fail(order, c, cause, fmt.Sprintf("EXEC=%s pattern %s: %s", hx(ex.Mask), lib.PatternNames[p], msg), rc)
				}
			}
		}
	}
}

// denseOff is where the dense layout starts (behind the 64 sparse lane regions, inside the mapped window).
const denseOff = 64*lib.MemStride + 128

// denseUnit is oracle O5 for memory instructions (FLAT): the result does not depend on how the lanes' addresses
// are laid out. The other oracles give every lane its own 256-byte region in a non-monotone order, which a
// coalescing shortcut for the ordinary buf[tid] shape never sees. Here lane l accesses base + l*size (size = the
// instruction's access size), the slot holds what lane l's sparse region held, and the outcome must be the
// per-lane outcome of the sparse run: same VGPRs (address registers aside), same scalar state, the active lanes'
// slots equal to what the sparse run left at their addresses, and no other byte of memory changed - in
// particular not the slots of inactive lanes between two active ones (seed C06-7).
func denseUnit(ctx *wctx, c *caseT, p int, ex lib.NamedExec, order int64) {
	if c.Var.Alias || c.Kind != 2 || c.Op.Format != lib.FLAT {
		return
	}
	st := ctx.st[2]
	m := ctx.m[c.Op.Arch]
	lib.Build(st.in, &c.Shape, p, ex.Mask, false)
	ocS := m.Run(c.Inst, st.in, st.out)
	if ocS.Panic != "" || len(ocS.Accesses) == 0 {
		return
	}
	size := ocS.Accesses[0].Size
	for _, a := range ocS.Accesses {
		if a.Size != size {
			return // not one access per lane
		}
	}
	reg0, ok := lib.MemRegionOf(ocS.Accesses[0].Addr)
	if !ok || size == 0 || size > 16 {
		return
	}
	l0 := laneOfRegion(p, reg0)
	delta := int64(ocS.Accesses[0].Addr) - int64(lib.MemAddr(p, l0)) // immediate offset of the variant
	if delta < -2048 || delta > 2048 {
		return
	}
	units.Add(1)
	lo := int64(lib.MemWindowLo)
	slot := func(l int) int64 { return int64(lib.MemBase) + denseOff + int64(size)*int64(l) + delta - lo }
	sparse := func(l int) int64 { return int64(lib.MemAddr(p, l)) + delta - lo }
	st.in2.CopyFrom(st.in)
	for l := 0; l < 64; l++ {
		copy(st.in2.Mem[slot(l):slot(l)+int64(size)], st.in.Mem[sparse(l):sparse(l)+int64(size)])
		lib.SetLaneAddrTo(st.in2, &c.Shape, l, lib.MemBase+denseOff+size*uint64(l))
	}
	st.alt.CopyFrom(st.in2)
	ocD := m.RunInPlace(c.Inst, st.in2)
	runs.Add(2)
	rc := replayCase{Pattern: p, Exec: hx(ex.Mask), Kind: "dense"}
	pre := fmt.Sprintf("EXEC=%s pattern %s, lane l at base+%d*l: ", hx(ex.Mask), lib.PatternNames[p], size)
	if ocD.Panic != "" {
		fail(order, c, "dense-layout/handler-panic", pre+short(ocD.Panic), rc)
		return
	}
	out := st.in2
	if out.VCC != st.out.VCC || out.EXEC != st.out.EXEC || out.SCC != st.out.SCC || !bytes.Equal(out.S, st.out.S) {
		fail(order, c, "dense-layout/scalar-state-differs", pre+"VCC/EXEC/SCC/SGPRs differ from the run with one region per lane", rc)
		return
	}
	for l := 0; l < 64; l++ {
		a, b := out.Lane(l), st.out.Lane(l)
		for r := 0; r < lib.LaneBytes/4; r++ {
			if r == lib.RegAddr || r == lib.RegAddr+1 {
				continue
			}
			if !bytes.Equal(a[4*r:4*r+4], b[4*r:4*r+4]) {
				fail(order, c, "dense-layout/vgpr-differs", fmt.Sprintf("%slane %d v%d = %#08x, with one region per lane (same memory contents) %#08x", pre, l, r, lib.V32(out, l, r), lib.V32(st.out, l, r)), rc)
				return
			}
		}
	}
	owner := func(i int64) int {
		j := i - slot(0)
		if j < 0 || j >= 64*int64(size) {
			return -1
		}
		return int(j / int64(size))
	}
	for i := range out.Mem {
		if out.Mem[i] == st.alt.Mem[i] {
			continue
		}
		l := owner(int64(i))
		if l < 0 {
			fail(order, c, "dense-layout/memory-outside-the-lanes-slots-changed", fmt.Sprintf("%sbyte at %#x changed %#02x -> %#02x", pre, uint64(lo+int64(i)), st.alt.Mem[i], out.Mem[i]), rc)
			return
		}
		if ex.Mask>>uint(l)&1 == 0 {
			fail(order, c, "dense-layout/inactive-lane-memory-written", fmt.Sprintf("%slane %d is inactive but byte %d of its element changed %#02x -> %#02x", pre, l, int64(i)-slot(l), st.alt.Mem[i], out.Mem[i]), rc)
			return
		}
	}
	for l := 0; l < 64; l++ {
		if ex.Mask>>uint(l)&1 == 0 {
			continue
		}
		got, want := out.Mem[slot(l):slot(l)+int64(size)], st.out.Mem[sparse(l):sparse(l)+int64(size)]
		if !bytes.Equal(got, want) {
			fail(order, c, "dense-layout/active-lane-memory-differs", fmt.Sprintf("%slane %d's element holds %x, with one region per lane %x", pre, l, got, want), rc)
			return
		}
	}
	_ = ocD
}

// scalarUnit is oracle O4 for one scalar case and pattern: the result must
// not depend on EXEC and EXEC must not change.
func scalarUnit(ctx *wctx, c *caseT, p int, execs []lib.NamedExec, order int64) {
	st := ctx.st[c.Kind]
	m := ctx.m[c.Op.Arch]
	units.Add(1)
	lib.Build(st.in, &c.Shape, p, allLanes, false)
	ocA := m.Run(c.Inst, st.in, st.out)
	n := int64(1)
	defer func() { runs.Add(n) }()
	if !bytes.Equal(st.in.S, st.out.S) || st.in.SCC != st.out.SCC || st.in.PC != st.out.PC || st.in.VCC != st.out.VCC {
		nontriv.Add(1)
	}
	for _, ex := range execs {
		lib.Build(st.in2, &c.Shape, p, ex.Mask, false)
		ocB := m.Run(c.Inst, st.in2, st.out2)
		n++
		rc := replayCase{Kind: "scalar", Pattern: p, Exec: hx(allLanes), ExecB: hx(ex.Mask)}
		bad := ""
		switch {
		case ocA.Panic != ocB.Panic:
			bad = fmt.Sprintf("outcome differs: %q vs %q", short(ocA.Panic), short(ocB.Panic))
		case ocA.Panic != "":
		case st.out2.EXEC != ex.Mask:
			fail(order, c, "scalar-writes-exec", fmt.Sprintf("EXEC %s -> %s", hx(ex.Mask), hx(st.out2.EXEC)), rc)
		case !bytes.Equal(st.out.S, st.out2.S):
			bad = "SGPR results differ"
		case st.out.SCC != st.out2.SCC:
			bad = fmt.Sprintf("SCC %d vs %d", st.out.SCC, st.out2.SCC)
		case st.out.VCC != st.out2.VCC:
			bad = fmt.Sprintf("VCC %s vs %s", hx(st.out.VCC), hx(st.out2.VCC))
		case st.out.PC != st.out2.PC || st.out.M0 != st.out2.M0:
			bad = "PC/M0 differ"
		case !bytes.Equal(st.out.V, st.out2.V):
			bad = "VGPRs differ"
		case st.out.Mem != nil && !bytes.Equal(st.out.Mem, st.out2.Mem):
			bad = "memory differs"
		case !accEqual(lib.SortAccesses(ocA.Accesses), lib.SortAccesses(ocB.Accesses)):
			bad = "memory accesses differ"
		}
		if bad != "" {
			fail(order, c, "scalar-result-depends-on-exec", fmt.Sprintf("pattern %s: EXEC=all vs EXEC=%s: %s", lib.PatternNames[p], hx(ex.Mask), bad), rc)
		}
	}
}

// ---------------------------------------------------------------------------

func pickExecs(all []lib.NamedExec, names ...string) []lib.NamedExec {
	var o []lib.NamedExec
	for _, n := range names {
		for _, e := range all {
			if e.Name == n {
				o = append(o, e)
			}
		}
	}
	return o
}

func pickPerms(all []lib.NamedPerm, names ...string) []lib.NamedPerm {
	var o []lib.NamedPerm
	for _, n := range names {
		for _, e := range all {
			if e.Name == n {
				o = append(o, e)
			}
		}
	}
	return o
}

func sortedKeys[V any](m map[string]V) []string {
	var k []string
	for x := range m {
		k = append(k, x)
	}
	sort.Strings(k)
	return k
}

var vectorFormats = []lib.Format{lib.VOP1, lib.VOP2, lib.VOPC, lib.VOP3, lib.DS, lib.FLAT}
var scalarFormats = []lib.Format{lib.SOP2, lib.SOP1, lib.SOPC, lib.SOPK, lib.SOPP, lib.SMEM}

func main() {
	list := flag.Bool("list", false, "print the discovered opcode tables and exit")
	encs := flag.Bool("encodings", false, "print every checked encoding (for cross-checking the field packing with llvm-mc) and exit")
	r := harness.Start("C06", "exploration")
	log.SetOutput(io.Discard) // log.Panicf of the handlers prints before it panics
	for a := range disasm {
		disasm[a] = insts.NewDisassembler()
		disasm[a].IsCDNA3 = lib.Arch(a) == lib.CDNA3
	}
	ctx0 := newCtx()

	// --- discovery (deterministic, single-threaded)
	vd, sd := newDiscovery(), newDiscovery()
	var scalarExc []string
	for _, a := range []lib.Arch{lib.GCN3, lib.CDNA3} {
		for _, f := range vectorFormats {
			for op := 0; op < f.OpcodeCount(); op++ {
				vd.discoverOp(ctx0, a, f, op)
			}
		}
		for _, f := range scalarFormats {
			for op := 0; op < f.OpcodeCount(); op++ {
				sd.discoverOp(ctx0, a, f, op)
			}
		}
	}
	// scalar instructions that name EXEC read or write it explicitly: documented exceptions
	{
		var keep []*opInfo
		for _, o := range sd.Ops {
			if strings.Contains(o.Name, "exec") {
				scalarExc = append(scalarExc, fmt.Sprintf("%s/%s op %d %s", o.Arch, o.Format, o.Opcode, o.Name))
				continue
			}
			keep = append(keep, o)
		}
		sd.Ops = keep
	}
	dppNote := probeDPP()

	if r.Replay != "" {
		replay(r, ctx0, vd, sd)
		return
	}

	if *list {
		printTables(vd, sd, scalarExc, dppNote)
		os.Exit(0)
	}
	if *encs {
		for _, d := range []*discovery{vd, sd} {
			for _, o := range d.Ops {
				for _, c := range o.Cases {
					kind := "plain"
					if c.Var.Alias {
						kind = "alias"
					}
					fmt.Printf("%s\t%s\t%d\t%s\t%s\t%s\t%s\n", o.Arch, fmtLabel(o), o.Opcode, o.Name, c.Var.Name, encHex(c), kind)
				}
			}
		}
		os.Exit(0)
	}

	// --- enumeration
	allExec := lib.ExecAlphabet()
	allPerm := lib.Generators()
	cfg := &tierCfg{}
	if r.Thorough() {
		cfg.execs, cfg.perms = allExec, allPerm
		// locality at one lane + equivariance under S_64 gives locality at every lane
		// (conjugate with a permutation that moves the lane); nine lanes are run anyway
		cfg.lanes = []int{0, 1, 15, 21, 31, 32, 47, 62, 63}
	} else {
		cfg.execs = pickExecs(allExec, "zero", "all", "bit0", "bit31", "bit63", "prefix32", "suffix32", "prefix63", "suffix63", "prefix17", "suffix5", "alt5555", "altAAAA")
		cfg.perms = pickPerms(allPerm, "swap(0,1)", "swap(17,18)", "swap(31,32)", "swap(62,63)", "rotate+1", "reverse", "swap-halves")
		cfg.lanes = []int{0, 21, 31, 32, 63}
	}
	// EXEC masks of the dense-layout oracle: the alphabet of the tier plus masks with holes between active lanes
	denseExecs := append(append([]lib.NamedExec{}, cfg.execs...), lib.NamedExec{Name: "one-hole", Mask: allLanes &^ (1 << 21)},
		lib.NamedExec{Name: "two-far-apart", Mask: 1<<3 | 1<<60}, lib.NamedExec{Name: "ragged", Mask: 0x8001F0F30000C013},
		lib.NamedExec{Name: "two-neighbours-of-a-hole", Mask: 1<<30 | 1<<32}, lib.NamedExec{Name: "every-fourth", Mask: 0x1111111111111111})
	type unitT struct {
		c      *caseT
		p      int
		e      int
		poison bool
		scalar bool
		dense  bool
	}
	var work []unitT
	nCases := 0
	for _, o := range vd.Ops {
		for _, c := range o.Cases {
			nCases++
			for p := 0; p < lib.NumPatterns; p++ {
				for e := range cfg.execs {
					work = append(work, unitT{c: c, p: p, e: e})
					if c.Kind != 0 && cfg.execs[e].Mask != allLanes {
						work = append(work, unitT{c: c, p: p, e: e, poison: true})
					}
				}
				if c.Op.ReadsVCC || c.Op.MaskOp {
					// wavefront-uniform conditions: the lane mask the instruction reads is all ones / all zero
					for _, mode := range []int{1, 2} {
						cu := *c
						cu.Shape.MaskMode = mode
						for e := range cfg.execs {
							work = append(work, unitT{c: &cu, p: p, e: e})
						}
					}
				}
				if c.Kind == 2 && c.Op.Format == lib.FLAT && !c.Var.Alias {
					for e := range denseExecs {
						work = append(work, unitT{c: c, p: p, e: e, dense: true})
					}
				}
			}
		}
	}
	nScalarCases := 0
	for _, o := range sd.Ops {
		for _, c := range o.Cases {
			nScalarCases++
			for p := 0; p < lib.NumPatterns; p++ {
				work = append(work, unitT{c: c, p: p, scalar: true})
			}
		}
	}
	pool := sync.Pool{New: func() any { return newCtx() }}
	complete := r.ForEach(len(work), func(i int) {
		ctx := pool.Get().(*wctx)
		u := work[i]
		if u.scalar {
			scalarUnit(ctx, u.c, u.p, allExec, int64(i))
		} else if u.dense {
			denseUnit(ctx, u.c, u.p, denseExecs[u.e], int64(i))
		} else {
			runUnit(ctx, u.c, u.p, cfg.execs[u.e], u.poison, cfg, int64(i))
		}
		pool.Put(ctx)
	})

	// --- report
	for _, sig := range sortedKeys(failures) {
		f := failures[sig]
		r.Report(f.sig, f.msg, f.rc)
	}
	for _, s := range samples(ctx0, vd) {
		r.Sample(s)
	}
	count := func(d *discovery, a lib.Arch) (ops, cases int) {
		for _, o := range d.Ops {
			if o.Arch == a {
				ops++
				cases += len(o.Cases)
			}
		}
		return
	}
	g, gc := count(vd, lib.GCN3)
	cn, cc := count(vd, lib.CDNA3)
	sg, _ := count(sd, lib.GCN3)
	sc, _ := count(sd, lib.CDNA3)
	r.Cov["evaluations"] = runs.Load()
	r.Cov["distinct_nontrivial"] = nontriv.Load()
	r.Cov["units_opcode_variant_pattern_exec"] = units.Load()
	r.Cov["exhaustive"] = complete
	r.Cov["rule"] = "every vector opcode x operand-kind variant that decodes and whose handler runs (both ALUs), x 3 lane-value patterns x EXEC alphabet x lane permutations (generators) x single-lane modifications; evaluations = ALU.Run calls; distinct_nontrivial = (opcode,variant,pattern,EXEC) base states whose run changed VGPR/VCC/SGPR/EXEC/LDS/memory"
	r.Cov["vector_opcodes_checked"] = map[string]int{"gcn3": g, "cdna3": cn}
	r.Cov["vector_opcode_variants_checked"] = map[string]int{"gcn3": gc, "cdna3": cc}
	r.Cov["scalar_opcodes_checked"] = map[string]int{"gcn3": sg, "cdna3": sc}
	r.Cov["scalar_opcode_variants_checked"] = nScalarCases
	aliasCases := map[string]int{}
	for _, d := range []*discovery{vd, sd} {
		for _, o := range d.Ops {
			for _, c := range o.Cases {
				if c.Var.Alias {
					aliasCases[fmt.Sprintf("%s/%s", o.Arch, fmtLabel(o))]++
				}
			}
		}
	}
	r.Cov["operand_aliasing_variants_checked"] = aliasCases
	r.Cov["exec_masks"] = len(cfg.execs)
	r.Cov["exec_masks_scalar"] = len(allExec)
	r.Cov["lane_permutations"] = len(cfg.perms)
	r.Cov["locality_lanes"] = len(cfg.lanes)
	r.Cov["patterns"] = lib.PatternNames
	r.Cov["base_runs_that_panicked"] = panics.Load()
	unimpl := map[string]int{}
	for k, v := range vd.Unimplemented {
		unimpl[k] = len(v)
	}
	r.Cov["excluded_decodes_but_handler_not_implemented"] = unimpl
	unimplLists, implLists := map[string]string{}, map[string]string{}
	for k, v := range vd.Unimplemented {
		unimplLists[k] = strings.Join(v, ", ")
	}
	for _, o := range vd.Ops {
		k := fmt.Sprintf("%s/%s", o.Arch, fmtLabel(o))
		if implLists[k] != "" {
			implLists[k] += ", "
		}
		implLists[k] += fmt.Sprintf("%d %s (%d variants)", o.Opcode, o.Name, len(o.Cases))
	}
	r.Cov["excluded_not_implemented_opcodes"] = unimplLists
	r.Cov["checked_vector_opcodes"] = implLists
	r.Cov["excluded_opcode_values_without_decode_entry"] = vd.Undecodable
	r.Cov["excluded_documented_cross_lane_exceptions"] = vd.Exceptions
	r.Cov["excluded_scalar_exec_instructions"] = scalarExc
	r.Cov["excluded_handler_faults_on_canonical_form"] = append(append([]string{}, vd.Faulting...), sd.Faulting...)
	r.Cov["excluded_variants"] = vd.VariantSkips
	r.Cov["dpp"] = dppNote
	r.Assume = []string{
		"the instruction object is whatever insts.Disassembler.Decode returns for the packed encoding (decoder correctness is C04's matter)",
		"stores / DS writes are run with pairwise distinct lane addresses only; atomics and aliasing stores are not covered",
		"documented cross-lane instructions (readfirstlane, readlane/writelane, DS swizzle/permute, mbcnt, DPP) are exceptions, listed in the evidence",
		"equivariance is checked for a generating set of S_64 on every state of the alphabet; since pi.s stays inside the closure of the alphabet only for the thorough tier's full EXEC families, composition to arbitrary permutations is an argument, not an enumeration",
		"operand forms follow the ISA operand rules (SRC2 of cndmask/addc/subb is an SGPR-pair or VCC lane mask; at most one scalar source next to it)",
		"scalar registers have separate input and output roles: on input an SGPR pair / VCC is uniform data or a lane mask as the variant says; on output the SDST pair of a VOP3b opcode / VOP3a compare (any SGPR pair or VCC) and the implicit VCC result of VOPC / VOP2 carry opcodes are lane masks produced by the instruction, also when the same register was a uniform source on input (operand aliasing); all sources are read before any result is written",
	}
	fmt.Printf("C06: %d vector opcodes (%d opcode x variant cases), %d scalar opcodes; %d units, %d ALU runs, %d nontrivial; %d failure signatures\n",
		g+cn, nCases, sg+sc, units.Load(), runs.Load(), nontriv.Load(), len(failures))
	r.Finish()
}

// probeDPP documents that the decoder has no DPP form (src0 = 250).
func probeDPP() string {
	b := lib.Encode(lib.VOP1, 1, lib.Variant{Src0: 250}, false)
	_, msg := decode(lib.GCN3, b)
	if msg == "" {
		return "v_mov_b32 with src0=250 (DPP) decodes: DPP is NOT excluded by the decoder - check"
	}
	return "DPP (src0=250) does not decode: " + short(msg)
}

func samples(ctx *wctx, d *discovery) []any {
	var out []any
	seen := map[string]bool{}
	perm := pickPerms(lib.Generators(), "swap(0,1)")[0]
	for _, o := range d.Ops {
		k := fmt.Sprintf("%s/%s", o.Arch, o.Format)
		if seen[k] || len(out) >= 8 {
			continue
		}
		seen[k] = true
		c := o.Cases[0]
		st := ctx.st[c.Kind]
		m := ctx.m[o.Arch]
		exec := uint64(0x5555555555555556)
		lib.Build(st.in, &c.Shape, 0, exec, false)
		m.Run(c.Inst, st.in, st.out)
		lib.Permute(st.in2, st.in, &perm.P, &c.Roles)
		m.Run(c.Inst, st.in2, st.out2)
		out = append(out, map[string]any{
			"inst": c.label(), "encoding": encHex(c), "exec": hx(exec), "perm": "swap(0,1)",
			"run(s)":    fmt.Sprintf("lane0: src0=%#x dst %#x->%#x; lane1: src0=%#x dst %#x->%#x; VCC %s->%s", lib.V32(st.in, 0, lib.RegSrc0), lib.V32(st.in, 0, lib.RegDst), lib.V32(st.out, 0, lib.RegDst), lib.V32(st.in, 1, lib.RegSrc0), lib.V32(st.in, 1, lib.RegDst), lib.V32(st.out, 1, lib.RegDst), hx(st.in.VCC), hx(st.out.VCC)),
			"run(pi.s)": fmt.Sprintf("lane0: src0=%#x dst %#x->%#x; lane1: src0=%#x dst %#x->%#x; VCC %s->%s", lib.V32(st.in2, 0, lib.RegSrc0), lib.V32(st.in2, 0, lib.RegDst), lib.V32(st.out2, 0, lib.RegDst), lib.V32(st.in2, 1, lib.RegSrc0), lib.V32(st.in2, 1, lib.RegDst), lib.V32(st.out2, 1, lib.RegDst), hx(st.in2.VCC), hx(st.out2.VCC)),
		})
	}
	return out
}

func printTables(vd, sd *discovery, scalarExc []string, dpp string) {
	for _, d := range []*discovery{vd, sd} {
		per := map[string][]string{}
		for _, o := range d.Ops {
			k := fmt.Sprintf("%s/%s", o.Arch, fmtLabel(o))
			flags := ""
			if o.ReadsVCC {
				flags += " rVCC"
			}
			if o.WritesVCC {
				flags += " wVCC"
			}
			if o.MaskOp {
				flags += " src2mask"
			}
			per[k] = append(per[k], fmt.Sprintf("%d:%s(%dv%s)", o.Opcode, o.Name, len(o.Cases), flags))
		}
		for _, k := range sortedKeys(per) {
			fmt.Printf("IMPLEMENTED %s (%d): %s\n", k, len(per[k]), strings.Join(per[k], ", "))
		}
		for _, k := range sortedKeys(d.Unimplemented) {
			fmt.Printf("UNIMPLEMENTED %s (%d): %s\n", k, len(d.Unimplemented[k]), strings.Join(d.Unimplemented[k], ", "))
		}
		for _, k := range sortedKeys(d.Undecodable) {
			fmt.Printf("NO-DECODE-ENTRY %s: %d opcode values\n", k, d.Undecodable[k])
		}
		for _, k := range sortedKeys(d.OtherFormat) {
			fmt.Printf("OTHER-FORMAT %s: opcode values %v belong to a longer-prefix format\n", k, d.OtherFormat[k])
		}
		for _, x := range d.Exceptions {
			fmt.Println("EXCEPTION", x)
		}
		for _, x := range d.Faulting {
			fmt.Println("FAULTING", x)
		}
		for _, k := range sortedKeys(d.VariantSkips) {
			fmt.Printf("VARIANT-SKIP %dx %s (e.g. %s)\n", d.VariantSkips[k], k, d.VariantSkipEx[k])
		}
	}
	for _, x := range scalarExc {
		fmt.Println("SCALAR-EXEC-EXCEPTION", x)
	}
	fmt.Println("DPP:", dpp)
}

// ---------------------------------------------------------------------------
// Replay

func replay(r *harness.Run, ctx *wctx, vd, sd *discovery) {
	data, err := os.ReadFile(r.Replay)
	if err != nil {
		fmt.Fprintln(os.Stderr, err)
		os.Exit(2)
	}
	var f struct {
		Signature string     `json:"signature"`
		Case      replayCase `json:"case"`
	}
	if err := json.Unmarshal(data, &f); err != nil {
		fmt.Fprintln(os.Stderr, err)
		os.Exit(2)
	}
	rc := f.Case
	var c *caseT
	for _, d := range []*discovery{vd, sd} {
		for _, o := range d.Ops {
			if o.Arch.String() == rc.Arch && o.Format.String() == rc.Format && o.Opcode == rc.Opcode {
				for _, x := range o.Cases {
					if x.Var.Name == rc.Variant {
						c = x
					}
				}
			}
		}
	}
	if c == nil {
		fmt.Println("INFRASTRUCTURE ERROR: replay case not found among the discovered opcode variants (is the opcode still implemented?)")
		os.Exit(2)
	}
	if rc.MaskMode != 0 {
		cu := *c
		cu.Shape.MaskMode = rc.MaskMode
		c = &cu
	}
	var exec, execB uint64
	fmt.Sscanf(rc.Exec, "0x%x", &exec)
	fmt.Sscanf(rc.ExecB, "0x%x", &execB)
	st := ctx.st[c.Kind]
	m := ctx.m[c.Op.Arch]
	fmt.Printf("replay %s kind=%s encoding=%s pattern=%s EXEC=%s\n", c.label(), rc.Kind, encHex(c), lib.PatternNames[rc.Pattern], hx(exec))
	if rc.Kind != "scalar" {
		// written-out inputs and outputs of the base run for a few lanes
		lib.Build(st.in, &c.Shape, rc.Pattern, exec, rc.Poison)
		m.Run(c.Inst, st.in, st.out)
		fmt.Printf("  base run: VCC %s -> %s, EXEC %s -> %s, s[%d:%d] %s -> %s, s[%d:%d](mask src) %s\n", hx(st.in.VCC), hx(st.out.VCC), hx(st.in.EXEC), hx(st.out.EXEC),
			lib.SRegDst, lib.SRegDst+1, hx(lib.S64(st.in, lib.SRegDst)), hx(lib.S64(st.out, lib.SRegDst)), lib.SRegMask, lib.SRegMask+1, hx(lib.S64(st.in, lib.SRegMask)))
		fmt.Printf("  uniform scalar source s[%d:%d] %s -> %s; roles: VCC lane mask on input=%v on output=%v; lane-mask SGPR pairs on input %v, on output %v\n",
			lib.SRegUni, lib.SRegUni+1, hx(lib.S64(st.in, lib.SRegUni)), hx(lib.S64(st.out, lib.SRegUni)), c.Roles.VCCIn, c.Roles.VCCOut, c.Roles.In, c.Roles.Out)
		vd := c.Var.VDstReg()
		lanes := map[int]bool{0: true, 1: true, 31: true, 32: true, 63: true, rc.Lane: true}
		for l := 0; l < 64; l++ {
			if !lanes[l] {
				continue
			}
			row := fmt.Sprintf("  lane %2d:", l)
			for _, rg := range []struct {
				n string
				r int
			}{{"addr v2:3", lib.RegAddr}, {"src0 v10:11", lib.RegSrc0}, {"src1 v20:21", lib.RegSrc1}, {"src2 v30:31", lib.RegSrc2}} {
				row += fmt.Sprintf(" %s=%08x_%08x", rg.n, lib.V32(st.in, l, rg.r+1), lib.V32(st.in, l, rg.r))
			}
			row += fmt.Sprintf(" | dst v%d:%d %08x_%08x -> %08x_%08x", vd, vd+1, lib.V32(st.in, l, vd+1), lib.V32(st.in, l, vd), lib.V32(st.out, l, vd+1), lib.V32(st.out, l, vd))
			fmt.Println(row)
		}
	}
	var got []string
	for rep := 0; rep < 2; rep++ { // twice: the verdict must be deterministic
		failures = map[string]*failure{}
		cfg := &tierCfg{}
		switch rc.Kind {
		case "frame":
		case "equivariance":
			var p lib.NamedPerm
			p.Name = rc.PermName
			for i, x := range rc.Perm {
				p.P[i] = uint8(x)
			}
			cfg.perms = []lib.NamedPerm{p}
		case "locality":
			cfg.lanes = []int{rc.Lane}
		case "scalar":
			scalarUnit(ctx, c, rc.Pattern, []lib.NamedExec{{Name: "b", Mask: execB}}, 0)
		case "dense":
			denseUnit(ctx, c, rc.Pattern, lib.NamedExec{Name: "replay", Mask: exec}, 0)
		}
		if rc.Kind != "scalar" && rc.Kind != "dense" {
			runUnit(ctx, c, rc.Pattern, lib.NamedExec{Name: "replay", Mask: exec}, rc.Poison, cfg, 0)
		}
		var s []string
		for _, k := range sortedKeys(failures) {
			s = append(s, k+": "+failures[k].msg)
		}
		got = append(got, strings.Join(s, "\n"))
	}
	if got[0] != got[1] {
		fmt.Println("INFRASTRUCTURE ERROR: nondeterministic replay")
		os.Exit(2)
	}
	if _, ok := failures[f.Signature]; ok {
		fmt.Printf("VIOLATION property=C06 replay=%s\n  signature: %s\n  %s\n", r.Replay, f.Signature, failures[f.Signature].msg)
		os.Exit(1)
	}
	if got[0] != "" {
		fmt.Printf("the recorded signature is not reproduced, but the case fails with:\n%s\nVIOLATION property=C06 replay=%s\n", got[0], r.Replay)
		os.Exit(1)
	}
	fmt.Println("replay: no violation")
	os.Exit(0)
}
