#!/usr/bin/env python3
# Mutation testing for C06: each mutant is applied in a scratch worktree, the quick tier is run against it.
import subprocess, os, sys, shutil, time
WT='/tmp/wt-c06'
VD='/verif/build/c06mut'
SKIP='''		if exec&(1<<uint(i)) == 0 {
			continue
		}
'''
NOSKIP='''		if exec&(1<<uint(i)) == 0 {
		}
'''
MUTS=[
 ('M1 gcn3 v_mul_u32_u24 (VOP2) ignores EXEC', 'amd/emu/aluvop2.go', 'func (u *ALUImpl) runVMULU32U24(', SKIP, NOSKIP),
 ('M2 cdna3 v_mov_b32 lane loop i < 63', 'amd/emu/cdna3/vop1.go', 'func (u *ALU) runVMOVB32(', 'i < 64', 'i < 63'),
 ('M3 gcn3 v_not_b32 reads lane 0 operand for all lanes', 'amd/emu/aluvop1.go', 'func (u *ALUImpl) runVNOTB32(', 'state.ReadOperand(inst.Src0, i)', 'state.ReadOperand(inst.Src0, 0)'),
 ('M4 gcn3 v_cmp_lt_u32 (VOPC) VCC bit from lane i^1', 'amd/emu/aluvopc.go', 'func (u *ALUImpl) runVCmpLtU32(', 'vcc |= 1 << uint(i)', 'vcc |= 1 << uint(i^1)'),
 ('M5 gcn3 flat_load_dword reads memory before testing EXEC (result dropped)', 'amd/emu/alu_flat.go', 'func (u *ALUImpl) runFlatLoadDWord(',
   '''		if exec&(1<<uint(i)) == 0 {
			continue
		}

		addr := u.flatAddrWithScalar(state, i, hasSAddr, scalarBase)
		buf := u.storageAccessor.Read(pid, addr, 4)
''','''		addr := u.flatAddrWithScalar(state, i, hasSAddr, scalarBase)
		buf := u.storageAccessor.Read(pid, addr, 4)
		if exec&(1<<uint(i)) == 0 {
			continue
		}
'''),
 ('M6 cdna3 flat_store_dword stores for inactive lanes', 'amd/emu/cdna3/flat.go', 'func (u *ALU) runFlatStoreDWord(', SKIP, NOSKIP),
 ('M7 cdna3 ds_read_b32 reads LDS before testing EXEC (result dropped)', 'amd/emu/cdna3/ds.go', 'func (u *ALU) runDSREADB32(',
   '''		if exec&(1<<uint(i)) == 0 {
			continue
		}

		addr0 := uint32(state.ReadOperand(inst.Addr, i)) + inst.Offset0
		if addr0+4 > uint32(len(lds)) {
			log.Panicf("DS_READ_B32: LDS address 0x%x + 4 exceeds LDS size %d (lane %d)", addr0, len(lds), i)
		}
		copy(buf[:], lds[addr0:addr0+4])
''','''		addr0 := uint32(state.ReadOperand(inst.Addr, i)) + inst.Offset0
		if addr0+4 > uint32(len(lds)) {
			log.Panicf("DS_READ_B32: LDS address 0x%x + 4 exceeds LDS size %d (lane %d)", addr0, len(lds), i)
		}
		copy(buf[:], lds[addr0:addr0+4])
		if exec&(1<<uint(i)) == 0 {
			continue
		}
'''),
 ('M8 gcn3 ds_write_b32 writes LDS for inactive lanes', 'amd/emu/aluds.go', 'func (u *ALUImpl) runDSWRITEB32(', SKIP, NOSKIP),
 ('M9 cdna3 v_cndmask_b32 (VOP2) selects with VCC bit of lane 0', 'amd/emu/cdna3/vop2.go', 'func (u *ALU) runVCNDMASKB32(', '(vcc & (1 << uint(i))) > 0', '(vcc & (1 << uint(0))) > 0'),
 ('M10 gcn3 v_addc_u32 (VOP3b) carry-out bit at 63-i', 'amd/emu/aluvop3b.go', 'func (u *ALUImpl) runVADDCU32VOP3b(', 'sdst |= carry << uint(i)', 'sdst |= carry << uint(63-i)'),
 ('M11 gcn3 v_addc_u32 (VOP3b) carry-in from lane 0 bit', 'amd/emu/aluvop3b.go', 'func (u *ALUImpl) runVADDCU32VOP3b(', '((src2 & (1 << uint(i))) >> uint(i))', '(src2 & 1)'),
 ('M12 gcn3 s_add_u32 result depends on EXEC', 'amd/emu/alusop2.go', 'func (u *ALUImpl) runSADDU32(', 'dst := src0 + src1', 'dst := src0 + src1 + uint32(state.EXEC()>>63)'),
 ('M13 gcn3 v_cmp_gt_i32 (VOP3a) does not mask inactive lanes (compares all 64)', 'amd/emu/aluvop3a.go', 'func (u *ALUImpl) runVCmpGtI32VOP3a(', SKIP, NOSKIP),
 ('M14 cdna3 v_fma_f64 handles only the low 32 lanes when EXEC high half is set (i < 32 loop)', 'amd/emu/cdna3/vop3a.go', 'func (u *ALU) runVFMAF64(', 'i < 64', 'i < 32'),
 ('M15 gcn3 flat_store_dwordx2 uses lane (i+1)%64 data', 'amd/emu/alu_flat.go', 'func (u *ALUImpl) runFlatStoreDWordX2(', 'state.ReadOperandBytes(inst.Data, i, 8)', 'state.ReadOperandBytes(inst.Data, (i+1)%64, 8)'),
 ('M17 gcn3 v_max_u32 (VOP2) ignores EXEC for lane 63 only', 'amd/emu/aluvop2.go', 'func (u *ALUImpl) runVMAXU32(', 'if exec&(1<<uint(i)) == 0 {', 'if i != 63 && exec&(1<<uint(i)) == 0 {'),
 ('M19 gcn3 v_cmp_eq_u32 (VOPC) returns early when EXEC is 0 (stale VCC)', 'amd/emu/aluvopc.go', 'func (u *ALUImpl) runVCmpEqU32(', '\tvar vcc uint64\n', '\tvar vcc uint64\n\tif exec == 0 {\n\t\treturn\n\t}\n'),
 ('M21 gcn3 ds_write2_b32 second store uses lane 0 data1', 'amd/emu/aluds.go', 'func (u *ALUImpl) runDSWRITE2B32(', 'state.ReadOperandBytes(inst.Data1, i, 4)', 'state.ReadOperandBytes(inst.Data1, 0, 4)'),
 ('M25 gcn3 v_and_b32 SDWA path reads src1 of lane 0', 'amd/emu/aluvop2.go', 'func (u *ALUImpl) runVANDB32(', 'u.sdwaSrcSelect(uint32(state.ReadOperand(inst.Src1, i)), inst.Src1Sel)', 'u.sdwaSrcSelect(uint32(state.ReadOperand(inst.Src1, 0)), inst.Src1Sel)'),
 ('M27 gcn3 v_cmp_le_u32 (VOPC) preserves old VCC bits of inactive lanes', 'amd/emu/aluvopc.go', 'func (u *ALUImpl) runVCmpLeU32(', '\tvar vcc uint64\n', '\tvcc := state.VCC() &^ exec\n'),
 ('M28 cdna3 v_add_f64 tests EXEC bit i%32', 'amd/emu/cdna3/vop3a.go', 'func (u *ALU) runVADDF64(', 'exec&(1<<uint(i)) == 0', 'exec&(1<<uint(i%32)) == 0'),
 ('M29 cdna3 flat_load_dwordx2 with scalar base: all lanes use lane 0 offset', 'amd/emu/cdna3/flat.go', 'func (u *ALU) flatAddrWithScalar(', 'addr = scalarBase + (addr & 0xFFFFFFFF)', 'addr = scalarBase + (state.ReadOperand(inst.Addr, 0) & 0xFFFFFFFF)'),
 ('M30 gcn3 emu.Wavefront VGPR write touches the neighbouring lane (offset uses laneID+1 for v40)', 'amd/emu/aluvop1.go', 'func (u *ALUImpl) runBFREVB32(', 'state.WriteOperand(inst.Dst, i, ', 'state.WriteOperand(inst.Dst, (i+1)%64, '),
]
def sh(cmd, **kw): return subprocess.run(cmd, shell=True, capture_output=True, text=True, **kw)
if not os.path.isdir(WT):
    r=sh('git -C /repo worktree add --detach %s'%WT); assert r.returncode==0, r.stderr
os.makedirs(VD, exist_ok=True)
only = sys.argv[1:] 
res=[]
for name,f,anchor,old,new in MUTS:
    if only and not any(name.startswith(o+' ') for o in only): continue
    sh('git -C %s checkout -- .'%WT)
    p=WT+'/'+f; s=open(p).read()
    a=s.find(anchor)
    if a<0: print(name,': ANCHOR NOT FOUND'); continue
    i=s.find(old,a)
    nxt=s.find('\nfunc ',a+1)
    if i<0 or (nxt>=0 and i>nxt): print(name,': SITE NOT FOUND'); continue
    s=s[:i]+new+s[i+len(old):]
    open(p,'w').write(s)
    shutil.copy('/verif/known_findings.json', VD+'/known_findings.json')
    shutil.rmtree(VD+'/replays', ignore_errors=True)
    t=time.time()
    env=dict(os.environ, VERIF_REPO=WT, VERIF_DIR=VD)
    r=subprocess.run(['/verif/run.sh','C06','quick'],capture_output=True,text=True,env=env)
    lines=[l for l in r.stdout.splitlines() if l.startswith('  signature')]
    print('%s: exit %d (%.0fs) %s'%(name,r.returncode,time.time()-t,'CAUGHT' if r.returncode==1 else 'MISSED' if r.returncode==0 else 'INFRA'))
    for l in lines[:8]: print('   ',l.strip())
    if r.returncode==2: print(r.stdout[-600:], r.stderr[-600:])
    sys.stdout.flush()
sh('git -C %s checkout -- .'%WT)
