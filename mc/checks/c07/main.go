// C07: architectural registers are independent cells with ISA-defined
// aliasing, in emulation mode and in timing mode.
//
// Explicit-state search over operation histories. The operation alphabet is
// Write/Read(api, register kind, RegCount, lane) [+ "reset the finished
// neighbour" in the timing world]; every history up to the tier's depth is
// executed on
//
//	(a) a real emu.Wavefront (plus an idle second emu.Wavefront),
//	(b) four co-resident timing wavefronts dispatched by the real
//	    WfDispatcher onto one real cu.ComputeUnit built by the public
//	    builder (A,D,B share SIMD0 at VGPR offsets 0/256/512 B and SGPR
//	    offsets 0/448/896 B; C owns all 256 VGPRs of SIMD1), with each of
//	    A, B, C as the acting wavefront,
//	(c) with SchedulerImpl.resetRegisterValue(D) as an operation,
//
// and after every history every cell is read back: the acting wavefront's
// SGPRs and a VGPR universe through ReadOperandBytes, VCC/EXEC/M0/SCC of all
// wavefronts through their accessors, and every byte of every register file of
// the world against the reference image (hook VerifStorage), so a write that
// disturbs any register, lane or wavefront -- even outside the read-back
// universe -- is seen. Written values are unique byte tags (0x40+64*pos+j),
// the background is a per-dword-unique pattern of bytes 0x01..0x3f.
//
// Oracle: a flat array-of-cells model (VCC/EXEC = two dword cells, sN/vN
// groups = consecutive cells). emu/timing agreement follows from both being
// compared, operation by operation, with the same model; the per-operation
// outcomes of emu and of timing wavefront C are additionally compared directly.
package main

import (
	"bytes"
	"encoding/binary"
	"encoding/json"
	"fmt"
	"io"
	"log"
	"os"
	"sort"
	"strings"
	"sync"
	"sync/atomic"

	"github.com/sarchlab/akita/v4/sim"
	"github.com/sarchlab/mgpusim/v4/amd/emu"
	"github.com/sarchlab/mgpusim/v4/amd/insts"
	"github.com/sarchlab/mgpusim/v4/amd/kernels"
	"github.com/sarchlab/mgpusim/v4/amd/protocol"
	"github.com/sarchlab/mgpusim/v4/amd/timing/cu"
	"github.com/sarchlab/mgpusim/v4/amd/timing/wavefront"

	"verif/mc/harness"
)

// ---------------------------------------------------------------------------
// operand shapes

type regClass int

const (
	clsS regClass = iota
	clsV
	clsVCCLO
	clsVCCHI
	clsVCC
	clsEXECLO
	clsEXECHI
	clsEXEC
	clsM0
	clsSCC
)

type shape struct {
	Kind string // designed name: s0, vcc_hi, v254 ...
	cls  regClass
	idx  int // SGPR index; VGPR index, or -2/-1 = the two highest VGPRs of the wavefront
	RC   int // Operand.RegCount (0 = what the decoder leaves for single registers)
}

func (s shape) size() int {
	switch s.cls {
	case clsVCC, clsEXEC:
		return 8
	case clsSCC:
		return 1
	}
	if s.RC >= 2 {
		return 4 * s.RC
	}
	return 4
}

func (s shape) label() string {
	n := s.size() / 4
	if s.cls == clsSCC {
		return "scc"
	}
	return fmt.Sprintf("%s-%ddword", s.Kind, n)
}

var shapes []shape

func buildShapes() {
	add := func(kind string, cls regClass, idx int, rcs ...int) {
		for _, rc := range rcs {
			shapes = append(shapes, shape{kind, cls, idx, rc})
		}
	}
	add("s0", clsS, 0, 0, 1, 2, 4, 8, 16)
	add("s1", clsS, 1, 0, 1)
	add("s2", clsS, 2, 1, 2)
	add("s100", clsS, 100, 1, 2)
	add("s101", clsS, 101, 0, 1)
	add("vcc_lo", clsVCCLO, 0, 0, 1)
	add("vcc_hi", clsVCCHI, 0, 0, 1)
	add("vcc", clsVCCLO, 0, 2) // the decoder's form of vcc: VCCLO with RegCount 2
	add("vcc", clsVCC, 0, 1)   // the 8-byte VCC register type
	add("exec_lo", clsEXECLO, 0, 0, 1)
	add("exec_hi", clsEXECHI, 0, 0, 1)
	add("exec", clsEXECLO, 0, 2)
	add("exec", clsEXEC, 0, 1)
	add("m0", clsM0, 0, 0, 1)
	add("scc", clsSCC, 0, 0, 1)
	add("v0", clsV, 0, 0, 1, 2, 3, 4, 8, 16)
	add("v1", clsV, 1, 1, 2, 3, 4)
	add("v254", clsV, -2, 1, 2)
	add("v255", clsV, -1, 0, 1)
}

var vecLanes = []int{0, 1, 31, 32, 63}

// ---------------------------------------------------------------------------
// operations

const (
	apiOperand = iota
	apiBytes
	apiReg
)

var writeAPI = []string{"WriteOperand", "WriteOperandBytes", "WriteReg"}
var readAPI = []string{"ReadOperand", "ReadOperandBytes", "ReadReg"}

type op struct {
	Write bool   `json:"write,omitempty"`
	Reset bool   `json:"reset_neighbour,omitempty"`
	API   int    `json:"api"`
	Kind  string `json:"kind,omitempty"`
	RC    int    `json:"regcount"`
	Lane  int    `json:"lane"`
	sh    int
	class byte // bit0: part of the reduced (depth-3) alphabet
}

func (o op) String() string {
	if o.Reset {
		return "ResetNeighbour(D)"
	}
	n := readAPI[o.API]
	if o.Write {
		n = writeAPI[o.API]
	}
	return fmt.Sprintf("%s(%s rc=%d lane=%d)", n, shapes[o.sh].label(), o.RC, o.Lane)
}

// buildAlphabet returns the operation alphabet. full=false leaves the direct
// ReadReg/WriteReg API out (it is enumerated at depth <= 2 only).
func buildAlphabet(full bool) []op {
	var a []op
	for si, s := range shapes {
		lanes := []int{0}
		if s.cls == clsV {
			lanes = vecLanes
		}
		for _, l := range lanes {
			for api := apiOperand; api <= apiReg; api++ {
				if api == apiReg && !full {
					continue
				}
				if !(api == apiOperand && s.size() > 8) { // a uint64 cannot carry more than 2 dwords
					a = append(a, op{Write: true, API: api, Kind: s.Kind, RC: s.RC, Lane: l, sh: si})
				}
				a = append(a, op{Write: false, API: api, Kind: s.Kind, RC: s.RC, Lane: l, sh: si})
			}
		}
	}
	return a
}

// ---------------------------------------------------------------------------
// the implementation side: adapters over the two wavefront types

type target interface {
	ReadOperand(o *insts.Operand, lane int) uint64
	WriteOperand(o *insts.Operand, lane int, v uint64)
	ReadOperandBytes(o *insts.Operand, lane int, n int) []byte
	WriteOperandBytes(o *insts.Operand, lane int, d []byte)
	readReg(r *insts.Reg, rc, lane int) []byte
	writeReg(r *insts.Reg, rc, lane int, d []byte)
	specials() (vcc, exec uint64, m0 uint32, scc byte)
	setSpecials(vcc, exec uint64, m0 uint32, scc byte)
}

type emuT struct{ *emu.Wavefront }

func (t emuT) readReg(r *insts.Reg, rc, lane int) []byte     { return t.ReadReg(r, rc, lane) }
func (t emuT) writeReg(r *insts.Reg, rc, lane int, d []byte) { t.WriteReg(r, rc, lane, d) }
func (t emuT) specials() (uint64, uint64, uint32, byte) {
	return t.VCC(), t.EXEC(), t.M0, t.SCC()
}
func (t emuT) setSpecials(vcc, exec uint64, m0 uint32, scc byte) {
	t.SetVCC(vcc)
	t.SetEXEC(exec)
	t.M0 = m0
	t.SetSCC(scc)
}

type timT struct{ *wavefront.Wavefront }

// The timing "register API" is the RegFileAccessor the wavefront was given by
// the compute unit; the wave offset is chosen the way the wavefront does.
func (t timT) off(r *insts.Reg) int {
	if r.IsVReg() {
		return t.VRegOffset
	}
	return t.SRegOffset
}
func (t timT) readReg(r *insts.Reg, rc, lane int) []byte {
	return t.RegAccessor.ReadReg(r, rc, lane, t.off(r))
}
func (t timT) writeReg(r *insts.Reg, rc, lane int, d []byte) {
	t.RegAccessor.WriteReg(r, rc, lane, t.off(r), d)
}
func (t timT) specials() (uint64, uint64, uint32, byte) {
	return t.VCC(), t.EXEC(), t.M0, t.SCC()
}
func (t timT) setSpecials(vcc, exec uint64, m0 uint32, scc byte) {
	t.SetVCC(vcc)
	t.SetEXEC(exec)
	t.M0 = m0
	t.SetSCC(scc)
}

// ---------------------------------------------------------------------------
// the reference model: flat arrays of cells

type file struct {
	name  string
	id    int
	impl  []byte // the implementation's storage (same backing array)
	model []byte // reference image
	bg    []byte
}

type slot struct {
	name       string
	idx        int
	salt       int // background pattern selector; equal for emu E0 and timing C so their answers are comparable
	t          target
	sFile      *file
	vFile      *file
	sOff, vOff int
	nS, nV     int // architected SGPR / VGPR counts of this wavefront
	allocS     int // SGPRs reserved for it (granularity 16)
	operands   []*insts.Operand
	// model of the special registers
	vcc, exec uint64
	m0        uint32
	scc       byte
	// read-back universe
	rbS []*insts.Operand
	rbV []*insts.Operand
	rbR []int
}

type jent struct {
	f   *file
	off int
	old []byte
}

type world struct {
	mode    string
	slots   []*slot
	actors  []*slot
	files   []*file
	journal []jent
	arena   []byte
	hash    uint64
	resetD  func()
	nbr     *slot
	tagBuf  [64]byte
	fresh  func() // gives every wavefront a new register accessor (timing world)
}

func bgSpecial(si int) (vcc, exec uint64, m0 uint32) {
	var v, e [8]byte
	for i := range v {
		v[i] = byte(1 + 4*i + si)
		e[i] = v[i] + 0x1e
	}
	m0 = uint32(0x3c-si) | uint32(0x3b-si)<<8 | uint32(0x3a-si)<<16 | uint32(0x39-si)<<24
	return binary.LittleEndian.Uint64(v[:]), binary.LittleEndian.Uint64(e[:]), m0
}

func newFile(name string, id int, impl []byte) *file {
	f := &file{name: name, id: id, impl: impl, model: make([]byte, len(impl)), bg: make([]byte, len(impl))}
	for i := 0; i+4 <= len(impl); i += 4 {
		d := i / 4
		f.bg[i] = byte(1 + d%61)
		f.bg[i+1] = byte(1 + (d/61)%61)
		f.bg[i+2] = byte(1 + (d/3721)%61)
		f.bg[i+3] = byte(1 + id)
	}
	return f
}

// paintBackground overlays the slot's allocation with a pattern that depends
// on the logical cell (register, lane) and the salt only.
func (s *slot) paintBackground() {
	for r := 0; r < s.allocS; r++ {
		o := s.sOff + 4*r
		copy(s.sFile.bg[o:], []byte{byte(1 + r%61), 1, byte(1 + r/61), byte(0x30 + s.salt)})
	}
	for l := 0; l < 64; l++ {
		for r := 0; r < s.nV; r++ {
			o := s.vOff + 4*r + 1024*l
			copy(s.vFile.bg[o:], []byte{byte(1 + r%61), byte(2 + l%60), byte(9 + r/61 + 8*(l/60)), byte(0x30 + s.salt)})
		}
	}
}

func (s *slot) resolve() {
	s.paintBackground()
	for _, sh := range shapes {
		var o *insts.Operand
		switch sh.cls {
		case clsS:
			o = insts.NewSRegOperand(sh.idx, sh.idx, sh.RC)
		case clsV:
			i := sh.idx
			if i < 0 {
				i += s.nV
			}
			o = insts.NewVRegOperand(256+i, i, sh.RC)
		case clsVCCLO:
			o = insts.NewRegOperand(106, insts.VCCLO, sh.RC)
		case clsVCCHI:
			o = insts.NewRegOperand(107, insts.VCCHI, sh.RC)
		case clsVCC:
			o = insts.NewRegOperand(106, insts.VCC, sh.RC)
		case clsEXECLO:
			o = insts.NewRegOperand(126, insts.EXECLO, sh.RC)
		case clsEXECHI:
			o = insts.NewRegOperand(127, insts.EXECHI, sh.RC)
		case clsEXEC:
			o = insts.NewRegOperand(126, insts.EXEC, sh.RC)
		case clsM0:
			o = insts.NewRegOperand(124, insts.M0, sh.RC)
		case clsSCC:
			o = insts.NewRegOperand(253, insts.SCC, sh.RC)
		}
		s.operands = append(s.operands, o)
	}
	for i := 0; i < s.nS; i++ {
		s.rbS = append(s.rbS, insts.NewSRegOperand(i, i, 1))
	}
	regs := map[int]bool{}
	for i := 0; i < 18 && i < s.nV; i++ {
		regs[i] = true
	}
	for _, i := range []int{31, 32, 33, 63, 64, 127, 128, s.nV - 4, s.nV - 3, s.nV - 2, s.nV - 1} {
		if i >= 0 && i < s.nV {
			regs[i] = true
		}
	}
	for i := range regs {
		s.rbR = append(s.rbR, i)
	}
	sort.Ints(s.rbR)
	for _, i := range s.rbR {
		s.rbV = append(s.rbV, insts.NewVRegOperand(256+i, i, 1))
	}
}

var rbLanes = []int{0, 1, 2, 30, 31, 32, 33, 62, 63}

func mix(x uint64) uint64 {
	x += 0x9e3779b97f4a7c15
	x = (x ^ (x >> 30)) * 0xbf58476d1ce4e5b9
	x = (x ^ (x >> 27)) * 0x94d049bb133111eb
	return x ^ (x >> 31)
}

// setBytes writes the model image (journalled, hash maintained).
func (w *world) setBytes(f *file, off int, d []byte) {
	start := len(w.arena)
	w.arena = append(w.arena, f.model[off:off+len(d)]...)
	w.journal = append(w.journal, jent{f, off, w.arena[start:len(w.arena):len(w.arena)]})
	for i, b := range d {
		o := f.model[off+i]
		if o != b {
			k := uint64(f.id)<<48 | uint64(off+i)<<8
			w.hash ^= mix(k|uint64(o)) ^ mix(k|uint64(b))
			f.model[off+i] = b
		}
	}
}

func (w *world) stateHash() uint64 {
	h := w.hash
	for _, s := range w.slots {
		h ^= mix(uint64(s.idx+1)<<56 ^ mix(s.vcc) ^ mix(s.exec+1)<<1 ^ mix(uint64(s.m0)+2)<<2 ^ uint64(s.scc))
	}
	return mix(h ^ uint64(len(w.mode)))
}

// undo restores implementation and model to the background after a history
// that the model accounts for completely.
func (w *world) undo() {
	for i := len(w.journal) - 1; i >= 0; i-- {
		j := w.journal[i]
		copy(j.f.model[j.off:], j.old)
		copy(j.f.impl[j.off:], j.old)
	}
	w.journal = w.journal[:0]
	w.arena = w.arena[:0]
	w.hash = 0
	w.resetSpecials()
}

func (w *world) resetSpecials() {
	for _, s := range w.slots {
		s.vcc, s.exec, s.m0 = bgSpecial(s.salt)
		s.scc = 0
		s.t.setSpecials(s.vcc, s.exec, s.m0, 0)
	}
}

// softReset brings the world back to the background after a deviation: the
// journal restores what the model knows about, every file that still differs
// from the background afterwards is rewritten completely.
func (w *world) softReset() {
	w.undo()
	for _, f := range w.files {
		if !bytes.Equal(f.impl, f.bg) {
			copy(f.impl, f.bg)
		}
		if !bytes.Equal(f.model, f.bg) {
			copy(f.model, f.bg)
		}
	}
}

// hardReset rewrites every byte (after a deviation nothing is trusted).
func (w *world) hardReset() {
	for _, f := range w.files {
		copy(f.impl, f.bg)
		copy(f.model, f.bg)
	}
	w.journal = w.journal[:0]
	w.arena = w.arena[:0]
	w.hash = 0
	w.resetSpecials()
}

// ---- model semantics of one operand

func (w *world) modelWrite(s *slot, sh shape, lane int, d []byte) {
	switch sh.cls {
	case clsS:
		w.setBytes(s.sFile, s.sOff+4*sh.idx, d)
	case clsV:
		i := sh.idx
		if i < 0 {
			i += s.nV
		}
		w.setBytes(s.vFile, s.vOff+4*i+1024*lane, d)
	case clsVCCLO:
		if sh.RC >= 2 {
			s.vcc = binary.LittleEndian.Uint64(d)
		} else {
			s.vcc = s.vcc&^0xffffffff | uint64(binary.LittleEndian.Uint32(d))
		}
	case clsVCCHI:
		s.vcc = s.vcc&0xffffffff | uint64(binary.LittleEndian.Uint32(d))<<32
	case clsVCC:
		s.vcc = binary.LittleEndian.Uint64(d)
	case clsEXECLO:
		if sh.RC >= 2 {
			s.exec = binary.LittleEndian.Uint64(d)
		} else {
			s.exec = s.exec&^0xffffffff | uint64(binary.LittleEndian.Uint32(d))
		}
	case clsEXECHI:
		s.exec = s.exec&0xffffffff | uint64(binary.LittleEndian.Uint32(d))<<32
	case clsEXEC:
		s.exec = binary.LittleEndian.Uint64(d)
	case clsM0:
		s.m0 = binary.LittleEndian.Uint32(d)
	case clsSCC:
		s.scc = d[0]
	}
}

func (w *world) modelRead(s *slot, sh shape, lane int, out []byte) []byte {
	n := sh.size()
	out = out[:n]
	var t [8]byte
	switch sh.cls {
	case clsS:
		copy(out, s.sFile.model[s.sOff+4*sh.idx:])
	case clsV:
		i := sh.idx
		if i < 0 {
			i += s.nV
		}
		copy(out, s.vFile.model[s.vOff+4*i+1024*lane:])
	case clsVCCLO, clsVCC:
		binary.LittleEndian.PutUint64(t[:], s.vcc)
		copy(out, t[:])
	case clsVCCHI:
		binary.LittleEndian.PutUint64(t[:], s.vcc>>32)
		copy(out, t[:])
	case clsEXECLO, clsEXEC:
		binary.LittleEndian.PutUint64(t[:], s.exec)
		copy(out, t[:])
	case clsEXECHI:
		binary.LittleEndian.PutUint64(t[:], s.exec>>32)
		copy(out, t[:])
	case clsM0:
		binary.LittleEndian.PutUint32(out, s.m0)
	case clsSCC:
		out[0] = s.scc
	}
	return out
}

// target cells of a write, for the classification of deviations
func targetCells(s *slot, sh shape, lane int) (f *file, lo, hi int, specials []string) {
	switch sh.cls {
	case clsS:
		return s.sFile, s.sOff + 4*sh.idx, s.sOff + 4*sh.idx + sh.size(), nil
	case clsV:
		i := sh.idx
		if i < 0 {
			i += s.nV
		}
		o := s.vOff + 4*i + 1024*lane
		return s.vFile, o, o + sh.size(), nil
	case clsVCCLO:
		if sh.RC >= 2 {
			return nil, 0, 0, []string{"vcc_lo", "vcc_hi"}
		}
		return nil, 0, 0, []string{"vcc_lo"}
	case clsVCCHI:
		return nil, 0, 0, []string{"vcc_hi"}
	case clsVCC:
		return nil, 0, 0, []string{"vcc_lo", "vcc_hi"}
	case clsEXECLO:
		if sh.RC >= 2 {
			return nil, 0, 0, []string{"exec_lo", "exec_hi"}
		}
		return nil, 0, 0, []string{"exec_lo"}
	case clsEXECHI:
		return nil, 0, 0, []string{"exec_hi"}
	case clsEXEC:
		return nil, 0, 0, []string{"exec_lo", "exec_hi"}
	case clsM0:
		return nil, 0, 0, []string{"m0"}
	case clsSCC:
		return nil, 0, 0, []string{"scc"}
	}
	return nil, 0, 0, nil
}

// ---------------------------------------------------------------------------
// executing one operation on implementation and model

type outcome struct {
	panicMsg string
	got      []byte // answer of a read: the slice the implementation handed out (it may alias implementation storage)
	snap     []byte // copy of got taken the moment it was returned
	want     []byte
	bad      bool
}

func safely(f func()) (msg string) {
	defer func() {
		if r := recover(); r != nil {
			msg = fmt.Sprint(r)
			if msg == "" {
				msg = "panic"
			}
		}
	}()
	f()
	return ""
}

func (w *world) apply(s *slot, o op, pos int) (out outcome) {
	if o.Reset {
		n := w.nbr
		zero := make([]byte, 4*(n.nV+n.nS))
		for l := 0; l < 64; l++ {
			w.setBytes(n.vFile, n.vOff+1024*l, zero[:4*n.nV])
		}
		w.setBytes(n.sFile, n.sOff, zero[:4*n.nS])
		out.panicMsg = safely(w.resetD)
		out.bad = out.panicMsg != ""
		return
	}
	sh := shapes[o.sh]
	operand := s.operands[o.sh]
	n := sh.size()
	if o.Write {
		d := w.tagBuf[:]
		for j := range d {
			d[j] = byte(0x40 + 0x40*pos + j)
		}
		if sh.cls == clsSCC {
			d[0] = 1 ^ s.scc // SCC is one bit: toggle it
		}
		var v uint64
		if o.API == apiOperand {
			v = binary.LittleEndian.Uint64(d[:8]) // bytes beyond the operand size are junk that must not be stored
			if sh.cls == clsSCC {
				v = uint64(d[0])
			}
		}
		w.modelWrite(s, sh, o.Lane, d[:n])
		data := append([]byte(nil), d[:n]...)
		if o.API == apiReg && (sh.cls == clsS || sh.cls == clsV) && n+8 <= len(d) {
			// the raw register write gets a buffer that is 8 bytes longer than the operand (a caller's scratch buffer):
			// only the operand's bytes may be stored, the rest is junk (exactly sized buffers stay covered by WriteOperandBytes)
			data = append([]byte(nil), d[:n+8]...)
		}
		out.panicMsg = safely(func() {
			switch o.API {
			case apiOperand:
				s.t.WriteOperand(operand, o.Lane, v)
			case apiBytes:
				s.t.WriteOperandBytes(operand, o.Lane, data)
			case apiReg:
				s.t.writeReg(operand.Register, operand.RegCount, o.Lane, data)
			}
		})
		out.bad = out.panicMsg != ""
		return
	}
	var wb [64]byte
	want := w.modelRead(s, sh, o.Lane, wb[:])
	var got []byte
	out.panicMsg = safely(func() {
		switch o.API {
		case apiOperand:
			v := s.t.ReadOperand(operand, o.Lane)
			got = binary.LittleEndian.AppendUint64(nil, v)
		case apiBytes:
			got = s.t.ReadOperandBytes(operand, o.Lane, n)
		case apiReg:
			got = s.t.readReg(operand.Register, operand.RegCount, o.Lane)
		}
	})
	if out.panicMsg != "" {
		out.bad = true
		return
	}
	if o.API == apiOperand {
		var w8 [8]byte
		copy(w8[:], want) // low min(8,size) bytes, zero-extended
		want = w8[:]
	}
	out.got = got
	out.snap = append([]byte(nil), got...)
	if !bytes.Equal(got, want) {
		out.bad = true
		out.want = append([]byte(nil), want...)
	}
	return
}

// ---------------------------------------------------------------------------
// state comparison

type deviation struct {
	cell      string // name relative to the acting wavefront
	got, want string
	inTarget  bool
	zero      bool
}

func (w *world) nameOffset(f *file, off int, actor *slot) string {
	for _, s := range w.slots {
		pre := ""
		if s != actor {
			pre = "wf" + s.name + "."
		}
		if f == s.sFile && off >= s.sOff && off < s.sOff+4*s.allocS {
			r := (off - s.sOff) / 4
			if r >= s.nS {
				return fmt.Sprintf("%ss%d(beyond-architected)", pre, r)
			}
			return fmt.Sprintf("%ss%d", pre, r)
		}
		if f == s.vFile {
			x := off % 1024
			if x >= s.vOff && x < s.vOff+4*s.nV {
				return fmt.Sprintf("%sv%d.lane%d", pre, (x-s.vOff)/4, off/1024)
			}
		}
	}
	return fmt.Sprintf("unallocated:%s@%d", f.name, off)
}

// compareState returns the deviations of the implementation state from the
// model: special registers of every wavefront and every byte of every file.
func (w *world) compareState(actor *slot, o *op, limit int) []deviation {
	var devs []deviation
	var tf *file
	var lo, hi int
	var tsp []string
	if o != nil && !o.Reset && o.Write {
		tf, lo, hi, tsp = targetCells(actor, shapes[o.sh], o.Lane)
	}
	isT := func(n string) bool {
		for _, t := range tsp {
			if t == n {
				return true
			}
		}
		return false
	}
	for _, s := range w.slots {
		vcc, exec, m0, scc := s.t.specials()
		pre := ""
		if s != actor {
			pre = "wf" + s.name + "."
		}
		chk := func(name string, got, want uint64) {
			if got != want {
				devs = append(devs, deviation{pre + name, fmt.Sprintf("%#x", got), fmt.Sprintf("%#x", want), s == actor && isT(name), got == 0})
			}
		}
		chk("vcc_lo", vcc&0xffffffff, s.vcc&0xffffffff)
		chk("vcc_hi", vcc>>32, s.vcc>>32)
		chk("exec_lo", exec&0xffffffff, s.exec&0xffffffff)
		chk("exec_hi", exec>>32, s.exec>>32)
		chk("m0", uint64(m0), uint64(s.m0))
		chk("scc", uint64(scc), uint64(s.scc))
	}
	for _, f := range w.files {
		if bytes.Equal(f.impl, f.model) {
			continue
		}
		for i := 0; i+4 <= len(f.impl) && len(devs) < limit; i += 4 {
			if !bytes.Equal(f.impl[i:i+4], f.model[i:i+4]) {
				g := binary.LittleEndian.Uint32(f.impl[i:])
				devs = append(devs, deviation{w.nameOffset(f, i, actor), fmt.Sprintf("%#08x", g),
					fmt.Sprintf("%#08x", binary.LittleEndian.Uint32(f.model[i:])), f == tf && i >= lo && i < hi, g == 0})
			}
		}
	}
	return devs
}

func (w *world) stateOK() bool {
	for _, s := range w.slots {
		vcc, exec, m0, scc := s.t.specials()
		if vcc != s.vcc || exec != s.exec || m0 != s.m0 || scc != s.scc {
			return false
		}
	}
	for _, f := range w.files {
		if !bytes.Equal(f.impl, f.model) {
			return false
		}
	}
	return true
}

// readBack reads every cell of the acting wavefront's universe through the
// operand API and returns the first mismatch ("" = none).
func (w *world) readBack(s *slot, reads *int64) (cell string, got, want []byte) {
	var bad string
	msg := safely(func() {
		for i, o := range s.rbS {
			g := s.t.ReadOperandBytes(o, 63, 4) // the lane must be irrelevant for scalars
			*reads++
			wnt := s.sFile.model[s.sOff+4*i : s.sOff+4*i+4]
			if !bytes.Equal(g, wnt) {
				bad, got, want = fmt.Sprintf("s%d", i), g, wnt
				return
			}
		}
		for k, o := range s.rbV {
			r := s.rbR[k]
			for _, l := range rbLanes {
				g := s.t.ReadOperandBytes(o, l, 4)
				*reads++
				off := s.vOff + 4*r + 1024*l
				wnt := s.vFile.model[off : off+4]
				if !bytes.Equal(g, wnt) {
					bad, got, want = fmt.Sprintf("v%d.lane%d", r, l), g, wnt
					return
				}
			}
		}
	})
	if msg != "" {
		return "panic:" + msg, nil, nil
	}
	return bad, got, want
}

// ---------------------------------------------------------------------------
// worlds

func codeObject(nS, nV int) *insts.KernelCodeObject {
	co := &insts.KernelCodeObject{KernelCodeObjectMeta: &insts.KernelCodeObjectMeta{}}
	co.WFSgprCount = uint16(nS)
	co.WIVgprCount = uint16(nV)
	co.Version = insts.CodeObjectV3
	return co
}

// rawWf builds the dispatched form of a wavefront. mask is the dispatch EXEC mask the grid builder would give it:
// all ones for a full wavefront, fewer low bits for the last wavefront of a work-group or grid whose size is not a
// multiple of 64. The registers (EXEC included) are cells whatever the mask is (seed C07-7: timing SetEXEC and-ed
// every written value with the dispatch mask).
func rawWf(nS, nV int, mask uint64) *kernels.Wavefront {
	wg := kernels.NewWorkGroup()
	wg.SizeX, wg.SizeY, wg.SizeZ = 64, 1, 1
	wg.CurrSizeX, wg.CurrSizeY, wg.CurrSizeZ = 64, 1, 1
	wg.Packet = &kernels.HsaKernelDispatchPacket{WorkgroupSizeX: 64, WorkgroupSizeY: 1, WorkgroupSizeZ: 1, GridSizeX: 64, GridSizeY: 1, GridSizeZ: 1}
	wg.CodeObject = codeObject(nS, nV)
	wf := kernels.NewWavefront()
	wf.WG = wg
	wf.CodeObject = wg.CodeObject
	wf.Packet = wg.Packet
	wf.InitExecMask = mask
	wg.Wavefronts = append(wg.Wavefronts, wf)
	return wf
}

func newEmuWorld() *world {
	w := &world{mode: "emu"}
	for i, name := range []string{"E0", "E1"} {
		wf := emu.NewWavefront(rawWf(102, 256, []uint64{0x0000000fffffffff, ^uint64(0)}[i]))
		s := &slot{name: name, idx: i, salt: 2 + i, t: emuT{wf}, nS: 102, nV: 256, allocS: 102}
		s.sFile = newFile(name+".SRegFile", 2*i, wf.SRegFile)
		s.vFile = newFile(name+".VRegFile", 2*i+1, wf.VRegFile)
		w.files = append(w.files, s.sFile, s.vFile)
		s.resolve()
		w.slots = append(w.slots, s)
	}
	w.actors = w.slots[:1]
	w.hardReset()
	return w
}

func newTimingWorld() *world {
	w := &world{mode: "timing"}
	engine := sim.NewSerialEngine()
	c := cu.MakeBuilder().WithEngine(engine).Build("CU")
	sStore := c.SRegFile.(*cu.SimpleRegisterFile).VerifStorage()
	sFile := newFile("CU.SRegFile", 0, sStore)
	w.files = append(w.files, sFile)
	vFiles := map[int]*file{}
	for _, simd := range []int{0, 1} {
		vFiles[simd] = newFile(fmt.Sprintf("CU.VRegFile[%d]", simd), 1+simd, c.VRegFile[simd].(*cu.SimpleRegisterFile).VerifStorage())
		w.files = append(w.files, vFiles[simd])
	}
	type place struct {
		name             string
		simd, sOff, vOff int
		nV               int
	}
	// A, D, B are adjacent allocations on SIMD0 (granularity: 16 SGPRs, 4
	// VGPRs, the offsets the CP's resource allocator would hand out); C has
	// all of SIMD1.
	places := []place{
		{"A", 0, 0, 0, 64},
		{"B", 0, 2 * 448, 512, 128},
		{"C", 1, 3 * 448, 0, 256},
		{"D", 0, 448, 256, 64},
	}
	var twfs []*wavefront.Wavefront
	for i, p := range places {
		raw := rawWf(102, p.nV, []uint64{^uint64(0), 0x0000000fffffffff, 0x1, 0x00000000000000ff}[i])
		wf := wavefront.NewWavefront(raw)
		wf.RegAccessor = &cu.CURegFileAccessor{CU: c, WF: wf} // as ComputeUnit.wrapWG does
		wg := wavefront.NewWorkGroup(raw.WG, nil)
		wg.Wfs = append(wg.Wfs, wf)
		wf.WG = wg
		c.WfDispatcher.DispatchWf(wf, protocol.WfDispatchLocation{Wavefront: raw, SIMDID: p.simd, VGPROffset: p.vOff, SGPROffset: p.sOff})
		twfs = append(twfs, wf)
		s := &slot{name: p.name, idx: i, salt: i, t: timT{wf}, nS: 102, nV: p.nV, allocS: 112, sFile: sFile, vFile: vFiles[p.simd], sOff: p.sOff, vOff: p.vOff}
		s.resolve()
		w.slots = append(w.slots, s)
	}
	// undo / softReset restore the register files directly, behind the back of the register accessors: every
	// history starts with accessors of its own (built the way ComputeUnit.wrapWG builds them), so that state an
	// accessor may legitimately keep about its earlier reads cannot leak from one history into the next
	w.fresh = func() {
		for _, wf := range twfs {
			wf.RegAccessor = &cu.CURegFileAccessor{CU: c, WF: wf}
		}
	}
	w.actors = w.slots[:3]
	w.nbr = w.slots[3]
	sched := c.Scheduler.(*cu.SchedulerImpl)
	d := twfs[3]
	w.resetD = func() { sched.VerifResetRegisterValue(d) }
	w.hardReset()
	return w
}

// ---------------------------------------------------------------------------
// running histories

type stats struct {
	runs, ops, reads, slow, readbacks int64
	xcmp, xdis                        int64
}

type finding struct {
	sig, msg string
	rc       replayCase
}

type replayCase struct {
	World   string `json:"world"`
	Actor   string `json:"actor"`
	History []op   `json:"history"`
}

func symptomOfPanic(msg string) string {
	var b strings.Builder
	for _, c := range strings.ToLower(msg) {
		switch {
		case c >= 'a' && c <= 'z', c >= '0' && c <= '9':
			b.WriteRune(c)
		default:
			if b.Len() > 0 && !strings.HasSuffix(b.String(), "-") {
				b.WriteByte('-')
			}
		}
	}
	s := strings.Trim(b.String(), "-")
	if len(s) > 70 {
		s = s[:70]
	}
	return "panic-" + s
}

// describeAnswer names what a wrong read answer is, relative to the model.
func (w *world) describeAnswer(s *slot, o op, got, want []byte) string {
	if len(got) != len(want) {
		return fmt.Sprintf("returns-%d-bytes-instead-of-%d", len(got), len(want))
	}
	n := shapes[o.sh].size()
	if n > len(got) {
		n = len(got)
	}
	if bytes.Equal(got[:n], want[:n]) {
		return "right-value-but-bytes-beyond-operand-width-not-zero"
	}
	if n >= 4 {
		g := uint64(binary.LittleEndian.Uint32(got))
		for _, c := range []struct {
			n string
			v uint64
		}{{"vcc_lo", s.vcc & 0xffffffff}, {"vcc_hi", s.vcc >> 32}, {"exec_lo", s.exec & 0xffffffff}, {"exec_hi", s.exec >> 32}, {"m0", uint64(s.m0)}} {
			if g == c.v {
				return "returns-value-of-" + c.n
			}
		}
	}
	return "wrong-value"
}

// runDetailed re-executes a history from a clean state, checking the whole
// state after every operation; it returns the first deviation as a finding.
func (w *world) runDetailed(actor *slot, hist []op, trace io.Writer) *finding {
	// first without the per-operation read-back (nearly every deviation shows
	// in the operation's outcome or in the raw state), then with it
	if trace == nil {
		if f := w.runDetailedPass(actor, hist, nil, false); f != nil {
			return f
		}
	}
	return w.runDetailedPass(actor, hist, trace, true)
}

func (w *world) runDetailedPass(actor *slot, hist []op, trace io.Writer, withReadBack bool) *finding {
	w.softReset()
	defer w.softReset()
	if w.fresh != nil {
		w.fresh()
	}
	mk := func(pos int, sig, msg string) *finding {
		return &finding{sig: sig, msg: msg, rc: replayCase{World: w.mode, Actor: actor.name, History: append([]op(nil), hist[:pos+1]...)}}
	}
	var n int64
	for pos, o := range hist {
		out := w.apply(actor, o, pos)
		devs := w.compareState(actor, &o, 6)
		if trace != nil {
			fmt.Fprintf(trace, "  op %d on wf %s: %s", pos, actor.name, o)
			if out.panicMsg != "" {
				fmt.Fprintf(trace, " -> PANIC %q", out.panicMsg)
			} else if !o.Write && !o.Reset {
				fmt.Fprintf(trace, " -> %x", out.got)
				if out.bad {
					fmt.Fprintf(trace, " (model: %x)", out.want)
				}
			}
			fmt.Fprintln(trace)
			for _, d := range devs {
				fmt.Fprintf(trace, "     state deviates: %s = %s, model %s\n", d.cell, d.got, d.want)
			}
		}
		var head, apiName string
		if o.Reset {
			head, apiName = w.mode+"/reset-neighbour", "resetRegisterValue"
		} else {
			head = w.mode + "/" + shapes[o.sh].label()
			apiName = readAPI[o.API]
			if o.Write {
				apiName = writeAPI[o.API]
			}
			apiName = fmt.Sprintf("%s-rc%d", apiName, o.RC)
		}
		verb := "read"
		if o.Write || o.Reset {
			verb = "write"
		}
		pre := historyString(hist[:pos])
		if out.panicMsg != "" {
			return mk(pos, fmt.Sprintf("%s/%s-%s/%s", head, verb, symptomOfPanic(out.panicMsg), apiName),
				fmt.Sprintf("%s on %s wavefront %s panics: %q (after %s)", o, w.mode, actor.name, out.panicMsg, pre))
		}
		if len(devs) > 0 {
			// prefer a cell the operation had no business touching
			pick := devs[0]
			for _, d := range devs {
				if !d.inTarget {
					pick = d
					break
				}
			}
			sym := "target-holds-wrong-value:" + pick.cell
			if !pick.inTarget {
				sym = "clobbers:" + pick.cell
				if pick.zero {
					sym = "clears:" + pick.cell
				}
				if strings.Contains(pick.cell, ".lane") { // keep the signature independent of the lane alphabet
					sym = sym[:strings.Index(sym, ".lane")] + "@lane"
				}
			}
			var l []string
			for _, d := range devs {
				l = append(l, fmt.Sprintf("%s=%s (model %s)", d.cell, d.got, d.want))
			}
			return mk(pos, fmt.Sprintf("%s/%s-%s/%s", head, verb, sym, apiName),
				fmt.Sprintf("after %s on %s wavefront %s the state deviates from the cell model: %s (history before: %s)", o, w.mode, actor.name, strings.Join(l, "; "), pre))
		}
		if out.bad {
			return mk(pos, fmt.Sprintf("%s/read-%s/%s", head, w.describeAnswer(actor, o, out.got, out.want), apiName),
				fmt.Sprintf("%s on %s wavefront %s returns %x, the cell model says %x (history before: %s)", o, w.mode, actor.name, out.got, out.want, pre))
		}
		if !withReadBack {
			continue
		}
		if cell, got, want := w.readBack(actor, &n); cell != "" {
			return mk(pos, fmt.Sprintf("%s/readback/%s", w.mode, strings.SplitN(cell, ".lane", 2)[0]),
				fmt.Sprintf("read-back of %s through ReadOperandBytes gives %x, model %x, although the raw state is right (after %s)", cell, got, want, historyString(hist[:pos+1])))
		}
	}
	return nil
}

func historyString(h []op) string {
	if len(h) == 0 {
		return "[]"
	}
	var l []string
	for _, o := range h {
		l = append(l, o.String())
	}
	return "[" + strings.Join(l, ", ") + "]"
}

// runFast executes a history; ok=false means something deviated (state is
// then untrusted: the caller runs the detailed path). outs receives the
// per-operation outcomes for the cross-mode comparison.
func (w *world) runFast(actor *slot, hist []op, st *stats, outs *[]outcome, isNew func(uint64) bool) (ok bool) {
	if w.fresh != nil {
		w.fresh()
	}
	for pos, o := range hist {
		out := w.apply(actor, o, pos)
		st.ops++
		if outs != nil {
			*outs = append(*outs, out)
		}
		if out.bad {
			return false
		}
	}
	if !w.stateOK() {
		return false
	}
	// The implementation state is now byte-identical to the model state. The
	// read-back through the operand API is a function of that state alone, so
	// it is done once per distinct (state, acting wavefront): state-hash
	// deduplication of the explicit-state search.
	if isNew(w.stateHash() ^ mix(uint64(actor.idx)+77)) {
		st.readbacks++
		if cell, _, _ := w.readBack(actor, &st.reads); cell != "" {
			return false
		}
	}
	w.undo()
	return true
}

// ---------------------------------------------------------------------------

type checker struct {
	r      *harness.Run
	seen   sync.Map
	states [256]struct {
		sync.Mutex
		m map[uint64]struct{}
	}
	tot      stats
	totMu    sync.Mutex
	perSig   sync.Map // sig -> *int64
	infraOne sync.Once
}

func (c *checker) report(f *finding) {
	cnt, _ := c.perSig.LoadOrStore(f.sig, new(int64))
	atomic.AddInt64(cnt.(*int64), 1)
	if _, dup := c.seen.LoadOrStore(f.sig, true); dup {
		return
	}
	c.r.Report(f.sig, f.msg, f.rc)
}

func (c *checker) addState(h uint64) (isNew bool) {
	sh := &c.states[h&255]
	sh.Lock()
	_, had := sh.m[h]
	if !had {
		sh.m[h] = struct{}{}
	}
	sh.Unlock()
	return !had
}

type worker struct {
	emu *world
	tim *world
}

func (c *checker) runHistory(wk *worker, hist []op, st *stats) {
	hasReset := false
	for _, o := range hist {
		if o.Reset {
			hasReset = true
		}
	}
	var emuOuts, cOuts []outcome
	run := func(w *world, actor *slot, outs *[]outcome) {
		st.runs++
		if w.runFast(actor, hist, st, outs, c.addState) {
			return
		}
		st.slow++
		f := w.runDetailed(actor, hist, nil)
		if f == nil {
			c.infraOne.Do(func() {
				c.r.Infra("history %s on %s/%s deviated in the fast pass but not in the detailed pass (nondeterminism)", historyString(hist), w.mode, actor.name)
			})
			return
		}
		c.report(f)
	}
	if !hasReset {
		run(wk.emu, wk.emu.actors[0], &emuOuts)
	}
	for _, a := range wk.tim.actors {
		if a.name == "C" {
			run(wk.tim, a, &cOuts)
		} else {
			run(wk.tim, a, nil)
		}
	}
	// an answer that was handed out stays what it was: later operations must not rewrite it
	for wi, outs := range [][]outcome{emuOuts, cOuts} {
		for i, o := range outs {
			if o.panicMsg == "" && !bytes.Equal(o.got, o.snap) {
				mode, actor := "emu", "E0"
				if wi == 1 {
					mode, actor = "timing", "C"
				}
				c.report(&finding{sig: mode + "/answer-of-an-earlier-read-rewritten-by-a-later-operation",
					msg: fmt.Sprintf("%s returned %x; after the rest of the history %s the slice it returned holds %x (the answers share storage)", hist[i], o.snap, historyString(hist[i+1:]), o.got),
					rc: replayCase{World: mode, Actor: actor, History: append([]op(nil), hist...)}})
				return
			}
		}
	}
	if !hasReset {
		// direct emu-vs-timing comparison of the per-operation outcomes
		n := len(emuOuts)
		if len(cOuts) < n {
			n = len(cOuts)
		}
		for i := 0; i < n; i++ {
			st.xcmp++
			e, t := emuOuts[i], cOuts[i]
			if (e.panicMsg != "") != (t.panicMsg != "") || !bytes.Equal(e.got, t.got) {
				st.xdis++
				if !e.bad && !t.bad { // both agree with the model yet differ: impossible unless the harness is broken
					c.infraOne.Do(func() {
						c.r.Infra("emu and timing differ on %s although both match the model", hist[i])
					})
				}
			}
		}
	}
}

func main() {
	log.SetOutput(io.Discard) // log.Panicf prints before panicking
	r := harness.Start("C07", "model_checking")
	buildShapes()
	c := &checker{r: r}
	for i := range c.states {
		c.states[i].m = map[uint64]struct{}{}
	}
	full := buildAlphabet(true)
	reduced := buildAlphabet(false)
	resetOp := op{Reset: true}
	full = append(full, resetOp)
	reduced = append(reduced, resetOp)

	if r.Replay != "" {
		replay(r, full)
		return
	}

	pool := make(chan *worker, 64)
	newWorker := func() *worker { return &worker{emu: newEmuWorld(), tim: newTimingWorld()} }
	get := func() *worker {
		select {
		case w := <-pool:
			return w
		default:
			return newWorker()
		}
	}

	// sanity of the harness itself: the untouched worlds equal the model
	{
		wk := newWorker()
		for _, w := range []*world{wk.emu, wk.tim} {
			if !w.stateOK() {
				// the special registers were just written through the wavefront's own setters: a value that does not
				// read back is the property's first clause, not a harness problem
				reported := false
				for _, s := range w.slots {
					vcc, exec, m0, scc := s.t.specials()
					for _, x := range []struct {
						n         string
						got, want uint64
					}{{"vcc", vcc, s.vcc}, {"exec", exec, s.exec}, {"m0", uint64(m0), uint64(s.m0)}, {"scc", uint64(scc), uint64(s.scc)}} {
						if x.got != x.want {
							c.report(&finding{sig: w.mode + "/special-register-written-through-its-setter-reads-back-differently/" + x.n,
								msg: fmt.Sprintf("wavefront %s: %s set to %#x reads back %#x (nothing else was done)", s.name, x.n, x.want, x.got), rc: replayCase{World: w.mode, Actor: s.name}})
							reported = true
						}
					}
				}
				if !reported {
					r.Infra("%s world does not equal the background image after reset", w.mode)
				}
				r.Finish()
				return
			}
			var n int64
			for _, a := range w.actors {
				if cell, g, wnt := w.readBack(a, &n); cell != "" {
					c.report(&finding{sig: w.mode + "/readback/" + strings.SplitN(cell, ".lane", 2)[0], msg: fmt.Sprintf("initial read-back %s: %x want %x", cell, g, wnt), rc: replayCase{World: w.mode, Actor: a.name}})
				}
			}
		}
		pool <- wk
	}

	type layer struct {
		depth int
		alpha []op
		name  string
	}
	layers := []layer{{1, full, "full"}, {2, full, "full"}}
	if r.Thorough() {
		layers = append(layers, layer{3, reduced, "without-direct-ReadReg/WriteReg"})
	}
	exhaustive := true
	var layerInfo []map[string]any
	var histories int64
	for _, ly := range layers {
		A := len(ly.alpha)
		// one task = one prefix of depth-1 operations, the last operation loops inside
		nPre := 1
		for i := 1; i < ly.depth; i++ {
			nPre *= A
		}
		var done int64
		complete := r.ForEach(nPre, func(i int) {
			wk := get()
			var st stats
			hist := make([]op, ly.depth)
			x := i
			for p := ly.depth - 2; p >= 0; p-- {
				hist[p] = ly.alpha[x%A]
				x /= A
			}
			for _, last := range ly.alpha {
				hist[ly.depth-1] = last
				c.runHistory(wk, hist, &st)
			}
			atomic.AddInt64(&done, int64(A))
			c.totMu.Lock()
			c.tot.runs += st.runs
			c.tot.ops += st.ops
			c.tot.reads += st.reads
			c.tot.slow += st.slow
			c.tot.readbacks += st.readbacks
			c.tot.xcmp += st.xcmp
			c.tot.xdis += st.xdis
			c.totMu.Unlock()
			pool <- wk
		})
		if !complete {
			exhaustive = false
		}
		histories += done
		layerInfo = append(layerInfo, map[string]any{"depth": ly.depth, "alphabet": ly.name, "alphabet_size": A, "histories": done, "complete": complete})
		fmt.Printf("depth %d over the %s alphabet (%d operations): %d histories, complete=%v\n", ly.depth, ly.name, A, done, complete)
	}

	// read X, write Y, read X again - for every read and every write of the full alphabet: what a read may remember
	// must not survive a write to any part of it (the cube of depth 3 is thorough-only; this slice of it is cheap)
	{
		var reads, writes []op
		for _, o := range full {
			switch {
			case o.Reset:
			case o.Write:
				writes = append(writes, o)
			default:
				reads = append(reads, o)
			}
		}
		var done int64
		complete := r.ForEach(len(reads), func(i int) {
			wk := get()
			var st stats
			hist := make([]op, 3)
			hist[0], hist[2] = reads[i], reads[i]
			for _, wr := range writes {
				hist[1] = wr
				c.runHistory(wk, hist, &st)
			}
			atomic.AddInt64(&done, int64(len(writes)))
			c.totMu.Lock()
			c.tot.runs += st.runs
			c.tot.ops += st.ops
			c.tot.reads += st.reads
			c.tot.slow += st.slow
			c.tot.readbacks += st.readbacks
			c.tot.xcmp += st.xcmp
			c.tot.xdis += st.xdis
			c.totMu.Unlock()
			pool <- wk
		})
		if !complete {
			exhaustive = false
		}
		histories += done
		layerInfo = append(layerInfo, map[string]any{"depth": 3, "alphabet": "read X, write Y, read X over the full alphabet", "alphabet_size": len(reads) * len(writes), "histories": done, "complete": complete})
		fmt.Printf("read-write-read over the full alphabet (%d reads x %d writes): %d histories, complete=%v\n", len(reads), len(writes), done, complete)
	}

	r.Cov["wavefront_placements_checked_for_disjoint_vgpr_storage"] = placementPass(c)

	// final sweep: every worker's worlds must still equal the background
	close(pool)
	for wk := range pool {
		for _, w := range []*world{wk.emu, wk.tim} {
			if !w.stateOK() {
				devs := w.compareState(w.actors[0], nil, 4)
				c.report(&finding{sig: w.mode + "/unattributed-residue", msg: fmt.Sprintf("after all histories were undone the %s world differs from the background: %+v", w.mode, devs), rc: replayCase{World: w.mode}})
			}
		}
	}

	nStates := 0
	for i := range c.states {
		nStates += len(c.states[i].m)
	}
	r.Cov["states"] = nStates
	r.Cov["transitions"] = c.tot.ops
	r.Cov["traces_validated_against_impl"] = c.tot.runs
	r.Cov["histories"] = histories
	r.Cov["layers"] = layerInfo
	r.Cov["readback_reads_through_operand_api"] = c.tot.reads
	r.Cov["full_readbacks_through_operand_api"] = c.tot.readbacks
	r.Cov["runs_with_a_deviation"] = c.tot.slow
	r.Cov["cross_mode_operation_outcomes_compared"] = c.tot.xcmp
	r.Cov["cross_mode_outcomes_differing"] = c.tot.xdis
	r.Cov["exhaustive"] = exhaustive
	per := map[string]int64{}
	c.perSig.Range(func(k, v any) bool { per[k.(string)] = *(v.(*int64)); return true })
	r.Cov["deviating_runs_per_signature"] = per
	r.Cov["rule"] = "states = distinct (reference-model state of the whole world, acting wavefront) pairs reached at the end of a history, each read back completely through the operand API once (every execution additionally compares every byte of every register file and all special registers with the model); transitions = operations applied to real wavefront objects; traces = (history, world, acting wavefront) executions, each followed by a read-back of every cell"
	sample := []op{reduced[1], reduced[0]}
	r.Sample(map[string]any{"history": historyString(sample), "worlds": "emu(E0 acting, E1 idle); timing CU with A,B,C acting in turn and D idle", "check": "read-back of 102 SGPRs + VGPR universe x 9 lanes via ReadOperandBytes, specials via accessors, all bytes of all register files vs the cell model"})
	r.Sample(map[string]any{"alphabet_full": len(full), "alphabet_reduced": len(reduced), "first_operations": historyString(full[:6]), "last_operations": historyString(full[len(full)-3:])})
	r.Assume = []string{
		"register state is completely visible through the accessors VCC()/EXEC()/SCC()/M0 and the raw storage exposed by the verif hook (no hidden per-wavefront register state elsewhere)",
		"legal operands only: SGPR groups within s0..s101, VGPR groups within the wavefront's allocation, WriteOperand (uint64) for at most 2 dwords, data length = operand size, SCC values 0/1",
		"timing wavefront offsets are those the CP resource allocator can produce (multiples of 16 SGPRs / 4 VGPRs, allocation inside the 256-VGPR lane window)",
		"one acting wavefront per history; other wavefronts are bystanders whose every byte is compared",
	}
	// registers of co-resident wavefronts on the real timing CU across wavefront termination and kernel launches
	// (the scheduler resets a finished wavefront's registers): auxiliary binary built from checks/c14
	r.RunPart("cu", "-part-of=C07")
	r.Finish()
}

// ---------------------------------------------------------------------------

// placementPass: the registers of co-resident wavefronts are disjoint cells for every placement the command
// processor can make on a compute unit. The CP sizes its VGPR allocation mask from the count the CU reports
// (VRegCounts: the builder's WithVGPRCount, 16384 by default, 32768 on the mi300a platform), hands out first-fit
// blocks of 4 registers and passes byte offsets; here wavefronts of nV registers each are placed back to back on
// SIMD 0 until the per-lane capacity (count/64) is used up, every wavefront writes a tag of its own into its
// first and last register in a few lanes through its register accessor, and then everything is read back.
func placementPass(c *checker) (placements int) {
	for _, cfg := range []struct {
		name  string
		vgprs int
	}{{"vgprs16384-builder-default", 16384}, {"vgprs32768-mi300a", 32768}, {"vgprs8192", 8192},
		// per-lane shares that are not powers of two (384, 192 and 320 registers): a lane stride derived by shifting
		// instead of multiplying is wrong only here
		{"vgprs24576", 24576}, {"vgprs12288", 12288}, {"vgprs20480", 20480}} {
		perLane := cfg.vgprs / 64
		for _, nV := range []int{24, 64, 128} {
			nWf := perLane / nV
			if nWf > 10 { // wavefront pool of a SIMD
				nWf = 10
			}
			placements++
			msg := safely(func() {
				engine := sim.NewSerialEngine()
				u := cu.MakeBuilder().WithEngine(engine).WithVGPRCount([]int{cfg.vgprs, cfg.vgprs, cfg.vgprs, cfg.vgprs}).Build("CU")
				var ts []timT
				for k := 0; k < nWf; k++ {
					raw := rawWf(16, nV, ^uint64(0))
					wf := wavefront.NewWavefront(raw)
					wf.RegAccessor = &cu.CURegFileAccessor{CU: u, WF: wf}
					wg := wavefront.NewWorkGroup(raw.WG, nil)
					wg.Wfs = append(wg.Wfs, wf)
					wf.WG = wg
					u.WfDispatcher.DispatchWf(wf, protocol.WfDispatchLocation{Wavefront: raw, SIMDID: 0, VGPROffset: k * nV * 4, SGPROffset: k * 16 * 4})
					ts = append(ts, timT{wf})
				}
				lanes := []int{0, 1, 31, 63}
				tag := func(k, which, lane int) []byte {
					return []byte{byte(0x80 + k), byte(0x10 + which), byte(lane), 0xa5}
				}
				for k, t := range ts {
					for which, reg := range []int{0, nV - 1} {
						for _, l := range lanes {
							t.writeReg(insts.VReg(reg), 1, l, tag(k, which, l))
						}
					}
				}
				for k, t := range ts {
					for which, reg := range []int{0, nV - 1} {
						for _, l := range lanes {
							got := t.readReg(insts.VReg(reg), 1, l)
							if want := tag(k, which, l); !bytes.Equal(got[:4], want) {
								owner := "nobody's tag"
								if got[3] == 0xa5 && got[0] >= 0x80 {
									owner = fmt.Sprintf("the tag wavefront %d wrote to its %s register in lane %d", got[0]-0x80, []string{"first", "last"}[got[1]&1], got[2])
								}
								c.report(&finding{sig: "timing/co-resident-wavefronts-share-vgpr-storage/" + cfg.name,
									msg: fmt.Sprintf("compute unit with %d VGPRs per SIMD (%d per lane), %d wavefronts of %d VGPRs placed back to back on SIMD 0 (byte offsets 0, %d, ...): wavefront %d reads %x from v%d lane %d, it wrote %x - that is %s",
										cfg.vgprs, perLane, nWf, nV, nV*4, k, got[:4], reg, l, want, owner),
									rc: replayCase{World: "placement"}})
								return
							}
						}
					}
				}
			})
			if msg != "" {
				c.report(&finding{sig: "timing/placement-panic/" + cfg.name, msg: fmt.Sprintf("%d wavefronts of %d VGPRs on a CU with %d VGPRs per SIMD: %s", nWf, nV, cfg.vgprs, msg), rc: replayCase{World: "placement"}})
			}
		}
	}
	return placements
}

func replay(r *harness.Run, full []op) {
	data, err := os.ReadFile(r.Replay)
	if err != nil {
		fmt.Fprintln(os.Stderr, err)
		os.Exit(2)
	}
	if bytes.Contains(data, []byte(`"scenario"`)) {
		// a finding of the part "cu" (explorer replay file)
		os.Exit(harness.RunPartBinary("cu", "-part-of=C07", "-replay", r.Replay))
	}
	var f struct {
		Signature string     `json:"signature"`
		Case      replayCase `json:"case"`
	}
	if err := json.Unmarshal(data, &f); err != nil {
		fmt.Fprintln(os.Stderr, err)
		os.Exit(2)
	}
	if f.Case.World == "placement" {
		c := &checker{r: r}
		placementPass(c)
		hit := false
		c.seen.Range(func(k, v any) bool {
			if k.(string) == f.Signature {
				hit = true
			}
			return true
		})
		if hit {
			fmt.Printf("VIOLATION property=C07 replay=%s\n", r.Replay)
			os.Exit(1)
		}
		fmt.Println("replay: no violation")
		os.Exit(0)
	}
	var w *world
	if f.Case.World == "emu" {
		w = newEmuWorld()
	} else {
		w = newTimingWorld()
	}
	var actor *slot
	for _, s := range w.slots {
		if s.name == f.Case.Actor {
			actor = s
		}
	}
	if actor == nil {
		actor = w.actors[0]
	}
	if strings.Contains(f.Signature, "special-register-written-through-its-setter") {
		// the world was just built: its special registers were written once, through the setters
		vcc, exec, m0, scc := actor.t.specials()
		fmt.Printf("wavefront %s after its special registers were set once: vcc %#x (set %#x) exec %#x (set %#x) m0 %#x (set %#x) scc %d (set %d)\n",
			actor.name, vcc, actor.vcc, exec, actor.exec, m0, actor.m0, scc, actor.scc)
		if vcc != actor.vcc || exec != actor.exec || m0 != actor.m0 || scc != actor.scc {
			fmt.Printf("VIOLATION property=C07 replay=%s\n", r.Replay)
			os.Exit(1)
		}
		fmt.Println("replay: no violation")
		os.Exit(0)
	}
	hist := f.Case.History
	for i := range hist {
		if hist[i].Reset {
			continue
		}
		found := false
		for _, o := range full {
			if o.Kind == hist[i].Kind && o.RC == hist[i].RC {
				hist[i].sh = o.sh
				found = true
				break
			}
		}
		if !found {
			fmt.Fprintln(os.Stderr, "unknown operand in replay case:", hist[i].Kind, hist[i].RC)
			os.Exit(2)
		}
	}
	fmt.Printf("replaying on the %s world, acting wavefront %s: %s\n", w.mode, actor.name, historyString(hist))
	if strings.Contains(f.Signature, "answer-of-an-earlier-read-rewritten") {
		w.softReset()
		if w.fresh != nil {
			w.fresh()
		}
		var outs []outcome
		for pos, o := range hist {
			outs = append(outs, w.apply(actor, o, pos))
		}
		for i, o := range outs {
			fmt.Printf("  op %d %s returned %x; the returned slice now holds %x\n", i, hist[i], o.snap, o.got)
			if o.panicMsg == "" && !bytes.Equal(o.got, o.snap) {
				fmt.Printf("VIOLATION property=C07 replay=%s\n  signature: %s\n", r.Replay, f.Signature)
				os.Exit(1)
			}
		}
		fmt.Println("replay: no violation")
		os.Exit(0)
	}
	var first string
	for i := 0; i < 3; i++ { // determinism guard
		fd := w.runDetailed(actor, hist, nil)
		s := ""
		if fd != nil {
			s = fd.sig + "|" + fd.msg
		}
		if i > 0 && s != first {
			fmt.Println("INFRASTRUCTURE ERROR: nondeterministic replay")
			os.Exit(2)
		}
		first = s
	}
	fd := w.runDetailed(actor, hist, os.Stdout)
	if fd != nil {
		fmt.Printf("VIOLATION property=C07 replay=%s\n  signature: %s\n  %s\n", r.Replay, fd.sig, fd.msg)
		os.Exit(1)
	}
	fmt.Println("replay: no violation")
	os.Exit(0)
}
