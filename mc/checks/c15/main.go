// C15: the reorder buffer returns responses in request order, exactly once.
// Real rob.ReorderBuffer under the real serial engine, closed by an
// explorer-driven environment (requester on Top, memory on Bottom, controller
// on Control).
package main

import (
	"bytes"
	"fmt"

	"github.com/sarchlab/akita/v4/mem/mem"
	"github.com/sarchlab/akita/v4/mem/vm"
	"github.com/sarchlab/akita/v4/sim"
	"github.com/sarchlab/mgpusim/v4/amd/timing/rob"

	"verif/mc/explore"
	"verif/mc/harness"
	"verif/mc/world"
)

type reqSpec struct {
	write bool
	addr  uint64
	size  uint64
	pid   vm.PID
	mask  bool
}

type cfg struct {
	bufSize, width int
	stream         []reqSpec
	post           []reqSpec // injected after restart
	flushAt        int       // cycle of the flush injection; 0 = none
	restartDelay   int
	flush2At       int       // second flush this many cycles after the first restart was acknowledged; 0 = none
	post2          []reqSpec // injected after the second restart
}

type sendHook struct{ f func(m sim.Msg) }

func (h sendHook) Func(ctx sim.HookCtx) {
	if ctx.Pos == sim.HookPosPortMsgSend {
		h.f(ctx.Item.(sim.Msg))
	}
}

func mkReq(s reqSpec, i int, src, dst sim.RemotePort) mem.AccessReq {
	if s.write {
		data := make([]byte, s.size)
		for j := range data {
			data[j] = byte(0x40 + i*16 + j%16)
		}
		b := mem.WriteReqBuilder{}.WithSrc(src).WithDst(dst).WithAddress(s.addr).WithPID(s.pid).WithData(data)
		if s.mask {
			m := make([]bool, s.size)
			for j := range m {
				m[j] = j%2 == 0
			}
			b = b.WithDirtyMask(m)
		}
		return b.Build()
	}
	return mem.ReadReqBuilder{}.WithSrc(src).WithDst(dst).WithAddress(s.addr).WithByteSize(s.size).WithPID(s.pid).Build()
}

func body(c cfg) explore.Body {
	return func(x *explore.Exec) *explore.Violation {
		w := world.New(x, 400)
		const memName, reqName, ctlName = sim.RemotePort("Env.Mem"), sim.RemotePort("Env.Req"), sim.RemotePort("Env.Ctl")
		b := rob.MakeBuilder().WithEngine(w.Engine).WithFreq(w.Freq).
			WithBufferSize(c.bufSize).WithNumReqPerCycle(c.width).WithBottomUnit(memName).Build("ROB")
		top, bot, ctl := b.GetPortByName("Top"), b.GetPortByName("Bottom"), b.GetPortByName("Control")
		w.NewWire("wire", top, bot, ctl)

		var viol *explore.Violation
		fail := func(sig, f string, a ...any) {
			if viol == nil {
				viol = explore.Viol(sig, f, a...)
			}
		}

		// --- monitor state
		type acc struct {
			req       mem.AccessReq
			discarded bool
			answered  bool
			fwd       mem.AccessReq
			botData   []byte
		}
		var accepted []*acc // in acceptance order
		byID := map[string]*acc{}
		nextFwd := 0     // index into accepted of next expected forward
		occupancy := 0   // forwards - retires, from port send hooks
		flushed := false // a discard ack was sent and the following restart ack was not yet
		restarted := false
		nCtlAcks := 0
		var trace bytes.Buffer

		// hooks on the component's own ports: exact time of forward / retire
		bot.AcceptHook(sendHook{func(m sim.Msg) {
			req := m.(mem.AccessReq)
			// forwarded requests must follow acceptance order among non-discarded
			for nextFwd < len(accepted) && accepted[nextFwd].discarded {
				nextFwd++
			}
			if nextFwd >= len(accepted) {
				fail("forward-without-request", "forwarded %s but no accepted request is waiting", world.Describe(m))
				return
			}
			a := accepted[nextFwd]
			nextFwd++
			a.fwd = req
			o := a.req
			if req.GetAddress() != o.GetAddress() || req.GetPID() != o.GetPID() {
				fail("forward-changed-address-or-pid", "req %d forwarded with addr %x pid %d, original addr %x pid %d", nextFwd-1, req.GetAddress(), req.GetPID(), o.GetAddress(), o.GetPID())
			}
			switch or := o.(type) {
			case *mem.ReadReq:
				fr, ok := req.(*mem.ReadReq)
				if !ok || fr.AccessByteSize != or.AccessByteSize {
					fail("forward-changed-read", "read forwarded as %T size %d (orig %d)", req, req.GetByteSize(), or.AccessByteSize)
				}
			case *mem.WriteReq:
				fw, ok := req.(*mem.WriteReq)
				if !ok || !bytes.Equal(fw.Data, or.Data) || fmt.Sprint(fw.DirtyMask) != fmt.Sprint(or.DirtyMask) {
					fail("forward-changed-write", "write forwarded as %T with different data/mask", req)
				}
			}
			if m.Meta().Dst != memName {
				fail("forward-wrong-destination", "forward dst %s", m.Meta().Dst)
			}
			occupancy++
			if occupancy > c.bufSize {
				fail("capacity-exceeded", "occupancy %d > capacity %d", occupancy, c.bufSize)
			}
		}})
		respIdx := 0
		top.AcceptHook(sendHook{func(m sim.Msg) {
			rsp, ok := m.(mem.AccessRsp)
			if !ok {
				fail("top-non-response", "%T on top port", m)
				return
			}
			occupancy--
			a := byID[rsp.GetRspTo()]
			fmt.Fprintf(&trace, "R%s@%d;", idx(accepted, a), w.Cycle())
			if a == nil {
				fail("response-unknown-id", "response to unknown id %s", rsp.GetRspTo())
				return
			}
			if a.discarded {
				fail("response-for-discarded-request", "response for request #%s delivered after the flush", idx(accepted, a))
				return
			}
			if a.answered {
				fail("duplicate-response", "request #%s answered twice", idx(accepted, a))
				return
			}
			a.answered = true
			// in-order: every earlier non-discarded accepted request must be answered
			for respIdx < len(accepted) && (accepted[respIdx].discarded || accepted[respIdx].answered) {
				if accepted[respIdx] == a {
					break
				}
				respIdx++
			}
			if respIdx >= len(accepted) || accepted[respIdx] != a {
				fail("out-of-order-response", "response for request #%s while request #%d is still unanswered", idx(accepted, a), respIdx)
			}
			if m.Meta().Dst != a.req.Meta().Src {
				fail("response-wrong-destination", "dst %s want %s", m.Meta().Dst, a.req.Meta().Src)
			}
			switch a.req.(type) {
			case *mem.ReadReq:
				dr, ok := rsp.(*mem.DataReadyRsp)
				if !ok {
					fail("response-wrong-type", "read answered with %T", rsp)
				} else if !bytes.Equal(dr.Data, a.botData) {
					fail("response-wrong-payload", "read #%s answered with %x, memory returned %x", idx(accepted, a), dr.Data, a.botData)
				}
			case *mem.WriteReq:
				if _, ok := rsp.(*mem.WriteDoneRsp); !ok {
					fail("response-wrong-type", "write answered with %T", rsp)
				}
			}
		}})
		ctl.AcceptHook(sendHook{func(m sim.Msg) {
			nCtlAcks++
			if nCtlAcks%2 == 1 {
				flushed, restarted = true, false
				for _, a := range accepted {
					if !a.answered {
						a.discarded = true
					}
				}
				occupancy = 0
				fmt.Fprintf(&trace, "F;")
			} else {
				restarted = true
				fmt.Fprintf(&trace, "S;")
			}
		}})

		// --- environment
		src := &world.Feeder{W: w, Port: top, Tag: "top", DelayAlphabet: []int{1, 3}}
		src.OnDeliver = func(m sim.Msg) {
			a := &acc{req: m.(mem.AccessReq)}
			if flushed && !restarted {
				a.discarded = true // sent while flushing: drained by restart
			}
			accepted = append(accepted, a)
			byID[m.Meta().ID] = a
			fmt.Fprintf(&trace, "A%d;", len(accepted)-1)
		}
		for i, s := range c.stream {
			src.Add(mkReq(s, i, reqName, top.AsRemote()), true)
		}
		memF := &world.Feeder{W: w, Port: bot, Tag: "bottom", Reorder: true, DelayAlphabet: []int{2, 5}}
		memF.OnDeliver = func(m sim.Msg) {
			for i, c := range accepted {
				if c.fwd != nil && c.fwd.Meta().ID == m.(mem.AccessRsp).GetRspTo() {
					fmt.Fprintf(&trace, "M%d;", i)
				}
			}
		}
		nMem := 0
		botSink := &world.Sink{W: w, Port: bot, Tag: "bottom", StallAlphabet: []int{1, 4}}
		botSink.Handle = func(m sim.Msg) {
			nMem++
			var a *acc
			for _, c := range accepted {
				if c.fwd == m {
					a = c
				}
			}
			switch r := m.(type) {
			case *mem.ReadReq:
				data := make([]byte, r.AccessByteSize)
				for j := range data {
					data[j] = byte(nMem*16 + j)
				}
				if a != nil {
					a.botData = data
				}
				memF.Add(mem.DataReadyRspBuilder{}.WithSrc(memName).WithDst(bot.AsRemote()).WithRspTo(r.ID).WithData(data).Build(), true)
			case *mem.WriteReq:
				memF.Add(mem.WriteDoneRspBuilder{}.WithSrc(memName).WithDst(bot.AsRemote()).WithRspTo(r.ID).Build(), true)
			}
		}
		topSink := &world.Sink{W: w, Port: top, Tag: "top", StallAlphabet: []int{1, 4}}
		topSink.Handle = func(m sim.Msg) {}
		ctlF := &world.Feeder{W: w, Port: ctl, Tag: "ctl"}
		ctlSink := &world.Sink{W: w, Port: ctl, Tag: "ctl", NoChoice: true}
		acks := 0
		flush2Due := 0
		ctlSink.Handle = func(m sim.Msg) {
			acks++
			if acks%2 == 1 {
				ctlF.Add(mem.ControlMsgBuilder{}.WithSrc(ctlName).WithDst(ctl.AsRemote()).ToRestart().Build(), false)
				ctlF.Q[len(ctlF.Q)-1].Ready += c.restartDelay
			} else if acks == 2 {
				for i, s := range c.post {
					src.Add(mkReq(s, 8+i, reqName, top.AsRemote()), true)
				}
				flush2Due = w.Cycle() + c.flush2At
			} else if acks == 4 {
				for i, s := range c.post2 {
					src.Add(mkReq(s, 12+i, reqName, top.AsRemote()), true)
				}
			}
		}
		flushSent, flush2Sent := false, false
		w.Step = func() bool {
			pending := false
			if c.flushAt > 0 && !flushSent {
				if w.Cycle() >= c.flushAt {
					flushSent = true
					ctlF.Add(mem.ControlMsgBuilder{}.WithSrc(ctlName).WithDst(ctl.AsRemote()).ToDiscardTransactions().Build(), false)
					ctlF.Q[len(ctlF.Q)-1].Ready = w.Cycle()
				}
				pending = true
			}
			if c.flush2At > 0 && !flush2Sent {
				if acks >= 2 && w.Cycle() >= flush2Due {
					flush2Sent = true
					ctlF.Add(mem.ControlMsgBuilder{}.WithSrc(ctlName).WithDst(ctl.AsRemote()).ToDiscardTransactions().Build(), false)
					ctlF.Q[len(ctlF.Q)-1].Ready = w.Cycle()
				}
				pending = true
			}
			pending = ctlSink.Step(1) || pending
			pending = topSink.Step(2*c.width) || pending
			pending = botSink.Step(2*c.width) || pending
			pending = ctlF.Step(1) || pending
			if !(flushSent && acks < 2) && !(flush2Sent && acks < 4) { // requester is paused during a flush
				pending = src.Step(c.width) || pending
			} else {
				pending = true
			}
			pending = memF.Step(2*c.width) || pending
			return pending
		}
		quiet := w.Run()
		if viol != nil {
			return viol
		}
		if !quiet {
			return nil // capped; reported as non-exhaustive
		}
		// end-of-run: everything not discarded answered exactly once
		for i, a := range accepted {
			if !a.discarded && !a.answered {
				return explore.Viol("request-never-answered", "request #%d of %d never answered at quiescence (flushAt=%d)", i, len(accepted), c.flushAt)
			}
		}
		want := len(c.stream)
		if c.flushAt > 0 {
			want += len(c.post)
			wantAcks := 2
			if c.flush2At > 0 {
				want += len(c.post2)
				wantAcks = 4
			}
			if acks != wantAcks {
				return explore.Viol("flush-not-acknowledged", "control acks=%d want %d", acks, wantAcks)
			}
		}
		if len(accepted) != want {
			return explore.Viol("request-not-accepted", "accepted %d of %d", len(accepted), want)
		}
		x.Outcome(trace.String())
		return nil
	}
}

func idx[T comparable](l []T, a T) string {
	for i, b := range l {
		if b == a {
			return fmt.Sprint(i)
		}
	}
	return "?"
}

func main() {
	r := harness.Start("C15", "model_checking")
	streams := [][]reqSpec{
		{{false, 0x100, 4, 1, false}, {true, 0x104, 4, 1, false}, {false, 0x100, 8, 2, false}},
		{{true, 0x40, 8, 1, true}, {false, 0x40, 64, 1, false}, {true, 0x80, 4, 2, false}},
	}
	post := []reqSpec{{false, 0x200, 4, 1, false}, {true, 0x204, 4, 3, true}}
	long := []reqSpec{{false, 0x100, 4, 1, false}, {true, 0x104, 4, 1, false}, {false, 0x108, 8, 2, false}, {true, 0x40, 8, 1, true}, {false, 0x10c, 16, 1, false}}
	var scs []harness.Scenario
	add := func(name string, c cfg, bound int) {
		scs = append(scs, harness.Scenario{Name: name, Bound: bound, Body: body(c)})
	}
	bound := 3
	if r.Thorough() {
		bound = 4
		streams = append(streams, long)
	}
	for si, st := range streams {
		for _, bs := range []int{1, 2, 3} {
			for _, wd := range []int{1, 2} {
				add(fmt.Sprintf("stream%d/buf%d/width%d/noflush", si, bs, wd), cfg{bufSize: bs, width: wd, stream: st}, bound)
			}
		}
	}
	flushPoints := []int{2, 3, 4, 5, 6, 8}
	if r.Thorough() {
		flushPoints = []int{1, 2, 3, 4, 5, 6, 7, 8, 9, 10, 12}
	}
	for _, fa := range flushPoints {
		for _, bs := range []int{1, 2} {
			for _, rd := range []int{0, 3} {
				add(fmt.Sprintf("stream0/buf%d/width1/flush@%d/restart+%d", bs, fa, rd),
					cfg{bufSize: bs, width: 1, stream: streams[0], post: post, flushAt: fa, restartDelay: rd}, bound-1)
			}
		}
		add(fmt.Sprintf("stream1/buf3/width2/flush@%d/restart+0", fa),
			cfg{bufSize: 3, width: 2, stream: streams[1], post: post, flushAt: fa}, bound-1)
	}
	// two flush/restart rounds: the second flush meets a buffer that has already been flushed and restarted once and is
	// serving the traffic injected after the first restart
	post2 := []reqSpec{{true, 0x300, 8, 2, false}, {false, 0x300, 8, 2, false}}
	flush2 := []int{2, 4}
	first := []int{3, 5}
	if r.Thorough() {
		flush2 = []int{1, 2, 3, 4, 5, 7}
		first = []int{2, 3, 4, 5, 6, 8}
	}
	for _, fa := range first {
		for _, f2 := range flush2 {
			for _, bs := range []int{1, 2} {
				add(fmt.Sprintf("stream0/buf%d/width1/flush@%d/restart+0/flush2@+%d", bs, fa, f2),
					cfg{bufSize: bs, width: 1, stream: streams[0], post: post, flushAt: fa, flush2At: f2, post2: post2}, bound-1)
			}
			if r.Thorough() {
				add(fmt.Sprintf("stream1/buf3/width2/flush@%d/restart+3/flush2@+%d", fa, f2),
					cfg{bufSize: 3, width: 2, stream: streams[1], post: post, flushAt: fa, restartDelay: 3, flush2At: f2, post2: post2}, bound-2)
			}
		}
	}
	r.Assume = []string{
		"requester sends no new request between the flush request and the restart acknowledgement (the CP pauses CUs first)",
		"'discarded' = accepted but not yet answered (response not yet placed on the Top port) when the flush is acknowledged",
		"message IDs are only compared for equality",
	}
	r.RunScenarios(scs)
	r.Finish()
}
