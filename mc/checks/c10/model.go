package main

import (
	"fmt"
	"math/bits"
	"sort"
	"strings"

	"github.com/sarchlab/akita/v4/mem/vm"
	"github.com/sarchlab/mgpusim/v4/amd/driver"
)

// ---------------------------------------------------------------------------
// Reference model. It records what the API calls MEAN (which buffers are live,
// which virtual pages belong to them, which frame each page was last given),
// using the values the implementation returned as inputs that are validated
// at the step where they appear. It never predicts an address.

const noFrame = ^uint64(0)

type pageKey struct {
	pid int // canonical pid index (order of Init calls)
	v   uint64
}

type refPage struct {
	buf, idx int
	live     bool
	frame    uint64 // frame number of the current mapping as observed when it was made
	dev      int    // real device holding that frame (-1 unknown)
}

type refBuf struct {
	ctx, pid int
	vaddr    uint64
	bytes    uint64
	npages   int
	live     bool
	gced     bool
	step     int
}

type ref struct {
	cfg       *config
	P         uint64
	ctxPid    []int
	nProcs    int
	bufs      []refBuf
	pages     map[pageKey]*refPage
	owner     map[uint64]pageKey // frame -> live page mapped to it
	lastUnmap map[uint64]string  // frame -> how its last mapping ended
	vaddrPids map[uint64]uint32  // vaddr -> set of pids it was handed to
	step      int
	// tainted: at some earlier point of this history a merge bit of the buddy
	// allocator contradicted its free lists. A wrong merge can make the bits
	// look consistent again, so the mark is kept for the rest of the history.
	tainted bool
}

func newRef(c *config) *ref {
	r := &ref{cfg: c, P: c.P(), pages: map[pageKey]*refPage{}, owner: map[uint64]pageKey{},
		lastUnmap: map[uint64]string{}, vaddrPids: map[uint64]uint32{}}
	for _, p := range c.PreCtx {
		r.ctxPid = append(r.ctxPid, p)
		if p >= r.nProcs {
			r.nProcs = p + 1
		}
	}
	return r
}

func (r *ref) shared(v uint64) bool { return bits.OnesCount32(r.vaddrPids[v]) >= 2 }

func (r *ref) bufKeys(b int, lo, hi int) []pageKey {
	bf := &r.bufs[b]
	var ks []pageKey
	for i := lo; i < hi; i++ {
		ks = append(ks, pageKey{bf.pid, bf.vaddr + uint64(i)*r.P})
	}
	return ks
}

func (r *ref) distBytes(o op) uint64 {
	if o.Size == distFirstPage1 {
		return r.P + 1
	}
	return r.bufs[o.Buf].bytes
}

func pagesOf(bytes, P uint64) int { return int((bytes-1)/P + 1) }

// touched returns the virtual pages the call is entitled to change.
func (r *ref) touched(o op, res *result) []pageKey {
	switch o.K {
	case opAlloc, opAllocUnified:
		if res == nil || res.panicked {
			return nil
		}
		n := pagesOf(sizeBytes(int(o.Size), r.P), r.P)
		pid := r.ctxPid[o.Ctx]
		var ks []pageKey
		for i := 0; i < n; i++ {
			ks = append(ks, pageKey{pid, res.ptr + uint64(i)*r.P})
		}
		return ks
	case opFree:
		return r.bufKeys(int(o.Buf), 0, r.bufs[o.Buf].npages)
	case opRemap:
		return r.bufKeys(int(o.Buf), int(o.Lo), int(o.Hi))
	case opDistribute:
		return r.bufKeys(int(o.Buf), 0, pagesOf(r.distBytes(o), r.P))
	case opMigrate:
		return r.bufKeys(int(o.Buf), int(o.Lo), int(o.Lo)+1)
	}
	return nil
}

// update advances the reference over one call. find reads the page table
// after the call; devOf maps a frame to the real device holding it.
func (r *ref) update(o op, res *result, find func(pageKey) (vm.Page, bool), devOf func(uint64) int) {
	r.step++
	if res.panicked {
		return
	}
	observe := func(k pageKey, rp *refPage) {
		rp.frame, rp.dev = noFrame, -1
		if p, ok := find(k); ok && p.PAddr%r.P == 0 {
			rp.frame = p.PAddr / r.P
			rp.dev = devOf(rp.frame)
			if _, taken := r.owner[rp.frame]; !taken {
				r.owner[rp.frame] = k
			}
		}
	}
	release := func(k pageKey, rp *refPage, tag string) {
		if rp.frame == noFrame {
			return
		}
		if r.owner[rp.frame] == k {
			delete(r.owner, rp.frame)
		}
		r.lastUnmap[rp.frame] = tag
	}
	switch o.K {
	case opInit:
		r.ctxPid = append(r.ctxPid, r.nProcs)
		r.nProcs++
	case opInitPID:
		r.ctxPid = append(r.ctxPid, r.ctxPid[o.Ctx])
	case opAlloc, opAllocUnified:
		bytes := sizeBytes(int(o.Size), r.P)
		b := refBuf{ctx: int(o.Ctx), pid: r.ctxPid[o.Ctx], vaddr: res.ptr, bytes: bytes,
			npages: pagesOf(bytes, r.P), live: true, step: r.step}
		r.bufs = append(r.bufs, b)
		for i, k := range r.touched(o, res) {
			rp := &refPage{buf: len(r.bufs) - 1, idx: i, live: true}
			if old, ok := r.pages[k]; ok && old.live {
				// the implementation handed out a virtual page that is still
				// live; reported by the overlap check. Keep the older owner.
				continue
			}
			r.pages[k] = rp
			r.vaddrPids[k.v] |= 1 << uint(k.pid)
			observe(k, rp)
		}
	case opFree:
		r.bufs[o.Buf].live = false
		for _, k := range r.touched(o, res) {
			rp := r.pages[k]
			if rp == nil || rp.buf != int(o.Buf) {
				continue
			}
			tag := "free-first-page"
			if rp.idx > 0 {
				tag = "free-tail-page"
			}
			release(k, rp, tag)
			rp.live = false
		}
	case opRemap, opDistribute, opMigrate:
		tag := map[opKind]string{opRemap: "remap-old-frame", opDistribute: "remap-old-frame", opMigrate: "migrate-old-frame"}[o.K]
		for _, k := range r.touched(o, res) {
			rp := r.pages[k]
			if rp == nil {
				continue
			}
			if p, ok := find(k); ok && p.PAddr%r.P == 0 && p.PAddr/r.P == rp.frame {
				continue // mapping unchanged (Distribute over a single GPU returns early)
			}
			release(k, rp, tag)
			observe(k, rp)
		}
	case opGC:
		for i := range r.bufs {
			if r.bufs[i].ctx == int(o.Ctx) && !r.bufs[i].live {
				r.bufs[i].gced = true
			}
		}
	}
}

// used returns the number of frames of device dev that live pages occupy.
func (r *ref) used(dev int) int {
	n := 0
	for _, rp := range r.pages {
		if rp.live && rp.dev == dev {
			n++
		}
	}
	return n
}

func (r *ref) capacity(dev int) int {
	c := r.cfg
	if dev == 0 {
		return 1 << 20 // the CPU never fills in these searches (4 GiB)
	}
	return c.GPUPages[dev-1] - r.used(dev)
}

// enabled lists the VALID calls in the current state: within device capacity,
// Free / Remap / Distribute / migration only on live buffers by the owning
// context, page-aligned ranges inside one buffer, real devices as targets.
func (r *ref) enabled() []op {
	c := r.cfg
	var ops []op
	nctx := len(r.ctxPid)
	if c.MaxProcs > 0 {
		if r.nProcs < c.MaxProcs && nctx < c.MaxCtx {
			ops = append(ops, op{K: opInit})
		}
		if nctx < c.MaxCtx {
			for i := 0; i < nctx; i++ {
				ops = append(ops, op{K: opInitPID, Ctx: uint8(i)})
			}
		}
	}
	room := c.MaxBufs == 0 || len(r.bufs) < c.MaxBufs
	capOf := func(dev int) int {
		if dev == c.unifiedID() {
			n := 0
			for _, g := range c.Unified {
				n += r.capacity(g)
			}
			return n
		}
		return r.capacity(dev)
	}
	for ctx := 0; ctx < nctx && room; ctx++ {
		for _, dev := range c.AllocDevs {
			for _, sv := range c.AllocSizes {
				if pagesOf(sizeBytes(sv, r.P), r.P) <= capOf(dev) {
					ops = append(ops, op{K: opAlloc, Ctx: uint8(ctx), Dev: uint8(dev), Size: uint8(sv)})
				}
			}
		}
		for _, sv := range c.UnifiedSizes {
			// AllocateUnified places the pages on device 1
			if pagesOf(sizeBytes(sv, r.P), r.P) <= r.capacity(1) {
				ops = append(ops, op{K: opAllocUnified, Ctx: uint8(ctx), Size: uint8(sv)})
			}
		}
	}
	for b := range r.bufs {
		bf := &r.bufs[b]
		if !bf.live {
			continue
		}
		o := op{Ctx: uint8(bf.ctx), Buf: uint8(b)}
		if c.Free {
			o.K = opFree
			ops = append(ops, o)
		}
		for _, dev := range c.RemapDevs {
			for lo := 0; lo < bf.npages; lo++ {
				for hi := lo + 1; hi <= bf.npages; hi++ {
					if c.RemapRanges == "whole" && !(lo == 0 && hi == bf.npages) {
						continue
					}
					if hi-lo <= capOf(dev) {
						ops = append(ops, op{K: opRemap, Ctx: o.Ctx, Buf: o.Buf, Lo: uint8(lo), Hi: uint8(hi), Dev: uint8(dev)})
					}
				}
			}
		}
		for gi, gl := range c.GPULists {
			for _, dv := range c.DistVariants {
				if dv == distFirstPage1 && bf.npages < 2 {
					continue
				}
				d := op{K: opDistribute, Ctx: o.Ctx, Buf: o.Buf, Size: uint8(dv), GPUs: uint8(gi)}
				n := pagesOf(r.distBytes(d), r.P)
				ok := true
				for _, g := range gl {
					if capOf(g) < n { // conservative: every target could take the whole range
						ok = false
					}
				}
				if ok {
					ops = append(ops, d)
				}
			}
		}
		for _, g := range c.MigrateGPUs {
			for pg := 0; pg < bf.npages; pg++ {
				rp := r.pages[pageKey{bf.pid, bf.vaddr + uint64(pg)*r.P}]
				if rp == nil || rp.dev == g || r.capacity(g) < 1 {
					continue // the MMU only migrates pages that live elsewhere
				}
				ops = append(ops, op{K: opMigrate, Ctx: o.Ctx, Buf: o.Buf, Lo: uint8(pg), Dev: uint8(g)})
			}
		}
	}
	if c.GC {
		for ctx := 0; ctx < nctx; ctx++ {
			for i := range r.bufs {
				if r.bufs[i].ctx == ctx && !r.bufs[i].live && !r.bufs[i].gced {
					ops = append(ops, op{K: opGC, Ctx: uint8(ctx)})
					break
				}
			}
		}
	}
	return ops
}

// ---------------------------------------------------------------------------
// Applying a call to the real driver

type result struct {
	panicked bool
	panicMsg string
	stack    string
	ptr      uint64
	ret      []uint64
	page     vm.Page
	oldPAddr uint64
	err      error
}

func (s *sut) apply(r *ref, o op) (res *result) {
	res = &result{}
	defer func() {
		if e := recover(); e != nil {
			res.panicked = true
			res.panicMsg = fmt.Sprint(e)
		}
	}()
	d := s.drv
	P := s.cfg.P()
	switch o.K {
	case opInit:
		s.init()
	case opInitPID:
		c := d.InitWithExistingPID(s.ctxs[o.Ctx])
		s.ctxs = append(s.ctxs, c)
	case opAlloc:
		d.SelectGPU(s.ctxs[o.Ctx], int(o.Dev))
		res.ptr = uint64(d.AllocateMemory(s.ctxs[o.Ctx], sizeBytes(int(o.Size), P)))
	case opAllocUnified:
		res.ptr = uint64(d.AllocateUnifiedMemory(s.ctxs[o.Ctx], sizeBytes(int(o.Size), P)))
	case opFree:
		res.err = d.FreeMemory(s.ctxs[o.Ctx], driver.Ptr(r.bufs[o.Buf].vaddr))
	case opRemap:
		b := &r.bufs[o.Buf]
		d.Remap(s.ctxs[o.Ctx], b.vaddr+uint64(o.Lo)*P, uint64(o.Hi-o.Lo)*P, int(o.Dev))
	case opDistribute:
		b := &r.bufs[o.Buf]
		res.ret = d.Distribute(s.ctxs[o.Ctx], driver.Ptr(b.vaddr), r.distBytes(o), append([]int(nil), s.cfg.GPULists[o.GPUs]...))
	case opMigrate:
		b := &r.bufs[o.Buf]
		res.page, res.oldPAddr = d.VerifPreparePageForMigration(b.vaddr+uint64(o.Lo)*P, s.ctxs[o.Ctx], uint64(o.Dev)-1)
	case opGC:
		driver.VerifContextRemoveFreedBuffers(s.ctxs[o.Ctx])
	}
	return res
}

func (s *sut) finder() func(pageKey) (vm.Page, bool) {
	return func(k pageKey) (vm.Page, bool) { return s.pt.real.Find(s.pids[k.pid], k.v) }
}

// ---------------------------------------------------------------------------
// Facts: violations of the property's invariants, tied to the object they are
// about, so that a fact inherited from the previous state is not reported
// again.

type fact struct {
	kind   string
	keys   []pageKey // pages involved (for classification)
	obj    string    // identity of the object (not part of the signature)
	detail string
	latent bool
}

func (f fact) id() string { return f.kind + "|" + f.obj }

func samePage(a, b vm.Page) bool {
	return a.PID == b.PID && a.VAddr == b.VAddr && a.PAddr == b.PAddr && a.PageSize == b.PageSize &&
		a.Valid == b.Valid && a.DeviceID == b.DeviceID && a.Unified == b.Unified
}

func (s *sut) rawOf(k pageKey) rawKey { return rawKey{s.pids[k.pid], k.v} }

// stateFacts evaluates the invariants of the property on one state.
func (s *sut) stateFacts(sn *snapshot, r *ref) map[string]fact {
	out := map[string]fact{}
	add := func(f fact) { out[f.id()] = f }
	P := r.P
	mirror := map[uint64][]vm.Page{} // the implementation keys its records by vaddr; a repaired one may key by (pid, vaddr)
	for i, v := range sn.alloc.MirrorVAddrs {
		mirror[v] = append(mirror[v], sn.alloc.MirrorPages[i])
	}
	byFrame := map[uint64]pageKey{}
	keys := make([]pageKey, 0, len(r.pages))
	for k := range r.pages {
		keys = append(keys, k)
	}
	sort.Slice(keys, func(i, j int) bool {
		if keys[i].pid != keys[j].pid {
			return keys[i].pid < keys[j].pid
		}
		return keys[i].v < keys[j].v
	})
	known := map[rawKey]bool{}
	for _, k := range keys {
		rp := r.pages[k]
		raw := s.rawOf(k)
		known[raw] = true
		p, found := sn.pt[raw]
		obj := fmt.Sprintf("pid%d:%#x", k.pid, k.v)
		if !rp.live {
			if found {
				add(fact{kind: "freed-page-still-mapped", keys: []pageKey{k}, obj: obj,
					detail: fmt.Sprintf("page %s (page %d of freed buffer %d) is still in the page table -> paddr %#x", obj, rp.idx, rp.buf, p.PAddr)})
			}
			continue
		}
		if !found {
			add(fact{kind: "live-page-not-mapped", keys: []pageKey{k}, obj: obj,
				detail: fmt.Sprintf("live page %s (page %d of buffer %d) is not in the page table", obj, rp.idx, rp.buf)})
			continue
		}
		if !p.Valid || p.PID != raw.pid || p.VAddr != k.v || p.PageSize != P {
			add(fact{kind: "live-page-entry-corrupt", keys: []pageKey{k}, obj: obj, detail: fmt.Sprintf("%s -> %+v", obj, p)})
		}
		if p.PAddr%P != 0 {
			add(fact{kind: "frame-misaligned", keys: []pageKey{k}, obj: obj, detail: fmt.Sprintf("%s -> paddr %#x", obj, p.PAddr)})
			continue
		}
		fr := p.PAddr / P
		// "inside the memory of the device recorded for it": the memory of a
		// unified device is the union of its member GPUs' memories
		inside := false
		within := func(id int) bool {
			for _, d := range sn.devs {
				if d.id == id && d.typ != driver.VerifDeviceTypeUnifiedGPU && fr >= d.base && fr < d.base+d.n {
					return true
				}
			}
			return false
		}
		for _, d := range sn.devs {
			if uint64(d.id) != p.DeviceID {
				continue
			}
			if d.typ == driver.VerifDeviceTypeUnifiedGPU {
				for _, g := range d.unified {
					inside = inside || within(g)
				}
			} else {
				inside = within(d.id)
			}
		}
		if !inside {
			add(fact{kind: "frame-outside-recorded-device", keys: []pageKey{k}, obj: obj,
				detail: fmt.Sprintf("%s -> paddr %#x recorded on device %d, which does not hold that address (it lies on device %d)", obj, p.PAddr, p.DeviceID, sn.devOfFrame(fr))})
		}
		agree := false
		for _, m := range mirror[k.v] {
			agree = agree || samePage(m, p)
		}
		if !agree {
			add(fact{kind: "allocator-record-disagrees", keys: []pageKey{k}, obj: obj, latent: true,
				detail: fmt.Sprintf("page table has %s -> %+v but the allocator's record(s) for vaddr %#x are %+v", obj, p, k.v, mirror[k.v])})
		}
		if d := sn.devOfFrame(fr); d >= 0 && sn.free[d].has(fr) {
			add(fact{kind: "live-frame-reusable", keys: []pageKey{k}, obj: fmt.Sprintf("frame%#x", p.PAddr),
				detail: fmt.Sprintf("frame %#x backs live page %s and is in the free structure of device %d", p.PAddr, obj, d)})
		}
		if o, dup := byFrame[fr]; dup {
			add(fact{kind: "frame-aliased", keys: []pageKey{k, o}, obj: fmt.Sprintf("frame%#x", p.PAddr),
				detail: fmt.Sprintf("frame %#x backs two live pages: pid%d:%#x and %s", p.PAddr, o.pid, o.v, obj)})
		} else {
			byFrame[fr] = k
		}
	}
	for raw, p := range sn.pt {
		if !known[raw] {
			add(fact{kind: "unexpected-page-mapped", obj: fmt.Sprintf("raw%d:%#x", s.pidIdx(raw.pid), raw.v),
				detail: fmt.Sprintf("page table maps pid#%d vaddr %#x -> %#x although that page was never handed out", s.pidIdx(raw.pid), raw.v, p.PAddr)})
		}
	}
	for i, d := range sn.devs {
		f := sn.free[i]
		if f == nil {
			continue
		}
		for _, x := range f.dups {
			add(fact{kind: "free-list-duplicate", obj: fmt.Sprintf("frame%#x", x*P), keys: ownerKeys(r, x),
				detail: fmt.Sprintf("frame %#x is in the free structure of device %d more than once", x*P, d.id)})
		}
		for _, a := range f.misaligned {
			add(fact{kind: "free-frame-misaligned", obj: fmt.Sprintf("addr%#x", a), detail: fmt.Sprintf("device %d free structure holds %#x", d.id, a)})
		}
		for _, rn := range f.mrg {
			if rn.a < d.base || rn.a+rn.n > d.base+d.n {
				add(fact{kind: "free-frame-outside-device", obj: fmt.Sprintf("run%#x", rn.a*P),
					detail: fmt.Sprintf("device %d [%#x,%#x) has free run [%#x,%#x)", d.id, d.base*P, (d.base+d.n)*P, rn.a*P, (rn.a+rn.n)*P)})
			}
		}
	}
	// buffer bookkeeping of every context: the non-freed entries are exactly
	// the live buffers, in allocation order.
	for ci := range r.ctxPid {
		var want, got []string
		for _, b := range r.bufs {
			if b.ctx == ci && b.live {
				want = append(want, fmt.Sprintf("%#x+%d", b.vaddr, b.bytes))
			}
		}
		if ci < len(sn.ctxB) {
			for _, b := range sn.ctxB[ci] {
				if !b.Freed {
					got = append(got, fmt.Sprintf("%#x+%d", uint64(b.VAddr), b.Size))
				}
			}
		}
		if strings.Join(want, ",") != strings.Join(got, ",") {
			add(fact{kind: "context-buffer-list-wrong", obj: fmt.Sprintf("ctx%d", ci),
				detail: fmt.Sprintf("context %d records live buffers [%s], expected [%s]", ci, strings.Join(got, ","), strings.Join(want, ","))})
		}
	}
	s.buddyFacts(sn, r, add)
	return out
}

func ownerKeys(r *ref, frame uint64) []pageKey {
	if k, ok := r.owner[frame]; ok {
		return []pageKey{k}
	}
	return nil
}

// staleMergeBit reports whether any buddy device holds a merge bit that
// contradicts its free lists (cheap form of the merge-bit-stale fact).
func (s *sut) staleMergeBit(sn *snapshot, r *ref) bool {
	stale := false
	s.buddyFacts(sn, r, func(f fact) {
		if f.kind == "merge-bit-stale" {
			stale = true
		}
	})
	return stale
}

// buddyFacts checks the structural invariants of the buddy allocator: free
// blocks are aligned to their size, and a device without any allocated block
// is back to its initial structure (one block on level 0, both bit fields 0).
func (s *sut) buddyFacts(sn *snapshot, r *ref, add func(fact)) {
	for i := range sn.alloc.Devices {
		d := &sn.alloc.Devices[i]
		if !d.Buddy || int(d.Type) == driver.VerifDeviceTypeUnifiedGPU {
			continue
		}
		for l, lst := range d.BuddyFreeLists {
			size := d.StorageSize >> uint(l)
			for _, a := range lst {
				if size == 0 || a < d.InitialAddress || (a-d.InitialAddress)%size != 0 {
					add(fact{kind: "buddy-free-block-misplaced", obj: fmt.Sprintf("dev%d:l%d:%#x", d.ID, l, a),
						detail: fmt.Sprintf("device %d level %d (block size %#x) holds block %#x (base %#x)", d.ID, l, size, a, d.InitialAddress)})
				}
			}
		}
		// merge bits: the bit of a split node is (left child in use) XOR (right
		// child in use), where "in use" = not on the free list of its level; the
		// bit of an unsplit node is 0. freeBlock relies on exactly this.
		bit := func(f []uint64, i uint64) bool { return i/64 < uint64(len(f)) && f[i/64]&(1<<(i%64)) != 0 }
		onList := func(l int, a uint64) bool {
			if l >= len(d.BuddyFreeLists) {
				return false
			}
			for _, x := range d.BuddyFreeLists[l] {
				if x == a {
					return true
				}
			}
			return false
		}
		nodes := uint64(1)<<uint(len(d.BuddyFreeLists)-1) - 1 // internal nodes
		check := func(idx uint64) {
			if idx >= nodes {
				return
			}
			l := bits.Len64(idx+1) - 1
			j := idx + 1 - (1 << uint(l))
			want := false
			if bit(d.BuddySplit, idx) {
				cs := d.StorageSize >> uint(l+1)
				left := d.InitialAddress + 2*j*cs
				want = !onList(l+1, left) != !onList(l+1, left+cs)
			}
			if bit(d.BuddyMerge, idx) != want {
				add(fact{kind: "merge-bit-stale", obj: fmt.Sprintf("dev%d:node%d", d.ID, idx), latent: true,
					detail: fmt.Sprintf("device %d: merge bit of node %d (level %d, position %d, split=%v) is %v but exactly-one-child-in-use is %v; free lists %v",
						d.ID, idx, l, j, bit(d.BuddySplit, idx), bit(d.BuddyMerge, idx), want, d.BuddyFreeLists)})
			}
		}
		for wi := range d.BuddySplit {
			w := d.BuddySplit[wi]
			if wi < len(d.BuddyMerge) {
				w |= d.BuddyMerge[wi]
			}
			for ; w != 0; w &= w - 1 {
				check(uint64(wi)*64 + uint64(bits.TrailingZeros64(w)))
			}
		}
		if len(d.BuddyBlockAddr) == 0 {
			ok := len(d.BuddyFreeLists) > 0 && len(d.BuddyFreeLists[0]) == 1 && d.BuddyFreeLists[0][0] == d.InitialAddress
			for l := 1; l < len(d.BuddyFreeLists); l++ {
				ok = ok && len(d.BuddyFreeLists[l]) == 0
			}
			for _, w := range d.BuddySplit {
				ok = ok && w == 0
			}
			for _, w := range d.BuddyMerge {
				ok = ok && w == 0
			}
			if !ok {
				add(fact{kind: "buddy-not-fully-merged", obj: fmt.Sprintf("dev%d", d.ID),
					detail: fmt.Sprintf("device %d tracks no allocated block but its free lists are %v", d.ID, d.BuddyFreeLists)})
			}
		}
	}
}
