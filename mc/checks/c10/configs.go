package main

import "fmt"

// configs returns the searches of a tier. Every configuration is one
// explicit-state search; the alphabet is sliced so that each search stays
// exhaustive to its depth, and the slices together cover the whole alphabet
// (devices CPU / GPUs / unified, every size variant, every sub-range, every
// GPU list, one or two processes, contexts sharing a process).
func configs(thorough bool) []config {
	var out []config
	add := func(c config) {
		c.Name = fmt.Sprintf("%s/p%d", c.Name, c.Log2Page)
		if c.Buddy {
			c.Name += "/buddy"
		}
		out = append(out, c)
	}
	allSizes := []int{sz1Page, sz2Pages, sz3Pages, sz1Byte, szPagePlus1}
	type variant struct {
		log2  uint64
		buddy bool
	}
	vars := []variant{{16, false}, {12, true}, {14, false}, {12, false}} // cheapest first: under a time budget the dear ones are cut
	// depth table: [slice] -> {quick, thorough} for the variant class.
	// "wide" = 64 KiB pages and the buddy allocator (a transition costs 1-2 ms),
	// "dear" = 16 KiB and 4 KiB pages with the default allocator (the CPU device
	// of a fresh driver owns 256K / 1M frames, a transition costs 8 / 17 ms).
	type dq struct{ quick, deep int }
	wide := map[string]dq{"A": {5, 7}, "B": {4, 5}, "C": {4, 5}, "D": {4, 7}, "E": {4, 6}, "F": {5, 8}, "G": {2, 3}, "H": {4, 5}}
	dear := map[string]dq{"A": {4, 6}, "B": {3, 4}, "C": {3, 4}, "D": {4, 6}, "E": {4, 5}, "F": {5, 7}, "G": {2, 2}, "H": {3, 4}}
	maxBufsH := 2
	if thorough {
		maxBufsH = 3
	}
	for _, v := range vars {
		// sizes of the GPUs: the buddy allocator needs powers of two
		g1 := []int{4}
		g2 := []int{5, 6}
		g3 := []int{4, 7, 8}
		if v.buddy {
			g2 = []int{4, 8}
			g3 = []int{4, 8, 8}
		}
		d := func(slice string) int {
			t := wide
			if v.log2 < 16 && !v.buddy {
				t = dear
			}
			if thorough {
				return t[slice].deep
			}
			return t[slice].quick
		}
		// A: allocate / free on one GPU and the unified device, one process
		add(config{Name: "alloc-free-1gpu", Log2Page: v.log2, Buddy: v.buddy, GPUPages: g1, Unified: []int{1}, PreCtx: []int{0},
			Depth: d("A"), AllocDevs: []int{1, 2}, AllocSizes: allSizes, UnifiedSizes: []int{sz1Page, szPagePlus1}, Free: true, GC: true})
		// B: CPU + two GPUs + unified, one process
		add(config{Name: "alloc-free-cpu-2gpu", Log2Page: v.log2, Buddy: v.buddy, GPUPages: g2, Unified: []int{1, 2}, PreCtx: []int{0},
			Depth: d("B"), AllocDevs: []int{0, 1, 2, 3}, AllocSizes: []int{sz1Page, sz3Pages, szPagePlus1}, Free: true})
		// C: remap of every sub-range to every real device
		add(config{Name: "remap", Log2Page: v.log2, Buddy: v.buddy, GPUPages: g2, Unified: []int{1, 2}, PreCtx: []int{0},
			Depth: d("C"), AllocDevs: []int{1, 0}, AllocSizes: []int{sz1Page, sz3Pages}, Free: true,
			RemapDevs: []int{0, 1, 2}, RemapRanges: "all", MaxBufs: 3})
		// D: distribute over GPU lists
		add(config{Name: "distribute", Log2Page: v.log2, Buddy: v.buddy, GPUPages: g3, Unified: []int{1, 2, 3}, PreCtx: []int{0},
			Depth: d("D"), AllocDevs: []int{1}, AllocSizes: []int{sz2Pages, sz3Pages, sz1Byte, szPagePlus1}, Free: true,
			GPULists: [][]int{{1, 2}, {2, 1}, {1, 2, 3}, {2, 3}, {3}}, DistVariants: []int{distWhole, distFirstPage1}, MaxBufs: 3})
		// E: migration preparation
		add(config{Name: "migrate", Log2Page: v.log2, Buddy: v.buddy, GPUPages: g2, Unified: []int{1, 2}, PreCtx: []int{0},
			Depth: d("E"), AllocDevs: []int{1, 3}, AllocSizes: []int{sz1Page, sz2Pages}, UnifiedSizes: []int{sz2Pages}, Free: true,
			MigrateGPUs: []int{1, 2}, MaxBufs: 3})
		// F: two processes and contexts sharing a process, created by Init calls inside the history
		add(config{Name: "two-processes", Log2Page: v.log2, Buddy: v.buddy, GPUPages: g2, Unified: []int{1, 2},
			MaxProcs: 2, MaxCtx: 3, Depth: d("F"), AllocDevs: []int{1}, AllocSizes: []int{sz1Page, sz2Pages}, Free: true, GC: true,
			RemapDevs: []int{2}, RemapRanges: "whole", MaxBufs: 3})
		// H: the unified device as a TARGET of Remap and Distribute (the only way into
		// Device.allocateMultipleUnifiedGPUPages): pages recorded on the unified id whose
		// frames belong to a member GPU, then freed, re-homed again, and the GPUs re-filled
		add(config{Name: "remap-unified", Log2Page: v.log2, Buddy: v.buddy, GPUPages: []int{4, 4}, Unified: []int{1, 2}, PreCtx: []int{0},
			Depth: d("H"), AllocDevs: []int{1, 3}, AllocSizes: []int{sz1Page, sz3Pages}, Free: true,
			RemapDevs: []int{3, 1}, RemapRanges: "all", GPULists: [][]int{{3, 1}, {2, 3}}, DistVariants: []int{distWhole}, MaxBufs: maxBufsH})
		// G: everything at once, shallow
		add(config{Name: "full-alphabet", Log2Page: v.log2, Buddy: v.buddy, GPUPages: g2, Unified: []int{1, 2}, PreCtx: []int{0, 1},
			MaxProcs: 2, MaxCtx: 3, Depth: d("G"), AllocDevs: []int{0, 1, 2, 3}, AllocSizes: allSizes, UnifiedSizes: []int{sz1Page, szPagePlus1},
			Free: true, GC: true, RemapDevs: []int{0, 1, 2, 3}, RemapRanges: "all", GPULists: [][]int{{1, 2}, {2, 1}, {2}, {3, 1}},
			DistVariants: []int{distWhole, distFirstPage1}, MigrateGPUs: []int{1, 2}})
	}
	return out
}
