package main

import (
	"bytes"
	"crypto/sha256"
	"encoding/binary"
	"fmt"
	"regexp"
	"sort"
	"strings"

	"github.com/sarchlab/akita/v4/mem/vm"
	"github.com/sarchlab/mgpusim/v4/amd/driver"
)

// A violation found at one step.
type violation struct {
	sig    string
	msg    string
	latent bool // the page table / free structures are still right; the search continues below this state
}

// accepted outcomes that end a path without being violations
const (
	endNone = iota
	endViolation
	endBuddyFragmentation
)

type stepOutcome struct {
	viols    []violation
	end      int
	fp       [16]byte
	ops      []op
	infra    string
	describe string
}

func rawKeys(s *sut, ks []pageKey) map[rawKey]int {
	m := map[rawKey]int{}
	for i, k := range ks {
		m[s.rawOf(k)] = i
	}
	return m
}

// class is the context class of a violation: which known-fragile situation the
// call was made in. It is part of the signature so that the same symptom in a
// plain situation is a different (new) violation.
func (r *ref) class(o op, touched []pageKey, f fact, stolen, stale bool) string {
	// the buddy allocator already holds a merge bit that contradicts its free
	// lists: whatever goes wrong afterwards is a consequence
	if stale && f.kind != "merge-bit-stale" {
		return "stale-merge-bit"
	}
	// (a) the call's virtual address is recorded by the allocator for ANOTHER
	// process (the record is keyed by virtual address only), or (b) the fact is
	// about a page of another process at one of the call's virtual addresses
	if stolen {
		return "two-processes-same-vaddr"
	}
	if len(r.ctxPid) > int(o.Ctx) && o.K != opInit {
		me := r.ctxPid[o.Ctx]
		for _, k := range f.keys {
			if k.pid == me {
				continue
			}
			for _, t := range touched {
				if t.v == k.v {
					return "two-processes-same-vaddr"
				}
			}
		}
	}
	if o.K == opFree {
		if r.bufs[o.Buf].npages >= 2 {
			return "multi-page-buffer"
		}
		return "single-page-buffer"
	}
	return ""
}

// mirrorStolen reports whether the allocator's record for one of the call's
// virtual addresses belongs to another process.
func (s *sut) mirrorStolen(sn *snapshot, touched []pageKey) bool {
	for _, k := range touched {
		mine, others := false, false
		for i, v := range sn.alloc.MirrorVAddrs {
			if v == k.v {
				if sn.alloc.MirrorPages[i].PID == s.pids[k.pid] {
					mine = true
				} else {
					others = true
				}
			}
		}
		if others && !mine {
			return true
		}
	}
	return false
}

var digits = regexp.MustCompile(`[0-9]+`)

func (s *sut) mkSig(o op, class, anomaly string) string {
	sig := kindName[o.K] + "/"
	if strings.HasPrefix(anomaly, "out-of-memory-within-capacity") || anomaly == "allocator-record-of-other-process-overwritten" || anomaly == "merge-bit-stale" {
		sig = "" // the call that exposes these is incidental
		if class != "stale-merge-bit" && anomaly != "allocator-record-of-other-process-overwritten" {
			class = ""
		}
	}
	if class == "stale-merge-bit" {
		sig = "stale-merge-bit/" + sig // first, so that one prefix covers the consequences
		class = ""
	}
	if class != "" {
		sig += class + "/"
	}
	sig += anomaly
	if s.cfg.Buddy {
		sig = "buddy/" + sig
	}
	return sig
}

func isOOM(msg string) bool {
	return strings.Contains(msg, "out of memory") || strings.Contains(msg, "not enough memory available") ||
		strings.Contains(msg, "index out of range [0] with length 0") || strings.Contains(msg, "slice bounds out of range [1:0]")
}

// step applies op o in full-check mode.
func (s *sut) step(r *ref, o op, out *stepOutcome) {
	P := r.P
	s0 := s.snapshot()
	f0 := s.stateFacts(s0, r)
	staleBefore := r.tainted
	for _, f := range f0 {
		if f.kind == "merge-bit-stale" {
			staleBefore = true
		}
	}
	ownerBefore := make(map[uint64]pageKey, len(r.owner))
	for k, v := range r.owner {
		ownerBefore[k] = v
	}
	var liveBufsBefore []refBuf
	liveBufsBefore = append(liveBufsBefore, r.bufs...)
	pidsBefore := append([]vm.PID(nil), s.pids...)
	nctxBefore := len(s.ctxs)

	res := s.apply(r, o)

	var facts []fact
	addf := func(f fact) { facts = append(facts, f) }

	if res.panicked {
		touched := r.touched(o, nil)
		anomaly := "panic:" + digits.ReplaceAllString(res.panicMsg, "N")
		if isOOM(res.panicMsg) && (o.K == opAlloc || o.K == opAllocUnified || o.K == opRemap || o.K == opDistribute || o.K == opMigrate) {
			tags, codeFree, need := s.leakTags(s0, r, o)
			// buddy + unified target: the chunk is taken from ONE member GPU; when
			// another member holds a free block that is large enough, the refusal is
			// not fragmentation but the wrong choice of member
			otherMemberHasBlock := false
			if s.cfg.Buddy && s.unifiedTarget(o) {
				hasBlock := func(g, n int) bool {
					for _, b := range s0.free[g].ord {
						if int(b.n) >= n {
							return true
						}
					}
					return false
				}
				for _, g := range s.cfg.Unified {
					otherMemberHasBlock = otherMemberHasBlock || hasBlock(g, need)
				}
				if o.K == opDistribute {
					// the refusal may come from a real GPU of the list instead: blame the
					// unified entry only when every real GPU of the list could take the
					// whole range in one block
					n := pagesOf(r.distBytes(o), r.P)
					for _, g := range s.cfg.GPULists[o.GPUs] {
						if g != s.cfg.unifiedID() && !hasBlock(g, n) {
							otherMemberHasBlock = false
						}
					}
				}
			}
			if s.cfg.Buddy && !otherMemberHasBlock && (codeFree >= need || onlyTag(tags, "buddy-internal")) {
				out.end = endBuddyFragmentation
				out.describe = fmt.Sprintf("buddy allocator refused %s: %d frames free in blocks, %d needed (%s)", o, codeFree, need, res.panicMsg)
				r.update(o, res, s.finder(), s0.devOfFrame)
				return
			}
			anomaly = "out-of-memory-within-capacity/leaked-by:" + strings.Join(tags, "+")
			if (onlyTag(tags, "nothing") || onlyTag(tags, "buddy-internal")) && s.unifiedTarget(o) && codeFree >= need {
				// nothing leaked and the member GPUs together have the frames
				anomaly = "out-of-memory-within-capacity/unified-target/members-together-have-room"
			}
		}
		f := fact{kind: anomaly, detail: fmt.Sprintf("%s panicked: %s", o, res.panicMsg)}
		out.viols = append(out.viols, violation{sig: s.mkSig(o, r.class(o, touched, f, s.mirrorStolen(s0, touched), staleBefore), anomaly), msg: f.detail})
		out.end = endViolation
		r.update(o, res, s.finder(), s0.devOfFrame)
		return
	}

	s1 := s.snapshot()
	touched := r.touched(o, res)
	tr := rawKeys(s, touched)
	if o.K == opInit && len(s.pids) > 0 {
		// s.pids grew; nothing else to prepare
	}

	// ---- T1: pages the call is not entitled to change are unchanged
	allRaw := map[rawKey]struct{}{}
	for k := range s0.pt {
		allRaw[k] = struct{}{}
	}
	for k := range s1.pt {
		allRaw[k] = struct{}{}
	}
	for k := range allRaw {
		if _, ok := tr[k]; ok {
			continue
		}
		a, ina := s0.pt[k]
		b, inb := s1.pt[k]
		if ina == inb && a == b {
			continue
		}
		ck := pageKey{s.pidIdx(k.pid), k.v}
		kind := "untouched-page-changed"
		if o.K == opFree && ina && !inb && ck.pid >= 0 && ck.pid != r.ctxPid[o.Ctx] {
			kind = "unmaps-other-process"
		}
		addf(fact{kind: kind, keys: []pageKey{ck}, obj: fmt.Sprintf("pid%d:%#x", ck.pid, ck.v),
			detail: fmt.Sprintf("%s changed page pid%d:%#x, which it was not asked to touch: before %s, after %s", o, ck.pid, ck.v, pstr(a, ina), pstr(b, inb))})
	}

	// ---- T2: free structures change by exactly the frames of the call
	newFrames := map[uint64]pageKey{} // frames newly given to touched pages
	oldFrames := map[uint64]pageKey{} // frames the touched pages had before
	for _, k := range touched {
		raw := s.rawOf(k)
		a, ina := s0.pt[raw]
		b, inb := s1.pt[raw]
		if ina && a.PAddr%P == 0 {
			oldFrames[a.PAddr/P] = k
		}
		if inb && b.PAddr%P == 0 && !(ina && a.PAddr == b.PAddr) {
			newFrames[b.PAddr/P] = k
		}
	}
	for x, k := range newFrames {
		d := s0.devOfFrame(x)
		if _, recycled := oldFrames[x]; recycled && o.K != opAlloc && o.K != opAllocUnified {
			// a frame another page of the same call gave up (a re-homing call
			// that returns replaced frames may reuse them at once); aliasing
			// is still excluded by the frame-aliased invariant on the result
			continue
		}
		if d >= 0 && s.cfg.Buddy && !s0.free[d].has(x) && buddyInternal(s0, d, x, P) {
			if _, live := ownerBefore[x]; !live {
				// buddy: a frame handed back earlier (or padding) that was retained
				// until the rest of its block was handed back - which this very call
				// did before taking the frame again
				continue
			}
		}
		if d < 0 || !s0.free[d].has(x) {
			addf(fact{kind: "handed-out-frame-was-not-free", keys: []pageKey{k}, obj: fmt.Sprintf("frame%#x", x*P),
				detail: fmt.Sprintf("%s mapped pid%d:%#x to frame %#x, which was not in any device's free structure (device %d)", o, k.pid, k.v, x*P, d)})
		}
		if ow, taken := ownerBefore[x]; taken && ow != k {
			addf(fact{kind: "frame-handed-out-twice", keys: []pageKey{k, ow}, obj: fmt.Sprintf("frame%#x", x*P),
				detail: fmt.Sprintf("%s mapped pid%d:%#x to frame %#x, which still backs live page pid%d:%#x", o, k.pid, k.v, x*P, ow.pid, ow.v)})
		}
	}
	for i, d := range s0.devs {
		a0, a1 := s0.free[i], s1.free[i]
		if a0 == nil || a1 == nil {
			continue
		}
		gained, ng := minus(a1, a0, 16)
		lost, nl := minus(a0, a1, 16)
		switch o.K {
		case opFree:
			for x, k := range oldFrames {
				if s0.devOfFrame(x) != d.id {
					continue
				}
				if !a1.has(x) {
					kind := "first-frame-not-reusable"
					if rp := r.pages[k]; rp != nil && rp.idx > 0 {
						kind = "tail-frames-not-reusable"
					}
					addf(fact{kind: kind, keys: []pageKey{k}, obj: fmt.Sprintf("frame%#x", x*P),
						detail: fmt.Sprintf("%s: frame %#x of page pid%d:%#x was not returned to device %d", o, x*P, k.pid, k.v, d.id)})
				}
			}
			for _, x := range gained {
				if _, ok := oldFrames[x]; ok {
					continue
				}
				if ow, live := ownerBefore[x]; live {
					kind := "makes-live-frame-reusable"
					if ow.pid != r.ctxPid[o.Ctx] {
						kind = "makes-other-process-frame-reusable"
					}
					addf(fact{kind: kind, keys: []pageKey{ow}, obj: fmt.Sprintf("frame%#x", x*P),
						detail: fmt.Sprintf("%s put frame %#x into the free structure of device %d although it backs live page pid%d:%#x", o, x*P, d.id, ow.pid, ow.v)})
				} else if !s.cfg.Buddy {
					addf(fact{kind: "wrong-frames-made-reusable", obj: fmt.Sprintf("frame%#x", x*P),
						detail: fmt.Sprintf("%s put frame %#x into the free structure of device %d; it does not belong to the freed buffer", o, x*P, d.id)})
				}
			}
			if nl > 0 {
				addf(fact{kind: "free-frames-lost", obj: fmt.Sprintf("dev%d", d.id), detail: fmt.Sprintf("%s removed %d frames from the free structure of device %d: %s", o, nl, d.id, hexs(lost, P))})
			}
			if !s.cfg.Buddy {
				exp := a0.total
				for x := range oldFrames {
					if s0.devOfFrame(x) == d.id {
						exp++
					}
				}
				if a1.total != exp && len(facts) == 0 {
					addf(fact{kind: "free-list-length-wrong", obj: fmt.Sprintf("dev%d", d.id), detail: fmt.Sprintf("%s: device %d free list has %d entries, expected %d", o, d.id, a1.total, exp)})
				}
			}
		case opAlloc, opAllocUnified, opRemap, opDistribute, opMigrate:
			k := 0
			for x := range newFrames {
				if s0.devOfFrame(x) == d.id {
					k++
				}
			}
			for _, x := range lost {
				if _, ok := newFrames[x]; !ok {
					if _, live := ownerBefore[x]; s.cfg.Buddy && !live && int(nl) < 2*k {
						continue // padding of a power-of-two block
					}
					addf(fact{kind: "free-frames-lost", obj: fmt.Sprintf("frame%#x", x*P),
						detail: fmt.Sprintf("%s removed frame %#x from the free structure of device %d without mapping it (%d lost in all)", o, x*P, d.id, nl)})
				}
			}
			for _, x := range gained {
				if _, ok := oldFrames[x]; ok && o.K != opAlloc && o.K != opAllocUnified {
					continue // returning the replaced frames is what a re-homing call should do
				}
				if _, live := r.owner[x]; s.cfg.Buddy && !live && o.K != opAlloc && o.K != opAllocUnified {
					continue // padding of a power-of-two block that was released with the replaced frames
				}
				addf(fact{kind: "unexpected-frames-made-reusable", keys: ownerKeysIn(ownerBefore, x), obj: fmt.Sprintf("frame%#x", x*P),
					detail: fmt.Sprintf("%s put frame %#x into the free structure of device %d (%d gained in all)", o, x*P, d.id, ng)})
			}
		default:
			if ng+nl > 0 {
				addf(fact{kind: "free-structure-changed", obj: fmt.Sprintf("dev%d", d.id),
					detail: fmt.Sprintf("%s changed the free structure of device %d: gained %s lost %s", o, d.id, hexs(gained, P), hexs(lost, P))})
			}
		}
	}

	// ---- T3: what the call returned and where it put the pages
	devOfKey := func(k pageKey) (int, vm.Page, bool) {
		p, ok := s1.pt[s.rawOf(k)]
		if !ok || p.PAddr%P != 0 {
			return -1, p, ok
		}
		return s1.devOfFrame(p.PAddr / P), p, true
	}
	onTarget := func(k pageKey, allowed []int) {
		d, p, ok := devOfKey(k)
		if !ok {
			return // reported as live-page-not-mapped
		}
		for _, a := range allowed {
			if a == d {
				return
			}
		}
		addf(fact{kind: "not-on-requested-device", keys: []pageKey{k}, obj: fmt.Sprintf("pid%d:%#x", k.pid, k.v),
			detail: fmt.Sprintf("%s: page pid%d:%#x is on device %d (paddr %#x), requested %v", o, k.pid, k.v, d, p.PAddr, allowed)})
	}
	switch o.K {
	case opInit:
		np := s.pids[len(s.pids)-1]
		for _, q := range pidsBefore {
			if q == np {
				addf(fact{kind: "pid-reused", obj: "pid", detail: fmt.Sprintf("Init returned pid %d, already in use", np)})
			}
		}
	case opInitPID:
		if driver.VerifContextPID(s.ctxs[nctxBefore]) != driver.VerifContextPID(s.ctxs[o.Ctx]) {
			addf(fact{kind: "pid-differs", obj: "pid", detail: "InitWithExistingPID returned a context with another pid"})
		}
	case opAlloc, opAllocUnified:
		pid := r.ctxPid[o.Ctx]
		n := uint64(len(touched))
		if res.ptr%P != 0 {
			addf(fact{kind: "pointer-not-page-aligned", obj: "ptr", detail: fmt.Sprintf("%s returned %#x", o, res.ptr)})
		}
		for bi, b := range liveBufsBefore {
			if b.live && b.pid == pid && res.ptr < b.vaddr+uint64(b.npages)*P && b.vaddr < res.ptr+n*P {
				addf(fact{kind: "overlaps-live-buffer", keys: []pageKey{{pid, b.vaddr}}, obj: fmt.Sprintf("buf%d", bi),
					detail: fmt.Sprintf("%s returned [%#x,%#x), overlapping live buffer %d [%#x,%#x) of the same process", o, res.ptr, res.ptr+n*P, bi, b.vaddr, b.vaddr+uint64(b.npages)*P)})
			}
		}
		var allowed []int
		switch {
		case o.K == opAllocUnified:
			for _, d := range s1.devs {
				if d.typ != driver.VerifDeviceTypeUnifiedGPU {
					allowed = append(allowed, d.id)
				}
			}
		case int(o.Dev) == s.cfg.unifiedID():
			allowed = s.cfg.Unified
		default:
			allowed = []int{int(o.Dev)}
		}
		for _, k := range touched {
			onTarget(k, allowed)
			if p, ok := s1.pt[s.rawOf(k)]; ok && p.Unified != (o.K == opAllocUnified) {
				addf(fact{kind: "unified-flag-wrong", keys: []pageKey{k}, obj: fmt.Sprintf("pid%d:%#x", k.pid, k.v), detail: fmt.Sprintf("%s: page %+v", o, p)})
			}
		}
	case opFree:
		if res.err != nil {
			addf(fact{kind: "returned-error", obj: "err", detail: fmt.Sprintf("%s returned %v", o, res.err)})
		}
	case opRemap:
		for _, k := range touched {
			if int(o.Dev) == s.cfg.unifiedID() {
				onTarget(k, s.cfg.Unified)
			} else {
				onTarget(k, []int{int(o.Dev)})
			}
		}
	case opDistribute:
		gl := s.cfg.GPULists[o.GPUs]
		bytes := r.distBytes(o)
		if len(gl) == 1 {
			if len(res.ret) != 1 || res.ret[0] != bytes {
				addf(fact{kind: "returned-byte-counts-wrong", obj: "ret", detail: fmt.Sprintf("%s returned %v", o, res.ret)})
			}
			break
		}
		cnt := make([]uint64, len(gl))
		var allowed []int // a unified device in the list stands for its member GPUs
		for _, g := range gl {
			if g == s.cfg.unifiedID() {
				allowed = append(allowed, s.cfg.Unified...)
			} else {
				allowed = append(allowed, g)
			}
		}
		for _, k := range touched {
			onTarget(k, allowed)
			_, pg, ok := devOfKey(k)
			for i, g := range gl {
				if ok && uint64(g) == pg.DeviceID { // by the device RECORDED for the page: that is the list entry it was given to
					cnt[i] += P
				}
			}
		}
		okRet := len(res.ret) == len(gl)
		for i := range gl {
			okRet = okRet && res.ret[i] == cnt[i]
		}
		if !okRet {
			addf(fact{kind: "returned-byte-counts-wrong", obj: "ret",
				detail: fmt.Sprintf("%s over GPUs %v returned %v but the pages ended up as %v bytes per GPU", o, gl, res.ret, cnt)})
		}
	case opMigrate:
		k := touched[0]
		raw := s.rawOf(k)
		onTarget(k, []int{int(o.Dev)})
		if p, ok := s1.pt[raw]; ok {
			if !p.IsMigrating {
				addf(fact{kind: "not-marked-migrating", keys: []pageKey{k}, obj: "page", detail: fmt.Sprintf("%s: page %+v", o, p)})
			}
			if p != res.page {
				addf(fact{kind: "returned-page-differs", keys: []pageKey{k}, obj: "page", detail: fmt.Sprintf("%s returned %+v, page table has %+v", o, res.page, p)})
			}
		}
		if a, ok := s0.pt[raw]; ok && a.PAddr != res.oldPAddr {
			addf(fact{kind: "old-paddr-wrong", keys: []pageKey{k}, obj: "old", detail: fmt.Sprintf("%s returned old paddr %#x, page was at %#x", o, res.oldPAddr, a.PAddr)})
		}
	}

	// ---- state invariants: new facts only
	r.update(o, res, s.finder(), s1.devOfFrame)
	f1 := s.stateFacts(s1, r)
	ids := make([]string, 0, len(f1))
	for id := range f1 {
		if _, inherited := f0[id]; !inherited {
			ids = append(ids, id)
		}
	}
	sort.Strings(ids)
	explained := map[string]bool{}
	for _, f := range facts {
		explained[f.obj] = true
	}
	for _, id := range ids {
		f := f1[id]
		// rename by the role of the page in this call
		if o.K == opFree && f.kind == "freed-page-still-mapped" && len(f.keys) == 1 {
			if i, ok := tr[s.rawOf(f.keys[0])]; ok {
				if i == 0 {
					f.kind = "first-page-stays-mapped"
				} else {
					f.kind = "tail-pages-stay-mapped"
				}
			}
		}
		if f.kind == "live-page-not-mapped" && explained[f.obj] {
			continue // already reported as a change to an untouched page
		}
		if f.kind == "live-frame-reusable" && explained[f.obj] {
			continue
		}
		if o.K != opFree && f.kind == "allocator-record-disagrees" && len(f.keys) == 1 {
			if _, mine := tr[s.rawOf(f.keys[0])]; !mine {
				f.kind = "allocator-record-of-other-process-overwritten"
			}
		}
		facts = append(facts, f)
	}

	// ---- differential: nothing besides the facts above is needed to state
	// the violations; turn them into signatures
	sort.SliceStable(facts, func(i, j int) bool { return facts[i].kind < facts[j].kind })
	seenSig := map[string]bool{}
	stolen := s.mirrorStolen(s0, touched)
	for _, f := range facts {
		sig := s.mkSig(o, r.class(o, touched, f, stolen, staleBefore), f.kind)
		if seenSig[sig] {
			continue
		}
		seenSig[sig] = true
		out.viols = append(out.viols, violation{sig: sig, msg: f.detail, latent: f.latent})
		if !f.latent {
			out.end = endViolation
		}
	}
	for _, f := range f1 {
		if f.kind == "merge-bit-stale" {
			r.tainted = true
		}
	}
	out.fp = s.fingerprint(s1, r)
	if out.end == endNone {
		out.ops = r.enabled()
	}
}

// buddyInternal: frame x of buddy device d is neither on a free list nor
// tracked as allocated (padding of a block, or handed back and retained).
func buddyInternal(sn *snapshot, d int, x, P uint64) bool {
	for _, a := range sn.alloc.Devices[d].BuddyBlockAddr {
		if a/P == x {
			return false
		}
	}
	return !sn.free[d].has(x)
}

func ownerKeysIn(m map[uint64]pageKey, x uint64) []pageKey {
	if k, ok := m[x]; ok {
		return []pageKey{k}
	}
	return nil
}

// unifiedTarget: the call allocates frames through the unified device.
func (s *sut) unifiedTarget(o op) bool {
	u := s.cfg.unifiedID()
	switch o.K {
	case opAlloc, opRemap:
		return int(o.Dev) == u
	case opDistribute:
		for _, g := range s.cfg.GPULists[o.GPUs] {
			if g == u {
				return true
			}
		}
	}
	return false
}

func onlyTag(tags []string, t string) bool {
	for _, x := range tags {
		if x != t {
			return false
		}
	}
	return len(tags) > 0
}

func pstr(p vm.Page, ok bool) string {
	if !ok {
		return "<unmapped>"
	}
	return fmt.Sprintf("{paddr %#x dev %d valid %v unified %v migrating %v}", p.PAddr, p.DeviceID, p.Valid, p.Unified, p.IsMigrating)
}

func hexs(xs []uint64, P uint64) string {
	var s []string
	for _, x := range xs {
		s = append(s, fmt.Sprintf("%#x", x*P))
	}
	return "[" + strings.Join(s, " ") + "]"
}

// leakTags explains an out-of-memory panic: which frames of the target
// device(s) are neither free nor backing a live page, and how their last
// mapping ended. It also returns the number of frames the implementation
// itself considers free there and the number the call needs.
func (s *sut) leakTags(sn *snapshot, r *ref, o op) (tags []string, codeFree, need int) {
	c := s.cfg
	var devs []int
	switch o.K {
	case opAlloc:
		need = pagesOf(sizeBytes(int(o.Size), r.P), r.P)
		if int(o.Dev) == c.unifiedID() {
			devs = c.Unified
		} else {
			devs = []int{int(o.Dev)}
		}
	case opAllocUnified:
		need = pagesOf(sizeBytes(int(o.Size), r.P), r.P)
		devs = []int{1}
	case opRemap:
		need = int(o.Hi - o.Lo)
		devs = []int{int(o.Dev)}
		if int(o.Dev) == c.unifiedID() {
			devs = c.Unified
		}
	case opDistribute:
		need = 1
		for _, g := range c.GPULists[o.GPUs] {
			if g == c.unifiedID() {
				devs = append(devs, c.Unified...)
			} else {
				devs = append(devs, g)
			}
		}
	case opMigrate:
		need = 1
		devs = []int{int(o.Dev)}
	}
	set := map[string]bool{}
	for _, d := range devs {
		if d == 0 {
			continue
		}
		di := sn.devs[d]
		codeFree += int(sn.free[d].count())
		// buddy allocator: a frame without a block-tracking entry that is not
		// free is either padding of a power-of-two block or was handed back
		// already and is retained until the rest of its block is handed back;
		// both are inherent to the design. A frame that still HAS its entry
		// was never handed back: a leak.
		tracked := map[uint64]bool{}
		for _, a := range sn.alloc.Devices[d].BuddyBlockAddr {
			tracked[a/r.P] = true
		}
		for x := di.base; x < di.base+di.n; x++ {
			if sn.free[d].has(x) {
				continue
			}
			if _, live := r.owner[x]; live {
				continue
			}
			t, ok := r.lastUnmap[x]
			if !ok {
				t = "never-mapped"
			}
			if c.Buddy && !tracked[x] {
				t = "buddy-internal"
			}
			set[t] = true
		}
	}
	for t := range set {
		tags = append(tags, t)
	}
	sort.Strings(tags)
	if len(tags) > 1 { // a genuine leak next to inherent buddy padding: name the leak
		var t2 []string
		for _, t := range tags {
			if t != "buddy-internal" {
				t2 = append(t2, t)
			}
		}
		tags = t2
	}
	if len(tags) == 0 {
		tags = []string{"nothing"}
	}
	return
}

// ---------------------------------------------------------------------------
// Canonical fingerprint of (driver state, reference state)

type canon struct{ bytes.Buffer }

func (c *canon) u(xs ...uint64) {
	var b [8]byte
	for _, x := range xs {
		binary.LittleEndian.PutUint64(b[:], x)
		c.Write(b[:])
	}
}
func (c *canon) b(v bool) {
	if v {
		c.WriteByte(1)
	} else {
		c.WriteByte(0)
	}
}
func (c *canon) tag(s string) { c.WriteString(s); c.WriteByte(0) }

func (s *sut) canonPID(p vm.PID) uint64 {
	if i := s.pidIdx(p); i >= 0 {
		return uint64(i)
	}
	return 1<<32 | uint64(p)
}

func (c *canon) page(s *sut, p vm.Page) {
	c.u(s.canonPID(p.PID), p.VAddr, p.PAddr, p.PageSize, p.DeviceID)
	c.b(p.Valid)
	c.b(p.Unified)
	c.b(p.IsMigrating)
	c.b(p.IsPinned)
}

func (s *sut) fingerprint(sn *snapshot, r *ref) [16]byte {
	var c canon
	c.tag("ctx")
	c.u(uint64(len(sn.ctxB)))
	for i := range sn.ctxB {
		c.u(uint64(r.ctxPid[i]), uint64(sn.ctxG[i]), uint64(len(sn.ctxB[i])))
		for _, b := range sn.ctxB[i] {
			c.u(uint64(b.VAddr), b.Size)
			c.b(b.Freed)
			c.b(b.L2Dirty)
		}
	}
	c.tag("alloc")
	c.u(sn.alloc.TotalStorageByteSize, sn.alloc.Log2PageSize)
	type cur struct{ pid, next uint64 }
	var cs []cur
	for i, p := range sn.alloc.PIDs {
		cs = append(cs, cur{s.canonPID(p), sn.alloc.NextVAddrs[i]})
	}
	sort.Slice(cs, func(i, j int) bool { return cs[i].pid < cs[j].pid })
	for _, x := range cs {
		c.u(x.pid, x.next)
	}
	c.tag("mirror")
	for i, v := range sn.alloc.MirrorVAddrs {
		c.u(v)
		c.page(s, sn.alloc.MirrorPages[i])
	}
	c.tag("pt")
	type pe struct {
		pid uint64
		p   vm.Page
	}
	var ps []pe
	for k, p := range sn.pt {
		ps = append(ps, pe{s.canonPID(k.pid), p})
	}
	sort.Slice(ps, func(i, j int) bool {
		if ps[i].pid != ps[j].pid {
			return ps[i].pid < ps[j].pid
		}
		return ps[i].p.VAddr < ps[j].p.VAddr
	})
	for _, x := range ps {
		c.page(s, x.p)
	}
	c.tag("dev")
	for i := range sn.alloc.Devices {
		d := &sn.alloc.Devices[i]
		c.u(uint64(d.ID), uint64(d.Type), d.InitialAddress, d.StorageSize, uint64(d.NextActualGPUIndex), uint64(len(d.UnifiedGPUIDs)))
		for _, g := range d.UnifiedGPUIDs {
			c.u(uint64(g))
		}
		if d.Buddy {
			for _, l := range d.BuddyFreeLists {
				c.u(uint64(len(l)))
				c.u(l...)
			}
			for wi, w := range d.BuddySplit {
				if w != 0 {
					c.u(uint64(wi), w)
				}
			}
			c.tag("m")
			for wi, w := range d.BuddyMerge {
				if w != 0 {
					c.u(uint64(wi), w)
				}
			}
			c.tag("b")
			for bi, a := range d.BuddyBlockAddr {
				b := d.BuddyBlocks[bi]
				c.u(a, uint64(b.TrackerID), b.InitialAddr, uint64(b.NumOfPages))
			}
		} else if f := sn.free[i]; f != nil {
			c.u(f.total, uint64(len(f.ord)))
			for _, rn := range f.ord {
				c.u(rn.a, rn.n)
			}
			c.u(f.misaligned...)
		}
	}
	c.tag("ref")
	c.b(r.tainted)
	c.u(uint64(r.nProcs))
	for _, b := range r.bufs {
		c.u(uint64(b.ctx), uint64(b.pid), b.vaddr, b.bytes)
		c.b(b.live)
		c.b(b.gced)
	}
	keys := make([]pageKey, 0, len(r.pages))
	for k := range r.pages {
		keys = append(keys, k)
	}
	sort.Slice(keys, func(i, j int) bool {
		if keys[i].pid != keys[j].pid {
			return keys[i].pid < keys[j].pid
		}
		return keys[i].v < keys[j].v
	})
	for _, k := range keys {
		rp := r.pages[k]
		c.u(uint64(k.pid), k.v, uint64(rp.buf), uint64(rp.idx), rp.frame, uint64(int64(rp.dev)))
		c.b(rp.live)
	}
	c.tag("leak")
	var lk []uint64
	for x := range r.lastUnmap {
		if _, live := r.owner[x]; live {
			continue
		}
		if d := sn.devOfFrame(x); d >= 0 && sn.free[d].has(x) {
			continue
		}
		lk = append(lk, x)
	}
	sort.Slice(lk, func(i, j int) bool { return lk[i] < lk[j] })
	for _, x := range lk {
		c.u(x)
		c.tag(r.lastUnmap[x])
	}
	h := sha256.Sum256(c.Bytes())
	var out [16]byte
	copy(out[:], h[:16])
	return out
}
