// C10: device memory management never aliases pages or corrupts mappings.
//
// Explicit-state breadth-first search over histories of driver API calls on
// the REAL driver.Driver (public builder, a real akita page table behind a
// recording proxy). A state is the history that reaches it; a successor is
// produced by replaying the history on a fresh driver and issuing one more
// call. States are deduplicated by a canonical fingerprint of the complete
// allocator / page table / context state; the invariants of the property are
// evaluated in every state and across every transition.
package main

import (
	"encoding/json"
	"fmt"
	"os"
	"reflect"
	"runtime/debug"
	"runtime/pprof"
	"sort"
	"strings"
	"time"

	"github.com/sarchlab/mgpusim/v4/amd/driver"

	"verif/mc/harness"
)

type replayCase struct {
	Config  string `json:"config"`
	History []op   `json:"history"`
	Text    string `json:"text"`
}

// runHistory replays hist on a fresh driver. Every call but the last is
// applied with the reference model only observing; the last one is checked in
// full. With all=true every step is checked in full (replay mode).
func runHistory(c *config, hist []op, all bool, log func(string)) (out stepOutcome) {
	defer func() {
		if e := recover(); e != nil {
			out.infra = fmt.Sprintf("harness panic on %s: %v", histString(hist), e)
		}
	}()
	s := newSUT(c)
	r := newRef(c)
	n := len(hist)
	if n == 0 {
		sn := s.snapshot()
		for _, f := range s.stateFacts(sn, r) {
			out.viols = append(out.viols, violation{sig: "initial/" + f.kind, msg: f.detail})
			out.end = endViolation
		}
		out.fp = s.fingerprint(sn, r)
		out.ops = r.enabled()
		return
	}
	var pre *snapshot
	for i, o := range hist[:n-1] {
		if i == n-2 && hist[n-1].K == opFree && (o.K == opAlloc || o.K == opAllocUnified) && int(hist[n-1].Buf) == len(r.bufs) {
			pre = s.snapshot()
		}
		if all {
			var so stepOutcome
			s.step(r, o, &so)
			if log != nil {
				log(fmt.Sprintf("step %d %s", i+1, o))
				for _, v := range so.viols {
					log(fmt.Sprintf("   %s: %s", v.sig, v.msg))
				}
			}
			if so.end != endNone {
				out = so
				return
			}
			continue
		}
		res := s.apply(r, o)
		if res.panicked {
			out.infra = fmt.Sprintf("prefix call %s of %s panicked on replay: %s", o, histString(hist), res.panicMsg)
			return
		}
		r.update(o, res, s.finder(), s.devOfFrame)
		if c.Buddy && !r.tainted {
			r.tainted = s.staleMergeBit(s.snapshot(), r)
		}
	}
	last := hist[n-1]
	s.step(r, last, &out)
	if log != nil {
		log(fmt.Sprintf("step %d %s", n, last))
		for _, v := range out.viols {
			log(fmt.Sprintf("   %s: %s", v.sig, v.msg))
		}
		if out.describe != "" {
			log("   " + out.describe)
		}
	}
	if pre != nil && out.end == endNone {
		// differential: allocate + free is a detour back to the same abstract state
		post := s.snapshot()
		if d := abstractDiff(pre, post, c); d != "" {
			pre := ""
			if c.Buddy {
				pre = "buddy/"
				if r.tainted {
					pre = "buddy/stale-merge-bit/"
				}
			}
			out.viols = append(out.viols, violation{sig: pre + "detour/alloc-free/" + d,
				msg: fmt.Sprintf("after %s; %s the state differs from the state before the two calls: %s", hist[n-2], last, d)})
			out.end = endViolation
		}
	}
	return
}

// abstractDiff compares what allocate-then-free must restore: the page table,
// the set of free frames of every device, and for the buddy allocator the
// whole structure (lists, bit fields, block tracking).
func abstractDiff(a, b *snapshot, c *config) string {
	if !reflect.DeepEqual(a.pt, b.pt) {
		return "page-table"
	}
	for i := range a.free {
		if a.free[i] == nil {
			continue
		}
		if !reflect.DeepEqual(a.free[i].mrg, b.free[i].mrg) {
			return "free-frame-set"
		}
		da, db := &a.alloc.Devices[i], &b.alloc.Devices[i]
		if c.Buddy && !(sameLevels(da.BuddyFreeLists, db.BuddyFreeLists) && reflect.DeepEqual(da.BuddySplit, db.BuddySplit) &&
			reflect.DeepEqual(da.BuddyMerge, db.BuddyMerge) && reflect.DeepEqual(da.BuddyBlocks, db.BuddyBlocks)) {
			return "buddy-structure"
		}
	}
	return ""
}

// sameLevels compares buddy free lists level by level as SETS: allocation
// takes the front and release appends, so a detour may rotate a level.
func sameLevels(a, b [][]uint64) bool {
	if len(a) != len(b) {
		return false
	}
	for i := range a {
		x, y := append([]uint64(nil), a[i]...), append([]uint64(nil), b[i]...)
		sort.Slice(x, func(i, j int) bool { return x[i] < x[j] })
		sort.Slice(y, func(i, j int) bool { return y[i] < y[j] })
		if !reflect.DeepEqual(x, y) {
			return false
		}
	}
	return true
}

type trans struct {
	fp    [16]byte
	end   int
	viols []violation
	infra string
	desc  string
}

type totals struct {
	states, transitions, terminal, fragment int64
	perDepth                                 []int64
}

var observations = map[string]string{}

// enabledAfter replays hist (reference model observing) and returns the valid
// calls of the state it reaches. It is what the last step of runHistory
// computes for the same history; states keep only (parent, call), and their
// enabled calls are recomputed when they are expanded.
func enabledAfter(c *config, hist []op) (ops []op, infra string) {
	defer func() {
		if e := recover(); e != nil {
			infra = fmt.Sprintf("harness panic on %s: %v", histString(hist), e)
		}
	}()
	s := newSUT(c)
	r := newRef(c)
	for _, o := range hist {
		res := s.apply(r, o)
		if res.panicked {
			return nil, fmt.Sprintf("prefix call %s of %s panicked on replay: %s", o, histString(hist), res.panicMsg)
		}
		r.update(o, res, s.finder(), s.devOfFrame)
	}
	return r.enabled(), ""
}

// stateRec is all that is kept of a state: the state it was first reached
// from and the call that reached it (12 bytes; the history is the path to the
// root). The seen-set keeps 16-byte fingerprints only.
type stateRec struct {
	parent int32
	o      op
}

const expandChunk = 1024 // states expanded in parallel between two sequential merges: bounds the buffered results

func search(r *harness.Run, c *config) (tot totals, complete bool) {
	driver.VerifSetBuddyAllocator(c.Buddy)
	start := time.Now()
	root := runHistory(c, nil, false, nil)
	if root.infra != "" {
		r.Infra("%s: %s", c.Name, root.infra)
		return tot, false
	}
	for _, v := range root.viols {
		r.Report(v.sig, v.msg, replayCase{Config: c.Name})
	}
	seen := map[[16]byte]struct{}{root.fp: {}}
	tot.states = 1
	var arena []stateRec // every expandable state below the root
	histOf := func(idx int32) []op {
		n := 0
		for i := idx; i >= 0; i = arena[i].parent {
			n++
		}
		h := make([]op, n)
		for i := idx; i >= 0; i = arena[i].parent {
			n--
			h[n] = arena[i].o
		}
		return h
	}
	frontier := []int32{-1} // -1 = the root
	complete = true
	type expansion struct {
		ops []op
		res []trans
	}
	for depth := 1; depth <= c.Depth && len(frontier) > 0 && complete; depth++ {
		var next []int32
		var newStates int64
		for lo := 0; lo < len(frontier) && complete; lo += expandChunk {
			hi := lo + expandChunk
			if hi > len(frontier) {
				hi = len(frontier)
			}
			chunk := frontier[lo:hi]
			exp := make([]*expansion, len(chunk))
			done := r.ForEach(len(chunk), func(i int) {
				h := histOf(chunk[i])
				e := &expansion{}
				if chunk[i] < 0 {
					e.ops = root.ops
				} else {
					var infra string
					if e.ops, infra = enabledAfter(c, h); infra != "" {
						e.res = []trans{{infra: infra}}
						e.ops = []op{{}}
						exp[i] = e
						return
					}
				}
				e.res = make([]trans, len(e.ops))
				for j, o := range e.ops {
					so := runHistory(c, append(h[:len(h):len(h)], o), false, nil)
					e.res[j] = trans{fp: so.fp, end: so.end, viols: so.viols, infra: so.infra, desc: so.describe}
				}
				exp[i] = e
			})
			for i := range chunk {
				if exp[i] == nil {
					continue // cut by the time budget
				}
				for j, t := range exp[i].res {
					o := exp[i].ops[j]
					if t.infra != "" {
						r.Infra("%s: %s", c.Name, t.infra)
						continue
					}
					tot.transitions++
					if len(t.viols) > 0 {
						h := append(histOf(chunk[i]), o)
						for _, v := range t.viols {
							r.Report(v.sig, v.msg+"\nhistory: "+histString(h), replayCase{Config: c.Name, History: h, Text: histString(h)})
						}
					}
					if t.end == endBuddyFragmentation {
						tot.fragment++
						continue
					}
					if _, ok := seen[t.fp]; ok {
						continue
					}
					seen[t.fp] = struct{}{}
					tot.states++
					newStates++
					if t.end != endNone {
						tot.terminal++
						continue
					}
					if depth < c.Depth {
						arena = append(arena, stateRec{parent: chunk[i], o: o})
						next = append(next, int32(len(arena)-1))
					}
					if tot.states%97 == 5 {
						h := append(histOf(chunk[i]), o)
						r.Sample(map[string]any{"config": c.Name, "history": histString(h), "fingerprint": fmt.Sprintf("%x", t.fp)})
					}
				}
			}
			if !done {
				complete = false
			}
		}
		tot.perDepth = append(tot.perDepth, newStates)
		frontier = next
	}
	fmt.Printf("config %-34s depth=%d states=%d transitions=%d violating-terminal=%d buddy-refusals=%d new-per-depth=%v complete=%v %.1fs\n",
		c.Name, c.Depth, tot.states, tot.transitions, tot.terminal, tot.fragment, tot.perDepth, complete, time.Since(start).Seconds())
	return
}

var gcBallast []byte

func main() {
	r := harness.Start("C10", "model_checking")
	// Every transition builds a fresh driver whose CPU device owns 4 GiB worth
	// of page frames (up to 40 MB of short-lived slices); the live heap is
	// tiny, so a proportional GC trigger would collect every few transitions.
	// GC pacing by an untouched (hence non-resident) 1 GiB ballast: the collector
	// runs whenever ~1 GiB of garbage has accumulated, the freed spans are reused,
	// and the resident set stays around 2 GB. The soft limit is only a safety net
	// (pacing by the limit alone makes the runtime return and re-fault pages all
	// the time, which serialises the workers).
	gcBallast = make([]byte, 1<<30)
	debug.SetGCPercent(100)
	debug.SetMemoryLimit(3500 << 20)
	cfgs := configs(r.Thorough())
	if only := os.Getenv("C10_ONLY"); only != "" { // development aid: run the configurations whose name contains the string
		var sel []config
		for _, c := range cfgs {
			if strings.Contains(c.Name, only) {
				sel = append(sel, c)
			}
		}
		cfgs = sel
	}
	if pf := os.Getenv("C10_PROF"); pf != "" {
		f, _ := os.Create(pf)
		pprof.StartCPUProfile(f)
		defer pprof.StopCPUProfile()
		cfgs = cfgs[:1]
		for i := range cfgs {
			search(r, &cfgs[i])
		}
		return
	}
	if r.Replay != "" {
		replay(r, cfgs)
		return
	}
	var states, transitions, fragment int64
	exhaustive := true
	var per []map[string]any
	for i := range cfgs {
		c := &cfgs[i]
		if time.Now().After(r.Deadline()) {
			exhaustive = false
			break
		}
		t, complete := search(r, c)
		debug.FreeOSMemory() // the search's seen-set and frontier are garbage now; give the pages back before the next one
		states += t.states
		transitions += t.transitions
		fragment += t.fragment
		exhaustive = exhaustive && complete
		per = append(per, map[string]any{"config": c.Name, "log2_page": c.Log2Page, "buddy": c.Buddy, "gpu_pages": c.GPUPages,
			"depth": c.Depth, "states": t.states, "transitions": t.transitions, "violating_terminal_states": t.terminal,
			"buddy_fragmentation_refusals": t.fragment, "new_states_per_depth": t.perDepth, "complete": complete})
	}
	driver.VerifSetBuddyAllocator(false)
	r.Cov["states"] = states
	r.Cov["transitions"] = transitions
	r.Cov["traces_validated_against_impl"] = transitions
	r.Cov["exhaustive"] = exhaustive
	r.Cov["configs"] = per
	r.Cov["buddy_fragmentation_refusals"] = fragment
	r.Cov["observations_outside_valid_alphabet"] = observations
	r.Cov["rule"] = "breadth-first search over all histories of valid driver API calls up to the depth of each configuration; every transition is one replay of the history on a fresh real driver plus one call; states are deduplicated by a canonical fingerprint of allocator, page table, contexts and reference model; invariants are evaluated in every state and over every transition"
	r.Assume = []string{
		"only valid calls are issued: within the natural capacity of the target device (device pages minus pages of live buffers resident there), Free/Remap/Distribute/migration only on live buffers through the owning context, page-aligned ranges inside one buffer, Remap/Distribute/migration targets are the CPU or actual GPUs",
		"for the buddy allocator a refusal because no block of the rounded size exists although enough single frames are free is an accepted outcome (inherent to buddy allocation), not a violation",
		"Remap/Distribute/migration are not required to return the replaced frames at once; frames lost that way are only reported when a later call within natural capacity crashes",
		"the allocator's record of an already freed page (never deleted by the implementation) is not compared with the page table",
		"process ids are only compared for equality, so states equal up to a renaming of pids are identified",
	}
	r.Finish()
}

func replay(r *harness.Run, cfgs []config) {
	data, err := os.ReadFile(r.Replay)
	if err != nil {
		fmt.Fprintln(os.Stderr, err)
		os.Exit(2)
	}
	var f struct {
		Signature string     `json:"signature"`
		Case      replayCase `json:"case"`
	}
	if err := json.Unmarshal(data, &f); err != nil {
		fmt.Fprintln(os.Stderr, err)
		os.Exit(2)
	}
	for _, t := range []bool{false, true} {
		for _, c := range configs(t) {
			if c.Name != f.Case.Config {
				continue
			}
			driver.VerifSetBuddyAllocator(c.Buddy)
			fmt.Printf("replaying on config %s: %s\n", c.Name, histString(f.Case.History))
			out := runHistory(&c, f.Case.History, true, func(s string) { fmt.Println(s) })
			if out.infra != "" {
				fmt.Println("INFRASTRUCTURE ERROR:", out.infra)
				os.Exit(2)
			}
			for _, v := range out.viols {
				if v.sig == f.Signature {
					fmt.Printf("VIOLATION property=C10 replay=%s\n  signature: %s\n  %s\n", r.Replay, v.sig, v.msg)
					os.Exit(1)
				}
			}
			if len(out.viols) > 0 {
				fmt.Printf("VIOLATION property=C10 replay=%s\n  signature: %s (recorded signature %s not re-observed)\n", r.Replay, out.viols[0].sig, f.Signature)
				os.Exit(1)
			}
			fmt.Println("replay: no violation")
			os.Exit(0)
		}
	}
	fmt.Fprintln(os.Stderr, "config not found:", f.Case.Config)
	os.Exit(2)
}
