package main

import (
	"fmt"
	"strings"
)

// ---------------------------------------------------------------------------
// Operation alphabet

type opKind uint8

const (
	opInit opKind = iota
	opInitPID
	opAlloc
	opAllocUnified
	opFree
	opRemap
	opDistribute
	opMigrate
	opGC
)

var kindName = map[opKind]string{
	opInit: "init", opInitPID: "init-existing-pid", opAlloc: "alloc",
	opAllocUnified: "alloc-unified", opFree: "free", opRemap: "remap",
	opDistribute: "distribute", opMigrate: "migrate", opGC: "gc",
}

// Size variants of Allocate / AllocateUnified.
const (
	sz1Page = iota
	sz2Pages
	sz3Pages
	sz1Byte
	szPagePlus1
	nSizeVariants
)

func sizeBytes(v int, P uint64) uint64 {
	switch v {
	case sz1Page:
		return P
	case sz2Pages:
		return 2 * P
	case sz3Pages:
		return 3 * P
	case sz1Byte:
		return 1
	case szPagePlus1:
		return P + 1
	}
	panic("size variant")
}

var sizeName = []string{"1page", "2pages", "3pages", "1byte", "page+1"}

// Byte-count variants of Distribute (relative to the buffer).
const (
	distWhole      = iota // the byte size the buffer was allocated with
	distFirstPage1        // one page plus one byte (only for buffers of >= 2 pages)
	nDistVariants
)

// op is one API call. All indices are small; the struct is comparable and is
// also the replay format.
type op struct {
	K    opKind `json:"k"`
	Ctx  uint8  `json:"ctx"`  // context index in creation order
	Dev  uint8  `json:"dev"`  // device id (alloc, remap, migrate target GPU id)
	Size uint8  `json:"size"` // size variant (alloc) / byte variant (distribute)
	Buf  uint8  `json:"buf"`  // buffer index in allocation order
	Lo   uint8  `json:"lo"`   // first page of the sub-range (remap) / page (migrate)
	Hi   uint8  `json:"hi"`   // one past the last page of the sub-range (remap)
	GPUs uint8  `json:"gpus"` // index into cfg.GPULists (distribute)
}

func (o op) String() string {
	switch o.K {
	case opInit:
		return "Init()"
	case opInitPID:
		return fmt.Sprintf("InitWithExistingPID(ctx%d)", o.Ctx)
	case opAlloc:
		return fmt.Sprintf("Allocate(ctx%d,dev%d,%s)", o.Ctx, o.Dev, sizeName[o.Size])
	case opAllocUnified:
		return fmt.Sprintf("AllocateUnified(ctx%d,%s)", o.Ctx, sizeName[o.Size])
	case opFree:
		return fmt.Sprintf("Free(ctx%d,buf%d)", o.Ctx, o.Buf)
	case opRemap:
		return fmt.Sprintf("Remap(ctx%d,buf%d,pages[%d,%d),dev%d)", o.Ctx, o.Buf, o.Lo, o.Hi, o.Dev)
	case opDistribute:
		return fmt.Sprintf("Distribute(ctx%d,buf%d,bytes#%d,gpus#%d)", o.Ctx, o.Buf, o.Size, o.GPUs)
	case opMigrate:
		return fmt.Sprintf("MigratePrep(ctx%d,buf%d,page%d,gpu%d)", o.Ctx, o.Buf, o.Lo, o.Dev)
	case opGC:
		return fmt.Sprintf("RemoveFreedBuffers(ctx%d)", o.Ctx)
	}
	return "?"
}

func histString(h []op) string {
	s := make([]string, len(h))
	for i, o := range h {
		s[i] = o.String()
	}
	return strings.Join(s, "; ")
}

// ---------------------------------------------------------------------------
// Configurations (one explicit-state search each)

type config struct {
	Name     string
	Log2Page uint64
	Buddy    bool
	GPUPages []int // pages of GPU 1..n
	Unified  []int // GPU ids bundled into the unified device (id n+1)
	PreCtx   []int // contexts created before the search: entry = pid index (0,1); e.g. {0,0,1}
	MaxProcs int   // bounds for Init ops (0 = no Init ops)
	MaxCtx   int
	Depth    int

	AllocDevs    []int // device ids Allocate may select (unified device = len(GPUPages)+1)
	AllocSizes   []int
	UnifiedSizes []int // AllocateUnified variants (nil = op not in alphabet)
	Free         bool
	GC           bool
	RemapDevs    []int  // targets of Remap (nil = not in alphabet)
	RemapRanges  string // "all" sub-ranges or "whole" buffer only
	GPULists     [][]int
	DistVariants []int
	MigrateGPUs  []int
	MaxBufs      int // bound on the number of buffers ever allocated (0 = none)

	// Informational: the alphabet contains calls OUTSIDE the valid set of the
	// property (Remap onto the unified device). What the search sees there is
	// recorded in the evidence as an observation, never as a violation.
	Informational bool
}

func (c *config) P() uint64      { return 1 << c.Log2Page }
func (c *config) unifiedID() int { return len(c.GPUPages) + 1 }
