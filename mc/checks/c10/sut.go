package main

import (
	"fmt"
	"sort"
	"sync"

	"github.com/sarchlab/akita/v4/mem/vm"
	"github.com/sarchlab/akita/v4/sim"
	"github.com/sarchlab/mgpusim/v4/amd/driver"
)

// ---------------------------------------------------------------------------
// Page table given to the driver builder: the real akita page table behind a
// recording proxy. The proxy forwards every call unchanged and remembers every
// (pid, vaddr) that was ever inserted or updated, so the complete contents of
// the real table can be read back with Find.

type rawKey struct {
	pid vm.PID
	v   uint64
}

type spyPT struct {
	real vm.PageTable
	keys map[rawKey]struct{}
}

func newSpyPT(log2 uint64) *spyPT {
	return &spyPT{real: vm.NewPageTable(log2), keys: map[rawKey]struct{}{}}
}

func (s *spyPT) Insert(p vm.Page) {
	s.keys[rawKey{p.PID, p.VAddr}] = struct{}{}
	s.real.Insert(p)
}
func (s *spyPT) Update(p vm.Page) {
	s.keys[rawKey{p.PID, p.VAddr}] = struct{}{}
	s.real.Update(p)
}
func (s *spyPT) Remove(pid vm.PID, v uint64)               { s.real.Remove(pid, v) }
func (s *spyPT) Find(pid vm.PID, a uint64) (vm.Page, bool) { return s.real.Find(pid, a) }
func (s *spyPT) ReverseLookup(p uint64) (vm.Page, bool)    { return s.real.ReverseLookup(p) }

// ---------------------------------------------------------------------------
// The system under test: a real driver.Driver built with the public builder.

type sut struct {
	cfg  *config
	drv  *driver.Driver
	pt   *spyPT
	ctxs []*driver.Context
	pids []vm.PID // raw pid per canonical pid index
	devs []devInfo
}

// driver.Init bumps a package-global counter and reads it back without
// synchronisation; serialise it so that parallel searches cannot be handed the
// same PID inside one driver.
var initMu sync.Mutex

func newSUT(c *config) *sut {
	s := &sut{cfg: c, pt: newSpyPT(c.Log2Page)}
	s.drv = driver.MakeBuilder().
		WithEngine(sim.NewSerialEngine()).
		WithFreq(1 * sim.GHz).
		WithLog2PageSize(c.Log2Page).
		WithPageTable(s.pt).
		Build("Driver")
	for _, n := range c.GPUPages {
		s.drv.RegisterGPU(nil, driver.DeviceProperties{CUCount: 4, DRAMSize: uint64(n) * c.P()})
	}
	for _, p := range c.PreCtx {
		if p < len(s.pids) {
			// shares the pid of the first context with that pid index
			for i, q := range c.PreCtx {
				if q == p {
					s.ctxs = append(s.ctxs, s.drv.InitWithExistingPID(s.ctxs[i]))
					break
				}
			}
		} else {
			s.init()
		}
	}
	// CreateUnifiedGPU does not use its context argument.
	id := s.drv.CreateUnifiedGPU(nil, append([]int(nil), c.Unified...))
	if id != c.unifiedID() {
		panic(fmt.Sprintf("unified device id %d, expected %d", id, c.unifiedID()))
	}
	st := s.drv.VerifAllocatorState()
	for _, d := range st.Devices {
		s.devs = append(s.devs, devInfo{id: d.ID, typ: int(d.Type), base: d.InitialAddress / c.P(), n: d.StorageSize / c.P(), unified: d.UnifiedGPUIDs})
	}
	return s
}

func (s *sut) init() *driver.Context {
	initMu.Lock()
	ctx := s.drv.Init()
	initMu.Unlock()
	s.ctxs = append(s.ctxs, ctx)
	s.pids = append(s.pids, driver.VerifContextPID(ctx))
	return ctx
}

func (s *sut) pidIdx(raw vm.PID) int {
	for i, p := range s.pids {
		if p == raw {
			return i
		}
	}
	return -1
}

// ---------------------------------------------------------------------------
// Frame sets: the free physical pages of one device, as integer frame numbers
// (address / page size) in runs.

type run struct{ a, n uint64 } // frames a .. a+n-1

type frameSet struct {
	P          uint64
	ord        []run    // allocator order (pop order), run-length encoded
	mrg        []run    // union, sorted, merged
	dups       []uint64 // frame numbers present more than once (first few)
	misaligned []uint64 // raw addresses that are not page aligned (first few)
	total      uint64   // number of list entries
}

func fsFromAddrs(l []uint64, P uint64) *frameSet {
	f := &frameSet{P: P, total: uint64(len(l))}
	var cur run
	have := false
	for _, a := range l {
		if a%P != 0 {
			if len(f.misaligned) < 8 {
				f.misaligned = append(f.misaligned, a)
			}
			continue
		}
		x := a / P
		if have && x == cur.a+cur.n {
			cur.n++
			continue
		}
		if have {
			f.ord = append(f.ord, cur)
		}
		cur, have = run{x, 1}, true
	}
	if have {
		f.ord = append(f.ord, cur)
	}
	f.merge()
	return f
}

func fsFromBlocks(blocks []run, P uint64) *frameSet {
	f := &frameSet{P: P, ord: blocks}
	for _, b := range blocks {
		f.total += b.n
	}
	f.merge()
	return f
}

func (f *frameSet) merge() {
	s := append([]run(nil), f.ord...)
	sort.Slice(s, func(i, j int) bool { return s[i].a < s[j].a })
	for _, r := range s {
		if n := len(f.mrg); n > 0 && r.a <= f.mrg[n-1].a+f.mrg[n-1].n {
			last := &f.mrg[n-1]
			end := last.a + last.n
			if r.a < end { // overlap: duplicates
				for x := r.a; x < end && x < r.a+r.n && len(f.dups) < 8; x++ {
					f.dups = append(f.dups, x)
				}
			}
			if r.a+r.n > end {
				last.n = r.a + r.n - last.a
			}
			continue
		}
		f.mrg = append(f.mrg, r)
	}
}

func (f *frameSet) has(x uint64) bool {
	i := sort.Search(len(f.mrg), func(i int) bool { return f.mrg[i].a > x })
	return i > 0 && x < f.mrg[i-1].a+f.mrg[i-1].n
}

func (f *frameSet) count() uint64 {
	var n uint64
	for _, r := range f.mrg {
		n += r.n
	}
	return n
}

// minus returns up to max frames of a \ b (as sets) and the size of the
// difference.
func minus(a, b *frameSet, max int) (out []uint64, size uint64) {
	j := 0
	for _, r := range a.mrg {
		x := r.a
		end := r.a + r.n
		for x < end {
			for j < len(b.mrg) && b.mrg[j].a+b.mrg[j].n <= x {
				j++
			}
			if j < len(b.mrg) && b.mrg[j].a <= x {
				x = b.mrg[j].a + b.mrg[j].n
				continue
			}
			stop := end
			if j < len(b.mrg) && b.mrg[j].a < stop {
				stop = b.mrg[j].a
			}
			size += stop - x
			for y := x; y < stop && len(out) < max; y++ {
				out = append(out, y)
			}
			x = stop
		}
	}
	return
}

func sameOrder(a, b *frameSet) bool {
	if len(a.ord) != len(b.ord) {
		return false
	}
	for i := range a.ord {
		if a.ord[i] != b.ord[i] {
			return false
		}
	}
	return true
}

// ---------------------------------------------------------------------------
// Snapshots of everything observable

type devInfo struct {
	id      int
	typ     int
	base    uint64 // first frame number
	n       uint64 // frames
	unified []int
}

type snapshot struct {
	pt    map[rawKey]vm.Page
	alloc driver.VerifAllocatorState
	free  []*frameSet // per device id (nil for the unified device)
	devs  []devInfo
	ctxB  [][]driver.VerifBuffer
	ctxG  []int
}

func (s *sut) snapshot() *snapshot {
	sn := &snapshot{pt: make(map[rawKey]vm.Page, len(s.pt.keys))}
	for k := range s.pt.keys {
		if p, ok := s.pt.real.Find(k.pid, k.v); ok {
			sn.pt[k] = p
		}
	}
	sn.alloc = s.drv.VerifAllocatorState()
	P := s.cfg.P()
	for _, d := range sn.alloc.Devices {
		di := devInfo{id: d.ID, typ: int(d.Type), base: d.InitialAddress / P, n: d.StorageSize / P, unified: d.UnifiedGPUIDs}
		sn.devs = append(sn.devs, di)
		// the unified pseudo-device owns no memory (range of 0 frames); its own
		// free structure is read like any other so that a frame handed to it
		// shows up as a free frame outside the device
		switch {
		case d.Buddy:
			sn.free = append(sn.free, buddyFree(&d, P))
		default:
			sn.free = append(sn.free, fsFromAddrs(d.FreePAddrs, P))
		}
	}
	for _, c := range s.ctxs {
		sn.ctxB = append(sn.ctxB, driver.VerifContextBuffers(c))
		sn.ctxG = append(sn.ctxG, driver.VerifContextGPU(c))
	}
	return sn
}

// buddyFree turns the buddy free lists into a frame set: a block on level l
// covers storageSize / 2^l bytes.
func buddyFree(d *driver.VerifDeviceState, P uint64) *frameSet {
	var blocks []run
	var mis []uint64
	for l, lst := range d.BuddyFreeLists {
		size := d.StorageSize >> uint(l)
		for _, a := range lst {
			if a%P != 0 || size%P != 0 || size == 0 {
				mis = append(mis, a)
				continue
			}
			blocks = append(blocks, run{a / P, size / P})
		}
	}
	f := fsFromBlocks(blocks, P)
	f.misaligned = mis
	return f
}

// devOfFrame returns the id of the real device whose range holds frame x, or -1.
func (sn *snapshot) devOfFrame(x uint64) int {
	for _, d := range sn.devs {
		if d.typ != driver.VerifDeviceTypeUnifiedGPU && x >= d.base && x < d.base+d.n {
			return d.id
		}
	}
	return -1
}

func (s *sut) devOfFrame(x uint64) int {
	for _, d := range s.devs {
		if d.typ != driver.VerifDeviceTypeUnifiedGPU && x >= d.base && x < d.base+d.n {
			return d.id
		}
	}
	return -1
}
