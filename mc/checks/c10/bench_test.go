package main

import "testing"

func BenchmarkSUT16(b *testing.B) { benchSUT(b, 16) }
func BenchmarkSUT14(b *testing.B) { benchSUT(b, 14) }
func BenchmarkSUT12(b *testing.B) { benchSUT(b, 12) }
func benchSUT(b *testing.B, l uint64) {
	c := &config{Log2Page: l, GPUPages: []int{4, 4}, Unified: []int{1, 2}, PreCtx: []int{0}}
	for i := 0; i < b.N; i++ {
		newSUT(c)
	}
}
func BenchmarkSnap16(b *testing.B) {
	c := &config{Log2Page: 16, GPUPages: []int{4, 4}, Unified: []int{1, 2}, PreCtx: []int{0}}
	s := newSUT(c)
	for i := 0; i < b.N; i++ {
		s.snapshot()
	}
}
func BenchmarkStep16(b *testing.B) {
	c := &config{Log2Page: 16, GPUPages: []int{4, 4}, Unified: []int{1, 2}, PreCtx: []int{0}, AllocDevs: []int{1}, AllocSizes: []int{0}}
	for i := 0; i < b.N; i++ {
		runHistory(c, []op{{K: opAlloc, Dev: 1}, {K: opAlloc, Dev: 1}}, false, nil)
	}
}

func BenchmarkParSUT16(b *testing.B) {
	c := &config{Log2Page: 16, GPUPages: []int{4, 4}, Unified: []int{1, 2}, PreCtx: []int{0}}
	b.RunParallel(func(pb *testing.PB) {
		for pb.Next() {
			newSUT(c)
		}
	})
}
