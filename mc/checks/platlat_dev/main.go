// platlat_dev: run one lattice case given as JSON on the command line (development aid).
package main

import (
	"encoding/json"
	"fmt"
	"os"
	"time"

	"verif/mc/platlat"
)

func main() {
	platlat.MaybeWorker()
	var c platlat.Case
	if err := json.Unmarshal([]byte(os.Args[1]), &c); err != nil {
		panic(err)
	}
	o := platlat.Exec(c, 10*time.Minute)
	fmt.Printf("%s: status=%s stage=%s symptom=%s exit=%d wall=%.2fs\n", c.Name(), o.Status, o.Stage, o.Symptom, o.ExitCode, o.WallS)
	if o.Status != "ok" {
		fmt.Println(o.Detail)
	} else {
		fmt.Printf("simtime=%g outputs=%d buffers=%d wfs=%d insts=%d cus=%d\n", o.Res.SimTime, len(o.Res.Outputs), len(o.Res.Buffers), len(o.Res.Wfs), o.Res.InstCount, o.Res.NumCUs)
		for _, b := range o.Res.Outputs {
			fmt.Printf("  out %s %dB\n", b.Name, len(b.Data))
		}
		for _, b := range o.Res.Buffers {
			fmt.Printf("  buf %s\n", b.Name)
		}
	}
}
