// C08: the dispatch grid is partitioned exactly into work-groups, wavefronts
// and lanes.
//
// Exhaustive enumeration of dispatch geometries over boundary alphabets. For
// every geometry the real kernels.GridBuilder is driven (NumWG, NextWG, Skip)
// and the multiset of global ids over the enabled lanes is compared with the
// grid; for a sub-lattice the lane-id / work-group-id registers produced by
// the real emu.ComputeUnit.initWfRegs and by the real timing
// cu.WfDispatcherImpl (DispatchWf -> initRegisters) are decoded and must be
// the work-item coordinates; the work-group filters are the closures produced
// by the real Driver.processUnifiedMultiGPULaunchKernelCommand (driver built
// by the public builder, ticked by hand) for 1-4 GPUs x CU-count alphabets.
package main

import (
	"bytes"
	"encoding/json"
	"fmt"
	"io"
	"log"
	"math/bits"
	"os"
	"sort"
	"strings"
	"sync"
	"sync/atomic"
	"time"

	"github.com/sarchlab/akita/v4/mem/vm"
	"github.com/sarchlab/akita/v4/sim"
	"github.com/sarchlab/mgpusim/v4/amd/driver"
	"github.com/sarchlab/mgpusim/v4/amd/emu"
	"github.com/sarchlab/mgpusim/v4/amd/insts"
	"github.com/sarchlab/mgpusim/v4/amd/kernels"
	"github.com/sarchlab/mgpusim/v4/amd/protocol"
	"github.com/sarchlab/mgpusim/v4/amd/timing/cu"
	"github.com/sarchlab/mgpusim/v4/amd/timing/wavefront"

	"verif/mc/harness"
)

type geom struct {
	G [3]uint32 `json:"grid"`
	W [3]uint16 `json:"wg"`
}

func (g geom) String() string {
	return fmt.Sprintf("grid %dx%dx%d wg %dx%dx%d", g.G[0], g.G[1], g.G[2], g.W[0], g.W[1], g.W[2])
}

func (g geom) items() int { return int(g.G[0]) * int(g.G[1]) * int(g.G[2]) }
func (g geom) wgItems() int {
	return int(g.W[0]) * int(g.W[1]) * int(g.W[2])
}
func ceilDiv(a, b int) int { return (a + b - 1) / b }
func (g geom) numWG() (x, y, z int) {
	return ceilDiv(int(g.G[0]), int(g.W[0])), ceilDiv(int(g.G[1]), int(g.W[1])), ceilDiv(int(g.G[2]), int(g.W[2]))
}

func (g geom) packet() *kernels.HsaKernelDispatchPacket {
	return &kernels.HsaKernelDispatchPacket{
		GridSizeX: g.G[0], GridSizeY: g.G[1], GridSizeZ: g.G[2],
		WorkgroupSizeX: g.W[0], WorkgroupSizeY: g.W[1], WorkgroupSizeZ: g.W[2],
		KernelObject: 0x10000, KernargAddress: 0x20000,
	}
}

// ---------------------------------------------------------------------------
// violations: collected, minimised per signature, reported at the end

type replayCase struct {
	Kind   string `json:"kind"` // grid | skip | reginit | filter
	Geom   geom   `json:"geometry"`
	Config string `json:"config,omitempty"`
	Place  int    `json:"place,omitempty"`
	Prev   *geom  `json:"previous_launch_geometry,omitempty"` // reginit-seq: launched before on the same CU with the same code object
	CUs    []int  `json:"cu_counts,omitempty"`
}

type viol struct {
	sig, msg string
	rc       replayCase
	weight   int // smaller = more minimal
}

type collector struct {
	mu  sync.Mutex
	m   map[string]*viol
	cnt map[string]int
}

func (c *collector) add(v *viol) {
	if v == nil {
		return
	}
	c.mu.Lock()
	defer c.mu.Unlock()
	c.cnt[v.sig]++
	old := c.m[v.sig]
	if old == nil || v.weight < old.weight || (v.weight == old.weight && fmt.Sprint(v.rc) < fmt.Sprint(old.rc)) {
		c.m[v.sig] = v
	}
}

func weight(g geom) int {
	return g.items()*4096 + g.wgItems()
}

// ---------------------------------------------------------------------------
// grid builder

func codeObject(cfg regCfg) *insts.KernelCodeObject {
	co := &insts.KernelCodeObject{KernelCodeObjectMeta: &insts.KernelCodeObjectMeta{}}
	co.Version = cfg.version
	co.WFSgprCount = 32
	co.WIVgprCount = 16
	co.EnableSgprPrivateSegmentBuffer = cfg.privSegBuf
	co.EnableSgprDispatchPtr = cfg.dispatchPtr
	co.EnableSgprQueuePtr = cfg.queuePtr
	co.EnableSgprKernargSegmentPtr = cfg.kernargPtr
	co.EnableSgprDispatchID = cfg.dispatchID
	co.EnableSgprFlatScratchInit = cfg.flatScratch
	co.EnableSgprPrivateSegmentSize = cfg.privSegSize
	co.EnableSgprGridWorkgroupCountX = cfg.gridEnabled(0)
	co.EnableSgprGridWorkgroupCountY = cfg.gridEnabled(1)
	co.EnableSgprGridWorkgroupCountZ = cfg.gridEnabled(2)
	var r2 uint32
	for i := 0; i < 3; i++ {
		if cfg.wgEnabled(i) {
			r2 |= 1 << (7 + i)
		}
	}
	r2 |= uint32(cfg.vgprIDs) << 11
	co.ComputePgmRsrc2 = r2
	return co
}

type regCfg struct {
	name                                            string
	version                                         insts.CodeObjectVersion
	privSegBuf, dispatchPtr, queuePtr, kernargPtr   bool
	dispatchID, flatScratch, privSegSize, gridCount bool
	wgIDs                                           int // 1..3 work-group id SGPRs enabled (x, xy, xyz)
	vgprIDs                                         int // 0..2 (x, xy, xyz)
	// wgMask != 0: the enabled work-group id SGPRs as a bit set (bit 0 x, 1 y, 2 z) instead of the prefix wgIDs:
	// the enable bits are independent, the enabled ids are packed into consecutive SGPRs in x, y, z order
	wgMask int
	// gridMask != 0: the enabled grid work-group count SGPRs as a bit set instead of all three (gridCount)
	gridMask int
}

func (c regCfg) gridEnabled(d int) bool {
	if c.gridMask != 0 {
		return c.gridMask>>d&1 == 1
	}
	return c.gridCount
}

func (c regCfg) gridSlot(d int) int {
	n := 0
	for i := 0; i < d; i++ {
		if c.gridEnabled(i) {
			n++
		}
	}
	return n
}

func (c regCfg) wgEnabled(d int) bool {
	if c.wgMask != 0 {
		return c.wgMask>>d&1 == 1
	}
	return d < c.wgIDs
}

// wgSlot is the position of dimension d's id among the packed work-group id SGPRs.
func (c regCfg) wgSlot(d int) int {
	n := 0
	for i := 0; i < d; i++ {
		if c.wgEnabled(i) {
			n++
		}
	}
	return n
}

var regCfgs = []regCfg{
	{name: "v3-typical", version: insts.CodeObjectV3, privSegBuf: true, dispatchPtr: true, kernargPtr: true, wgIDs: 3, vgprIDs: 2},
	{name: "v5-packed", version: insts.CodeObjectV5, kernargPtr: true, wgIDs: 3, vgprIDs: 2},
	{name: "v3-minimal-x", version: insts.CodeObjectV3, kernargPtr: true, wgIDs: 1, vgprIDs: 0},
	{name: "v3-xy", version: insts.CodeObjectV3, dispatchPtr: true, kernargPtr: true, wgIDs: 2, vgprIDs: 1},
	{name: "v3-grid-counts", version: insts.CodeObjectV3, privSegBuf: true, dispatchPtr: true, kernargPtr: true, gridCount: true, wgIDs: 3, vgprIDs: 2},
	{name: "v3-dispatch-id+flat-scratch", version: insts.CodeObjectV3, kernargPtr: true, dispatchID: true, flatScratch: true, wgIDs: 3, vgprIDs: 2},
	{name: "v3-queue-ptr", version: insts.CodeObjectV3, dispatchPtr: true, queuePtr: true, kernargPtr: true, wgIDs: 3, vgprIDs: 2},
	{name: "v3-private-segment-size", version: insts.CodeObjectV3, kernargPtr: true, privSegSize: true, wgIDs: 3, vgprIDs: 2},
	{name: "v3-grid-count-x+z", version: insts.CodeObjectV3, privSegBuf: true, kernargPtr: true, gridMask: 0b101, wgIDs: 3, vgprIDs: 2},
	{name: "v3-wg-id-x+z", version: insts.CodeObjectV3, kernargPtr: true, wgMask: 0b101, vgprIDs: 2},
	{name: "v3-wg-id-y+z", version: insts.CodeObjectV3, dispatchPtr: true, kernargPtr: true, wgMask: 0b110, vgprIDs: 2},
	{name: "v5-wg-id-x+z", version: insts.CodeObjectV5, kernargPtr: true, wgMask: 0b101, vgprIDs: 2},
}

// abiLayout is the SGPR set-up order of the AMDGPU kernel ABI (LLVM
// AMDGPUUsage, "SGPR register set up order"): user SGPRs private segment
// buffer(4) dispatch ptr(2) queue ptr(2) kernarg ptr(2) dispatch id(2) flat
// scratch init(2) private segment size(1) [grid work-group count x,y,z of the
// v2 header](1 each), then the system SGPRs work-group id x, y, z.
type abiLayout struct {
	dispatchPtr, kernargPtr, gridCount, wgID int // first SGPR index, -1 = absent
}

func (c regCfg) abi() abiLayout {
	l := abiLayout{-1, -1, -1, -1}
	p := 0
	if c.privSegBuf {
		p += 4
	}
	if c.dispatchPtr {
		l.dispatchPtr = p
		p += 2
	}
	if c.queuePtr {
		p += 2
	}
	if c.kernargPtr {
		l.kernargPtr = p
		p += 2
	}
	if c.dispatchID {
		p += 2
	}
	if c.flatScratch {
		p += 2
	}
	if c.privSegSize {
		p++
	}
	if c.gridCount || c.gridMask != 0 {
		l.gridCount = p
		for d := 0; d < 3; d++ {
			if c.gridEnabled(d) {
				p++
			}
		}
	}
	l.wgID = p
	return l
}

var baseCO = codeObject(regCfgs[0])

func walk(gb kernels.GridBuilder, max int) (wgs []*kernels.WorkGroup, overrun bool) {
	for {
		wg := gb.NextWG()
		if wg == nil {
			return wgs, false
		}
		wgs = append(wgs, wg)
		if len(wgs) > max {
			return wgs, true
		}
	}
}

func partialDims(wg *kernels.WorkGroup) string {
	s := ""
	if wg.CurrSizeX != wg.SizeX {
		s += "x"
	}
	if wg.CurrSizeY != wg.SizeY {
		s += "y"
	}
	if wg.CurrSizeZ != wg.SizeZ {
		s += "z"
	}
	return s
}

func wgClass(wg *kernels.WorkGroup) (cls, dims string) {
	d := partialDims(wg)
	if d == "" {
		return "full-wg", "-"
	}
	return "partial-wg", d
}

type gridResult struct {
	wgs []*kernels.WorkGroup
	v   *viol
	// spans: the work-group-local wavefront formation defect was seen; the
	// remaining checks of the geometry (other work-groups, counts, Skip) were
	// still made, only the lane coverage of the malformed work-group is not judged
	spans *viol
}

// checkGrid drives the real grid builder over the whole grid without a filter.
func checkGrid(g geom, co *insts.KernelCodeObject) gridResult {
	var spans *viol
	mk := func(sig, f string, a ...any) gridResult {
		return gridResult{v: &viol{sig: sig, msg: g.String() + ": " + fmt.Sprintf(f, a...), rc: replayCase{Kind: "grid", Geom: g}, weight: weight(g)}, spans: spans}
	}
	pkt := g.packet()
	gb := kernels.NewGridBuilder()
	gb.SetKernel(kernels.KernelLaunchInfo{CodeObject: co, Packet: pkt, PacketAddr: 0x3000})
	nx, ny, nz := g.numWG()
	exp := nx * ny * nz
	if gb.NumWG() != exp {
		return mk("gridbuilder/numwg/announced-differs-from-geometry", "NumWG()=%d, the geometry has %d work-groups", gb.NumWG(), exp)
	}
	wgs, over := walk(gb, exp+4)
	if over || len(wgs) != gb.NumWG() {
		return mk("gridbuilder/numwg/announced-differs-from-produced", "NumWG()=%d but NextWG produced %d%s work-groups", gb.NumWG(), len(wgs), map[bool]string{true: "+", false: ""}[over])
	}
	sx, sy, sz := int(g.W[0]), int(g.W[1]), int(g.W[2])
	seenWG := make([]bool, exp)
	cover := make([]uint8, g.items())
	anyMalformed := false
	for _, wg := range wgs {
		malformed := false
		if wg.IDX < 0 || wg.IDX >= nx || wg.IDY < 0 || wg.IDY >= ny || wg.IDZ < 0 || wg.IDZ >= nz {
			return mk("gridbuilder/wg/id-outside-grid", "work-group id (%d,%d,%d) outside %dx%dx%d", wg.IDX, wg.IDY, wg.IDZ, nx, ny, nz)
		}
		k := wg.IDX + nx*(wg.IDY+ny*wg.IDZ)
		if seenWG[k] {
			return mk("gridbuilder/wg/produced-twice", "work-group (%d,%d,%d) produced twice", wg.IDX, wg.IDY, wg.IDZ)
		}
		seenWG[k] = true
		cx := min(sx, int(g.G[0])-wg.IDX*sx)
		cy := min(sy, int(g.G[1])-wg.IDY*sy)
		cz := min(sz, int(g.G[2])-wg.IDZ*sz)
		if wg.SizeX != sx || wg.SizeY != sy || wg.SizeZ != sz || wg.CurrSizeX != cx || wg.CurrSizeY != cy || wg.CurrSizeZ != cz {
			return mk("gridbuilder/wg/wrong-size", "work-group (%d,%d,%d): size %dx%dx%d curr %dx%dx%d, expected size %dx%dx%d curr %dx%dx%d",
				wg.IDX, wg.IDY, wg.IDZ, wg.SizeX, wg.SizeY, wg.SizeZ, wg.CurrSizeX, wg.CurrSizeY, wg.CurrSizeZ, sx, sy, sz, cx, cy, cz)
		}
		if wg.Packet != pkt || wg.CodeObject != co {
			return mk("gridbuilder/wg/packet-or-code-object-not-propagated", "work-group (%d,%d,%d)", wg.IDX, wg.IDY, wg.IDZ)
		}
		cls, dims := wgClass(wg)
		if len(wg.WorkItems) != cx*cy*cz {
			return mk("gridbuilder/"+cls+"/work-item-count/"+dims, "work-group (%d,%d,%d) has %d work-items, expected %d", wg.IDX, wg.IDY, wg.IDZ, len(wg.WorkItems), cx*cy*cz)
		}
		// ISA mapping: flat = x + y*SizeX + z*SizeX*SizeY ; wavefront = flat/64 ; lane = flat%64
		blocks := map[int]bool{}
		inWf := 0
		for wi, wf := range wg.Wavefronts {
			if wf.WG != wg || wf.Packet != pkt || wf.CodeObject != co || wf.PacketAddress != 0x3000 {
				return mk("gridbuilder/wavefront/context-not-propagated", "wavefront %d of work-group (%d,%d,%d)", wi, wg.IDX, wg.IDY, wg.IDZ)
			}
			if wf.FirstWiFlatID%64 != 0 {
				return mk("gridbuilder/"+cls+"/wavefront-not-aligned-to-64/"+dims, "wavefront %d of work-group (%d,%d,%d): FirstWiFlatID=%d", wi, wg.IDX, wg.IDY, wg.IDZ, wf.FirstWiFlatID)
			}
			if blocks[wf.FirstWiFlatID/64] {
				return mk("gridbuilder/"+cls+"/two-wavefronts-for-one-64-block/"+dims, "work-group (%d,%d,%d): second wavefront with FirstWiFlatID=%d", wg.IDX, wg.IDY, wg.IDZ, wf.FirstWiFlatID)
			}
			blocks[wf.FirstWiFlatID/64] = true
			var mask uint64
			for _, it := range wf.WorkItems {
				if it.WG != wg || it.IDX < 0 || it.IDX >= cx || it.IDY < 0 || it.IDY >= cy || it.IDZ < 0 || it.IDZ >= cz {
					return mk("gridbuilder/"+cls+"/work-item-outside-work-group/"+dims, "work-item (%d,%d,%d) in work-group (%d,%d,%d) of current size %dx%dx%d", it.IDX, it.IDY, it.IDZ, wg.IDX, wg.IDY, wg.IDZ, cx, cy, cz)
				}
				flat := it.IDX + it.IDY*sx + it.IDZ*sx*sy
				lane := flat - wf.FirstWiFlatID
				if lane < 0 || lane >= 64 {
					sp := mk("gridbuilder/"+cls+"/wavefront-spans-several-64-blocks/"+dims,
						"work-group (%d,%d,%d) (current size %dx%dx%d of %dx%dx%d) wavefront %d starts at flat id %d, has %d work-items, EXEC %016x, and contains work-item (%d,%d,%d) with flat id %d: that is wavefront %d lane %d of the ISA mapping; the lane registers (flat = first+lane) will describe other coordinates",
						wg.IDX, wg.IDY, wg.IDZ, cx, cy, cz, sx, sy, sz, wi, wf.FirstWiFlatID, len(wf.WorkItems), wf.InitExecMask, it.IDX, it.IDY, it.IDZ, flat, flat/64, flat%64)
					if spans == nil {
						spans = sp.v
					}
					malformed = true
					break
				}
				if mask&(1<<uint(lane)) != 0 {
					return mk("gridbuilder/"+cls+"/work-item-twice-in-wavefront/"+dims, "work-item (%d,%d,%d) of work-group (%d,%d,%d)", it.IDX, it.IDY, it.IDZ, wg.IDX, wg.IDY, wg.IDZ)
				}
				mask |= 1 << uint(lane)
			}
			if malformed {
				break
			}
			if len(wf.WorkItems) > 64 || len(wf.WorkItems) == 0 {
				return mk("gridbuilder/"+cls+"/wavefront-with-"+map[bool]string{true: "no", false: "more-than-64"}[len(wf.WorkItems) == 0]+"-work-items/"+dims,
					"wavefront %d of work-group (%d,%d,%d) has %d work-items", wi, wg.IDX, wg.IDY, wg.IDZ, len(wf.WorkItems))
			}
			if mask != wf.InitExecMask {
				return mk("gridbuilder/"+cls+"/exec-mask-differs-from-member-lanes/"+dims, "work-group (%d,%d,%d) wavefront %d: InitExecMask %016x, lanes of its work-items %016x", wg.IDX, wg.IDY, wg.IDZ, wi, wf.InitExecMask, mask)
			}
			inWf += len(wf.WorkItems)
			// what the hardware initialisation will make of it: lane L <-> flat id first+L
			for m := wf.InitExecMask; m != 0; m &= m - 1 {
				l := bits.TrailingZeros64(m)
				flat := wf.FirstWiFlatID + l
				z := flat / (sx * sy)
				y := flat % (sx * sy) / sx
				x := flat % (sx * sy) % sx
				gx, gy, gz := wg.IDX*sx+x, wg.IDY*sy+y, wg.IDZ*sz+z
				if x >= cx || y >= cy || z >= cz || gx >= int(g.G[0]) || gy >= int(g.G[1]) || gz >= int(g.G[2]) {
					return mk("gridbuilder/"+cls+"/lane-enabled-for-coordinate-outside-grid/"+dims, "work-group (%d,%d,%d) wavefront %d lane %d is enabled and stands for global id (%d,%d,%d)", wg.IDX, wg.IDY, wg.IDZ, wi, l, gx, gy, gz)
				}
				ci := gx + int(g.G[0])*(gy+int(g.G[1])*gz)
				if cover[ci] != 0 {
					return mk("gridbuilder/"+cls+"/work-item-executed-twice/"+dims, "global id (%d,%d,%d) enabled a second time in work-group (%d,%d,%d) wavefront %d lane %d", gx, gy, gz, wg.IDX, wg.IDY, wg.IDZ, wi, l)
				}
				cover[ci] = 1
			}
		}
		if malformed {
			anyMalformed = true
			continue
		}
		if inWf != len(wg.WorkItems) {
			return mk("gridbuilder/"+cls+"/work-items-not-in-a-wavefront/"+dims, "work-group (%d,%d,%d): %d work-items, %d in wavefronts", wg.IDX, wg.IDY, wg.IDZ, len(wg.WorkItems), inWf)
		}
	}
	for i, c := range cover {
		if anyMalformed {
			break
		}
		if c == 0 {
			gx, gy, gz := i%int(g.G[0]), i/int(g.G[0])%int(g.G[1]), i/int(g.G[0])/int(g.G[1])
			return mk("gridbuilder/grid/work-item-never-executed", "global id (%d,%d,%d) is enabled in no lane", gx, gy, gz)
		}
	}
	return gridResult{wgs: wgs, spans: spans}
}

func sameWG(a, b *kernels.WorkGroup) bool {
	if a == nil || b == nil {
		return a == nil && b == nil
	}
	if a.IDX != b.IDX || a.IDY != b.IDY || a.IDZ != b.IDZ || a.CurrSizeX != b.CurrSizeX || a.CurrSizeY != b.CurrSizeY || a.CurrSizeZ != b.CurrSizeZ ||
		len(a.Wavefronts) != len(b.Wavefronts) || len(a.WorkItems) != len(b.WorkItems) {
		return false
	}
	for i := range a.Wavefronts {
		if a.Wavefronts[i].InitExecMask != b.Wavefronts[i].InitExecMask || a.Wavefronts[i].FirstWiFlatID != b.Wavefronts[i].FirstWiFlatID {
			return false
		}
	}
	return true
}

// checkReuse: a dispatcher keeps one grid builder and calls SetKernel on it for every kernel it launches. A
// builder that has already produced kernel prev (completely, or only its first work-group) must produce for
// kernel g exactly what a fresh builder produces: same count, same work-groups, same wavefront masks and the same
// work-item ids.
func checkReuse(prev, g geom, co *insts.KernelCodeObject) *viol {
	mk := func(f string, a ...any) *viol {
		p := prev
		return &viol{sig: "gridbuilder/reused-builder-differs-from-fresh-builder", msg: fmt.Sprintf("%s after %s on the same builder: ", g, prev) + fmt.Sprintf(f, a...),
			rc: replayCase{Kind: "reuse", Geom: g, Prev: &p}, weight: weight(g) + weight(prev)}
	}
	fresh := kernels.NewGridBuilder()
	fresh.SetKernel(kernels.KernelLaunchInfo{CodeObject: co, Packet: g.packet(), PacketAddr: 0x3000})
	want, _ := walk(fresh, fresh.NumWG()+4)
	for _, partial := range []bool{false, true} {
		gb := kernels.NewGridBuilder()
		gb.SetKernel(kernels.KernelLaunchInfo{CodeObject: co, Packet: prev.packet(), PacketAddr: 0x2000})
		if partial {
			gb.NextWG()
		} else {
			walk(gb, gb.NumWG()+4)
		}
		gb.SetKernel(kernels.KernelLaunchInfo{CodeObject: co, Packet: g.packet(), PacketAddr: 0x3000})
		if gb.NumWG() != fresh.NumWG() {
			return mk("NumWG()=%d, a fresh builder announces %d", gb.NumWG(), fresh.NumWG())
		}
		got, over := walk(gb, len(want)+4)
		if over || len(got) != len(want) {
			return mk("%d work-groups produced, a fresh builder produces %d", len(got), len(want))
		}
		for i := range want {
			if !sameWG(got[i], want[i]) {
				return mk("work-group %d (%d,%d,%d) differs from the fresh builder's (current size, wavefront count, an initial EXEC mask or a first work-item id): e.g. masks %s vs %s",
					i, want[i].IDX, want[i].IDY, want[i].IDZ, masks(got[i]), masks(want[i]))
			}
			for j := range want[i].WorkItems {
				a, b := got[i].WorkItems[j], want[i].WorkItems[j]
				if a.IDX != b.IDX || a.IDY != b.IDY || a.IDZ != b.IDZ {
					return mk("work-group %d work-item %d has id (%d,%d,%d), fresh builder (%d,%d,%d)", i, j, a.IDX, a.IDY, a.IDZ, b.IDX, b.IDY, b.IDZ)
				}
			}
		}
	}
	return nil
}

func masks(wg *kernels.WorkGroup) string {
	var s []string
	for _, wf := range wg.Wavefronts {
		s = append(s, fmt.Sprintf("%#x", wf.InitExecMask))
	}
	return "[" + strings.Join(s, " ") + "]"
}

// checkSkip: Skip(n) followed by NextWG must give what n+1 NextWG calls give.
func checkSkip(g geom, co *insts.KernelCodeObject, wgs []*kernels.WorkGroup, evals *int64) *viol {
	n := len(wgs)
	var ns []int
	if n <= 12 {
		for i := 0; i <= n+1; i++ {
			ns = append(ns, i)
		}
	} else {
		ns = []int{0, 1, 2, n / 2, n - 1, n, n + 1}
	}
	for _, k := range ns {
		gb := kernels.NewGridBuilder()
		gb.SetKernel(kernels.KernelLaunchInfo{CodeObject: co, Packet: g.packet(), PacketAddr: 0x3000})
		gb.Skip(k)
		got := gb.NextWG()
		var want *kernels.WorkGroup
		if k < n {
			want = wgs[k]
		}
		*evals++
		if !sameWG(got, want) {
			d := func(w *kernels.WorkGroup) string {
				if w == nil {
					return "nil"
				}
				return fmt.Sprintf("(%d,%d,%d)", w.IDX, w.IDY, w.IDZ)
			}
			return &viol{sig: "gridbuilder/skip/differs-from-repeated-nextwg", msg: fmt.Sprintf("%s: after Skip(%d) NextWG gives %s, the %d-th NextWG gives %s", g, k, d(got), k+1, d(want)),
				rc: replayCase{Kind: "skip", Geom: g}, weight: weight(g)}
		}
		// the partition algorithm's use: a second NextWG continues the sequence
		got2 := gb.NextWG()
		var want2 *kernels.WorkGroup
		if k+1 < n {
			want2 = wgs[k+1]
		}
		if !sameWG(got2, want2) {
			return &viol{sig: "gridbuilder/skip/sequence-after-skip-differs", msg: fmt.Sprintf("%s: second NextWG after Skip(%d)", g, k), rc: replayCase{Kind: "skip", Geom: g}, weight: weight(g)}
		}
	}
	return nil
}

// ---------------------------------------------------------------------------
// register initialisation in both modes

type place struct {
	simd, vOff, sOff int
}

var places = []place{{0, 0, 0}, {1, 512, 448}, {3, 16, 64 * 35}, {2, 960, 64 * 198}}

type timingRig struct {
	cu     *cu.ComputeUnit
	sStore []byte
	vStore [][]byte
}

func newTimingRig() *timingRig {
	c := cu.MakeBuilder().WithEngine(sim.NewSerialEngine()).Build("CU")
	t := &timingRig{cu: c, sStore: c.SRegFile.(*cu.SimpleRegisterFile).VerifStorage()}
	for _, f := range c.VRegFile {
		t.vStore = append(t.vStore, f.(*cu.SimpleRegisterFile).VerifStorage())
	}
	return t
}

const junk = 0xEE

func fill(b []byte) {
	for i := range b {
		b[i] = junk
	}
}

type laneRegs interface {
	sreg(i int) uint32
	vreg(lane, i int) uint32
	exec() uint64
}

type emuRegs struct{ wf *emu.Wavefront }

func (e emuRegs) sreg(i int) uint32 {
	return uint32(e.wf.ReadOperand(insts.NewSRegOperand(i, i, 1), 0))
}
func (e emuRegs) vreg(l, i int) uint32 {
	return uint32(e.wf.ReadOperand(insts.NewVRegOperand(i, i, 1), l))
}
func (e emuRegs) exec() uint64 { return e.wf.EXEC() }

type timRegs struct{ wf *wavefront.Wavefront }

func (e timRegs) sreg(i int) uint32 {
	return uint32(e.wf.ReadOperand(insts.NewSRegOperand(i, i, 1), 0))
}
func (e timRegs) vreg(l, i int) uint32 {
	return uint32(e.wf.ReadOperand(insts.NewVRegOperand(i, i, 1), l))
}
func (e timRegs) exec() uint64 { return e.wf.EXEC() }

// checkRegs decodes the registers of one initialised wavefront and marks the
// global ids of its enabled lanes in cover.
func checkRegs(mode string, g geom, cfg regCfg, wg *kernels.WorkGroup, wfi int, kwf *kernels.Wavefront, r laneRegs, cover []uint8, lanes *int64) (sig, msg string) {
	abi := cfg.abi()
	where := fmt.Sprintf("%s, code object %s, work-group (%d,%d,%d) wavefront %d", mode, cfg.name, wg.IDX, wg.IDY, wg.IDZ, wfi)
	pre := "reginit/" + mode + "/" + cfg.name + "/"
	if r.exec() != kwf.InitExecMask {
		return pre + "exec-differs-from-init-mask", fmt.Sprintf("%s: EXEC %016x, InitExecMask %016x", where, r.exec(), kwf.InitExecMask)
	}
	if abi.dispatchPtr >= 0 {
		v := uint64(r.sreg(abi.dispatchPtr)) | uint64(r.sreg(abi.dispatchPtr+1))<<32
		if v != kwf.PacketAddress {
			return pre + "sgpr-dispatch-ptr", fmt.Sprintf("%s: s[%d:%d]=%#x, packet address %#x", where, abi.dispatchPtr, abi.dispatchPtr+1, v, kwf.PacketAddress)
		}
	}
	if abi.kernargPtr >= 0 {
		v := uint64(r.sreg(abi.kernargPtr)) | uint64(r.sreg(abi.kernargPtr+1))<<32
		if v != kwf.Packet.KernargAddress {
			return pre + "sgpr-kernarg-ptr", fmt.Sprintf("%s: s[%d:%d]=%#x, kernarg address %#x (ABI position)", where, abi.kernargPtr, abi.kernargPtr+1, v, kwf.Packet.KernargAddress)
		}
	}
	nx, ny, nz := g.numWG()
	if abi.gridCount >= 0 {
		for d, n := range []int{nx, ny, nz} {
			if !cfg.gridEnabled(d) {
				continue
			}
			at := abi.gridCount + cfg.gridSlot(d)
			if int(r.sreg(at)) != n {
				return pre + "sgpr-grid-workgroup-count", fmt.Sprintf("%s: s%d=%#x, work-group count in dimension %d is %d", where, at, r.sreg(at), d, n)
			}
		}
	}
	ids := [3]int{wg.IDX, wg.IDY, wg.IDZ}
	for d := 0; d < 3; d++ {
		if !cfg.wgEnabled(d) {
			continue
		}
		at := abi.wgID + cfg.wgSlot(d)
		if int(r.sreg(at)) != ids[d] {
			return pre + "sgpr-work-group-id-not-at-abi-position", fmt.Sprintf("%s: s%d=%#x, but work-group id %c is %d and the ABI puts it in s%d", where, at, r.sreg(at), "xyz"[d], ids[d], at)
		}
	}
	sx, sy, sz := int(g.W[0]), int(g.W[1]), int(g.W[2])
	for m := r.exec(); m != 0; m &= m - 1 {
		l := bits.TrailingZeros64(m)
		*lanes++
		var loc [3]int
		have := cfg.vgprIDs + 1
		if cfg.version == insts.CodeObjectV5 {
			v := r.vreg(l, 0)
			loc = [3]int{int(v & 0x3ff), int(v >> 10 & 0x3ff), int(v >> 20 & 0x3ff)}
			have = 3
			if v>>30 != 0 {
				return pre + "packed-v0-upper-bits", fmt.Sprintf("%s lane %d: v0=%#x", where, l, v)
			}
		} else {
			for d := 0; d < have; d++ {
				loc[d] = int(r.vreg(l, d))
			}
		}
		// the coordinates this lane stands for, from the kernels.WorkItem the builder put there
		flat := kwf.FirstWiFlatID + l
		want := [3]int{flat % (sx * sy) % sx, flat % (sx * sy) / sx, flat / (sx * sy)}
		for d := 0; d < have; d++ {
			if loc[d] != want[d] {
				what := "work-item-id-vgpr-wrong"
				if cfg.version == insts.CodeObjectV5 {
					what = "v0-not-packed-id"
				}
				return pre + what, fmt.Sprintf("%s lane %d (flat id %d = local (%d,%d,%d)): registers give local id component %c = %d (v0=%#x v1=%#x v2=%#x)", where, l, flat, want[0], want[1], want[2], "xyz"[d], loc[d], r.vreg(l, 0), r.vreg(l, 1), r.vreg(l, 2))
			}
		}
		// global coordinates from the hardware-initialised ids; dimensions the
		// code object did not ask for are taken from the descriptor
		var glob [3]int
		size := [3]int{sx, sy, sz}
		lim := [3]int{int(g.G[0]), int(g.G[1]), int(g.G[2])}
		for d := 0; d < 3; d++ {
			wgid := ids[d]
			if cfg.wgEnabled(d) {
				wgid = int(r.sreg(abi.wgID + cfg.wgSlot(d)))
			}
			lc := want[d]
			if d < have {
				lc = loc[d]
			}
			glob[d] = wgid*size[d] + lc
			if glob[d] >= lim[d] {
				return pre + "enabled-lane-outside-grid", fmt.Sprintf("%s lane %d: ids give global (%v) outside the grid", where, l, glob)
			}
		}
		ci := glob[0] + lim[0]*(glob[1]+lim[1]*glob[2])
		if cover[ci] != 0 {
			return pre + "work-item-executed-twice", fmt.Sprintf("%s lane %d: global id %v already taken", where, l, glob)
		}
		cover[ci] = 1
	}
	return "", ""
}

func checkRegInit(g geom, cfg regCfg, pl int, rig *timingRig, lanes *int64) *viol {
	return checkRegInitWith(codeObject(cfg), g, cfg, pl, rig, lanes, []string{"emu", "timing"})
}

// checkRegInitSeq: launch history. The same code object is launched with geometry prev and then with g on the
// same compute unit (timing mode); the registers of the second launch are judged exactly like a first launch.
func checkRegInitSeq(prev, g geom, cfg regCfg, pl int, lanes *int64) *viol {
	co := codeObject(cfg)
	rig := newTimingRig()
	var n int64
	if v := checkRegInitWith(co, prev, cfg, pl, rig, &n, []string{"timing"}); v != nil {
		return nil // a defect of the first launch alone is reported by the single-launch pass
	}
	v := checkRegInitWith(co, g, cfg, pl, rig, lanes, []string{"timing"})
	if v != nil {
		pg := prev
		v.sig = strings.Replace(v.sig, "reginit/", "reginit-after-another-launch/", 1)
		v.msg = "after a launch of the same kernel with " + prev.String() + " on the same compute unit: " + v.msg
		v.rc.Kind, v.rc.Prev = "reginit-seq", &pg
	}
	return v
}

func checkRegInitWith(co *insts.KernelCodeObject, g geom, cfg regCfg, pl int, rig *timingRig, lanes *int64, modes []string) *viol {
	mk := func(sig, msg string) *viol {
		return &viol{sig: sig, msg: g.String() + ": " + msg, rc: replayCase{Kind: "reginit", Geom: g, Config: cfg.name, Place: pl}, weight: weight(g)}
	}
	res := checkGrid(g, co)
	if res.v != nil || res.spans != nil {
		return nil // the builder's own defect is reported by the grid pass; registers of a malformed wavefront are not judged
	}
	for _, mode := range modes {
		cover := make([]uint8, g.items())
		for _, wg := range res.wgs {
			var twg *wavefront.WorkGroup
			if mode == "timing" {
				twg = wavefront.NewWorkGroup(wg, nil)
			}
			for wfi, kwf := range wg.Wavefronts {
				var regs laneRegs
				if mode == "emu" {
					wf := emu.NewWavefront(kwf)
					fill(wf.SRegFile)
					fill(wf.VRegFile)
					(&emu.ComputeUnit{}).VerifInitWfRegs(wf)
					regs = emuRegs{wf}
				} else {
					p := places[pl]
					fill(rig.sStore)
					fill(rig.vStore[p.simd])
					wf := wavefront.NewWavefront(kwf)
					wf.RegAccessor = &cu.CURegFileAccessor{CU: rig.cu, WF: wf}
					wf.WG = twg
					twg.Wfs = append(twg.Wfs, wf)
					rig.cu.WfDispatcher.DispatchWf(wf, protocol.WfDispatchLocation{Wavefront: kwf, SIMDID: p.simd, VGPROffset: p.vOff, SGPROffset: p.sOff})
					regs = timRegs{wf}
				}
				if sig, msg := checkRegs(mode, g, cfg, wg, wfi, kwf, regs, cover, lanes); sig != "" {
					return mk(sig, msg)
				}
			}
		}
		for i, c := range cover {
			if c == 0 {
				return mk("reginit/"+mode+"/"+cfg.name+"/work-item-never-executed", fmt.Sprintf("%s: global index %d enabled in no lane", mode, i))
			}
		}
	}
	return nil
}

// ---------------------------------------------------------------------------
// work-group filters of the unified multi-GPU launch (real driver)

func driverFilters(g geom, cus []int) (reqs []*protocol.LaunchKernelReq, err string) {
	defer func() {
		if r := recover(); r != nil {
			err = fmt.Sprint(r)
		}
	}()
	engine := sim.NewSerialEngine()
	d := driver.MakeBuilder().WithEngine(engine).WithLog2PageSize(26).WithPageTable(vm.NewPageTable(26)).Build("Driver")
	var ids []int
	for i, n := range cus {
		p := sim.NewPort(d, 4, 4, fmt.Sprintf("GPU[%d].CP", i+1))
		d.RegisterGPU(p, driver.DeviceProperties{CUCount: n, DRAMSize: 1 << 30})
		ids = append(ids, i+1)
	}
	ctx := d.Init()
	dev := d.CreateUnifiedGPU(ctx, ids)
	d.SelectGPU(ctx, dev)
	q := d.CreateCommandQueue(ctx)
	cmd := &driver.LaunchUnifiedMultiGPUKernelCommand{ID: "cmd", CodeObject: baseCO, GridSize: g.G, WGSize: g.W}
	// one packet per member GPU (+1 unused slot), as enqueueLaunchUnifiedKernel builds them
	cmd.PacketArray = make([]*kernels.HsaKernelDispatchPacket, len(ids)+1)
	cmd.DPacketArray = make([]driver.Ptr, len(ids)+1)
	for i := range ids {
		cmd.PacketArray[i] = g.packet()
		cmd.DPacketArray[i] = driver.Ptr(0x4000 + 0x100*i)
	}
	d.Enqueue(q, cmd)
	d.Tick()
	for _, m := range cmd.Reqs {
		reqs = append(reqs, m.(*protocol.LaunchKernelReq))
	}
	return reqs, ""
}

func checkFilters(g geom, cus []int, evals *int64, emptyReqs *int64) *viol {
	mk := func(sig, f string, a ...any) *viol {
		return &viol{sig: sig, msg: fmt.Sprintf("%s, unified device of GPUs with CU counts %v: ", g, cus) + fmt.Sprintf(f, a...),
			rc: replayCase{Kind: "filter", Geom: g, CUs: cus}, weight: weight(g)*16 + len(cus)}
	}
	reqs, err := driverFilters(g, cus)
	if err != "" {
		return mk("filter/driver-panics", "%s", err)
	}
	nx, ny, nz := g.numWG()
	total := nx * ny * nz
	// (1) the closures, evaluated on every work-group id
	accepted := make([]int, total)
	for _, rq := range reqs {
		if rq.WGFilter == nil {
			return mk("filter/request-without-filter", "LaunchKernelReq to %s has no WGFilter", rq.Dst)
		}
		for z := 0; z < nz; z++ {
			for y := 0; y < ny; y++ {
				for x := 0; x < nx; x++ {
					if rq.WGFilter(rq.Packet, &kernels.WorkGroup{IDX: x, IDY: y, IDZ: z}) {
						accepted[x+nx*(y+ny*z)]++
					}
				}
			}
		}
	}
	for i, n := range accepted {
		if n != 1 {
			return mk(fmt.Sprintf("filter/work-group-accepted-by-%s-gpus", map[bool]string{true: "no", false: "several"}[n == 0]), "work-group #%d (%d,%d,%d) of %d is accepted by %d of the %d requests", i, i%nx, i/nx%ny, i/nx/ny, total, n, len(reqs))
		}
	}
	// (2) the grid builder under each filter, as the command processor uses it
	seen := make([]int, total)
	sum := 0
	for ri, rq := range reqs {
		gb := kernels.NewGridBuilder()
		gb.SetKernel(kernels.KernelLaunchInfo{CodeObject: rq.CodeObject, Packet: rq.Packet, PacketAddr: rq.PacketAddress, WGFilter: rq.WGFilter})
		wgs, over := walk(gb, total+4)
		*evals++
		if over || len(wgs) != gb.NumWG() {
			return mk("filter/numwg-announced-differs-from-produced", "request %d: NumWG()=%d, NextWG produced %d", ri, gb.NumWG(), len(wgs))
		}
		if len(wgs) == 0 {
			atomic.AddInt64(emptyReqs, 1)
		}
		sum += len(wgs)
		for _, wg := range wgs {
			k := wg.IDX + nx*(wg.IDY+ny*wg.IDZ)
			if k < 0 || k >= total {
				return mk("filter/work-group-id-outside-grid", "request %d produced (%d,%d,%d)", ri, wg.IDX, wg.IDY, wg.IDZ)
			}
			seen[k]++
			if !rq.WGFilter(rq.Packet, wg) {
				return mk("filter/produced-work-group-rejected-by-its-filter", "request %d produced (%d,%d,%d)", ri, wg.IDX, wg.IDY, wg.IDZ)
			}
		}
		// Skip under a filter (the partition dispatcher)
		if len(wgs) > 1 {
			gb2 := kernels.NewGridBuilder()
			gb2.SetKernel(kernels.KernelLaunchInfo{CodeObject: rq.CodeObject, Packet: rq.Packet, PacketAddr: rq.PacketAddress, WGFilter: rq.WGFilter})
			k := len(wgs) / 2
			gb2.Skip(k)
			if !sameWG(gb2.NextWG(), wgs[k]) {
				return mk("filter/skip-differs-from-repeated-nextwg", "request %d Skip(%d)", ri, k)
			}
		}
	}
	if sum != total {
		return mk("filter/sum-of-numwg-differs-from-grid", "the %d requests announce %d work-groups in total, the grid has %d", len(reqs), sum, total)
	}
	for i, n := range seen {
		if n != 1 {
			return mk("filter/work-group-produced-"+map[bool]string{true: "never", false: "twice"}[n == 0], "work-group #%d produced %d times over all GPUs", i, n)
		}
	}
	return nil
}

// ---------------------------------------------------------------------------
// enumeration

func cross(gx, gy, gz []uint32, wx, wy, wz []uint16, out *[]geom, seen map[geom]bool) {
	for _, a := range gx {
		for _, b := range gy {
			for _, c := range gz {
				for _, d := range wx {
					for _, e := range wy {
						for _, f := range wz {
							if int(d)*int(e)*int(f) > 1024 {
								continue
							}
							g := geom{[3]uint32{a, b, c}, [3]uint16{d, e, f}}
							if !seen[g] {
								seen[g] = true
								*out = append(*out, g)
							}
						}
					}
				}
			}
		}
	}
}

func u32(v ...int) []uint32 {
	var o []uint32
	for _, x := range v {
		o = append(o, uint32(x))
	}
	return o
}
func u16(v ...int) []uint16 {
	var o []uint16
	for _, x := range v {
		o = append(o, uint16(x))
	}
	return o
}
func rng(a, b int) []int {
	var o []int
	for i := a; i <= b; i++ {
		o = append(o, i)
	}
	return o
}

var xAlpha = []int{1, 2, 3, 5, 7, 8, 15, 16, 17, 48, 63, 64, 65, 100, 128, 255, 256}

func geometries(thorough bool) []geom {
	var out []geom
	seen := map[geom]bool{}
	one32, one16 := u32(1), u16(1)
	if !thorough {
		// 1-D: the designed x alphabet and a few larger sizes
		cross(u32(append(xAlpha, 257, 1000, 1023, 1024, 1025, 4097)...), one32, one32, u16(append(xAlpha, 512, 1024)...), one16, one16, &out, seen)
		// 2-D
		cross(u32(1, 3, 7, 16, 17, 48, 63, 64, 65, 100, 128), u32(1, 2, 3, 4, 5, 8, 17), one32, u16(1, 3, 8, 16, 17, 48, 63, 64, 65), u16(1, 2, 3, 4, 5, 8, 16), one16, &out, seen)
		// 3-D
		cross(u32(1, 5, 17, 48, 63, 64, 65), u32(1, 3, 4, 5), u32(1, 2, 3), u32ToU16(u32(1, 3, 16, 17, 48, 64)), u16(1, 2, 4, 5), u16(1, 2, 3), &out, seen)
		// dense small box (2-D), which also yields the minimal counterexamples
		cross(u32(rng(1, 20)...), u32(rng(1, 6)...), one32, u16(rng(1, 20)...), u16(rng(1, 6)...), one16, &out, seen)
		return out
	}
	cross(u32(append(rng(1, 600), 1000, 1023, 1024, 1025, 2047, 2048, 2049, 4097, 65537)...), one32, one32, u16(append(rng(1, 130), 255, 256, 257, 511, 512, 513, 1023, 1024)...), one16, one16, &out, seen)
	x2 := append(append([]int{}, xAlpha...), 31, 32, 33, 47, 49, 96, 127, 129, 200)
	cross(u32(x2...), u32(1, 2, 3, 4, 5, 6, 7, 8, 15, 16, 17, 31, 32, 33), one32, u16(x2...), u16(1, 2, 3, 4, 5, 6, 7, 8, 15, 16, 17, 32, 33, 64), one16, &out, seen)
	cross(u32(xAlpha...), u32(1, 2, 3, 4, 5, 8, 17), u32(1, 2, 3, 4, 5), u16(xAlpha...), u16(1, 2, 3, 4, 5, 8, 16), u16(1, 2, 3, 4, 5), &out, seen)
	cross(u32(rng(1, 40)...), u32(rng(1, 8)...), one32, u16(rng(1, 40)...), u16(rng(1, 8)...), one16, &out, seen)
	cross(u32(rng(1, 10)...), u32(rng(1, 6)...), u32(rng(1, 4)...), u16(rng(1, 10)...), u16(rng(1, 6)...), u16(rng(1, 4)...), &out, seen)
	return out
}

func u32ToU16(v []uint32) []uint16 {
	var o []uint16
	for _, x := range v {
		o = append(o, uint16(x))
	}
	return o
}

// regInitGeometries: the sub-lattice on which the registers of both modes are decoded.
func regInitGeometries(thorough bool) []geom {
	var out []geom
	seen := map[geom]bool{}
	one32, one16 := u32(1), u16(1)
	if !thorough {
		cross(u32(1, 63, 64, 65, 100, 256), one32, one32, u16(1, 17, 64, 100, 256), one16, one16, &out, seen)
		cross(u32(1, 7, 16, 48, 65), u32(1, 3, 4), one32, u16(1, 8, 16, 17, 64), u16(1, 2, 4, 16), one16, &out, seen)
		cross(u32(1, 5, 16, 17), u32(1, 3, 4), u32(1, 2, 3), u16(1, 4, 16), u16(1, 2, 4), u16(1, 2, 3), &out, seen)
		return out
	}
	cross(u32(1, 2, 63, 64, 65, 100, 128, 255, 256, 257, 1025), one32, one32, u16(1, 2, 17, 63, 64, 65, 100, 256, 1024), one16, one16, &out, seen)
	cross(u32(1, 3, 7, 16, 17, 48, 63, 64, 65, 100), u32(1, 2, 3, 4, 5, 8), one32, u16(1, 3, 8, 16, 17, 48, 64, 65), u16(1, 2, 3, 4, 8, 16), one16, &out, seen)
	cross(u32(1, 5, 16, 17, 48, 64), u32(1, 3, 4, 5), u32(1, 2, 3), u16(1, 3, 4, 16, 48, 64), u16(1, 2, 4, 5), u16(1, 2, 3), &out, seen)
	return out
}

func cuVectors(thorough bool) [][]int {
	alpha := []int{1, 2, 4, 64}
	if thorough {
		alpha = []int{1, 2, 3, 4, 7, 36, 64}
	}
	var out [][]int
	var rec func(cur []int, n int)
	rec = func(cur []int, n int) {
		if len(cur) == n {
			out = append(out, append([]int(nil), cur...))
			return
		}
		for _, a := range alpha {
			rec(append(cur, a), n)
		}
	}
	for n := 1; n <= 4; n++ {
		rec(nil, n)
	}
	return out
}

// filterGeometries: every work-group count 1..40 as a 1-D grid, and 2-D/3-D
// factorizations with partial last work-groups.
func filterGeometries(thorough bool) []geom {
	var out []geom
	for k := 1; k <= 40; k++ {
		out = append(out, geom{[3]uint32{uint32(64*k - 5), 1, 1}, [3]uint16{64, 1, 1}})
	}
	for a := 1; a <= 8; a++ {
		for b := 1; b <= 5; b++ {
			if !thorough && (a+b)%2 == 1 {
				continue
			}
			out = append(out, geom{[3]uint32{uint32(8*a - 3), uint32(4 * b), 1}, [3]uint16{8, 4, 1}})
		}
	}
	for a := 1; a <= 4; a++ {
		for b := 1; b <= 5; b++ {
			for c := 1; c <= 2; c++ {
				if !thorough && (a+b+c)%3 != 0 {
					continue
				}
				out = append(out, geom{[3]uint32{uint32(4 * a), uint32(3*b - 1), uint32(2 * c)}, [3]uint16{4, 3, 2}})
			}
		}
	}
	return out
}

func cfgByName(n string) (regCfg, bool) {
	for _, c := range regCfgs {
		if c.name == n {
			return c, true
		}
	}
	return regCfg{}, false
}

func main() {
	log.SetOutput(io.Discard)
	r := harness.Start("C08", "exploration")
	if r.Replay != "" {
		replay(r)
		return
	}
	col := &collector{m: map[string]*viol{}, cnt: map[string]int{}}
	exhaustive := true

	// ---- (1) geometries x grid builder
	t0 := time.Now()
	geoms := geometries(r.Thorough())
	sort.Slice(geoms, func(i, j int) bool { return weight(geoms[i]) < weight(geoms[j]) })
	var nGeom, nWG, nWf, nItems, nSkip, nPartial int64
	classes := sync.Map{}
	if !r.ForEach(len(geoms), func(i int) {
		g := geoms[i]
		res := checkGrid(g, baseCO)
		atomic.AddInt64(&nGeom, 1)
		atomic.AddInt64(&nItems, int64(g.items()))
		col.add(res.spans)
		if res.v != nil {
			col.add(res.v)
			return
		}
		var wfs, part int64
		for _, wg := range res.wgs {
			wfs += int64(len(wg.Wavefronts))
			if partialDims(wg) != "" {
				part++
			}
		}
		atomic.AddInt64(&nWG, int64(len(res.wgs)))
		atomic.AddInt64(&nWf, wfs)
		atomic.AddInt64(&nPartial, part)
		dim := 1
		if g.G[1] > 1 || g.W[1] > 1 {
			dim = 2
		}
		if g.G[2] > 1 || g.W[2] > 1 {
			dim = 3
		}
		if res.spans == nil {
			classes.Store(fmt.Sprintf("%dD/partial=%v/row-pow2=%v/wg>64=%v", dim, part > 0, g.W[0]&(g.W[0]-1) == 0, g.wgItems() > 64), true)
		}
		if g.items() <= 1<<15 {
			var n int64
			col.add(checkSkip(g, baseCO, res.wgs, &n))
			atomic.AddInt64(&nSkip, n)
		}
	}) {
		exhaustive = false
	}
	tGrid := time.Since(t0).Seconds()
	fmt.Printf("grid builder: %d geometries, %d work-groups (%d partial), %d wavefronts, %d work-items, %d Skip comparisons\n", nGeom, nWG, nPartial, nWf, nItems, nSkip)

	// ---- (2) register initialisation, both modes
	rgeoms := regInitGeometries(r.Thorough())
	type rtask struct {
		g   geom
		cfg regCfg
		pl  int
	}
	var rtasks []rtask
	for gi, g := range rgeoms {
		for ci, c := range regCfgs {
			if !r.Thorough() && ci >= 2 && gi%4 != ci%4 { // quick: the two main conventions everywhere, the others on a quarter each
				continue
			}
			rtasks = append(rtasks, rtask{g, c, (gi + ci) % len(places)})
		}
	}
	rigs := make(chan *timingRig, 64)
	var nReg, nLanes int64
	if !r.ForEach(len(rtasks), func(i int) {
		var rig *timingRig
		select {
		case rig = <-rigs:
		default:
			rig = newTimingRig()
		}
		t := rtasks[i]
		var lanes int64
		col.add(checkRegInit(t.g, t.cfg, t.pl, rig, &lanes))
		atomic.AddInt64(&nReg, 1)
		atomic.AddInt64(&nLanes, lanes)
		rigs <- rig
	}) {
		exhaustive = false
	}
	// ---- (1c) one grid builder, two kernels in a row (ordered pairs of small geometries with partial edges; several
	// share the truncated extent of their edge work-groups although their work-group shapes differ)
	reuse := []geom{
		{G: [3]uint32{12, 4, 1}, W: [3]uint16{8, 8, 1}}, {G: [3]uint32{20, 4, 1}, W: [3]uint16{16, 4, 1}}, {G: [3]uint32{12, 4, 1}, W: [3]uint16{16, 4, 1}},
		{G: [3]uint32{10, 1, 1}, W: [3]uint16{4, 1, 1}}, {G: [3]uint32{10, 1, 1}, W: [3]uint16{8, 1, 1}}, {G: [3]uint32{130, 1, 1}, W: [3]uint16{64, 1, 1}},
		{G: [3]uint32{130, 1, 1}, W: [3]uint16{128, 1, 1}}, {G: [3]uint32{7, 9, 1}, W: [3]uint16{4, 4, 1}}, {G: [3]uint32{9, 7, 1}, W: [3]uint16{4, 4, 1}},
		{G: [3]uint32{7, 9, 1}, W: [3]uint16{8, 4, 1}}, {G: [3]uint32{6, 6, 3}, W: [3]uint16{4, 4, 2}}, {G: [3]uint32{5, 6, 3}, W: [3]uint16{4, 2, 2}},
		{G: [3]uint32{6, 6, 3}, W: [3]uint16{4, 8, 2}}, {G: [3]uint32{64, 2, 1}, W: [3]uint16{64, 1, 1}}, {G: [3]uint32{3, 3, 3}, W: [3]uint16{2, 2, 2}},
		{G: [3]uint32{3, 3, 3}, W: [3]uint16{4, 2, 2}},
	}
	var nReuse int64
	if !r.ForEach(len(reuse)*len(reuse), func(i int) {
		a, b := reuse[i/len(reuse)], reuse[i%len(reuse)]
		col.add(checkReuse(a, b, baseCO))
		atomic.AddInt64(&nReuse, 1)
	}) {
		exhaustive = false
	}
	fmt.Printf("grid builder reuse: %d ordered pairs of kernels on one builder (after a complete and after a partial first kernel)\n", nReuse)
	r.Cov["gridbuilder_reuse_ordered_pairs"] = nReuse

	// ---- (2b) launch history: the same kernel launched twice with different work-group shapes on one CU
	shapes := []geom{
		{G: [3]uint32{32, 32, 1}, W: [3]uint16{16, 16, 1}}, {G: [3]uint32{64, 16, 1}, W: [3]uint16{32, 8, 1}}, {G: [3]uint32{512, 1, 1}, W: [3]uint16{256, 1, 1}},
		{G: [3]uint32{16, 16, 1}, W: [3]uint16{8, 8, 1}}, {G: [3]uint32{12, 10, 6}, W: [3]uint16{6, 5, 3}}, {G: [3]uint32{6, 10, 12}, W: [3]uint16{3, 5, 6}},
		{G: [3]uint32{128, 1, 1}, W: [3]uint16{64, 1, 1}}, {G: [3]uint32{2, 128, 1}, W: [3]uint16{1, 64, 1}}, {G: [3]uint32{100, 3, 1}, W: [3]uint16{50, 3, 1}},
		{G: [3]uint32{7, 9, 1}, W: [3]uint16{4, 4, 1}},
	}
	type stask struct {
		a, b geom
		cfg  regCfg
	}
	var stasks []stask
	for ci, c := range regCfgs {
		if !r.Thorough() && ci >= 2 {
			continue
		}
		for i, a := range shapes {
			for j, b := range shapes {
				if i != j {
					stasks = append(stasks, stask{a, b, c})
				}
			}
		}
	}
	var nSeq int64
	if !r.ForEach(len(stasks), func(i int) {
		var lanes int64
		col.add(checkRegInitSeq(stasks[i].a, stasks[i].b, stasks[i].cfg, i%len(places), &lanes))
		atomic.AddInt64(&nSeq, 1)
		atomic.AddInt64(&nLanes, lanes)
	}) {
		exhaustive = false
	}
	fmt.Printf("register initialisation after another launch of the same kernel: %d ordered shape pairs x conventions\n", nSeq)
	r.Cov["reginit_launch_sequences"] = nSeq
	tReg := time.Since(t0).Seconds() - tGrid
	fmt.Printf("register initialisation: %d (geometry, code-object convention, placement) cases in both modes, %d enabled lanes decoded\n", nReg, nLanes)

	// ---- (3) work-group filters from the real driver
	fgeoms := filterGeometries(r.Thorough())
	vecs := cuVectors(r.Thorough())
	var nFilt, nFiltWalk, emptyReqs int64
	if !r.ForEach(len(fgeoms)*len(vecs), func(i int) {
		var n int64
		col.add(checkFilters(fgeoms[i%len(fgeoms)], vecs[i/len(fgeoms)], &n, &emptyReqs))
		atomic.AddInt64(&nFilt, 1)
		atomic.AddInt64(&nFiltWalk, n)
	}) {
		exhaustive = false
	}
	tFilt := time.Since(t0).Seconds() - tGrid - tReg
	fmt.Printf("filters: %d (geometry, CU-count vector) cases through the real driver, %d filtered grid walks, %d requests whose filter accepts no work-group\n", nFilt, nFiltWalk, emptyReqs)

	// ---- report, minimal case per signature, in a fixed order
	var sigs []string
	for s := range col.m {
		sigs = append(sigs, s)
	}
	sort.Strings(sigs)
	per := map[string]int{}
	for _, s := range sigs {
		v := col.m[s]
		per[s] = col.cnt[s]
		r.Report(v.sig, fmt.Sprintf("%s  [%d cases with this signature; this is the smallest]", v.msg, col.cnt[s]), v.rc)
	}
	ncls := 0
	var clsList []string
	classes.Range(func(k, _ any) bool { ncls++; clsList = append(clsList, k.(string)); return true })
	sort.Strings(clsList)
	r.Cov["evaluations"] = nGeom + nReg + nFilt
	r.Cov["distinct_nontrivial"] = ncls
	r.Cov["geometry_classes"] = clsList
	r.Cov["rule"] = "evaluations = dispatch geometries driven through the real GridBuilder + (geometry, code-object convention, placement) register-initialisation cases run in both modes + (geometry, CU-count vector) cases run through the real driver; distinct_nontrivial = geometry classes (dimensionality x has a partial work-group x power-of-two row x work-group larger than a wavefront) that passed all grid checks"
	r.Cov["exhaustive"] = exhaustive
	r.Cov["geometries"] = nGeom
	r.Cov["work_groups"] = nWG
	r.Cov["partial_work_groups"] = nPartial
	r.Cov["wavefronts"] = nWf
	r.Cov["work_items"] = nItems
	r.Cov["skip_comparisons"] = nSkip
	r.Cov["reginit_cases"] = nReg
	r.Cov["reginit_enabled_lanes_decoded"] = nLanes
	r.Cov["filter_cases"] = nFilt
	r.Cov["filter_cu_vectors"] = len(vecs)
	r.Cov["filter_geometries"] = len(fgeoms)
	r.Cov["filter_requests_accepting_no_work_group"] = emptyReqs
	r.Cov["cases_per_signature"] = per
	r.Cov["phase_wall_s"] = map[string]float64{"grid": tGrid, "reginit": tReg, "filters": tFilt}
	if len(geoms) > 0 {
		r.Sample(map[string]any{"geometry": geoms[len(geoms)/2].String(), "checks": "NumWG, NextWG walk, ISA lane mapping, coverage of the grid by enabled lanes, Skip"})
		r.Sample(map[string]any{"reginit": rtasks[len(rtasks)/2].g.String(), "config": rtasks[len(rtasks)/2].cfg.name, "modes": "emu initWfRegs + timing DispatchWf"})
		r.Sample(map[string]any{"filter": fgeoms[len(fgeoms)/2].String(), "cu_counts": vecs[len(vecs)/2]})
	}
	r.Assume = []string{
		"grid and work-group sizes >= 1, work-group size <= 1024 work-items (HSA limits)",
		"the lane <-> work-item convention is the ISA's: flat local id = x + y*SizeX + z*SizeX*SizeY over the FULL work-group size, wavefront = flat/64, lane = flat%64; the hardware id registers follow from FirstWiFlatID+lane (this is what both initialisation routines implement)",
		"SGPR positions follow the AMDGPU kernel ABI set-up order for the enabled user/system SGPRs",
		"unified-GPU launch: the LaunchUnifiedMultiGPUKernelCommand is built as enqueueLaunchUnifiedKernel builds it (one packet per member GPU); the memory-copy commands that precede it are not part of the case",
	}
	// the partition of one grid over the compute units by the real dispatchers (round-robin, greedy, partition
	// algorithms; real command processor, explorer-driven CUs): auxiliary binary built from checks/c09
	r.RunPart("dispatch", "-part-of=C08")
	r.Finish()
}

func replay(r *harness.Run) {
	data, err := os.ReadFile(r.Replay)
	if err != nil {
		fmt.Fprintln(os.Stderr, err)
		os.Exit(2)
	}
	var f struct {
		Signature string     `json:"signature"`
		Case      replayCase `json:"case"`
	}
	if err := json.Unmarshal(data, &f); err != nil {
		fmt.Fprintln(os.Stderr, err)
		os.Exit(2)
	}
	c := f.Case
	if c.Kind == "" && bytes.Contains(data, []byte(`"scenario"`)) {
		// a finding of the dispatching part (explorer replay file)
		os.Exit(harness.RunPartBinary("dispatch", "-part-of=C08", "-replay", r.Replay))
	}
	run := func() *viol {
		switch c.Kind {
		case "grid":
			res := checkGrid(c.Geom, baseCO)
			if res.v != nil {
				return res.v
			}
			return res.spans
		case "skip":
			res := checkGrid(c.Geom, baseCO)
			if res.v != nil {
				return res.v
			}
			var n int64
			return checkSkip(c.Geom, baseCO, res.wgs, &n)
		case "reginit", "reginit-seq":
			cfg, ok := cfgByName(c.Config)
			if !ok {
				fmt.Fprintln(os.Stderr, "unknown config", c.Config)
				os.Exit(2)
			}
			var n int64
			if c.Kind == "reginit-seq" && c.Prev != nil {
				return checkRegInitSeq(*c.Prev, c.Geom, cfg, c.Place, &n)
			}
			return checkRegInit(c.Geom, cfg, c.Place, newTimingRig(), &n)
		case "filter":
			var n, e int64
			return checkFilters(c.Geom, c.CUs, &n, &e)
		case "reuse":
			return checkReuse(*c.Prev, c.Geom, baseCO)
		}
		fmt.Fprintln(os.Stderr, "unknown case kind", c.Kind)
		os.Exit(2)
		return nil
	}
	fmt.Printf("replaying %s case: %s %s %v\n", c.Kind, c.Geom, c.Config, c.CUs)
	var first string
	var v *viol
	for i := 0; i < 3; i++ {
		v = run()
		s := ""
		if v != nil {
			s = v.sig + "|" + v.msg
		}
		if i > 0 && s != first {
			fmt.Println("INFRASTRUCTURE ERROR: nondeterministic replay")
			os.Exit(2)
		}
		first = s
	}
	if v != nil {
		fmt.Printf("VIOLATION property=C08 replay=%s\n  signature: %s\n  %s\n", r.Replay, v.sig, strings.ReplaceAll(v.msg, "\n", "\n  "))
		os.Exit(1)
	}
	fmt.Println("replay: no violation")
	os.Exit(0)
}
