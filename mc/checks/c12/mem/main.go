// C12, memory-effects part: "commands placed in one queue take effect one at
// a time in submission order, each observing all memory effects of its
// predecessors, and commands of other queues or contexts never disturb their
// data". Real driver (default copy middleware) + real command processor + real
// DMA engines under the real serial engine; the environment plays the compute
// unit, the write-back cache and the memory, and the explorer owns kernel
// completion times, flush-acknowledgement delays and memory response order.
// Runs as a sub-part of the C12 check (evidence/parts/C12.mem.json).
package main

import (
	"verif/mc/dmaworld"
	"verif/mc/harness"
)

func main() {
	r := harness.StartPart("C12", "mem", "model_checking")
	scs := dmaworld.QueueScenarios(r.Thorough() || r.Replay != "")
	r.Assume = []string{
		"the application enqueues all commands before the engine starts (thread interleavings with the engine are the E3 part of C12)",
		"the environment's compute unit stores a kernel's pattern dirty into a write-back cache when its completion is delivered; a cache flush request writes it back; DMA reads and writes go to DRAM",
		"commands of different queues touch disjoint byte ranges",
	}
	r.Phase(0.3, func() { r.RunScenarios(scs) })
	r.Cov["rule"] = "every choice vector (kernel completion times and order, flush-acknowledgement delays, memory response order and delay, wire back-pressure) with at most `bound` deviations, executed on the real driver middleware + command processor + DMA engines; oracle per execution: every D2H returns, byte for byte, what the last writer before it in its own queue stored (kernel pattern, H2D payload or initial memory); every command completes exactly once"
	r.Finish()
}
