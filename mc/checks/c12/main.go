// C12: command queues are FIFO and waiting on them always terminates.
// Real instrumented driver + real instrumented serial engine under the E3
// controlled scheduler; all interleavings within a preemption bound.
package main

import (
	"encoding/json"
	"fmt"
	"os"
	"os/exec"
	"strings"

	"verif/mc/e3drive"
	"verif/mc/e3scn"
	"verif/mc/harness"
)

func scenarios(thorough bool) []e3drive.Scenario {
	o := e3scn.Opts{RspLatency: 1}
	b := 2
	if thorough {
		b = 3
	}
	var scs []e3drive.Scenario
	add := func(sc e3scn.Scenario, bound int) {
		scs = append(scs, e3drive.Scenario{Sc: sc, Bound: bound})
	}
	// b3: bound 3 in the thorough tier for the scenarios whose bound-3 space is
	// affordable (measured: 2cmd ~1.5e6 executions); the larger ones stay at 2.
	b3 := b
	add(e3scn.Commands1Q(1, o), b3)
	add(e3scn.Commands1Q(2, o), b3)
	add(e3scn.Commands1Q(3, o), 2)
	add(e3scn.BackToBack(2, o), b3)
	ot := o
	ot.TailTicks = 3
	add(e3scn.BackToBack(2, ot), 2)
	add(e3scn.TwoQueues(o), 2)
	add(e3scn.TwoThreads(false, o), 2)
	add(e3scn.TwoThreads(true, o), 2)
	om := o
	om.Magic = true
	add(e3scn.Commands1Q(3, om), b3)
	// two GPUs, the far one slow to acknowledge the flush: the D2H after the kernel completes in the driver's
	// flush-return path
	o2 := o
	o2.GPUs, o2.FarFlushLatency = 2, 4
	add(e3scn.Kernel1Q(o2), 1)
	if thorough {
		add(e3scn.BackToBack(3, o), 2)
		add(e3scn.Kernel1Q(o), 2)
	} else {
		add(e3scn.Kernel1Q(o), 1)
	}
	return scs
}

func main() {
	r := harness.Start("C12", "model_checking")
	scs := scenarios(r.Thorough() || r.Replay != "") // replay: every scenario of either tier
	if r.Replay != "" {
		// race findings are replayed by re-sampling free runs
		var f struct {
			Signature string             `json:"signature"`
			Case      harness.ReplayCase `json:"case"`
		}
		if data, err := os.ReadFile(r.Replay); err == nil && json.Unmarshal(data, &f) == nil && strings.HasPrefix(f.Case.Scenario, "race:") {
			replayRace(r, strings.TrimPrefix(f.Case.Scenario, "race:"), f.Signature, 300)
		}
		if strings.HasPrefix(f.Case.Scenario, "q/") {
			os.Exit(runMemBinary("-replay", r.Replay))
		}
	}
	r.Assume = []string{
		"memory model: sequential consistency at shim operations (mutex, channel, select, atomic, WaitGroup); accesses between two shim operations of a thread are atomic for the controlled scheduler, so unsynchronised accesses are only covered by the supplementary -race pass",
		"Unlock/RUnlock/WaitGroup.Done are not scheduling points (pure releases commute to the left of other threads' operations; every equivalence class within the bound is still covered, see notes/E3.md)",
		"a switch at a blocking point to a thread other than the lowest enabled id is counted as a deviation (the bound is slightly stricter than CHESS preemption bounding)",
		"GPU side = minimal responder (1-cycle latency) behind a real akita direct connection; default memory-copy middleware unless the scenario name ends in -magic",
		"select with several ready cases: the choice is explored (counts as a deviation)",
		"message/command ids (global sequential generator) are only compared for equality",
	}
	e3drive.Main(r, scs, "every schedule of the instrumented driver/engine threads with at most `preemption_bound` non-default scheduling decisions is executed once on a fresh driver+engine+responder")
	iters := 300
	if r.Thorough() {
		iters = 2000
	}
	racePass(r, iters)
	memPart(r)
	r.Finish()
}

// runMemBinary runs the auxiliary binary of the memory-effects part (plain
// build: uninstrumented driver and akita under the E1/E4 explorer) with the
// standard streams passed through.
func runMemBinary(args ...string) int {
	cmd := exec.Command(os.Args[0]+"-mem", args...)
	cmd.Stdout, cmd.Stderr = os.Stdout, os.Stderr
	if err := cmd.Run(); err != nil {
		if ee, ok := err.(*exec.ExitError); ok {
			return ee.ExitCode()
		}
		fmt.Fprintln(os.Stderr, "memory-effects part:", err)
		return 2
	}
	return 0
}

// memPart: "each command observes all memory effects of its predecessors in
// its queue; other queues never disturb its data" on the real driver copy
// middleware + command processor + DMA engines (see checks/c12/mem).
func memPart(r *harness.Run) {
	os.Remove(harness.Dir() + "/evidence/parts/C12.mem.json")
	rc := runMemBinary("-tier", r.Tier)
	p, err := harness.ReadPart("C12", "mem")
	if err != nil || rc == 2 || rc > 2 {
		r.Infra("memory-effects part: exit %d, evidence: %v", rc, err)
		return
	}
	if rc == 1 {
		r.NoteExternalViolations(p.Violations, "memory-effects part")
	}
	if kh, ok := p.Coverage["known_findings_reobserved"].([]any); ok {
		for _, k := range kh {
			r.NoteKnownHit(fmt.Sprint(k))
		}
	}
	delete(p.Coverage, "known_findings_reobserved")
	r.Cov["memory_effects_part"] = p.Coverage
	add := func(k string) {
		a, _ := r.Cov[k].(int64)
		if f, ok := r.Cov[k].(int); ok {
			a = int64(f)
		}
		if b, ok := p.Coverage[k].(float64); ok {
			r.Cov[k] = a + int64(b)
		}
	}
	for _, k := range []string{"evaluations", "states", "transitions", "traces_validated_against_impl", "distinct_nontrivial"} {
		add(k)
	}
	if ex, ok := p.Coverage["exhaustive"].(bool); ok && !ex {
		r.Cov["exhaustive"] = false
	}
	r.Assume = append(r.Assume, p.Assume...)
}
