// C12: command queues are FIFO and waiting on them always terminates.
// Real instrumented driver + real instrumented serial engine under the E3
// controlled scheduler; all interleavings within a preemption bound.
package main

import (
	"fmt"
	"encoding/json"
	"os"
	"strings"

	"verif/mc/e3drive"
	"verif/mc/e3scn"
	"verif/mc/harness"
)

func scenarios(thorough bool) []e3drive.Scenario {
	o := e3scn.Opts{RspLatency: 1}
	b := 2
	if thorough {
		b = 3
	}
	var scs []e3drive.Scenario
	add := func(sc e3scn.Scenario, bound int) {
		scs = append(scs, e3drive.Scenario{Sc: sc, Bound: bound})
	}
	// b3: bound 3 in the thorough tier for the scenarios whose bound-3 space is
	// affordable (measured: 2cmd ~1.5e6 executions); the larger ones stay at 2.
	b3 := b
	add(e3scn.Commands1Q(1, o), b3)
	add(e3scn.Commands1Q(2, o), b3)
	add(e3scn.Commands1Q(3, o), 2)
	add(e3scn.BackToBack(2, o), b3)
	ot := o
	ot.TailTicks = 3
	add(e3scn.BackToBack(2, ot), 2)
	add(e3scn.TwoQueues(o), 2)
	add(e3scn.TwoThreads(false, o), 2)
	add(e3scn.TwoThreads(true, o), 2)
	oneq := 1
	if thorough {
		oneq = 2
	}
	if v := os.Getenv("C12_ONEQ_BOUND"); v != "" { // development aid
		fmt.Sscan(v, &oneq)
	}
	add(e3scn.TwoThreadsOneQueue(o), oneq)
	add(e3scn.TwoThreadsOneQueueNoop(o), oneq+1)
	add(e3scn.ThreeDrainers(o), oneq+1)
	om := o
	om.Magic = true
	add(e3scn.Commands1Q(3, om), b3)
	// two GPUs, the far one slow to acknowledge the flush: the D2H after the kernel completes in the driver's
	// flush-return path
	o2 := o
	o2.GPUs, o2.FarFlushLatency = 2, 4
	add(e3scn.Kernel1Q(o2), 1)
	// a kernel on a unified device: one launch request per member GPU, completions in the same cycle (equal
	// latencies) and in different cycles
	for _, lat := range [][2]int{{1, 1}, {1, 2}, {2, 1}, {3, 1}, {1, 3}} {
		ou := o
		ou.RspLatency, ou.GPUs, ou.FarFlushLatency = lat[0], 2, lat[1]
		add(e3scn.UnifiedKernel(ou), 1)
	}
	if thorough {
		add(e3scn.BackToBack(3, o), 2)
		add(e3scn.Kernel1Q(o), 2)
	} else {
		add(e3scn.Kernel1Q(o), 1)
	}
	return scs
}

func main() {
	r := harness.Start("C12", "model_checking")
	scs := scenarios(r.Thorough() || r.Replay != "") // replay: every scenario of either tier
	if r.Replay != "" {
		// race findings are replayed by re-sampling free runs
		var f struct {
			Signature string             `json:"signature"`
			Case      harness.ReplayCase `json:"case"`
		}
		if data, err := os.ReadFile(r.Replay); err == nil && json.Unmarshal(data, &f) == nil && strings.HasPrefix(f.Case.Scenario, "race:") {
			replayRace(r, strings.TrimPrefix(f.Case.Scenario, "race:"), f.Signature, 300)
		}
		if strings.HasPrefix(f.Case.Scenario, "q/") {
			os.Exit(harness.RunPartBinary("mem", "-replay", r.Replay))
		}
	}
	r.Assume = []string{
		"memory model: sequential consistency at shim operations (mutex, channel, select, atomic, WaitGroup); accesses between two shim operations of a thread are atomic for the controlled scheduler, so unsynchronised accesses are only covered by the supplementary -race pass",
		"Unlock/RUnlock/WaitGroup.Done are not scheduling points (pure releases commute to the left of other threads' operations; every equivalence class within the bound is still covered, see notes/E3.md)",
		"a switch at a blocking point to a thread other than the lowest enabled id is counted as a deviation (the bound is slightly stricter than CHESS preemption bounding)",
		"GPU side = minimal responder (1-cycle latency) behind a real akita direct connection; default memory-copy middleware unless the scenario name ends in -magic",
		"select with several ready cases: the choice is explored (counts as a deviation)",
		"message/command ids (global sequential generator) are only compared for equality",
	}
	e3drive.Main(r, scs, "every schedule of the instrumented driver/engine threads with at most `preemption_bound` non-default scheduling decisions is executed once on a fresh driver+engine+responder")
	iters := 300
	if r.Thorough() {
		iters = 2000
	}
	racePass(r, iters)
	// memory effects across queues on the real driver middleware + CP + DMA engines (see checks/c12/mem)
	r.RunPart("mem")
	r.Finish()
}
