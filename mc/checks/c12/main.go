// C12: command queues are FIFO and waiting on them always terminates.
// Real instrumented driver + real instrumented serial engine under the E3
// controlled scheduler; all interleavings within a preemption bound.
package main

import (
	"verif/mc/e3drive"
	"verif/mc/e3scn"
	"verif/mc/harness"
)

func scenarios(thorough bool) []e3drive.Scenario {
	o := e3scn.Opts{RspLatency: 1}
	b := 2
	if thorough {
		b = 3
	}
	var scs []e3drive.Scenario
	add := func(sc e3scn.Scenario, bound int) {
		scs = append(scs, e3drive.Scenario{Sc: sc, Bound: bound})
	}
	add(e3scn.Commands1Q(1, o), b)
	add(e3scn.Commands1Q(2, o), b)
	add(e3scn.Commands1Q(3, o), b)
	add(e3scn.BackToBack(2, o), b)
	add(e3scn.TwoQueues(o), b)
	add(e3scn.TwoThreads(false, o), b)
	add(e3scn.TwoThreads(true, o), b)
	add(e3scn.Kernel1Q(o), b)
	om := o
	om.Magic = true
	add(e3scn.Commands1Q(3, om), b)
	return scs
}

func main() {
	r := harness.Start("C12", "model_checking")
	scs := scenarios(r.Thorough())
	e3drive.Main(r, scs, "every schedule of the instrumented driver/engine threads with at most `preemption_bound` non-default scheduling decisions is executed once on a fresh driver+engine+responder")
	r.Finish()
}
