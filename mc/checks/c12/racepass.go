package main

import (
	"bytes"
	"fmt"
	"os"
	"os/exec"
	"regexp"
	"sort"
	"strings"
	"time"

	"verif/mc/e3scn"
	"verif/mc/harness"
)

// The free-running -race pass (supplementary, sampling): the same scenario
// bodies, uninstrumented, under the Go race detector with GOMAXPROCS=16.

type raceReport struct {
	Sig   string
	Text  string
	Count int
}

var frameRe = regexp.MustCompile(`^  (\S.*)\(\)$`)

// parseRaces extracts one signature per DATA RACE block: the innermost
// repository/akita frame of each of the two accesses, order-independent.
func parseRaces(stderr string) []raceReport {
	var out []raceReport
	idx := map[string]int{}
	for _, blk := range strings.Split(stderr, "WARNING: DATA RACE")[1:] {
		if i := strings.Index(blk, "=================="); i >= 0 {
			blk = blk[:i]
		}
		var tops []string
		lines := strings.Split(blk, "\n")
		for i := 0; i < len(lines); i++ {
			l := lines[i]
			if !(strings.HasPrefix(l, "Write at") || strings.HasPrefix(l, "Read at") || strings.HasPrefix(l, "Previous ")) {
				continue
			}
			top, first := "", ""
			for j := i + 1; j < len(lines) && lines[j] != ""; j++ {
				m := frameRe.FindStringSubmatch(lines[j])
				if m == nil {
					continue
				}
				fn := m[1]
				if first == "" && !strings.HasPrefix(fn, "runtime.") {
					first = fn
				}
				if strings.Contains(fn, "github.com/sarchlab/") {
					top = fn
					break
				}
			}
			if top == "" {
				top = first
			}
			if k := strings.LastIndex(top, "/"); k >= 0 {
				top = top[k+1:]
			}
			tops = append(tops, top)
		}
		// application-side access (an exported method of *driver.Driver) first
		sort.Slice(tops, func(i, j int) bool {
			ai, aj := isDriverAPI(tops[i]), isDriverAPI(tops[j])
			if ai != aj {
				return ai
			}
			return tops[i] < tops[j]
		})
		sig := "race/" + strings.Join(tops, "|")
		if k, ok := idx[sig]; ok {
			out[k].Count++
			continue
		}
		idx[sig] = len(out)
		out = append(out, raceReport{Sig: sig, Text: "WARNING: DATA RACE" + blk, Count: 1})
	}
	return out
}

func isDriverAPI(fn string) bool {
	const p = "driver.(*Driver)."
	return strings.HasPrefix(fn, p) && len(fn) > len(p) && fn[len(p)] >= 'A' && fn[len(p)] <= 'Z'
}

func runRaceBinary(scenario string, iters int) (stdout, stderr string, err error) {
	bin := os.Args[0] + "-race"
	if _, e := os.Stat(bin); e != nil {
		return "", "", fmt.Errorf("race binary %s missing", bin)
	}
	cmd := exec.Command(bin, "-scenario", scenario, "-iters", fmt.Sprint(iters))
	cmd.Env = append(os.Environ(), "GOMAXPROCS=16", "GORACE=halt_on_error=0 history_size=2")
	var so, se bytes.Buffer
	cmd.Stdout, cmd.Stderr = &so, &se
	done := make(chan error, 1)
	if e := cmd.Start(); e != nil {
		return "", "", e
	}
	go func() { done <- cmd.Wait() }()
	select {
	case <-done: // exit status 66 = races were reported
	case <-time.After(10 * time.Minute):
		cmd.Process.Kill()
		return so.String(), se.String(), fmt.Errorf("race binary did not finish")
	}
	return so.String(), se.String(), nil
}

func racePass(r *harness.Run, iters int) {
	var per []map[string]any
	total := 0
	for _, sc := range e3scn.RaceScenarios(e3scn.Opts{RspLatency: 1}) {
		// a hung free run ends its process (its goroutines leak); restart for the
		// remaining iterations a few times
		completed, hung := 0, 0
		seen := map[string]bool{}
		var sigs []string
		for attempt := 0; attempt < 8 && completed+hung < iters; attempt++ {
			so, se, err := runRaceBinary(sc.Name, iters-completed-hung)
			if err != nil {
				r.Infra("race pass, scenario %s: %v", sc.Name, err)
				return
			}
			for _, rp := range parseRaces(se) {
				if !seen[rp.Sig] {
					seen[rp.Sig] = true
					sigs = append(sigs, rp.Sig)
				}
				r.Report(rp.Sig, fmt.Sprintf("free-running -race pass, scenario %s (%d report(s); sampling):\n%s", sc.Name, rp.Count, rp.Text),
					harness.ReplayCase{Scenario: "race:" + sc.Name, Choices: []int{iters}})
			}
			c, h := 0, 0
			for _, l := range strings.Split(so, "\n") {
				if strings.HasPrefix(l, "RACEPASS scenario=") {
					fmt.Sscanf(l[strings.Index(l, "completed="):], "completed=%d hung=%d", &c, &h)
				}
				if strings.HasPrefix(l, "RACEPASS-ORACLE") {
					fmt.Println("race pass (free run, not deciding):", l)
				}
			}
			completed += c
			hung += h
			if c+h == 0 {
				break
			}
		}
		total += completed
		note := ""
		if hung > 0 {
			note = "hung (see model-checking result)"
		}
		per = append(per, map[string]any{"scenario": sc.Name, "free_runs_completed": completed, "hung": hung, "hung_note": note, "race_signatures": sigs})
		fmt.Printf("race pass %-44s runs=%d hung=%d races=%d\n", sc.Name, completed, hung, len(sigs))
	}
	r.Cov["race_pass"] = map[string]any{
		"label":     "SUPPLEMENTARY, sampling (not exhaustive): same scenario bodies, uninstrumented driver and akita, go build -race, GOMAXPROCS=16, free running; a watchdog only marks hung runs and decides nothing",
		"free_runs": total, "scenarios": per,
	}
}

// replayRace re-runs the free-running pass of one scenario and looks for the signature.
func replayRace(r *harness.Run, scenario, want string, iters int) {
	fmt.Printf("replay of %s: %d free runs of scenario %s under the race detector (sampling)\n", want, iters*3, scenario)
	_, se, err := runRaceBinary(scenario, iters*3)
	if err != nil {
		fmt.Println("INFRASTRUCTURE ERROR:", err)
		os.Exit(2)
	}
	for _, rp := range parseRaces(se) {
		if rp.Sig == want {
			fmt.Printf("VIOLATION property=%s replay=%s\n  signature: %s\n%s\n", r.ID, r.Replay, rp.Sig, rp.Text)
			os.Exit(1)
		}
	}
	fmt.Println("replay: race not observed in this sample of free runs")
	os.Exit(0)
}
