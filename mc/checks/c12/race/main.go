// c12-race: the C12/C05 scenario bodies, UNinstrumented, built with -race and
// run free (real goroutines, real sync, GOMAXPROCS from the environment).
// Supplementary sampling pass: a cooperative scheduler hides unsynchronised
// accesses, the race detector does not. A watchdog only marks hung iterations
// (a real lost wake-up can hang a free run); it never decides anything.
package main

import (
	"flag"
	"fmt"
	"io"
	"log"
	"os"
	"sync"
	"time"

	"verif/mc/e3scn"
)

type freeRT struct {
	wg    sync.WaitGroup
	mu    sync.Mutex
	fails []string
}

func (f *freeRT) Go(name string, fn func()) {
	f.wg.Add(1)
	go func() {
		defer f.wg.Done()
		fn()
	}()
}
func (f *freeRT) Wait() { f.wg.Wait() }
func (f *freeRT) Fail(sig, format string, a ...any) {
	f.mu.Lock()
	f.fails = append(f.fails, sig+": "+fmt.Sprintf(format, a...))
	f.mu.Unlock()
}
func (f *freeRT) Logf(string, ...any)                     {}
func (f *freeRT) Quiesce()                                {}
func (f *freeRT) Outcome(string)                          {}
func (f *freeRT) OnDeadlock(func([]e3scn.Blocked) string) {}

func main() {
	iters := flag.Int("iters", 300, "iterations per scenario")
	only := flag.String("scenario", "", "run only this scenario")
	hang := flag.Duration("hang", 5*time.Second, "watchdog per iteration")
	flag.Parse()
	log.SetOutput(io.Discard)
	o := e3scn.Opts{RspLatency: 1}
	scs := e3scn.RaceScenarios(o)
	for _, sc := range scs {
		if *only != "" && sc.Name != *only {
			continue
		}
		hung, done, failed := 0, 0, map[string]int{}
		for i := 0; i < *iters; i++ {
			rt := &freeRT{}
			fin := make(chan struct{})
			go func() {
				defer func() {
					if r := recover(); r != nil {
						rt.Fail("panic", "%v", r)
					}
					close(fin)
				}()
				sc.Main(rt, sc.Opts)
			}()
			select {
			case <-fin:
				done++
				rt.mu.Lock()
				for _, f := range rt.fails {
					failed[f]++
				}
				rt.mu.Unlock()
			case <-time.After(*hang):
				// a hung iteration leaks its goroutines (they would race with the
				// next iteration on package-level state): stop this process here
				hung++
				fmt.Printf("RACEPASS scenario=%s iterations=%d completed=%d hung=%d\n", sc.Name, i+1, done, hung)
				os.Exit(0)
			}
		}
		fmt.Printf("RACEPASS scenario=%s iterations=%d completed=%d hung=%d\n", sc.Name, *iters, done, hung)
		for f, n := range failed {
			fmt.Printf("RACEPASS-ORACLE scenario=%s count=%d %s\n", sc.Name, n, f)
		}
	}
}
