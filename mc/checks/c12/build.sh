#!/bin/bash
# build.sh <repo-dir> <output-binary> [package]   (package defaults to ./checks/c12)
# E3 build: instruments <repo-dir>/amd/driver (+internal) from its CURRENT working
# tree into /verif/build/e3/<tag>/src (supplied through -overlay, <repo-dir> is
# never written), keeps an instrumented copy of the pinned akita module in
# /verif/build/akita-instr (sim, mem/mem, mem/vm), and builds the check with its
# own go.mod (replace akita => copy, mgpusim => <repo-dir>). Also builds the
# uninstrumented -race binary of the same scenario bodies (<output>-race).
set -eu
REPO=$(cd "$1" && pwd)
OUT=$2
PKG=${3:-./checks/c12}
ROOT=$(cd "$(dirname "$0")/../../.." && pwd)          # /verif
MC=$ROOT/mc
export GOFLAGS=-mod=mod GOPROXY=off
TAG=$(echo "$REPO" | md5sum | cut -c1-8)
B=$ROOT/build/e3/$TAG
AK=$ROOT/build/akita-instr
AKVER=v4.9.0
AKSRC=$(go env GOMODCACHE)/github.com/sarchlab/akita/v4@$AKVER
mkdir -p "$B" "$ROOT/build/e3"
fail() { echo "E3 build: $*" >&2; exit 2; }
[ -d "$AKSRC" ] || fail "pinned akita module not in module cache: $AKSRC"
grep -q "sarchlab/akita/v4 $AKVER" "$REPO/go.mod" || fail "$REPO/go.mod no longer pins akita $AKVER (update AKVER in $0)"

# 1. the rewriter itself (plain module)
( cd "$MC" && go build -o "$ROOT/build/e3/e3rewrite" ./cmd/e3rewrite ) || fail "cannot build the rewriter"

# 2. plain go.mod pointing at <repo-dir> (used for type information and the -race build)
sed "s#=> /repo\$#=> $REPO#" "$MC/go.mod" > "$B/plain.mod"
cp "$MC/go.sum" "$B/plain.sum"
# 3. E3 go.mod: instrumented akita copy
cp "$B/plain.mod" "$B/go.mod.new"
echo "replace github.com/sarchlab/akita/v4 => $AK" >> "$B/go.mod.new"
cmp -s "$B/go.mod.new" "$B/go.mod" || mv "$B/go.mod.new" "$B/go.mod"
cp "$MC/go.sum" "$B/go.sum"

# 4. akita copy (once) + instrumentation of the packages that synchronise with the driver
if [ ! -f "$AK/.e3-copy-$AKVER" ]; then
  rm -rf "$AK"; cp -r "$AKSRC" "$AK"; chmod -R u+w "$AK"; touch "$AK/.e3-copy-$AKVER"
fi
( cd "$MC" && "$ROOT/build/e3/e3rewrite" -modfile "$B/plain.mod" -src-root "$AKSRC" -dest-root "$AK" \
    github.com/sarchlab/akita/v4/sim github.com/sarchlab/akita/v4/mem/mem github.com/sarchlab/akita/v4/mem/vm ) > "$B/rewrite-akita.log" \
  || { cat "$B/rewrite-akita.log" >&2; fail "instrumentation of akita failed"; }
cmp -s "$MC/rewrite/extra/sim_e3.go.txt" "$AK/sim/zz_e3_verif.go" || cp "$MC/rewrite/extra/sim_e3.go.txt" "$AK/sim/zz_e3_verif.go"
cmp -s "$MC/rewrite/extra/simulation_e3.go.txt" "$AK/simulation/zz_e3_verif.go" || cp "$MC/rewrite/extra/simulation_e3.go.txt" "$AK/simulation/zz_e3_verif.go"

# 5. driver instrumentation from the current working tree -> overlay
( cd "$MC" && "$ROOT/build/e3/e3rewrite" -modfile "$B/plain.mod" -tags verif -overlay-dir "$B/src" -overlay-json "$B/overlay.json" \
    -extra github.com/sarchlab/mgpusim/v4/amd/driver="$MC/rewrite/extra/driver_e3.go.txt" \
    github.com/sarchlab/mgpusim/v4/amd/driver github.com/sarchlab/mgpusim/v4/amd/driver/internal ) > "$B/rewrite-driver.log" \
  || { cat "$B/rewrite-driver.log" >&2; fail "instrumentation of amd/driver failed"; }

# 6. the instrumented check
( cd "$MC" && go build -modfile="$B/go.mod" -overlay "$B/overlay.json" -tags "verif e3" -o "$OUT" "$PKG" ) || fail "instrumented build failed"

# 7. the free-running -race binary of the same scenario bodies (uninstrumented driver and akita)
if [ -d "$MC/checks/c12/race" ] && [ "$PKG" = "./checks/c12" ]; then
  ( cd "$MC" && go build -race -modfile="$B/plain.mod" -tags verif -o "$OUT-race" ./checks/c12/race ) || fail "-race build failed"
fi

# 8. the memory-effects part (plain build: E1 explorer + E4 world over the uninstrumented driver, CP and DMA engine)
if [ -d "$MC/checks/c12/mem" ] && [ "$PKG" = "./checks/c12" ]; then
  ( cd "$MC" && go build -modfile="$B/plain.mod" -tags verif -o "$OUT-mem" ./checks/c12/mem ) || fail "memory-effects part build failed"
fi

# 9. C05's platform repeat-run part (plain build: its workers re-exec the binary and run the real,
#    uninstrumented emulation / timing platforms)
if [ -d "$MC/checks/c05/repeat" ] && [ "$PKG" = "./checks/c05" ]; then
  ( cd "$MC" && go build -modfile="$B/plain.mod" -tags verif -o "$OUT-repeat" ./checks/c05/repeat ) || fail "platform repeat-run part build failed"
fi

# 10. C05's parallel-engine pass (plain modfile, -race: free runs of the real timing platform on akita's
#     ParallelEngine under the Go race detector; the workers re-exec the binary)
if [ -d "$MC/checks/c05/prace" ] && [ "$PKG" = "./checks/c05" ]; then
  ( cd "$MC" && go build -race -modfile="$B/plain.mod" -tags verif -o "$OUT-prace" ./checks/c05/prace ) || fail "parallel-engine pass build failed"
fi
