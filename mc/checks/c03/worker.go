package main

import (
	"bytes"
	"fmt"
	"unsafe"

	"github.com/sarchlab/akita/v4/mem/mem"
	"github.com/sarchlab/akita/v4/mem/vm"
	"github.com/sarchlab/mgpusim/v4/amd/emu"
	"github.com/sarchlab/mgpusim/v4/amd/emu/cdna3"
	"github.com/sarchlab/mgpusim/v4/amd/insts"
	"github.com/sarchlab/mgpusim/v4/amd/kernels"

	"verif/mc/isaspec"
)

const (
	pid       = vm.PID(7)
	ldsSize   = 64 * 1024
	vaBase    = uint64(0x100000000) // first mapped virtual page (bit 32 set: 64-bit address arithmetic matters)
	numPages  = 4
	storageSz = 16 * isaspec.PageSize
)

// physical page of virtual page i: deliberately not contiguous and not monotonic
var physPage = [numPages]uint64{5, 2, 9, 0}

// worker owns one real wavefront, one real ALU, a real storage accessor over
// a real page table.
type worker struct {
	arch    isaspec.Arch
	wf      *emu.Wavefront
	alu     emu.ALU
	storage *mem.Storage
	lds     []byte
	// what is currently loaded (to skip bulk copies that change nothing)
	curV   []uint32
	curLDS []byte
	curMem [][]byte // indexed by virtual page
	bgPhys []byte   // expected content of the whole physical storage outside mapped pages
}

func vBytes(v []uint32) []byte {
	return unsafe.Slice((*byte)(unsafe.Pointer(&v[0])), len(v)*4)
}

func newWorker(arch isaspec.Arch) *worker {
	w := &worker{arch: arch}
	w.wf = emu.NewWavefront(kernels.NewWavefront())
	w.wf.VerifSetPID(pid)
	w.storage = mem.NewStorage(storageSz)
	pt := vm.NewPageTable(12)
	for i := 0; i < numPages; i++ {
		pt.Insert(vm.Page{PID: pid, VAddr: vaBase + uint64(i)*isaspec.PageSize, PAddr: physPage[i] * isaspec.PageSize, PageSize: isaspec.PageSize, Valid: true})
	}
	sa := emu.NewStorageAccessor(w.storage, pt, 12, nil)
	if arch == isaspec.CDNA3 {
		w.alu = cdna3.NewALU(sa)
	} else {
		w.alu = emu.NewALU(sa)
	}
	w.lds = make([]byte, ldsSize)
	w.alu.SetLDS(w.lds)
	w.wf.LDS = w.lds
	w.curV = make([]uint32, isaspec.NumLanes*isaspec.NumVGPR)
	w.curLDS = make([]byte, ldsSize)
	w.curMem = make([][]byte, numPages)
	for i := range w.curMem {
		w.curMem[i] = make([]byte, isaspec.PageSize)
	}
	// fill all of physical storage with a background so that stray writes are visible
	w.bgPhys = make([]byte, storageSz)
	for i := range w.bgPhys {
		w.bgPhys[i] = byte(0x3c ^ i ^ i>>8)
	}
	if err := w.storage.Write(0, w.bgPhys); err != nil {
		panic(err)
	}
	for i := 0; i < numPages; i++ {
		copy(w.curMem[i], w.bgPhys[physPage[i]*isaspec.PageSize:])
	}
	return w
}

func u32Equal(a, b []uint32) bool {
	if len(a) != len(b) {
		return false
	}
	if &a[0] == &b[0] {
		return true
	}
	return bytes.Equal(vBytes(a), vBytes(b))
}

// load puts the pre-state into the real wavefront / LDS / memory.
func (w *worker) load(st *isaspec.State, inst *insts.Inst) {
	wf := w.wf
	for i, v := range st.S {
		o := i * 4
		wf.SRegFile[o], wf.SRegFile[o+1], wf.SRegFile[o+2], wf.SRegFile[o+3] = byte(v), byte(v>>8), byte(v>>16), byte(v>>24)
	}
	if !u32Equal(st.V, w.curV) {
		copy(w.curV, st.V)
		copy(wf.VRegFile, vBytes(st.V))
	}
	wf.SetSCC(st.SCC)
	wf.SetVCC(st.VCC)
	wf.SetEXEC(st.EXEC)
	wf.M0 = st.M0
	// emu.ComputeUnit advances the PC past the instruction before executing it
	wf.SetPC(st.PC + uint64(inst.ByteSize))
	wf.VerifSetInst(inst)
	if !bytes.Equal(st.LDS, w.curLDS) {
		copy(w.curLDS, st.LDS)
		copy(w.lds, st.LDS)
	}
	if st.Mem != nil {
		for i := 0; i < numPages; i++ {
			p := st.Mem.Pages[vaBase/isaspec.PageSize+uint64(i)]
			if !bytes.Equal(p, w.curMem[i]) {
				copy(w.curMem[i], p)
				if err := w.storage.Write(physPage[i]*isaspec.PageSize, p); err != nil {
					panic(err)
				}
			}
		}
	}
}

// run executes the loaded instruction on the real ALU.
func (w *worker) run() (panicMsg string) {
	defer func() {
		if r := recover(); r != nil {
			panicMsg = fmt.Sprint(r)
			if panicMsg == "" {
				panicMsg = "panic"
			}
		}
	}()
	w.alu.Run(w.wf)
	return ""
}

// unload reads the complete post-state back. pre is the state that was
// loaded; buffers that did not change are shared with it.
func (w *worker) unload(pre, got *isaspec.State) (stray string) {
	wf := w.wf
	for i := range got.S {
		o := i * 4
		got.S[i] = uint32(wf.SRegFile[o]) | uint32(wf.SRegFile[o+1])<<8 | uint32(wf.SRegFile[o+2])<<16 | uint32(wf.SRegFile[o+3])<<24
	}
	got.SCC, got.VCC, got.EXEC, got.M0, got.PC = wf.SCC(), wf.VCC(), wf.EXEC(), wf.M0, wf.PC()
	if bytes.Equal(wf.VRegFile, vBytes(w.curV)) {
		got.V = pre.V
	} else {
		if len(got.V) != len(pre.V) || &got.V[0] == &pre.V[0] {
			got.V = make([]uint32, len(pre.V))
		}
		copy(vBytes(got.V), wf.VRegFile)
		copy(w.curV, got.V)
	}
	if bytes.Equal(w.lds, w.curLDS) {
		got.LDS = pre.LDS
	} else {
		got.LDS = append([]byte(nil), w.lds...)
		copy(w.curLDS, w.lds)
	}
	if len(wf.LDS) != len(w.lds) || &wf.LDS[0] != &w.lds[0] || len(w.alu.LDS()) != len(w.lds) || &w.alu.LDS()[0] != &w.lds[0] {
		stray = "LDS buffer replaced"
		w.alu.SetLDS(w.lds)
		wf.LDS = w.lds
	}
	if pre.Mem != nil {
		all, err := w.storage.Read(0, storageSz)
		if err != nil {
			panic(err)
		}
		changed := false
		for i := 0; i < numPages; i++ {
			if !bytes.Equal(all[physPage[i]*isaspec.PageSize:(physPage[i]+1)*isaspec.PageSize], w.curMem[i]) {
				changed = true
			}
		}
		if !changed {
			got.Mem = pre.Mem
		} else {
			got.Mem = &isaspec.Memory{Pages: map[uint64][]byte{}}
			for i := 0; i < numPages; i++ {
				p := append([]byte(nil), all[physPage[i]*isaspec.PageSize:(physPage[i]+1)*isaspec.PageSize]...)
				got.Mem.Pages[vaBase/isaspec.PageSize+uint64(i)] = p
				copy(w.curMem[i], p)
			}
		}
		// frame condition on unmapped physical memory
		mapped := map[uint64]bool{}
		for _, p := range physPage {
			mapped[p] = true
		}
		for pg := uint64(0); pg < storageSz/isaspec.PageSize; pg++ {
			if mapped[pg] {
				continue
			}
			if !bytes.Equal(all[pg*isaspec.PageSize:(pg+1)*isaspec.PageSize], w.bgPhys[pg*isaspec.PageSize:(pg+1)*isaspec.PageSize]) {
				stray = fmt.Sprintf("write to unmapped physical page %d", pg)
				w.storage.Write(pg*isaspec.PageSize, w.bgPhys[pg*isaspec.PageSize:(pg+1)*isaspec.PageSize])
			}
		}
	}
	return stray
}
