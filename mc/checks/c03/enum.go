package main

import (
	"strings"
	"time"

	"verif/mc/isaspec"
)

// slot is one input location that the enumeration varies.
type slot struct {
	name string
	vals []uint64
	set  func(st *isaspec.State, v uint64)           // uniform slot
	lane func(st *isaspec.State, lane int, v uint64) // per-lane slot (vector operands)
}

func alpha(bits int, float bool) []uint64 {
	th := run.Thorough()
	switch {
	case bits >= 64 && float:
		if th {
			return isaspec.F64
		}
		return isaspec.F64Quick
	case bits >= 64:
		if th {
			return isaspec.I64
		}
		return isaspec.I64[:14]
	case float:
		if th {
			return isaspec.F32
		}
		return isaspec.F32Quick
	}
	if th {
		return isaspec.I32Full
	}
	return isaspec.I32Quick
}

// uniformAlpha is used for scalar operands of vector instructions (they
// multiply the number of executions instead of filling lanes).
func uniformAlpha(bits int, float bool) []uint64 {
	a := alpha(bits, float)
	if !run.Thorough() && len(a) > 12 {
		// every other value
		var o []uint64
		for i := 0; i < len(a); i += 2 {
			o = append(o, a[i])
		}
		return o
	}
	return a
}

// widen replaces the 32-bit integer alphabets of a form by the wide one when
// the thorough tier can afford the product.
func widen(slots []slot, cap int) {
	if !run.Thorough() {
		return
	}
	prod := 1
	for _, s := range slots {
		n := len(s.vals)
		if len(s.vals) == len(isaspec.I32Full) && s.vals[0] == isaspec.I32Full[0] && s.vals[len(s.vals)-1] == isaspec.I32Full[len(isaspec.I32Full)-1] {
			n = len(isaspec.I32Wide)
		}
		prod *= n
	}
	if prod > cap {
		return
	}
	for i, s := range slots {
		if len(s.vals) == len(isaspec.I32Full) && s.vals[0] == isaspec.I32Full[0] && s.vals[len(s.vals)-1] == isaspec.I32Full[len(isaspec.I32Full)-1] {
			slots[i].vals = isaspec.I32Wide
		}
	}
}

func sameReg(a, b isaspec.Operand) bool {
	return a.IsReg() && b.IsReg() && a.Kind == b.Kind && a.Idx == b.Idx
}

func isExecKind(k isaspec.OpKind) bool {
	return k == isaspec.KEXEC || k == isaspec.KEXECLo || k == isaspec.KEXECHi || k == isaspec.KEXECZ
}
func isVccKind(k isaspec.OpKind) bool {
	return k == isaspec.KVCC || k == isaspec.KVCCLo || k == isaspec.KVCCHi || k == isaspec.KVCCZ
}

func checkForm(ar *archRun, w *worker, f isaspec.Form) {
	t := newTask(ar, w, f)
	if t == nil {
		return
	}
	// is the opcode implemented by this ALU at all?
	bg := background(t.e.Class == isaspec.CSMEM || t.e.Class == isaspec.CFLAT)
	if t.e.Class == isaspec.CSMEM || t.e.Class == isaspec.CFLAT || t.e.Class == isaspec.CDS {
		// give address registers sane values for the probe
		t.memEnumerate(bg, true)
	} else {
		w.load(bg, t.inst)
		pm := w.run()
		w.unload(bg, &t.got)
		if pm != "" && notImplRe.MatchString(pm) && !regTypeRe.MatchString(pm) {
			statMu.Lock()
			stat(t.key).NotImpl++
			stat(t.key).Forms++
			statMu.Unlock()
			return
		}
	}
	if t.e.Class == isaspec.CSMEM || t.e.Class == isaspec.CFLAT || t.e.Class == isaspec.CDS {
		if t.notImpl {
			statMu.Lock()
			stat(t.key).NotImpl++
			stat(t.key).Forms++
			statMu.Unlock()
			return
		}
		t.memEnumerate(bg, false)
		t.flush()
		return
	}
	if t.e.Class == isaspec.CScalar {
		t.scalarEnumerate(bg)
	} else {
		t.vectorEnumerate(bg)
	}
	t.flush()
	if len(t.sample) > 0 {
		run.Sample(t.sample)
	}
}

func (t *task) deadline() bool { return time.Now().After(run.Deadline()) }

// ---------------------------------------------------------------------------

func (t *task) scalarEnumerate(bg *isaspec.State) {
	in, e := t.in, t.e
	var slots []slot
	usesSCC, usesVCC, usesEXEC := false, false, false
	var seen []isaspec.Operand
	readsD := e.Fmt == "SOPK" || strings.HasPrefix(e.Name, "s_bitset")
	for i, r := range e.Pat {
		o := in.Ops[i]
		bits := r.Bits
		if r.R != 'S' && !(r.R == 'D' && readsD) {
			continue
		}
		if !o.IsReg() {
			continue
		}
		switch o.Kind {
		case isaspec.KSCC:
			usesSCC = true
			continue
		case isaspec.KVCCZ:
			usesVCC = true
			slots = append(slots, slot{name: "vcc", vals: []uint64{0, 1, 1 << 63, 1 << 32}, set: func(st *isaspec.State, v uint64) { st.VCC = v }})
			continue
		case isaspec.KEXECZ:
			usesEXEC = true
			slots = append(slots, slot{name: "exec", vals: []uint64{0, 1, 1 << 63, 1 << 32}, set: func(st *isaspec.State, v uint64) { st.EXEC = v }})
			continue
		}
		dup := false
		for _, p := range seen {
			if sameReg(p, o) {
				dup = true
			}
		}
		if dup {
			continue
		}
		seen = append(seen, o)
		if isExecKind(o.Kind) {
			usesEXEC = true
		}
		if isVccKind(o.Kind) {
			usesVCC = true
		}
		oo, bb := o, bits
		slots = append(slots, slot{name: o.Text, vals: alpha(bits, false), set: func(st *isaspec.State, v uint64) { st.WriteScalar(oo, bb, v) }})
	}
	_ = usesSCC
	slots = append(slots, slot{name: "scc", vals: []uint64{0, 1}, set: func(st *isaspec.State, v uint64) { st.SCC = uint8(v) }})
	needExec := strings.Contains(e.Name, "saveexec") || strings.Contains(e.Name, "exec")
	needVcc := strings.Contains(e.Name, "vcc")
	if needExec && !usesEXEC {
		slots = append(slots, slot{name: "exec", vals: isaspec.M64, set: func(st *isaspec.State, v uint64) { st.EXEC = v }})
	}
	if needVcc && !usesVCC {
		slots = append(slots, slot{name: "vcc", vals: isaspec.M64, set: func(st *isaspec.State, v uint64) { st.VCC = v }})
	}
	if e.Fmt == "SOPP" || strings.Contains(e.Name, "pc_b64") {
		slots = append(slots, slot{name: "pc", vals: []uint64{0x1000, 0xfffffff8, 0x7ffffffff0, 0}, set: func(st *isaspec.State, v uint64) { st.PC = v }})
	}
	if strings.HasSuffix(t.form.Group, "base") {
		widen(slots, 600000)
	}
	pre := bg.Clone()
	pre.V, pre.LDS = bg.V, bg.LDS // scalar instructions: bulk state stays the shared background
	idx := make([]int, len(slots))
	n := 0
	for {
		pre.S = bg.S
		pre.SCC, pre.VCC, pre.EXEC, pre.M0, pre.PC = bg.SCC, bg.VCC, bg.EXEC, bg.M0, bg.PC
		for i, s := range slots {
			s.set(pre, s.vals[idx[i]])
		}
		t.evalOnce(pre, false)
		if n == 3 && t.mism == 0 {
			t.takeSample(pre)
		}
		n++
		if (n%4096 == 0 && t.deadline()) || t.hopeless() {
			return
		}
		k := 0
		for k < len(idx) {
			idx[k]++
			if idx[k] < len(slots[k].vals) {
				break
			}
			idx[k] = 0
			k++
		}
		if k == len(idx) {
			break
		}
	}
}

func (t *task) takeSample(pre *isaspec.State) {
	if t.sample != nil {
		return
	}
	t.sample = map[string]any{"arch": t.ar.arch.String(), "asm": t.form.Text, "bytes": t.form.Bytes,
		"inputs": strings.TrimSpace(t.describeInputs(pre, &t.post, &t.post)), "result": "post-state equal to the specification"}
}

// ---------------------------------------------------------------------------

func (t *task) vectorEnumerate(bg *isaspec.State) {
	in, e := t.in, t.e
	var lanes, unis []slot
	execCtl, conflict := false, false
	var seen []isaspec.Operand
	var maskOp *isaspec.Operand
	for i, r := range e.Pat {
		o := in.Ops[i]
		switch r.R {
		case 'S':
			if !o.IsReg() {
				continue
			}
			dup := false
			for _, p := range seen {
				if sameReg(p, o) {
					dup = true
				}
			}
			if dup {
				continue
			}
			seen = append(seen, o)
			oo, bb := o, r.Bits
			if o.Kind == isaspec.KVGPR {
				lanes = append(lanes, slot{name: o.Text, vals: alpha(r.Bits, r.Float), lane: func(st *isaspec.State, l int, v uint64) { st.WriteLane(oo, bb, l, v) }})
				continue
			}
			switch o.Kind {
			case isaspec.KSCC:
				unis = append(unis, slot{name: "scc", vals: []uint64{0, 1}, set: func(st *isaspec.State, v uint64) { st.SCC = uint8(v) }})
				continue
			case isaspec.KVCCZ, isaspec.KEXECZ:
				continue
			}
			if isExecKind(o.Kind) {
				execCtl = true
			}
			unis = append(unis, slot{name: o.Text, vals: uniformAlpha(r.Bits, r.Float), set: func(st *isaspec.State, v uint64) { st.WriteScalar(oo, bb, v) }})
		case 'I':
			oo := o
			maskOp = &oo
			if isExecKind(o.Kind) {
				execCtl = true
			}
		}
	}
	if maskOp != nil {
		for _, p := range seen {
			if !(p.Kind == isaspec.KVGPR) && (sameReg(p, *maskOp) || (isVccKind(p.Kind) && isVccKind(maskOp.Kind)) || (isExecKind(p.Kind) && isExecKind(maskOp.Kind))) {
				conflict = true
			}
		}
	}
	if conflict {
		t.skipped++
		return
	}
	if e.AccD {
		d := in.Ops[0]
		already := false
		for _, p := range seen {
			if sameReg(p, d) {
				already = true
			}
		}
		if !already {
			lanes = append(lanes, slot{name: d.Text + "(acc)", vals: alpha(e.Pat[0].Bits, true), lane: func(st *isaspec.State, l int, v uint64) { st.WriteLane(d, 32, l, v) }})
		}
	}
	var maskBits uint64 // built per block
	if maskOp != nil && !execCtl {
		lanes = append(lanes, slot{name: "mask", vals: []uint64{0, 1}, lane: func(st *isaspec.State, l int, v uint64) {
			if v != 0 {
				maskBits |= 1 << uint(l)
			}
		}})
	}
	if strings.HasSuffix(t.form.Group, "base") {
		widen(lanes, 70000)
	}
	total := 1
	for _, s := range lanes {
		total *= len(s.vals)
	}
	blocks := (total + isaspec.NumLanes - 1) / isaspec.NumLanes
	// EXEC values per block
	execAlpha := isaspec.M64
	pre := bg.Clone()
	uidx := make([]int, len(unis))
	runs := 0
	for {
		for b := 0; b < blocks; b++ {
			// fill lanes with tuples b*64 .. b*64+63 (wrapping)
			copy(pre.V, bg.V)
			pre.S = bg.S
			pre.SCC, pre.VCC, pre.EXEC, pre.M0, pre.PC = bg.SCC, bg.VCC, bg.EXEC, bg.M0, bg.PC
			maskBits = 0
			for l := 0; l < isaspec.NumLanes; l++ {
				tu := (b*isaspec.NumLanes + l) % total
				for _, s := range lanes {
					s.lane(pre, l, s.vals[tu%len(s.vals)])
					tu /= len(s.vals)
				}
			}
			for i, s := range unis {
				s.set(pre, s.vals[uidx[i]])
			}
			if maskOp != nil && !execCtl {
				pre.WriteScalar(*maskOp, 64, maskBits)
			}
			if execCtl {
				t.evalOnce(pre, false)
			} else {
				var execs []uint64
				switch {
				case blocks*len(unisProduct(unis)) <= 64 || (run.Thorough() && blocks <= 700):
					execs = execAlpha // cheap forms: every EXEC value of the alphabet
				default:
					execs = []uint64{execAlpha[0], execAlpha[1+(b+runs)%(len(execAlpha)-1)]}
				}
				for _, ex := range execs {
					pre.EXEC = ex
					if e.Cmpx || isExecDst(in, e) {
						// nothing special: EXEC is an output as well
					}
					t.evalOnce(pre, false)
				}
			}
			if b == 1 && t.mism == 0 {
				t.takeSample(pre)
			}
			runs++
			if (runs%64 == 0 && t.deadline()) || t.hopeless() {
				return
			}
		}
		k := 0
		for k < len(uidx) {
			uidx[k]++
			if uidx[k] < len(unis[k].vals) {
				break
			}
			uidx[k] = 0
			k++
		}
		if k == len(uidx) {
			break
		}
	}
}

// unisProduct has one element per combination of the uniform slots.
func unisProduct(unis []slot) []struct{} {
	n := 1
	for _, u := range unis {
		n *= len(u.vals)
	}
	return make([]struct{}, n)
}

func isExecDst(in *isaspec.Instr, e *isaspec.Entry) bool {
	for i, r := range e.Pat {
		if (r.R == 'C' || r.R == 'D') && isExecKind(in.Ops[i].Kind) {
			return true
		}
	}
	return false
}
