// C03: instruction execution conforms to the GCN3/CDNA3 ISA semantics.
//
// For every committed encoding (llvm-mc's bytes, decoded by the real
// insts.Disassembler) of every opcode in the executable specification
// (verif/mc/isaspec), for both real ALUs (emu.ALUImpl, cdna3.ALU) on a real
// emu.Wavefront: all tuples over boundary value alphabets, SCC, VCC and EXEC
// alphabets. Oracle: the complete post-state equals the specified one
// (destination, SCC, VCC, EXEC, PC, LDS and memory bytes) and nothing else
// changed.
package main

import (
	"encoding/hex"
	"encoding/json"
	"fmt"
	"io"
	"log"
	"os"
	"runtime/pprof"
	"sort"
	"strings"
	"sync"
	"sync/atomic"

	"github.com/sarchlab/mgpusim/v4/amd/insts"

	"verif/mc/harness"
	"verif/mc/isaspec"
)

type archRun struct {
	arch  isaspec.Arch
	dec   *insts.Disassembler
	forms []isaspec.Form
	pool  sync.Pool
}

// opStat is the measured coverage of one (arch, opcode[, encoding]).
type opStat struct {
	Forms       int   `json:"forms"`
	Evals       int64 `json:"evaluations"` // instruction executions compared
	Tuples      int64 `json:"tuples"`      // operand tuples (lanes count separately)
	Skipped     int64 `json:"undetermined_by_manual,omitempty"`
	NotImpl     int   `json:"forms_not_implemented,omitempty"`
	DecodeFail  int   `json:"forms_decoder_rejects,omitempty"`
	Mismatching int64 `json:"mismatching_evaluations,omitempty"`
}

var (
	statMu sync.Mutex
	stats  = map[string]*opStat{}
	totalE int64
	totalT int64
)

func stat(key string) *opStat {
	s := stats[key]
	if s == nil {
		s = &opStat{}
		stats[key] = s
	}
	return s
}

// replayCase is a self-contained failing case.
type replayCase struct {
	Arch  string              `json:"arch"`
	Asm   string              `json:"asm"`
	Bytes string              `json:"bytes"`
	S     map[string]uint32   `json:"sgpr,omitempty"` // overrides of the background
	V     map[string][]uint32 `json:"vgpr,omitempty"`
	SCC   uint8               `json:"scc"`
	VCC   uint64              `json:"vcc"`
	EXEC  uint64              `json:"exec"`
	M0    uint32              `json:"m0"`
	PC    uint64              `json:"pc"`
	Mem   bool                `json:"mem,omitempty"`
}

func background(withMem bool) *isaspec.State {
	st := isaspec.NewState(ldsSize)
	for i := range st.LDS {
		st.LDS[i] = byte((i*37 + 11 + i>>8*3) & 0xff)
	}
	if withMem {
		st.Mem = &isaspec.Memory{Pages: map[uint64][]byte{}}
		for p := 0; p < numPages; p++ {
			pg := make([]byte, isaspec.PageSize)
			for i := range pg {
				pg[i] = byte((i*29 + 7 + p*101 + i>>8*5) & 0xff)
			}
			st.Mem.Pages[vaBase/isaspec.PageSize+uint64(p)] = pg
		}
	}
	return st
}

func makeReplay(arch isaspec.Arch, f isaspec.Form, pre *isaspec.State) replayCase {
	bg := background(false)
	rc := replayCase{Arch: arch.String(), Asm: f.Text, Bytes: hex.EncodeToString(f.Bytes), S: map[string]uint32{}, V: map[string][]uint32{},
		SCC: pre.SCC, VCC: pre.VCC, EXEC: pre.EXEC, M0: pre.M0, PC: pre.PC, Mem: pre.Mem != nil}
	for i := range pre.S {
		if pre.S[i] != bg.S[i] {
			rc.S[fmt.Sprint(i)] = pre.S[i]
		}
	}
	for r := 0; r < isaspec.NumVGPR; r++ {
		diff := false
		for l := 0; l < isaspec.NumLanes; l++ {
			if pre.Vreg(l, r) != bg.Vreg(l, r) {
				diff = true
			}
		}
		if diff {
			vals := make([]uint32, isaspec.NumLanes)
			for l := range vals {
				vals[l] = pre.Vreg(l, r)
			}
			rc.V[fmt.Sprint(r)] = vals
		}
	}
	return rc
}

func (rc replayCase) state() *isaspec.State {
	st := background(rc.Mem)
	for k, v := range rc.S {
		var i int
		fmt.Sscan(k, &i)
		st.S[i] = v
	}
	for k, vals := range rc.V {
		var r int
		fmt.Sscan(k, &r)
		for l, v := range vals {
			st.SetVreg(l, r, v)
		}
	}
	st.SCC, st.VCC, st.EXEC, st.M0, st.PC = rc.SCC, rc.VCC, rc.EXEC, rc.M0, rc.PC
	return st
}

var run *harness.Run

func main() {
	run = harness.Start("C03", "exploration")
	log.SetOutput(io.Discard)                   // the ALUs report through log.Panicf; the panic value is what is classified
	if pf := os.Getenv("C03_PPROF"); pf != "" { // development aid
		f, _ := os.Create(pf)
		pprof.StartCPUProfile(f)
		defer pprof.StopCPUProfile()
	}
	archs := []*archRun{}
	for _, a := range []isaspec.Arch{isaspec.GCN3, isaspec.CDNA3} {
		forms, err := isaspec.Forms(a)
		if err != nil {
			fmt.Fprintln(os.Stderr, "INFRASTRUCTURE ERROR:", err)
			os.Exit(2)
		}
		if a == isaspec.GCN3 {
			// The GCN3 decoder / ALU also implement the GFX9 addressing of FLAT
			// encodings (signed 13-bit immediate offset, SADDR scalar base: amd/emu/
			// alu_flat.go flatAddrWithScalar). gfx803 cannot encode them, so the
			// gfx90a words of global_* (SADDR and OFF mode) and of flat_* with an
			// immediate offset are run on the GCN3 pair as well, held to the FLAT
			// field semantics of docs/cdna3_insts.pdf table 100. s[0:1] is left out:
			// the GCN3 decoder documents SADDR = 0 as "off".
			g9, err := isaspec.Forms(isaspec.CDNA3)
			if err != nil {
				fmt.Fprintln(os.Stderr, "INFRASTRUCTURE ERROR:", err)
				os.Exit(2)
			}
			for _, f := range g9 {
				if (strings.HasPrefix(f.Text, "global_") && !strings.Contains(f.Text, "s[0:1]")) ||
					(strings.HasPrefix(f.Text, "flat_") && strings.Contains(f.Text, " offset:")) {
					f.Group = "gfx9-encoding:" + f.Group
					forms = append(forms, f)
				}
			}
		}
		ar := &archRun{arch: a, forms: forms, dec: insts.NewDisassembler()}
		ar.dec.IsCDNA3 = a == isaspec.CDNA3
		arch := a
		ar.pool.New = func() any { return newWorker(arch) }
		archs = append(archs, ar)
	}
	if run.Replay != "" {
		replay(archs)
		return
	}
	type item struct {
		ar *archRun
		i  int
	}
	var items []item
	for _, ar := range archs {
		if a := os.Getenv("C03_ARCH"); a != "" && a != ar.arch.String() {
			continue // development aid
		}
		for i := range ar.forms {
			if f := os.Getenv("C03_FILTER"); f != "" && !strings.Contains(ar.forms[i].Text, f) {
				continue // development aid: restrict to matching forms
			}
			items = append(items, item{ar, i})
		}
	}
	// heavy forms first gives a better parallel schedule
	var done int64
	complete := run.ForEach(len(items), func(k int) {
		it := items[k]
		w := it.ar.pool.Get().(*worker)
		checkForm(it.ar, w, it.ar.forms[it.i])
		it.ar.pool.Put(w)
		atomic.AddInt64(&done, 1)
	})
	pprof.StopCPUProfile()
	finish(archs, complete)
}

var (
	findMu   sync.Mutex
	findings = map[string]string{}
)

// recordFinding keeps the first message of every signature (development aid:
// C03_DUMP_FINDINGS=<file> writes them out for the notes).
func recordFinding(sig, msg string) {
	findMu.Lock()
	if _, ok := findings[sig]; !ok {
		findings[sig] = msg
	}
	findMu.Unlock()
}

func finish(archs []*archRun, complete bool) {
	if pf := os.Getenv("C03_DUMP_FINDINGS"); pf != "" {
		data, _ := json.MarshalIndent(findings, "", " ")
		os.WriteFile(pf, data, 0o644)
	}
	// coverage tables
	type row struct {
		Key string `json:"opcode"`
		*opStat
	}
	var covered, notImpl []string
	perArch := map[string]map[string]int{}
	var rows []row
	keys := make([]string, 0, len(stats))
	for k := range stats {
		keys = append(keys, k)
	}
	sort.Strings(keys)
	distinct := 0
	for _, k := range keys {
		s := stats[k]
		rows = append(rows, row{k, s})
		arch := k[:strings.Index(k, "/")]
		if perArch[arch] == nil {
			perArch[arch] = map[string]int{}
		}
		if s.Evals > 0 {
			covered = append(covered, k)
			perArch[arch]["covered"]++
			distinct++
		} else if s.NotImpl > 0 || s.DecodeFail > 0 {
			notImpl = append(notImpl, k)
			perArch[arch]["in_spec_but_not_implemented"]++
		}
	}
	run.Cov["evaluations"] = totalE
	run.Cov["lane_tuples"] = totalT
	run.Cov["distinct_nontrivial"] = distinct
	run.Cov["rule"] = "evaluations = real ALU.Run executions whose complete post-state was compared with the specification; lane_tuples = operand tuples covered (a vector execution covers one tuple per active lane); distinct_nontrivial = (architecture, opcode, encoding) combinations with at least one compared execution"
	run.Cov["exhaustive"] = complete
	run.Cov["opcodes_per_arch"] = perArch
	run.Cov["covered_opcodes"] = covered
	run.Cov["in_spec_not_implemented_by_alu"] = notImpl
	run.Cov["per_opcode"] = rows
	nc := []string{}
	for k, v := range isaspec.NotCovered {
		nc = append(nc, k+": "+v)
	}
	sort.Strings(nc)
	run.Cov["implemented_but_not_in_spec"] = nc
	run.Assume = []string{
		"rounding mode is round-to-nearest-even (MODE.FP_ROUND reset value; the emulator has no MODE register)",
		"all four MODE.FP_DENORM settings are acceptable: a float result may be computed with inputs and/or outputs flushed",
		"NaN payloads are not compared (the manual does not define them); any NaN is accepted where the specified result is a NaN",
		"bits of a compare / carry-out mask that belong to inactive lanes may be cleared or left unchanged (the manual is silent)",
		"emu.ComputeUnit's protocol: the PC is advanced past the instruction before ALU.Run",
		"CDNA3 semantics: the repository's CDNA3 document (docs/cdna3_insts.pdf) contains only the microcode-format chapter; same-named opcodes are held to the GCN3 manual's semantics, CDNA3-only opcodes to the semantics their name states",
		"encodings come from llvm-mc-14 (gfx803 for GCN3, gfx90a for CDNA3; gfx942 is not available in LLVM 14)",
		"memory and LDS addresses used by memory forms are mapped / in range (faults are not modelled)",
	}
	run.Finish()
}

func replay(archs []*archRun) {
	data, err := os.ReadFile(run.Replay)
	if err != nil {
		fmt.Fprintln(os.Stderr, err)
		os.Exit(2)
	}
	var f struct {
		Signature string     `json:"signature"`
		Case      replayCase `json:"case"`
	}
	if err := json.Unmarshal(data, &f); err != nil {
		fmt.Fprintln(os.Stderr, err)
		os.Exit(2)
	}
	for _, ar := range archs {
		if ar.arch.String() != f.Case.Arch {
			continue
		}
		b, _ := hex.DecodeString(f.Case.Bytes)
		form := isaspec.Form{Text: f.Case.Asm, Bytes: b}
		w := newWorker(ar.arch)
		pre := f.Case.state()
		t := newTask(ar, w, form)
		if t == nil {
			fmt.Println("replay: form cannot be set up")
			os.Exit(2)
		}
		sigs := t.evalOnce(pre, true)
		if len(sigs) == 0 {
			fmt.Println("replay: no violation")
			os.Exit(0)
		}
		for _, s := range sigs {
			fmt.Printf("VIOLATION property=C03 replay=%s\n  signature: %s\n", run.Replay, s)
		}
		os.Exit(1)
	}
	fmt.Fprintln(os.Stderr, "unknown arch in replay")
	os.Exit(2)
}
