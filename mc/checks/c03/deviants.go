package main

import (
	"verif/mc/isaspec"
)

// Deviant is a recorded deviation of an implementation from the manual: an
// alternative semantics ("what the handler computes instead"). It is never
// the oracle; it only labels a disagreement whose complete post-state equals
// the deviation model with the finding's cause-specific signature. Any other
// wrong result of the same opcode gets a generic signature and is a new
// violation.
type Deviant struct {
	What       string
	S          func(c *isaspec.SCtx)
	V          func(c *isaspec.VCtx)
	Quirk      int
	Causes     map[string]string // category (dst, scc, sdst, vcc, exec, pc, ...) -> cause
	PanicIf    func(t *task, pre *isaspec.State) bool
	PanicCause string
}

var deviants = map[string]*Deviant{}

func deviant(a isaspec.Arch, in *isaspec.Instr, e *isaspec.Entry) *Deviant {
	if d, ok := deviants[a.String()+"/"+in.Mnem]; ok {
		return d
	}
	if d, ok := deviants["both/"+in.Mnem]; ok {
		return d
	}
	// register-file level deviations shared by every opcode
	for i, r := range e.Pat {
		if i < len(in.Ops) && (r.R == 'D') && in.Ops[i].Kind == isaspec.KVCCHi {
			return &Deviant{What: "emu.Wavefront.WriteReg(vcc_hi) masks with 0xffffffff00000000: vcc_lo is cleared and the value is ORed into the old vcc_hi",
				Quirk: isaspec.QVCCHiWrite, Causes: map[string]string{"dst": "=emu.Wavefront/WriteReg/vcc_hi/clears-vcc_lo-ors-into-vcc_hi", "vcc": "=emu.Wavefront/WriteReg/vcc_hi/clears-vcc_lo-ors-into-vcc_hi"}}
		}
	}
	return nil
}
