package main

import (
	"verif/mc/isaspec"
)

// Deviant is a recorded deviation of an implementation from the manual: an
// alternative semantics ("what the handler computes instead"). It is never
// the oracle; it only labels a disagreement whose complete post-state equals
// the deviation model with the finding's cause-specific signature. Any other
// wrong result of the same opcode gets a generic signature and is a new
// violation.
type Deviant struct {
	What       string
	S          func(c *isaspec.SCtx)
	V          func(c *isaspec.VCtx)
	Quirk      int
	Causes     map[string]string // category (dst, scc, sdst, vcc, exec, pc, ...) -> cause
	PanicIf    func(t *task, pre *isaspec.State) bool
	PanicCause string
	Pat        string         // operand widths as the decoder set them up (when they differ from the manual)
	M          *isaspec.MemOp // memory operation as implemented
	SDWA       string         // SDWA destination handling as implemented
}

var deviants = map[string]*Deviant{}
