package main

import (
	"verif/mc/isaspec"
)

const vaEnd = vaBase + numPages*isaspec.PageSize

// memEnumerate enumerates address / data / EXEC alphabets for SMEM, DS and
// FLAT forms. With probe set it executes only the first case and records
// whether the opcode is implemented.
func (t *task) memEnumerate(bg *isaspec.State, probe bool) {
	first := true
	do := func(pre *isaspec.State) bool {
		if probe {
			t.prep(&t.post, pre)
			t.w.load(pre, t.inst)
			pm := t.w.run()
			t.w.unload(pre, &t.got)
			if pm != "" && notImplRe.MatchString(pm) && !regTypeRe.MatchString(pm) {
				t.notImpl = true
			}
			return false
		}
		t.evalOnce(pre, false)
		if first && t.mism == 0 {
			t.takeSample(pre)
		}
		first = false
		return !t.deadline() && !t.hopeless()
	}
	in, m := t.in, t.e.M
	pre := bg.Clone()
	reset := func() {
		copy(pre.V, bg.V)
		pre.S = bg.S
		pre.SCC, pre.VCC, pre.EXEC, pre.M0, pre.PC = bg.SCC, bg.VCC, bg.EXEC, bg.M0, bg.PC
	}
	execs := []uint64{isaspec.M64[0], isaspec.M64[3], isaspec.M64[9], isaspec.M64[1], isaspec.M64[5]}
	switch m.Kind {
	case "sload":
		offOp := in.Ops[2]
		offs := []uint64{0}
		if offOp.IsReg() {
			offs = []uint64{0, 4, 0x10, 0xffc, 0x1000, 1, 2, 3, 0x1ffe, 0x3ffc}
		} else {
			offs = []uint64{isaspec.ConstValue(offOp, 32)}
		}
		for _, base := range []uint64{vaBase, vaBase + 4, vaBase + 0xfc0, vaBase + 0xffc, vaBase + 0x1000, vaBase + 0x2ff0, vaBase + 2, vaBase + 0x3fc0} {
			for _, off := range offs {
				a := (base + off) &^ 3
				if a < vaBase || a+uint64(m.Bytes) > vaEnd {
					continue
				}
				for scc := uint8(0); scc < 2; scc++ {
					reset()
					pre.SCC = scc
					if offOp.IsReg() {
						pre.WriteScalar(offOp, 32, off)
					}
					pre.WriteScalar(in.Ops[1], 64, base)
					if !do(pre) {
						return
					}
				}
			}
		}
	case "dsread", "dsread2", "dswrite", "dswrite2":
		ai := 0
		if m.Kind == "dsread" || m.Kind == "dsread2" {
			ai = 1
		}
		maxOff := uint64(in.Mod("offset", 0))
		span := uint64(m.Bytes)
		if m.Mul != 0 {
			o0, o1 := uint64(in.Mod("offset0", 0)), uint64(in.Mod("offset1", 0))
			maxOff = o0
			if o1 > o0 {
				maxOff = o1
			}
			maxOff *= uint64(m.Mul)
		}
		isWrite := m.Kind == "dswrite" || m.Kind == "dswrite2"
		stride := span
		if m.Mul != 0 {
			stride = 2 * span
			if d := uint64(in.Mod("offset0", 0)) * uint64(m.Mul); true {
				_ = d
			}
		}
		type patt struct {
			base   uint64
			stride uint64
			rev    bool
			single bool // one active lane only
		}
		var pats []patt
		al := span
		if al > 4 {
			al = 4
		}
		for _, b := range []uint64{0, 8, 0x400, 0x8000} {
			pats = append(pats, patt{base: b, stride: stride}, patt{base: b, stride: stride * 2, rev: true})
		}
		if span < 4 {
			pats = append(pats, patt{base: al, stride: stride}, patt{base: 3 * al, stride: 4})
		}
		if m.Mul == 0 && ldsSize >= 64*stride+maxOff {
			// the last access ends exactly at the end of the LDS allocation
			pats = append(pats, patt{base: ldsSize - 64*stride - maxOff, stride: stride})
		}
		if m.Mul != 0 {
			// write2/read2: the two accesses of different lanes must not collide: lanes far apart
			pats = nil
			for _, b := range []uint64{0, 16, 0x1000} {
				pats = append(pats, patt{base: b, stride: span, single: true}, patt{base: b, stride: 0, single: true})
			}
			d := uint64(0)
			o0, o1 := uint64(in.Mod("offset0", 0))*uint64(m.Mul), uint64(in.Mod("offset1", 0))*uint64(m.Mul)
			if o1 > o0 {
				d = o1 - o0
			} else {
				d = o0 - o1
			}
			if d >= 64*span || d == 0 {
				pats = append(pats, patt{base: 0, stride: span}, patt{base: 64, stride: span, rev: true})
			} else if d == span {
				pats = append(pats, patt{base: 0, stride: 2 * span}, patt{base: 32, stride: 2 * span, rev: true})
			}
		}
		pats = append(pats, patt{base: 0, stride: 0, single: true})
		for pi, p := range pats {
			// all lanes in range?
			top := p.base + 63*p.stride + maxOff + span
			if p.single {
				top = p.base + maxOff + span
			}
			if top > ldsSize {
				continue
			}
			exl := execs
			if p.single {
				exl = []uint64{1 << 5, 1 << 63, 1}
			} else if p.stride == 0 && isWrite {
				continue
			}
			for ei, ex := range exl {
				reset()
				for l := 0; l < isaspec.NumLanes; l++ {
					k := uint64(l)
					if p.rev {
						k = 63 - k
					}
					a := p.base + k*p.stride
					if p.single {
						a = p.base
					}
					pre.SetVreg(l, in.Ops[ai].Idx, uint32(a))
					if isWrite {
						for oi := 1; oi < len(in.Ops); oi++ {
							if sameReg(in.Ops[oi], in.Ops[ai]) {
								continue
							}
							n := in.Ops[oi].Count
							for w := 0; w < n; w++ {
								v := isaspec.I32Quick[(l+7*w+3*oi+pi)%len(isaspec.I32Quick)]
								pre.SetVreg(l, in.Ops[oi].Idx+w, uint32(v)^uint32(l<<8))
							}
						}
					}
				}
				pre.EXEC = ex
				pre.SCC = uint8(ei & 1)
				if !do(pre) {
					return
				}
			}
		}
	case "flatload", "flatstore":
		ai, di := 1, 0
		if m.Kind == "flatstore" {
			ai, di = 0, 1
		}
		off := uint64(in.Mod("offset", 0))
		span := uint64(m.Bytes)
		al := span
		if al > 4 {
			al = 4
		}
		saddr := len(in.Ops) == 3 && in.Ops[2].Kind == isaspec.KSGPR
		type patt struct {
			t0     uint64 // address of lane 0's access (after offset)
			stride uint64
			rev    bool
		}
		var pats []patt
		for _, t0 := range []uint64{vaBase, vaBase + isaspec.PageSize - 2*span, vaBase + 2*isaspec.PageSize - al, vaBase + 3*isaspec.PageSize - 32*span} {
			pats = append(pats, patt{t0, span, false}, patt{t0, 2 * span, true})
		}
		if span < 4 {
			pats = append(pats, patt{vaBase + isaspec.PageSize - 3, span, false}, patt{vaBase + 5, 3 * span, true})
		}
		// the last access ends exactly at the end of the mapped window (over-reads fault)
		pats = append(pats, patt{vaEnd - 64*span, span, false})
		for pi, p := range pats {
			if p.t0+63*p.stride+span > vaEnd {
				continue
			}
			// SADDR mode: address = SGPR base + zext(VGPR32) + sext(imm13) in 64-bit
			// arithmetic. The per-lane 32-bit offsets start at v0; the base is chosen
			// so that the ISA addresses stay the pattern's (mapped) targets. v0 covers
			// offsets below |imm| (offset + imm negative), offsets within imm of 2^32
			// (offset + imm carries out of 32 bits) and ordinary ones.
			sbases := []uint64{0}
			if saddr {
				span63 := 63 * p.stride
				top := (uint64(1)<<32 - al) - span63
				v0s := []uint64{0, 4, p.t0 - vaBase - off, top, top - 12, 0x80000000}
				if int64(off) < 0 {
					v0s = append(v0s, -off, -off-al, -off+al)
				} else if off > 0 {
					v0s = append(v0s, top-off+al)
				}
				sbases = sbases[:0]
				seen := map[uint64]bool{}
				for _, v0 := range v0s {
					if v0>>32 != 0 || (v0+span63)>>32 != 0 || seen[v0] {
						continue
					}
					seen[v0] = true
					sbases = append(sbases, p.t0-v0-off)
				}
			}
			for _, sb := range sbases {
				for ei, ex := range execs {
					reset()
					ok := true
					for l := 0; l < isaspec.NumLanes; l++ {
						k := uint64(l)
						if p.rev {
							k = 63 - k
						}
						target := p.t0 + k*p.stride
						if saddr {
							v := target - off - sb
							if v>>32 != 0 {
								ok = false
								break
							}
							pre.SetVreg(l, in.Ops[ai].Idx, uint32(v))
						} else {
							a := target - off
							pre.SetVreg(l, in.Ops[ai].Idx, uint32(a))
							pre.SetVreg(l, in.Ops[ai].Idx+1, uint32(a>>32))
						}
						if m.Kind == "flatstore" {
							for w := 0; w < in.Ops[di].Count; w++ {
								v := isaspec.I32Quick[(l+7*w+pi)%len(isaspec.I32Quick)]
								pre.SetVreg(l, in.Ops[di].Idx+w, uint32(v)^uint32(l<<8))
							}
						}
					}
					if !ok {
						continue
					}
					if saddr {
						pre.WriteScalar(in.Ops[2], 64, sb)
					}
					pre.EXEC = ex
					pre.SCC = uint8(ei & 1)
					if !do(pre) {
						return
					}
				}
			}
		}
	}
}
