package main

import (
	"math"
	"sort"

	"verif/mc/isaspec"
)

// Recorded deviations of the vector handlers (per-lane functions on the values
// emu.Wavefront.ReadOperand delivers, see deviants_scalar.go).

func vdev(key, what string, causes map[string]string, f func(c *isaspec.VCtx)) *Deviant {
	d := &Deviant{What: what, V: f, Quirk: isaspec.QRaw | isaspec.QFloatConst32, Causes: causes}
	deviants[key] = d
	return d
}

func f32of(v uint64) float32 { return math.Float32frombits(uint32(v)) }

// modF32 is the value applyF32Modifier hands to a VOP3 handler: abs / neg go
// through float64 arithmetic, which quiets a signalling NaN.
func modF32(c *isaspec.VCtx, i int) float32 {
	v := uint32(c.S[i])
	if c.Mod[i] && v&0x7f800000 == 0x7f800000 && v&0x007fffff != 0 {
		v |= 0x00400000
	}
	return math.Float32frombits(v)
}
func bitsOf(f float32) uint64 { return uint64(math.Float32bits(f)) }

func median3Uint32(a, b, c uint32) uint32 {
	out := a
	if (b < a && b > c) || (b > a && b < c) {
		out = b
	}
	if (c < a && c > b) || (c > a && c < b) {
		out = c
	}
	return out
}

func init() {
	const leak = "=emu.Wavefront/ReadOperand/32-bit-operand-not-truncated/{key}"
	dst := func(c string) map[string]string { return map[string]string{"dst": c} }
	sd := func(c string) map[string]string { return map[string]string{"sdst": c, "vcc": c, "dst": c} }

	// ------------------------------------------------------------ VOP1
	vdev("gcn3/v_cvt_i32_f32_e32", "aluvop1.go runVCVTI32F32 saturates by comparing int32(src) (already converted, 0x80000000 on overflow) with the limits: large positive inputs and +inf give 0x80000001",
		dst("positive-overflow-saturates-to-0x80000001"), func(c *isaspec.VCtx) {
			src := f32of(c.S[0])
			var d uint64
			if math.IsNaN(float64(src)) || math.IsNaN(float64(0-src)) {
				d = 0
			} else if int64(int32(src)) > math.MaxInt32 {
				d = math.MaxInt32
			} else if int32(src) < (0 - math.MaxInt32) {
				d = uint64(uint32(0x80000001))
			} else {
				d = uint64(uint32(int32(src)))
			}
			c.SetD(d)
		})
	vdev("cdna3/v_cvt_i32_f32_e32", "cdna3/vop1.go runVCVTI32F32 has no NaN case: int32(NaN) is 0x80000000 on amd64 (manual: NaN -> 0)",
		dst("nan-converts-to-0x80000000"), func(c *isaspec.VCtx) {
			src := f32of(c.S[0])
			var d int32
			if src <= float32(math.MinInt32) {
				d = math.MinInt32
			} else if src >= float32(math.MaxInt32) {
				d = math.MaxInt32
			} else {
				d = int32(src)
			}
			c.SetD(uint64(uint32(d)))
		})
	vdev("cdna3/v_cvt_f64_u32_e32", "decodetable.go gives v_cvt_f64_u32 a 32-bit destination: only the low dword of the double is written",
		dst("only-low-dword-of-f64-result-written"), func(c *isaspec.VCtx) {
			c.SetD(uint64(uint32(math.Float64bits(float64(uint32(c.S[0]))))))
		}).Pat = "D32,S32"

	// ------------------------------------------------------------ VOP2
	minmaxGo := func(isMax bool) func(c *isaspec.VCtx) {
		return func(c *isaspec.VCtx) {
			a, b := f32of(c.S[0]), f32of(c.S[1])
			d := a
			if (!isMax && b < a) || (isMax && b > a) {
				d = b
			}
			c.SetD(bitsOf(d))
		}
	}
	vdev("gcn3/v_min_f32_e32", "aluvop2.go runVMINF32: dst = src0; if src1 < src0 dst = src1 - a NaN in src0 is returned, a NaN in src1 is ignored only by accident", dst("nan-in-src0-returned"), minmaxGo(false))
	vdev("gcn3/v_max_f32_e32", "aluvop2.go runVMAXF32: dst = src0; if src1 > src0 dst = src1 - a NaN in src0 is returned", dst("nan-in-src0-returned"), minmaxGo(true))
	vdev("cdna3/v_min_f32_e32", "cdna3/vop2.go runVMINF32 uses math.Min: any NaN operand gives NaN", dst("nan-operand-gives-nan"), func(c *isaspec.VCtx) {
		c.SetD(bitsOf(float32(math.Min(float64(f32of(c.S[0])), float64(f32of(c.S[1]))))))
	})
	vdev("cdna3/v_max_f32_e32", "cdna3/vop2.go runVMAXF32 uses math.Max: any NaN operand gives NaN", dst("nan-operand-gives-nan"), func(c *isaspec.VCtx) {
		c.SetD(bitsOf(float32(math.Max(float64(f32of(c.S[0])), float64(f32of(c.S[1]))))))
	})
	vdev("gcn3/v_addc_u32_e32", "aluvop2.go runVADDCU32: carry = src0 > MaxUint32 - carry_in - src1 evaluated in 64 bits: the right side wraps when src1 + carry_in = 2^32",
		sd("carry-out-lost-when-src1-plus-carry-in-wraps"), func(c *isaspec.VCtx) {
			k := uint64(0)
			if c.Cin {
				k = 1
			}
			c.SetC(c.S[0] > math.MaxUint32-k-c.S[1])
			c.SetD(uint64(uint32(c.S[0] + c.S[1] + k)))
		})
	vdev("gcn3/v_subb_u32_e32", "aluvop2.go runVSUBBU32 computes on untruncated 64-bit operand values", sd(leak), func(c *isaspec.VCtx) {
		k := uint64(0)
		if c.Cin {
			k = 1
		}
		c.SetD(uint64(uint32(c.S[0] - c.S[1] - k)))
		c.SetC(c.S[0] < c.S[1]+k)
	})
	vdev("gcn3/v_subbrev_u32_e32", "aluvop2.go runVSUBBREVU32 computes on untruncated 64-bit operand values", sd(leak), func(c *isaspec.VCtx) {
		k := uint64(0)
		if c.Cin {
			k = 1
		}
		c.SetC(c.S[1] < c.S[0]+k)
		c.SetD(uint64(uint32(c.S[1] - c.S[0] - k)))
	})
	// CDNA3 VOP2 carry ops: 64-bit arithmetic on the raw operand values
	rawAdd := func(c *isaspec.VCtx, a, b uint64, cin bool) {
		k := uint64(0)
		if cin {
			k = 1
		}
		r := a + b + k
		c.SetD(r & 0xffffffff)
		c.SetC(r > 0xffffffff)
	}
	vdev("cdna3/v_add_co_u32_e32", "cdna3/vop2.go runVADDI32 adds the untruncated 64-bit operand values", sd(leak), func(c *isaspec.VCtx) { rawAdd(c, c.S[0], c.S[1], false) })
	vdev("cdna3/v_addc_co_u32_e32", "cdna3/vop2.go runVADDCU32 adds the untruncated 64-bit operand values", sd(leak), func(c *isaspec.VCtx) { rawAdd(c, c.S[0], c.S[1], c.Cin) })
	vdev("cdna3/v_subb_co_u32_e32", "cdna3/vop2.go runVSUBBU32 computes on untruncated 64-bit operand values", sd(leak), func(c *isaspec.VCtx) {
		k := uint64(0)
		if c.Cin {
			k = 1
		}
		c.SetD((c.S[0] - c.S[1] - k) & 0xffffffff)
		c.SetC(c.S[1]+k > c.S[0])
	})
	vdev("cdna3/v_subbrev_co_u32_e32", "cdna3/vop2.go runVSUBBREVU32 computes on untruncated 64-bit operand values", sd(leak), func(c *isaspec.VCtx) {
		k := uint64(0)
		if c.Cin {
			k = 1
		}
		c.SetD((c.S[1] - c.S[0] - k) & 0xffffffff)
		c.SetC(c.S[0]+k > c.S[1])
	})
	vdev("cdna3/v_fmac_f32_e32", "cdna3/vop2.go runVFMACF32 computes src0*src1 + dst in float32 arithmetic: product rounded before the add (not fused)",
		dst("multiply-add-not-fused"), func(c *isaspec.VCtx) {
			p := f32of(c.S[0]) * f32of(c.S[1])
			c.SetD(bitsOf(float32(p) + f32of(c.D0)))
		})

	// ------------------------------------------------------------ VOP3b carry ops (both ALUs share the code shape)
	for _, a := range []struct{ arch, add, sub, subrev, addc, subbrev string }{
		{"gcn3", "v_add_u32_e64", "v_sub_u32_e64", "v_subrev_u32_e64", "v_addc_u32_e64", "v_subbrev_u32_e64"},
		{"cdna3", "v_add_co_u32_e64", "v_sub_co_u32_e64", "v_subrev_co_u32_e64", "v_addc_co_u32_e64", "v_subbrev_co_u32_e64"},
	} {
		w := "aluvop3b.go computes on untruncated 64-bit operand values"
		vdev(a.arch+"/"+a.add, w, sd(leak), func(c *isaspec.VCtx) { rawAdd(c, c.S[0], c.S[1], false) })
		vdev(a.arch+"/"+a.addc, w, sd(leak), func(c *isaspec.VCtx) { rawAdd(c, c.S[0], c.S[1], c.Cin) })
		cd := a.arch == "cdna3"
		if !cd { // cdna3/vop3b.go truncates the operands of sub / subrev
			vdev(a.arch+"/"+a.sub, w, sd(leak), func(c *isaspec.VCtx) {
				c.SetD((c.S[0] - c.S[1]) & 0xffffffff)
				c.SetC(c.S[0] < c.S[1])
			})
			vdev(a.arch+"/"+a.subrev, w, sd(leak), func(c *isaspec.VCtx) {
				d := c.S[1] - c.S[0]
				c.SetD(d & 0xffffffff)
				c.SetC(d > 0xffffffff)
			})
		}
		vdev(a.arch+"/"+a.subbrev, w, sd(leak), func(c *isaspec.VCtx) {
			k := uint64(0)
			if c.Cin {
				k = 1
			}
			d := c.S[1] - c.S[0] - k
			c.SetD(d & 0xffffffff)
			if cd {
				c.SetC(c.S[0]+k > c.S[1])
			} else {
				c.SetC(d > 0xffffffff)
			}
		})
	}
	for _, k := range []string{"gcn3/v_subb_u32_e64", "cdna3/v_subb_co_u32_e64"} {
		deviants[k] = &Deviant{What: "decodetable.go declares v_subb_u32 (VOP3b opcode 285) without a third source: inst.Src2 is nil and runVSUBBU32VOP3b dereferences it",
			PanicIf: func(t *task, pre *isaspec.State) bool { return true }, PanicCause: "always-panics-nil-src2-carry-in"}
	}

	// ------------------------------------------------------------ VOP3a
	for _, a := range []string{"gcn3", "cdna3"} {
		sh := vdev(a+"/v_lshlrev_b64", "decodetable.go gives v_lshlrev_b64 a 64-bit SRC0: the shift amount is read from a register pair and is not masked to 6 bits",
			dst("shift-amount-read-as-64-bit-pair-and-not-masked"), func(c *isaspec.VCtx) { c.SetD(c.S[1] << c.S[0]) })
		sh.Pat = "D64,S64,S64"
		sh = vdev(a+"/v_ashrrev_i64", "decodetable.go gives v_ashrrev_i64 a 64-bit SRC0: the shift amount is read from a register pair and is not masked to 6 bits",
			dst("shift-amount-read-as-64-bit-pair-and-not-masked"), func(c *isaspec.VCtx) { c.SetD(uint64(int64(c.S[1]) >> c.S[0])) })
		sh.Pat = "D64,S64,S64"
		vdev(a+"/v_fma_f64", "runVFMAF64 computes src0*src1 + src2 with two roundings (Go does not fuse on amd64)",
			dst("multiply-add-not-fused"), func(c *isaspec.VCtx) {
				p := math.Float64frombits(c.S[0]) * math.Float64frombits(c.S[1])
				c.SetD(math.Float64bits(float64(p) + math.Float64frombits(c.S[2])))
			})
		vdev(a+"/v_mad_u32_u24", "runVOP3A dispatches opcode 451 (v_mad_u32_u24) to runVMADU64U32: the operands are not masked to 24 bits",
			dst("operands-not-masked-to-24-bits"), func(c *isaspec.VCtx) {
				if a == "cdna3" {
					c.SetD(uint64(uint32(uint64(uint32(c.S[0]))*uint64(uint32(c.S[1])) + c.S[2])))
					return
				}
				c.SetD(uint64(uint32(c.S[0]*c.S[1] + c.S[2])))
			})
		m := vdev(a+"/v_mad_u64_u32", "decodetable.go declares v_mad_u64_u32 (opcode 488) as VOP3a with 32-bit DST and SRC2: only the low dword of the sum is written, SRC2's high dword is not read, no carry-out",
			dst("result-truncated-to-32-bits"), func(c *isaspec.VCtx) {
				if a == "cdna3" {
					c.SetD(uint64(uint32(uint64(uint32(c.S[0]))*uint64(uint32(c.S[1])) + c.S[2])))
					return
				}
				c.SetD(uint64(uint32(c.S[0]*c.S[1] + c.S[2])))
			})
		m.Pat = "D32,C,S32,S32,S32"
		vdev(a+"/v_mul_hi_u32", "runVMULHIU32 multiplies the untruncated 64-bit operand values", dst(leak), func(c *isaspec.VCtx) {
			c.SetD(uint64(uint32((c.S[0] * c.S[1]) >> 32)))
		})
		vdev(a+"/v_med3_u32", "median3Uint32 uses strict comparisons: with two equal operands it can return the third",
			dst("equal-operands-return-non-median"), func(c *isaspec.VCtx) {
				c.SetD(uint64(median3Uint32(uint32(c.S[0]), uint32(c.S[1]), uint32(c.S[2]))))
			})
		sel3 := func(isMax bool) func(c *isaspec.VCtx) {
			return func(c *isaspec.VCtx) {
				d := modF32(c, 0)
				for _, v := range []float32{modF32(c, 1), modF32(c, 2)} {
					if (!isMax && v < d) || (isMax && v > d) {
						d = v
					}
				}
				c.SetD(bitsOf(d))
			}
		}
		vdev(a+"/v_min3_f32", "runVMIN3F32 keeps a NaN in src0 and ignores NaNs in src1/src2 only by accident of the comparison order", dst("nan-in-src0-returned"), sel3(false))
		vdev(a+"/v_max3_f32", "runVMAX3F32 keeps a NaN in src0", dst("nan-in-src0-returned"), sel3(true))
		vdev(a+"/v_med3_f32", "runVMED3F32 sorts with sort.Float64s (NaNs first) and takes the middle element", dst("nan-handling-by-sort-order"), func(c *isaspec.VCtx) {
			l := []float64{float64(modF32(c, 0)), float64(modF32(c, 1)), float64(modF32(c, 2))}
			sort.Float64s(l)
			c.SetD(bitsOf(float32(l[1])))
		})
	}
	vdev("gcn3/v_bfe_i32", "aluvop3a.go runVBFEI32: when offset+width >= 32 the source is shifted logically, not arithmetically (manual 12-127: dst = src0 >>> offset)",
		dst("field-reaching-bit-31-not-sign-extended"), func(c *isaspec.VCtx) {
			src0 := uint32(c.S[0])
			off, w := uint32(c.S[1])&0x1f, uint32(c.S[2])&0x1f
			switch {
			case w == 0:
				c.SetD(0)
			case off+w < 32:
				ex := (src0 >> off) & (1<<w - 1)
				if ex&(1<<(w-1)) != 0 {
					ex |= 0xffffffff << w
				}
				c.SetD(uint64(ex))
			default:
				c.SetD(uint64(src0 >> off))
			}
		})
	vdev("cdna3/v_bfe_i32", "cdna3/vop3a.go runVBFEI32: a field that reaches beyond bit 31 is not sign-extended from bit 31 (manual 12-127: dst = src0 >>> offset)",
		dst("field-reaching-bit-31-not-sign-extended"), func(c *isaspec.VCtx) {
			src0 := uint32(c.S[0])
			off, w := uint32(c.S[1])&0x1f, uint32(c.S[2])&0x1f
			if w == 0 {
				c.SetD(0)
				return
			}
			ex := src0 >> off
			m := uint32(1)<<w - 1
			ex &= m
			if (ex>>(w-1))&1 == 1 {
				ex |= ^m
			}
			c.SetD(uint64(ex))
		})
	vdev("cdna3/v_fma_f32", "cdna3/vop3a.go runVFMAF32 computes src0*src1 + src2 with two roundings (not fused)", dst("multiply-add-not-fused"), func(c *isaspec.VCtx) {
		p := f32of(c.S[0]) * f32of(c.S[1])
		c.SetD(bitsOf(float32(p) + f32of(c.S[2])))
	})
	vdev("cdna3/v_cmp_ge_f32_e64", "cdna3/vop3a.go dispatches opcode 70 (0x46, V_CMP_GE_F32) to runVCmpLeF32VOP3a: computes S0 <= S1",
		sd("computes-le-instead-of-ge"), func(c *isaspec.VCtx) { c.SetC(f32of(c.S[0]) <= f32of(c.S[1])) })

	// ------------------------------------------------------------ VOPC
	for _, a := range []string{"gcn3", "cdna3"} {
		vdev(a+"/v_cmp_lg_f32_e32", "runVCmpLgF32 uses '!=': true when an operand is NaN (manual: LG is an ordered comparison)",
			sd("true-for-nan-operands"), func(c *isaspec.VCtx) { c.SetC(f32of(c.S[0]) != f32of(c.S[1])) })
		for _, o := range []struct {
			n string
			f func(a, b uint64) bool
		}{
			{"lt", func(a, b uint64) bool { return a < b }}, {"eq", func(a, b uint64) bool { return a == b }},
			{"le", func(a, b uint64) bool { return a <= b }}, {"gt", func(a, b uint64) bool { return a > b }},
			{"ne", func(a, b uint64) bool { return a != b }}, {"ge", func(a, b uint64) bool { return a >= b }},
			{"f", func(a, b uint64) bool { return false }}, {"t", func(a, b uint64) bool { return true }},
		} {
			f := o.f
			d := vdev(a+"/v_cmp_"+o.n+"_u64_e32", "decodeVOPC does not set RegCount for 64-bit compares: only the low dwords of the operands are read",
				sd("=insts.Disassembler/decodeVOPC/64-bit-operands-regcount-not-set/only-low-dwords-compared/{key}"), func(c *isaspec.VCtx) { c.SetC(f(c.S[0], c.S[1])) })
			d.Pat = "C,S32,S32"
		}
	}
	vdev("gcn3/v_cmp_nlg_f32_e32", "runVCmpNlgF32 uses '!(a != b)': false when an operand is NaN (manual: NLG is true for unordered operands)",
		sd("false-for-nan-operands"), func(c *isaspec.VCtx) { c.SetC(!(f32of(c.S[0]) != f32of(c.S[1]))) })
	for _, o := range []struct {
		n string
		f func(a, b uint64) bool
	}{
		{"lt", func(a, b uint64) bool { return a < b }}, {"le", func(a, b uint64) bool { return a <= b }},
		{"gt", func(a, b uint64) bool { return a > b }}, {"ne", func(a, b uint64) bool { return a != b }},
		{"ge", func(a, b uint64) bool { return a >= b }}, {"eq", func(a, b uint64) bool { return a == b }},
	} {
		f := o.f
		for _, enc := range []string{"e32", "e64"} {
			vdev("gcn3/v_cmp_"+o.n+"_u32_"+enc, "the u32 compare handlers compare the untruncated 64-bit operand values", sd(leak),
				func(c *isaspec.VCtx) { c.SetC(f(c.S[0], c.S[1])) })
			vdev("cdna3/v_cmp_"+o.n+"_u32_"+enc, "the u32 compare handlers compare the untruncated 64-bit operand values", sd(leak),
				func(c *isaspec.VCtx) { c.SetC(f(c.S[0], c.S[1])) })
		}
	}
	cls := func(c *isaspec.VCtx) {
		b := uint32(c.S[0])
		src0 := f32of(c.S[0])
		var class uint32
		switch {
		case math.IsNaN(float64(src0)):
			class = 1 << 1
		case math.IsInf(float64(src0), -1):
			class = 1 << 2
		case math.IsInf(float64(src0), 1):
			class = 1 << 9
		case src0 == 0:
			class = 1 << 6
			if b>>31 != 0 {
				class = 1 << 5
			}
		case (b>>23)&0xff == 0:
			class = 1 << 7
			if b>>31 != 0 {
				class = 1 << 4
			}
		default:
			class = 1 << 8
			if b>>31 != 0 {
				class = 1 << 3
			}
		}
		c.SetC(class&uint32(c.S[1]) != 0)
	}
	vdev("cdna3/v_cmp_class_f32_e32", "cdna3/vopc.go runVCmpClassF32 classifies every NaN as quiet (mask bit 0, signalling NaN, never matches)", sd("signalling-nan-classified-as-quiet"), cls)
	vdev("cdna3/v_cmp_class_f32_e64", "cdna3/vop3a.go runVCmpClassF32VOP3a classifies every NaN as quiet", sd("signalling-nan-classified-as-quiet"), cls)

	// ------------------------------------------------------------ SDWA
	for _, n := range []string{"v_and_b32_sdwa", "v_or_b32_sdwa", "v_xor_b32_sdwa"} {
		deviants["gcn3/"+n] = &Deviant{What: "alu.go sdwaDstSelect ignores DST_UNUSED: the bits outside DST_SEL are always cleared (UNUSED_PRESERVE and UNUSED_SEXT behave as UNUSED_PAD)",
			SDWA: "pad-always", Causes: map[string]string{"dst": "dst_unused-ignored-always-pad"}}
		deviants["cdna3/"+n] = &Deviant{What: "cdna3/alu.go sdwaDstSelect, UNUSED_SEXT: 'value | ^mask' also sets the bits below the selected field (manual 13-40: pad lower bits with 0)",
			SDWA: "sext-fills-low-bits", Causes: map[string]string{"dst": "unused_sext-sets-bits-below-the-field"}}
	}
	// ------------------------------------------------------------ memory
	const smemAlign = "=emu/runSLOADDWORD/address-low-2-bits-not-ignored/{key}"
	for _, a := range []string{"gcn3", "cdna3"} {
		for _, n := range []struct {
			name  string
			bytes int
		}{{"s_load_dword", 4}, {"s_load_dwordx2", 8}, {"s_load_dwordx4", 16}, {"s_load_dwordx8", 32}, {"s_load_dwordx16", 64}} {
			deviants[a+"/"+n.name] = &Deviant{What: "runSLOADDWORD* reads at base+offset without clearing the two low address bits (manual 12-52: m_addr = (SGPR[SBASE] + m_offset) & ~0x3)",
				M:      &isaspec.MemOp{Kind: "sload", Bytes: n.bytes, NoAlign: true},
				Causes: map[string]string{"dst": smemAlign, "vcc": smemAlign, "m0": smemAlign, "fault": smemAlign}}
		}
		deviants[a+"/ds_read_b64"] = &Deviant{What: "runDSREADB64 does not add the instruction offset to the address",
			M: &isaspec.MemOp{Kind: "dsread", Bytes: 8, IgnoreOffset: true}, Causes: map[string]string{"dst": "instruction-offset-ignored"}}
	}
	for _, n := range []string{"flat_load_ubyte", "flat_load_sbyte", "flat_load_ushort", "global_load_ubyte", "global_load_sbyte", "global_load_ushort"} {
		deviants["gcn3/"+n] = &Deviant{What: "alu_flat.go reads 4 bytes from memory for a sub-dword load: an access that ends at the end of a mapping faults",
			PanicCause: "reads-4-bytes-faults-at-end-of-mapping",
			PanicIf: func(t *task, pre *isaspec.State) bool {
				for l := 0; l < isaspec.NumLanes; l++ {
					if pre.EXEC>>uint(l)&1 == 0 {
						continue
					}
					// the address the ISA prescribes (OFF mode: VGPR pair; SADDR mode:
					// SGPR base + zero-extended 32-bit VGPR), plus the signed immediate
					a := pre.ReadLane(t.in.Ops[1], 64, l)
					if len(t.in.Ops) == 3 && t.in.Ops[2].Kind == isaspec.KSGPR {
						a = pre.ReadScalar(t.in.Ops[2], 64) + uint64(uint32(pre.ReadLane(t.in.Ops[1], 32, l)))
					}
					a += uint64(t.in.Mod("offset", 0))
					if _, ok := pre.Mem.Read(a, 4); !ok {
						return true
					}
				}
				return false
			}}
	}
	for _, n := range []struct {
		name   string
		kind   string
		bytes  int
		signed bool
	}{
		{"flat_load_ubyte", "flatload", 1, false}, {"flat_load_sbyte", "flatload", 1, true}, {"flat_load_ushort", "flatload", 2, false},
		{"flat_load_sshort", "flatload", 2, true}, {"flat_load_dword", "flatload", 4, false}, {"flat_load_dwordx2", "flatload", 8, false},
		{"flat_load_dwordx3", "flatload", 12, false}, {"flat_load_dwordx4", "flatload", 16, false},
		{"flat_store_byte", "flatstore", 1, false}, {"flat_store_short", "flatstore", 2, false}, {"flat_store_dword", "flatstore", 4, false},
		{"flat_store_dwordx2", "flatstore", 8, false}, {"flat_store_dwordx3", "flatstore", 12, false}, {"flat_store_dwordx4", "flatstore", 16, false},
	} {
		c := "=insts.Disassembler/decodeFLAT/cdna3-flat-segment-saddr-field-0-taken-as-s0-s1-base/{key}"
		deviants["cdna3/"+n.name] = &Deviant{What: "decodeFLAT (IsCDNA3) treats every SADDR != 0x7f as a scalar base: flat_* instructions (SEG=0, SADDR field 0) are executed as s[0:1] + zero-extended 32-bit VGPR offset",
			M:      &isaspec.MemOp{Kind: n.kind, Bytes: n.bytes, Signed: n.signed, SaddrS0: true},
			Causes: map[string]string{"dst": c, "mem": c, "fault": c}}
	}
}
