package main

import (
	"fmt"
	"regexp"
	"sort"
	"strings"
	"sync"
	"sync/atomic"

	"github.com/sarchlab/mgpusim/v4/amd/insts"

	"verif/mc/isaspec"
)

type task struct {
	ar   *archRun
	w    *worker
	form isaspec.Form
	in   *isaspec.Instr
	e    *isaspec.Entry
	inst *insts.Inst
	key  string // arch/FMT/mnemonic
	fmtN string

	writesV, writesLDS, writesMem bool
	post, got, dev                isaspec.State

	evals, tuples, skipped, mism int64
	notImpl                      bool
	panics                       int64
	sample                       map[string]any
}

func encFmt(e *isaspec.Entry, in *isaspec.Instr) string {
	if e.Class == isaspec.CVector || e.Class == isaspec.CReadFirstLane {
		if in.Enc == "e64" {
			return "VOP3"
		}
	}
	return e.Fmt
}

func decodeSafe(d *insts.Disassembler, b []byte) (inst *insts.Inst, err error) {
	defer func() {
		if r := recover(); r != nil {
			err = fmt.Errorf("decoder panic: %v", r)
		}
	}()
	buf := make([]byte, 8)
	copy(buf, b)
	if len(b) > 8 {
		buf = append([]byte(nil), b...)
	}
	return d.Decode(buf)
}

var notImplRe = regexp.MustCompile(`is not implemented|not implemented|Inst format .* is not supported|modifiers are not supported`)

func newTask(ar *archRun, w *worker, f isaspec.Form) *task {
	in, err := isaspec.Parse(f.Text)
	if err != nil {
		run.Infra("parse %q: %v", f.Text, err)
		return nil
	}
	in.Bytes = f.Bytes
	e := isaspec.LookupArch(in.Base, ar.arch)
	if e == nil && strings.HasPrefix(f.Group, "gfx9-encoding:") {
		e = isaspec.LookupArch(in.Base, isaspec.CDNA3)
	}
	if e == nil {
		run.Infra("no spec entry for %q", f.Text)
		return nil
	}
	t := &task{ar: ar, w: w, form: f, in: in, e: e}
	t.fmtN = encFmt(e, in)
	t.key = ar.arch.String() + "/" + t.fmtN + "/" + in.Mnem
	inst, err := decodeSafe(ar.dec, f.Bytes)
	if err != nil {
		statMu.Lock()
		stat(t.key).DecodeFail++
		stat(t.key).Forms++
		statMu.Unlock()
		return nil
	}
	t.inst = inst
	switch e.Class {
	case isaspec.CVector:
		t.writesV = true
	case isaspec.CDS:
		t.writesV = strings.HasPrefix(e.M.Kind, "dsread")
		t.writesLDS = !t.writesV
	case isaspec.CFLAT:
		t.writesV = e.M.Kind == "flatload"
		t.writesMem = !t.writesV
	}
	return t
}

// prepPost makes t.post a copy of pre, sharing the bulk arrays the
// specification of this instruction class never writes.
func (t *task) prep(dst, pre *isaspec.State) {
	dst.S = pre.S
	dst.SCC, dst.VCC, dst.EXEC, dst.M0, dst.PC = pre.SCC, pre.VCC, pre.EXEC, pre.M0, pre.PC
	dst.Quirk = 0
	if t.writesV {
		if len(dst.V) != len(pre.V) || &dst.V[0] == &pre.V[0] {
			dst.V = make([]uint32, len(pre.V))
		}
		copy(dst.V, pre.V)
	} else {
		dst.V = pre.V
	}
	if t.writesLDS {
		if len(dst.LDS) != len(pre.LDS) || &dst.LDS[0] == &pre.LDS[0] {
			dst.LDS = make([]byte, len(pre.LDS))
		}
		copy(dst.LDS, pre.LDS)
	} else {
		dst.LDS = pre.LDS
	}
	if t.writesMem && pre.Mem != nil {
		dst.Mem = pre.Mem.Clone()
	} else {
		dst.Mem = pre.Mem
	}
}

// evalOnce runs one pre-state through specification and implementation and
// reports every disagreement. It returns the signatures reported.
func (t *task) evalOnce(pre *isaspec.State, verbose bool) []string {
	t.prep(&t.post, pre)
	x := isaspec.Exec(t.in, t.e, pre, &t.post)
	if x.Unsupported != "" {
		t.skipped++
		if verbose {
			fmt.Println("specification does not decide this case:", x.Unsupported)
		}
		return nil
	}
	t.w.load(pre, t.inst)
	pm := t.w.run()
	stray := t.w.unload(pre, &t.got)
	t.evals++
	if t.e.Class == isaspec.CScalar || t.e.Class == isaspec.CSMEM || t.e.Class == isaspec.CReadFirstLane {
		t.tuples++
	} else {
		t.tuples += int64(popcount(pre.EXEC))
	}
	x.Resolve(&t.got)
	if pm == "" && stray == "" && t.post.Equal(&t.got) {
		if verbose {
			fmt.Println("post-state equals the specification")
		}
		return nil
	}
	t.mism++
	if pm != "" {
		t.panics++
	}
	sigs, msg := t.classify(pre, x, pm, stray)
	for _, s := range sigs {
		if _, dup := reported.LoadOrStore(s, true); dup && !verbose {
			continue
		}
		m := msg()
		recordFinding(s, m)
		run.Report(s, m, makeReplay(t.ar.arch, t.form, pre))
	}
	if verbose {
		fmt.Println(msg())
	}
	return sigs
}

func popcount(v uint64) int {
	n := 0
	for ; v != 0; v &= v - 1 {
		n++
	}
	return n
}

var reported sync.Map // signatures already handed to the harness

var regTypeRe = regexp.MustCompile(`Register type (\S+) not supported`)
var digitsRe = regexp.MustCompile(`0x[0-9a-fA-F]+|[0-9]+`)

func slug(s string) string {
	s = digitsRe.ReplaceAllString(s, "N")
	s = strings.Map(func(r rune) rune {
		switch {
		case r >= 'a' && r <= 'z', r >= 'A' && r <= 'Z', r >= '0' && r <= '9':
			return r
		}
		return '-'
	}, s)
	for strings.Contains(s, "--") {
		s = strings.ReplaceAll(s, "--", "-")
	}
	s = strings.Trim(s, "-")
	if len(s) > 60 {
		s = s[:60]
	}
	return s
}

// category of a differing state component for this instruction.
func (t *task) category(comp string, pre *isaspec.State) string {
	in, e := t.in, t.e
	regOf := func(o isaspec.Operand, bits int) []string {
		var out []string
		n := (bits + 31) / 32
		if n < 1 {
			n = 1
		}
		switch o.Kind {
		case isaspec.KSGPR:
			if o.Count > n {
				n = o.Count
			}
			for i := 0; i < n; i++ {
				out = append(out, fmt.Sprintf("s%d", o.Idx+i))
			}
		case isaspec.KVGPR:
			if o.Count > n {
				n = o.Count
			}
			for i := 0; i < n; i++ {
				out = append(out, fmt.Sprintf("v%d", o.Idx+i))
			}
		case isaspec.KVCC, isaspec.KVCCLo, isaspec.KVCCHi:
			out = append(out, "vcc")
		case isaspec.KEXEC, isaspec.KEXECLo, isaspec.KEXECHi:
			out = append(out, "exec")
		case isaspec.KM0:
			out = append(out, "m0")
		}
		return out
	}
	has := func(l []string) bool {
		for _, x := range l {
			if x == comp {
				return true
			}
		}
		return false
	}
	if len(e.Pat) == len(in.Ops) {
		for i, r := range e.Pat {
			switch r.R {
			case 'D':
				if has(regOf(in.Ops[i], r.Bits)) {
					return "dst"
				}
			case 'C':
				if has(regOf(in.Ops[i], 64)) {
					return "sdst"
				}
			}
		}
	}
	switch comp {
	case "scc", "vcc", "exec", "pc", "m0", "lds", "mem":
		return comp
	}
	if comp[0] == 's' {
		return "frame-sgpr"
	}
	return "frame-vgpr"
}

// quirkSigs lists the register-file deviations that an instruction's operands can trigger.
func quirksFor(in *isaspec.Instr, e *isaspec.Entry) (q int, sigs []string) {
	for i, o := range in.Ops {
		if i >= len(e.Pat) {
			break
		}
		r := e.Pat[i]
		src := r.R == 'S' || (r.R == 'D' && (e.Fmt == "SOPK" || strings.HasPrefix(e.Name, "s_bitset")))
		if src && o.Kind == isaspec.KVCCHi {
			q |= isaspec.QVCCHiRead
			sigs = append(sigs, "emu.Wavefront/ReadOperand/vcc_hi/returns-vcc_lo")
		}
		if src && o.Kind == isaspec.KFloat && r.Bits == 64 {
			q |= isaspec.QFloatConst32
			sigs = append(sigs, "emu.Wavefront/ReadOperand/inline-float-constant-in-64-bit-operand/single-precision-bits")
		}
		if src && o.Kind == isaspec.KVCCLo && r.Bits == 32 {
			q |= isaspec.QVCCLoRead64
			sigs = append(sigs, "emu.Wavefront/ReadOperand/vcc_lo/returns-64-bit-vcc")
		}
	}
	return
}

// model runs the specification with a deviation switched on and reports
// whether it reproduces the implementation's complete post-state.
func (t *task) model(pre *isaspec.State, d *Deviant, q int) bool {
	return t.modelIn(t.in, pre, d, q) == ""
}

// modelIn returns "" when the model reproduces the implementation, "unmapped"
// when the model's memory access faults, "no" otherwise.
func (t *task) modelIn(in *isaspec.Instr, pre *isaspec.State, d *Deviant, q int) string {
	de := *t.e
	if d != nil {
		if d.S != nil {
			de.S = d.S
		}
		if d.V != nil {
			de.V = d.V
		}
		if d.Pat != "" {
			de.Pat = isaspec.Pat(d.Pat)
		}
		if d.M != nil {
			de.M = d.M
		}
		de.SDWAQuirk = d.SDWA
		q |= d.Quirk
	}
	t.prep(&t.dev, pre)
	t.dev.Quirk = q
	pre.Quirk = q
	dx := isaspec.Exec(in, &de, pre, &t.dev)
	pre.Quirk = 0
	t.dev.Quirk = 0
	if dx.Unsupported != "" {
		if dx.Unsupported == "unmapped address" {
			return "unmapped"
		}
		return "no"
	}
	dx.Resolve(&t.got)
	if t.dev.Equal(&t.got) {
		return ""
	}
	return "no"
}

// withoutClamp is the instruction with its clamp modifier removed.
func withoutClamp(in *isaspec.Instr) *isaspec.Instr {
	c := *in
	c.Mods = map[string]string{}
	for k, v := range in.Mods {
		if k != "clamp" {
			c.Mods[k] = v
		}
	}
	return &c
}

// classify turns a disagreement into signatures (one per wrong component)
// and a lazily built message.
func (t *task) classify(pre *isaspec.State, x *isaspec.Expect, pm, stray string) ([]string, func() string) {
	prefix := t.key + "/"
	head := func() string {
		return fmt.Sprintf("%s  [%s, bytes %x]  manual: GCN3 ISA p. %s\n", t.form.Text, t.ar.arch, t.form.Bytes, t.e.Page) +
			t.describeInputs(pre, &t.post, &t.got)
	}
	d := deviants[t.ar.arch.String()+"/"+t.in.Mnem]
	if d == nil {
		d = deviants["both/"+t.in.Mnem]
	}
	if pm != "" {
		msg := func() string { return head() + "implementation panics: " + pm }
		if m := regTypeRe.FindStringSubmatch(pm); m != nil {
			named := false
			for _, o := range t.in.Ops {
				if strings.ReplaceAll(o.Text, "_", "") == m[1] || strings.ReplaceAll(strings.TrimPrefix(o.Text, "src_"), "_", "") == m[1] {
					named = true
				}
			}
			if named {
				return []string{"emu.Wavefront/register-" + m[1] + "-not-supported"}, msg
			}
			if t.e.Fmt == "SMEM" && m[1] == "tma" {
				return []string{"insts.Disassembler/decodeSMEM/offset-m0-decoded-as-register-tma"}, msg
			}
			return []string{prefix + "decoded-operand-register-" + m[1] + "-not-supported"}, msg
		}
		if d != nil && d.PanicIf != nil && d.PanicIf(t, pre) {
			return []string{prefix + d.PanicCause}, msg
		}
		if d != nil && d.M != nil && strings.Contains(pm, "page not found") && t.modelIn(t.in, pre, d, 0) == "unmapped" {
			// the address the implementation computes (per the recorded deviation) is not mapped
			c := d.Causes["fault"]
			if strings.HasPrefix(c, "=") {
				return []string{strings.ReplaceAll(c[1:], "{key}", t.ar.arch.String()+"/"+t.in.Mnem)}, msg
			}
			return []string{prefix + c}, msg
		}
		return []string{prefix + "panic-" + slug(pm)}, msg
	}
	comps, detail := t.post.Diff(&t.got)
	extra := ""
	msg := func() string {
		m := head() + "expected vs got: " + detail
		if stray != "" {
			m += " stray effect: " + stray
		}
		return m + extra
	}
	cats := map[string]string{} // category -> first component
	for _, c := range comps {
		k := t.category(c, pre)
		if _, ok := cats[k]; !ok {
			cats[k] = c
		}
	}
	// does a recorded deviation model reproduce the implementation exactly?
	if stray == "" {
		q, qsigs := quirksFor(t.in, t.e)
		clampSig := t.ar.arch.String() + "/" + t.fmtN + "/clamp-modifier-ignored/" + t.in.Mnem
		hasD := d != nil && (d.S != nil || d.V != nil || d.Quirk != 0 || d.M != nil || d.Pat != "" || d.SDWA != "")
		if t.in.Has("clamp") && t.modelIn(withoutClamp(t.in), pre, nil, q) == "" {
			extra = "\n(implementation equals the specification of the same instruction without the clamp modifier)"
			return []string{clampSig}, msg
		}
		if q != 0 && t.model(pre, nil, q) {
			extra = "\n(implementation equals the specification with the recorded register-file deviation)"
			sort.Strings(qsigs)
			return qsigs, msg
		}
		inEff := t.in
		var sigs []string
		matched := hasD && t.model(pre, d, 0)
		if !matched && hasD && t.in.Has("clamp") && t.modelIn(withoutClamp(t.in), pre, d, 0) == "" {
			matched = true
			inEff = withoutClamp(t.in)
			sigs = append(sigs, clampSig)
		}
		if matched {
			// categories the opcode deviation is responsible for: those that differ
			// between the implementation and the model without the opcode deviation
			dc := cats
			if q != 0 || inEff != t.in {
				t.modelIn(inEff, pre, nil, q)
				if q != 0 {
					t.prep(&t.post, pre)
					isaspec.Exec(inEff, t.e, pre, &t.post).Resolve(&t.got)
					if !t.dev.Equal(&t.post) {
						sigs = append(sigs, qsigs...)
					}
				}
				cc, _ := t.dev.Diff(&t.got)
				dc = map[string]string{}
				for _, k := range cc {
					dc[t.category(k, pre)] = k
				}
			}
			for k := range dc {
				cause, ok := d.Causes[k]
				if !ok {
					cause = k + "-as-recorded-deviation"
				}
				if strings.HasPrefix(cause, "=") {
					sigs = append(sigs, strings.ReplaceAll(cause[1:], "{key}", t.ar.arch.String()+"/"+t.in.Mnem))
				} else {
					sigs = append(sigs, prefix+cause)
				}
			}
			extra = "\n(implementation equals the recorded deviation model: " + d.What + ")"
			sort.Strings(sigs)
			return sigs, msg
		}
	}
	var sigs []string
	for k, c := range cats {
		sigs = append(sigs, prefix+k+"-"+t.relation(c, pre))
	}
	if stray != "" {
		sigs = append(sigs, prefix+"stray-"+slug(stray))
	}
	sort.Strings(sigs)
	return sigs, msg
}

// maskOverlap reports whether a mask destination ('C') shares state with a
// uniform source operand of a vector instruction.
func (t *task) maskOverlap() string {
	if t.e.Class != isaspec.CVector || len(t.e.Pat) != len(t.in.Ops) {
		return ""
	}
	for i, r := range t.e.Pat {
		if r.R != 'C' {
			continue
		}
		c := t.in.Ops[i]
		for j, s := range t.e.Pat {
			if s.R != 'S' {
				continue
			}
			o := t.in.Ops[j]
			switch {
			case isVccKind(c.Kind) && isVccKind(o.Kind):
				return "vcc"
			case isExecKind(c.Kind) && isExecKind(o.Kind):
				return "exec"
			case c.Kind == isaspec.KSGPR && o.Kind == isaspec.KSGPR && o.Idx >= c.Idx && o.Idx < c.Idx+2:
				return "sgpr"
			}
		}
		if t.e.Cmpx {
			for j, s := range t.e.Pat {
				if s.R == 'S' && isExecKind(t.in.Ops[j].Kind) {
					return "exec"
				}
			}
		}
	}
	return ""
}

// relation of (pre, expected, got) for one component.
func (t *task) relation(comp string, pre *isaspec.State) string {
	get := func(st *isaspec.State) (uint64, bool) {
		switch comp {
		case "scc":
			return uint64(st.SCC), true
		case "vcc":
			return st.VCC, true
		case "exec":
			return st.EXEC, true
		case "pc":
			return st.PC, true
		case "m0":
			return uint64(st.M0), true
		case "lds", "mem":
			return 0, false
		}
		var n int
		fmt.Sscan(comp[1:], &n)
		if comp[0] == 's' {
			return uint64(st.S[n]), true
		}
		// first differing lane
		for l := 0; l < isaspec.NumLanes; l++ {
			if t.post.Vreg(l, n) != t.got.Vreg(l, n) {
				return uint64(st.Vreg(l, n)), true
			}
		}
		return 0, false
	}
	p, ok := get(pre)
	if !ok {
		return "wrong"
	}
	e, _ := get(&t.post)
	g, _ := get(&t.got)
	if comp == "pc" {
		p += uint64(t.in.Size())
	}
	switch {
	case g == p && e != p:
		if comp == "scc" {
			if e == 0 {
				return "not-cleared"
			}
			return "not-set"
		}
		return "not-written"
	case e == p && g != p:
		return "clobbered"
	}
	if comp[0] == 'v' && comp != "vcc" && t.e.Class == isaspec.CVector {
		// wrong only in lanes that are switched off?
		var n int
		fmt.Sscan(comp[1:], &n)
		onlyInactive := true
		for l := 0; l < isaspec.NumLanes; l++ {
			if t.post.Vreg(l, n) != t.got.Vreg(l, n) && pre.EXEC>>uint(l)&1 != 0 {
				onlyInactive = false
			}
		}
		if onlyInactive {
			return "inactive-lane-written"
		}
	}
	return "wrong"
}

func (t *task) describeInputs(pre, exp, got *isaspec.State) string {
	var b strings.Builder
	lane := -1
	// first lane that differs in any VGPR
	if t.e.Class != isaspec.CScalar {
		if len(exp.V) == len(got.V) && &exp.V[0] != &got.V[0] {
			for i := range exp.V {
				if exp.V[i] != got.V[i] {
					lane = i / isaspec.NumVGPR
					break
				}
			}
		}
		if lane < 0 {
			// a mask bit: first differing bit of vcc / sdst
			d := exp.VCC ^ got.VCC
			for i := range exp.S {
				if exp.S[i] != got.S[i] {
					d |= uint64(exp.S[i]^got.S[i]) << (uint(i&1) * 32)
				}
			}
			for l := 0; l < 64; l++ {
				if d>>uint(l)&1 != 0 {
					lane = l
					break
				}
			}
		}
		if lane < 0 {
			lane = 0
		}
	}
	fmt.Fprintf(&b, "inputs:")
	for i, o := range t.in.Ops {
		if !o.IsReg() {
			continue
		}
		bits := 32
		if i < len(t.e.Pat) && t.e.Pat[i].Bits > 0 {
			bits = t.e.Pat[i].Bits
		}
		if o.Count*32 > bits {
			bits = o.Count * 32
		}
		switch o.Kind {
		case isaspec.KVGPR:
			fmt.Fprintf(&b, " %s[lane %d]=", o.Text, lane)
			for w := (bits+31)/32 - 1; w >= 0; w-- {
				fmt.Fprintf(&b, "%08x", pre.Vreg(lane, o.Idx+w))
			}
		default:
			if bits > 64 {
				bits = 64
			}
			if bits <= 32 && o.Kind == isaspec.KSGPR {
				fmt.Fprintf(&b, " %s=%#x", o.Text, pre.S[o.Idx])
			} else if o.Kind == isaspec.KSGPR && o.Count > 2 {
				fmt.Fprintf(&b, " %s=...", o.Text)
			} else {
				fmt.Fprintf(&b, " %s=%#x", o.Text, pre.ReadScalar(o, bits))
			}
		}
	}
	fmt.Fprintf(&b, " scc=%d vcc=%#x exec=%#x pc=%#x m0=%#x\n", pre.SCC, pre.VCC, pre.EXEC, pre.PC, pre.M0)
	return b.String()
}

// hopeless reports that every execution so far panicked: the form is then
// not enumerated further (the panic is reported once, with its signature).
func (t *task) hopeless() bool { return t.panics >= 32 && t.panics == t.evals }

func (t *task) flush() {
	statMu.Lock()
	s := stat(t.key)
	s.Forms++
	s.Evals += t.evals
	s.Tuples += t.tuples
	s.Skipped += t.skipped
	s.Mismatching += t.mism
	statMu.Unlock()
	atomic.AddInt64(&totalE, t.evals)
	atomic.AddInt64(&totalT, t.tuples)
}
