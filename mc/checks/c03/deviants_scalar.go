package main

import (
	"math"

	"verif/mc/isaspec"
)

// Recorded deviations of the scalar handlers. Every function is "what the
// handler computes" on the values emu.Wavefront.ReadOperand gives it (QRaw:
// vcc_lo / vcc_hi with decoded RegCount 0 return the 64-bit VCC, negative
// inline constants arrive sign-extended to 64 bits).

func sdev(key, what string, causes map[string]string, f func(c *isaspec.SCtx)) {
	deviants[key] = &Deviant{What: what, S: f, Quirk: isaspec.QRaw, Causes: causes}
}

func lo(v uint64) uint64 { return uint64(uint32(v)) }

func init() {
	const leak = "=emu.Wavefront/ReadOperand/32-bit-operand-not-truncated/{key}"
	// ------------------------------------------------------------ GCN3 SOP2
	sdev("gcn3/s_sub_u32", "alusop2.go runSSUBU32: SCC is set when src0 < src1 (compared as 64-bit values) and never cleared",
		map[string]string{"scc": "scc-not-cleared-when-no-borrow", "dst": leak},
		func(c *isaspec.SCtx) {
			if c.S0 < c.S1 {
				c.SetSCC(true)
			}
			c.SetD(lo(c.S0 - c.S1))
		})
	sdev("gcn3/s_add_i32", "alusop2.go runSADDI32 is a copy of runSADDU32: SCC = unsigned carry instead of signed overflow",
		map[string]string{"scc": "scc-is-unsigned-carry-not-signed-overflow"},
		func(c *isaspec.SCtx) {
			a, b := uint32(c.S0), uint32(c.S1)
			c.SetD(uint64(a + b))
			c.SetSCC(a > math.MaxUint32-b)
		})
	sdev("gcn3/s_addc_u32", "alusop2.go runSADDCU32: SCC = !(src0 < MaxUint32 - SCC - src1) in wrapping uint32 arithmetic",
		map[string]string{"scc": "scc-carry-formula-wrong"},
		func(c *isaspec.SCtx) {
			a, b, k := uint32(c.S0), uint32(c.S1), uint32(c.SCC)
			c.SetD(uint64(a + b + k))
			c.SetSCC(!(a < math.MaxUint32-k-b))
		})
	sdev("gcn3/s_subb_u32", "alusop2.go runSSUBBU32 computes on untruncated 64-bit operand values",
		map[string]string{"scc": leak, "dst": leak},
		func(c *isaspec.SCtx) {
			k := uint64(c.SCC)
			c.SetD(lo(c.S0 - c.S1 - k))
			c.SetSCC(c.S0 < c.S1+k)
		})
	mm := func(key, what string, wins func(a, b uint64) bool) {
		sdev(key, what, map[string]string{"scc": "scc-not-cleared-when-src1-selected", "dst": leak},
			func(c *isaspec.SCtx) {
				if wins(c.S0, c.S1) {
					c.SetD(lo(c.S0))
					c.SetSCC(true)
				} else {
					c.SetD(lo(c.S1))
				}
			})
	}
	mm("gcn3/s_min_i32", "alusop2.go runSMINI32 never clears SCC", func(a, b uint64) bool { return int32(a) < int32(b) })
	mm("gcn3/s_min_u32", "alusop2.go runSMINU32 never clears SCC and compares untruncated 64-bit values", func(a, b uint64) bool { return a < b })
	mm("gcn3/s_max_i32", "alusop2.go runSMAXI32 never clears SCC", func(a, b uint64) bool { return int32(a) > int32(b) })
	mm("gcn3/s_max_u32", "alusop2.go runSMAXU32 never clears SCC and compares untruncated 64-bit values", func(a, b uint64) bool { return a > b })
	raw2 := func(key, what string, f func(a, b uint64) uint64) {
		sdev(key, what, map[string]string{"scc": "scc-from-untruncated-64-bit-result", "dst": leak},
			func(c *isaspec.SCtx) {
				r := f(c.S0, c.S1)
				c.SetD(lo(r))
				c.SetSCC(r != 0)
			})
	}
	raw2("gcn3/s_and_b32", "alusop2.go runSANDB32 tests the untruncated 64-bit result for SCC", func(a, b uint64) uint64 { return a & b })
	raw2("gcn3/s_xor_b32", "alusop2.go dispatches s_xor_b32 to runSXORB64, which tests the untruncated 64-bit result for SCC", func(a, b uint64) uint64 { return a ^ b })
	raw2("gcn3/s_lshr_b32", "alusop2.go runSLSHRB32 shifts the untruncated 64-bit operand", func(a, b uint64) uint64 { return a >> (b & 0x1f) })
	sdev("gcn3/s_ashr_i32", "alusop2.go runSASHRI32 shifts by uint8(src1) without masking to 5 bits",
		map[string]string{"dst": "shift-amount-not-masked-to-5-bits", "scc": "shift-amount-not-masked-to-5-bits"},
		func(c *isaspec.SCtx) {
			r := int32(uint32(c.S0)) >> uint8(c.S1)
			c.SetD(uint64(uint32(r)))
			c.SetSCC(r != 0)
		})
	sdev("gcn3/s_mul_i32", "alusop2.go runSMULI32 sets SCC when the product overflows (the manual's S_MUL_I32 does not write SCC)",
		map[string]string{"scc": "scc-set-on-overflow"},
		func(c *isaspec.SCtx) {
			a, b := int32(uint32(c.S0)), int32(uint32(c.S1))
			d := a * b
			c.SetD(uint64(uint32(d)))
			if a != 0 && d/a != b { // Go: MinInt32 / -1 == MinInt32, as in the handler
				c.SetSCC(true)
			}
		})
	sdev("gcn3/s_bfe_i32", "alusop2.go runSBFEI32 masks the arithmetically shifted source and does not sign-extend the field",
		map[string]string{"dst": "field-not-sign-extended", "scc": "field-not-sign-extended"},
		func(c *isaspec.SCtx) {
			a := int32(uint32(c.S0))
			off := uint32(c.S1) & 0x1f
			w := (uint32(c.S1) >> 16) & 0x7f
			var one int32 = 1
			m := one<<w - 1
			d := (a >> off) & m
			c.SetD(uint64(uint32(d)))
			c.SetSCC(d != 0)
		})
	// ------------------------------------------------------------ GCN3 SOP1 / SOPK
	for _, a := range []string{"gcn3", "cdna3"} {
		sdev(a+"/s_not_b32", "runSNOTU32 complements the 64-bit operand value: the test 'dst != 0' is always true for a zero-extended source, and SCC is never cleared",
			map[string]string{"scc": "scc-set-from-64-bit-complement-never-cleared"},
			func(c *isaspec.SCtx) {
				d := ^c.S0
				c.SetD(lo(d))
				if d != 0 {
					c.SetSCC(true)
				}
			})
	}
	sdev("gcn3/s_getpc_b64", "alusop1.go runSGETPCB64 returns state.PC()+4, but emu.ComputeUnit has already advanced the PC past the instruction: the result is the instruction address + 8",
		map[string]string{"dst": "result-is-address-plus-8-when-pc-pre-advanced"},
		func(c *isaspec.SCtx) { c.SetD(c.PC + 8) })
	for _, n := range []struct {
		name string
		eq   bool
	}{{"s_cmpk_eq_i32", true}, {"s_cmpk_lg_i32", false}} {
		eq := n.eq
		sdev("gcn3/"+n.name, "alusopk.go compares only the low 16 bits of SDST with SIMM16",
			map[string]string{"scc": "compares-only-low-16-bits-of-sdst"},
			func(c *isaspec.SCtx) { c.SetSCC((int16(c.D0) == int16(c.Imm)) == eq) })
	}
	// ------------------------------------------------------------ CDNA3
	mmc := func(key string, wins func(a, b uint64) bool) {
		sdev(key, "cdna3/sop2.go compares the untruncated 64-bit operand values",
			map[string]string{"scc": leak, "dst": leak},
			func(c *isaspec.SCtx) {
				if wins(c.S0, c.S1) {
					c.SetD(lo(c.S0))
					c.SetSCC(true)
				} else {
					c.SetD(lo(c.S1))
					c.SetSCC(false)
				}
			})
	}
	mmc("cdna3/s_min_u32", func(a, b uint64) bool { return a < b })
	mmc("cdna3/s_max_u32", func(a, b uint64) bool { return a > b })
	raw2("cdna3/s_and_b32", "cdna3/sop2.go runSANDB32 tests the untruncated 64-bit result for SCC", func(a, b uint64) uint64 { return a & b })
	sdev("cdna3/s_bfe_u32", "cdna3/sop2.go runSBFEU32 shifts the untruncated 64-bit operand",
		map[string]string{"scc": leak, "dst": leak},
		func(c *isaspec.SCtx) {
			off := c.S1 & 0x1f
			w := (c.S1 >> 16) & 0x7f
			var d uint64
			if w != 0 {
				d = (c.S0 >> off) & ((1 << w) - 1)
			}
			c.SetD(lo(d))
			c.SetSCC(d != 0)
			c.AnySCC = false
		})
	sdev("cdna3/s_bfe_i32", "cdna3/sop2.go runSBFEI32 sign-extends from bit width-1 of the zero-extended shifted value: a field that reaches beyond bit 31 is not sign-extended (manual 12-4: dst = src0 >>> offset)",
		map[string]string{"dst": "field-reaching-bit-31-not-sign-extended", "scc": "field-reaching-bit-31-not-sign-extended"},
		func(c *isaspec.SCtx) {
			off := c.S1 & 0x1f
			w := (c.S1 >> 16) & 0x7f
			var d uint64
			if w != 0 {
				ex := (c.S0 >> off) & ((1 << w) - 1)
				if (ex>>(w-1))&1 == 1 {
					ex |= ^((uint64(1) << w) - 1)
				}
				d = ex
			}
			c.SetD(lo(d))
			c.SetSCC(d != 0)
		})
	sdev("cdna3/s_mul_hi_u32", "cdna3/sop2.go runSMULHIU32 multiplies the untruncated 64-bit operand values",
		map[string]string{"dst": leak},
		func(c *isaspec.SCtx) { c.SetD(lo((c.S0 * c.S1) >> 32)) })
	sdev("cdna3/s_abs_i32", "cdna3/sop1.go runSABSI32 sets SCC = (source < 0) instead of (result != 0)",
		map[string]string{"scc": "scc-is-sign-of-source-not-result-nonzero"},
		func(c *isaspec.SCtx) {
			v := int32(uint32(c.S0))
			if v < 0 {
				c.SetD(uint64(uint32(-v)))
				c.SetSCC(true)
			} else {
				c.SetD(uint64(uint32(v)))
				c.SetSCC(false)
			}
		})
	sdev("cdna3/s_movk_i32", "cdna3/sopk.go runSMOVKI32 writes uint64(Int16ToBits(imm)): SIMM16 is zero-extended instead of sign-extended",
		map[string]string{"dst": "simm16-not-sign-extended"},
		func(c *isaspec.SCtx) { c.SetD(uint64(c.Imm)) })
	sdev("cdna3/s_cmovk_i32", "cdna3/sopk.go runSCMOVKI32 zero-extends SIMM16",
		map[string]string{"dst": "simm16-not-sign-extended"},
		func(c *isaspec.SCtx) {
			if c.SCC == 1 {
				c.SetD(uint64(c.Imm))
			}
		})
}
