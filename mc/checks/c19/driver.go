// C19, driver side: the drain -> shootdown -> migrate -> restart orchestration of
// the real driver.Driver. The environment plays the MMU and the command
// processors of all GPUs (which perform the page copy in a flat physical
// memory); the explorer owns the order and delay of every acknowledgement.
package main

import (
	"bytes"
	"fmt"
	"sort"

	"github.com/sarchlab/akita/v4/mem/vm"
	"github.com/sarchlab/akita/v4/sim"
	"github.com/sarchlab/mgpusim/v4/amd/driver"
	"github.com/sarchlab/mgpusim/v4/amd/protocol"

	"verif/mc/explore"
	"verif/mc/harness"
	"verif/mc/world"
)

type fakeP struct {
	sim.Port
	n sim.RemotePort
}

func (f fakeP) AsRemote() sim.RemotePort { return f.n }
func (f fakeP) Name() string             { return string(f.n) }

type migReq struct {
	host      uint64            // GPU currently holding the pages (1-based)
	accessing []uint64          // GPUs to shoot down / restart
	want      map[uint64][]int  // requesting GPU (1-based) -> indices of pages
	at        int               // injection cycle
}

type dcfg struct {
	gpus  int
	pages int // pages allocated on GPU 1 (one buffer)
	reqs  []migReq
	// allocDuring: GPU 1 has exactly `pages` frames (it is full), and the application asks for one more page on
	// it whenever a page copy has been handed to the command processor and is not yet acknowledged. The call
	// may fail for lack of memory; if it succeeds the new page must not sit on a frame the copy still reads.
	allocDuring bool
}

const log2Page = 12
const pageSize = 1 << log2Page

func driverBody(c dcfg) explore.Body {
	return func(x *explore.Exec) *explore.Violation {
		w := world.New(x, 3000)
		pt := vm.NewPageTable(log2Page)
		d := driver.MakeBuilder().WithEngine(w.Engine).WithFreq(w.Freq).WithLog2PageSize(log2Page).WithPageTable(pt).Build("Driver")
		var cps, pmcs []fakeP
		for i := 0; i < c.gpus; i++ {
			cp := fakeP{n: sim.RemotePort(fmt.Sprintf("GPU%d.CP", i+1))}
			cps = append(cps, cp)
			dram := uint64(64 * pageSize)
			if c.allocDuring && i == 0 {
				dram = uint64(c.pages) * pageSize
			}
			d.RegisterGPU(cp, driver.DeviceProperties{CUCount: 4, DRAMSize: dram})
			pmc := fakeP{n: sim.RemotePort(fmt.Sprintf("GPU%d.PMC", i+1))}
			pmcs = append(pmcs, pmc)
			d.RemotePMCPorts = append(d.RemotePMCPorts, pmc)
		}
		initMu.Lock()
		ctx := d.Init()
		initMu.Unlock()
		pid := driver.VerifContextPID(ctx)
		d.SelectGPU(ctx, 1)
		base := uint64(d.AllocateMemory(ctx, uint64(c.pages*pageSize)))
		vaddr := func(i int) uint64 { return base + uint64(i)*pageSize }

		gpuPort, mmuPort := d.GetPortByName("GPU"), d.GetPortByName("MMU")
		w.NewWire("wire", gpuPort, mmuPort)
		const mmu = sim.RemotePort("Env.MMU")

		// flat physical memory, sparse by page
		mem := map[uint64][]byte{}
		pg := func(pa uint64) []byte {
			b := pa &^ (pageSize - 1)
			if _, ok := mem[b]; !ok {
				p := make([]byte, pageSize)
				for j := range p {
					p[j] = byte(uint64(j)*7 + b>>12*31 + 1)
				}
				mem[b] = p
			}
			return mem[b]
		}
		type snap struct {
			page vm.Page
			data []byte
		}
		before := map[int]snap{}
		for i := 0; i < c.pages; i++ {
			p, ok := pt.Find(pid, vaddr(i))
			if !ok {
				return explore.Viol("driver/setup", "page %d not mapped after AllocateMemory", i)
			}
			before[i] = snap{p, append([]byte{}, pg(p.PAddr)...)}
		}
		written := map[uint64]bool{} // destination frames written by copies

		var viol *explore.Violation
		fail := func(sig, f string, a ...any) {
			if viol == nil {
				viol = explore.Viol("driver/"+sig, f, a...)
			}
		}
		var trace bytes.Buffer
		// protocol monitor state for the request being served
		cur := -1
		type phase struct{ drainAck, shootAck, migAck, restartAck, rdmaRestartAck int }
		var ph phase
		var sent struct{ drain, shoot, mig, restart, rdmaRestart int }
		copies := map[[2]uint64]int{}
		migInFlight := 0
		rsps := 0
		gpuF := &world.Feeder{W: w, Port: gpuPort, Tag: "cp-acks", Reorder: true, DelayAlphabet: []int{2, 6}}
		gpuSink := &world.Sink{W: w, Port: gpuPort, Tag: "to-cps", StallAlphabet: []int{1, 3}}
		gpuIdx := func(dst sim.RemotePort) int {
			for i, p := range cps {
				if p.n == dst {
					return i
				}
			}
			return -1
		}
		gpuSink.Handle = func(m sim.Msg) {
			g := gpuIdx(m.Meta().Dst)
			if g < 0 {
				fail("message-to-unknown-gpu", "%T to %s", m, m.Meta().Dst)
				return
			}
			if cur < 0 {
				fail("traffic-without-request", "%T sent with no migration request pending", m)
				return
			}
			rq := c.reqs[cur]
			switch msg := m.(type) {
			case *protocol.RDMADrainCmdFromDriver:
				sent.drain++
				gpuF.Add(protocol.NewRDMADrainRspToDriver(cps[g], fakeP{n: gpuPort.AsRemote()}), true)
			case *protocol.ShootDownCommand:
				sent.shoot++
				if ph.drainAck < c.gpus {
					fail("shootdown-before-all-rdma-drained", "shootdown sent after %d of %d drain acknowledgements", ph.drainAck, c.gpus)
				}
				ok := false
				for _, a := range rq.accessing {
					if int(a) == g+1 {
						ok = true
					}
				}
				if !ok {
					fail("shootdown-to-non-accessing-gpu", "GPU%d", g+1)
				}
				var want []uint64
				for _, idxs := range rq.want {
					for _, i := range idxs {
						want = append(want, vaddr(i))
					}
				}
				got := append([]uint64{}, msg.VAddr...)
				sort.Slice(want, func(i, j int) bool { return want[i] < want[j] })
				sort.Slice(got, func(i, j int) bool { return got[i] < got[j] })
				if fmt.Sprint(want) != fmt.Sprint(got) || msg.PID != pid {
					fail("shootdown-wrong-pages", "shootdown lists %x (pid %d), migrating pages are %x (pid %d)", got, msg.PID, want, pid)
				}
				gpuF.Add(protocol.NewShootdownCompleteRsp(cps[g], fakeP{n: gpuPort.AsRemote()}), true)
			case *protocol.PageMigrationReqToCP:
				sent.mig++
				migInFlight++
				if migInFlight > 1 {
					fail("two-page-migrations-in-flight", "a second PageMigrationReqToCP was sent before the first was acknowledged")
				}
				if ph.shootAck < len(rq.accessing) {
					fail("migration-before-all-shootdowns", "migration sent after %d of %d shootdown acknowledgements", ph.shootAck, len(rq.accessing))
				}
				if msg.PageSize != pageSize {
					fail("migration-wrong-page-size", "%d", msg.PageSize)
				}
				if msg.DestinationPMCPort == nil || msg.DestinationPMCPort.AsRemote() != pmcs[rq.host-1].n {
					fail("migration-wrong-source-pmc", "PMC port of the GPU holding the page expected (%s)", pmcs[rq.host-1].n)
				}
				copies[[2]uint64{msg.ToReadFromPhysicalAddress, msg.ToWriteToPhysicalAddress}]++
				// the CP/PMC pair performs the copy
				src := append([]byte{}, pg(msg.ToReadFromPhysicalAddress)...)
				copy(pg(msg.ToWriteToPhysicalAddress), src)
				written[msg.ToWriteToPhysicalAddress&^(pageSize-1)] = true
				fmt.Fprintf(&trace, "copy>%d;", g+1)
				gpuF.Add(protocol.NewPageMigrationRspToDriver(cps[g], fakeP{n: gpuPort.AsRemote()}), true)
			case *protocol.GPURestartReq:
				sent.restart++
				n := 0
				for _, idxs := range rq.want {
					n += len(idxs)
				}
				if ph.migAck < n {
					fail("gpu-restart-before-all-pages-migrated", "restart sent after %d of %d page migrations", ph.migAck, n)
				}
				gpuF.Add(protocol.NewGPURestartRsp(cps[g], fakeP{n: gpuPort.AsRemote()}), true)
			case *protocol.RDMARestartCmdFromDriver:
				sent.rdmaRestart++
				if ph.restartAck < len(rq.accessing) {
					fail("rdma-restart-before-gpu-restarts", "after %d of %d", ph.restartAck, len(rq.accessing))
				}
				gpuF.Add(protocol.NewRDMARestartRspToDriver(cps[g], fakeP{n: gpuPort.AsRemote()}), true)
			default:
				fail("unexpected-message-to-gpu", "%T", m)
			}
		}
		gpuF.OnDeliver = func(m sim.Msg) {
			switch m.(type) {
			case *protocol.RDMADrainRspToDriver:
				ph.drainAck++
			case *protocol.ShootDownCompleteRsp:
				ph.shootAck++
			case *protocol.PageMigrationRspToDriver:
				ph.migAck++
				migInFlight--
			case *protocol.GPURestartRsp:
				ph.restartAck++
			case *protocol.RDMARestartRspToDriver:
				ph.rdmaRestartAck++
			}
		}
		// the application allocates while a page copy is in flight
		pendingAlloc, inFlightSrc := false, uint64(0)
		if c.allocDuring {
			world.OnSend(gpuPort, func(m sim.Msg) {
				if msg, ok := m.(*protocol.PageMigrationReqToCP); ok {
					pendingAlloc, inFlightSrc = true, msg.ToReadFromPhysicalAddress&^(pageSize-1)
				}
			})
		}
		appAlloc := func() {
			defer func() { recover() }() // "out of memory" on the full GPU is an acceptable answer
			d.SelectGPU(ctx, 1)
			ptr := uint64(d.AllocateMemory(ctx, pageSize))
			p, ok := pt.Find(pid, ptr)
			if !ok {
				fail("application-buffer-unmapped", "AllocateMemory returned %x, not mapped", ptr)
				return
			}
			fmt.Fprintf(&trace, "app-alloc@%x;", p.PAddr)
			if p.PAddr&^(pageSize-1) == inFlightSrc {
				fail("frame-of-in-flight-migration-handed-out", "AllocateMemory on GPU 1 returned frame %x, which the page copy in flight still reads", p.PAddr)
			}
			for j := range pg(p.PAddr) { // the application fills its new buffer
				pg(p.PAddr)[j] = 0xEE
			}
		}
		mmuF := &world.Feeder{W: w, Port: mmuPort, Tag: "mmu"}
		mmuSink := &world.Sink{W: w, Port: mmuPort, Tag: "mmu", StallAlphabet: []int{1, 3}}
		checkDone := func(i int) {
			rq := c.reqs[i]
			for g, idxs := range rq.want {
				for _, pi := range idxs {
					p, ok := pt.Find(pid, vaddr(pi))
					if !ok {
						fail("migrated-page-unmapped", "page %d has no mapping after migration", pi)
						continue
					}
					if p.DeviceID != g {
						fail("migrated-page-wrong-device", "page %d maps to device %d after migrating to GPU%d", pi, p.DeviceID, g)
					}
					lo := g * 64 * pageSize // GPU g's DRAM starts after the CPU's 4 GiB... computed below from the allocator
					_ = lo
					if p.PAddr%pageSize != 0 {
						fail("migrated-page-unaligned", "paddr %x", p.PAddr)
					}
					if p.PAddr == before[pi].page.PAddr {
						fail("migrated-page-not-moved", "page %d still at %x", pi, p.PAddr)
					}
					if !bytes.Equal(pg(p.PAddr), before[pi].data) {
						fail("migrated-page-contents-differ", "page %d (vaddr %x): destination frame %x does not hold the source page's contents", pi, vaddr(pi), p.PAddr)
					}
					if copies[[2]uint64{before[pi].page.PAddr, p.PAddr}] != 1 {
						fail("page-copy-count", "page %d: %d copy commands from %x to %x (want exactly 1)", pi, copies[[2]uint64{before[pi].page.PAddr, p.PAddr}], before[pi].page.PAddr, p.PAddr)
					}
				}
			}
		}
		mmuSink.Handle = func(m sim.Msg) {}
		// judged at the instant the driver sends the response (the wire may deliver it later)
		world.OnSend(mmuPort, func(m sim.Msg) {
			rsp, ok := m.(*vm.PageMigrationRspFromDriver)
			if !ok {
				fail("unexpected-message-to-mmu", "%T", m)
				return
			}
			rsps++
			fmt.Fprintf(&trace, "done%d@%d;", cur, w.Cycle())
			if cur < 0 {
				fail("completion-without-request", "")
				return
			}
			rq := c.reqs[cur]
			n := 0
			var want []uint64
			for _, idxs := range rq.want {
				n += len(idxs)
				for _, i := range idxs {
					want = append(want, vaddr(i))
				}
			}
			if ph.migAck < n {
				fail("completion-before-all-pages-migrated", "MMU answered after %d of %d page migrations", ph.migAck, n)
			}
			got := append([]uint64{}, rsp.VAddr...)
			sort.Slice(want, func(i, j int) bool { return want[i] < want[j] })
			sort.Slice(got, func(i, j int) bool { return got[i] < got[j] })
			if fmt.Sprint(want) != fmt.Sprint(got) {
				fail("completion-lists-wrong-pages", "response lists %x, migrated %x", got, want)
			}
			if m.Meta().Dst != mmu {
				fail("completion-wrong-destination", "%s", m.Meta().Dst)
			}
			checkDone(cur)
		})
		next := 0
		w.Step = func() bool {
			pending := false
			// a request is handed to the driver when the previous one is completely finished (the MMU serialises them)
			// or -- to exercise queuing -- as soon as its injection cycle is reached: the 1-entry MMU port holds it
			if next < len(c.reqs) {
				rq := c.reqs[next]
				if w.Cycle() >= rq.at && len(mmuF.Q) == 0 {
					m := vm.NewPageMigrationReqToDriver(mmu, mmuPort.AsRemote())
					m.PID = pid
					m.PageSize = pageSize
					m.CurrPageHostGPU = rq.host
					m.CurrAccessingGPUs = rq.accessing
					m.RespondToTop = true
					info := &vm.PageMigrationInfo{GPUReqToVAddrMap: map[uint64][]uint64{}}
					for g, idxs := range rq.want {
						for _, i := range idxs {
							info.GPUReqToVAddrMap[g] = append(info.GPUReqToVAddrMap[g], vaddr(i))
						}
					}
					m.MigrationInfo = info
					mmuF.Add(m, true)
					next++
				}
				pending = true
			}
			if pendingAlloc { // the copy request is on the wire, not yet taken by the command processor
				pendingAlloc = false
				appAlloc()
			}
			pending = mmuSink.Step(1) || pending
			pending = gpuSink.Step(4) || pending
			pending = mmuF.Step(1) || pending
			pending = gpuF.Step(4) || pending
			return pending
		}
		// the request being served: the driver retrieves a request from the MMU port only when idle; observe it
		mmuF.OnDeliver = func(m sim.Msg) {}
		world.OnRetrieveIncoming(mmuPort, func(m sim.Msg) {
			if _, ok := m.(*vm.PageMigrationReqToDriver); ok {
				if cur >= 0 && ph.rdmaRestartAck < c.gpus {
					fail("request-accepted-during-migration", "request %d accepted before request %d finished its restart phase", cur+1, cur)
				}
				cur++
				ph = phase{}
				fmt.Fprintf(&trace, "start%d@%d;", cur, w.Cycle())
			}
		})
		quiet := w.Run()
		if viol != nil {
			return viol
		}
		if !quiet {
			return nil
		}
		if rsps != len(c.reqs) {
			return explore.Viol("driver/migration-request-never-completed", "%d requests, %d completions at quiescence (trace %s)", len(c.reqs), rsps, trace.String())
		}
		// nothing else changed: pages that were never migrated keep mapping and contents; frames other than destinations keep contents
		migrated := map[int]bool{}
		for _, rq := range c.reqs {
			for _, idxs := range rq.want {
				for _, i := range idxs {
					migrated[i] = true
				}
			}
		}
		for i := 0; i < c.pages; i++ {
			if migrated[i] {
				continue
			}
			p, ok := pt.Find(pid, vaddr(i))
			if !ok || p != before[i].page {
				return explore.Viol("driver/unrelated-mapping-changed", "page %d (not migrated): mapping %+v, was %+v", i, p, before[i].page)
			}
			if !bytes.Equal(pg(p.PAddr), before[i].data) {
				return explore.Viol("driver/unrelated-page-contents-changed", "page %d", i)
			}
		}
		for i := 0; i < c.pages; i++ { // source frames are never written
			if !bytes.Equal(pg(before[i].page.PAddr), before[i].data) {
				return explore.Viol("driver/source-frame-modified", "page %d", i)
			}
		}
		x.Outcome(trace.String())
		return nil
	}
}

func driverScenarios(r *harness.Run) []harness.Scenario {
	one := func(g uint64, idx ...int) map[uint64][]int { return map[uint64][]int{g: idx} }
	list := []struct {
		name string
		c    dcfg
	}{
		{"2gpu/one-page", dcfg{2, 3, []migReq{{1, []uint64{1}, one(2, 0), 1}}, false}},
		{"2gpu/two-pages-one-request", dcfg{2, 3, []migReq{{1, []uint64{1, 2}, one(2, 0, 1), 1}}, false}},
		{"2gpu/three-pages-one-request", dcfg{2, 4, []migReq{{1, []uint64{1}, one(2, 2, 0, 1), 1}}, false}},
		{"2gpu/two-requests-queued", dcfg{2, 3, []migReq{{1, []uint64{1}, one(2, 0), 1}, {1, []uint64{1, 2}, one(2, 2), 2}}, false}},
		{"3gpu/two-requesters", dcfg{3, 3, []migReq{{1, []uint64{1, 3}, map[uint64][]int{2: {0}, 3: {1}}, 1}}, false}},
		{"3gpu/two-requests-different-targets", dcfg{3, 3, []migReq{{1, []uint64{1}, one(3, 1), 1}, {1, []uint64{1, 2, 3}, one(2, 0, 2), 8}}, false}},
		{"2gpu/one-page/app-allocates-during-copy", dcfg{2, 3, []migReq{{1, []uint64{1}, one(2, 0), 1}}, true}},
		{"2gpu/two-pages-one-request/app-allocates-during-copy", dcfg{2, 2, []migReq{{1, []uint64{1, 2}, one(2, 0, 1), 1}}, true}},
		{"3gpu/two-requests/app-allocates-during-copy", dcfg{3, 3, []migReq{{1, []uint64{1}, one(3, 1), 1}, {1, []uint64{1, 2, 3}, one(2, 0, 2), 8}}, true}},
	}
	bound := 2
	if r.Thorough() {
		bound = 3
	}
	var scs []harness.Scenario
	for _, s := range list {
		scs = append(scs, harness.Scenario{Name: "driver/" + s.name, Bound: bound, Body: driverBody(s.c)})
	}
	return scs
}
