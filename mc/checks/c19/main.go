// C19: page migration preserves page contents and mappings.
// Two real PageMigrationControllers under one real serial engine. The
// environment owns the inter-PMC wire, both local memories (byte arrays), and
// both command processors; the explorer owns memory latencies/orders, wire
// holds and back-pressure on all ports (all are 1-entry buffers).
package main

import (
	"bytes"
	"encoding/json"
	"fmt"
	"os"
	"sync"

	"github.com/sarchlab/akita/v4/mem/mem"
	"github.com/sarchlab/akita/v4/sim"
	pmc "github.com/sarchlab/mgpusim/v4/amd/timing/pagemigrationcontroller"

	"verif/mc/explore"
	"verif/mc/harness"
	"verif/mc/world"
)

// driver.Init bumps a package-global counter without synchronisation (a C12 matter); serialise it here.
var initMu sync.Mutex

type mig struct {
	at       int // which PMC receives the request (0 = A, 1 = B); it pulls from the other one
	from, to uint64
	inject   int // cycle at which the CP sends it
}

type cfg struct {
	page uint64
	mem  uint64 // bytes of memory per GPU (0 = 2048)
	migs []mig
}

const defaultMemBytes = 2048

type gpu struct {
	name     string
	p        *pmc.PageMigrationController
	mem      []byte
	init     []byte
	remote   sim.Port
	local    sim.Port
	ctrl     sim.Port
	memF     *world.Feeder
	memSink  *world.Sink
	netSink  *world.Sink
	netF     *world.Feeder // delivers into this GPU's remote port
	cpF      *world.Feeder
	cpSink   *world.Sink
	reqs     []*mig
	rsps     int
	wdone    int // WriteDone responses delivered to this PMC
	wapplied int
}

func body(c cfg) explore.Body {
	memBytes := uint64(defaultMemBytes)
	if c.mem > 0 {
		memBytes = c.mem
	}
	hz := 1500
	if c.page > 1024 {
		hz = 20000
	}
	return func(x *explore.Exec) *explore.Violation {
		w := world.New(x, hz)
		var viol *explore.Violation
		fail := func(sig, f string, a ...any) {
			if viol == nil {
				viol = explore.Viol(sig, f, a...)
			}
		}
		var trace bytes.Buffer
		g := make([]*gpu, 2)
		for i := range g {
			name := fmt.Sprintf("GPU%d", i)
			memPort := sim.RemotePort(name + ".Mem")
			p := pmc.NewPageMigrationController(name+".PMC", w.Engine, &mem.SinglePortMapper{Port: memPort}, nil)
			gg := &gpu{name: name, p: p, mem: make([]byte, memBytes)}
			for j := range gg.mem {
				gg.mem[j] = byte(j*7 + 1 + i*101 + j/256*3)
				// sparse pages: some 64-byte units are all zero, some all ones, at
				// positions that differ between the GPUs, so that a unit that is
				// skipped, deduplicated or assumed zero leaves the destination's
				// own (different, non-zero) bytes behind
				switch k := j/64 + i; {
				case k%3 == 1:
					gg.mem[j] = 0
				case k%5 == 2:
					gg.mem[j] = 0xff
				}
			}
			gg.init = append([]byte{}, gg.mem...)
			gg.remote, gg.local, gg.ctrl = p.GetPortByName("Remote"), p.GetPortByName("LocalMem"), p.GetPortByName("Control")
			w.NewWire(name+".wire", gg.remote, gg.local, gg.ctrl)
			g[i] = gg
		}
		chunks := int(c.page / 64)
		for i := range g {
			gg, other := g[i], g[1-i]
			cp := sim.RemotePort(gg.name + ".CP")
			// local memory
			gg.memF = &world.Feeder{W: w, Port: gg.local, Tag: gg.name + ".mem", Reorder: true, DelayAlphabet: []int{2, 5}, Burst: 3}
			gg.memF.OnDeliver = func(m sim.Msg) {
				if _, ok := m.(*mem.WriteDoneRsp); ok {
					gg.wdone++
				}
			}
			gg.memSink = &world.Sink{W: w, Port: gg.local, Tag: gg.name + ".mem", StallAlphabet: []int{1, 3}}
			gg.memSink.Handle = func(m sim.Msg) {
				switch r := m.(type) {
				case *mem.ReadReq:
					if r.Address+r.AccessByteSize > memBytes {
						fail("memory-access-out-of-range", "%s read %x+%d", gg.name, r.Address, r.AccessByteSize)
						return
					}
					data := append([]byte{}, gg.mem[r.Address:r.Address+r.AccessByteSize]...)
					gg.memF.Add(mem.DataReadyRspBuilder{}.WithSrc(m.Meta().Dst).WithDst(gg.local.AsRemote()).WithRspTo(r.ID).WithData(data).Build(), true)
				case *mem.WriteReq:
					if r.Address+uint64(len(r.Data)) > memBytes {
						fail("memory-access-out-of-range", "%s write %x+%d", gg.name, r.Address, len(r.Data))
						return
					}
					for j, b := range r.Data {
						if r.DirtyMask == nil || r.DirtyMask[j] {
							gg.mem[int(r.Address)+j] = b
						}
					}
					gg.wapplied++
					gg.memF.Add(mem.WriteDoneRspBuilder{}.WithSrc(m.Meta().Dst).WithDst(gg.local.AsRemote()).WithRspTo(r.ID).Build(), true)
				default:
					fail("memory-port-unexpected-message", "%T", m)
				}
			}
			// inter-PMC wire: what this PMC sends goes to the other one
			other.netF = &world.Feeder{W: w, Port: other.remote, Tag: "net->" + other.name, DelayAlphabet: []int{1, 4}, Burst: 3}
			gg.netSink = &world.Sink{W: w, Port: gg.remote, Tag: gg.name + ".net", StallAlphabet: []int{1, 3}}
			gg.netSink.Handle = func(m sim.Msg) {
				if m.Meta().Dst != other.remote.AsRemote() {
					fail("inter-pmc-message-wrong-destination", "%s sent %T to %s", gg.name, m, m.Meta().Dst)
					return
				}
				other.netF.Add(m, true)
			}
			// command processor
			gg.cpF = &world.Feeder{W: w, Port: gg.ctrl, Tag: gg.name + ".cp"}
			gg.cpSink = &world.Sink{W: w, Port: gg.ctrl, Tag: gg.name + ".cp", StallAlphabet: []int{1, 3, 40}, Handle: func(m sim.Msg) {}}
			world.OnSend(gg.ctrl, func(m sim.Msg) {
				if _, ok := m.(*pmc.PageMigrationRspFromPMC); !ok {
					fail("control-port-unexpected-message", "%T", m)
					return
				}
				gg.rsps++
				fmt.Fprintf(&trace, "%s.done%d@%d;", gg.name, gg.rsps, w.Cycle())
				if gg.rsps > len(gg.reqs) {
					fail("completion-duplicated", "%s reported %d completions for %d requests", gg.name, gg.rsps, len(gg.reqs))
					return
				}
				if m.Meta().Dst != cp {
					fail("completion-wrong-destination", "%s", m.Meta().Dst)
				}
				if gg.wdone < gg.rsps*chunks {
					fail("completion-before-writes-finished", "%s reported completion #%d after %d of %d write acknowledgements", gg.name, gg.rsps, gg.wdone, gg.rsps*chunks)
				}
				// requests are served in order: page k must be fully copied
				mg := gg.reqs[gg.rsps-1]
				src := g[1-mg.at]
				if !bytes.Equal(gg.mem[mg.to:mg.to+c.page], src.init[mg.from:mg.from+c.page]) {
					fail("completion-before-page-copied", "%s completion #%d but destination page [%x,+%d) != source page", gg.name, gg.rsps, mg.to, c.page)
				}
			})
		}
		pendingMigs := append([]mig{}, c.migs...)
		w.Step = func() bool {
			pending := false
			rest := pendingMigs[:0]
			for _, mg := range pendingMigs {
				if w.Cycle() >= mg.inject {
					gg := g[mg.at]
					m2 := mg
					gg.reqs = append(gg.reqs, &m2)
					req := pmc.PageMigrationReqToPMCBuilder{}.WithSrc(sim.RemotePort(gg.name + ".CP")).WithDst(gg.ctrl.AsRemote()).
						WithReadFrom(mg.from).WithWriteTo(mg.to).WithPageSize(c.page).WithPMCPortOfRemoteGPU(g[1-mg.at].remote.AsRemote()).Build()
					gg.cpF.Add(req, false)
					gg.cpF.Q[len(gg.cpF.Q)-1].Ready = w.Cycle()
				} else {
					rest = append(rest, mg)
					pending = true
				}
			}
			pendingMigs = rest
			for _, gg := range g {
				pending = gg.cpSink.Step(1) || pending
				pending = gg.memSink.Step(1) || pending
				pending = gg.netSink.Step(1) || pending
			}
			for _, gg := range g {
				pending = gg.cpF.Step(1) || pending
				pending = gg.memF.Step(1) || pending
				pending = gg.netF.Step(1) || pending
			}
			return pending
		}
		quiet := w.Run()
		if viol != nil {
			return viol
		}
		if !quiet {
			return nil
		}
		// expected memories
		for i, gg := range g {
			exp := append([]byte{}, gg.init...)
			for _, mg := range c.migs {
				if mg.at == i {
					copy(exp[mg.to:mg.to+c.page], g[1-i].init[mg.from:mg.from+c.page])
				}
			}
			if gg.rsps != len(gg.reqs) {
				return explore.Viol("migration-never-completed", "%s: %d requests, %d completions at quiescence", gg.name, len(gg.reqs), gg.rsps)
			}
			if !bytes.Equal(exp, gg.mem) {
				for j := range exp {
					if exp[j] != gg.mem[j] {
						in := "outside every migrated page"
						for _, mg := range c.migs {
							if mg.at == i && uint64(j) >= mg.to && uint64(j) < mg.to+c.page {
								in = fmt.Sprintf("inside destination page [%x,+%d)", mg.to, c.page)
							}
						}
						sig := "page-contents-differ"
						if in == "outside every migrated page" {
							sig = "byte-outside-page-changed"
						}
						return explore.Viol(sig, "%s byte %x is %02x want %02x (%s)", gg.name, j, gg.mem[j], exp[j], in)
					}
				}
			}
		}
		x.Outcome(trace.String())
		return nil
	}
}

func main() {
	r := harness.Start("C19", "model_checking")
	type ns struct {
		name string
		m    func(p uint64) []mig
	}
	seqs := []ns{
		{"one", func(p uint64) []mig { return []mig{{0, 0x100, 0x400, 1}} }},
		{"two-queued", func(p uint64) []mig { return []mig{{0, 0x100, 0x400, 1}, {0, 0x100 + p, 0x600, 1}} }},
		{"second-arrives-during-first", func(p uint64) []mig { return []mig{{0, 0x100, 0x400, 1}, {0, 0x300, 0x600, 6}} }},
		{"both-directions", func(p uint64) []mig { return []mig{{0, 0x100, 0x400, 1}, {1, 0x000, 0x500, 1}} }},
		{"both-directions-staggered", func(p uint64) []mig { return []mig{{0, 0x100, 0x400, 1}, {1, 0x000, 0x500, 4}, {0, 0x300, 0x600, 9}} }},
		{"three-queued-at-once", func(p uint64) []mig { return []mig{{0, 0x100, 0x400, 1}, {0, 0x200, 0x500, 1}, {0, 0x300, 0x600, 1}} }},
		{"three", func(p uint64) []mig { return []mig{{0, 0x100, 0x400, 1}, {0, 0x200, 0x500, 2}, {0, 0x300, 0x600, 12}} }},
	}
	pages := []uint64{64, 128, 256}
	bound := 2
	if r.Thorough() {
		bound = 3
	}
	var scs []harness.Scenario
	for _, p := range pages {
		for _, s := range seqs {
			b := bound
			if p == 256 && len(s.m(p)) > 1 {
				b = bound - 1
			}
			scs = append(scs, harness.Scenario{Name: fmt.Sprintf("page%d/%s", p, s.name), Bound: b, Body: body(cfg{page: p, migs: s.m(p)})})
		}
	}
	// real page sizes: 4 KiB (64 transfer units) and 8 KiB / 64 KiB (more than 64 units per page)
	for _, p := range []uint64{4096, 8192, 65536} {
		b := 0
		if p <= 8192 {
			b = 1
		}
		scs = append(scs, harness.Scenario{Name: fmt.Sprintf("page%d/one", p), Bound: b, Body: body(cfg{page: p, mem: 3 * p, migs: []mig{{0, 64, p + 128, 1}}})})
		if p <= 8192 {
			scs = append(scs, harness.Scenario{Name: fmt.Sprintf("page%d/both-directions", p), Bound: 0, Body: body(cfg{page: p, mem: 4 * p, migs: []mig{{0, 64, p + 128, 1}, {1, 2 * p, 0, 1}}})})
		}
	}
	r.Assume = []string{
		"no other agent writes the source or destination page while it migrates (the driver drains and shoots down first)",
		"the inter-PMC network is FIFO per direction; delays and stalls are explored",
		"page sizes are multiples of the 64-byte transfer unit",
		"driver side: the command processors acknowledge every command exactly once (order and delay explored) and perform the page copy when they receive PageMigrationReqToCP; the MMU hands over a request only through the driver's 1-entry MMU port",
	}
	scs = append(scs, driverScenarios(r)...)
	r.Quiet = true
	if r.Replay != "" {
		if data, err := os.ReadFile(r.Replay); err == nil && bytes.Contains(data, []byte(`"cp-forwarder"`)) {
			var f struct {
				Case cpmwCase `json:"case"`
			}
			if json.Unmarshal(data, &f) == nil {
				if sig, msg := cpmwRun(f.Case.Seq); sig != "" {
					fmt.Printf("  signature: %s\n  %s\nVIOLATION property=C19 replay=%s\n", sig, msg, r.Replay)
					os.Exit(1)
				}
				fmt.Println("replay: no violation")
				os.Exit(0)
			}
		}
	}
	r.RunScenarios(scs)
	if r.Replay == "" {
		cpMiddlewarePass(r)
	}
	r.Finish()
}
