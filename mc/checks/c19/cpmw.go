package main

// The command processor's part of a migration (amd/timing/cp/ctrlMiddleware.go is anchored in the property): the
// driver's PageMigrationReqToCP is forwarded to the local page-migration controller, and the controller's completion
// goes back to the driver exactly once. "forall pairs of GPUs ... forall sequences of migration requests": every
// sequence of up to three requests over an alphabet of three source GPUs x two page sizes (distinct addresses per
// position) is given to one real CommandProcessor; each forwarded request must name the source controller, the
// addresses and the page size of the request it answers, and each completion must reach the driver once.
// (seed C19-12: the source controller of the first migration cached and reused for all later ones)

import (
	"fmt"

	"github.com/sarchlab/akita/v4/sim"
	"github.com/sarchlab/mgpusim/v4/amd/protocol"
	"github.com/sarchlab/mgpusim/v4/amd/timing/cp"
	"github.com/sarchlab/mgpusim/v4/amd/timing/pagemigrationcontroller"

	"verif/mc/harness"
)

type cpmwConn struct{ sim.HookableBase }

func (c *cpmwConn) Name() string               { return "cpmwConn" }
func (c *cpmwConn) PlugIn(port sim.Port)       {}
func (c *cpmwConn) Unplug(port sim.Port)       {}
func (c *cpmwConn) NotifyAvailable(p sim.Port) {}
func (c *cpmwConn) NotifySend()                {}

type cpmwCase struct {
	Part string `json:"part"`
	Seq  []int  `json:"sequence"` // letter = source GPU (0..2) + 3 * page-size index
}

func cpmwRun(seq []int) (sig, msg string) {
	defer func() {
		if r := recover(); r != nil {
			sig, msg = "cp-forwarder/panic", fmt.Sprintf("sequence %v: %v", seq, r)
		}
	}()
	engine := sim.NewSerialEngine()
	c := cp.MakeBuilder().WithEngine(engine).Build("GPU[4].CP")
	conn := &cpmwConn{}
	c.ToPMC.SetConnection(conn)
	c.ToDriver.SetConnection(conn)
	driverPort := sim.NewPort(nil, 4, 4, "Driver.GPU")
	localPMC := sim.NewPort(nil, 4, 4, "GPU[4].PMC.Control")
	c.Driver, c.PMC = driverPort, localPMC
	var srcs []sim.Port
	for g := 1; g <= 3; g++ {
		srcs = append(srcs, sim.NewPort(nil, 4, 4, fmt.Sprintf("GPU[%d].PMC.Remote", g)))
	}
	pageSizes := []uint64{4096, 1 << 16}
	for i, l := range seq {
		src, ps := srcs[l%3], pageSizes[l/3]
		req := protocol.NewPageMigrationReqToCP(driverPort, c.ToDriver)
		req.DestinationPMCPort = src
		req.ToReadFromPhysicalAddress = uint64(0x10000 * (i + 1))
		req.ToWriteToPhysicalAddress = uint64(0x4000000 + 0x10000*i)
		req.PageSize = ps
		if err := c.ToDriver.Deliver(req); err != nil {
			return "cp-forwarder/request-not-accepted", fmt.Sprintf("sequence %v: request %d refused by the CP's driver port", seq, i)
		}
		c.Tick()
		out := c.ToPMC.RetrieveOutgoing()
		if out == nil {
			return "cp-forwarder/migration-request-not-forwarded", fmt.Sprintf("sequence %v: request %d was not forwarded to the page-migration controller", seq, i)
		}
		f, ok := out.(*pagemigrationcontroller.PageMigrationReqToPMC)
		if !ok {
			return "cp-forwarder/unexpected-message", fmt.Sprintf("sequence %v: %T on the PMC port", seq, out)
		}
		if f.PMCPortOfRemoteGPU != src.AsRemote() {
			return "cp-forwarder/wrong-source-controller", fmt.Sprintf("sequence %v (letter = source GPU + 3 x page-size index): migration %d is told to pull from %q, the request names %q", seq, i, f.PMCPortOfRemoteGPU, src.AsRemote())
		}
		if f.ToReadFromPhysicalAddress != req.ToReadFromPhysicalAddress || f.ToWriteToPhysicalAddress != req.ToWriteToPhysicalAddress || f.PageSize != ps {
			return "cp-forwarder/addresses-or-page-size-changed", fmt.Sprintf("sequence %v: migration %d forwarded with read %#x write %#x page %d, the request says %#x %#x %d", seq, i,
				f.ToReadFromPhysicalAddress, f.ToWriteToPhysicalAddress, f.PageSize, req.ToReadFromPhysicalAddress, req.ToWriteToPhysicalAddress, ps)
		}
		if f.Meta().Dst != localPMC.AsRemote() {
			return "cp-forwarder/wrong-destination", fmt.Sprintf("sequence %v: migration %d sent to %q, the local controller is %q", seq, i, f.Meta().Dst, localPMC.AsRemote())
		}
		if c.ToPMC.RetrieveOutgoing() != nil {
			return "cp-forwarder/forwarded-twice", fmt.Sprintf("sequence %v: migration %d forwarded more than once", seq, i)
		}
		// the controller reports completion
		rsp := pagemigrationcontroller.PageMigrationRspFromPMCBuilder{}.WithSrc(localPMC.AsRemote()).WithDst(c.ToPMC.AsRemote()).Build()
		if err := c.ToPMC.Deliver(rsp); err != nil {
			return "cp-forwarder/completion-not-accepted", fmt.Sprintf("sequence %v: completion %d refused by the CP's PMC port", seq, i)
		}
		c.Tick()
		n := 0
		for {
			m := c.ToDriver.RetrieveOutgoing()
			if m == nil {
				break
			}
			if _, ok := m.(*protocol.PageMigrationRspToDriver); ok {
				n++
			}
		}
		if n != 1 {
			return "cp-forwarder/completion-not-reported-exactly-once", fmt.Sprintf("sequence %v: completion of migration %d reached the driver %d times", seq, i, n)
		}
	}
	return "", ""
}

func cpMiddlewarePass(r *harness.Run) {
	var seqs [][]int
	var gen func(p []int)
	gen = func(p []int) {
		if len(p) > 0 {
			seqs = append(seqs, append([]int{}, p...))
		}
		if len(p) == 3 {
			return
		}
		for l := 0; l < 6; l++ {
			gen(append(p, l))
		}
	}
	gen(nil)
	for _, s := range seqs {
		if sig, msg := cpmwRun(s); sig != "" {
			r.Report(sig, msg, cpmwCase{"cp-forwarder", s})
		}
	}
	r.Cov["cp_forwarder_sequences"] = len(seqs)
	fmt.Printf("cp forwarder: %d request sequences (length <= 3 over 3 source GPUs x 2 page sizes) through the real command processor\n", len(seqs))
}
