// C17: the DRAM model (simplebankedmemory) behaves as a memory.
// Real simplebankedmemory.Comp under the real serial engine; the environment is
// the requester on the Top port; the explorer owns the arrival cycle of every
// request and back-pressure on the response wire. Oracle: a flat byte array
// applied in arrival order.
package main

import (
	"bytes"
	"fmt"

	"github.com/sarchlab/akita/v4/mem/mem"
	"github.com/sarchlab/akita/v4/sim"
	"github.com/sarchlab/mgpusim/v4/amd/timing/mem/simplebankedmemory"

	"verif/mc/explore"
	"verif/mc/harness"
	"verif/mc/world"
)

type op struct {
	write bool
	addr  uint64
	size  int
	mask  int // 0 none, 1 even bytes, 2 first byte only
}

type cfg struct {
	banks, width, depth, lat, post, topbuf int
	rowLog2                              uint64
	missDelay                            int
	seq                                  []op
	seqName                              string
	ilv                                  uint64 // log2 of the bank interleave (0 = 6: one 64-byte line)
}

func (c cfg) String() string {
	s := fmt.Sprintf("banks%d/w%d/d%d/l%d/post%d/top%d/row%d:%d/%s", c.banks, c.width, c.depth, c.lat, c.post, c.topbuf, c.rowLog2, c.missDelay, c.seqName)
	if c.ilv != 0 {
		s += fmt.Sprintf("/interleave2^%d", c.ilv)
	}
	return s
}

// class is the configuration class used in violation signatures: the
// mechanism that can reorder requests in this configuration.
func (c cfg) class() string {
	s := ""
	if c.rowLog2 > 0 && c.missDelay > 0 {
		s += "row-miss-delay"
	}
	if c.width > 1 {
		if s != "" {
			s += "+"
		}
		s += "multi-lane-pipeline"
	}
	if s == "" {
		s = "plain"
	}
	return s
}

const memSize = 4096

func ilvOf(c cfg) uint64 {
	if c.ilv == 0 {
		return 6
	}
	return c.ilv
}

func body(c cfg) explore.Body {
	return func(x *explore.Exec) *explore.Violation {
		w := world.New(x, 600)
		b := simplebankedmemory.MakeBuilder().WithEngine(w.Engine).WithFreq(w.Freq).
			WithNumBanks(c.banks).WithBankPipelineWidth(c.width).WithBankPipelineDepth(c.depth).
			WithStageLatency(c.lat).WithPostPipelineBufferSize(c.post).WithTopPortBufferSize(c.topbuf).
			WithLog2InterleaveSize(ilvOf(c)).WithNewStorage(1 << 20)
		if c.rowLog2 > 0 {
			b = b.WithRowBufferSizeLog2(c.rowLog2).WithRowMissDelay(c.missDelay)
		}
		m := b.Build("DRAM")
		top := m.GetPortByName("Top")
		w.NewWire("wire", top)
		const reqName = sim.RemotePort("Env.Req")

		ref := make([]byte, memSize)
		type pend struct {
			n        int
			o        op
			expected []byte // for reads: reference value at arrival
			answered bool
			staleOf  int
		}
		byID := map[string]*pend{}
		var all []*pend
		var viol *explore.Violation
		fail := func(sig, f string, a ...any) {
			if viol == nil {
				viol = explore.Viol(sig, f, a...)
			}
		}
		var trace bytes.Buffer

		src := &world.Feeder{W: w, Port: top, Tag: "top", DelayAlphabet: []int{1, 2, 4}}
		src.OnDeliver = func(msg sim.Msg) {
			p := byID[msg.Meta().ID]
			fmt.Fprintf(&trace, "A%d@%d;", p.n, w.Cycle())
			// arrival: apply to the reference in arrival order
			if p.o.write {
				wr := msg.(*mem.WriteReq)
				for j := range wr.Data {
					if wr.DirtyMask == nil || wr.DirtyMask[j] {
						ref[int(p.o.addr)+j] = wr.Data[j]
					}
				}
			} else {
				p.expected = append([]byte{}, ref[p.o.addr:int(p.o.addr)+p.o.size]...)
			}
		}
		for i, o := range c.seq {
			var msg sim.Msg
			if o.write {
				data := make([]byte, o.size)
				for j := range data {
					data[j] = byte(0x10*(i+1) + j%16)
				}
				wb := mem.WriteReqBuilder{}.WithSrc(reqName).WithDst(top.AsRemote()).WithAddress(o.addr).WithData(data)
				if o.mask != 0 {
					mk := make([]bool, o.size)
					for j := range mk {
						mk[j] = (o.mask == 1 && j%2 == 0) || (o.mask == 2 && j == 0)
					}
					wb = wb.WithDirtyMask(mk)
				}
				msg = wb.Build()
			} else {
				msg = mem.ReadReqBuilder{}.WithSrc(reqName).WithDst(top.AsRemote()).WithAddress(o.addr).WithByteSize(uint64(o.size)).Build()
			}
			p := &pend{n: i, o: o}
			byID[msg.Meta().ID] = p
			all = append(all, p)
			src.Add(msg, true)
		}
		sink := &world.Sink{W: w, Port: top, Tag: "top", StallAlphabet: []int{1, 3}}
		sink.Handle = func(msg sim.Msg) {
			rsp, ok := msg.(mem.AccessRsp)
			if !ok {
				fail("non-response/"+c.class(), "%T", msg)
				return
			}
			p := byID[rsp.GetRspTo()]
			if p == nil {
				fail("response-unknown-id/"+c.class(), "id %s", rsp.GetRspTo())
				return
			}
			fmt.Fprintf(&trace, "R%d@%d;", p.n, w.Cycle())
			if p.answered {
				fail("duplicate-response/"+c.class(), "request #%d answered twice", p.n)
				return
			}
			p.answered = true
			if msg.Meta().Dst != reqName {
				fail("response-wrong-destination/"+c.class(), "dst %s", msg.Meta().Dst)
			}
			if p.o.write {
				if _, ok := rsp.(*mem.WriteDoneRsp); !ok {
					fail("response-wrong-type/"+c.class(), "write answered with %T", rsp)
				}
				return
			}
			dr, ok := rsp.(*mem.DataReadyRsp)
			if !ok {
				fail("response-wrong-type/"+c.class(), "read answered with %T", rsp)
				return
			}
			if !bytes.Equal(dr.Data, p.expected) {
				fail("read-not-latest-earlier-write/"+c.class(),
					"config %s: read #%d of [%x,+%d) returned %x, flat memory in arrival order gives %x (sequence %v)",
					c, p.n, p.o.addr, p.o.size, dr.Data, p.expected, c.seq)
			}
		}
		w.Step = func() bool {
			pending := sink.Step(4)
			pending = src.Step(4) || pending
			return pending
		}
		quiet := w.Run()
		if viol != nil {
			return viol
		}
		if !quiet {
			return nil
		}
		for _, p := range all {
			if !p.answered {
				return explore.Viol("request-never-answered/"+c.class(), "config %s: request #%d never answered at quiescence", c, p.n)
			}
		}
		got, err := m.Storage.Read(0, memSize)
		if err != nil {
			return explore.Viol("storage-read-error", "%v", err)
		}
		if !bytes.Equal(got, ref) {
			for i := range got {
				if got[i] != ref[i] {
					return explore.Viol("final-storage-differs/"+c.class(), "config %s: byte %x is %02x, flat memory in arrival order gives %02x (sequence %v)", c, i, got[i], ref[i], c.seq)
				}
			}
		}
		x.Outcome(trace.String())
		return nil
	}
}

func main() {
	r := harness.Start("C17", "model_checking")
	type ns struct {
		name string
		f    func(banks int) []op
	}
	// A: bank 0 row 0; A8: same interleave unit; C: same bank, other row (row = 128 B of bank-local space);
	// D: other bank (bank 1 when banks>1)
	C := func(banks int) uint64 { return uint64(banks) * 2 * 64 }
	seqs := []ns{
		{"raw", func(b int) []op { return []op{{true, 0, 8, 0}, {false, 0, 8, 0}} }},
		{"waw-raw", func(b int) []op { return []op{{true, 0, 8, 0}, {true, 0, 8, 0}, {false, 0, 8, 0}} }},
		{"war", func(b int) []op { return []op{{false, 0, 8, 0}, {true, 0, 8, 0}, {false, 0, 8, 0}} }},
		{"masked", func(b int) []op {
			return []op{{true, C(b), 8, 0}, {true, 0, 8, 0}, {true, 0, 8, 1}, {false, 0, 8, 0}, {false, C(b), 8, 0}}
		}},
		{"subrange", func(b int) []op {
			return []op{{true, 0, 64, 0}, {false, 8, 1, 0}, {true, 8, 1, 2}, {false, 0, 64, 0}}
		}},
		{"two-banks", func(b int) []op {
			return []op{{true, 64, 8, 0}, {false, 0, 8, 0}, {true, 0, 8, 0}, {false, 64, 8, 0}, {false, 0, 8, 0}}
		}},
		{"row-switch", func(b int) []op {
			return []op{{true, 0, 4, 0}, {true, C(b), 4, 0}, {false, 0, 4, 0}, {true, 0, 4, 0}, {false, C(b), 4, 0}, {false, 0, 4, 0}}
		}},
		{"pending-hit-then-row-switch", func(b int) []op {
			// a row hit parked behind a busy pipeline, then the row is switched and the address is read again
			return []op{{false, 0, 4, 0}, {false, 8, 4, 0}, {true, 0, 4, 0}, {false, C(b), 4, 0}, {false, 0, 4, 0}}
		}},
		// unaligned accesses that run across a 64-byte boundary (1..64 bytes at any address are in the quantifier). All of
		// them START in the first interleave unit, so one bank serves them in arrival order whatever the bank count
		{"cross-line", func(b int) []op {
			return []op{{true, 56, 16, 0}, {false, 56, 16, 0}, {true, 60, 8, 1}, {false, 48, 32, 0}, {false, 63, 2, 0}}
		}},
		{"cross-line-64", func(b int) []op {
			return []op{{true, 36, 64, 0}, {false, 36, 64, 0}, {false, 60, 8, 0}}
		}},
		{"same-row-triple", func(b int) []op {
			return []op{{true, 0, 4, 0}, {true, 8, 4, 0}, {true, 0, 4, 0}, {false, 0, 16, 0}}
		}},
	}
	type rowc struct {
		log2  uint64
		delay int
	}
	var cfgs []cfg
	banksA := []int{1, 2, 4}
	rows := []rowc{{0, 0}, {7, 1}, {7, 3}}
	quick := !r.Thorough()
	for _, bk := range banksA {
		for _, wd := range []int{1, 2} {
			for _, dp := range []int{1, 2} {
				for _, lt := range []int{1, 2} {
					for _, ps := range []int{1, 2} {
						for _, tb := range []int{1, 4} {
							for _, rw := range rows {
								if quick {
									// quick: drop the combinations that only differ in latency-like knobs
									if lt == 2 && dp == 2 {
										continue
									}
									if tb == 1 && bk == 4 {
										continue
									}
								}
								for _, s := range seqs {
									if quick && len(s.f(bk)) > 5 {
										continue
									}
									cfgs = append(cfgs, cfg{bk, wd, dp, lt, ps, tb, rw.log2, rw.delay, s.f(bk), s.name, 0})
								}
							}
						}
					}
				}
			}
		}
	}
	// bank interleave other than one 64-byte line: 16-byte blocks (neighbouring blocks of one line live in
	// different banks; accesses stay inside one block) and 256-byte blocks
	sub := []struct {
		name string
		ops  []op
	}{
		{"subline-neighbours", []op{{true, 0x10, 4, 0}, {false, 0x00, 4, 0}, {true, 0x10, 4, 0}, {false, 0x20, 4, 0}, {false, 0x10, 4, 0}, {false, 0x00, 4, 0}}},
		{"subline-other-row-between", []op{{false, 0x810, 4, 0}, {false, 0x00, 4, 0}, {true, 0x10, 4, 0}, {false, 0x814, 4, 0}, {false, 0x10, 4, 0}}},
		{"subline-write-write-read", []op{{true, 0x24, 8, 0}, {true, 0x14, 8, 0}, {true, 0x24, 8, 1}, {false, 0x10, 16, 0}, {false, 0x20, 16, 0}}},
	}
	for _, bk := range []int{2, 4} {
		for _, wd := range []int{1, 2} {
			for _, rw := range rows {
				for _, sq := range sub {
					cfgs = append(cfgs, cfg{bk, wd, 2, 1, 1, 4, rw.log2, rw.delay, sq.ops, sq.name, 4})
				}
			}
		}
	}
	for _, rw := range rows {
		cfgs = append(cfgs, cfg{2, 1, 2, 1, 1, 4, rw.log2, rw.delay, []op{{true, 0x100, 8, 0}, {false, 0x00, 8, 0}, {true, 0x00, 8, 0}, {false, 0x100, 8, 0}, {false, 0x00, 8, 0}}, "two-banks-256", 8})
	}
	bound := 2
	if r.Thorough() {
		bound = 3
	}
	var scs []harness.Scenario
	for _, c := range cfgs {
		scs = append(scs, harness.Scenario{Name: c.String(), Bound: bound, Body: body(c)})
	}
	// every operation sequence of a fixed length over a ten-letter alphabet that is forced to collide: location A
	// (bank 0, row 0; written whole, or partially with a mask), C (same bank, other row) and D (other bank)
	letters := []struct {
		n string
		o op
	}{
		{"WA", op{true, 0, 8, 0}}, {"RA", op{false, 0, 8, 0}}, {"Wa", op{true, 4, 4, 1}},
		// ranges in every overlap relation with one another: a read inside A that a later write covers from below
		// (Ra after WA), a write that starts inside A and ends past it (Wb), a read that such a write reaches into (RB)
		{"Ra", op{false, 4, 4, 0}}, {"Wb", op{true, 6, 4, 0}}, {"RB", op{false, 8, 8, 0}},
		{"RC", op{false, C(2), 4, 0}}, {"WC", op{true, C(2), 4, 0}},
		{"RD", op{false, 64, 8, 0}}, {"WD", op{true, 64, 8, 0}},
	}
	enumLen := 3
	if r.Thorough() {
		enumLen = 4
	}
	var enum func(prefix []int)
	enum = func(prefix []int) {
		if len(prefix) == enumLen {
			name, ops := "enum", []op{}
			for _, l := range prefix {
				name += "." + letters[l].n
				ops = append(ops, letters[l].o)
			}
			for _, wd := range []int{1, 2} {
				for _, ps := range []int{1, 2} {
					if quick && ps == 2 {
						continue
					}
					for _, rw := range rows {
						c := cfg{2, wd, 2, 1, ps, 4, rw.log2, rw.delay, ops, name, 0}
						scs = append(scs, harness.Scenario{Name: c.String(), Bound: 2, Body: body(c)})
					}
				}
			}
			return
		}
		for l := range letters {
			enum(append(append([]int{}, prefix...), l))
		}
	}
	enum(nil)
	r.Assume = []string{
		"an access is served by the bank of its start address: accesses stay inside one interleave unit (64 B by default; 16 B and 256 B in the interleave configurations), except the cross-line sequences, whose accesses run across a 64-byte boundary and all start in the same unit",
		"arrival order = order of delivery into the Top port's incoming buffer",
		"row-miss delay >= 1 when row tracking is on (delay 0 disables the mechanism in the code)",
	}
	r.Quiet = true
	r.RunScenarios(scs)
	r.Finish()
}
