// C11: host-device copies move exactly the requested bytes.
//
//	(a) direct-storage path: exhaustive lattice on the real driver + storage
//	(b) DMA path: real driver middleware + real CP + real DMA engine, closed by
//	    an explorer-driven memory (E1 + E4), plus a bound-0 lattice of ranges
//	(c) emu storage accessor across pages with scrambled frames: lattice
//	(d) thorough only: full timing platform, kernels that dirty the caches
package main

import (
	"encoding/json"
	"fmt"
	"os"
	"sync/atomic"

	"verif/mc/dmaworld"
	"verif/mc/explore"
	"verif/mc/harness"
)

// dmaLattice: every (offset,length) with both ends in the boundary alphabet
// around 64-byte lines and the page boundary, default schedule (bound 0).
func dmaLattice(thorough bool) []dmaworld.Cfg {
	var pts []uint64
	for _, b := range []uint64{0, 64, 128, dmaworld.BPage - 128, dmaworld.BPage - 64, dmaworld.BPage, dmaworld.BPage + 64} {
		for _, d := range []int64{-1, 0, 1, 3} {
			if x := int64(b) + d; x >= 0 {
				pts = append(pts, uint64(x))
			}
		}
	}
	var out []dmaworld.Cfg
	for _, ng := range []int{1, 2} {
		for _, lo := range pts {
			for _, hi := range pts {
				if hi <= lo || hi-lo > 400 {
					continue // long copies only add more of the same 64-byte transactions
				}
				out = append(out, dmaworld.Cfg{Name: fmt.Sprintf("b-lattice/%dgpu/[%d,%d)", ng, lo, hi), NGPU: ng, Pages: 2, MaxReq: 4, NoStall: true, NoDelays: true,
					Jobs: []dmaworld.Job{{Queue: 0, H2D: true, Off: lo, Len: hi - lo}, {Queue: 0, H2D: false, Off: lo, Len: hi - lo}}})
			}
		}
	}
	// copies spanning three pages (4 KiB pages, three GPUs)
	for _, lo := range []uint64{4096 - 65, 4096 - 1, 4096} {
		for _, hi := range []uint64{2 * 4096, 2*4096 + 1, 2*4096 + 65} {
			out = append(out, dmaworld.Cfg{Name: fmt.Sprintf("b-lattice/3gpu/4KiB/[%d,%d)", lo, hi), NGPU: 3, Pages: 3, MaxReq: 4, Log2Page: 12, NoStall: true, NoDelays: true,
				Jobs: []dmaworld.Job{{Queue: 0, H2D: true, Off: lo, Len: hi - lo}, {Queue: 0, H2D: false, Off: lo, Len: hi - lo}}})
		}
	}
	return out
}

// rep reports a violation and counts it (replay mode exits 1 on any violation,
// listed or not).
var reported int32

func rep(r *harness.Run, sig, msg string, c any) {
	atomic.AddInt32(&reported, 1)
	r.Report(sig, msg, c)
}

type latticeCase struct {
	Part string       `json:"part"`
	Cfg  dmaworld.Cfg `json:"cfg"`
}

func main() {
	r := harness.Start("C11", "model_checking")
	if *workerFlag != "" {
		platformWorker(*workerFlag)
		return
	}
	if r.Replay != "" {
		replay(r)
		return
	}
	// ---- (a)
	type cell struct {
		n   int
		sz  uint64
		scr bool
	}
	var cells []cell
	for _, n := range []int{1, 2, 3, 4} {
		for _, sz := range directBufSizes {
			cells = append(cells, cell{n, sz, true})
			if r.Thorough() {
				cells = append(cells, cell{n, sz, false})
			}
		}
	}
	var aPairs int64
	aDone := r.ForEach(len(cells), func(i int) {
		defer func() {
			if e := recover(); e != nil {
				rep(r, "direct/panic", fmt.Sprintf("panic in cell %+v: %v", cells[i], e), directCase{Part: "a", NGPU: cells[i].n, Bytes: cells[i].sz, Scr: cells[i].scr, Type: "*"})
			}
		}()
		atomic.AddInt64(&aPairs, int64(runDirect(r, cells[i].n, cells[i].sz, cells[i].scr, nil, false)))
	})
	fmt.Printf("(a) direct-storage path: %d cells, %d H2D+D2H round trips, complete=%v\n", len(cells), aPairs, aDone)

	// ---- (c)
	type acell struct {
		log2 uint64
		conv bool
	}
	acells := []acell{{6, false}, {8, false}, {12, false}, {12, true}, {6, true}}
	if r.Thorough() {
		acells = append(acells, acell{16, false}, acell{10, true})
	}
	var cCases int64
	cDone := r.ForEach(len(acells), func(i int) {
		defer func() {
			if e := recover(); e != nil {
				rep(r, "accessor/panic", fmt.Sprintf("panic in cell %+v: %v", acells[i], e), accCase{Part: "c", Log2: acells[i].log2, Conv: acells[i].conv})
			}
		}()
		atomic.AddInt64(&cCases, int64(accessorCell(r, acells[i].log2, acells[i].conv, nil, false)))
	})
	fmt.Printf("(c) storage accessor: %d cells, %d write+read round trips, complete=%v\n", len(acells), cCases, cDone)

	// ---- (b) lattice, default schedule
	lat := dmaLattice(r.Thorough())
	var bLat int64
	bDone := r.ForEach(len(lat), func(i int) {
		ex := &explore.Explorer{Bound: 0}
		_, v, infra := ex.RunOne(dmaworld.Body(lat[i]), nil, false)
		if infra != "" {
			r.Infra("%s: %s", lat[i].Name, infra)
		}
		if v != nil {
			rep(r, v.Sig, v.Msg+"\nscenario: "+lat[i].Name, latticeCase{Part: "b-lattice", Cfg: lat[i]})
		}
		atomic.AddInt64(&bLat, 1)
	})
	fmt.Printf("(b) DMA path, range lattice under the default schedule: %d copies (H2D+D2H each), complete=%v\n", bLat, bDone)

	// ---- (d)
	dRuns := platformPart(r)

	// ---- (b) interleavings
	r.RunScenarios(dmaworld.Scenarios(r.Thorough()))

	ex := r.Cov["exhaustive"] == true && aDone && cDone && bDone
	r.Cov["exhaustive"] = ex
	r.Cov["direct_path_round_trips"] = aPairs
	r.Cov["direct_path_cells"] = len(cells)
	r.Cov["accessor_round_trips"] = cCases
	r.Cov["dma_lattice_copies"] = bLat
	r.Cov["platform_runs"] = dRuns
	if n, ok := r.Cov["traces_validated_against_impl"].(int64); ok {
		r.Cov["traces_validated_against_impl"] = n + aPairs + cCases + bLat
	}
	r.Cov["rule"] = "(a),(c): every (offset,length) with both ends in the boundary alphabet x host type x buffer size x GPU count, executed on the real driver/storage resp. storage accessor and compared byte for byte with a reference image of the whole storage; (b): every choice vector of memory-response order/delay and wire back-pressure with at most `bound` deviations on the real driver middleware + CP + DMA engine, plus the (offset,length) lattice under the default schedule; states = distinct port-level traces"
	r.Assume = append(r.Assume,
		"(a) the driver is ticked by hand on the calling thread (no engine goroutine): the blocking API is Enqueue + DrainCommandQueue and the copy itself happens inside Driver.Tick",
		"(b) copies in flight at the same time (different command queues) touch disjoint ranges; the driver-CP and CP-DMA links are real akita direct connections with their default behaviour, only the memory side is explored",
		"(b) the environment memory applies a write when it takes the request and answers every request exactly once",
		"translation (virtual page -> frame) is read from the same page table the driver uses; allocation correctness is C10",
	)
	r.Finish()
}

func replay(r *harness.Run) {
	data, err := os.ReadFile(r.Replay)
	if err != nil {
		fmt.Fprintln(os.Stderr, err)
		os.Exit(2)
	}
	var f struct {
		Signature string          `json:"signature"`
		Case      json.RawMessage `json:"case"`
	}
	if err := json.Unmarshal(data, &f); err != nil {
		fmt.Fprintln(os.Stderr, err)
		os.Exit(2)
	}
	var part struct {
		Part string `json:"part"`
	}
	json.Unmarshal(f.Case, &part)
	switch part.Part {
	case "a":
		var c directCase
		json.Unmarshal(f.Case, &c)
		fmt.Printf("replaying direct-path case %+v\n", c)
		only := &c
		if c.Type == "*" {
			only = nil
		}
		runDirect(r, c.NGPU, c.Bytes, c.Scr, only, true)
	case "c":
		var c accCase
		json.Unmarshal(f.Case, &c)
		fmt.Printf("replaying accessor case %+v\n", c)
		only := &c
		if c.Hi == 0 {
			only = nil
		}
		accessorCell(r, c.Log2, c.Conv, only, true)
	case "b-lattice":
		var c latticeCase
		json.Unmarshal(f.Case, &c)
		c.Cfg.NoStall, c.Cfg.NoDelays = true, true
		ex := &explore.Explorer{Bound: 0}
		x, v, infra := ex.RunOne(dmaworld.Body(c.Cfg), nil, true)
		for _, l := range x.Trace {
			fmt.Println(l)
		}
		if infra != "" {
			fmt.Println("INFRASTRUCTURE ERROR:", infra)
			os.Exit(2)
		}
		if v != nil {
			rep(r, v.Sig, v.Msg, c)
		}
	case "d":
		platformReplay(r, f.Case)
	default:
		r.RunScenarios(append(dmaworld.Scenarios(false), dmaworld.Scenarios(true)...)) // explorer replay; exits
	}
	if atomic.LoadInt32(&reported) > 0 {
		os.Exit(1)
	}
	fmt.Println("replay: no violation")
	os.Exit(0)
}
