package main

import (
	"bytes"
	"fmt"

	"github.com/sarchlab/akita/v4/mem/mem"
	"github.com/sarchlab/akita/v4/mem/vm"
	"github.com/sarchlab/mgpusim/v4/amd/emu"

	"verif/mc/harness"
)

// ---------------------------------------------------------------------------
// Part (c): emu.StorageAccessor Read/Write across page boundaries, with a real
// page table whose virtual pages map to scrambled, non-contiguous frames.

type accCase struct {
	Part   string `json:"part"`
	Log2   uint64 `json:"log2_page"`
	Conv   bool   `json:"address_converter"`
	Lo, Hi uint64
}

// accessorCell runs all (addr,len) of one page size / converter setting.
func accessorCell(r *harness.Run, log2 uint64, conv bool, only *accCase, verbose bool) (cases int) {
	P := uint64(1) << log2
	const pid = vm.PID(7)
	const nPages = 4
	vbase := 16 * P
	// virtual page i -> frame perm[i] (non-contiguous, non-monotonic)
	perm := []uint64{9, 2, 13, 5}
	pbase := uint64(0x40000)
	if conv {
		pbase += 1 << 22
	}
	var ac mem.AddressConverter
	if conv {
		// the converter removes an offset (element 0 of a 1-way interleaving)
		ac = mem.InterleavingConverter{InterleavingSize: 1 << 22, TotalNumOfElements: 1, CurrentElementIndex: 0, Offset: 1 << 22}
	}
	store := func(pa uint64) uint64 {
		if conv {
			return ac.ConvertExternalToInternal(pa) // akita's converter is an input here, not under test
		}
		return pa
	}
	pt := vm.NewPageTable(log2)
	for i := uint64(0); i < nPages; i++ {
		pt.Insert(vm.Page{PID: pid, VAddr: vbase + i*P, PAddr: pbase + perm[i]*P, PageSize: P, Valid: true, DeviceID: 1})
	}
	// another process maps the same virtual pages elsewhere; must never be touched
	for i := uint64(0); i < nPages; i++ {
		pt.Insert(vm.Page{PID: pid + 1, VAddr: vbase + i*P, PAddr: pbase + (20+i)*P, PageSize: P, Valid: true, DeviceID: 1})
	}
	storage := mem.NewStorage(pbase + 64*P + 1<<20)
	ref := &refMem{}
	reg := refRegion{base: store(pbase), data: make([]byte, (32*P+4095)/4096*4096)}
	for i := range reg.data {
		reg.data[i] = byte(0x11 + i%127)
	}
	storage.Write(reg.base, reg.data)
	ref.regions = append(ref.regions, reg)
	acc := emu.NewStorageAccessor(storage, pt, log2, ac)
	tr := func(v uint64) uint64 { return store(pbase + perm[(v-vbase)/P]*P + (v-vbase)%P) }

	pts := boundaryPoints(nPages*P, P)
	if log2 < 7 {
		pts = nil
		for x := uint64(0); x <= nPages*P; x++ {
			pts = append(pts, x) // tiny pages: every address
		}
	}
	seq := 0
	for _, lo := range pts {
		for _, hi := range pts {
			if hi <= lo {
				continue
			}
			if only != nil && (only.Lo != lo || only.Hi != hi) {
				continue
			}
			seq++
			c := accCase{Part: "c", Log2: log2, Conv: conv, Lo: lo, Hi: hi}
			data := make([]byte, hi-lo)
			for i := range data {
				data[i] = byte(seq*29 + i*7 + 3)
			}
			fail := func(sig, msg string) {
				rep(r, "accessor/"+sig, fmt.Sprintf("%s\ncase: page size 2^%d, converter %v, virtual range [%#x,%#x) of 4 pages mapped to frames %v", msg, log2, conv, vbase+lo, vbase+hi, perm), c)
			}
			acc.Write(pid, vbase+lo, data)
			for i, b := range data {
				*ref.at(tr(vbase + lo + uint64(i))) = b
			}
			if msg, bad := ref.diff(storage); bad {
				fail("write/storage-differs", "after Write: "+msg)
				return cases
			}
			got := acc.Read(pid, vbase+lo, hi-lo)
			if !bytes.Equal(got, data) {
				fail("read/round-trip-differs", fmt.Sprintf("Read(Write(x)) != x at byte %d", firstDiff(got, data)))
			}
			if msg, bad := ref.diff(storage); bad {
				fail("read/storage-changed", "after Read: "+msg)
				return cases
			}
			cases++
			if verbose {
				fmt.Printf("  [%#x,%#x): ok\n", vbase+lo, vbase+hi)
			}
		}
	}
	// whole range read equals the reference
	if only == nil {
		got := acc.Read(pid, vbase, nPages*P)
		for i := range got {
			if got[i] != *ref.at(tr(vbase + uint64(i))) {
				rep(r, "accessor/read/whole-range-differs", fmt.Sprintf("byte %d", i), accCase{Part: "c", Log2: log2, Conv: conv, Lo: 0, Hi: nPages * P})
				break
			}
		}
	}
	return cases
}
