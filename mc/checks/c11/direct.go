package main

import (
	"bytes"
	"encoding/binary"
	"fmt"
	"math"
	"reflect"
	"sort"
	"unsafe"

	"github.com/sarchlab/akita/v4/mem/mem"
	"github.com/sarchlab/akita/v4/mem/vm"
	"github.com/sarchlab/akita/v4/sim"
	"github.com/sarchlab/mgpusim/v4/amd/driver"

	"verif/mc/harness"
)

// ---------------------------------------------------------------------------
// Part (a): direct-storage copy path (globalStorageMemoryCopyMiddleware).
// Real driver, real mem.Storage, real page table; the driver is ticked by
// hand. Exhaustive lattice: GPUs x buffer size x (offset,length) x host type.

const (
	aLog2Page  = 12
	aPage      = 1 << aLog2Page
	aGPUPages  = 16
	aCPUBytes  = 4 << 30
	aCapacity  = aCPUBytes + aPage + 4*aGPUPages*aPage + aPage
	aGuardByte = 0xA5
)

// storageUnits lists every unit the storage has materialised (reflectively:
// the map is private). It is how "every byte of the storage" is compared with
// the reference without walking 4 GiB of zeroes.
func storageUnits(s *mem.Storage) map[uint64][]byte {
	out := map[uint64][]byte{}
	v := reflect.ValueOf(s).Elem().FieldByName("data")
	v = reflect.NewAt(v.Type(), unsafe.Pointer(v.UnsafeAddr())).Elem()
	it := v.MapRange()
	for it.Next() {
		u := it.Value().Elem().FieldByName("data")
		u = reflect.NewAt(u.Type(), unsafe.Pointer(u.UnsafeAddr())).Elem()
		out[it.Key().Uint()] = u.Bytes()
	}
	return out
}

// refMem is the reference image: explicit bytes for a set of regions, zero
// everywhere else.
type refMem struct {
	regions []refRegion
}
type refRegion struct {
	base uint64
	data []byte
}

func (m *refMem) at(addr uint64) *byte {
	for i := range m.regions {
		r := &m.regions[i]
		if addr >= r.base && addr < r.base+uint64(len(r.data)) {
			return &r.data[addr-r.base]
		}
	}
	return nil
}

// diff compares the materialised storage with the reference; returns the
// first differing address.
func (m *refMem) diff(s *mem.Storage) (string, bool) {
	units := storageUnits(s)
	keys := make([]uint64, 0, len(units))
	for k := range units {
		keys = append(keys, k)
	}
	sort.Slice(keys, func(i, j int) bool { return keys[i] < keys[j] })
	zero := make([]byte, 4096)
	for _, base := range keys {
		u := units[base]
		want := zero
		for i := range m.regions {
			r := &m.regions[i]
			if base >= r.base && base+uint64(len(u)) <= r.base+uint64(len(r.data)) {
				want = r.data[base-r.base : base-r.base+uint64(len(u))]
			}
		}
		if len(u) != len(want) {
			panic("storage unit size")
		}
		if !bytes.Equal(u, want) {
			i := firstDiff(u, want)
			return fmt.Sprintf("storage[%#x] = %#02x, reference %#02x", base+uint64(i), u[i], want[i]), true
		}
	}
	// regions must be materialised wherever the reference is non-zero
	for _, r := range m.regions {
		for off := uint64(0); off < uint64(len(r.data)); off += 4096 {
			if _, ok := units[(r.base+off)/4096*4096]; !ok {
				for _, b := range r.data[off:min64(off+4096, uint64(len(r.data)))] {
					if b != 0 {
						return fmt.Sprintf("storage unit at %#x missing although the reference holds data there", r.base+off), true
					}
				}
			}
		}
	}
	return "", false
}

func min64(a, b uint64) uint64 {
	if a < b {
		return a
	}
	return b
}

type directSys struct {
	drv     *driver.Driver
	pt      vm.PageTable
	storage *mem.Storage
	ref     *refMem
	ctx     *driver.Context
	queue   *driver.CommandQueue
	pid     vm.PID
}

func newDirectSys(nGPU int) *directSys {
	s := &directSys{pt: vm.NewPageTable(aLog2Page), storage: mem.NewStorage(aCapacity), ref: &refMem{}}
	s.drv = driver.MakeBuilder().WithEngine(sim.NewSerialEngine()).WithFreq(1 * sim.GHz).
		WithLog2PageSize(aLog2Page).WithPageTable(s.pt).WithGlobalStorage(s.storage).
		WithMagicMemoryCopyMiddleware().Build("Driver")
	base := uint64(aCPUBytes + aPage)
	for g := 0; g < nGPU; g++ {
		s.drv.RegisterGPU(nil, driver.DeviceProperties{CUCount: 4, DRAMSize: aGPUPages * aPage})
		reg := refRegion{base: base, data: make([]byte, aGPUPages*aPage)}
		for i := range reg.data {
			reg.data[i] = byte(0x30 + g*0x40 + i%61)
		}
		if err := s.storage.Write(reg.base, reg.data); err != nil {
			panic(err)
		}
		s.ref.regions = append(s.ref.regions, reg)
		base += aGPUPages * aPage
	}
	s.ctx = s.drv.Init()
	s.pid = driver.VerifContextPID(s.ctx)
	s.queue = s.drv.CreateCommandQueue(s.ctx)
	return s
}

// scramble makes the next frames GPU 1 hands out non-contiguous and
// non-monotonic: allocate single pages, free them in another order, then use
// up the untouched frames but one.
func (s *directSys) scramble() {
	d := s.drv
	d.SelectGPU(s.ctx, 1)
	var junk []driver.Ptr
	for i := 0; i < 8; i++ {
		junk = append(junk, d.AllocateMemory(s.ctx, aPage))
	}
	for _, i := range []int{5, 2, 7, 0, 3, 6, 1, 4} {
		d.FreeMemory(s.ctx, junk[i])
	}
	// frames 8..14; the test buffer then gets frame 15 followed by the freed
	// frames in the order 5,2,7,...; later re-homing onto GPU 1 continues there
	d.AllocateMemory(s.ctx, 7*aPage)
}

// translate is the reference translation of one virtual byte.
func (s *directSys) translate(v uint64) (uint64, bool) {
	p, ok := s.pt.Find(s.pid, v)
	if !ok {
		return 0, false
	}
	return p.PAddr + (v - p.VAddr), true
}

// hostType is one element type accepted by the API (anything encoding/binary
// can encode). mk builds the host value for n raw bytes, out an empty
// destination of the same shape, raw the bytes a value encodes to.
type hostType struct {
	name string
	elem int
	mk   func(raw []byte) (src any, dst any)
	raw  func(dst any) []byte
}

type rec struct {
	A uint8
	B uint16
	C uint32
	D [3]uint8
	E int64
	F float64
}

func le(v any) []byte {
	var b bytes.Buffer
	if err := binary.Write(&b, binary.LittleEndian, v); err != nil {
		panic(err)
	}
	return b.Bytes()
}

func hostTypes() []hostType {
	deref := func(dst any) []byte { return le(dst) }
	return []hostType{
		{"[]byte", 1, func(raw []byte) (any, any) { return append([]byte(nil), raw...), make([]byte, len(raw)) }, deref},
		{"[]uint32", 4, func(raw []byte) (any, any) {
			v := make([]uint32, len(raw)/4)
			binary.Read(bytes.NewReader(raw), binary.LittleEndian, v)
			return v, make([]uint32, len(v))
		}, deref},
		{"[]float32", 4, func(raw []byte) (any, any) {
			v := make([]float32, len(raw)/4)
			for i := range v {
				v[i] = math.Float32frombits(binary.LittleEndian.Uint32(raw[4*i:])&0x7f7fffff | 0x00400000) // finite values only
			}
			return v, make([]float32, len(v))
		}, deref},
		{"[]int16", 2, func(raw []byte) (any, any) {
			v := make([]int16, len(raw)/2)
			binary.Read(bytes.NewReader(raw), binary.LittleEndian, v)
			return v, make([]int16, len(v))
		}, deref},
		{"[]uint64", 8, func(raw []byte) (any, any) {
			v := make([]uint64, len(raw)/8)
			binary.Read(bytes.NewReader(raw), binary.LittleEndian, v)
			return v, make([]uint64, len(v))
		}, deref},
		{"[]struct", binary.Size(rec{}), func(raw []byte) (any, any) {
			v := make([]rec, len(raw)/binary.Size(rec{}))
			for i := range v {
				o := raw[i*binary.Size(rec{}):]
				v[i] = rec{A: o[0], B: binary.LittleEndian.Uint16(o[1:]), C: binary.LittleEndian.Uint32(o[3:]), D: [3]uint8{o[7], o[8], o[9]},
					E: int64(binary.LittleEndian.Uint64(o[10:])), F: float64(int32(binary.LittleEndian.Uint32(o[18:]))) / 8}
			}
			return v, make([]rec, len(v))
		}, deref},
		{"*struct", binary.Size(rec{}), func(raw []byte) (any, any) {
			// one struct passed by pointer (H2D accepts pointers too); length is fixed
			o := raw
			v := &rec{A: o[0], B: binary.LittleEndian.Uint16(o[1:]), C: binary.LittleEndian.Uint32(o[3:]), D: [3]uint8{o[7], o[8], o[9]},
				E: int64(binary.LittleEndian.Uint64(o[10:])), F: 0.5}
			return v, &rec{}
		}, deref},
		{"uint64-by-value", 8, func(raw []byte) (any, any) {
			return binary.LittleEndian.Uint64(raw), new(uint64)
		}, deref},
	}
}

type directCase struct {
	Part  string `json:"part"`
	NGPU  int    `json:"ngpu"`
	Bytes uint64 `json:"buffer_bytes"`
	Off   uint64 `json:"offset"`
	Len   uint64 `json:"length"`
	Type  string `json:"type"`
	Scr   bool   `json:"scrambled_frames"`
}

func boundaryPoints(limit uint64, P uint64) []uint64 {
	set := map[uint64]bool{}
	for _, b := range []uint64{0, P, 2 * P, 3 * P} {
		for _, d := range []int64{-65, -64, -63, -4, -3, -1, 0, 1, 3, 4, 63, 64, 65} {
			x := int64(b) + d
			if x >= 0 && uint64(x) <= limit {
				set[uint64(x)] = true
			}
		}
	}
	set[limit] = true
	if limit > 0 {
		set[limit-1] = true
	}
	var out []uint64
	for x := range set {
		out = append(out, x)
	}
	sort.Slice(out, func(i, j int) bool { return out[i] < out[j] })
	return out
}

var directBufSizes = []uint64{1, 3, 63, 64, 65, aPage - 1, aPage, aPage + 1, 2 * aPage, 2*aPage + 1, 3*aPage - 1, 3 * aPage}

// runDirect runs every case of one (nGPU, buffer size, scrambled) cell on one
// driver. only != nil restricts to one case (replay). It returns the number
// of copy pairs executed and distinct (offset,len,type) cases.
func runDirect(r *harness.Run, nGPU int, bufBytes uint64, scr bool, only *directCase, verbose bool) (pairs int) {
	s := newDirectSys(nGPU)
	if scr {
		s.scramble()
	}
	d := s.drv
	d.SelectGPU(s.ctx, 1)
	ptr := uint64(d.AllocateMemory(s.ctx, bufBytes))
	if nGPU > 1 {
		ids := make([]int, nGPU)
		for i := range ids {
			ids[i] = i + 1
		}
		d.Distribute(s.ctx, driver.Ptr(ptr), bufBytes, ids)
	}
	if verbose {
		for v := ptr; v < ptr+bufBytes; v += aPage {
			p, _ := s.pt.Find(s.pid, v)
			fmt.Printf("  page %#x -> paddr %#x device %d\n", v, p.PAddr, p.DeviceID)
		}
	}
	report := func(c directCase, sig, msg string) {
		c.Part = "a"
		rep(r, "direct/"+sig, fmt.Sprintf("%s\ncase: %d GPUs, buffer %d bytes at %#x (scrambled frames %v), copy offset %d length %d as %s", msg, c.NGPU, c.Bytes, ptr, c.Scr, c.Off, c.Len, c.Type), c)
	}
	pts := boundaryPoints(bufBytes, aPage)
	seq := 0
	for _, ht := range hostTypes() {
		done := map[[2]uint64]bool{}
		for _, lo := range pts {
			for _, hi := range pts {
				if hi <= lo {
					continue
				}
				n := (hi - lo) / uint64(ht.elem) * uint64(ht.elem)
				if ht.name == "*struct" || ht.name == "uint64-by-value" {
					if hi-lo < uint64(ht.elem) {
						continue
					}
					n = uint64(ht.elem)
				}
				if n == 0 || done[[2]uint64{lo, n}] {
					continue
				}
				done[[2]uint64{lo, n}] = true
				c := directCase{NGPU: nGPU, Bytes: bufBytes, Off: lo, Len: n, Type: ht.name, Scr: scr}
				if only != nil && (only.Off != c.Off || only.Len != c.Len || only.Type != c.Type) {
					continue
				}
				seq++
				raw := make([]byte, n)
				for i := range raw {
					raw[i] = byte(seq*37 + i*11 + 1)
				}
				src, dst := ht.mk(raw)
				want := le(src) // the bytes the API is asked to move
				// ---- H2D
				d.EnqueueMemCopyH2D(s.queue, driver.Ptr(ptr+lo), src)
				if s.queue.NumCommand() != 1 {
					report(c, "h2d/not-enqueued", "command queue does not hold the copy")
				}
				d.Tick()
				if s.queue.NumCommand() != 0 {
					report(c, "h2d/not-completed", fmt.Sprintf("H2D still queued after one driver tick (%d commands)", s.queue.NumCommand()))
					return pairs
				}
				for i, b := range want {
					pa, ok := s.translate(ptr + lo + uint64(i))
					if !ok {
						panic("reference translation failed")
					}
					*s.ref.at(pa) = b
				}
				if msg, bad := s.ref.diff(s.storage); bad {
					report(c, "h2d/storage-differs", "after H2D: "+msg)
					return pairs
				}
				if d.Tick() { // a completed command must not run again
					report(c, "h2d/driver-still-busy", "driver reports progress on an empty queue")
				}
				if msg, bad := s.ref.diff(s.storage); bad {
					report(c, "h2d/executed-twice", "after an extra tick: "+msg)
					return pairs
				}
				// ---- D2H of the same range
				d.EnqueueMemCopyD2H(s.queue, dst, driver.Ptr(ptr+lo))
				d.Tick()
				if s.queue.NumCommand() != 0 {
					report(c, "d2h/not-completed", "D2H still queued after one driver tick")
					return pairs
				}
				if got := ht.raw(dst); !bytes.Equal(got, want) {
					report(c, "d2h/round-trip-differs", fmt.Sprintf("D2H(H2D(x)) != x: first difference at byte %d", firstDiff(got, want)))
				}
				if msg, bad := s.ref.diff(s.storage); bad {
					report(c, "d2h/storage-changed", "after D2H: "+msg)
					return pairs
				}
				pairs++
				if verbose {
					fmt.Printf("  offset %d length %d as %s: ok\n", lo, n, ht.name)
				}
			}
		}
	}
	// finally read the whole buffer back in one copy and compare with the reference
	if only == nil {
		all := make([]byte, bufBytes)
		d.EnqueueMemCopyD2H(s.queue, all, driver.Ptr(ptr))
		d.Tick()
		for i := range all {
			pa, _ := s.translate(ptr + uint64(i))
			if all[i] != *s.ref.at(pa) {
				report(directCase{NGPU: nGPU, Bytes: bufBytes, Off: 0, Len: bufBytes, Type: "[]byte", Scr: scr}, "d2h/whole-buffer-differs",
					fmt.Sprintf("whole-buffer D2H byte %d = %#x, reference %#x", i, all[i], *s.ref.at(pa)))
				break
			}
		}
		pairs++
	}
	return pairs
}

func firstDiff(a, b []byte) int {
	for i := range a {
		if i >= len(b) || a[i] != b[i] {
			return i
		}
	}
	return len(a)
}
