package main

import (
	"bytes"
	"encoding/json"
	"flag"
	"fmt"
	"os"
	"os/exec"
	"strings"
	"time"

	"github.com/sarchlab/akita/v4/simulation"
	"github.com/sarchlab/mgpusim/v4/amd/driver"
	"github.com/sarchlab/mgpusim/v4/amd/arch"
	"github.com/sarchlab/mgpusim/v4/amd/samples/runner/emusystem"
	"github.com/sarchlab/mgpusim/v4/amd/samples/runner/timingconfig"
	"github.com/sarchlab/mgpusim/v4/amd/sampling"

	"verif/mc/harness"
)

// ---------------------------------------------------------------------------
// Part (d), thorough tier: the full timing platform (timingconfig builder:
// driver with the DMA copy path, PCIe, command processor, DMA engine, caches,
// DRAM). Kernels are the driver's own device-to-device copy kernel, which
// reads one buffer and writes another, i.e. leaves clean lines of the source
// and dirty lines of the destination in L1/L2. Every scenario runs in a worker
// subprocess (the driver's engine goroutine turns a panic into os.Exit).

var workerFlag = flag.String("worker", "", "internal: run one platform scenario and print its JSON result")

type platCase struct {
	Part     string `json:"part"`
	Scenario string `json:"scenario"`
	GPUType  string `json:"gpu_type"`
}

type platResult struct {
	Sig string `json:"sig"` // "" = held
	Msg string `json:"msg"`
	Ops int    `json:"ops"`
}

type platScenario struct {
	name string
	gpus int
	run  func(p *plat) *platResult
}

type plat struct {
	drv *driver.Driver
	ctx *driver.Context
	ops int
}

const dPage = 4096

func pattern(seed, n int) []byte {
	b := make([]byte, n)
	for i := range b {
		b[i] = byte(seed*53 + i*7 + i/251 + 1)
	}
	return b
}

func (p *plat) expect(what string, got, want []byte) *platResult {
	p.ops++
	if bytes.Equal(got, want) {
		return nil
	}
	i := firstDiff(got, want)
	return &platResult{Msg: fmt.Sprintf("%s: byte %d of %d is %#02x, expected %#02x", what, i, len(want), at(got, i), at(want, i))}
}

// sub-ranges read back after a kernel: both ends on the boundary alphabet
var dRanges = [][2]int{{0, 2 * dPage}, {0, 1}, {1, 63}, {63, 65}, {64, 128}, {dPage - 1, dPage + 1}, {dPage - 65, dPage + 65}, {3, 2*dPage - 3}, {2*dPage - 1, 2 * dPage}}

func platScenarios() []platScenario {
	return []platScenario{
		{"kernel-writes-then-d2h-subranges", 1, func(p *plat) *platResult {
			d, c := p.drv, p.ctx
			n := 2 * dPage
			x := pattern(1, n)
			a, b := d.AllocateMemory(c, uint64(n)), d.AllocateMemory(c, uint64(n))
			d.MemCopyH2D(c, a, x)
			d.MemCopyH2D(c, b, pattern(2, n)) // DRAM copy of B differs from what the kernel writes
			d.MemCopyD2D(c, b, a, n)          // B is now dirty in the caches
			for _, r := range dRanges {
				out := make([]byte, r[1]-r[0])
				d.MemCopyD2H(c, out, b+driver.Ptr(r[0]))
				if res := p.expect(fmt.Sprintf("D2H of [%d,%d) of a buffer written by a completed kernel", r[0], r[1]), out, x[r[0]:r[1]]); res != nil {
					res.Sig = "d2h-misses-kernel-write"
					return res
				}
			}
			return nil
		}},
		{"h2d-into-range-a-kernel-left-cached", 1, func(p *plat) *platResult {
			d, c := p.drv, p.ctx
			n := 2 * dPage
			x, y := pattern(3, n), pattern(4, n)
			a, b, cc := d.AllocateMemory(c, uint64(n)), d.AllocateMemory(c, uint64(n)), d.AllocateMemory(c, uint64(n))
			d.MemCopyH2D(c, a, x)
			d.MemCopyD2D(c, b, a, n) // the kernel read A: its lines are (clean) in L1/L2
			want := append([]byte{}, x...)
			out := make([]byte, n)
			for i, r := range [][2]int{{65, dPage + 3}, {0, 1}, {63, 65}, {dPage - 1, dPage + 1}, {2*dPage - 64, 2 * dPage}} {
				lo, hi := r[0], r[1]
				for k := lo; k < hi; k++ {
					y[k] += byte(i) // new host data into part of A
				}
				d.MemCopyH2D(c, a+driver.Ptr(lo), y[lo:hi])
				copy(want[lo:hi], y[lo:hi])
				d.MemCopyD2H(c, out, a)
				if res := p.expect(fmt.Sprintf("D2H of a buffer after H2D into [%d,%d)", lo, hi), out, want); res != nil {
					res.Sig = "d2h-after-h2d-differs"
					return res
				}
				d.MemCopyD2D(c, cc, a, n) // another kernel reads A
				d.MemCopyD2H(c, out, cc)
				if res := p.expect(fmt.Sprintf("kernel reading a buffer after H2D overwrote [%d,%d) of it (an earlier kernel had cached it)", lo, hi), out, want); res != nil {
					res.Sig = "kernel-reads-stale-cache-after-h2d"
					return res
				}
			}
			return nil
		}},
		{"two-contexts-one-process", 1, func(p *plat) *platResult {
			d, c := p.drv, p.ctx
			c2 := d.InitWithExistingPID(c)
			d.SelectGPU(c2, 1)
			n := 2 * dPage
			x := pattern(5, n)
			a := d.AllocateMemory(c, uint64(n))
			b := d.AllocateMemory(c2, uint64(n)) // recorded in the second context
			d.MemCopyH2D(c, a, x)
			d.MemCopyH2D(c2, b, pattern(6, n))
			d.MemCopyD2D(c, b, a, n) // kernel launched through the first context writes B
			out := make([]byte, n)
			d.MemCopyD2H(c2, out, b) // read back through the context that owns B
			if res := p.expect("D2H through a second context of the same process, of a buffer a completed kernel of the first context wrote", out, x); res != nil {
				res.Sig = "d2h-misses-kernel-write/other-context-same-process"
				return res
			}
			return nil
		}},
		{"two-contexts-one-process/h2d-then-kernel", 1, func(p *plat) *platResult {
			d, c := p.drv, p.ctx
			c2 := d.InitWithExistingPID(c)
			d.SelectGPU(c2, 1)
			n := 2 * dPage
			x, y := pattern(8, n), pattern(9, n)
			b := d.AllocateMemory(c2, uint64(n)) // owned by the second context
			cc := d.AllocateMemory(c, uint64(n))
			d.MemCopyH2D(c2, b, x)
			d.MemCopyD2D(c, cc, b, n) // a kernel of the first context reads B: B's lines are cached
			d.MemCopyH2D(c2, b, y)    // the owner overwrites B from the host
			d.MemCopyD2D(c, cc, b, n) // the kernel runs again
			out := make([]byte, n)
			d.MemCopyD2H(c, out, cc)
			if res := p.expect("kernel of context 1 reading a buffer of context 2 (same process) after context 2 overwrote it with H2D", out, y); res != nil {
				res.Sig = "kernel-reads-stale-cache-after-h2d/other-context-same-process"
				return res
			}
			return nil
		}},
		{"buffer-moved-between-kernels", 2, func(p *plat) *platResult {
			// a kernel touches a buffer, the driver re-homes it (Remap keeps the virtual address and changes the frame),
			// the host rewrites it, a second kernel writes it, a D2H reads it: the copy must see the second kernel
			d, c := p.drv, p.ctx
			n := 8 * dPage // 128 work-groups per copy kernel: every compute unit of the GPU takes part in every launch
			x, y := pattern(10, n), pattern(11, n)
			a, b := d.AllocateMemory(c, uint64(n)), d.AllocateMemory(c, uint64(n))
			d.MemCopyH2D(c, a, x)
			d.MemCopyD2D(c, b, a, n) // the kernel reads A and writes B
			out := make([]byte, n)
			d.MemCopyD2H(c, out, b)
			if res := p.expect("D2H of a buffer written by a completed kernel", out, x); res != nil {
				res.Sig = "d2h-misses-kernel-write"
				return res
			}
			d.Remap(c, uint64(b), uint64(n), 2) // B moves to GPU 2
			d.MemCopyH2D(c, b, pattern(12, n))
			d.MemCopyD2H(c, out, b)
			if res := p.expect("D2H(H2D(x)) of a buffer that was moved to another GPU after a kernel had used it", out, pattern(12, n)); res != nil {
				res.Sig = "round-trip-differs/after-remap"
				return res
			}
			d.MemCopyH2D(c, a, y)
			d.MemCopyD2D(c, b, a, n) // the kernel writes the moved buffer
			d.MemCopyD2H(c, out, b)
			if res := p.expect("D2H of a buffer that was moved to another GPU between two kernels that wrote it", out, y); res != nil {
				res.Sig = "d2h-misses-kernel-write/after-remap"
				return res
			}
			return nil
		}},
		{"distributed-buffer-two-gpus", 2, func(p *plat) *platResult {
			d, c := p.drv, p.ctx
			n := 4 * dPage
			x := pattern(7, n)
			a, b := d.AllocateMemory(c, uint64(n)), d.AllocateMemory(c, uint64(n))
			d.Distribute(c, a, uint64(n), []int{1, 2})
			d.Distribute(c, b, uint64(n), []int{2, 1})
			d.MemCopyH2D(c, a, x)
			for _, r := range [][2]int{{0, n}, {2*dPage - 3, 2*dPage + 3}, {dPage - 1, 3*dPage + 1}} {
				out := make([]byte, r[1]-r[0])
				d.MemCopyD2H(c, out, a+driver.Ptr(r[0]))
				if res := p.expect(fmt.Sprintf("D2H(H2D(x)) on [%d,%d) of a buffer distributed over two GPUs", r[0], r[1]), out, x[r[0]:r[1]]); res != nil {
					res.Sig = "round-trip-differs/distributed"
					return res
				}
			}
			d.MemCopyD2D(c, b, a, n) // kernel on GPU 1 reads and writes pages of both GPUs
			for _, r := range [][2]int{{0, n}, {2*dPage - 65, 2*dPage + 65}} {
				out := make([]byte, r[1]-r[0])
				d.MemCopyD2H(c, out, b+driver.Ptr(r[0]))
				if res := p.expect(fmt.Sprintf("D2H of [%d,%d) of a distributed buffer written by a completed kernel", r[0], r[1]), out, x[r[0]:r[1]]); res != nil {
					res.Sig = "d2h-misses-kernel-write/distributed"
					return res
				}
			}
			return nil
		}},
	}
}

// platformWorker runs inside the subprocess.
func platformWorker(arg string) {
	parts := strings.SplitN(arg, ":", 2)
	gpuType, name := parts[0], parts[1]
	for _, sc := range platScenarios() {
		if sc.name != name {
			continue
		}
		sampling.InitSampledEngine()
		s := simulation.MakeBuilder().WithoutMonitoring().Build()
		if gpuType == "emu" {
			// the emulation platform: direct-storage copy path, emulated compute units
			emusystem.MakeBuilder().WithSimulation(s).WithNumGPUs(sc.gpus).WithArchitecture(arch.GCN3).Build()
		} else {
			timingconfig.MakeBuilder().WithSimulation(s).WithNumGPUs(sc.gpus).WithGPUType(gpuType).Build()
		}
		d := s.GetComponentByName("Driver").(*driver.Driver)
		d.Run()
		p := &plat{drv: d, ctx: d.Init()}
		d.SelectGPU(p.ctx, 1)
		res := sc.run(p)
		if res == nil {
			res = &platResult{}
		}
		res.Ops = p.ops
		out, _ := json.Marshal(res)
		fmt.Println("RESULT " + string(out))
		os.Exit(0) // do not wait for the engine goroutine
	}
	fmt.Println("unknown scenario", name)
	os.Exit(2)
}

func runPlatformScenario(gpuType, name string) (res platResult, infra string) {
	cmd := exec.Command(os.Args[0], "-worker", gpuType+":"+name)
	dir, _ := os.MkdirTemp(harness.Dir()+"/build/tmp", "c11d")
	defer os.RemoveAll(dir)
	cmd.Dir = dir // the simulation writes its sqlite trace into the working directory
	var out bytes.Buffer
	cmd.Stdout, cmd.Stderr = &out, &out
	if err := cmd.Start(); err != nil {
		return res, err.Error()
	}
	done := make(chan error, 1)
	go func() { done <- cmd.Wait() }()
	select {
	case <-done:
	case <-time.After(20 * time.Minute):
		// not an oracle: a run that does not finish is reported as inconclusive
		cmd.Process.Kill()
		return res, "worker did not finish within 20 minutes (inconclusive, not a verdict)"
	}
	for _, l := range strings.Split(out.String(), "\n") {
		if strings.HasPrefix(l, "RESULT ") {
			if err := json.Unmarshal([]byte(l[7:]), &res); err != nil {
				return res, err.Error()
			}
			return res, ""
		}
	}
	tail := out.String()
	if len(tail) > 1500 {
		tail = tail[len(tail)-1500:]
	}
	return platResult{Sig: "process-died", Msg: "worker died without a result:\n" + tail}, ""
}

func platformPart(r *harness.Run) int {
	os.MkdirAll(harness.Dir()+"/build/tmp", 0o755)
	type job struct{ gpuType, name string }
	var jobs []job
	types := []string{"emu"} // quick: the emulation platform only (seconds)
	if r.Thorough() {
		types = []string{"emu", "r9nano", "mi300a"}
	}
	for _, t := range types {
		for _, sc := range platScenarios() {
			jobs = append(jobs, job{t, sc.name})
		}
	}
	ops := make([]int, len(jobs))
	r.ForEach(len(jobs), func(i int) {
		res, infra := runPlatformScenario(jobs[i].gpuType, jobs[i].name)
		if infra != "" {
			fmt.Printf("(d) %s/%s: inconclusive: %s\n", jobs[i].gpuType, jobs[i].name, infra)
			return
		}
		ops[i] = res.Ops
		if res.Sig != "" {
			sig := "platform/" + res.Sig
			if strings.HasSuffix(res.Sig, "/after-remap") {
				sig += "/" + jobs[i].gpuType // emulation and timing platforms translate differently (page table vs TLBs)
			}
			rep(r, sig, res.Msg+"\nscenario: "+jobs[i].name+" on "+jobs[i].gpuType, platCase{Part: "d", Scenario: jobs[i].name, GPUType: jobs[i].gpuType})
		}
		fmt.Printf("(d) %-8s %-42s checks=%d %s\n", jobs[i].gpuType, jobs[i].name, res.Ops, res.Sig)
	})
	n := 0
	for _, o := range ops {
		n += o
	}
	return n
}

func platformReplay(r *harness.Run, c json.RawMessage) {
	var pc platCase
	json.Unmarshal(c, &pc)
	res, infra := runPlatformScenario(pc.GPUType, pc.Scenario)
	if infra != "" {
		fmt.Println("INFRASTRUCTURE ERROR:", infra)
		os.Exit(2)
	}
	fmt.Printf("scenario %s on %s: checks=%d sig=%q %s\n", pc.Scenario, pc.GPUType, res.Ops, res.Sig, res.Msg)
	if res.Sig != "" {
		sig := "platform/" + res.Sig
		if strings.HasSuffix(res.Sig, "/after-remap") {
			sig += "/" + pc.GPUType
		}
		rep(r, sig, res.Msg, pc)
	}
}

func at(b []byte, i int) byte {
	if i < len(b) {
		return b[i]
	}
	return 0
}
