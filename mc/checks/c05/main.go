// C05: simulations are reproducible bit-for-bit. One application thread issues
// 2-4 blocking API calls on a real (instrumented) driver + serial engine + a
// minimal GPU responder; every schedule of the application, driver and engine
// goroutines within the preemption bound is executed (twice: map iteration
// order is sampled) and the observables must be identical across schedules.
package main

import (
	"encoding/json"
	"fmt"
	"os"
	"sort"
	"strings"

	"verif/mc/e3drive"
	"verif/mc/e3scn"
	"verif/mc/harness"
)

type replayCase struct {
	Scenario string `json:"scenario"`
	ChoicesA []int  `json:"choices_a"`
	OutcomeA string `json:"outcome_a"`
	ChoicesB []int  `json:"choices_b"`
	OutcomeB string `json:"outcome_b"`
}

func scenarios(thorough bool) []e3drive.Scenario {
	o := e3scn.Opts{RspLatency: 1}
	om := o
	om.Magic = true
	b := 2
	var scs []e3drive.Scenario
	add := func(sc e3scn.Scenario, bound int) {
		scs = append(scs, e3drive.Scenario{Sc: sc, Bound: bound, Twice: true, DeadlockIsNotMine: true, NondetIsViolation: true})
	}
	ot := o
	ot.TailTicks = 3
	add(e3scn.Repro(2, o), b)
	add(e3scn.Repro(3, o), b)
	add(e3scn.Repro(2, om), b)
	add(e3scn.Repro(2, ot), b)
	if thorough {
		scs = scs[:0]
		add(e3scn.Repro(2, o), 3)
		add(e3scn.Repro(3, o), 3)
		add(e3scn.Repro(4, o), 2)
		add(e3scn.Repro(2, om), 3)
		add(e3scn.Repro(3, om), 3)
		add(e3scn.Repro(2, ot), 3)
	}
	if thorough {
		// the real 1-GPU emulation platform (runner/emusystem) with the programs of
		// amd/tests/deterministic. The empty kernel keeps the engine busy for
		// ~7200 cycles (dispatcher overhead) with the application thread enabled:
		// 10^5 choice points, so only its default schedule is run (twice).
		add(e3scn.EmuPlatform("memcopy"), 3)
		add(e3scn.EmuPlatform("empty-kernel"), 0)
		scs[len(scs)-1].Horizon = 3000000
	} else {
		add(e3scn.Repro(4, o), 1)
	}
	// the asynchronous API with a large host buffer refilled between enqueue and drain (helper threads inside the driver)
	add(e3scn.AsyncRefill(512*1024, o), 1)
	add(e3scn.AsyncRefill(512*1024, om), 1)
	// two GPUs, the far one slow to acknowledge the flush: the blocking D2H after a kernel completes in the
	// driver's flush-return path (data answered before the last flush acknowledgement)
	o2 := o
	o2.GPUs, o2.FarFlushLatency = 2, 4
	if thorough {
		add(e3scn.Repro(4, o2), 2)
	} else {
		add(e3scn.Repro(4, o2), 1)
	}
	return scs
}

// fields splits an outcome into its named components.
func fields(o string) map[string]string {
	m := map[string]string{}
	for _, part := range strings.Split(o, "; ") {
		if k, v, ok := strings.Cut(part, ": "); ok {
			m[k] = v
		} else if strings.HasPrefix(part, "T_end") {
			m["T_end"] = part
		}
	}
	return m
}

func differing(outs []string) []string {
	var keys []string
	seen := map[string]map[string]bool{}
	for _, o := range outs {
		for k, v := range fields(o) {
			if seen[k] == nil {
				seen[k] = map[string]bool{}
			}
			seen[k][v] = true
		}
	}
	for k, vs := range seen {
		if len(vs) > 1 {
			keys = append(keys, k)
		}
	}
	sort.Strings(keys)
	return keys
}

func main() {
	r := harness.Start("C05", "model_checking")
	scs := scenarios(r.Thorough() || r.Replay != "") // replay: every scenario of either tier
	if r.Replay != "" {
		var f struct {
			Signature string     `json:"signature"`
			Case      replayCase `json:"case"`
		}
		data, err := os.ReadFile(r.Replay)
		if err == nil && json.Unmarshal(data, &f) == nil && strings.HasPrefix(f.Signature, "platform-repeat/") {
			// a finding of the platform repeat-run part: replayed by its own (plain) binary
			os.Exit(harness.RunPartBinary("repeat", "-replay", r.Replay))
		}
		if err == nil && strings.HasPrefix(f.Signature, "parallel-engine/") {
			// a finding of the parallel-engine pass: replayed by its own (-race) binary
			os.Exit(harness.RunPartBinary("prace", "-replay", r.Replay))
		}
		if err == nil && json.Unmarshal(data, &f) == nil && len(f.Case.ChoicesB) > 0 {
			replayPair(r, scs, f.Signature, f.Case)
		}
	}
	sum := e3drive.Main(r, scs, "every schedule of the application, driver and engine goroutines with at most `preemption_bound` non-default scheduling decisions is executed (twice) on a fresh driver+engine+responder; distinct_nontrivial = number of distinct observable outcomes over all scenarios (1 per scenario = reproducible)")
	worst := 0
	for _, sc := range scs {
		name := sc.Sc.Name
		vecs := sum.OutcomeVectors[name]
		var outs []string
		for o := range vecs {
			outs = append(outs, o)
		}
		// order: fewest deviations first, then text
		sort.Slice(outs, func(i, j int) bool {
			a, b := vecs[outs[i]], vecs[outs[j]]
			if na, nb := nz(a), nz(b); na != nb {
				return na < nb
			}
			return outs[i] < outs[j]
		})
		if len(outs) > worst {
			worst = len(outs)
		}
		fmt.Printf("C05 %-40s distinct outcomes over all explored schedules: %d\n", name, len(outs))
		if len(outs) <= 1 {
			continue
		}
		diff := differing(outs)
		what := strings.Join(diff, "+")
		what = strings.ReplaceAll(what, " ", "-")
		sig := "time-depends-on-schedule/" + name
		if contains(diff, "bytes") {
			sig = "memory-depends-on-schedule/" + name
		} else if contains(diff, "durations") {
			sig = "command-duration-depends-on-schedule/" + name
		}
		sig += fmt.Sprintf("/differs=%s/start-lag-spread=%dns", what, lagSpread(outs))
		a, b := outs[0], outs[1]
		msg := fmt.Sprintf("%d distinct outcomes; differing observables: %s\n schedule A (choice vector with %d deviation(s)): %s\n schedule B (choice vector with %d deviation(s)): %s",
			len(outs), what, nz(vecs[a]), a, nz(vecs[b]), b)
		for i, o := range outs {
			if i >= 2 && i < 8 {
				msg += fmt.Sprintf("\n further outcome: %s", o)
			}
		}
		r.Report(sig, msg, replayCase{Scenario: name, ChoicesA: vecs[a], OutcomeA: a, ChoicesB: vecs[b], OutcomeB: b})
		r.Sample(map[string]any{"scenario": name, "distinct_outcomes": len(outs), "differing_observables": diff, "outcome_a": a, "outcome_b": b})
	}
	r.Cov["max_distinct_outcomes_in_one_scenario"] = worst
	r.Cov["each_schedule_executed_twice"] = "yes: exposes Go map-iteration order and anything else not owned by the scheduler; this part is sampling (2 draws per schedule)"
	r.Assume = []string{
		"serial engine; one application thread; GPU = minimal responder (fixed 1-cycle latency) behind a real akita direct connection; thorough tier additionally: the real 1-GPU emulation platform (runner/emusystem, akita Simulation without sqlite recorder) with the tests/deterministic programs (memcopy: bound 3; empty kernel: default schedule only)",
		"observables are taken by the application thread after its last call returned and the engine went idle (T_end), plus the engine time seen when calls return",
		"memory model: sequential consistency at shim operations; unsynchronised accesses are covered only by the -race pass of C12",
		"executions that end in one of C12's deadlocks (lost wake-up) produce no outcome and are counted, not judged, here",
		"parallel-engine clause NOT decided: akita's ParallelEngine runs same-time handlers on free goroutines; its interleaving space is outside bounded exhaustive exploration. It is only sampled by the supplementary parallel-engine pass (coverage.part_prace: free runs under the race detector)",
		"host core counts / processes: the controlled scheduler owns every interleaving of the modelled goroutines, so GOMAXPROCS is immaterial inside the model; outside the model they are sampled by the supplementary platform repeat-run part (coverage.part_repeat)",
	}
	// SUPPLEMENTARY: the real emulation and timing platforms, every case in 3 separate processes with
	// GOMAXPROCS 1/3/16, all observables compared across the runs (platlat.RunC05Repeat; plain build,
	// auxiliary binary <this>-repeat). Its coverage lands under coverage["part_repeat"].
	r.RunPart("repeat")
	// SUPPLEMENTARY: the parallel-engine clause. Real timing platform on akita's ParallelEngine (as the
	// runner's -parallel builds it), free runs under the Go race detector, race reports as signatures and
	// final device memory against a serial-engine run (platlat.RunC05Prace; auxiliary binary <this>-prace,
	// plain modfile, -race). Its coverage lands under coverage["part_prace"].
	r.RunPart("prace")
	r.Finish()
}

// lagSpread: over all outcomes and all consecutive commands, the spread
// (max-min) of start(next)-end(previous) in ns: how far the start of a command
// moves with the schedule.
func lagSpread(outs []string) int {
	lo, hi := map[int]int{}, map[int]int{}
	for _, o := range outs {
		t := fields(o)["times"]
		var ends, starts []int
		for _, tok := range strings.Fields(t) {
			var v int
			k, at, ok := strings.Cut(tok, "@")
			if !ok {
				continue
			}
			fmt.Sscanf(at, "%d", &v)
			if strings.HasPrefix(k, "s") {
				starts = append(starts, v)
			} else {
				ends = append(ends, v)
			}
		}
		for i := 1; i < len(starts); i++ {
			prev := starts[i-1]
			if i-1 < len(ends) {
				prev = ends[i-1]
			}
			lag := starts[i] - prev
			if v, ok := lo[i]; !ok || lag < v {
				lo[i] = lag
			}
			if v, ok := hi[i]; !ok || lag > v {
				hi[i] = lag
			}
		}
	}
	sp := 0
	for i := range lo {
		if d := hi[i] - lo[i]; d > sp {
			sp = d
		}
	}
	return sp
}

func nz(v []int) int {
	n := 0
	for _, c := range v {
		if c != 0 {
			n++
		}
	}
	return n
}

func contains(l []string, s string) bool {
	for _, x := range l {
		if x == s {
			return true
		}
	}
	return false
}

// replayPair re-executes the two recorded schedules and compares the outcomes.
func replayPair(r *harness.Run, scs []e3drive.Scenario, sig string, c replayCase) {
	for i := range scs {
		sc := &scs[i]
		if sc.Sc.Name != c.Scenario {
			continue
		}
		var outs [2]string
		for k, vec := range [][]int{c.ChoicesA, c.ChoicesB} {
			fmt.Printf("=== schedule %c: choice vector %v\n", 'A'+k, vec)
			x, v, infra, out := e3drive.Execute(sc, 1<<30, vec, true, nil)
			for _, l := range x.Trace {
				if strings.Contains(l, "PREEMPTED") || strings.Contains(l, "BLOCKS") || strings.Contains(l, "   -> T") || strings.Contains(l, "FINISHED") || strings.Contains(l, " go ") {
					fmt.Println("  ", l)
				}
			}
			if infra != "" {
				fmt.Println("INFRASTRUCTURE ERROR:", infra)
				os.Exit(2)
			}
			if v != nil {
				fmt.Printf("VIOLATION property=%s replay=%s\n  signature: %s\n  %s\n", r.ID, r.Replay, v.Sig, v.Msg)
				os.Exit(1)
			}
			fmt.Printf("  outcome %c: %s\n", 'A'+k, out)
			outs[k] = out
		}
		if outs[0] != outs[1] {
			fmt.Printf("VIOLATION property=%s replay=%s\n  signature: %s\n  the two schedules give different observables: %v\n", r.ID, r.Replay, sig, differing(outs[:]))
			os.Exit(1)
		}
		fmt.Println("replay: identical outcomes")
		os.Exit(0)
	}
	fmt.Fprintln(os.Stderr, "scenario not found:", c.Scenario)
	os.Exit(2)
}
