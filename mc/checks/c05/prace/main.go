// C05, parallel-engine pass (SUPPLEMENTARY, sampling): the clause "with the
// parallel engine the functional results remain identical". Shipped workloads
// run on the real timing platform built with akita's ParallelEngine (what the
// runner's -parallel does), free, in this binary built with -race; every data
// race the detector reports becomes a signature, and the final device memory
// is compared with a serial-engine run (platlat.RunC05Prace). Plain modfile,
// `go build -race`; the workers re-exec this binary. Runs as a sub-part of the
// C05 check (evidence/parts/C05.prace.json).
package main

import (
	"verif/mc/harness"
	"verif/mc/platlat"
)

func main() {
	platlat.MaybeWorker()
	r := harness.StartPart("C05", "prace", "model_checking")
	platlat.RunC05Prace(r)
	r.Finish()
}
