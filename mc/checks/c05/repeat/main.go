// C05, platform repeat-run part (SUPPLEMENTARY, sampling): every shipped
// workload at its smallest size on the real emulation and timing platforms,
// each case in 3 separate worker processes with GOMAXPROCS 1, 3 and 16; final
// device memory, executed instructions and work-group placement, simulated
// command durations, counters and absolute simulated times are compared across
// the runs (platlat.RunC05Repeat). Plain build (the workers re-exec this
// binary); runs as a sub-part of the C05 check (evidence/parts/C05.repeat.json).
package main

import (
	"verif/mc/harness"
	"verif/mc/platlat"
)

func main() {
	platlat.MaybeWorker()
	r := harness.StartPart("C05", "repeat", "model_checking")
	platlat.RunC05Repeat(r)
	r.Finish()
}
