#!/bin/bash
# build.sh <repo-dir> <output-binary>: same E3 build as C12 (instrumented driver overlay +
# instrumented akita copy), other main package. c12/build.sh (step 9) also builds the platform
# repeat-run part ./checks/c05/repeat as <output-binary>-repeat with the PLAIN modfile, and (step 10) the
# parallel-engine pass ./checks/c05/prace as <output-binary>-prace (plain modfile, go build -race).
exec "$(dirname "$0")/../c12/build.sh" "$1" "$2" ./checks/c05
