#!/bin/bash
# build.sh <repo-dir> <output-binary>: same E3 build as C12 (instrumented driver overlay +
# instrumented akita copy), other main package.
exec "$(dirname "$0")/../c12/build.sh" "$1" "$2" ./checks/c05
