// C14: barriers, wait counts and wavefront termination order execution correctly.
// The real timing cu.ComputeUnit (scheduler, arbiters, scoreboard on/off, LDS,
// scalar and vector memory units) runs hand-assembled GCN3 kernels; the
// environment plays dispatcher and memories and the explorer owns memory
// latencies and back-pressure on the completion port. The real emulation CU
// runs the same kernels as a second implementation of the same rules.
package main

import (
	"bytes"
	"encoding/binary"
	"flag"
	"fmt"
	"os"
	"regexp"
	"strconv"
	"strings"
	"sync"

	"verif/mc/cuworld"
	"verif/mc/explore"
	"verif/mc/harness"
)

// expected computes the data region the kernel must leave behind (host reference).
func expected(name string, k *cuworld.Kernel, g cuworld.Geometry) []byte {
	m := cuworld.InitialMemory(k, g)
	le := binary.LittleEndian
	S := g.WGSize
	n := S * g.NumWG
	in := func(i int) uint32 { return uint32(1000 + 3*i) }
	in2 := func(i int) uint32 { return uint32(7*i + 5) }
	for gid := 0; gid < n; gid++ {
		l := gid % S
		nb := (l + 64) & (S - 1)
		out := func(v uint32) { le.PutUint32(m[cuworld.Out+4*gid:], v) }
		switch name {
		case "k1_lds_barrier":
			out(uint32(nb))
		case "k2_global_barrier":
			out(uint32(nb))
			le.PutUint32(m[cuworld.Tmp+4*gid:], uint32(l))
		case "k3_two_barriers":
			out(uint32((nb+64)&(S-1)) + 1)
		case "k4_waitcnt_vm":
			out(in(gid))
			le.PutUint32(m[cuworld.Out2+4*gid:], in2(gid))
		case "k5_waitcnt_lgkm":
			out(in(1) + in(2) + uint32(l))
		case "k6_early_exit_before_barrier":
			if l >= 64 {
				if nb < 64 {
					out(0) // slot of the wavefront that left early: LDS is zero-initialised
				} else {
					out(uint32(nb))
				}
			}
		case "k7_late_exit_without_barrier":
			if l < 64 {
				out(in(gid) + 3)
			} else if nb < 64 {
				out(0)
			} else {
				out(uint32(nb))
			}
		case "k8_store_then_endpgm":
			out(uint32(l) + 9)
		case "k19_barrier_release_while_neighbour_groups_issue_nops":
			out(uint32(l) + 9)
		case "k17_fully_masked_load_and_store_then_real_load":
			out(in(gid) + 5)
		case "k18_cold_load_then_warm_store_wait_vmcnt1":
			out(in(gid) + 3)
			le.PutUint32(m[cuworld.Out2+4*gid:], uint32(l))
		case "k9_exit_with_pending_store_while_others_wait":
			if l < 64 {
				out(uint32(l) + 9)
			} else if nb < 64 {
				out(0)
			} else {
				out(uint32(nb))
			}
		case "k10_many_scalar_loads":
			out(in(1) + in(2) + in(3) + in(4) + in(5) + in(6) + uint32(l))
		case "k11_many_stores":
			out(uint32(l) + 3)
			le.PutUint32(m[cuworld.Tmp+4*gid:], uint32(l)+2)
			le.PutUint32(m[cuworld.Out2+4*gid:], uint32(l)+3)
		case "k16_vcc_pair_then_vcc_halves":
			out((uint32(0x44444444) ^ 0x22222222 ^ 0x44444444) + 0x08080808 + uint32(l))
		case "k15_uncoalesced_64_lines_per_load":
			out(in((l % 64) * 16))
		case "k14_unawaited_scalar_load_into_wg_id_register":
			if gid >= S {
				out(uint32(l) + 9)
			}
		case "k13_gather_sparse_then_dense_line":
			lane := l % 64
			off := lane * 64
			if lane >= 32 {
				off = 0x780 + lane*4
			}
			out(in(off / 4))
		case "k12_register_signature_survives_neighbour_exit":
			if l >= 64 {
				wf := uint32(l / 64)
				sx := (wf + 0x1100) ^ (wf + 0x2200) ^ (wf + 0x3300) ^ (wf + 0x4400) ^ (wf + 0x5500) ^ (wf + 0x6600) ^ (wf + 0x7700) ^ (wf + 0x8800)
				out(8*uint32(l) + 0x10 + 0x20 + 0x30 + 0x40 + 0x50 + 0x60 + 0x70 + 0x80 + sx + in(gid))
			}
		default:
			panic("no reference for " + name)
		}
	}
	return m[:cuworld.Code]
}

var waitRe = regexp.MustCompile(`(vmcnt|lgkmcnt)\((\d+)\)`)

func isVMem(n string) bool { return strings.HasPrefix(n, "flat_") }
func isLGKM(n string) bool {
	return strings.HasPrefix(n, "s_load") || strings.HasPrefix(n, "ds_") || strings.HasPrefix(n, "flat_")
}

// checkTrace applies the ordering rules of the property to the instruction issue/completion trace.
func checkTrace(k *cuworld.Kernel, g cuworld.Geometry, r *cuworld.Result) *explore.Violation {
	asm := map[uint64]string{}
	for _, in := range k.Insts {
		asm[in.PC] = in.Asm
	}
	type rec struct {
		pc         uint64
		name       string
		start, end int
		seq        int
	}
	per := map[[2]int][]*rec{}
	for _, e := range r.Events {
		key := [2]int{e.WG, e.WF}
		if e.Start {
			per[key] = append(per[key], &rec{pc: e.PC, name: e.Name, start: e.Cycle, end: -1, seq: e.Seq})
		} else {
			l := per[key]
			if e.Seq < len(l) {
				l[e.Seq].end = e.Cycle
			}
		}
	}
	wfPerWG := g.WGSize / 64
	for wg := 0; wg < g.NumWG; wg++ {
		// barrier arrival times per wavefront
		arr := make([][]int, wfPerWG)
		for wf := 0; wf < wfPerWG; wf++ {
			for _, x := range per[[2]int{wg, wf}] {
				if x.name == "s_barrier" {
					arr[wf] = append(arr[wf], x.start)
				}
			}
		}
		for wf := 0; wf < wfPerWG; wf++ {
			nb := 0
			for _, x := range per[[2]int{wg, wf}] {
				if x.name == "s_barrier" {
					nb++
					continue
				}
				if nb == 0 {
					continue
				}
				for o := 0; o < wfPerWG; o++ {
					if o == wf || len(arr[o]) < nb {
						continue // the other wavefront never reaches this barrier (it finished first)
					}
					if x.start < arr[o][nb-1] {
						return explore.Viol("instruction-after-barrier-issued-before-all-arrived",
							"%s wg%d: wavefront %d issued %q (pc %x) at cycle %d after its barrier #%d, but wavefront %d reached that barrier only at cycle %d",
							k.Name, wg, wf, x.name, x.pc, x.start, nb, o, arr[o][nb-1])
					}
				}
			}
		}
		for wf := 0; wf < wfPerWG; wf++ {
			l := per[[2]int{wg, wf}]
			for i, x := range l {
				outstanding := func(pred func(string) bool, T int) int {
					n := 0
					for _, y := range l[:i] {
						if pred(y.name) && (y.end < 0 || y.end > T) {
							n++
						}
					}
					return n
				}
				if x.name == "s_waitcnt" && x.end >= 0 {
					for _, m := range waitRe.FindAllStringSubmatch(asm[x.pc], -1) {
						lim, _ := strconv.Atoi(m[2])
						pred := isVMem
						if m[1] == "lgkmcnt" {
							pred = isLGKM
						}
						if n := outstanding(pred, x.end); n > lim {
							return explore.Viol("waitcnt-completed-with-too-many-outstanding/"+m[1],
								"%s wg%d wf%d: %q (pc %x) completed at cycle %d with %d operations outstanding", k.Name, wg, wf, asm[x.pc], x.pc, x.end, n)
						}
					}
				}
				if x.name == "s_endpgm" && x.end >= 0 {
					if n := outstanding(isLGKM, x.end); n > 0 {
						return explore.Viol("wavefront-ended-with-memory-operations-outstanding",
							"%s wg%d wf%d: s_endpgm completed at cycle %d with %d memory instructions outstanding", k.Name, wg, wf, x.end, n)
					}
					if n := r.VecOutstandingAtEnd[[2]int{wg, wf}]; n != 0 {
						return explore.Viol("wavefront-ended-with-memory-transactions-unanswered",
							"%s wg%d wf%d: s_endpgm completed with %d vector memory transactions unanswered", k.Name, wg, wf, n)
					}
				}
			}
		}
		c := r.Completions[wg]
		if len(c) != 1 {
			return explore.Viol("work-group-completion-count", "%s wg%d: %d completion messages", k.Name, wg, len(c))
		}
		for wf := 0; wf < wfPerWG; wf++ {
			l := per[[2]int{wg, wf}]
			if len(l) == 0 || l[len(l)-1].name != "s_endpgm" || l[len(l)-1].end < 0 || l[len(l)-1].end > c[0] {
				return explore.Viol("work-group-completion-before-last-wavefront-ended",
					"%s wg%d: completion reported at cycle %d but wavefront %d has not completed s_endpgm by then", k.Name, wg, c[0], wf)
			}
		}
	}
	return nil
}

type refKey struct {
	k string
	g cuworld.Geometry
}

var (
	refMu sync.Mutex
	refs  = map[refKey]*cuworld.Result{}
)

func emuRef(k *cuworld.Kernel, g cuworld.Geometry) *cuworld.Result {
	refMu.Lock()
	defer refMu.Unlock()
	key := refKey{k.Name, g}
	if r, ok := refs[key]; ok {
		return r
	}
	r := cuworld.RunEmu(k, g)
	refs[key] = r
	return r
}

func firstDiff(a, b []byte) string {
	for i := range a {
		if a[i] != b[i] {
			i &^= 3
			return fmt.Sprintf("dword at %x is %08x want %08x", i, binary.LittleEndian.Uint32(a[i:]), binary.LittleEndian.Uint32(b[i:]))
		}
	}
	return "equal"
}

func region(addr int) string {
	switch {
	case addr >= cuworld.Tmp:
		return "tmp"
	case addr >= cuworld.Out2:
		return "out2"
	case addr >= cuworld.Out:
		return "out"
	}
	return "input"
}

func body(k *cuworld.Kernel, g cuworld.Geometry, o cuworld.TimingOpts) explore.Body {
	want := expected(k.Name, k, g)
	if strings.HasPrefix(k.Name, "k13_") || strings.HasPrefix(k.Name, "k15_") {
		o.NoReadAttribution = true // every wavefront of these kernels reads the same input lines
	}
	return func(x *explore.Exec) *explore.Violation {
		r := cuworld.RunTiming(x, k, g, o)
		if r.Panic != "" {
			p := r.Panic
			if len(p) > 80 {
				p = p[:80]
			}
			return explore.Viol("timing/panic/"+k.Name, "timing CU panicked: %s", p)
		}
		if r.Viol != nil {
			r.Viol.Sig = "timing/" + r.Viol.Sig + "/" + k.Name
			return r.Viol
		}
		if !r.Quiet {
			return nil
		}
		if v := checkTrace(k, g, r); v != nil {
			v.Sig = "timing/" + v.Sig
			return v
		}
		if got := cuworld.DataRegion(r.Mem); !bytes.Equal(got, want) {
			return explore.Viol("timing/wrong-values/"+k.Name, "%s wgsize %d x %d: %s", k.Name, g.WGSize, g.NumWG, firstDiff(got, want))
		}
		x.Steps += len(r.Events)
		var sb strings.Builder
		for wg := 0; wg < g.NumWG; wg++ {
			fmt.Fprintf(&sb, "wg%d@%v ", wg, r.Completions[wg])
		}
		x.Outcome(sb.String())
		return nil
	}
}

func main() {
	// as the part "cu" of check C07 this binary runs the scenarios in which wavefronts of different age share the
	// CU's register files (a neighbour ends early; a kernel with more registers ran before) and reports only what
	// concerns register contents: wrong values, faults, stray memory accesses
	partOf := ""
	for _, a := range os.Args[1:] {
		if strings.HasPrefix(a, "-part-of=") {
			partOf = strings.TrimPrefix(a, "-part-of=")
		}
	}
	flag.String("part-of", "", "run as the part 'cu' of that check (C07)")
	var r *harness.Run
	if partOf != "" {
		r = harness.StartPart(partOf, "cu", "model_checking")
	} else {
		r = harness.Start("C14", "model_checking")
	}
	if r.Replay != "" {
		r.Tier = "thorough" // a replay file may name a scenario of either tier
	}
	ks := cuworld.LoadKernels(harness.Dir())
	names := []string{"k1_lds_barrier", "k2_global_barrier", "k3_two_barriers", "k4_waitcnt_vm", "k5_waitcnt_lgkm", "k6_early_exit_before_barrier", "k7_late_exit_without_barrier", "k8_store_then_endpgm", "k9_exit_with_pending_store_while_others_wait", "k10_many_scalar_loads", "k11_many_stores", "k12_register_signature_survives_neighbour_exit", "k13_gather_sparse_then_dense_line", "k14_unawaited_scalar_load_into_wg_id_register", "k15_uncoalesced_64_lines_per_load", "k16_vcc_pair_then_vcc_halves", "k17_fully_masked_load_and_store_then_real_load", "k18_cold_load_then_warm_store_wait_vmcnt1", "k19_barrier_release_while_neighbour_groups_issue_nops"}

	// --- the emulation CU as a second implementation: values and executed-PC sequences
	type geo = cuworld.Geometry
	geos := []geo{{128, 1}, {256, 1}, {128, 2}}
	if r.Thorough() {
		geos = append(geos, geo{512, 1}, geo{1024, 1}, geo{256, 3})
	}
	emuRuns := 0
	for _, n := range names {
		for _, g := range geos {
			k := ks[n]
			e := emuRef(k, g)
			emuRuns++
			if e.Panic != "" {
				p := e.Panic
				if len(p) > 60 {
					p = p[:60]
				}
				r.Report("emu/panic/"+n+"/"+p, fmt.Sprintf("emulation CU panicked on %s wgsize %d x %d: %s", n, g.WGSize, g.NumWG, e.Panic), map[string]any{"mode": "emu", "kernel": n, "wgsize": g.WGSize, "numwg": g.NumWG})
				continue
			}
			if want := expected(n, k, g); !bytes.Equal(cuworld.DataRegion(e.Mem), want) {
				r.Report("emu/wrong-values/"+n, fmt.Sprintf("%s wgsize %d x %d: %s", n, g.WGSize, g.NumWG, firstDiff(cuworld.DataRegion(e.Mem), want)), map[string]any{"mode": "emu", "kernel": n, "wgsize": g.WGSize, "numwg": g.NumWG})
			}
		}
	}

	var scs []harness.Scenario
	for _, n := range names {
		for gi, g := range geos {
			for _, sb := range []bool{false, true} {
				for _, res := range []int{1, 2} {
					if res == 2 && g.NumWG < 2 {
						continue
					}
					if !r.Thorough() && sb && gi > 0 {
						continue
					}
					bound := 1
					if g.WGSize*g.NumWG <= 128 || r.Thorough() && g.WGSize*g.NumWG <= 256 {
						bound = 2
					}
					if strings.HasPrefix(n, "k15_") && bound > 1 {
						bound = 1 // 64 transactions per wavefront: the choice vector is long
					}
					o := cuworld.TimingOpts{Scoreboard: sb, Resident: res, Delays: []int{9, 60}}
					scs = append(scs, harness.Scenario{
						Name:  fmt.Sprintf("%s/wg%dx%d/scoreboard=%v/resident%d", n, g.WGSize, g.NumWG, sb, res),
						Bound: bound, Body: body(ks[n], g, o)})
				}
			}
		}
	}
	// more than 16 wavefronts waiting at barriers on one CU (the scheduler's barrier buffer holds 16)
	for _, n := range []string{"k1_lds_barrier", "k3_two_barriers", "k6_early_exit_before_barrier", "k7_late_exit_without_barrier"} {
		for _, g := range []geo{{1024, 2}, {512, 3}} {
			if !r.Thorough() && (g.WGSize != 1024 || n == "k1_lds_barrier") {
				continue
			}
			b := 0
			if r.Thorough() {
				b = 1
			}
			o := cuworld.TimingOpts{Scoreboard: false, Resident: g.NumWG, Delays: []int{9, 60}}
			scs = append(scs, harness.Scenario{Name: fmt.Sprintf("%s/wg%dx%d/many-waiting/resident%d", n, g.WGSize, g.NumWG, g.NumWG), Bound: b, Body: body(ks[n], g, o)})
		}
	}
	// sustained back-pressure: a memory that takes one request per N cycles while 16-32 wavefronts issue
	// several accesses each, so that the CU's 32-entry port buffer and the unit's own queue fill up
	for _, sl := range []struct {
		k          string
		g          geo
		s, v, i, b int
	}{
		{"k10_many_scalar_loads", geo{512, 2}, 60, 0, 0, 1},
		{"k5_waitcnt_lgkm", geo{1024, 2}, 60, 0, 0, 0},
		{"k11_many_stores", geo{512, 2}, 0, 40, 0, 1},
		{"k4_waitcnt_vm", geo{512, 2}, 0, 40, 0, 0},
		{"k2_global_barrier", geo{256, 2}, 0, 25, 0, 0},
		{"k10_many_scalar_loads", geo{256, 2}, 25, 25, 12, 0},
		// more than 512 vector transactions in flight: 16 wavefronts x 64 lines each against a slow memory
		{"k15_uncoalesced_64_lines_per_load", geo{512, 2}, 0, 20, 0, 0},
		{"k15_uncoalesced_64_lines_per_load", geo{1024, 1}, 0, 8, 0, 0},
		{"k3_two_barriers", geo{256, 2}, 0, 0, 12, 0},
	} {
		b := sl.b
		if !r.Thorough() && b > 0 {
			b = 0
		}
		o := cuworld.TimingOpts{Resident: sl.g.NumWG, Delays: []int{9, 60}, SlowScalar: sl.s, SlowVector: sl.v, SlowInst: sl.i, Horizon: 60000}
		scs = append(scs, harness.Scenario{Name: fmt.Sprintf("%s/wg%dx%d/slow-memory(s%d,v%d,i%d)/resident%d", sl.k, sl.g.WGSize, sl.g.NumWG, sl.s, sl.v, sl.i, sl.g.NumWG), Bound: b, Body: body(ks[sl.k], sl.g, o)})
	}
	// the mi300a platform's compute-unit parameters (timing parameters may change time only): every kernel once,
	// the memory-ordering kernels also under the explorer
	for _, n := range names {
		for _, g := range []geo{{128, 1}, {128, 2}} {
			b := 0
			if (strings.HasPrefix(n, "k4_") || strings.HasPrefix(n, "k13_")) && g.NumWG == 1 || r.Thorough() {
				b = 1
			}
			o := cuworld.TimingOpts{Scoreboard: true, Resident: g.NumWG, Delays: []int{9, 60}, MI300AKnobs: true}
			scs = append(scs, harness.Scenario{Name: fmt.Sprintf("%s/wg%dx%d/mi300a-knobs/resident%d", n, g.WGSize, g.NumWG, g.NumWG), Bound: b, Body: body(ks[n], g, o)})
		}
	}
	for _, g := range []geo{{64, 1}, {128, 1}} {
		o := cuworld.TimingOpts{Resident: 1, Delays: []int{9, 60}, CoalescingPenalty: 3}
		scs = append(scs, harness.Scenario{Name: fmt.Sprintf("k13_gather_sparse_then_dense_line/wg%dx%d/coalescing-penalty3/resident1", g.WGSize, g.NumWG), Bound: 2, Body: body(ks["k13_gather_sparse_then_dense_line"], g, o)})
	}
	// launch history with a whole kernel: another kernel ran to completion on the same CU before (state a CU
	// keeps across kernels: pools, caches, scratch buffers, LDS, cursors)
	befores := []struct {
		k string
		g geo
	}{{"k1_lds_barrier", geo{128, 1}}, {"k11_many_stores", geo{64, 2}}, {"k10_many_scalar_loads", geo{128, 1}}, {"k7_late_exit_without_barrier", geo{256, 1}}}
	for ni, n := range names {
		for bi, bf := range befores {
			if !r.Thorough() && bi != ni%len(befores) {
				continue
			}
			g := geo{128, 1}
			if ni%2 == 1 {
				g = geo{128, 2}
			}
			b := 0
			if r.Thorough() {
				b = 1
			}
			o := cuworld.TimingOpts{Resident: g.NumWG, Delays: []int{9, 60}, Before: ks[bf.k], BeforeGeo: bf.g, Horizon: 20000}
			scs = append(scs, harness.Scenario{Name: fmt.Sprintf("%s/wg%dx%d/after-kernel-%s/resident%d", n, g.WGSize, g.NumWG, bf.k, g.NumWG), Bound: b, Body: body(ks[n], g, o)})
		}
	}
	// the mi300a parameters (8-wide transaction pipeline) against a slow vector memory
	for _, n := range []string{"k4_waitcnt_vm", "k11_many_stores", "k13_gather_sparse_then_dense_line", "k15_uncoalesced_64_lines_per_load", "k8_store_then_endpgm"} {
		g := geo{256, 2}
		o := cuworld.TimingOpts{Scoreboard: true, Resident: 2, Delays: []int{9, 60}, MI300AKnobs: true, SlowVector: 12, Horizon: 60000}
		scs = append(scs, harness.Scenario{Name: fmt.Sprintf("%s/wg%dx%d/mi300a-knobs+slow-memory(v12)/resident2", n, g.WGSize, g.NumWG), Bound: 0, Body: body(ks[n], g, o)})
	}
	for _, wd := range []int{2, 8} {
		g := geo{256, 2}
		o := cuworld.TimingOpts{Resident: 2, Delays: []int{9, 60}, TransPipelineWidth: wd, SlowVector: 12, Horizon: 60000}
		scs = append(scs, harness.Scenario{Name: fmt.Sprintf("k15_uncoalesced_64_lines_per_load/wg256x2/trans-pipeline-width%d+slow-memory(v12)/resident2", wd), Bound: 0, Body: body(ks["k15_uncoalesced_64_lines_per_load"], g, o)})
	}
	// a dispatcher that is slow to take completions: many small work-groups finish while the CU's 4-entry port
	// towards it is full
	for _, sl := range []struct {
		k   string
		g   geo
		res int
	}{{"k8_store_then_endpgm", geo{64, 12}, 8}, {"k8_store_then_endpgm", geo{64, 16}, 4}, {"k1_lds_barrier", geo{128, 10}, 5}, {"k4_waitcnt_vm", geo{64, 10}, 10}} {
		o := cuworld.TimingOpts{Resident: sl.res, Delays: []int{9, 60}, SlowACE: 400, Horizon: 60000}
		b := 0
		if r.Thorough() {
			b = 1
		}
		scs = append(scs, harness.Scenario{Name: fmt.Sprintf("%s/wg%dx%d/slow-dispatcher/resident%d", sl.k, sl.g.WGSize, sl.g.NumWG, sl.res), Bound: b, Body: body(ks[sl.k], sl.g, o)})
	}
	// launch history: a kernel that declared many more registers ran on the CU before (state kept across kernels)
	for _, n := range []string{"k1_lds_barrier", "k6_early_exit_before_barrier", "k7_late_exit_without_barrier", "k9_exit_with_pending_store_while_others_wait", "k4_waitcnt_vm", "k12_register_signature_survives_neighbour_exit"} {
		for _, g := range []geo{{128, 1}, {256, 1}, {128, 2}} {
			o := cuworld.TimingOpts{Resident: g.NumWG, Delays: []int{9, 60}, WarmSGPRs: 102, WarmVGPRs: 96}
			b := 0
			if r.Thorough() || g.WGSize == 128 && g.NumWG == 1 {
				b = 1
			}
			scs = append(scs, harness.Scenario{Name: fmt.Sprintf("%s/wg%dx%d/after-larger-kernel/resident%d", n, g.WGSize, g.NumWG, g.NumWG), Bound: b, Body: body(ks[n], g, o)})
		}
	}
	r.Assume = []string{
		"memory answers arrive in request order on each of the three memory paths (the shader array places a reorder buffer on each; that is property C15); latencies are explored",
		"1-D work-groups whose size is a power of two and a multiple of 64",
		"instruction issue/completion times are the CU's own 'inst' tracing tasks; values and port traffic are observed independently",
		"kernels are race-free (communication only across barriers)",
	}
	if only := os.Getenv("C14_ONLY"); only != "" { // development aid: restrict to matching scenarios
		var f []harness.Scenario
		for _, sc := range scs {
			if strings.Contains(sc.Name, only) {
				sc.Bound, _ = strconv.Atoi(os.Getenv("C14_BOUND"))
				f = append(f, sc)
			}
		}
		scs = f
	}
	if partOf != "" {
		var f []harness.Scenario
		for _, sc := range scs {
			early := strings.Contains(sc.Name, "k6_") || strings.Contains(sc.Name, "k7_") || strings.Contains(sc.Name, "k9_") || strings.Contains(sc.Name, "k12_") || strings.Contains(sc.Name, "k14_") || strings.Contains(sc.Name, "k16_")
			if !(strings.Contains(sc.Name, "after-larger-kernel") || early && !strings.Contains(sc.Name, "many-waiting") && !strings.Contains(sc.Name, "slow-memory")) && r.Replay == "" {
				continue
			}
			inner := sc.Body
			sc.Body = func(x *explore.Exec) *explore.Violation {
				v := inner(x)
				if v != nil && (strings.HasPrefix(v.Sig, "timing/wrong-values/") || strings.HasPrefix(v.Sig, "timing/panic/") || strings.Contains(v.Sig, "memory-access-out-of-range")) {
					return v
				}
				return nil
			}
			if sc.Bound > 1 {
				sc.Bound = 1
			}
			f = append(f, sc)
		}
		scs = f
		r.Assume = append(r.Assume, "part cu: register contents are observed through the values the kernels store (every surviving wavefront's result depends on its own scalar and vector registers written before its neighbour ended)")
	}
	r.Quiet = true
	r.Cov["emu_reference_runs"] = emuRuns
	r.RunScenarios(scs)
	r.Finish()
}
