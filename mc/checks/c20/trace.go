package main

// Independent model and WRITER of Accel-Sim style trace directories
// (kernelslist.g + kernel-N.traceg), written from the format comment in
// reader.go and the sample under nvidia/data/simple-trace-example. Nothing in
// this file uses the tracereader package.

import (
	"fmt"
	"os"
	"path/filepath"
	"strings"
)

// Inst is one trace line:
// PC mask dest_num [reg_dests] opcode src_num [reg_srcs] mem_width [address_compress base [suffix...]] immediate
type Inst struct {
	PC       int32    `json:"pc"`
	Mask     int64    `json:"mask"`
	Dest     []string `json:"dest,omitempty"`
	Op       string   `json:"op"`
	Src      []string `json:"src,omitempty"`
	MemWidth int32    `json:"w,omitempty"`
	Compress int32    `json:"c,omitempty"`  // 0 list of addresses, 1 base+stride, 2 base+deltas
	Addr     int64    `json:"a,omitempty"`  // first / base address
	More     []int64  `json:"more,omitempty"` // mode 0: further addresses (the parsed structure has no field for them)
	Stride   int32    `json:"s,omitempty"`  // mode 1
	Deltas   []int32  `json:"d,omitempty"`  // mode 2
	Imm      int64    `json:"imm,omitempty"`
}

type Warp struct {
	ID    int32  `json:"id"`
	Insts []Inst `json:"insts"`
}

type Block struct {
	ID    [3]int32 `json:"id"`
	Warps []Warp   `json:"warps"`
}

type Header struct {
	Name     string   `json:"name"`
	ID       int32    `json:"id"`
	Grid     [3]int32 `json:"grid"`
	BlockDim [3]int32 `json:"block"`
	Shmem    int32    `json:"shmem"`
	Nregs    int32    `json:"nregs"`
	BinVer   int32    `json:"binver"`
	Stream   int32    `json:"stream"`
	ShmemBase int64   `json:"shmem_base"`
	LocalBase int64   `json:"local_base"`
	Nvbit    string   `json:"nvbit"`
	Tracer   string   `json:"tracer"`
	LineInfo bool     `json:"lineinfo"`
}

type Kernel struct {
	Header Header  `json:"header"`
	Blocks []Block `json:"blocks"`
}

type Memcpy struct {
	Dir  string `json:"dir"` // MemcpyHtoD | MemcpyDtoH
	Addr uint64 `json:"addr"`
	Len  uint64 `json:"len"`
}

// Exec is one line of kernelslist.g.
type Exec struct {
	Kernel int     `json:"kernel"` // index into Kernels, -1 for a memcpy
	Memcpy *Memcpy `json:"memcpy,omitempty"`
}

type Trace struct {
	Execs   []Exec   `json:"execs"`
	Kernels []Kernel `json:"kernels"`
	Style   int      `json:"style"` // 0: layout of the sample (markers, blank lines); 1: compact, no blank lines; 2: compact without any frame line
}

func (t *Trace) counts() (kernels, blocks, warps, insts int) {
	for _, e := range t.Execs {
		if e.Kernel < 0 {
			continue
		}
		kernels++
		for _, b := range t.Kernels[e.Kernel].Blocks {
			blocks++
			for _, w := range b.Warps {
				warps++
				insts += len(w.Insts)
			}
		}
	}
	return
}

// degeneracy names what the trace contains that real launches cannot: a
// kernel without blocks, a block without warps, a warp without instructions.
func (t *Trace) degeneracy() string {
	var ek, eb, ew bool
	for _, e := range t.Execs {
		if e.Kernel < 0 {
			continue
		}
		k := t.Kernels[e.Kernel]
		if len(k.Blocks) == 0 {
			ek = true
		}
		for _, b := range k.Blocks {
			if len(b.Warps) == 0 {
				eb = true
			}
			for _, w := range b.Warps {
				if len(w.Insts) == 0 {
					ew = true
				}
			}
		}
	}
	var p []string
	if ek {
		p = append(p, "kernel-without-blocks")
	}
	if eb {
		p = append(p, "block-without-warps")
	}
	if ew {
		p = append(p, "warp-without-instructions")
	}
	if len(p) == 0 {
		return ""
	}
	return strings.Join(p, "+")
}

func kernelFileName(i int) string { return fmt.Sprintf("kernel-%d.traceg", i+1) }

func (in Inst) line() string {
	var b strings.Builder
	fmt.Fprintf(&b, "%04x %08x %d ", uint32(in.PC), uint64(in.Mask), len(in.Dest))
	for _, r := range in.Dest {
		b.WriteString(r + " ")
	}
	fmt.Fprintf(&b, "%s %d ", in.Op, len(in.Src))
	for _, r := range in.Src {
		b.WriteString(r + " ")
	}
	fmt.Fprintf(&b, "%d ", in.MemWidth)
	if in.MemWidth != 0 {
		fmt.Fprintf(&b, "%d 0x%x ", in.Compress, uint64(in.Addr))
		switch in.Compress {
		case 0:
			for _, a := range in.More {
				fmt.Fprintf(&b, "0x%x ", uint64(a))
			}
		case 1:
			fmt.Fprintf(&b, "%d ", in.Stride)
		case 2:
			for _, d := range in.Deltas {
				fmt.Fprintf(&b, "%d ", d)
			}
		}
	}
	fmt.Fprintf(&b, "%d ", in.Imm)
	return b.String()
}

func (k Kernel) text(style int) string {
	var b strings.Builder
	h := k.Header
	li := 0
	if h.LineInfo {
		li = 1
	}
	fmt.Fprintf(&b, "-kernel name = %s\n-kernel id = %d\n-grid dim = (%d,%d,%d)\n-block dim = (%d,%d,%d)\n-shmem = %d\n-nregs = %d\n-binary version = %d\n-cuda stream id = %d\n-shmem base_addr = 0x%016x\n-local mem base_addr = 0x%016x\n-nvbit version = %s\n-accelsim tracer version = %s\n-enable lineinfo = %d\n",
		h.Name, h.ID, h.Grid[0], h.Grid[1], h.Grid[2], h.BlockDim[0], h.BlockDim[1], h.BlockDim[2], h.Shmem, h.Nregs, h.BinVer, h.Stream,
		uint64(h.ShmemBase), uint64(h.LocalBase), h.Nvbit, h.Tracer, li)
	nl := "\n"
	if style >= 1 {
		nl = ""
	}
	// style 2: no frame lines at all (the reader finds sections by their "thread block" / "warp" / "insts" lines, so a
	// "thread block" line may directly follow the header or the previous block's last instruction)
	frames := style != 2
	if frames {
		b.WriteString(nl + "#traces format = [line_num] PC mask dest_num [reg_dests] opcode src_num [reg_srcs] mem_width [adrrescompress?] [mem_addresses] immediate\n" + nl + nl)
	}
	for _, blk := range k.Blocks {
		if frames {
			b.WriteString(nl + "#BEGIN_TB\n" + nl)
		}
		fmt.Fprintf(&b, "thread block = %d,%d,%d\n", blk.ID[0], blk.ID[1], blk.ID[2])
		for _, w := range blk.Warps {
			fmt.Fprintf(&b, "%swarp = %d\ninsts = %d\n", nl, w.ID, len(w.Insts))
			for _, in := range w.Insts {
				b.WriteString(in.line() + "\n")
			}
		}
		if frames {
			b.WriteString(nl + "#END_TB\n")
		}
	}
	return b.String()
}

// Write serialises the trace into dir.
func (t *Trace) Write(dir string) error {
	if err := os.MkdirAll(dir, 0o755); err != nil {
		return err
	}
	var l strings.Builder
	for _, e := range t.Execs {
		if e.Kernel < 0 {
			fmt.Fprintf(&l, "%s,0x%016x,%d\n", e.Memcpy.Dir, e.Memcpy.Addr, e.Memcpy.Len)
		} else {
			l.WriteString(kernelFileName(e.Kernel) + "\n")
		}
	}
	if err := os.WriteFile(filepath.Join(dir, "kernelslist.g"), []byte(l.String()), 0o644); err != nil {
		return err
	}
	for i, k := range t.Kernels {
		if err := os.WriteFile(filepath.Join(dir, kernelFileName(i)), []byte(k.text(t.Style)), 0o644); err != nil {
			return err
		}
	}
	return nil
}
