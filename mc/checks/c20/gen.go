package main

// Enumeration of traces and platform shapes (deterministic; workers rebuild
// the same list and address cases by index).

import "fmt"

// Shape is a platform configuration.
type Shape struct {
	Devices  int   `json:"devices"`
	SMs      int   `json:"sms"`
	Subcores int   `json:"subcores"`
	FreqHz   int64 `json:"freq_hz"`
}

func (s Shape) String() string {
	return fmt.Sprintf("%dx%dx%d@%dHz", s.Devices, s.SMs, s.Subcores, s.FreqHz)
}

func shapes(thorough bool) []Shape {
	freqs := []int64{1} // nvidia.go and the repository's tests run the platform at 1 Hz
	if thorough {
		freqs = append(freqs, 1_000_000_000)
	}
	var out []Shape
	for _, f := range freqs {
		for _, d := range []int{1, 2} {
			for _, s := range []int{1, 2, 3} {
				for _, c := range []int{1, 2, 4} {
					out = append(out, Shape{d, s, c, f})
				}
			}
		}
		// more devices than the driver's 4-entry device port holds messages
		for _, d := range []int{5, 8} {
			out = append(out, Shape{d, 1, 1, f}, Shape{d, 2, 2, f})
		}
		// more sub-cores than a port buffer holds messages (the SM-to-sub-core port has 4 entries)
		for _, s := range []int{1, 2} {
			for _, c := range []int{5, 8} {
				out = append(out, Shape{1, s, c, f})
			}
		}
	}
	return out
}

// Case is one trace; Simulate says whether it is also run on every shape.
type Case struct {
	Family   string `json:"family"`
	Trace    Trace  `json:"trace"`
	Simulate bool   `json:"simulate"`
	Dir      string `json:"dir,omitempty"` // shipped trace directory (relative to the repository): simulated only
}

// ---- instruction-line forms

var knownRegs = []string{"R0", "R1", "R31", "R255"}

// deltas31 is a mode-2 suffix list for a full warp.
func deltas31() []int32 {
	d := make([]int32, 31)
	for i := range d {
		d[i] = int32(4 * (i%5 - 2))
	}
	return d
}

type memForm struct {
	name string
	set  func(in *Inst)
}

func memForms() []memForm {
	return []memForm{
		{"nomem", func(in *Inst) {}},
		{"list-1", func(in *Inst) { in.MemWidth, in.Compress, in.Addr, in.Mask = 4, 0, 0x7fb0fc430e00, 1 }},
		{"list-3", func(in *Inst) {
			in.MemWidth, in.Compress, in.Addr, in.Mask = 8, 0, 0x7fb0fc430e00, 7
			in.More = []int64{0x7fb0fc430e08, 0x7fb0fc430e10}
		}},
		// every address listed AND a non-zero immediate behind the list (seed C20-9: the immediate was read at the
		// position of the second address)
		{"list-2-imm", func(in *Inst) {
			in.MemWidth, in.Compress, in.Addr, in.Mask, in.Imm = 4, 0, 0x7fb0fc430e00, 3, 15
			in.More = []int64{0x7fb0fc430e04}
		}},
		{"list-4-imm", func(in *Inst) {
			in.MemWidth, in.Compress, in.Addr, in.Mask, in.Imm = 4, 0, 0x7fb0fc430e00, 15, -3
			in.More = []int64{0x7fb0fc430e04, 0x10, 0x7fb0fc430e0c}
		}},
		{"base-stride-imm", func(in *Inst) { in.MemWidth, in.Compress, in.Addr, in.Stride, in.Imm = 4, 1, 0x7fb0fc400080, 4, 9 }},
		{"base-delta-imm", func(in *Inst) { in.MemWidth, in.Compress, in.Addr, in.Mask, in.Imm = 16, 2, 0x7fb0fc461c00, 3, 11; in.Deltas = []int32{-4} }},
		{"base-stride", func(in *Inst) { in.MemWidth, in.Compress, in.Addr, in.Stride = 4, 1, 0x7fb0fc400080, 4 }},
		{"base-delta-0", func(in *Inst) { in.MemWidth, in.Compress, in.Addr, in.Mask = 4, 2, 0x7fb0fc461c00, 1; in.Deltas = []int32{} }},
		{"base-delta-1", func(in *Inst) { in.MemWidth, in.Compress, in.Addr, in.Mask = 16, 2, 0x7fb0fc461c00, 3; in.Deltas = []int32{-4} }},
		{"base-delta-31", func(in *Inst) { in.MemWidth, in.Compress, in.Addr = 4, 2, 0x7fb0fc461c00; in.Deltas = deltas31() }},
	}
}

var opcodes = []string{"MOV", "IMAD.MOV.U32", "LDG.E", "ISETP.GE.AND", "EXIT"}

// forms are all structural line forms with registers the reader knows.
func forms() []Inst {
	var out []Inst
	n := 0
	for nd := 0; nd <= 2; nd++ {
		for ns := 0; ns <= 2; ns++ {
			for _, mf := range memForms() {
				in := Inst{PC: int32(0x10 * n), Mask: 0xffffffff, Op: opcodes[n%len(opcodes)]}
				for i := 0; i < nd; i++ {
					in.Dest = append(in.Dest, knownRegs[(n+i)%len(knownRegs)])
				}
				for i := 0; i < ns; i++ {
					in.Src = append(in.Src, knownRegs[(n+i+1)%len(knownRegs)])
				}
				mf.set(&in)
				out = append(out, in)
				n++
			}
		}
	}
	return out
}

// valueVariants are boundary values of every field, one factor at a time.
func valueVariants() []Inst {
	base := func() Inst {
		return Inst{PC: 0xa0, Mask: 0xffffffff, Dest: []string{"R4"}, Op: "LDG.E", Src: []string{"R4"}, MemWidth: 4, Compress: 1, Addr: 0x7fb0fc430e00, Stride: 4}
	}
	var out []Inst
	add := func(f func(in *Inst)) {
		in := base()
		f(&in)
		out = append(out, in)
	}
	for _, v := range []int32{0, 0x10, 0xfff0, 0x7ffffff0} {
		add(func(in *Inst) { in.PC = v })
	}
	for _, v := range []int64{0, 1, 0x80000000, 0xffffffff} {
		add(func(in *Inst) { in.Mask = v })
	}
	for _, v := range []int32{1, 2, 4, 8, 16} {
		add(func(in *Inst) { in.MemWidth = v })
	}
	for _, v := range []int64{0, 0x10, 0x7fb0fc430e00, 0x7fffffffffffffff} {
		add(func(in *Inst) { in.Addr = v })
		add(func(in *Inst) { in.Addr, in.Compress, in.Stride = v, 0, 0 })
		add(func(in *Inst) { in.Addr, in.Compress, in.Stride, in.Deltas = v, 2, 0, []int32{4, 8} })
	}
	for _, v := range []int32{0, 4, -4, 2147483647, -2147483648} {
		add(func(in *Inst) { in.Stride = v })
		add(func(in *Inst) { in.Compress, in.Stride, in.Deltas = 2, 0, []int32{v, 0, v} })
	}
	for _, v := range []int64{0, 1, -1, 2147483647, -2147483648} {
		add(func(in *Inst) { in.Imm = v })
		add(func(in *Inst) { in.Imm, in.MemWidth, in.Compress, in.Addr, in.Stride = v, 0, 0, 0, 0 })
	}
	for _, op := range opcodes {
		add(func(in *Inst) { in.Op = op })
	}
	return out
}

// allRegs is the register alphabet of the parser family (R0..R254 are
// architectural registers, R255 is RZ).
var allRegs = []string{"R0", "R1", "R31", "R32", "R254", "R255"}

func defHeader(variant int, nblocks int) Header {
	h := Header{Name: "_Z9vectorAddPKfS0_Pfi", ID: 1, Grid: [3]int32{int32(nblocks), 1, 1}, BlockDim: [3]int32{256, 1, 1}, Shmem: 0, Nregs: 12,
		BinVer: 80, Stream: 0, ShmemBase: 0x00007fb139000000, LocalBase: 0x00007fb137000000, Nvbit: "1.7", Tracer: "5"}
	if variant == 1 {
		h = Header{Name: "k", ID: 2147483647, Grid: [3]int32{1, int32(nblocks), 1}, BlockDim: [3]int32{32, 4, 2}, Shmem: 49152, Nregs: 255,
			BinVer: 90, Stream: 7, ShmemBase: 0x7fffffffffffffff, LocalBase: 0, Nvbit: "1.5.5", Tracer: "4", LineInfo: true}
	}
	return h
}

// builder turns a shape description (per kernel: per block: per warp: instruction count) into a trace.
type builder struct {
	forms []Inst
	next  int
}

func (b *builder) trace(shape [][][]int, variant int) Trace {
	t := Trace{Style: variant % 3}
	for ki, blocks := range shape {
		k := Kernel{Header: defHeader((variant+ki)%2, len(blocks))}
		k.Header.ID += int32(ki) * int32(1-(variant+ki)%2)
		for bi, warps := range blocks {
			blk := Block{ID: [3]int32{int32(bi), 0, 0}}
			if variant%2 == 1 {
				blk.ID = [3]int32{int32(bi % 2), int32(bi / 2), 1}
			}
			for wi, n := range warps {
				w := Warp{ID: int32(wi)}
				if variant%2 == 1 {
					w.ID = int32(3*wi + 1)
				}
				for j := 0; j < n; j++ {
					in := b.forms[b.next%len(b.forms)]
					b.next++
					in.PC = int32(0x10 * j)
					w.Insts = append(w.Insts, in)
				}
				blk.Warps = append(blk.Warps, w)
			}
			k.Blocks = append(k.Blocks, blk)
		}
		t.Kernels = append(t.Kernels, k)
	}
	// kernelslist.g: memcpy lines around the kernels, as in the sample
	if variant%3 != 2 {
		t.Execs = append(t.Execs, Exec{Kernel: -1, Memcpy: &Memcpy{"MemcpyHtoD", 0x00007fb0fc400000, 200000}})
	}
	for ki := range t.Kernels {
		t.Execs = append(t.Execs, Exec{Kernel: ki})
		if variant%3 == 1 {
			t.Execs = append(t.Execs, Exec{Kernel: -1, Memcpy: &Memcpy{"MemcpyDtoH", 0x7fffffffffff0000, uint64(ki)}})
		}
	}
	return t
}

var instAlphabet = []int{0, 1, 2, 5}

// blocksUpTo enumerates every block with at most maxW warps whose instruction counts come from ns.
func blocksUpTo(maxW int, ns []int) [][]int {
	out := [][]int{{}}
	level := [][]int{{}}
	for w := 1; w <= maxW; w++ {
		var next [][]int
		for _, p := range level {
			for _, n := range ns {
				q := append(append([]int{}, p...), n)
				next = append(next, q)
			}
		}
		out = append(out, next...)
		level = next
	}
	return out
}

// kernelsUpTo enumerates every kernel with at most maxB blocks drawn from blocks.
func kernelsUpTo(maxB int, blocks [][]int) [][][]int {
	out := [][][]int{{}}
	level := [][][]int{{}}
	for b := 1; b <= maxB; b++ {
		var next [][][]int
		for _, p := range level {
			for _, blk := range blocks {
				q := append(append([][]int{}, p...), blk)
				next = append(next, q)
			}
		}
		out = append(out, next...)
		level = next
	}
	return out
}

func genCases(thorough bool) []Case {
	var cases []Case
	b := &builder{forms: forms()}
	v := 0
	add := func(fam string, shape [][][]int) {
		cases = append(cases, Case{Family: fam, Trace: b.trace(shape, v), Simulate: true})
		v++
	}
	// ---- many kernels: more kernels queued than devices / than a 4-entry port buffer
	for _, k := range []int{5, 6, 9, 12} {
		for _, n := range []int{1, 3} {
			var shape [][][]int
			for i := 0; i < k; i++ {
				shape = append(shape, [][]int{{n, n}, {n}})
			}
			add("many-kernels", shape)
		}
	}
	// ---- staggered kernels: the driver hands out one kernel per cycle, so one-warp kernels of n, n-1, n-2 ...
	// instructions on different devices finish in the same cycle and their "kernel finished" reports sit in the
	// driver's port together; every pair over 0..5 instructions and every triple over 0..3 (seed C20-6: a report
	// queued behind the one just read never woke the driver again)
	for a := 0; a <= 5; a++ {
		for c := 0; c <= 5; c++ {
			add("staggered-kernels", [][][]int{{{a}}, {{c}}})
		}
	}
	for a := 0; a <= 3; a++ {
		for c := 0; c <= 3; c++ {
			for e := 0; e <= 3; e++ {
				add("staggered-kernels", [][][]int{{{a}}, {{c}}, {{e}}})
			}
		}
	}
	// ---- staggered blocks: a device hands out one block per cycle, so one-warp blocks of n, n-1 instructions on
	// two SMs finish in the same cycle and both reports wait in the device's port while further blocks are
	// still to be handed out; every sequence of 3..5 one-warp blocks over 1..3 instructions, and the same
	// followed by a second kernel (seed C20-7: all waiting reports taken in one cycle, the first SM freed k times)
	var seqs func(n int) [][]int
	seqs = func(n int) [][]int {
		if n == 0 {
			return [][]int{{}}
		}
		var out [][]int
		for _, t := range seqs(n - 1) {
			for a := 1; a <= 3; a++ {
				out = append(out, append(append([]int{}, t...), a))
			}
		}
		return out
	}
	for n := 3; n <= 5; n++ {
		for _, q := range seqs(n) {
			var blocks [][]int
			for _, a := range q {
				blocks = append(blocks, []int{a})
			}
			add("staggered-blocks", [][][]int{blocks})
			if n == 3 {
				add("staggered-blocks", [][][]int{blocks, {{2}, {1}, {2}}})
			}
		}
	}
	// ---- wide blocks: more warps per block than a 4-entry port buffer / than sub-cores
	for _, k := range []int{1, 2} {
		for _, nb := range []int{1, 2} {
			for _, nw := range []int{5, 9} {
				for _, n := range []int{1, 3} {
					var shape [][][]int
					for i := 0; i < k; i++ {
						var blocks [][]int
						for j := 0; j < nb; j++ {
							warps := make([]int, nw)
							for x := range warps {
								warps[x] = n
							}
							blocks = append(blocks, warps)
						}
						shape = append(shape, blocks)
					}
					add("wide-blocks", shape)
				}
			}
		}
	}
	// ---- uniform: k x b x w x n (k = 3 goes beyond the design: with two devices a
	// kernel is still queued when a device reports its kernel finished)
	for k := 1; k <= 3; k++ {
		for nb := 0; nb <= 3; nb++ {
			for nw := 0; nw <= 3; nw++ {
				for _, n := range instAlphabet {
					var shape [][][]int
					for i := 0; i < k; i++ {
						var blocks [][]int
						for j := 0; j < nb; j++ {
							warps := make([]int, nw)
							for x := range warps {
								warps[x] = n
							}
							blocks = append(blocks, warps)
						}
						shape = append(shape, blocks)
					}
					add("uniform", shape)
				}
			}
		}
	}
	// ---- ragged single kernel: every kernel with <= 2 blocks of <= 2 warps of {0,1,2,5} instructions
	for _, kern := range kernelsUpTo(2, blocksUpTo(2, instAlphabet)) {
		add("ragged-1-kernel", [][][]int{kern})
	}
	if thorough {
		// every kernel with <= 3 blocks of <= 3 warps of {1,5} instructions (no degenerate element)
		for _, kern := range kernelsUpTo(3, blocksUpTo(3, []int{1, 5})[1:]) {
			if len(kern) == 3 {
				add("ragged-1-kernel-3x3", [][][]int{kern})
			}
		}
		// two kernels, each with <= 2 blocks of <= 2 warps of {0,2} instructions
		ks := kernelsUpTo(2, blocksUpTo(2, []int{0, 2}))
		for _, k1 := range ks {
			for _, k2 := range ks {
				add("ragged-2-kernels", [][][]int{k1, k2})
			}
		}
	}
	// ---- parser only: every line form and boundary value; unknown registers one per trace
	pf := append(forms(), valueVariants()...)
	for i := 0; i < len(pf); i += 8 {
		j := i + 8
		if j > len(pf) {
			j = len(pf)
		}
		t := (&builder{forms: pf[i:j]}).trace([][][]int{{{j - i}}}, v)
		for x := range t.Kernels[0].Blocks[0].Warps[0].Insts {
			t.Kernels[0].Blocks[0].Warps[0].Insts[x] = pf[i+x] // keep the PCs of the variants
		}
		cases = append(cases, Case{Family: "parser", Trace: t})
		v++
	}
	for _, r := range allRegs {
		for pos := 0; pos < 2; pos++ {
			in := Inst{PC: 0x30, Mask: 0xffffffff, Dest: []string{"R6"}, Op: "IMAD", Src: []string{"R6", "R3"}}
			if pos == 0 {
				in.Dest[0] = r
			} else {
				in.Src[1] = r
			}
			t := (&builder{forms: []Inst{in}}).trace([][][]int{{{1}}}, v)
			cases = append(cases, Case{Family: "parser-register-" + r, Trace: t})
			v++
		}
	}
	cases = append(cases, Case{Family: "shipped-sample", Dir: "nvidia/data/simple-trace-example"})
	return cases
}
