package main

// Running a trace on a platform built from the exported builders, under the
// real akita serial engine, and the oracles.

import (
	"fmt"
	"reflect"
	"sort"
	"strings"

	"github.com/sarchlab/akita/v4/sim"
	"github.com/sarchlab/mgpusim/v4/nvidia/benchmark"
	"github.com/sarchlab/mgpusim/v4/nvidia/driver"
	"github.com/sarchlab/mgpusim/v4/nvidia/gpu"
	"github.com/sarchlab/mgpusim/v4/nvidia/message"
	"github.com/sarchlab/mgpusim/v4/nvidia/nvidiaconfig"
	"github.com/sarchlab/mgpusim/v4/nvidia/platform"
	"github.com/sarchlab/mgpusim/v4/nvidia/runner"
	"github.com/sarchlab/mgpusim/v4/nvidia/sm"
	"github.com/sarchlab/mgpusim/v4/nvidia/subcore"
	"github.com/sarchlab/mgpusim/v4/nvidia/tracereader"
	log "github.com/sirupsen/logrus"
	"github.com/tebeka/atexit"
)

// Viol is one oracle failure.
type Viol struct {
	Sig   string `json:"sig"`
	Msg   string `json:"msg"`
	Shape *Shape `json:"shape,omitempty"`
}

// ---- read-only access to unexported state (reflection; no hook file needed)

func fieldInt(obj any, name string) int64 {
	return reflect.ValueOf(obj).Elem().FieldByName(name).Int()
}

func fieldLen(obj any, name string) int {
	return reflect.ValueOf(obj).Elem().FieldByName(name).Len()
}

func buildPlatform(s Shape) *platform.Platform {
	freq := sim.Freq(s.FreqHz) * sim.Hz
	p := new(platform.Platform)
	p.Engine = sim.NewSerialEngine()
	p.Driver = new(driver.DriverBuilder).WithEngine(p.Engine).WithFreq(freq).Build("Driver")
	gb := new(gpu.GPUBuilder).WithEngine(p.Engine).WithFreq(freq).
		WithSMsCount(int64(s.SMs)).WithSubcoresCountPerSM(int64(s.Subcores))
	for i := 0; i < s.Devices; i++ {
		g := gb.Build(fmt.Sprintf("GPU(%d)", i))
		p.Driver.RegisterGPU(g)
		p.Devices = append(p.Devices, g)
	}
	return p
}

type capped struct{ events int }

type funcHook func(ctx sim.HookCtx)

func (f funcHook) Func(ctx sim.HookCtx) { f(ctx) }

// cancelAtexit drops the LogStatus handlers the builders registered since the
// last call (they would otherwise keep every platform alive).
var atexitSeen uint

func cancelAtexit() {
	id := atexit.Register(func() {})
	for i := atexitSeen + 1; i <= uint(id); i++ {
		atexit.HandlerID(i).Cancel()
	}
	atexitSeen = uint(id)
}

// RunStats is what one simulation did (for the evidence).
type RunStats struct {
	Events   int   `json:"events"`
	Executed int64 `json:"executed"`
	Hung     bool  `json:"hung"`
}

// simulate runs the trace directory on one platform shape and applies the
// conservation / termination oracle.
func simulate(dir string, cnt [4]int, deg string, s Shape) (viols []Viol, st RunStats) {
	add := func(sig, f string, a ...any) {
		sh := s
		viols = append(viols, Viol{sig, fmt.Sprintf(f, a...), &sh})
	}
	defer cancelAtexit()
	wantK, wantB, wantW, wantI := cnt[0], cnt[1], cnt[2], cnt[3]

	var p *platform.Platform
	var bm *benchmark.Benchmark
	if msg := catch(func() {
		bm = new(benchmark.BenchmarkBuilder).WithTraceDirectory(dir).Build()
		p = buildPlatform(s)
	}); msg != "" {
		add("setup-panic", "building the benchmark / platform panicked: %s", msg)
		return
	}
	// what the benchmark builder extracted must be the trace's shape
	gotK, gotB, gotW, gotI := 0, 0, 0, int64(0)
	for _, e := range bm.TraceExecs {
		if ek, ok := e.(*benchmark.ExecKernel); ok {
			gotK++
			k := ek.GetKernel()
			if int(k.ThreadblocksCount) != len(k.Threadblocks) {
				add("benchmark/ThreadblocksCount-inconsistent", "ThreadblocksCount %d, %d thread blocks", k.ThreadblocksCount, len(k.Threadblocks))
			}
			for _, tb := range k.Threadblocks {
				gotB++
				if int(tb.WarpsCount) != len(tb.Warps) {
					add("benchmark/WarpsCount-inconsistent", "WarpsCount %d, %d warps", tb.WarpsCount, len(tb.Warps))
				}
				for _, w := range tb.Warps {
					gotW++
					gotI += w.InstructionsCount
				}
			}
		}
	}
	if gotK != wantK || gotB != wantB || gotW != wantW || gotI != int64(wantI) {
		add("benchmark/shape-mismatch", "benchmark built from the trace has %d kernels / %d blocks / %d warps / %d instructions, the trace has %d / %d / %d / %d",
			gotK, gotB, gotW, gotI, wantK, wantB, wantW, wantI)
		return
	}

	// ---- observers
	eng := p.Engine.(*sim.SerialEngine)
	horizon := 2000 + 400*(wantK+wantB+wantW+wantI)
	type scObs struct {
		sc     *subcore.Subcore
		port   sim.Port
		u0     int64
		hadMsg bool
	}
	subcores := map[sim.Handler]*scObs{}
	var allSMs []*sm.SM
	var allSCs []*subcore.Subcore
	for _, g := range p.Devices {
		ids := make([]string, 0, len(g.SMs))
		for id := range g.SMs {
			ids = append(ids, id)
		}
		sort.Strings(ids)
		for _, id := range ids {
			m := g.SMs[id]
			allSMs = append(allSMs, m)
			sids := make([]string, 0, len(m.Subcores))
			for sid := range m.Subcores {
				sids = append(sids, sid)
			}
			sort.Strings(sids)
			for _, sid := range sids {
				sc := m.Subcores[sid]
				allSCs = append(allSCs, sc)
				subcores[sc.TickingComponent] = &scObs{sc: sc, port: sc.GetPortByName(sc.Name() + ".ToSM")}
			}
		}
	}
	var overwritten, grew int
	eng.AcceptHook(funcHook(func(ctx sim.HookCtx) {
		evt, ok := ctx.Item.(sim.Event)
		if !ok {
			return
		}
		o := subcores[evt.Handler()]
		switch ctx.Pos {
		case sim.HookPosBeforeEvent:
			st.Events++
			if st.Events > horizon {
				panic(capped{st.Events})
			}
			if o != nil {
				o.u0 = fieldInt(o.sc, "unfinishedInstsCount")
				o.hadMsg = o.port.PeekIncoming() != nil
			}
		case sim.HookPosAfterEvent:
			if o == nil {
				return
			}
			u1 := fieldInt(o.sc, "unfinishedInstsCount")
			switch {
			case o.hadMsg && o.u0 > 0:
				overwritten++ // a new warp arrived while the previous one still had instructions to run
			case o.hadMsg:
			case u1 < o.u0:
				st.Executed += o.u0 - u1
			case u1 > o.u0:
				grew++
			}
		}
	}))
	// messages, counted where they are sent
	sent := map[string]int{}
	count := funcHook(func(ctx sim.HookCtx) {
		if ctx.Pos != sim.HookPosPortMsgSend {
			return
		}
		switch m := ctx.Item.(type) {
		case *message.DriverToDeviceMsg:
			sent["kernel-dispatched"]++
		case *message.DeviceToSMMsg:
			sent["block-dispatched"]++
		case *message.SMToSubcoreMsg:
			sent["warp-dispatched"]++
		case *message.SubcoreToSMMsg:
			if m.WarpFinished {
				sent["warp-finished"]++
			}
		case *message.SMToDeviceMsg:
			if m.ThreadblockFinished {
				sent["block-finished"]++
			}
		case *message.DeviceToDriverMsg:
			if m.KernelFinished {
				sent["kernel-finished"]++
			}
		}
	})
	p.Driver.GetPortByName("ToDevice").AcceptHook(count)
	for _, g := range p.Devices {
		g.GetPortByName(g.Name() + ".ToDriver").AcceptHook(count)
		g.GetPortByName(g.Name() + ".ToSMs").AcceptHook(count)
	}
	for _, m := range allSMs {
		m.GetPortByName(m.Name() + ".ToGPU").AcceptHook(count)
		m.GetPortByName(m.Name() + ".ToSubcores").AcceptHook(count)
	}
	for _, sc := range allSCs {
		sc.GetPortByName(sc.Name() + ".ToSM").AcceptHook(count)
	}

	// ---- run
	var cap *capped
	msg := func() (msg string) {
		defer func() {
			if r := recover(); r != nil {
				if c, ok := r.(capped); ok {
					cap = &c
					return
				}
				msg = panicText(r)
			}
		}()
		rn := new(runner.RunnerBuilder).WithPlatform(p).Build()
		rn.AddBenchmark(bm)
		rn.Run()
		return ""
	}()
	if msg != "" {
		add("run-panic", "the simulation panicked: %s", firstLine(msg))
		return
	}
	if cap != nil {
		add("run-capped-at-event-horizon", "no quiescence after %d events (horizon for %d kernels / %d blocks / %d warps / %d instructions)", cap.events, wantK, wantB, wantW, wantI)
		return
	}

	// ---- Engine.Run() returned: the event queue is empty. Is everything finished and idle?
	var stuck []string
	note := func(cond bool, f string, a ...any) {
		if cond {
			stuck = append(stuck, fmt.Sprintf(f, a...))
		}
	}
	d := p.Driver
	note(fieldInt(d, "unfinishedKernelsCount") != 0, "driver: %d kernels unfinished", fieldInt(d, "unfinishedKernelsCount"))
	note(fieldLen(d, "undispatchedKernels") != 0, "driver: %d kernels undispatched", fieldLen(d, "undispatchedKernels"))
	note(fieldLen(d, "freeDevices") != s.Devices, "driver: %d of %d devices free", fieldLen(d, "freeDevices"), s.Devices)
	for _, g := range p.Devices {
		note(fieldInt(g, "unfinishedThreadblocksCount") != 0, "%s: %d thread blocks unfinished", g.Name(), fieldInt(g, "unfinishedThreadblocksCount"))
		note(fieldLen(g, "undispatchedThreadblocks") != 0, "%s: %d thread blocks undispatched", g.Name(), fieldLen(g, "undispatchedThreadblocks"))
		note(fieldInt(g, "finishedKernelsCount") != 0, "%s: %d finished kernels unreported", g.Name(), fieldInt(g, "finishedKernelsCount"))
		note(fieldLen(g, "freeSMs") != s.SMs, "%s: %d of %d SMs free", g.Name(), fieldLen(g, "freeSMs"), s.SMs)
	}
	for _, m := range allSMs {
		note(fieldInt(m, "unfinishedWarpsCount") != 0, "%s: %d warps unfinished", m.Name(), fieldInt(m, "unfinishedWarpsCount"))
		note(fieldLen(m, "undispatchedWarps") != 0, "%s: %d warps undispatched", m.Name(), fieldLen(m, "undispatchedWarps"))
		note(fieldInt(m, "finishedThreadblocksCount") != 0, "%s: %d finished blocks unreported", m.Name(), fieldInt(m, "finishedThreadblocksCount"))
		note(fieldLen(m, "freeSubcores") != s.Subcores, "%s: %d of %d sub-cores free", m.Name(), fieldLen(m, "freeSubcores"), s.Subcores)
	}
	for _, sc := range allSCs {
		note(fieldInt(sc, "unfinishedInstsCount") != 0, "%s: %d instructions unfinished", sc.Name(), fieldInt(sc, "unfinishedInstsCount"))
		note(fieldInt(sc, "finishedWarpsCount") != 0, "%s: %d finished warps unreported", sc.Name(), fieldInt(sc, "finishedWarpsCount"))
	}
	if len(stuck) > 0 {
		st.Hung = true
		// Root causes, read off the quiescent state: a unit that was handed work
		// (it is not in its parent's free list), holds nothing and reports nothing.
		causes := map[string]string{}
		inList := func(parent any, list string, child any) bool {
			l := reflect.ValueOf(parent).Elem().FieldByName(list)
			for i := 0; i < l.Len(); i++ {
				if l.Index(i).Pointer() == reflect.ValueOf(child).Pointer() {
					return true
				}
			}
			return false
		}
		for _, g := range p.Devices {
			if !inList(d, "freeDevices", g) && fieldInt(g, "unfinishedThreadblocksCount") == 0 && fieldLen(g, "undispatchedThreadblocks") == 0 && fieldInt(g, "finishedKernelsCount") == 0 {
				causes["kernel-without-blocks"] = g.Name() + " holds a kernel with no thread block and never reports it finished"
			}
			for _, m := range g.SMs {
				if !inList(g, "freeSMs", m) && fieldInt(m, "unfinishedWarpsCount") == 0 && fieldLen(m, "undispatchedWarps") == 0 && fieldInt(m, "finishedThreadblocksCount") == 0 {
					causes["block-without-warps"] = m.Name() + " holds a thread block with no warp and never reports it finished"
				}
				for _, sc := range m.Subcores {
					if !inList(m, "freeSubcores", sc) && fieldInt(sc, "unfinishedInstsCount") == 0 && fieldInt(sc, "finishedWarpsCount") == 0 {
						causes["warp-without-instructions"] = sc.Name() + " holds a warp with no instruction and never reports it finished"
					}
				}
			}
		}
		// even a run that stops early must not do anything twice
		var w2, i2 int64
		for _, m := range allSMs {
			w2 += m.GetTotalWarpsCount()
		}
		for _, sc := range allSCs {
			i2 += sc.GetTotalInstsCount()
		}
		if w2 > int64(wantW) || i2 > int64(wantI) || st.Executed > i2 || overwritten != 0 || grew != 0 ||
			sent["kernel-dispatched"] > wantK || sent["block-dispatched"] > wantB || sent["warp-dispatched"] > wantW ||
			sent["kernel-finished"] > sent["kernel-dispatched"] || sent["block-finished"] > sent["block-dispatched"] || sent["warp-finished"] > sent["warp-dispatched"] {
			add("exactly-once/overcount-in-stopped-run", "warps %d/%d instructions received %d/%d executed %d messages %v replaced %d grew %d", w2, wantW, i2, wantI, st.Executed, sent, overwritten, grew)
		}
		explained := len(causes) > 0
		for c := range causes {
			if !strings.Contains(deg, c) {
				explained = false
			}
		}
		if !explained {
			add("hang/unexplained", "Engine.Run() returned (no event left) with work outstanding (trace degeneracy: %q, state-derived causes: %v): %s", deg, causes, strings.Join(stuck, "; "))
			return
		}
		keys := make([]string, 0, len(causes))
		for c := range causes {
			keys = append(keys, c)
		}
		sort.Strings(keys)
		for _, c := range keys {
			add("hang/"+c+"-never-reported-finished", "Engine.Run() returned (no event left) with work outstanding; %s. State: %s", causes[c], strings.Join(stuck, "; "))
		}
		return
	}

	// ---- conservation
	var warps, insts int64
	for _, m := range allSMs {
		warps += m.GetTotalWarpsCount()
	}
	for _, sc := range allSCs {
		insts += sc.GetTotalInstsCount()
	}
	if warps != int64(wantW) {
		add("conservation/warps", "sum of SM.GetTotalWarpsCount = %d, the trace has %d warps", warps, wantW)
	}
	if insts != int64(wantI) {
		add("conservation/instructions-received", "sum of Subcore.GetTotalInstsCount = %d, the trace has %d instructions", insts, wantI)
	}
	if st.Executed != int64(wantI) {
		add("conservation/instructions-executed", "sub-cores executed %d instructions (observed tick by tick), the trace has %d", st.Executed, wantI)
	}
	if overwritten != 0 || grew != 0 {
		add("exactly-once/warp-replaced-while-running", "%d times a sub-core received a warp while it still had instructions to run; %d unexplained increases", overwritten, grew)
	}
	for _, c := range []struct {
		k    string
		want int
	}{{"kernel-dispatched", wantK}, {"kernel-finished", wantK}, {"block-dispatched", wantB}, {"block-finished", wantB}, {"warp-dispatched", wantW}, {"warp-finished", wantW}} {
		if sent[c.k] != c.want {
			add("exactly-once/"+c.k, "%d %s messages, the trace has %d", sent[c.k], c.k, c.want)
		}
	}
	return
}

func panicText(r any) string {
	if e, ok := r.(*log.Entry); ok { // logrus Panic: keep the text deterministic (no timestamp)
		keys := make([]string, 0, len(e.Data))
		for k := range e.Data {
			keys = append(keys, k)
		}
		sort.Strings(keys)
		s := e.Message
		for _, k := range keys {
			s += fmt.Sprintf(" %s=%v", k, e.Data[k])
		}
		return s
	}
	return firstLine(fmt.Sprint(r))
}

func catch(f func()) (msg string) {
	defer func() {
		if r := recover(); r != nil {
			msg = panicText(r)
		}
	}()
	f()
	return ""
}

func firstLine(s string) string {
	if i := strings.IndexByte(s, '\n'); i >= 0 {
		s = s[:i]
	}
	if len(s) > 300 {
		s = s[:300]
	}
	return s
}

// ---- parse(serialise(t)) == t

func regNames(v reflect.Value) []string {
	var out []string
	for i := 0; i < v.Len(); i++ {
		r := v.Index(i).Interface().(*nvidiaconfig.Register)
		out = append(out, r.String())
	}
	return out
}

func dim3(v reflect.Value) [3]int32 {
	return [3]int32{int32(v.Index(0).Int()), int32(v.Index(1).Int()), int32(v.Index(2).Int())}
}

// checkParse reads the directory with the real reader and compares field by field.
func checkParse(dir string, t *Trace) (viols []Viol) {
	seen := map[string]bool{}
	add := func(sig, f string, a ...any) {
		if !seen[sig] {
			seen[sig] = true
			viols = append(viols, Viol{Sig: sig, Msg: fmt.Sprintf(f, a...)})
		}
	}
	var rd *tracereader.TraceReader
	if msg := catch(func() { rd = new(tracereader.TraceReaderBuilder).WithTraceDirectory(dir).Build() }); msg != "" {
		add("parse/panic/kernelslist", "reading kernelslist.g panicked: %s", msg)
		return
	}
	metas := rd.GetExecMetas()
	if len(metas) != len(t.Execs) {
		add("parse/exec-count", "%d executions parsed, %d serialised", len(metas), len(t.Execs))
		return
	}
	for i, e := range t.Execs {
		m := metas[i]
		mv := reflect.ValueOf(&m).Elem()
		if e.Kernel < 0 {
			if m.ExecType() != nvidiaconfig.ExecMemcpy || string(m.Direction) != e.Memcpy.Dir || m.Address != e.Memcpy.Addr || m.Length != e.Memcpy.Len {
				add("parse/memcpy-line", "exec %d parsed as type %d %s,%#x,%d; serialised %s,%#x,%d", i, m.ExecType(), m.Direction, m.Address, m.Length, e.Memcpy.Dir, e.Memcpy.Addr, e.Memcpy.Len)
			}
			continue
		}
		if m.ExecType() != nvidiaconfig.ExecKernel || mv.FieldByName("filename").String() != kernelFileName(e.Kernel) {
			add("parse/kernel-line", "exec %d parsed as type %d file %q; serialised %s", i, m.ExecType(), mv.FieldByName("filename").String(), kernelFileName(e.Kernel))
			continue
		}
		var kt tracereader.KernelTrace
		if msg := catch(func() { kt = tracereader.ReadTrace(m) }); msg != "" {
			sig := "parse/panic"
			if strings.Contains(msg, "Unknown register") {
				for _, r := range allRegs {
					if traceUses(t, e.Kernel, r) && !isKnownReg(r) {
						sig = "parse/panic/unknown-register/" + r
					}
				}
			}
			add(sig, "ReadTrace panicked: %s", msg)
			continue
		}
		compareKernel(&kt, &t.Kernels[e.Kernel], add)
	}
	return
}

func isKnownReg(r string) bool {
	if r == "R255" {
		return true
	}
	var n int
	if _, err := fmt.Sscanf(r, "R%d", &n); err != nil {
		return false
	}
	return n >= 0 && n < 32
}

func traceUses(t *Trace, k int, reg string) bool {
	for _, b := range t.Kernels[k].Blocks {
		for _, w := range b.Warps {
			for _, in := range w.Insts {
				for _, r := range append(append([]string{}, in.Dest...), in.Src...) {
					if r == reg {
						return true
					}
				}
			}
		}
	}
	return false
}

func compareKernel(kt *tracereader.KernelTrace, k *Kernel, add func(sig, f string, a ...any)) {
	h := kt.FileHeader
	w := k.Header
	got := Header{h.KernelName, h.KernelID, [3]int32(h.GridDim), [3]int32(h.BlockDim), h.Shmem, h.Nregs, h.BinaryVersion, h.CudaStreamID,
		h.ShmemBaseAddr, h.LocalMemBaseAddr, h.NvbitVersion, h.AccelsimTracerVersion, h.EnableLineinfo}
	if got != w {
		add("parse/header", "header parsed as %+v, serialised %+v", got, w)
	}
	if int(kt.ThreadblocksCount()) != len(k.Blocks) {
		add("parse/block-count", "%d thread blocks parsed, %d serialised", kt.ThreadblocksCount(), len(k.Blocks))
		return
	}
	for bi := range k.Blocks {
		tb := kt.Threadblock(int64(bi))
		wb := k.Blocks[bi]
		tbv := reflect.ValueOf(tb).Elem()
		if id := dim3(tbv.FieldByName("id")); id != wb.ID {
			add("parse/block-id", "block %d parsed with id %v, serialised %v", bi, id, wb.ID)
		}
		if int(tb.WarpsCount()) != len(wb.Warps) {
			add("parse/warp-count", "block %d: %d warps parsed, %d serialised", bi, tb.WarpsCount(), len(wb.Warps))
			return
		}
		for wi := range wb.Warps {
			wp := tb.Warp(int64(wi))
			ww := wb.Warps[wi]
			wpv := reflect.ValueOf(wp).Elem()
			if id := int32(wpv.FieldByName("id").Int()); id != ww.ID {
				add("parse/warp-id", "block %d warp %d parsed with id %d, serialised %d", bi, wi, id, ww.ID)
			}
			if int(wp.InstsCount) != len(ww.Insts) || int(wp.InstructionsCount()) != len(ww.Insts) {
				add("parse/instruction-count", "block %d warp %d: InstsCount %d, %d instructions parsed, %d serialised", bi, wi, wp.InstsCount, wp.InstructionsCount(), len(ww.Insts))
				return
			}
			for ii, in := range wp.Instructions {
				compareInst(in, ww.Insts[ii], wb.ID, ww.ID, fmt.Sprintf("block %d warp %d instruction %d (%q)", bi, wi, ii, ww.Insts[ii].line()), add)
			}
		}
	}
}

func compareInst(in *tracereader.Instruction, w Inst, tbID [3]int32, warpID int32, where string, add func(sig, f string, a ...any)) {
	v := reflect.ValueOf(in).Elem()
	if id := dim3(v.FieldByName("threadblockID")); id != tbID {
		add("parse/inst-threadblockID", "%s: threadblockID %v want %v", where, id, tbID)
	}
	if id := int32(v.FieldByName("warpID").Int()); id != warpID {
		add("parse/inst-warpID", "%s: warpID %d want %d", where, id, warpID)
	}
	if in.PC != w.PC {
		add("parse/PC", "%s: PC %#x want %#x", where, in.PC, w.PC)
	}
	if in.Mask != w.Mask {
		add("parse/Mask", "%s: Mask %#x want %#x", where, in.Mask, w.Mask)
	}
	if int(in.DestNum) != len(w.Dest) || strings.Join(regNames(reflect.ValueOf(in.DestRegs)), ",") != strings.Join(w.Dest, ",") {
		add("parse/DestRegs", "%s: DestNum %d DestRegs %v want %v", where, in.DestNum, regNames(reflect.ValueOf(in.DestRegs)), w.Dest)
	}
	if int(in.SrcNum) != len(w.Src) || strings.Join(regNames(reflect.ValueOf(in.SrcRegs)), ",") != strings.Join(w.Src, ",") {
		add("parse/SrcRegs", "%s: SrcNum %d SrcRegs %v want %v", where, in.SrcNum, regNames(reflect.ValueOf(in.SrcRegs)), w.Src)
	}
	if in.OpCode == nil {
		add("parse/OpCode-never-populated", "%s: OpCode is nil, serialised opcode %s", where, w.Op)
	} else if in.OpCode.String() != w.Op {
		add("parse/OpCode", "%s: OpCode %s want %s", where, in.OpCode.String(), w.Op)
	}
	if in.MemWidth != w.MemWidth {
		add("parse/MemWidth", "%s: MemWidth %d want %d", where, in.MemWidth, w.MemWidth)
	}
	if in.AddressCompress != w.Compress {
		add("parse/AddressCompress", "%s: AddressCompress %d want %d", where, in.AddressCompress, w.Compress)
	}
	if in.MemAddress != w.Addr {
		if in.MemAddress == 0 {
			add("parse/MemAddress-0x-prefixed-address-read-as-0", "%s: MemAddress 0, serialised 0x%x", where, w.Addr)
		} else {
			add("parse/MemAddress", "%s: MemAddress %#x want %#x", where, in.MemAddress, w.Addr)
		}
	}
	if in.MemAddressSuffix1 != w.Stride {
		add("parse/MemAddressSuffix1", "%s: MemAddressSuffix1 %d want %d", where, in.MemAddressSuffix1, w.Stride)
	}
	if len(in.MemAddressSuffix2) != len(w.Deltas) || (len(w.Deltas) > 0 && !reflect.DeepEqual(in.MemAddressSuffix2, w.Deltas)) {
		add("parse/MemAddressSuffix2", "%s: MemAddressSuffix2 %v want %v", where, in.MemAddressSuffix2, w.Deltas)
	}
	if in.Immediate != w.Imm {
		add("parse/Immediate", "%s: Immediate %d want %d", where, in.Immediate, w.Imm)
	}
}
