// C20: NVIDIA trace-driven simulation conserves work and terminates; parsing a
// serialised trace returns the structure that was serialised.
//
// Every trace of the enumeration (gen.go) is written by an independent writer
// (trace.go), parsed by the real tracereader and compared field by field, and
// run on every platform shape under the real serial engine (sim.go). Cases
// run in worker subprocesses: the tracereader keeps its scanner in a package
// variable, the builders register atexit handlers, the driver prints to
// stdout, and a worker's cwd is a scratch directory.
package main

import (
	"encoding/json"
	"fmt"
	"io"
	"os"
	"path/filepath"
	"sort"
	"strings"

	log "github.com/sirupsen/logrus"

	"verif/mc/harness"
	"verif/mc/workers"
)

// CaseResult is what a worker returns for one trace.
type CaseResult struct {
	Runs      int            `json:"runs"`
	Hung      int            `json:"hung"`
	Events    int            `json:"events"`
	MaxEvents int            `json:"max_events"`
	Executed  int64          `json:"executed"`
	Outcomes  []string       `json:"outcomes,omitempty"`
	Viols     []Viol         `json:"viols,omitempty"`
	Infra     string         `json:"infra,omitempty"`
	Sample    map[string]any `json:"sample,omitempty"`
}

func scratch() string {
	cwd, _ := os.Getwd()
	return filepath.Join(cwd, fmt.Sprintf("w%d", os.Getpid()))
}

// scanCounts counts kernels, blocks, warps and instructions of a trace
// directory with nothing but line prefixes (for the shipped sample, which has
// no model on our side).
func scanCounts(dir string) (cnt [4]int, err error) {
	list, err := os.ReadFile(filepath.Join(dir, "kernelslist.g"))
	if err != nil {
		return cnt, err
	}
	for _, l := range strings.Split(string(list), "\n") {
		l = strings.TrimSpace(l)
		if !strings.HasPrefix(l, "kernel") {
			continue
		}
		cnt[0]++
		data, err := os.ReadFile(filepath.Join(dir, l))
		if err != nil {
			return cnt, err
		}
		for _, tl := range strings.Split(string(data), "\n") {
			var n int
			switch {
			case strings.HasPrefix(tl, "thread block ="):
				cnt[1]++
			case strings.HasPrefix(tl, "warp ="):
				cnt[2]++
			case strings.HasPrefix(tl, "insts ="):
				fmt.Sscanf(tl, "insts = %d", &n)
				cnt[3] += n
			}
		}
	}
	return cnt, nil
}

func repoDir() string {
	if d := os.Getenv("VERIF_REPO_DIR"); d != "" {
		return d
	}
	return "/repo"
}

func runShipped(c Case) CaseResult {
	var res CaseResult
	dir := filepath.Join(repoDir(), c.Dir)
	cnt, err := scanCounts(dir)
	if err != nil {
		res.Infra = err.Error()
		return res
	}
	for _, s := range []Shape{{1, 108, 4, 1}, {2, 3, 4, 1}, {1, 1, 1, 1_000_000_000}} {
		v, st := simulate(dir, cnt, "", s)
		res.Runs++
		res.Events += st.Events
		if st.Events > res.MaxEvents {
			res.MaxEvents = st.Events
		}
		res.Executed += st.Executed
		res.Viols = append(res.Viols, v...)
		res.Outcomes = append(res.Outcomes, fmt.Sprintf("%v on %s: events=%d hung=%v", cnt, s, st.Events, st.Hung))
	}
	res.Sample = map[string]any{"family": c.Family, "directory": c.Dir, "kernels/blocks/warps/instructions": cnt, "runs": res.Runs, "events": res.Events}
	return res
}

func runCase(c Case, shapeList []Shape, wantSample bool) CaseResult {
	var res CaseResult
	if c.Dir != "" {
		return runShipped(c)
	}
	dir := scratch()
	os.RemoveAll(dir)
	defer os.RemoveAll(dir)
	t := &c.Trace
	if err := t.Write(dir); err != nil {
		res.Infra = err.Error()
		return res
	}
	res.Viols = append(res.Viols, checkParse(dir, t)...)
	k, b, w, n := t.counts()
	if c.Simulate {
		for _, s := range shapeList {
			v, st := simulate(dir, [4]int{k, b, w, n}, t.degeneracy(), s)
			res.Runs++
			res.Events += st.Events
			if st.Events > res.MaxEvents {
				res.MaxEvents = st.Events
			}
			res.Executed += st.Executed
			if st.Hung {
				res.Hung++
			}
			res.Viols = append(res.Viols, v...)
			res.Outcomes = append(res.Outcomes, fmt.Sprintf("%d/%d/%d/%d on %s: events=%d hung=%v", k, b, w, n, s, st.Events, st.Hung))
		}
	}
	if wantSample {
		list, _ := os.ReadFile(filepath.Join(dir, "kernelslist.g"))
		k0, _ := os.ReadFile(filepath.Join(dir, kernelFileName(0)))
		lines := strings.Split(string(k0), "\n")
		if len(lines) > 40 {
			lines = lines[13:40]
		}
		res.Sample = map[string]any{"family": c.Family, "kernels": k, "blocks": k * 0 + b, "warps": w, "instructions": n, "degenerate": t.degeneracy(),
			"kernelslist.g": strings.Split(strings.TrimSpace(string(list)), "\n"), "kernel-1.traceg (excerpt)": lines, "runs": res.Runs, "hung_runs": res.Hung, "events": res.Events}
	}
	return res
}

type replayCase struct {
	Case  Case   `json:"case"`
	Shape *Shape `json:"shape,omitempty"` // nil: parser finding / all shapes
}

func main() {
	r := harness.Start("C20", "exploration")
	cases := genCases(r.Thorough())
	shapeList := shapes(r.Thorough())
	if workers.IsWorker() {
		log.SetOutput(io.Discard)
		log.SetLevel(log.PanicLevel)
		workers.Serve(func(i int) any {
			return runCase(cases[i], shapeList, i%151 == 0)
		}, func(c json.RawMessage) any {
			var rc replayCase
			if err := json.Unmarshal(c, &rc); err != nil {
				return CaseResult{Infra: err.Error()}
			}
			sl := shapeList
			if rc.Shape != nil {
				sl = []Shape{*rc.Shape}
			}
			return runCase(rc.Case, sl, false)
		})
	}
	root := filepath.Join("/verif/build/tmp", fmt.Sprintf("c20-%d", os.Getpid()))
	if err := os.MkdirAll(root, 0o755); err != nil {
		fmt.Fprintln(os.Stderr, err)
		os.Exit(2)
	}
	defer os.RemoveAll(root)
	pool := workers.Pool{Args: []string{"-tier", r.Tier}, Dir: root, Chunk: 4, Deadline: r.Deadline(), Recycle: 2000}
	r.Assume = []string{
		"a trace is a directory with kernelslist.g (Memcpy lines and kernel file names) and one kernel-N.traceg per kernel in the layout of nvidia/data/simple-trace-example (Accel-Sim tracer version 5): memory addresses are written 0x-prefixed, immediates and strides in decimal",
		"a mode-0 (address list) line carries the first address in the parsed structure; the structure has no field for the others",
		"simulated traces use only registers the reader knows (R0-R31, R255); other register names are exercised by the parser family",
		"platforms are built from the exported DriverBuilder / GPUBuilder exactly as A100PlatformBuilder does, with 1-2 devices, 1-3 SMs, 1/2/4 sub-cores, at 1 Hz (and 1 GHz in the thorough tier)",
		"unexported counters are read by reflection after Engine.Run() returned; executed instructions are observed as decrements of Subcore.unfinishedInstsCount between engine events",
	}
	if r.Replay != "" {
		code := replay(r, pool)
		os.RemoveAll(root)
		os.Exit(code)
	}
	runs, hung, traces, parsed, events, maxEvents := 0, 0, 0, 0, 0, 0
	var executed int64
	outcomes := map[string]struct{}{}
	fam := map[string]int{}
	complete, err := pool.Run(len(cases), func(wr workers.Result) {
		c := cases[wr.Index]
		if wr.Died {
			r.Report("worker-killed/"+c.Family, "the process ended while handling this trace: "+firstLine(lastLine(wr.Stderr)), replayCase{Case: c})
			return
		}
		var res CaseResult
		if err := json.Unmarshal(wr.Data, &res); err != nil {
			r.Infra("case %d: %v", wr.Index, err)
			return
		}
		if res.Infra != "" {
			r.Infra("case %d (%s): %s", wr.Index, c.Family, res.Infra)
			return
		}
		traces++
		if c.Dir == "" {
			parsed++
		}
		fam[strings.SplitN(c.Family, "-register", 2)[0]]++
		runs += res.Runs
		hung += res.Hung
		events += res.Events
		executed += res.Executed
		if res.MaxEvents > maxEvents {
			maxEvents = res.MaxEvents
		}
		for _, o := range res.Outcomes {
			outcomes[o] = struct{}{}
		}
		if res.Sample != nil {
			r.Sample(res.Sample)
		}
		for _, v := range res.Viols {
			where := "parser"
			if v.Shape != nil {
				where = "platform " + v.Shape.String()
			}
			r.Report(v.Sig, fmt.Sprintf("%s trace, %s: %s", c.Family, where, v.Msg), replayCase{Case: c, Shape: v.Shape})
		}
	})
	if err != nil {
		r.Infra("%v", err)
	}
	r.Cov["evaluations"] = runs + parsed
	r.Cov["simulation_runs"] = runs
	r.Cov["traces"] = traces
	r.Cov["traces_parsed_and_compared"] = parsed
	r.Cov["traces_by_family"] = fam
	r.Cov["platform_shapes"] = len(shapeList)
	r.Cov["runs_quiescent_with_work_outstanding"] = hung
	r.Cov["engine_events_total"] = events
	r.Cov["engine_events_max_per_run"] = maxEvents
	r.Cov["instructions_executed_total"] = executed
	r.Cov["distinct_nontrivial"] = len(outcomes)
	r.Cov["exhaustive"] = complete
	r.Cov["rule"] = "every trace of the enumeration (uniform k in {1,2,3} x b in {0..3} x w in {0..3} x n in {0,1,2,5}; every single kernel with <= 2 blocks of <= 2 warps of {0,1,2,5} instructions; thorough: every kernel with 3 blocks of 1-3 warps of {1,5} instructions and every pair of kernels with <= 2 blocks of <= 2 warps of {0,2} instructions; instruction lines cycle through all 63 dest/src/memory forms) is serialised, parsed by the real reader and compared field by field, then run on every platform shape under the real serial engine with the termination/idle/conservation oracle; a parser family covers every line form, boundary value and register name; evaluations = simulation runs + parse comparisons, distinct_nontrivial = distinct (trace size, shape, event count, hung) outcomes"
	fmt.Printf("traces=%d runs=%d hung=%d events=%d (max %d per run) outcomes=%d families=%v\n", traces, runs, hung, events, maxEvents, len(outcomes), fam)
	os.RemoveAll(root)
	r.Finish()
}

func lastLine(s string) string {
	s = strings.TrimSpace(s)
	if i := strings.LastIndexByte(s, '\n'); i >= 0 {
		return s[i+1:]
	}
	return s
}

func replay(r *harness.Run, pool workers.Pool) int {
	data, err := os.ReadFile(r.Replay)
	if err != nil {
		fmt.Fprintln(os.Stderr, err)
		return 2
	}
	var f struct {
		Signature string     `json:"signature"`
		Case      replayCase `json:"case"`
	}
	if err := json.Unmarshal(data, &f); err != nil {
		fmt.Fprintln(os.Stderr, err)
		return 2
	}
	wr, err := pool.RunCase(f.Case)
	if err != nil {
		fmt.Println("INFRASTRUCTURE ERROR:", err)
		return 2
	}
	if wr.Died {
		fmt.Printf("VIOLATION property=C20 replay=%s\n  signature: worker-killed/%s\n  %s\n", r.Replay, f.Case.Case.Family, lastLine(wr.Stderr))
		return 1
	}
	var res CaseResult
	json.Unmarshal(wr.Data, &res)
	if res.Infra != "" {
		fmt.Println("INFRASTRUCTURE ERROR:", res.Infra)
		return 2
	}
	sort.Slice(res.Viols, func(i, j int) bool { return res.Viols[i].Sig < res.Viols[j].Sig })
	hit := false
	for _, v := range res.Viols {
		fmt.Printf("  %s: %s\n", v.Sig, v.Msg)
		if v.Sig == f.Signature {
			hit = true
		}
	}
	if hit {
		fmt.Printf("VIOLATION property=C20 replay=%s\n  signature: %s\n", r.Replay, f.Signature)
		return 1
	}
	fmt.Println("replay: no violation")
	return 0
}
