// c18a_dev: development main for platlat.RunC18a (not registered in the
// MANIFEST; the real C18 check calls RunC18a and then its RDMA part).
// Evidence goes to /verif/build/platdev/evidence/C18.json; known findings are
// looked up under property "C18".
package main

import (
	"os"

	"verif/mc/harness"
	"verif/mc/platlat"
)

func main() {
	platlat.MaybeWorker()
	devDir()
	r := harness.Start("C18", "exploration")
	platlat.RunC18a(r)
	r.Cov["evaluations"] = r.Cov["lattice_comparisons"]
	r.Cov["distinct_nontrivial"] = r.Cov["lattice_distinct_classes_identical"]
	r.Cov["rule"] = r.Cov["lattice_rule"]
	r.Cov["samples"] = r.Cov["lattice_samples"]
	r.Finish()
}

// devDir keeps this development binary away from the real evidence: unless
// VERIF_DIR is set, evidence and replay files go to /verif/build/platdev (with
// a fresh copy of known_findings.json).
func devDir() {
	if os.Getenv("VERIF_DIR") != "" {
		return
	}
	const d = "/verif/build/platdev"
	os.MkdirAll(d, 0o755)
	if data, err := os.ReadFile("/verif/known_findings.json"); err == nil {
		os.WriteFile(d+"/known_findings.json", data, 0o644)
	}
	os.Setenv("VERIF_DIR", d)
}
