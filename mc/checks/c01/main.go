// C01: simulated kernels compute what the host reference computes.
//
// Exhaustive enumeration of the bounded configuration lattice
//
//	workload x size alphabet x arch x GPU set x unified memory x mode
//
// (platlat/c01_matrix.json records the alphabets and why each size is a valid
// configuration). Every lattice point is one run of the real simulator in its
// own worker process; the oracle is the workload's own Verify() (plus a
// whole-result comparison where Verify() provably looks at a part only), no
// panic / fatal, and structural quiescence of the run.
package main

import (
	"encoding/json"
	"fmt"
	"os"
	"runtime"
	"sort"
	"strings"
	"sync"
	"time"

	"verif/mc/harness"
	"verif/mc/platlat"
)

func main() {
	platlat.MaybeWorker()
	r := harness.Start("C01", "exploration")
	cap := 5 * time.Minute
	if r.Thorough() {
		cap = 15 * time.Minute
	}
	if r.Replay != "" {
		replay(r, cap)
		return
	}
	platlat.Equiv = func(a, b platlat.Outcome) bool {
		if a.Status != b.Status {
			return false
		}
		if a.Status == "fail" || a.Status == "hang" {
			return platlat.C01Signature(a) == platlat.C01Signature(b)
		}
		return true
	}
	m := platlat.LoadMatrix()
	cases, lst := m.C01Cases(r.Thorough())

	var mu sync.Mutex
	type group struct {
		sig   string
		first platlat.Outcome
		names []string
	}
	groups := map[string]*group{}
	okCount, capped, infra := 0, 0, 0
	okByWorkload := map[string]int{}
	okClasses := map[string]bool{}
	cpuByMode := map[string]float64{}
	st := platlat.RunAll(cases, runtime.NumCPU(), cap, r.Deadline(), func(i int, o platlat.Outcome) {
		mu.Lock()
		defer mu.Unlock()
		cpuByMode[o.Case.Mode] += o.WallS
		switch o.Status {
		case "ok":
			okCount++
			okByWorkload[o.Case.Workload]++
			okClasses[o.Case.Class()] = true
			if okCount%97 == 1 {
				r.Sample(map[string]any{"case": o.Case.Name(), "verdict": "Verify() passed, run quiesced", "sim_time_s": o.Res.SimTime, "wall_s": o.WallS})
			}
		case "capped":
			capped++
		case "infra":
			infra++
			r.Infra("%s: %s", o.Case.Name(), firstLines(o.Detail, 3))
		default: // fail | hang
			sig := platlat.C01Signature(o)
			g := groups[sig]
			if g == nil {
				g = &group{sig: sig, first: o}
				groups[sig] = g
			}
			g.names = append(g.names, o.Case.Name())
		}
	})
	platlat.CleanScratch()

	sigs := make([]string, 0, len(groups))
	for s := range groups {
		sigs = append(sigs, s)
	}
	sort.Strings(sigs)
	failing := 0
	for _, s := range sigs {
		g := groups[s]
		sort.Strings(g.names)
		failing += len(g.names)
		show := g.names
		if len(show) > 6 {
			show = append(append([]string{}, show[:6]...), fmt.Sprintf("… (%d lattice points in all)", len(g.names)))
		}
		msg := fmt.Sprintf("%d lattice point(s) with this signature (each confirmed by a second run alone):\n%s\nfirst: %s -> %s in stage %s (exit %d)\n%s",
			len(g.names), strings.Join(show, "\n"), g.first.Case.Name(), g.first.Symptom, g.first.Stage, g.first.ExitCode, g.first.Detail)
		r.Report(s, msg, g.first.Case)
	}

	per := map[string]any{}
	for w, n := range lst.PerWorkload {
		per[w] = map[string]int{"cases": n, "verified_ok": okByWorkload[w]}
	}
	r.Cov["evaluations"] = st.Executed
	r.Cov["distinct_nontrivial"] = len(okClasses)
	r.Cov["rule"] = "one evaluation = one lattice point (workload, size-alphabet entry, arch, GPU set plain/unified, unified memory, mode/GPU model) run on the real simulator in its own process with Verify(); distinct_nontrivial = number of distinct configuration classes (workload, size class, arch, GPU set, UM, platform) whose run completed and whose Verify() passed"
	r.Cov["lattice_points"] = len(cases)
	r.Cov["lattice_emu"] = lst.Emu
	r.Cov["lattice_timing"] = lst.Timing
	r.Cov["inadmissible_combinations_skipped"] = lst.Inadmissible
	r.Cov["verified_ok"] = okCount
	r.Cov["failing_points"] = failing
	r.Cov["failing_signatures"] = len(sigs)
	r.Cov["rerun_alone"] = st.RerunAlone
	r.Cov["flaky"] = st.Flaky
	r.Cov["capped"] = st.Capped
	r.Cov["not_started_deadline"] = st.NotStarted
	r.Cov["unconfirmed"] = st.UnconfirmedNo
	r.Cov["per_workload"] = per
	r.Cov["cpu_seconds_by_mode"] = cpuByMode
	r.Cov["slowest_case"] = fmt.Sprintf("%s %.1fs", st.SlowestCase, st.SlowestS)
	r.Cov["exhaustive"] = st.NotStarted == 0 && len(st.Capped) == 0 && len(st.Flaky) == 0 && st.UnconfirmedNo == 0
	r.Assume = []string{
		"input data are whatever the workload generates with math/rand seeded to a fixed value in the worker (GODEBUG=randseednop=0); other data values are not claimed",
		"sizes are the alphabets of platlat/c01_matrix.json (smallest legal, acceptance size scaled down, one per divisibility class); sizes outside are not claimed",
		"timing mode is run only for the configuration classes amd/tests/acceptance/cases.go lists for the workload; the GPU model fixes the ISA (r9nano: gcn3, mi300a: cdna3)",
		"serial engine only (the acceptance matrix also lists -parallel; engine choice is C05's subject)",
	}
	fmt.Printf("lattice: %d points (%d emu, %d timing), ok %d, failing %d in %d signatures, capped %d, flaky %d, pool wall %.0fs, cpu %.0fs\n",
		len(cases), lst.Emu, lst.Timing, okCount, failing, len(sigs), len(st.Capped), len(st.Flaky), st.WallS, st.CPUSeconds)
	for _, f := range st.Flaky {
		fmt.Println("flaky:", f)
	}
	for _, c := range st.Capped {
		fmt.Println("capped:", c)
	}
	r.Finish()
}

func firstLines(s string, n int) string {
	l := strings.Split(strings.TrimSpace(s), "\n")
	if len(l) > n {
		l = l[:n]
	}
	return strings.Join(l, " | ")
}

func replay(r *harness.Run, cap time.Duration) {
	data, err := os.ReadFile(r.Replay)
	if err != nil {
		fmt.Fprintln(os.Stderr, err)
		os.Exit(2)
	}
	var f struct {
		Signature string       `json:"signature"`
		Case      platlat.Case `json:"case"`
	}
	if err := json.Unmarshal(data, &f); err != nil {
		fmt.Fprintln(os.Stderr, err)
		os.Exit(2)
	}
	o := platlat.Exec(f.Case, cap)
	fmt.Printf("replay %s: status=%s stage=%s symptom=%s wall=%.1fs\n", f.Case.Name(), o.Status, o.Stage, o.Symptom, o.WallS)
	switch o.Status {
	case "ok":
		fmt.Println("replay: no violation")
		os.Exit(0)
	case "fail", "hang":
		fmt.Printf("VIOLATION property=C01 replay=%s\n  signature: %s\n%s\n", r.Replay, platlat.C01Signature(o), o.Detail)
		os.Exit(1)
	}
	fmt.Println("INFRASTRUCTURE ERROR:", o.Status, o.Detail)
	os.Exit(2)
}
