// C02: timing mode is functionally transparent (same results as emulation).
// CU-level layer: all straight-line programs up to length L over an alphabet
// of instruction templates run on the real timing cu.ComputeUnit (under the
// explorer, which owns memory latencies) and on the real emu.ComputeUnit; the
// final contents of every buffer and the executed-PC sequence of every
// wavefront must be identical. The platform-level layer (shipped kernels on
// full timing platforms vs. the emulation platform) is provided by package
// platlat when present (see platform.go).
package main

import (
	"bytes"
	"encoding/binary"
	"fmt"
	"strings"
	"sync"

	"verif/mc/cuworld"
	"verif/mc/explore"
	"verif/mc/harness"
	"verif/mc/platlat"
)

type refKey struct {
	prog string
	g    cuworld.Geometry
}

var (
	refMu sync.Mutex
	refs  = map[refKey]*cuworld.Result{}
)

func emuRef(k *cuworld.Kernel, g cuworld.Geometry) *cuworld.Result {
	refMu.Lock()
	if r, ok := refs[refKey{k.Name, g}]; ok {
		refMu.Unlock()
		return r
	}
	refMu.Unlock()
	r := cuworld.RunEmu(k, g)
	refMu.Lock()
	refs[refKey{k.Name, g}] = r
	refMu.Unlock()
	return r
}

var (
	unsMu       sync.Mutex
	unsupported = map[string]string{}
)

func noteUnsupported(prog, why string) {
	unsMu.Lock()
	unsupported[prog] = why
	unsMu.Unlock()
}

func bufOf(addr int) string {
	switch {
	case addr >= cuworld.Out4:
		return "out4(v23,s22,s23)"
	case addr >= cuworld.Out3:
		return "out3(v22,s20,s21)"
	case addr >= cuworld.Tmp:
		return "tmp"
	case addr >= cuworld.Out2:
		return "out2(v21)"
	case addr >= cuworld.Out:
		return "out(v20)"
	}
	return "input-or-kernarg"
}

func diff(a, b []byte) (string, string) {
	for i := range a {
		if a[i] != b[i] {
			i &^= 3
			return bufOf(i), fmt.Sprintf("dword at %x: timing %08x, emulation %08x", i, binary.LittleEndian.Uint32(a[i:]), binary.LittleEndian.Uint32(b[i:]))
		}
	}
	return "", ""
}

func short(s string) string {
	if len(s) > 70 {
		return s[:70]
	}
	return s
}

func body(k *cuworld.Kernel, g cuworld.Geometry, o cuworld.TimingOpts) explore.Body {
	return func(x *explore.Exec) *explore.Violation {
		e := emuRef(k, g)
		if strings.Contains(e.Panic, "is not implemented") || strings.Contains(e.Panic, "not supported") {
			// the emulator says explicitly that it does not implement an instruction of this program:
			// the program is outside the supported subset the property quantifies over
			noteUnsupported(k.Name, e.Panic)
			return nil
		}
		if e.Panic != "" {
			return explore.Viol("cu/"+k.Name+"/emu-panic/"+short(e.Panic), "emulation CU panicked on program %s: %s", k.Name, e.Panic)
		}
		r := cuworld.RunTiming(x, k, g, o)
		if r.Panic != "" {
			return explore.Viol("cu/"+k.Name+"/timing-panic/"+short(r.Panic), "timing CU panicked on program %s (emulation completes): %s", k.Name, r.Panic)
		}
		if r.Viol != nil {
			r.Viol.Sig = "cu/" + k.Name + "/" + r.Viol.Sig
			return r.Viol
		}
		if !r.Quiet {
			return nil
		}
		if buf, d := diff(cuworld.DataRegion(r.Mem), cuworld.DataRegion(e.Mem)); buf != "" {
			return explore.Viol("cu/"+k.Name+"/memory-differs/"+buf, "program %s wgsize %d x %d: %s", k.Name, g.WGSize, g.NumWG, d)
		}
		for _, key := range cuworld.SortedKeys(e.PCs) {
			tp, ep := r.PCs[key], e.PCs[key]
			if len(tp) != len(ep) {
				return explore.Viol("cu/"+k.Name+"/instruction-count-differs", "program %s wavefront %v: timing executed %d instructions, emulation %d", k.Name, key, len(tp), len(ep))
			}
			for i := range tp {
				if tp[i] != ep[i] {
					return explore.Viol("cu/"+k.Name+"/pc-sequence-differs", "program %s wavefront %v: instruction #%d at pc %x in timing, %x in emulation", k.Name, key, i, tp[i], ep[i])
				}
			}
		}
		x.Steps += len(r.Events)
		x.Outcome(fmt.Sprintf("%x", cuworld.DataRegion(r.Mem)[cuworld.Out:cuworld.Out+16]))
		return nil
	}
}

func main() {
	platlat.MaybeWorker() // the platform layer re-executes this binary as worker processes
	r := harness.Start("C02", "model_checking")
	if r.Replay != "" {
		platlat.RunC02Platform(r) // returns at once unless the replay file is a platform case (then it exits itself)
	}
	t := cuworld.LoadTemplates()
	type geo = cuworld.Geometry
	geos := []geo{{64, 1}, {128, 1}}
	if r.Thorough() {
		geos = append(geos, geo{96, 1}, geo{192, 2})
	}
	opts := []cuworld.TimingOpts{{Scoreboard: false, Resident: 1, Delays: []int{7, 50}, NoAddrAttribution: true},
		// the mi300a platform's compute-unit parameters (coalescing penalty, deeper and wider memory pipelines, scoreboard)
		{Scoreboard: true, Resident: 1, Delays: []int{7, 50}, NoAddrAttribution: true, MI300AKnobs: true}}
	if r.Thorough() {
		opts = append(opts, cuworld.TimingOpts{Scoreboard: true, Resident: 2, Delays: []int{7, 50}, NoAddrAttribution: true})
	}
	var scs []harness.Scenario
	skippedRacy := 0
	add := func(seq []string, g geo, o cuworld.TimingOpts, bound int) {
		if !raceFree(seq, g.WGSize, g.NumWG, o.Resident) {
			skippedRacy++ // the property is about race-free programs only
			return
		}
		k := t.Program(seq)
		if len(seq) == 0 {
			k.Name = "empty"
		}
		name := fmt.Sprintf("%s/wg%dx%d/sb=%v/res%d", k.Name, g.WGSize, g.NumWG, o.Scoreboard, o.Resident)
		if o.MI300AKnobs {
			name += "/mi300a-knobs"
		}
		if o.SlowScalar+o.SlowVector+o.SlowInst > 0 {
			name += fmt.Sprintf("/slow-memory(s%d,v%d,i%d)", o.SlowScalar, o.SlowVector, o.SlowInst)
		}
		scs = append(scs, harness.Scenario{Name: name, Bound: bound, Body: body(k, g, o)})
	}
	b1, b2 := 1, 0
	if r.Thorough() {
		b1, b2 = 2, 1
	}
	// singles first: a template that fails alone is attributed to itself and left out of the pairs
	for gi, g := range geos {
		for oi, o := range opts {
			b := b1
			if r.Thorough() && (gi > 0 || oi > 0) {
				b = 1 // the deepest bound only on the single-wavefront geometry with the base options
			}
			add(nil, g, o, b)
			for _, n := range t.Names {
				add([]string{n}, g, o, b)
			}
		}
	}
	r.Quiet = true
	r.Assume = []string{
		"programs are straight-line sequences of templates with correct s_waitcnt use (race-free, no inter-work-group communication)",
		"memory answers arrive in request order on each path (reorder buffers, property C15); latencies are explored",
		"templates are assembled with llvm-mc-14 at authoring time (committed bytes); both CUs decode them with the repository's own decoder",
	}
	nSingles := len(scs)
	if r.Replay != "" { // replay: every scenario name must be resolvable
		for _, g := range geos {
			for _, a := range t.Names {
				for _, b := range t.Names {
					add([]string{a, b}, g, opts[0], 0)
				}
			}
		}
	}
	r.Phase(0.45, func() { r.RunScenarios(scs) })
	singleCov := map[string]any{}
	for k, v := range r.Cov {
		singleCov[k] = v
	}
	// which templates failed alone?
	failed := map[string]bool{}
	for _, n := range t.Names {
		if r.SeenSignaturePrefix("cu/" + n + "/") {
			failed[n] = true
		}
		if _, ok := unsupported[n]; ok {
			failed[n] = true
		}
	}
	var good []string
	for _, n := range t.Names {
		if !failed[n] {
			good = append(good, n)
		}
	}
	if r.Replay == "" {
		scs = nil
		for _, g := range geos[:1+len(geos)/3] {
			for _, a := range good {
				for _, b := range good {
					add([]string{a, b}, g, opts[0], b2)
				}
			}
		}
		// sustained back-pressure: 16 wavefronts (two resident work-groups of 512) run memory-heavy pairs against
		// a memory that takes one request per N cycles, so that the CU's 32-entry port buffers and the units'
		// own queues fill up (templates with one dword per work-item only: 1024 work-items fit the regions)
		memFam := []string{"smem_x2", "flat_ld_dword_0", "flat_st_dword_ld", "flat_two_outstanding", "lds_rw32"}
		slow := []cuworld.TimingOpts{
			{Resident: 2, Delays: []int{7, 50}, NoAddrAttribution: true, SlowScalar: 50, Horizon: 80000},
			{Resident: 2, Delays: []int{7, 50}, NoAddrAttribution: true, SlowVector: 30, Horizon: 80000},
			{Resident: 2, Delays: []int{7, 50}, NoAddrAttribution: true, SlowScalar: 20, SlowVector: 20, SlowInst: 10, Horizon: 80000},
			// the mi300a builder's knobs (transaction pipeline of 8 lanes among them) against a slow vector memory:
			// transactions of one instruction leave the multi-lane pipeline under back-pressure
			{Scoreboard: true, Resident: 2, Delays: []int{7, 50}, NoAddrAttribution: true, MI300AKnobs: true, SlowVector: 12, Horizon: 80000},
		}
		for _, o := range slow {
			for _, a := range memFam {
				for _, b := range memFam {
					if !failed[a] && !failed[b] {
						add([]string{a, b}, geo{512, 2}, o, 0)
					}
				}
			}
		}
		// more than 16 wavefronts of one CU waiting at barriers at once (the scheduler's barrier buffer holds 16):
		// two resident work-groups of 1024 and three of 512 run barrier programs
		manyOpts := func(res int) cuworld.TimingOpts {
			return cuworld.TimingOpts{Resident: res, Delays: []int{7, 50}, NoAddrAttribution: true, Horizon: 40000}
		}
		for _, seq := range [][]string{{"barrier_lds_exchange"}, {"barrier_lds_exchange", "barrier_lds_exchange"}, {"lds_rw32", "barrier_lds_exchange"},
			{"barrier_lds_exchange", "flat_st_dword_ld"}, {"barrier_only", "barrier_lds_exchange"}, {"flat_ld_dword_0", "barrier_lds_exchange"}, {"s_branch_skip", "barrier_lds_exchange"}} {
			ok := true
			for _, n := range seq {
				ok = ok && !failed[n]
			}
			if ok {
				mb := 0
				if r.Thorough() {
					mb = 1
				}
				add(seq, geo{1024, 2}, manyOpts(2), mb)
				add(seq, geo{512, 3}, manyOpts(3), mb)
			}
		}
		if r.Thorough() {
			// triples over a reduced alphabet: one template per execution unit family
			fam := []string{"s_add", "s_branch_skip", "v_add", "v_cmp_cndmask", "v_exec_partial", "lds_rw32", "smem_x2", "flat_ld_dword_0", "flat_st_dword_ld", "flat_two_outstanding"}
			for _, a := range fam {
				for _, b := range fam {
					for _, c := range fam {
						if !failed[a] && !failed[b] && !failed[c] {
							add([]string{a, b, c}, geos[1], opts[0], 0)
						}
					}
				}
			}
		}
		r.Phase(0.9, func() { r.RunScenarios(scs) })
		// merge coverage of both phases
		for _, key := range []string{"states", "transitions", "traces_validated_against_impl", "evaluations", "distinct_nontrivial", "scenarios_total"} {
			r.Cov[key] = toInt(r.Cov[key]) + toInt(singleCov[key])
		}
		r.Cov["exhaustive"] = r.Cov["exhaustive"].(bool) && singleCov["exhaustive"].(bool)
		r.Cov["programs_single"] = nSingles
		r.Cov["programs_sequences"] = len(scs)
		r.Cov["templates"] = len(t.Names)
		r.Cov["programs_skipped_not_race_free_for_the_geometry"] = skippedRacy
		r.Cov["templates_failing_alone_excluded_from_sequences"] = keys(failed)
		uns := map[string]string{}
		for k, v := range unsupported {
			if !strings.Contains(k, "+") {
				uns[k] = v
			}
		}
		r.Cov["templates_outside_supported_subset(emulator_reports_not_implemented)"] = uns
	}
	if r.Replay == "" {
		platlat.RunC02Platform(r)
	}
	_ = bytes.Equal
	r.Finish()
}

// footprint is how a template addresses the shared spaces it WRITES (space:layout). Templates that are not
// listed write no shared memory. Two templates with different layouts in the same space touch each other's
// bytes from different lanes: harmless inside one wavefront (program order), a data race between wavefronts.
var footprint = map[string]string{
	"flat_st_byte": "tmp:4*gid", "loop_masked_store": "tmp:4*gid", "flat_st_short": "tmp:4*gid", "flat_st_dword_ld": "tmp:4*gid", "flat_st_partial_exec": "tmp:4*gid",
	"flat_st_x2":         "tmp:16*lid",
	"flat_st_x4_cross12": "tmp:16*gid+12/16", "flat_st_x4_cross4": "tmp:16*gid+4/16", "flat_st_x2_cross": "tmp:16*gid+12/8",
	"lds_rw32": "lds:4*lid", "barrier_lds_exchange": "lds:4*lid", "lds_rw64": "lds:8*lid", "lds_read2": "lds:8*lid", "lds_offset": "lds:4*lid+16",
}

// raceFree reports whether the program made of these templates is race-free for the geometry: with a single
// wavefront every sequence is; with several, all templates must use one layout per space, and a layout based on
// the local id is excluded when two work-groups are resident together (they would write the same bytes).
func raceFree(seq []string, wgSize, numWG, resident int) bool {
	if wgSize*numWG <= 64 {
		return true
	}
	per := map[string]string{}
	for _, n := range seq {
		f, ok := footprint[n]
		if !ok {
			continue
		}
		space := f[:strings.Index(f, ":")]
		if strings.HasPrefix(f, "tmp:") && strings.Contains(f, "lid") && numWG > 1 && resident > 1 {
			return false
		}
		if prev, ok := per[space]; ok && prev != f {
			return false
		}
		per[space] = f
	}
	return true
}

func toInt(v any) int64 {
	switch x := v.(type) {
	case int:
		return int64(x)
	case int64:
		return x
	}
	return 0
}

func keys(m map[string]bool) []string {
	var s []string
	for k := range m {
		s = append(s, k)
	}
	return s
}
