package main

// Part (a): totality, no fault, sizes, prefix independence, instance agreement.

import (
	"encoding/binary"
	"encoding/hex"
	"fmt"
	"sort"
	"strings"
	"sync"

	"github.com/sarchlab/mgpusim/v4/amd/insts"

	enc "verif/mc/gcn3enc"
)

type decoders struct {
	a, b  *insts.Disassembler
	cdna3 bool
	pr    *insts.InstPrinter
	arch  enc.Arch
}

func newDecoders(cdna3 bool) *decoders {
	d := &decoders{a: insts.NewDisassembler(), b: insts.NewDisassembler(), cdna3: cdna3, pr: insts.NewInstPrinter(nil), arch: enc.GFX803}
	d.a.IsCDNA3, d.b.IsCDNA3 = cdna3, cdna3
	if cdna3 {
		d.arch = enc.GFX90A
	}
	return d
}

// second-dword patterns: zero, all ones, a literal, a valid SDWA dword
// (src0=v32, dst_sel=DWORD, src0_sel=DWORD, src1_sel=DWORD)
var secondDwords = []uint32{0, 0xFFFFFFFF, 0x12345678, 0x06060620}

const (
	junk0 = 0x9abcdef0
	junk1 = 0x0f1e2d3c
)

type viol struct {
	kind string // violation kind
	buf  []byte
	msg  string
}

// BufferCase is the replay artefact of part (a).
type BufferCase struct {
	Part  string `json:"part"`
	CDNA3 bool   `json:"cdna3"`
	Hex   string `json:"bytes"`
	Kind  string `json:"violation"`
}

func mkbuf(ws ...uint32) []byte {
	b := make([]byte, 0, 4*len(ws))
	for _, w := range ws {
		b = binary.LittleEndian.AppendUint32(b, w)
	}
	return b
}

// checkBuffer applies every rule of part (a) to one buffer.
func (ds *decoders) checkBuffer(buf []byte, print bool, out *[]viol) outcome {
	add := func(kind, msg string) {
		*out = append(*out, viol{kind, append([]byte(nil), buf...), msg})
	}
	buf = buf[:len(buf):len(buf)] // capacity = length: the bytes after the buffer do not exist
	o := safeDecode(ds.a, buf)
	switch o.kind {
	case kFault:
		add("fault/"+faultClass(o.msg), "Decode panicked with a runtime error: "+o.msg)
		return o
	case kPanic:
		add("undeclared-panic", "Decode panicked with a value that is not an explicit not-implemented diagnostic: "+o.msg)
		return o
	case kBoth:
		add("inst-and-error", o.msg)
		return o
	case kErr, kDiag:
		ob := safeDecode(ds.b, buf)
		if d := sameOutcome(o, ob); d != "" {
			add("instances-disagree/outcome", "two Disassembler instances disagree on an undecodable buffer: "+d)
		}
		return o
	}
	size := o.inst.ByteSize
	if size < 4 || size%4 != 0 || size > 8 {
		add(fmt.Sprintf("size-%d", size), fmt.Sprintf("decoded instruction reports ByteSize %d (no GCN3 instruction of these formats is longer than 8 bytes)", size))
	}
	if size > len(buf) {
		add("size-exceeds-buffer", fmt.Sprintf("decoded instruction reports ByteSize %d from a %d-byte buffer", size, len(buf)))
		return o
	}
	if size >= 4 {
		exactA := safeDecode(ds.a, buf[:size])
		if d := sameOutcome(o, exactA); d != "" {
			add("depends-on-bytes-beyond-size", fmt.Sprintf("Decode(buf) and Decode(buf[:%d]) differ in %s", size, d))
		}
		exactB := safeDecode(ds.b, buf[:size])
		if d := sameOutcome(exactA, exactB); d != "" {
			add("instances-disagree/"+strings.Fields(d)[0], "two Disassembler instances disagree: "+d)
		}
		j := append(append([]byte(nil), buf[:size]...), mkbuf(junk1, ^uint32(junk0))...)
		oj := safeDecode(ds.a, j[:12])
		if d := sameOutcome(o, oj); d != "" {
			add("depends-on-bytes-beyond-size", fmt.Sprintf("Decode(buf[:%d] ++ junk) differs in %s", size, d))
		}
	}
	if print {
		if _, f := safePrint(ds.pr, o.inst); f != "" {
			add("print-"+faultClass(f), "InstPrinter.Print of the successfully decoded instruction failed: "+f)
		}
	}
	return o
}

// wordStats are per-worker statistics.
type wordStats struct {
	words    int64
	okKeys   map[uint32]struct{} // format<<24 | opcode<<8 | size
	errKinds map[string]struct{}
}

func newWordStats() *wordStats {
	return &wordStats{okKeys: map[uint32]struct{}{}, errKinds: map[string]struct{}{}}
}

func (s *wordStats) note(o outcome) {
	if o.kind == kOK {
		s.okKeys[uint32(o.inst.FormatType)<<24|uint32(o.inst.Opcode)<<8|uint32(o.inst.ByteSize)] = struct{}{}
		return
	}
	// class of the undecodable outcome: error class, or the diagnostic text /
	// runtime error text without numbers
	m := errClass(o.msg)
	if o.kind != kErr || m == "other-error" {
		m = o.msg
		if i := strings.IndexAny(m, "0123456789["); i > 0 {
			m = m[:i]
		}
	}
	s.errKinds[kindNames[o.kind]+":"+m] = struct{}{}
}

// checkWord enumerates the buffers of one first dword. full = quick-tier
// treatment (every length, short buffers, printing); otherwise the reduced
// thorough treatment (see notes).
func (ds *decoders) checkWord(w uint32, full bool, st *wordStats, out *[]viol) {
	st.words++
	if full {
		o := ds.checkBuffer(mkbuf(w), true, out)
		st.note(o)
		for i, s := range secondDwords {
			if i >= 2 {
				st.note(ds.checkBuffer(mkbuf(w, s), true, out))
			}
			st.note(ds.checkBuffer(mkbuf(w, s, junk0), true, out))
		}
		if w&0x1FFFF == 0 || w&0x1FFFF == 0x100FF {
			// short buffers (independent of the operand fields)
			b := mkbuf(w, secondDwords[2])
			for _, n := range []int{0, 1, 2, 3, 5, 7} {
				ds.checkBuffer(b[:n], true, out)
			}
		}
		return
	}
	ds.thoroughWord(w, 3, st, out)
}

const litDword = 0x12345678

func put12(b *[12]byte, w, s, j uint32) {
	binary.LittleEndian.PutUint32(b[0:], w)
	binary.LittleEndian.PutUint32(b[4:], s)
	binary.LittleEndian.PutUint32(b[8:], j)
}

// thoroughWord is the reduced treatment of the thorough tier. pass 1: the
// 4-byte buffer and the 12-byte buffer with the literal second dword; pass 2:
// the other second dwords {0, ~0, SDWA}. passes is a bit mask.
func (ds *decoders) thoroughWord(w uint32, passes int, st *wordStats, out *[]viol) {
	var b4 [4]byte
	var b12 [12]byte
	binary.LittleEndian.PutUint32(b4[:], w)
	add := func(kind string, buf []byte, msg string) {
		*out = append(*out, viol{kind, append([]byte(nil), buf...), msg})
	}
	o4 := safeDecode(ds.a, b4[:4:4])
	check12 := func(s uint32, withB bool) {
		put12(&b12, w, s, junk0)
		o := safeDecode(ds.a, b12[:12:12])
		st.note(o)
		switch o.kind {
		case kFault:
			add("fault/"+faultClass(o.msg), b12[:], "Decode panicked with a runtime error: "+o.msg)
			return
		case kPanic:
			add("undeclared-panic", b12[:], o.msg)
			return
		case kBoth:
			add("inst-and-error", b12[:], o.msg)
			return
		case kErr, kDiag:
			if withB {
				if d := sameOutcome(o, safeDecode(ds.b, b12[:12:12])); d != "" {
					add("instances-disagree/outcome", b12[:], d)
				}
			}
			return
		}
		size := o.inst.ByteSize
		if size < 4 || size%4 != 0 || size > 8 {
			add(fmt.Sprintf("size-%d", size), b12[:], fmt.Sprintf("decoded instruction reports ByteSize %d", size))
			if size < 4 || size > 12 || size%4 != 0 {
				return
			}
		}
		if o4.kind == kOK && size == 4 {
			if d := sameOutcome(o4, o); d != "" {
				add("depends-on-bytes-beyond-size", b12[:], "Decode(buf) and Decode(buf[:4]) differ in "+d)
			}
			return
		}
		if withB {
			ex := safeDecode(ds.b, b12[:size:size])
			if d := sameOutcome(o, ex); d != "" {
				// attribute: same instance first
				if d2 := sameOutcome(o, safeDecode(ds.a, b12[:size:size])); d2 != "" {
					add("depends-on-bytes-beyond-size", b12[:], fmt.Sprintf("Decode(buf) and Decode(buf[:%d]) differ in %s", size, d2))
				} else {
					add("instances-disagree/"+strings.Fields(d)[0], b12[:size], "two Disassembler instances disagree: "+d)
				}
			}
		}
		if size < 12 {
			var j [12]byte
			copy(j[:], b12[:size])
			for i := size; i < 12; i++ {
				j[i] = byte(0xC3 ^ i*29)
			}
			if d := sameOutcome(o, safeDecode(ds.a, j[:12:12])); d != "" {
				add("depends-on-bytes-beyond-size", b12[:], fmt.Sprintf("Decode(buf[:%d] ++ junk) differs in %s", size, d))
			}
		}
		if size > 4 && o4.kind == kOK {
			add("size-exceeds-buffer", b4[:], fmt.Sprintf("the 4-byte buffer decodes successfully although the instruction needs %d bytes", size))
		}
	}
	if passes&1 != 0 {
		st.words++
		st.note(o4)
		switch o4.kind {
		case kFault:
			add("fault/"+faultClass(o4.msg), b4[:], "Decode panicked with a runtime error: "+o4.msg)
		case kPanic:
			add("undeclared-panic", b4[:], o4.msg)
		case kBoth:
			add("inst-and-error", b4[:], o4.msg)
		case kOK:
			if o4.inst.ByteSize != 4 {
				add("size-exceeds-buffer", b4[:], fmt.Sprintf("decoded instruction reports ByteSize %d from a 4-byte buffer", o4.inst.ByteSize))
			} else if d := sameOutcome(o4, safeDecode(ds.b, b4[:4:4])); d != "" {
				add("instances-disagree/"+strings.Fields(d)[0], b4[:], "two Disassembler instances disagree: "+d)
			}
		}
		check12(litDword, true)
	}
	if passes&2 != 0 {
		if o4.kind == kFault { // faults on the first dword alone: nothing new to learn
			return
		}
		check12(0, false)
		check12(0xFFFFFFFF, false)
		check12(secondDwords[3], true)
	}
}

func (d *decoders) String() string {
	if d.cdna3 {
		return "IsCDNA3=true"
	}
	return "IsCDNA3=false"
}

// ---------------------------------------------------------------------------
// signatures: minimise the failing buffer field by field

var operandClass = map[string]string{"ssrc0": "ssrc", "ssrc1": "ssrc", "sdst": "sdst", "sdata": "sdst", "src0": "src9", "src1": "src9", "src2": "src9",
	"vsrc1": "vgpr", "vdst": "vgpr", "addr": "vgpr", "data": "vgpr", "data0": "vgpr", "data1": "vgpr", "sbase": "sbase"}

// valueClass names the class of a field value for signatures.
func valueClass(field string, v uint32) string {
	switch operandClass[field] {
	case "ssrc", "sdst", "src9":
		src9 := operandClass[field] == "src9"
		switch {
		case v == 123:
			return "ttmp11"
		case v == 249 && src9:
			return "sdwa-249"
		case v == 250 && src9:
			return "dpp-250"
		case v == 254 && src9:
			return "lds-direct-254"
		case v == 125, v >= 209 && v <= 239, v == 249, v == 250, v == 254:
			return "reserved-code"
		case v == 255:
			return "literal-255"
		case v >= 256:
			return "vgpr"
		case v >= 128:
			return "const"
		case v >= 102:
			return "special-reg"
		}
		return "sgpr"
	}
	if v == 0 {
		return "zero"
	}
	return "nonzero"
}

func getField(dws []uint32, f enc.Field) uint32 {
	if f.DW >= len(dws) {
		return 0
	}
	return dws[f.DW] >> uint(f.Lo) & f.Max()
}

func setField(dws []uint32, f enc.Field, v uint32) {
	if f.DW >= len(dws) {
		return
	}
	dws[f.DW] = dws[f.DW]&^(f.Max()<<uint(f.Lo)) | v<<uint(f.Lo)
}

func toDwords(buf []byte) []uint32 {
	var d []uint32
	for i := 0; i+4 <= len(buf); i += 4 {
		d = append(d, binary.LittleEndian.Uint32(buf[i:]))
	}
	return d
}

func (ds *decoders) hasViolation(buf []byte, kind string) bool {
	var vs []viol
	ds.checkBuffer(buf, true, &vs)
	for _, v := range vs {
		if v.kind == kind {
			return true
		}
	}
	return false
}

// formatOf names the format of a first dword by the independent matcher.
var fmtByPrefix [512]string
var fmtOnce sync.Once

func matchFormatFast(w uint32) string {
	fmtOnce.Do(func() {
		for p := uint32(0); p < 512; p++ {
			fmtByPrefix[p] = enc.MatchFormat(enc.GFX803, p<<23)
		}
	})
	return fmtByPrefix[w>>23]
}

func (ds *decoders) formatOf(w uint32) string {
	f := matchFormatFast(w)
	if f == "" {
		return fmt.Sprintf("encoding-%06b", w>>26)
	}
	if f == "VOP3a" && vop3bOps()[int(w>>16&0x3ff)] {
		return "VOP3b"
	}
	return f
}

var vop3bOnce sync.Once
var vop3bSet map[int]bool

// vop3bOps: the VOP3 opcodes that use the VOP3b layout (scalar destination in
// bits 14:8) according to the llvm-mc derived reference tables.
func vop3bOps() map[int]bool {
	vop3bOnce.Do(func() {
		vop3bSet = map[int]bool{}
		for _, a := range []enc.Arch{enc.GFX803, enc.GFX90A} {
			rows, _ := enc.LoadTable(a)
			for _, r := range rows {
				if r.Fmt == "VOP3b" {
					vop3bSet[r.Op] = true
				}
			}
		}
	})
	return vop3bSet
}

type sigEntry struct {
	sig    string
	min    []byte
	detail string
}

var sigCache sync.Map // decoder + preKey -> sigEntry

// signature minimises the buffer and builds the violation signature; the
// result is cached per class combination of the buffer's fields.
func (ds *decoders) signature(v viol) (sig string, min []byte, detail string) {
	k := ds.String() + "|" + ds.preKey(v)
	if e, ok := sigCache.Load(k); ok {
		se := e.(sigEntry)
		return se.sig, se.min, se.detail
	}
	sig, min, detail = ds.signatureSlow(v)
	sigCache.Store(k, sigEntry{sig, min, detail})
	return
}

func (ds *decoders) signatureSlow(v viol) (sig string, min []byte, detail string) {
	buf := append([]byte(nil), v.buf...)
	if len(buf) < 4 {
		return "decode/any-format/buffer-shorter-than-4-bytes/" + v.kind, buf, fmt.Sprintf("%d-byte buffer", len(buf))
	}
	// shrink / zero trailing dwords
	for len(buf) > 4 && len(buf)%4 == 0 && ds.hasViolation(buf[:len(buf)-4], v.kind) {
		buf = buf[:len(buf)-4]
	}
	if len(buf)%4 != 0 {
		n := len(buf) / 4 * 4
		if ds.hasViolation(buf[:n], v.kind) {
			buf = buf[:n]
		}
	}
	dws := toDwords(buf)
	tail := buf[len(dws)*4:]
	rebuild := func() []byte { return append(mkbuf(dws...), tail...) }
	fname := ds.formatOf(dws[0])
	l := enc.LayoutOf(enc.GFX803, fname)
	var need []string
	if l != nil {
		fields := append([]enc.Field(nil), l.Fields...)
		if len(dws) > l.Dwords { // extension dword: try zeroing it wholesale, then SDWA fields
			save := dws[l.Dwords]
			dws[l.Dwords] = 0
			if !ds.hasViolation(rebuild(), v.kind) {
				dws[l.Dwords] = save
			}
		}
		for _, f := range fields {
			cur := getField(dws, f)
			if cur == 0 {
				continue
			}
			setField(dws, f, 0)
			if ds.hasViolation(rebuild(), v.kind) {
				continue
			}
			setField(dws, f, cur)
			cls := valueClass(f.Name, cur)
			if fname == "VOP3a" && f.Name == "vdst" && getField(dws, l.Op) < 256 {
				cls = valueClass("sdst", cur) // VOPC opcodes in VOP3: VDST holds a scalar destination code
			}
			need = append(need, f.Name+"-"+cls)
		}
		// opcode dependence: does the violation occur for every opcode the
		// decoder knows in this format, or only for some?
		op := getField(dws, l.Op)
		knownOps, violating := 0, 0
		for o := uint32(0); o <= l.Op.Max(); o++ {
			setField(dws, l.Op, o)
			b := rebuild()
			if ds.formatOf(toDwords(b)[0]) != fname {
				continue
			}
			pad := append(append([]byte(nil), b...), make([]byte, 8)...)
			if out := safeDecode(ds.a, pad[:12]); out.kind == kErr && strings.Contains(out.msg, "not found") {
				continue
			}
			knownOps++
			if ds.hasViolation(b, v.kind) {
				violating++
			}
		}
		setField(dws, l.Op, op)
		if violating < knownOps {
			need = append(need, "some-opcodes")
		}
	}
	cause := strings.Join(need, "+")
	if cause == "" {
		cause = "any-operands"
	}
	if l != nil && (len(buf) < 4*l.Dwords || len(buf)%4 != 0) {
		cause += "/truncated-buffer"
	}
	min = rebuild()
	return fmt.Sprintf("decode/%s/%s/%s", fname, cause, v.kind), min, fmt.Sprintf("minimal reproducer bytes %s (%s)", hex.EncodeToString(min), ds)
}

// preKey is a cheap key that groups words by the classes of their fields, so
// the expensive minimisation runs once per class combination.
func (ds *decoders) preKey(v viol) string {
	if len(v.buf) < 4 {
		return "short/" + v.kind
	}
	dws := toDwords(v.buf)
	fname := ds.formatOf(dws[0])
	l := enc.LayoutOf(enc.GFX803, fname)
	var sb strings.Builder
	sb.WriteString(fname)
	sb.WriteByte('/')
	sb.WriteString(v.kind)
	fmt.Fprintf(&sb, "/%d", len(v.buf))
	if l != nil {
		for _, f := range l.Fields {
			sb.WriteByte('/')
			sb.WriteString(valueClass(f.Name, getField(dws, f)))
		}
		if len(dws) > l.Dwords {
			fmt.Fprintf(&sb, "/x%08x", dws[l.Dwords]&0x0f0f0fff)
		}
	}
	return sb.String()
}

// reporter de-duplicates violations across workers.
type reporter struct {
	other    *decoders // the IsCDNA3=false decoders, to tell common from CDNA3-only violations
	mu       sync.Mutex
	seenFast map[uint64]bool
	seen     map[string]bool
	sigs     map[string]*sigInfo
	report   func(sig, msg string, c any)
}

type sigInfo struct {
	count int64
	first string
	c     any
}

// fastKey is a cheap numeric version of preKey for the hot path.
func (ds *decoders) fastKey(v viol) uint64 {
	h := uint64(14695981039346656037)
	mix := func(x uint64) { h = (h ^ x) * 1099511628211 }
	for i := 0; i < len(v.kind); i++ {
		mix(uint64(v.kind[i]))
	}
	mix(uint64(len(v.buf)))
	if ds.cdna3 {
		mix(0x9e37)
	}
	if len(v.buf) < 4 {
		return h
	}
	w := binary.LittleEndian.Uint32(v.buf)
	fname := ds.formatOf(w)
	for i := 0; i < len(fname); i++ {
		mix(uint64(fname[i]))
	}
	l := enc.LayoutOf(enc.GFX803, fname)
	if l == nil {
		return h
	}
	var dws [3]uint32
	n := 0
	for i := 0; i+4 <= len(v.buf) && n < 3; i += 4 {
		dws[n] = binary.LittleEndian.Uint32(v.buf[i:])
		n++
	}
	for _, f := range l.Fields {
		c := valueClass(f.Name, getField(dws[:n], f))
		mix(uint64(len(c))<<8 | uint64(c[0]) | uint64(c[len(c)-1])<<16)
	}
	if n > l.Dwords {
		mix(uint64(dws[l.Dwords] & 0x0f0f0fff))
	}
	return h
}

func (r *reporter) handle(ds *decoders, vs []viol) {
	for _, v := range vs {
		fk := ds.fastKey(v)
		r.mu.Lock()
		if r.seenFast[fk] {
			r.mu.Unlock()
			continue
		}
		r.seenFast[fk] = true
		r.mu.Unlock()
		k := ds.String() + "|" + ds.preKey(v)
		r.mu.Lock()
		if r.seen[k] {
			r.mu.Unlock()
			continue
		}
		r.seen[k] = true
		r.mu.Unlock()
		sig, min, detail := ds.signature(v)
		if ds.cdna3 && !r.other.hasViolation(v.buf, v.kind) {
			sig = "cdna3/" + sig // only the IsCDNA3=true decoder shows it
		}
		r.add(sig, v.msg+"; "+detail+"; first seen with buffer "+hex.EncodeToString(v.buf)+" -> "+describe(safeDecode(ds.a, v.buf), ds.pr),
			BufferCase{Part: "a", CDNA3: ds.cdna3, Hex: hex.EncodeToString(min), Kind: v.kind})
	}
}

func (r *reporter) add(sig, msg string, c any) {
	r.mu.Lock()
	defer r.mu.Unlock()
	if s, ok := r.sigs[sig]; ok {
		s.count++
		return
	}
	r.sigs[sig] = &sigInfo{1, msg, c}
}

func (r *reporter) flush() []string {
	r.mu.Lock()
	defer r.mu.Unlock()
	var keys []string
	for k := range r.sigs {
		keys = append(keys, k)
	}
	sort.Strings(keys)
	for _, k := range keys {
		s := r.sigs[k]
		r.report(k, s.first, s.c)
	}
	return keys
}

// ---------------------------------------------------------------------------
// quick-tier word enumeration: format x opcode x boundary alphabets of dword 0

func wordAlphabet(f enc.Field) []uint32 {
	switch operandClass[f.Name] {
	case "ssrc":
		return []uint32{0, 1, 101, 102, 106, 107, 111, 112, 122, 123, 124, 125, 126, 127, 128, 192, 193, 208, 209, 239, 240, 248, 249, 250, 251, 253, 254, 255}
	case "sdst":
		return []uint32{0, 1, 101, 102, 106, 107, 111, 112, 122, 123, 124, 125, 126, 127}
	case "src9":
		return []uint32{0, 101, 102, 106, 123, 124, 125, 126, 128, 193, 208, 209, 239, 240, 248, 249, 250, 251, 253, 254, 255, 256, 257, 511}
	case "vgpr":
		return []uint32{0, 1, 127, 128, 255}
	case "sbase":
		return []uint32{0, 1, 50, 51, 53, 62, 63}
	}
	if f.Bits() <= 3 {
		var l []uint32
		for v := uint32(0); v <= f.Max(); v++ {
			l = append(l, v)
		}
		return l
	}
	return []uint32{0, 1, f.Max() >> 1, f.Max()>>1 + 1, f.Max()}
}

// quickWords lists the first dwords of the quick tier: per format and opcode
// value, every dword-0 field over its boundary alphabet one at a time and all
// pairs of dword-0 fields (other fields zero), each also with the reserved
// bits of dword 0 set; plus every 6-bit ENCODING prefix with payload patterns.
func quickWords() []uint32 {
	set := map[uint32]struct{}{}
	add := func(w uint32) { set[w] = struct{}{} }
	for _, name := range enc.FormatNames(enc.GFX803) {
		if name == "VOP3b" {
			continue
		}
		l := enc.LayoutOf(enc.GFX803, name)
		var f0 []enc.Field
		var used uint32 = l.Mask | l.Op.Max()<<uint(l.Op.Lo)
		for _, f := range l.Fields {
			if f.DW == 0 {
				f0 = append(f0, f)
				used |= f.Max() << uint(f.Lo)
			}
		}
		reserved := ^used
		for op := uint32(0); op <= l.Op.Max(); op++ {
			base := l.Enc | op<<uint(l.Op.Lo)
			if enc.MatchFormat(enc.GFX803, base) != name {
				continue // aliases a more specific format, enumerated there
			}
			add(base)
			add(base | reserved)
			alpha := func(f enc.Field) []uint32 {
				l := wordAlphabet(f)
				if name == "VOP3a" && f.Name == "vdst" {
					// for the VOPC opcodes in VOP3 (and v_readlane_b32) VDST holds a scalar destination code
					l = append(append([]uint32(nil), l...), 101, 102, 106, 107, 111, 112, 122, 123, 124, 125, 126)
				}
				return l
			}
			for i := range f0 {
				for _, a := range alpha(f0[i]) {
					w := base | a<<uint(f0[i].Lo)
					add(w)
					add(w | reserved)
					for j := i + 1; j < len(f0); j++ {
						for _, b := range alpha(f0[j]) {
							add(w | b<<uint(f0[j].Lo))
						}
					}
				}
			}
		}
	}
	// every 6-bit ENCODING prefix (including formats the decoder does not
	// implement and unassigned prefixes) with a few payload patterns
	for p := uint32(0); p < 64; p++ {
		for op := uint32(0); op < 1024; op++ {
			for _, pay := range []uint32{0, 0xFFFF, 0x7B7D} {
				add(p<<26 | op<<16 | pay)
			}
		}
	}
	out := make([]uint32, 0, len(set))
	for w := range set {
		out = append(out, w)
	}
	sort.Slice(out, func(i, j int) bool { return out[i] < out[j] })
	return out
}
