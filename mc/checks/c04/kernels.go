package main

// Part (c): every kernel of every shipped .hsaco decodes sequentially from its
// entry, consuming the code exactly.

import (
	"bufio"
	"bytes"
	"debug/elf"
	_ "embed"
	"encoding/binary"
	"encoding/hex"
	"fmt"
	"os"
	"path/filepath"
	"sort"
	"strconv"
	"strings"

	"github.com/sarchlab/mgpusim/v4/amd/insts"

	enc "verif/mc/gcn3enc"
)

// archSize is the architectural size of the instruction at the head of b by
// the reference format tables (base size of the format, plus one dword when a
// source field selects a literal, SDWA or DPP), and its opcode number.
func archSize(a enc.Arch, b []byte) (int, int) {
	if len(b) < 4 {
		return 0, 0
	}
	w := binary.LittleEndian.Uint32(b)
	f := enc.MatchFormat(a, w)
	l := enc.LayoutOf(a, f)
	if l == nil {
		return 0, 0
	}
	sz := 4 * l.Dwords
	op := int(w >> uint(l.Op.Lo) & l.Op.Max())
	if l.Dwords == 1 {
		for _, fl := range l.Fields {
			v := w >> uint(fl.Lo) & fl.Max()
			switch fl.Name {
			case "ssrc0", "ssrc1":
				if v == 255 {
					sz = 8
				}
			case "src0":
				if v == 255 || v == 249 || v == 250 {
					sz = 8
				}
			}
		}
	}
	return sz, op
}

//go:embed testdata/kernels_gfx803.tsv
var kernelGolden []byte

// KernelCase is the replay artefact of part (c).
type KernelCase struct {
	Part   string `json:"part"`
	File   string `json:"file"`
	Kernel string `json:"kernel"`
}

func repoDir() string {
	if d := os.Getenv("VERIF_REPO_DIR"); d != "" {
		return d
	}
	return "/repo"
}

func findHsaco() []string {
	var out []string
	filepath.Walk(repoDir(), func(p string, info os.FileInfo, err error) error {
		if err == nil && !info.IsDir() && strings.HasSuffix(p, ".hsaco") {
			rel, _ := filepath.Rel(repoDir(), p)
			out = append(out, rel)
		}
		return nil
	})
	sort.Strings(out)
	return out
}

// golden instruction boundaries from llvm-objdump-14 (gfx803 objects):
// file -> virtual address -> size
func loadKernelGolden() map[string]map[uint64]int {
	m := map[string]map[uint64]int{}
	sc := bufio.NewScanner(bytes.NewReader(kernelGolden))
	sc.Buffer(make([]byte, 1<<24), 1<<24)
	for sc.Scan() {
		l := sc.Text()
		if l == "" || l[0] == '#' {
			continue
		}
		p := strings.Split(l, "\t")
		if len(p) != 2 {
			continue
		}
		mm := map[uint64]int{}
		for _, it := range strings.Fields(p[1]) {
			i := strings.IndexByte(it, ':')
			a, _ := strconv.ParseUint(it[:i], 16, 64)
			n, _ := strconv.Atoi(it[i+1:])
			mm[a] = n
		}
		m[p[0]] = mm
	}
	return m
}

type kernelStats struct {
	files, kernels, insts int
	bytes                 int64
	goldenChecked         int
	machs                 map[string]int
}

func elfMach(path string) uint32 {
	f, err := os.Open(path)
	if err != nil {
		return 0
	}
	defer f.Close()
	var hdr [64]byte
	if _, err := f.Read(hdr[:]); err != nil {
		return 0
	}
	return binary.LittleEndian.Uint32(hdr[48:]) & 0xff
}

// kernelNames lists the kernels the loader can be asked for (same rule as the
// loader: sized symbols of .text). ok=false: the loader would log.Fatal.
func kernelNames(f *elf.File) (names []string, ok bool) {
	if f.Section(".text") == nil {
		return nil, false
	}
	syms, err := f.Symbols()
	if err != nil {
		return []string{""}, true
	}
	for _, s := range syms {
		if s.Section == elf.SHN_UNDEF || int(s.Section) >= len(f.Sections) {
			continue
		}
		if f.Sections[s.Section].Name == ".text" && s.Size > 0 {
			names = append(names, s.Name)
		}
	}
	if len(names) == 0 {
		return []string{""}, true
	}
	return names, true
}

func checkKernel(rel, name string, golden map[uint64]int, st *kernelStats, report func(sig, msg string, c any)) {
	path := filepath.Join(repoDir(), rel)
	f, err := elf.Open(path)
	if err != nil {
		report("kernel/elf-unreadable", rel+": "+err.Error(), KernelCase{"c", rel, name})
		return
	}
	defer f.Close()
	mach := elfMach(path)
	cdna3 := mach != 0x2a && mach != 0x02 // everything that is not gfx803/gfx600-era is run with IsCDNA3 (as the emulator builder does for gfx942)
	var co *insts.KernelCodeObject
	func() {
		defer func() {
			if r := recover(); r != nil {
				report("kernel/loader-panic", fmt.Sprintf("%s kernel %q: loader panicked: %v", rel, name, r), KernelCase{"c", rel, name})
			}
		}()
		co = insts.LoadKernelCodeObjectFromELF(f, name)
	}()
	if co == nil {
		return
	}
	data := co.InstructionData()
	st.kernels++
	st.bytes += int64(len(data))
	d := insts.NewDisassembler()
	d.IsCDNA3 = cdna3
	pr := insts.NewInstPrinter(nil)
	var base uint64
	if co.Symbol != nil {
		base = co.Symbol.Value
		if co.Version != insts.CodeObjectV5 {
			base += 256
		}
	}
	archTag := "gfx803"
	if cdna3 {
		archTag = fmt.Sprintf("mach-%#x", mach)
		if mach == 0x4c {
			archTag = "gfx942"
		}
	}
	pc := 0
	var last string
	missing := map[string]bool{}
	skipped := 0
	for pc < len(data) {
		o := safeDecode(d, data[pc:])
		if o.kind != kOK {
			end := pc + 8
			if end > len(data) {
				end = len(data)
			}
			w := binary.LittleEndian.Uint32(append(append([]byte(nil), data[pc:end]...), 0, 0, 0, 0))
			fm := (&decoders{}).formatOf(w)
			if o.kind == kErr && strings.Contains(o.msg, "not found") {
				// an opcode the decode table lacks: report it, then skip the
				// instruction by its architectural size and keep going so
				// that every missing opcode of the kernel is found
				a := enc.GFX803
				if cdna3 {
					a = enc.GFX90A
				}
				sz, opn := archSize(a, data[pc:])
				if sz > 0 && pc+sz <= len(data) {
					k := fmt.Sprintf("%s/%d", fm, opn)
					if !missing[k] {
						missing[k] = true
						report(fmt.Sprintf("kernel/%s/opcode-not-in-decode-table/%s/%d", archTag, fm, opn),
							fmt.Sprintf("%s kernel %q: instruction at code offset %#x (bytes %s) is not decoded: %s; previous instruction %q", rel, name, pc, hex.EncodeToString(data[pc:end]), o.msg, last), KernelCase{"c", rel, name})
					}
					pc += sz
					skipped++
					continue
				}
			}
			cls := kindNames[o.kind]
			if o.kind == kErr {
				cls = errClass(o.msg)
			}
			report(fmt.Sprintf("kernel/%s/%s/%s", archTag, fm, cls),
				fmt.Sprintf("%s kernel %q: instruction at code offset %#x (bytes %s) is not decoded: %s: %s; previous instruction %q; %d of %d bytes consumed",
					rel, name, pc, hex.EncodeToString(data[pc:end]), kindNames[o.kind], o.msg, last, pc, len(data)), KernelCase{"c", rel, name})
			return
		}
		if o.inst.ByteSize <= 0 || pc+o.inst.ByteSize > len(data) {
			report(fmt.Sprintf("kernel/%s/size-overruns-code", archTag), fmt.Sprintf("%s kernel %q: instruction at %#x has size %d, code size %d", rel, name, pc, o.inst.ByteSize, len(data)), KernelCase{"c", rel, name})
			return
		}
		if golden != nil {
			allZero := true
			for _, x := range data[pc : pc+o.inst.ByteSize] {
				if x != 0 {
					allZero = false
				}
			}
			if want, ok := golden[base+uint64(pc)]; (!ok && !allZero) || (ok && want != o.inst.ByteSize) {
				s, _ := safePrint(pr, o.inst)
				report(fmt.Sprintf("kernel/%s/boundary-differs-from-llvm-objdump", archTag),
					fmt.Sprintf("%s kernel %q: at address %#x the decoder sees %q of %d bytes, llvm-objdump-14 has an instruction of %d bytes there (0 = none)", rel, name, base+uint64(pc), s, o.inst.ByteSize, want), KernelCase{"c", rel, name})
				return
			}
			if !allZero {
				st.goldenChecked++
			}
		}
		last, _ = safePrint(pr, o.inst)
		pc += o.inst.ByteSize
		st.insts++
	}
	if pc != len(data) {
		report(fmt.Sprintf("kernel/%s/sizes-do-not-sum-to-code-size", archTag), fmt.Sprintf("%s kernel %q: consumed %d of %d", rel, name, pc, len(data)), KernelCase{"c", rel, name})
	}
}

func runKernels(only *KernelCase, report func(sig, msg string, c any)) *kernelStats {
	st := &kernelStats{machs: map[string]int{}}
	golden := loadKernelGolden()
	for _, rel := range findHsaco() {
		if only != nil && only.File != rel {
			continue
		}
		path := filepath.Join(repoDir(), rel)
		f, err := elf.Open(path)
		if err != nil {
			report("kernel/elf-unreadable", rel+": "+err.Error(), KernelCase{"c", rel, ""})
			continue
		}
		names, ok := kernelNames(f)
		f.Close()
		st.files++
		st.machs[fmt.Sprintf("%#x", elfMach(path))]++
		if !ok {
			report("kernel/no-text-section", rel, KernelCase{"c", rel, ""})
			continue
		}
		for _, n := range names {
			if only != nil && only.Kernel != n {
				continue
			}
			checkKernel(rel, n, golden[rel], st, report)
		}
	}
	return st
}
