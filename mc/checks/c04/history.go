package main

// History pass of C04 ("deterministic": decoding the same bytes always yields an equal instruction, whatever was
// decoded before, on this or on any other decoder instance, and an instruction that was returned does not change
// afterwards). The round-trip part compares two decoder instances on the same bytes at the same moment, which
// cannot see state shared by all instances of the process; this pass runs FIRST in the process and enumerates every
// ordered pair (u1, u2) of a small alphabet of operand uses - the same inline constant read as a 32-bit and as a
// 64-bit source by scalar and vector formats - each pair with an inline-constant code no other pair touches:
//
//	x1 := decode(u1[c]) on A; snapshot(x1); decode(u2[c]) on A;
//	x1 must still equal its snapshot; decode(u1[c]) on A, on B and on a decoder created now must equal the snapshot.
//
// (seed C04-10: a package-level table of pre-built inline-constant operands that the 64-bit decoders write RegCount into)

import (
	"encoding/binary"
	"fmt"

	"github.com/sarchlab/mgpusim/v4/amd/insts"
)

type histUse struct {
	name string
	word uint32 // first dword with SRC0 = 0; the constant code is or-ed in
}

var histUses = []histUse{
	{"s_mov_b32 s0, C", 0xBE800000},
	{"s_mov_b64 s[0:1], C", 0xBE800100},
	{"v_mov_b32 v0, C", 0x7E000200},
	{"v_cvt_f32_f64 v0, C", 0x7E001E00},
	{"s_and_b64 s[0:1], C, s[2:3]", 0x86800200},
	{"v_cmp_eq_u64 vcc, C, v[2:3]", 0x7DD40400},
}

type instSnap struct {
	name string
	size int
	ops  [8]insts.Operand
	has  [8]bool
}

func operandsOf(i *insts.Inst) [8]*insts.Operand {
	return [8]*insts.Operand{i.Src0, i.Src1, i.Src2, i.Dst, i.SDst, i.Addr, i.Data, i.Data1}
}

func snapOf(i *insts.Inst) instSnap {
	s := instSnap{name: i.InstName, size: i.ByteSize}
	for k, o := range operandsOf(i) {
		if o != nil {
			s.ops[k], s.has[k] = *o, true
		}
	}
	return s
}

var histSlot = [8]string{"Src0", "Src1", "Src2", "Dst", "SDst", "Addr", "Data", "Data1"}

// diffSnap names the first difference between an instruction and a snapshot ("" = equal).
func diffSnap(i *insts.Inst, s instSnap) string {
	if i.InstName != s.name || i.ByteSize != s.size {
		return fmt.Sprintf("name/size %s/%d, was %s/%d", i.InstName, i.ByteSize, s.name, s.size)
	}
	for k, o := range operandsOf(i) {
		if (o != nil) != s.has[k] {
			return histSlot[k] + " presence"
		}
		if o == nil {
			continue
		}
		w := s.ops[k]
		if !sameOperand(o, &w) {
			return fmt.Sprintf("%s {type %d code %d RegCount %d int %d float %v}, was {type %d code %d RegCount %d int %d float %v}", histSlot[k],
				o.OperandType, o.Code, o.RegCount, o.IntValue, o.FloatValue, w.OperandType, w.Code, w.RegCount, w.IntValue, w.FloatValue)
		}
	}
	return ""
}

func historyPass(report func(sig, msg string, c any), cov map[string]any) {
	type pairCase struct {
		Part   string `json:"part"`
		CDNA3  bool   `json:"is_cdna3"`
		First  string `json:"decoded_first"`
		Second string `json:"decoded_second"`
		Code   int    `json:"source_operand_code"`
	}
	pairs, skipped, checks := 0, 0, 0
	var sample any
	alphabet := map[string]string{} // template -> what the decoder under test calls it
	// operand families: the source operand C of every use is taken from one family; every ordered pair gets a code of
	// its own (an inline constant, an even scalar register >= s4, an even vector register, an inline float), so that
	// state kept per operand code is clean when the pair starts
	vop := []histUse{histUses[2], histUses[3], histUses[5]}
	type family struct {
		name  string
		codes []int
		uses  []histUse
		flags []bool
	}
	seq := func(lo, hi, step int) (out []int) {
		for c := lo; c <= hi; c += step {
			out = append(out, c)
		}
		return out
	}
	families := []family{
		{"inline integer", seq(129, 208, 1), histUses, []bool{false, true}},
		{"scalar register", seq(4, 100, 2), histUses, []bool{false}},
		{"vector register", seq(256+4, 256+254, 2), vop, []bool{false, true}},
		{"inline float", seq(240, 248, 1), vop, []bool{false}},
	}
	for _, fam := range families {
		next := 0
		for _, cdna3 := range fam.flags {
			a, b := insts.NewDisassembler(), insts.NewDisassembler()
			a.IsCDNA3, b.IsCDNA3 = cdna3, cdna3
			for _, u1 := range fam.uses {
				for _, u2 := range fam.uses {
					if next >= len(fam.codes) {
						skipped++ // no unused code left in this family
						continue
					}
					c := fam.codes[next]
					next++
					buf := func(u histUse) []byte {
						out := make([]byte, 8)
						binary.LittleEndian.PutUint32(out, u.word|uint32(c))
						return out
					}
					pc := pairCase{"history", cdna3, u1.name, u2.name, c}
					o1 := safeDecode(a, buf(u1))
					if o1.kind != kOK {
						skipped++
						continue
					}
					snap := snapOf(o1.inst)
					alphabet[fmt.Sprintf("%s, C = %s (IsCDNA3=%v)", u1.name, fam.name, cdna3)] = snap.name
					o2 := safeDecode(a, buf(u2))
					if o2.kind != kOK {
						skipped++
						continue
					}
					pairs++
					if sample == nil {
						sample = map[string]any{"pair": pc, "first_decodes_as": snap.name, "second_decodes_as": o2.inst.InstName}
					}
					where := fmt.Sprintf("IsCDNA3=%v, source operand code %d (%s): after decoding \"%s\" (%s), then \"%s\" (%s)", cdna3, c, fam.name, u1.name, snap.name, u2.name, o2.inst.InstName)
					checks++
					if d := diffSnap(o1.inst, snap); d != "" {
						report("history/returned-instruction-changed-by-a-later-decode", where+": the instruction object returned by the first call now has "+d, pc)
					}
					fresh := insts.NewDisassembler()
					fresh.IsCDNA3 = cdna3
					for _, dd := range []struct {
						what string
						d    *insts.Disassembler
					}{{"the same decoder", a}, {"a second decoder instance", b}, {"a decoder created afterwards", fresh}} {
						checks++
						o := safeDecode(dd.d, buf(u1))
						if o.kind != kOK {
							report("history/decode-outcome-depends-on-earlier-decodes", where+": decoding the first bytes again on "+dd.what+" no longer succeeds", pc)
							continue
						}
						if d := diffSnap(o.inst, snap); d != "" {
							report("history/decode-result-depends-on-earlier-decodes", where+": decoding the first bytes again on "+dd.what+" gives "+d, pc)
						}
					}
				}
			}
		}
	}
	cov["history_ordered_pairs"] = pairs
	cov["history_pairs_skipped_undecodable"] = skipped
	cov["history_comparisons"] = checks
	cov["history_sample"] = sample
	cov["history_alphabet_decodes_as"] = alphabet
	fmt.Printf("history: %d ordered pairs of operand uses (%d skipped as undecodable), %d comparisons\n", pairs, skipped, checks)
}
