package main

import (
	"fmt"
	"regexp"
	"runtime"
	"strings"
	"sync/atomic"

	"github.com/sarchlab/mgpusim/v4/amd/insts"
)

// outcome kinds of one Decode call
const (
	kOK    = iota // (inst, nil)
	kErr          // (nil, err)
	kDiag         // explicit string-valued diagnostic panic (log.Panic "... not implemented")
	kFault        // runtime.Error panic: nil dereference, index/slice out of range
	kPanic        // any other panic value
	kBoth         // (inst, err) both non-nil or both nil
)

var kindNames = []string{"ok", "error", "diagnostic-panic", "runtime-fault", "other-panic", "inst-and-error-inconsistent"}

type outcome struct {
	kind int
	inst *insts.Inst
	msg  string // error text / panic text
}

var decodeCalls atomic.Int64

var diagRe = regexp.MustCompile(`(?i)not implemented|not supported|unsupported|unable to decode|unabkle to decode|not yet`)

func safeDecode(d *insts.Disassembler, buf []byte) (o outcome) {
	decodeCalls.Add(1)
	defer func() {
		if r := recover(); r != nil {
			switch v := r.(type) {
			case runtime.Error:
				o = outcome{kind: kFault, msg: v.Error()}
			case string:
				if diagRe.MatchString(v) {
					o = outcome{kind: kDiag, msg: v}
				} else {
					o = outcome{kind: kPanic, msg: "panic(string): " + v}
				}
			case error:
				o = outcome{kind: kPanic, msg: "panic(error): " + v.Error()}
			default:
				o = outcome{kind: kPanic, msg: fmt.Sprintf("panic(%T): %v", r, r)}
			}
		}
	}()
	inst, err := d.Decode(buf)
	switch {
	case inst != nil && err == nil:
		return outcome{kind: kOK, inst: inst}
	case inst == nil && err != nil:
		return outcome{kind: kErr, msg: err.Error()}
	default:
		return outcome{kind: kBoth, msg: fmt.Sprintf("inst=%v err=%v", inst != nil, err)}
	}
}

// faultClass shortens a runtime error text.
func faultClass(msg string) string {
	switch {
	case strings.Contains(msg, "nil pointer"):
		return "nil-deref"
	case strings.Contains(msg, "slice bounds"):
		return "slice-bounds"
	case strings.Contains(msg, "index out of range"):
		return "index-out-of-range"
	case strings.Contains(msg, "panic("):
		return "undeclared-panic"
	}
	return "runtime-error"
}

func safePrint(p *insts.InstPrinter, i *insts.Inst) (s string, fault string) {
	defer func() {
		if r := recover(); r != nil {
			switch v := r.(type) {
			case runtime.Error:
				fault = "fault:" + v.Error()
			default:
				fault = fmt.Sprintf("panic:%v", r)
			}
		}
	}()
	return p.Print(i), ""
}

func sameOperand(a, b *insts.Operand) bool {
	if a == nil || b == nil {
		return a == b
	}
	if a.Code != b.Code || a.OperandType != b.OperandType || a.RegCount != b.RegCount || a.IntValue != b.IntValue ||
		a.LiteralConstant != b.LiteralConstant {
		return false
	}
	if a.FloatValue != b.FloatValue && !(a.FloatValue != a.FloatValue && b.FloatValue != b.FloatValue) {
		return false
	}
	if (a.Register == nil) != (b.Register == nil) {
		return false
	}
	if a.Register != nil && (a.Register.RegType != b.Register.RegType || a.Register.Name != b.Register.Name) {
		return false
	}
	return true
}

// sameInst compares every field of two decoded instructions (the InstType and
// Format objects belong to their decoder instance and are compared by value).
func sameInst(a, b *insts.Inst) string {
	switch {
	case a.Format == nil || b.Format == nil || a.InstType == nil || b.InstType == nil:
		if (a.Format == nil) != (b.Format == nil) || (a.InstType == nil) != (b.InstType == nil) {
			return "format/type nil-ness"
		}
	default:
		if *a.Format != *b.Format {
			return "Format"
		}
		x, y := *a.InstType, *b.InstType
		x.Format, y.Format = nil, nil
		if x != y {
			return "InstType"
		}
	}
	if a.ByteSize != b.ByteSize {
		return "ByteSize"
	}
	ops := []struct {
		n    string
		x, y *insts.Operand
	}{{"Src0", a.Src0, b.Src0}, {"Src1", a.Src1, b.Src1}, {"Src2", a.Src2, b.Src2}, {"Dst", a.Dst, b.Dst}, {"SDst", a.SDst, b.SDst},
		{"Addr", a.Addr, b.Addr}, {"Data", a.Data, b.Data}, {"Data1", a.Data1, b.Data1}, {"Base", a.Base, b.Base}, {"Offset", a.Offset, b.Offset},
		{"SImm16", a.SImm16, b.SImm16}, {"SAddr", a.SAddr, b.SAddr}}
	for _, o := range ops {
		if !sameOperand(o.x, o.y) {
			return o.n
		}
	}
	if a.Abs != b.Abs || a.Omod != b.Omod || a.Neg != b.Neg || a.OpSel != b.OpSel || a.OpSelHi != b.OpSelHi ||
		a.Offset0 != b.Offset0 || a.Offset1 != b.Offset1 || a.SystemLevelCoherent != b.SystemLevelCoherent ||
		a.GlobalLevelCoherent != b.GlobalLevelCoherent || a.TextureFailEnable != b.TextureFailEnable || a.Imm != b.Imm ||
		a.Clamp != b.Clamp || a.GDS != b.GDS || a.VMCNT != b.VMCNT || a.LKGMCNT != b.LKGMCNT {
		return "modifier fields"
	}
	if a.IsSdwa != b.IsSdwa || a.DstSel != b.DstSel || a.DstUnused != b.DstUnused || a.Src0Sel != b.Src0Sel || a.Src0Sext != b.Src0Sext ||
		a.Src0Neg != b.Src0Neg || a.Src0Abs != b.Src0Abs || a.Src1Sel != b.Src1Sel || a.Src1Sext != b.Src1Sext || a.Src1Neg != b.Src1Neg ||
		a.Src1Abs != b.Src1Abs || a.Src2Neg != b.Src2Neg || a.Src2Abs != b.Src2Abs {
		return "SDWA/source-modifier fields"
	}
	return ""
}

// sameOutcome compares two outcomes completely.
func sameOutcome(a, b outcome) string {
	if a.kind != b.kind {
		return fmt.Sprintf("outcome %s vs %s", kindNames[a.kind], kindNames[b.kind])
	}
	if a.kind == kOK {
		return sameInst(a.inst, b.inst)
	}
	if a.msg != b.msg {
		return "message " + a.msg + " vs " + b.msg
	}
	return ""
}

func describe(o outcome, p *insts.InstPrinter) string {
	if o.kind != kOK {
		return kindNames[o.kind] + ": " + o.msg
	}
	s, f := safePrint(p, o.inst)
	if f != "" {
		s = "<print " + f + ">"
	}
	return fmt.Sprintf("ok size=%d %s %q", o.inst.ByteSize, o.inst.FormatName, s)
}
