// C04: instruction decoding is total, deterministic and inverse to encoding.
//
// (a) every buffer of an enumerated set is decoded by the real
//
//	insts.Disassembler: the outcome must be (inst,nil) with a size that fits,
//	(nil,err) or an explicit not-implemented diagnostic; results must not
//	depend on bytes beyond the reported size nor on the decoder instance;
//
// (b) for every opcode the decoder's tables know, descriptions enumerated field
//
//	by field are encoded by the independent encoder verif/mc/gcn3enc
//	(validated against llvm-mc-14) and must decode back to themselves;
//
// (c) every kernel of every shipped .hsaco decodes sequentially and exactly.
package main

import (
	"encoding/hex"
	"encoding/json"
	"fmt"
	"io"
	"log"
	"os"
	"runtime/debug"
	"sort"
	"strings"
	"sync"
	"sync/atomic"
	"time"

	enc "verif/mc/gcn3enc"
	"verif/mc/harness"
)

func main() {
	log.SetOutput(io.Discard)
	debug.SetGCPercent(400)
	r := harness.Start("C04", "exploration")
	if r.Replay != "" {
		replay(r)
		return
	}
	t0 := time.Now()
	// before anything else is decoded in this process: results must not depend on what was decoded earlier
	historyPass(r.Report, r.Cov)
	ds803 := newDecoders(false)
	ds90a := newDecoders(true)
	rep := &reporter{other: ds803, seenFast: map[uint64]bool{}, seen: map[string]bool{}, sigs: map[string]*sigInfo{}, report: r.Report}

	// ---------------- (a)
	total := newWordStats()
	var tmu sync.Mutex
	merge := func(st *wordStats) {
		tmu.Lock()
		total.words += st.words
		for k := range st.okKeys {
			total.okKeys[k] = struct{}{}
		}
		for k := range st.errKinds {
			total.errKinds[k] = struct{}{}
		}
		tmu.Unlock()
	}
	qw := quickWords()
	const blk = 4096
	nblk := (len(qw) + blk - 1) / blk
	quickDone := r.ForEach(nblk, func(i int) {
		st := newWordStats()
		var vs []viol
		hi := (i + 1) * blk
		if hi > len(qw) {
			hi = len(qw)
		}
		for _, w := range qw[i*blk : hi] {
			vs = vs[:0]
			ds803.checkWord(w, true, st, &vs)
			if len(vs) > 0 {
				rep.handle(ds803, vs)
			}
			// IsCDNA3=true: the FLAT encoding (the only format whose decoding
			// reads the flag) and the payload sweep of every prefix
			if w>>26 == 0x37 || w&0xFFFF == 0x7B7D {
				vs = vs[:0]
				ds90a.checkWord(w, true, st, &vs)
				if len(vs) > 0 {
					rep.handle(ds90a, vs)
				}
			}
		}
		merge(st)
	})
	r.Cov["a_quick_first_dwords"] = len(qw)
	r.Cov["a_quick_complete"] = quickDone
	fmt.Printf("(a) quick alphabet: %d first dwords x {IsCDNA3=false,true}, %d Decode calls, %.1fs\n", len(qw), decodeCalls.Load(), time.Since(t0).Seconds())
	exhaustive := quickDone

	// ---------------- (b)
	t2 := time.Now()
	agg := &rtAgg{sigs: map[string]*rtSig{}}
	agg9 := &rtAgg{sigs: map[string]*rtSig{}}
	bst, bcov := runRoundTrip(r, ds803, ds90a, agg, agg9)
	// a mismatch seen with the GFX9 encodings under IsCDNA3=true that also
	// occurs with the GCN3 encodings is the same cause; the rest is CDNA3-only
	for k, s := range agg9.sigs {
		if t := agg.sigs[k]; t != nil {
			t.count += s.count
			t.alsoCDNA3 = true
			continue
		}
		agg.sigs["cdna3/"+k] = s
	}
	agg.flush(r.Report)
	for k, v := range bcov {
		r.Cov[k] = v
	}
	fmt.Printf("(b) round trip: %d rows, %d descriptions decoded and compared, %d accepted not-implemented diagnostics, %.1fs\n", bst.rows, bst.descs, bst.diag, time.Since(t2).Seconds())

	// ---------------- (c)
	t3 := time.Now()
	kst := runKernels(nil, r.Report)
	r.Cov["c_hsaco_files"] = kst.files
	r.Cov["c_kernels"] = kst.kernels
	r.Cov["c_instructions"] = kst.insts
	r.Cov["c_code_bytes"] = kst.bytes
	r.Cov["c_boundaries_checked_against_llvm_objdump"] = kst.goldenChecked
	r.Cov["c_elf_machine_flags"] = kst.machs
	fmt.Printf("(c) kernels: %d files, %d kernels, %d instructions (%d bytes), %d boundaries equal to llvm-objdump-14, %.1fs\n",
		kst.files, kst.kernels, kst.insts, kst.bytes, kst.goldenChecked, time.Since(t3).Seconds())

	// ---------------- (a) thorough sweep last: the time budget truncates only this part
	if r.Thorough() {
		t1 := time.Now()
		c0 := decodeCalls.Load()
		// all 2^32 first dwords with IsCDNA3=false; the FLAT encoding (the only
		// place where IsCDNA3 matters) again with IsCDNA3=true. Pass 1: 4-byte
		// buffer + 12-byte buffer with the literal second dword, two instances;
		// pass 2: second dwords {0, ~0, SDWA}.
		done := true
		for pass := 1; pass <= 2; pass++ {
			tp := time.Now()
			cp := decodeCalls.Load()
			ok := r.ForEach(1<<16+1<<10, func(i int) {
				ds := ds803
				// block order: bits 22:16 in the outer loop, bits 31:23 in the inner
				// loop, so that a run truncated by the time budget after k*512
				// blocks has covered the sub-space "bits 22:16 < k" exhaustively
				base := (uint32(i)&511)<<23 | (uint32(i)>>9)<<16
				if i >= 1<<16 {
					ds = ds90a
					base = 0xDC000000 | uint32(i-1<<16)<<16
				}
				st := newWordStats()
				var vs []viol
				for lo := uint32(0); lo < 1<<16; lo++ {
					vs = vs[:0]
					ds.thoroughWord(base|lo, pass, st, &vs)
					if len(vs) > 0 {
						rep.handle(ds, vs)
					}
				}
				merge(st)
				blocksDone.Add(1)
			})
			nb := blocksDone.Swap(0)
			r.Cov[fmt.Sprintf("a_thorough_pass%d_blocks_of_65536_first_dwords_completed_of_66560", pass)] = nb
			k := (nb - 32) / 512 // up to 16 blocks per worker may have been abandoned out of order
			if k < 0 {
				k = 0
			}
			if ok {
				k = 128
			}
			r.Cov[fmt.Sprintf("a_thorough_pass%d_exhaustive_subspace_bits22_16_below", pass)] = k
			fmt.Printf("(a) thorough pass %d over all 2^32 first dwords: complete=%v, %d of 66560 blocks of 65536 first dwords (exhaustive for bits 22:16 < %d), %d Decode calls in %.0fs\n",
				pass, ok, nb, k, decodeCalls.Load()-cp, time.Since(tp).Seconds())
			r.Cov[fmt.Sprintf("a_thorough_pass%d_all_2^32_first_dwords_complete", pass)] = ok
			r.Cov[fmt.Sprintf("a_thorough_pass%d_decode_calls", pass)] = decodeCalls.Load() - cp
			r.Cov[fmt.Sprintf("a_thorough_pass%d_wall_s", pass)] = time.Since(tp).Seconds()
			done = done && ok
		}
		r.Cov["a_thorough_decode_rate_per_s"] = float64(decodeCalls.Load()-c0) / time.Since(t1).Seconds()
		exhaustive = exhaustive && done
	}
	r.Cov["a_first_dwords"] = total.words
	sigsA := rep.flush()
	r.Cov["a_signatures"] = len(sigsA)

	r.Cov["evaluations"] = decodeCalls.Load()
	r.Cov["distinct_nontrivial"] = len(total.okKeys) + len(total.errKinds)
	r.Cov["distinct_decoded_format_opcode_size"] = len(total.okKeys)
	r.Cov["distinct_undecodable_classes"] = len(total.errKinds)
	r.Cov["exhaustive"] = exhaustive && bcov["b_complete"] == true
	r.Cov["rule"] = "evaluations = calls of the real insts.Disassembler.Decode. (a) every first dword of the tier's set (quick: format x every opcode value x boundary alphabet of every dword-0 field x reserved bits, plus every 6-bit encoding prefix; thorough: all 2^32) with second dwords {0,~0,literal,SDWA}, buffer lengths 4/8/12 and short buffers, on two decoder instances; (b) for every (format,opcode) the decoder knows and llvm-mc-14 knows: each field over its full domain one at a time, literal and SDWA forms, all field pairs over boundary alphabets, restricted to encodings llvm-mc-14 confirmed; (c) all kernels of all shipped .hsaco. distinct_nontrivial = distinct (format,opcode,size) decoded + distinct undecodable classes seen in (a)."
	r.Assume = []string{
		"reference ISA = llvm-mc-14 for gfx803 (and gfx90a for the GFX9-family encodings used with IsCDNA3=true; gfx942 itself is not in LLVM 14); a description is in the round-trip domain only if llvm-mc-14 disassembles its bytes to the same mnemonic and operands and re-assembles them byte-exactly",
		"RegCount 0 and 1 both denote a single register; an operand the reference instruction does not have is not compared",
		"explicit diagnostic = panic with a string value matching not implemented/not supported/unable to decode (log.Panic); accepted in the round trip only for SDWA clamp/sext/neg/abs/omod encodings",
	}
	r.Sample(map[string]any{"part": "a", "example": "buffer 20301080 -> " + describe(safeDecode(ds803.a, mustHex("20301080")), ds803.pr)})
	r.Sample(map[string]any{"part": "a", "example": "buffer d1000080 (SOP2 SSRC0=209) -> " + describe(safeDecode(ds803.a, mustHex("d1000080")), ds803.pr)})
	r.Finish()
}

var blocksDone atomic.Int64

func mustHex(s string) []byte {
	b, _ := hex.DecodeString(s)
	return b
}

// unconfirmedRows: decode-table rows that llvm-mc-14 does not know but for
// which the evidence is not one-sided; they are listed in the evidence and the
// notes and never reported as violations.
var unconfirmedRows = map[string]string{
	"SOP1/49":   "manual 13-10 lists S_SET_GPR_IDX_IDX = 49, LLVM's VI tables use 50 (49 = s_mov_fed_b32): references disagree",
	"DS/253":    "DS_CONDXCHG32_RTN_B128 is listed in the manual (13-49); LLVM 14 does not model it",
	"VOP3a/279": "manual rule '256-319 are the VOP2 opcodes + 256' formally covers v_madmk_f32; LLVM has no VOP3 form",
	"VOP3a/280": "manual rule '256-319 are the VOP2 opcodes + 256' formally covers v_madak_f32; LLVM has no VOP3 form",
	"VOP3a/292": "manual rule '256-319 are the VOP2 opcodes + 256' formally covers v_madmk_f16; LLVM has no VOP3 form",
	"VOP3a/293": "manual rule '256-319 are the VOP2 opcodes + 256' formally covers v_madak_f16; LLVM has no VOP3 form",
	"VOP3a/322": "manual rule '320-447 are the VOP1 opcodes + 320' formally covers v_readfirstlane_b32; LLVM has no VOP3 form",
	"VOP3a/520": "V_LSHL_ADD_U64 is a gfx940 instruction; gfx940 is not in LLVM 14",
	"VOP3a/945": "VOP3P 49 v_pk_mul_f32 exists on gfx90a, but the reference table has no rows for 2-source VOP3P opcodes (their canonical encoding sets OP_SEL_HI[2], which the probes do not): not round-tripped",
	"VOP3a/946": "VOP3P 50 v_pk_add_f32: as VOP3a/945",
}

// implKnows probes whether the decoder's tables have (format, opcode).
func implKnows(ds *decoders, refFmt string, op int) bool {
	a := enc.GFX803
	if refFmt == "VOP3P" || refFmt == "GLOBAL" || refFmt == "SCRATCH" {
		a = enc.GFX90A
	}
	d := enc.Desc{Arch: a, Fmt: refFmt, Op: op, F: map[string]uint32{}}
	b, err := d.Encode()
	if err != nil {
		return false
	}
	for len(b) < 12 {
		b = append(b, 0)
	}
	o := safeDecode(ds.a, b)
	if o.kind == kErr && (strings.Contains(o.msg, "not found") || strings.Contains(o.msg, "cannot find the instruction format")) {
		return false
	}
	return true
}

func normName(n string) string {
	n = enc.Stem(strings.ToLower(n))
	n = strings.ReplaceAll(n, "_lg_", "_ne_")
	n = strings.ReplaceAll(n, "_tru_", "_t_")
	return n
}

func runRoundTrip(r *harness.Run, ds803, ds90a *decoders, agg, agg9 *rtAgg) (*rtStats, map[string]any) {
	cov := map[string]any{}
	st := &rtStats{}
	var smu sync.Mutex
	complete := true
	type job struct {
		ds  *decoders
		row *enc.Row
	}
	var jobs []job
	nameDiffs := []string{}
	refKnown := map[string]bool{} // impl format/opcode covered by a reference row
	var hashBad []string
	goldens := map[enc.Arch]map[string]*enc.GroupGolden{}
	for _, a := range []enc.Arch{enc.GFX803, enc.GFX90A} {
		rows, err := enc.LoadTable(a)
		if err != nil {
			r.Infra("reference table %s: %v", a, err)
			return st, cov
		}
		g, err := enc.LoadGroups(a)
		if err != nil {
			r.Infra("golden groups %s: %v", a, err)
			return st, cov
		}
		goldens[a] = g
		ds := ds803
		if a == enc.GFX90A {
			ds = ds90a
		}
		known, unknown := 0, 0
		for _, row := range rows {
			if !implKnows(ds, row.Fmt, row.Op) {
				unknown++
				continue
			}
			known++
			jobs = append(jobs, job{ds, row})
			f := row.Fmt
			switch f {
			case "VOP3b":
				f = "VOP3a"
			case "GLOBAL", "SCRATCH":
				f = "FLAT"
			case "VOP3P":
				f = "VOP3a"
			}
			refKnown[fmt.Sprintf("%s/%d", f, implOpcode(row))] = true
			// informational: name comparison
			b, _ := row.Base.Encode()
			if o := safeDecode(ds.a, append(b, 0, 0, 0, 0)); o.kind == kOK {
				if normName(o.inst.InstName) != normName(row.Mnemonic) && row.Fmt != "GLOBAL" && row.Fmt != "SCRATCH" {
					nameDiffs = append(nameDiffs, fmt.Sprintf("%s %s/%d: decoder %q, llvm-mc %q", a, row.Fmt, row.Op, o.inst.InstName, row.Mnemonic))
				}
			}
		}
		cov["b_reference_rows_"+string(a)] = len(rows)
		cov["b_rows_known_to_decoder_"+string(a)] = known
		cov["b_rows_unknown_to_decoder_"+string(a)] = unknown
	}
	// decoder table rows that neither reference knows
	var orphan, unconfirmed []string
	for _, f := range []string{"SOP2", "SOPK", "SOP1", "SOPC", "SOPP", "SMEM", "VOP2", "VOP1", "VOPC", "VOP3a", "DS", "FLAT"} {
		l := enc.LayoutOf(enc.GFX803, f)
		var ops []string
		for op := 0; op <= int(l.Op.Max()); op++ {
			d := enc.Desc{Arch: enc.GFX803, Fmt: f, Op: op, F: map[string]uint32{}}
			b, _ := d.Encode()
			if enc.MatchFormat(enc.GFX803, uint32(b[0])|uint32(b[1])<<8|uint32(b[2])<<16|uint32(b[3])<<24) != f {
				continue
			}
			if why, ok := unconfirmedRows[fmt.Sprintf("%s/%d", f, op)]; ok && implKnows(ds803, f, op) {
				unconfirmed = append(unconfirmed, fmt.Sprintf("%s/%d: %s", f, op, why))
				continue
			}
			if implKnows(ds803, f, op) && !refKnown[fmt.Sprintf("%s/%d", f, op)] {
				o := safeDecode(ds803.a, append(b, make([]byte, 8)...))
				name := "?"
				if o.kind == kOK {
					name = o.inst.InstName
				}
				ops = append(ops, fmt.Sprintf("%d:%s", op, name))
			}
		}
		if len(ops) > 0 {
			orphan = append(orphan, f+": "+strings.Join(ops, " "))
			d := enc.Desc{Arch: enc.GFX803, Fmt: f, Op: 0, F: map[string]uint32{}}
			fmt.Sscanf(ops[0], "%d", &d.Op)
			b, _ := d.Encode()
			r.Report("table/"+f+"/opcodes-not-in-reference-isa",
				fmt.Sprintf("the decode table accepts %d %s opcode(s) that are not instructions of gfx803 nor of gfx90a according to llvm-mc-14 (reserved encodings decode as instructions): %s", len(ops), f, strings.Join(ops, " ")),
				BufferCase{Part: "a", Hex: hex.EncodeToString(append(b, make([]byte, 4)...)), Kind: "table"})
		}
	}
	cov["b_decoder_rows_without_reference"] = orphan
	cov["b_decoder_rows_unconfirmed_not_reported"] = unconfirmed
	sort.Strings(nameDiffs)
	cov["b_name_differences_informational"] = nameDiffs
	cov["b_jobs"] = len(jobs)

	var groupsChecked, groupsUnvalidated int64
	done := r.ForEach(len(jobs), func(i int) {
		j := jobs[i]
		local := &rtStats{}
		globalAgg := agg
		if j.ds.cdna3 {
			globalAgg = agg9
		}
		agg := &rtAgg{sigs: map[string]*rtSig{}}
		defer globalAgg.merge(agg)
		var gc, gu int64
		for _, g := range j.row.Groups() {
			if g.Thorough && !r.Thorough() {
				continue
			}
			if !g.Validated {
				gu++
				g.Each(func(_ int, d enc.Desc) { roundTripDesc(j.ds, j.row, g.Name, d, agg, local) })
				continue
			}
			key := fmt.Sprintf("%s/%d/%s/%s", j.row.Fmt, j.row.Op, j.row.Variant, g.Name)
			gg := goldens[j.row.Arch][key]
			if gg == nil || gg.N != len(g.Descs) {
				smu.Lock()
				hashBad = append(hashBad, string(j.row.Arch)+" "+key+": no golden data")
				smu.Unlock()
				continue
			}
			if h := j.row.HashGroup(&g, gg.Bit); h != gg.Hash {
				smu.Lock()
				hashBad = append(hashBad, string(j.row.Arch)+" "+key+": encoder/expectation hash differs from the llvm-mc-validated golden")
				smu.Unlock()
				continue
			}
			gc++
			for di, d := range g.Descs {
				if !gg.Bit(di) {
					local.unconfirmed++
					continue
				}
				roundTripDesc(j.ds, j.row, g.Name, d, agg, local)
			}
		}
		smu.Lock()
		st.descs += local.descs
		st.diag += local.diag
		st.unconfirmed += local.unconfirmed
		st.notWellFormed += local.notWellFormed
		st.rows++
		groupsChecked += gc
		groupsUnvalidated += gu
		smu.Unlock()
	})
	complete = complete && done
	for i, h := range hashBad {
		if i < 5 {
			r.Infra("%s", h)
		}
	}
	cov["b_complete"] = complete
	cov["b_descriptions_round_tripped"] = st.descs
	cov["b_descriptions_not_confirmed_by_llvm_mc_excluded"] = st.unconfirmed
	cov["b_accepted_not_implemented_diagnostics"] = st.diag
	cov["b_groups_validated_by_llvm_mc"] = groupsChecked
	cov["b_groups_full_domain_immediates_unvalidated"] = groupsUnvalidated
	return st, cov
}

// ---------------------------------------------------------------------------

func replay(r *harness.Run) {
	data, err := os.ReadFile(r.Replay)
	if err != nil {
		fmt.Fprintln(os.Stderr, err)
		os.Exit(2)
	}
	var f struct {
		Signature string          `json:"signature"`
		Case      json.RawMessage `json:"case"`
	}
	if err := json.Unmarshal(data, &f); err != nil {
		fmt.Fprintln(os.Stderr, err)
		os.Exit(2)
	}
	var part struct {
		Part string `json:"part"`
	}
	json.Unmarshal(f.Case, &part)
	violated := false
	report := func(sig, msg string, c any) {
		fmt.Printf("  signature: %s\n  %s\n", sig, msg)
		violated = true
	}
	switch part.Part {
	case "a":
		var c BufferCase
		json.Unmarshal(f.Case, &c)
		ds := newDecoders(c.CDNA3)
		buf, _ := hex.DecodeString(c.Hex)
		var vs []viol
		o := ds.checkBuffer(buf, true, &vs)
		fmt.Printf("buffer %s (%s): %s\n", c.Hex, ds, describe(o, ds.pr))
		if c.Kind == "table" {
			if o.kind == kOK {
				report(f.Signature, "the reserved opcode still decodes as "+describe(o, ds.pr), nil)
			}
		}
		for _, v := range vs {
			sig, _, detail := ds.signature(v)
			if c.CDNA3 && !newDecoders(false).hasViolation(buf, v.kind) {
				sig = "cdna3/" + sig
			}
			report(sig, v.msg+"; "+detail, nil)
		}
	case "b":
		var c DescCase
		json.Unmarshal(f.Case, &c)
		ds := newDecoders(c.CDNA3)
		rows, err := enc.LoadTable(enc.Arch(c.Arch))
		if err != nil {
			fmt.Fprintln(os.Stderr, err)
			os.Exit(2)
		}
		var row *enc.Row
		for _, x := range rows {
			if x.Fmt == c.Fmt && x.Op == c.Op && x.Variant == c.Variant {
				row = x
			}
		}
		if row == nil {
			fmt.Fprintln(os.Stderr, "reference row not found")
			os.Exit(2)
		}
		d := enc.Desc{Arch: enc.Arch(c.Arch), Fmt: c.Fmt, Op: c.Op, F: c.F, Ext: c.Ext}
		agg := &rtAgg{sigs: map[string]*rtSig{}}
		roundTripDesc(ds, row, "replay", d, agg, &rtStats{})
		b, _ := d.Encode()
		fmt.Printf("description %s bytes %s (%s): %s\n", d.Key(), hex.EncodeToString(b), ds, describe(safeDecode(ds.a, b), ds.pr))
		agg.flush(report)
	case "history":
		historyPass(func(sig, msg string, c any) {
			if sig == f.Signature {
				report(sig, msg, c)
			}
		}, map[string]any{})
	case "c":
		var c KernelCase
		json.Unmarshal(f.Case, &c)
		runKernels(&c, report)
	default:
		fmt.Fprintln(os.Stderr, "unknown replay case")
		os.Exit(2)
	}
	if violated {
		fmt.Printf("VIOLATION property=C04 replay=%s\n", r.Replay)
		os.Exit(1)
	}
	fmt.Println("replay: no violation")
	os.Exit(0)
}
