package main

// Part (b): decode(encode(d)) = d for every opcode the implementation knows.

import (
	"encoding/hex"
	"fmt"
	"math"
	"sort"
	"strings"
	"sync"

	"github.com/sarchlab/mgpusim/v4/amd/insts"

	enc "verif/mc/gcn3enc"
)

// DescCase is the replay artefact of part (b).
type DescCase struct {
	Part    string            `json:"part"`
	CDNA3   bool              `json:"cdna3"`
	Arch    string            `json:"arch"`
	Fmt     string            `json:"format"`
	Op      int               `json:"opcode"`
	Variant string            `json:"variant"`
	Ext     string            `json:"ext"`
	F       map[string]uint32 `json:"fields"`
	Hex     string            `json:"bytes"`
}

func implOpnd(o *insts.Operand) (enc.Opnd, string) {
	if o == nil {
		return enc.Opnd{}, "nil operand"
	}
	switch o.OperandType {
	case insts.IntOperand:
		return enc.Opnd{Kind: "int", Int: o.IntValue}, ""
	case insts.FloatOperand:
		return enc.Opnd{Kind: "float", F: o.FloatValue}, ""
	case insts.LiteralConstant:
		return enc.Opnd{Kind: "lit", Lit: o.LiteralConstant}, ""
	case insts.RegOperand:
		if o.Register == nil {
			return enc.Opnd{}, "register operand without a register"
		}
		w := o.RegCount
		if w < 1 {
			w = 1
		}
		t := o.Register.RegType
		switch {
		case t >= insts.S0 && t <= insts.S101:
			return enc.Opnd{Kind: "s", Idx: int(t - insts.S0), W: w}, ""
		case t >= insts.V0 && t <= insts.V255:
			return enc.Opnd{Kind: "v", Idx: int(t - insts.V0), W: w}, ""
		case t >= insts.Timp0 && t <= insts.Timp15:
			return enc.Opnd{Kind: "ttmp", Idx: int(t - insts.Timp0), W: w}, ""
		}
		switch t {
		case insts.VCCLO:
			return enc.Opnd{Kind: "vcc", Idx: 0, W: w}, ""
		case insts.VCCHI:
			return enc.Opnd{Kind: "vcc", Idx: 1, W: w}, ""
		case insts.VCC:
			return enc.Opnd{Kind: "vcc", Idx: 0, W: 2}, ""
		case insts.EXECLO:
			return enc.Opnd{Kind: "exec", Idx: 0, W: w}, ""
		case insts.EXECHI:
			return enc.Opnd{Kind: "exec", Idx: 1, W: w}, ""
		case insts.EXEC:
			return enc.Opnd{Kind: "exec", Idx: 0, W: 2}, ""
		case insts.FlatSratchLo:
			return enc.Opnd{Kind: "flat_scratch", Idx: 0, W: w}, ""
		case insts.FlatSratchHi:
			return enc.Opnd{Kind: "flat_scratch", Idx: 1, W: w}, ""
		case insts.FlatSratch:
			return enc.Opnd{Kind: "flat_scratch", Idx: 0, W: 2}, ""
		case insts.XnackMaskLo:
			return enc.Opnd{Kind: "xnack_mask", Idx: 0, W: w}, ""
		case insts.XnackMaskHi:
			return enc.Opnd{Kind: "xnack_mask", Idx: 1, W: w}, ""
		case insts.XnackMask:
			return enc.Opnd{Kind: "xnack_mask", Idx: 0, W: 2}, ""
		case insts.TbaLo:
			return enc.Opnd{Kind: "tba", Idx: 0, W: w}, ""
		case insts.TbaHi:
			return enc.Opnd{Kind: "tba", Idx: 1, W: w}, ""
		case insts.TmaLo:
			return enc.Opnd{Kind: "tma", Idx: 0, W: w}, ""
		case insts.TmaHi:
			return enc.Opnd{Kind: "tma", Idx: 1, W: w}, ""
		case insts.M0:
			return enc.Opnd{Kind: "m0", W: w}, ""
		case insts.VCCZ:
			return enc.Opnd{Kind: "vccz", W: w}, ""
		case insts.EXECZ:
			return enc.Opnd{Kind: "execz", W: w}, ""
		case insts.SCC:
			return enc.Opnd{Kind: "scc", W: w}, ""
		}
		return enc.Opnd{Kind: "reg:" + o.Register.Name, W: w}, ""
	}
	return enc.Opnd{}, fmt.Sprintf("operand type %d", o.OperandType)
}

// slot maps a reference field to the Inst member that must carry it.
func slot(i *insts.Inst, fmtName, field string) (*insts.Operand, string) {
	switch field {
	case "sdst":
		if fmtName == "VOP3b" {
			return i.SDst, "SDst"
		}
		return i.Dst, "Dst"
	case "vdst":
		return i.Dst, "Dst"
	case "ssrc0", "src0":
		return i.Src0, "Src0"
	case "ssrc1", "src1", "vsrc1":
		return i.Src1, "Src1"
	case "src2":
		return i.Src2, "Src2"
	case "simm16":
		return i.SImm16, "SImm16"
	case "sdata", "data", "data0":
		return i.Data, "Data"
	case "data1":
		return i.Data1, "Data1"
	case "sbase":
		return i.Base, "Base"
	case "offset":
		if fmtName == "SMEM" {
			return i.Offset, "Offset"
		}
	case "addr":
		return i.Addr, "Addr"
	case "saddr":
		return i.SAddr, "SAddr"
	}
	return nil, ""
}

var selMasks = []insts.SDWASelect{0xff, 0xff00, 0xff0000, 0xff000000, 0xffff, 0xffff0000, 0xffffffff}

// mismatch is one difference between the decoded instruction and d.
type mismatch struct {
	what string // signature tail: field/aspect[/class]
	msg  string
}

func formatTypeName(t insts.FormatType) string {
	if f := insts.FormatTable[t]; f != nil {
		return strings.ToUpper(f.FormatName[:3]) + f.FormatName[3:]
	}
	return fmt.Sprint(t)
}

// implFormatName maps reference format names to the decoder's.
func implFormatOf(refFmt string) insts.FormatType {
	switch refFmt {
	case "SOP2":
		return insts.SOP2
	case "SOPK":
		return insts.SOPK
	case "SOP1":
		return insts.SOP1
	case "SOPC":
		return insts.SOPC
	case "SOPP":
		return insts.SOPP
	case "SMEM":
		return insts.SMEM
	case "VOP2":
		return insts.VOP2
	case "VOP1":
		return insts.VOP1
	case "VOPC":
		return insts.VOPC
	case "VOP3a", "VOP3P":
		return insts.VOP3a
	case "VOP3b":
		return insts.VOP3b
	case "DS":
		return insts.DS
	}
	return insts.FLAT
}

// implOpcode is the opcode number the decoder's tables use for a row.
func implOpcode(r *enc.Row) int {
	if r.Fmt == "VOP3P" {
		return 0x380 + r.Op
	}
	return r.Op
}

func compareInst(r *enc.Row, d enc.Desc, e *enc.Expected, in *insts.Inst) []mismatch {
	var ms []mismatch
	add := func(what, f string, a ...any) { ms = append(ms, mismatch{what, fmt.Sprintf(f, a...)}) }
	if int(in.Opcode) != implOpcode(r) {
		add("opcode", "decoded opcode %d, encoded %d", in.Opcode, implOpcode(r))
	}
	if in.FormatType != implFormatOf(r.Fmt) {
		add("format", "decoded as format %s, the instruction is a %s instruction", in.FormatName, r.Fmt)
	}
	if in.ByteSize != e.Size {
		add("size", "ByteSize %d, encoded length %d", in.ByteSize, e.Size)
	}
	for _, x := range e.Ops {
		if x.Field == "literal" {
			// v_madmk/v_madak: the K operand; s_setreg_imm32_b32: not represented
			if r.Fmt == "VOP2" {
				g, why := implOpnd(in.Src2)
				if why != "" || g.Kind != "lit" || g.Lit != x.Lit {
					add("literal/value", "literal K decoded as %v %s, encoded %#x", g, why, x.Lit)
				}
			}
			continue
		}
		if x.Field == "offset" && r.Fmt != "SMEM" { // FLAT family immediate offset
			if int64(int32(in.Offset0)) != x.Int {
				add("offset/value", "Offset0 %d, encoded offset %d", int32(in.Offset0), x.Int)
			}
			continue
		}
		op, name := slot(in, r.Fmt, x.Field)
		if name == "" {
			continue
		}
		if x.Field == "saddr" {
			if op == nil || op.OperandType != insts.IntOperand || op.IntValue != int64(d.F["saddr"]) {
				add("saddr/value", "SAddr %+v, encoded SADDR %d", op, d.F["saddr"])
			}
			continue
		}
		g, why := implOpnd(op)
		if why != "" {
			add(x.Field+"/missing", "%s: %s, encoded %s", name, why, x.Opnd)
			continue
		}
		switch x.Kind {
		case "int":
			if g.Kind != "int" {
				add(x.Field+"/operand", "%s decoded as %s, encoded integer %d", name, g, x.Int)
			} else if g.Int != x.Int {
				add(x.Field+"/value", "%s decoded as integer %d, encoded %d", name, g.Int, x.Int)
			}
		case "float":
			if g.Kind != "float" {
				add(x.Field+"/operand", "%s decoded as %s, encoded float %g", name, g, x.F)
			} else if math.Abs(g.F-x.F) > 1e-6*math.Abs(x.F) {
				add(x.Field+"/value", "%s decoded as float %g, encoded %g", name, g.F, x.F)
			}
		case "lit":
			if g.Kind != "lit" {
				add(x.Field+"/operand", "%s decoded as %s, encoded literal %#x", name, g, x.Lit)
			} else if g.Lit != x.Lit {
				add(x.Field+"/value", "%s decoded literal %#x, encoded %#x", name, g.Lit, x.Lit)
			}
		default:
			switch {
			case g.Kind != x.Kind:
				add(x.Field+"/operand", "%s decoded as %s, encoded %s", name, g, x.Opnd)
			case g.Idx != x.Idx:
				add(x.Field+"/operand", "%s decoded as %s, encoded %s", name, g, x.Opnd)
			case g.W != x.W:
				add(x.Field+"/width", "%s decoded as %s (%d registers), encoded %s (%d registers)", name, g, g.W, x.Opnd, x.W)
			}
		}
	}
	b2u := func(b bool) uint32 {
		if b {
			return 1
		}
		return 0
	}
	mod := func(name string, got, want uint32) {
		if got != want {
			add("mod/"+name, "%s decoded as %d, encoded %d", name, got, want)
		}
	}
	switch r.Fmt {
	case "SMEM":
		mod("glc", b2u(in.GlobalLevelCoherent), e.Mods["glc"])
		if r.Operand("offset") != nil {
			mod("imm", b2u(in.Imm), e.Mods["imm"])
		}
	case "VOP3a":
		mod("clamp", b2u(in.Clamp), e.Mods["clamp"])
		mod("omod", uint32(in.Omod), e.Mods["omod"])
		mod("abs", uint32(in.Abs), d.F["abs"])
		mod("neg", uint32(in.Neg), d.F["neg"])
		flags := map[string][2]bool{"src0": {in.Src0Neg, in.Src0Abs}, "src1": {in.Src1Neg, in.Src1Abs}, "src2": {in.Src2Neg, in.Src2Abs}}
		for _, x := range e.Ops {
			if fl, ok := flags[x.Field]; ok && (fl[0] != x.Neg || fl[1] != x.Abs) {
				add("mod/"+x.Field+"-neg-abs-flags", "%s neg=%v abs=%v, encoded neg=%v abs=%v", x.Field, fl[0], fl[1], x.Neg, x.Abs)
			}
		}
	case "VOP3b":
		mod("clamp", b2u(in.Clamp), e.Mods["clamp"])
		mod("omod", uint32(in.Omod), e.Mods["omod"])
		mod("neg", uint32(in.Neg), d.F["neg"])
	case "VOP3P":
		mod("neg", uint32(in.Neg), d.F["neg"])
		mod("op_sel", uint32(in.OpSel), d.F["op_sel"])
		mod("op_sel_hi", uint32(in.OpSelHi), d.F["op_sel_hi"]|d.F["op_sel_hi2"]<<2)
	case "DS":
		mod("gds", b2u(in.GDS), e.Mods["gds"])
		switch r.DSOff {
		case "two":
			mod("offset0", in.Offset0, e.Mods["offset0"])
			mod("offset1", in.Offset1, e.Mods["offset1"])
		case "one":
			mod("offset", in.Offset0, e.Mods["offset"])
		}
	case "FLAT", "GLOBAL", "SCRATCH":
		mod("glc", b2u(in.GlobalLevelCoherent), e.Mods["glc"])
		mod("slc", b2u(in.SystemLevelCoherent), e.Mods["slc"])
		if r.Arch == enc.GFX803 {
			mod("tfe", b2u(in.TextureFailEnable), e.Mods["tfe"])
		}
	}
	if d.Ext == "sdwa" {
		if !in.IsSdwa {
			add("sdwa/not-recognised", "IsSdwa=false for an SDWA encoding")
		} else {
			sel := func(name string, got insts.SDWASelect, v uint32) {
				if got != selMasks[v] {
					add("sdwa/"+name, "%s decoded as mask %#x, encoded select %d (mask %#x)", name, uint32(got), v, uint32(selMasks[v]))
				}
			}
			if r.Operand("vdst") != nil && r.Operand("vdst").Class == "vgpr" {
				sel("dst_sel", in.DstSel, d.F["dst_sel"])
				mod("dst_unused", uint32(in.DstUnused), d.F["dst_unused"])
			}
			sel("src0_sel", in.Src0Sel, d.F["src0_sel"])
			if r.Operand("vsrc1") != nil {
				sel("src1_sel", in.Src1Sel, d.F["src1_sel"])
			}
			// a decode that succeeds must carry every modifier the SDWA dword encodes (the decoder may instead raise
			// its not-implemented diagnostic, which is accepted above; what it may not do is drop one silently)
			mod("sdwa-src0_sext", b2u(in.Src0Sext), d.F["src0_sext"])
			mod("sdwa-src0_neg", b2u(in.Src0Neg), d.F["src0_neg"])
			mod("sdwa-src0_abs", b2u(in.Src0Abs), d.F["src0_abs"])
			if r.Operand("vsrc1") != nil {
				mod("sdwa-src1_sext", b2u(in.Src1Sext), d.F["src1_sext"])
				mod("sdwa-src1_neg", b2u(in.Src1Neg), d.F["src1_neg"])
				mod("sdwa-src1_abs", b2u(in.Src1Abs), d.F["src1_abs"])
			}
			mod("sdwa-clamp", b2u(in.Clamp), d.F["sdwa_clamp"])
			mod("sdwa-omod", uint32(in.Omod), d.F["sdwa_omod"])
		}
	} else if in.IsSdwa {
		add("sdwa/spurious", "IsSdwa=true for a non-SDWA encoding")
	}
	return ms
}

// usesUnsupportedModifier: the description uses a modifier for which the
// property allows an explicit not-implemented diagnostic.
func usesUnsupportedModifier(d enc.Desc) bool {
	if d.Ext != "sdwa" {
		return false
	}
	for _, k := range []string{"sdwa_clamp", "src0_sext", "src0_neg", "src0_abs", "src1_sext", "src1_neg", "src1_abs", "sdwa_omod"} {
		if d.F[k] != 0 {
			return true
		}
	}
	return false
}

type rtAgg struct {
	mu   sync.Mutex
	sigs map[string]*rtSig
}

type rtSig struct {
	alsoCDNA3 bool
	lastRow   *enc.Row
	count     int64
	ops       map[string]bool
	first     string
	c         DescCase
}

func (a *rtAgg) add(sig string, r *enc.Row, d enc.Desc, b []byte, cdna3 bool, msg func() string) {
	a.mu.Lock()
	defer a.mu.Unlock()
	s := a.sigs[sig]
	if s == nil {
		s = &rtSig{ops: map[string]bool{}, first: msg(),
			c: DescCase{Part: "b", CDNA3: cdna3, Arch: string(d.Arch), Fmt: d.Fmt, Op: d.Op, Variant: r.Variant, Ext: d.Ext, F: d.Clone().F, Hex: hex.EncodeToString(b)}}
		a.sigs[sig] = s
	}
	s.count++
	if r != s.lastRow {
		s.lastRow = r
		if len(s.ops) < 400 {
			s.ops[fmt.Sprintf("%d:%s", r.Op, enc.Stem(r.Mnemonic))] = true
		}
	}
}

// merge folds a per-worker aggregator into a.
func (a *rtAgg) merge(b *rtAgg) {
	a.mu.Lock()
	defer a.mu.Unlock()
	for k, s := range b.sigs {
		t := a.sigs[k]
		if t == nil {
			a.sigs[k] = s
			continue
		}
		t.count += s.count
		for o := range s.ops {
			if len(t.ops) < 400 {
				t.ops[o] = true
			}
		}
	}
}

func (a *rtAgg) flush(report func(sig, msg string, c any)) {
	var keys []string
	for k := range a.sigs {
		keys = append(keys, k)
	}
	sort.Strings(keys)
	for _, k := range keys {
		s := a.sigs[k]
		var ops []string
		for o := range s.ops {
			ops = append(ops, o)
		}
		sort.Slice(ops, func(i, j int) bool {
			var x, y int
			fmt.Sscanf(ops[i], "%d", &x)
			fmt.Sscanf(ops[j], "%d", &y)
			return x < y
		})
		list := strings.Join(ops, " ")
		if len(list) > 900 {
			list = list[:900] + " ..."
		}
		also := ""
		if s.alsoCDNA3 {
			also = " (also with the GFX9 encodings under IsCDNA3=true)"
		}
		sig := k
		if len(ops) <= 4 && !strings.Contains(k, "/undecodable/") {
			// few opcodes: they are part of the signature, so that a listed
			// finding about one opcode never hides the same symptom on another
			var nums []string
			for _, o := range ops {
				nums = append(nums, strings.SplitN(o, ":", 2)[0])
			}
			sig = k + "/op" + strings.Join(nums, ",")
		}
		report(sig, fmt.Sprintf("%s\n%d descriptions of %d opcodes%s: %s", s.first, s.count, len(s.ops), also, list), s.c)
	}
}

// rtStats counts the work of part (b).
type rtStats struct {
	descs, diag, unconfirmed, notWellFormed int64
	rows                                    int
}

// roundTripDesc checks one description. Returns the number of Decode-level
// evaluations it accounted for.
func roundTripDesc(ds *decoders, r *enc.Row, gname string, d enc.Desc, agg *rtAgg, st *rtStats) {
	e, ok := r.Expect(d)
	if !ok {
		st.notWellFormed++
		return
	}
	b, err := d.Encode()
	if err != nil {
		return
	}
	st.descs++
	prefix := "roundtrip/"
	gk := gname
	if i := strings.IndexByte(gname, ':'); i > 0 {
		gk = gname[:i]
	}
	_ = gk
	where := func() string {
		return fmt.Sprintf("%s %s op %d [%s] bytes %s (%s)", r.Arch, enc.Stem(r.Mnemonic), r.Op, d.Key(), hex.EncodeToString(b), ds)
	}
	o := safeDecode(ds.a, b)
	switch o.kind {
	case kDiag:
		if usesUnsupportedModifier(d) {
			st.diag++
			return
		}
		agg.add(prefix+r.Fmt+"/diagnostic-panic-without-unsupported-modifier", r, d, b, ds.cdna3, func() string {
			return "Decode raised the diagnostic " + o.msg + " for an encoding that uses no unsupported modifier: " + where()
		})
		return
	case kErr:
		agg.add(prefix+r.Fmt+"/undecodable/"+errClass(o.msg), r, d, b, ds.cdna3, func() string {
			return "a well-formed encoding of an opcode the decode table knows is reported undecodable (" + o.msg + "): " + where()
		})
		return
	case kFault, kPanic, kBoth:
		var vs []viol
		ds.checkBuffer(b, false, &vs)
		for _, v := range vs {
			if strings.HasPrefix(v.kind, "fault") || v.kind == "undeclared-panic" || v.kind == "inst-and-error" {
				sig, _, detail := ds.signature(v)
				v := v
				agg.add(sig, r, d, b, ds.cdna3, func() string { return "well-formed encoding: " + v.msg + "; " + detail + "; " + where() })
			}
		}
		return
	}
	// prefix independence on well-formed instructions: trailing junk, second instance
	j := append(append([]byte(nil), b...), mkbuf(junk1, junk0)...)
	if dd := sameOutcome(o, safeDecode(ds.a, j[:12])); dd != "" {
		agg.add(prefix+r.Fmt+"/depends-on-bytes-beyond-size", r, d, b, ds.cdna3, func() string {
			return "decode(b) and decode(b++junk) differ in " + dd + ": " + where()
		})
	}
	if dd := sameOutcome(o, safeDecode(ds.b, b)); dd != "" {
		agg.add(prefix+r.Fmt+"/instances-disagree/"+strings.Fields(dd)[0], r, d, b, ds.cdna3, func() string {
			return "two Disassembler instances disagree on a well-formed instruction in " + dd + ": " + where()
		})
	}
	if (r.Fmt == "GLOBAL" || r.Fmt == "SCRATCH") && gname == "F:vdst" || (r.Fmt == "GLOBAL" || r.Fmt == "SCRATCH") && gname == "F:data" {
		// the SEG field: the same fields in the FLAT segment must not decode
		// to an identical instruction object
		fb := append([]byte(nil), b...)
		fb[1] &^= 0xC0
		if of := safeDecode(ds.a, fb); of.kind == kOK && sameInst(o.inst, of.inst) == "" {
			agg.add(prefix+r.Fmt+"/segment-not-represented", r, d, b, ds.cdna3, func() string {
				return "the decoded instruction is identical to the one decoded from the FLAT-segment word " + hex.EncodeToString(fb) + " (SEG bits 15:14 are not represented; InstName " + o.inst.InstName + "): " + where()
			})
		}
	}
	for _, m := range compareInst(r, d, e, o.inst) {
		m := m
		agg.add(prefix+r.Fmt+"/"+m.what, r, d, b, ds.cdna3, func() string { return m.msg + ": " + where() + " decoded " + describe(o, ds.pr) })
	}
}

func errClass(msg string) string {
	switch {
	case strings.Contains(msg, "not found"):
		return "opcode-not-found"
	case strings.Contains(msg, "no enough"):
		return "buffer-too-short"
	case strings.Contains(msg, "cannot find the instruction format"):
		return "format-not-found"
	case strings.Contains(msg, "cannot find Operand "):
		// the operand code the decoder has no representation for is part of the
		// signature, so that a listed code never hides another one
		var n int
		if _, err := fmt.Sscanf(msg[strings.Index(msg, "cannot find Operand ")+len("cannot find Operand "):], "%d", &n); err == nil {
			switch {
			case n >= 235 && n <= 239:
				return "operand-code-235..239(aperture/pops)-not-representable"
			case n == 249:
				return "operand-code-249(sdwa)-not-representable"
			case n == 254:
				return "operand-code-254(lds_direct)-not-representable"
			}
			return fmt.Sprintf("operand-code-%d-not-representable", n)
		}
	}
	return "other-error"
}
