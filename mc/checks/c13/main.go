// C13: loading a kernel by name yields exactly its code and metadata.
//
// Generated ELF64 code objects (own writer, elfw.go) and every shipped
// .hsaco are loaded with the real insts.LoadKernelCodeObjectFromBytes; the
// result is compared field by field with an independent parser (elfr.go).
// Cases run in worker subprocesses because the loader calls log.Fatal.
package main

import (
	"bytes"
	"encoding/base64"
	"encoding/json"
	"flag"
	"fmt"
	"hash/fnv"
	"os"
	"path/filepath"
	"reflect"
	"sort"
	"strings"

	"github.com/sarchlab/mgpusim/v4/amd/insts"

	"verif/mc/harness"
	"verif/mc/workers"
)

var emitFlag = flag.String("emit", "", "development: write every 200th generated file into this directory and exit (for readelf cross-checks)")
var dumpFlag = flag.Bool("dump", false, "development: print the oracle's reading of every shipped object as JSON and exit")

func repoDir() string {
	if d := os.Getenv("VERIF_REPO_DIR"); d != "" {
		return d
	}
	return "/repo"
}

// Got is what the loader returned.
type Got struct {
	Data     []byte
	Version  int
	Meta     Meta
	MetaNil  bool
	SymName  string
	SymValue uint64
	SymSize  uint64
}

func load(file []byte, name string) (g *Got, panicked string) {
	return loadWith(func() *insts.KernelCodeObject { return insts.LoadKernelCodeObjectFromBytes(file, name) })
}

func loadWith(loader func() *insts.KernelCodeObject) (g *Got, panicked string) {
	defer func() {
		if r := recover(); r != nil {
			g, panicked = nil, fmt.Sprint(r)
		}
	}()
	co := loader()
	if co == nil {
		return nil, "loader returned nil"
	}
	g = &Got{Data: co.Data, Version: int(co.Version)}
	if co.Symbol != nil {
		g.SymName, g.SymValue, g.SymSize = co.Symbol.Name, co.Symbol.Value, co.Symbol.Size
	}
	m := co.KernelCodeObjectMeta
	if m == nil {
		g.MetaNil = true
		return g, ""
	}
	g.Meta = Meta{Rsrc1: m.ComputePgmRsrc1, Rsrc2: m.ComputePgmRsrc2, Rsrc3: m.ComputePgmRsrc3, Kernarg: m.KernargSegmentByteSize,
		Group: m.GroupSegmentByteSize, Private: m.PrivateSegmentByteSize, Entry: m.KernelCodeEntryByteOffset,
		Enable: [10]bool{m.EnableSgprPrivateSegmentBuffer, m.EnableSgprDispatchPtr, m.EnableSgprQueuePtr, m.EnableSgprKernargSegmentPtr,
			m.EnableSgprDispatchID, m.EnableSgprFlatScratchInit, m.EnableSgprPrivateSegmentSize, m.EnableSgprGridWorkgroupCountX,
			m.EnableSgprGridWorkgroupCountY, m.EnableSgprGridWorkgroupCountZ},
		CodeMajor: m.CodeVersionMajor, CodeMinor: m.CodeVersionMinor, MachKind: m.MachineKind, MachMajor: m.MachineVersionMajor,
		MachMinor: m.MachineVersionMinor, MachStp: m.MachineVersionStepping, Sgpr: m.WFSgprCount, Vgpr: m.WIVgprCount}
	return g, ""
}

// Viol is one oracle mismatch.
type Viol struct {
	Sig    string `json:"sig"`
	Msg    string `json:"msg"`
	Kernel string `json:"kernel"`
}

func hexN(b []byte, n int) string {
	if len(b) > n {
		return fmt.Sprintf("%x… (%d bytes)", b[:n], len(b))
	}
	return fmt.Sprintf("%x (%d bytes)", b, len(b))
}

// compareMeta reports the fields of got that differ from want.
func compareMeta(kind string, want, got Meta, e *Expect, out *[]Viol, name string) {
	add := func(sig, f string, a ...any) {
		*out = append(*out, Viol{kind + "/" + sig, fmt.Sprintf(f, a...), name})
	}
	var w40, w44, w48 uint32
	if e.Kind == kindDesc {
		w40 = leU32(e.KD[40:])
		w44 = leU32(e.KD[44:])
		w48 = leU32(e.KD[48:])
	}
	if got.Rsrc1 != want.Rsrc1 {
		if e.Kind == kindDesc && got.Rsrc1 == w44 {
			add("rsrc-words-read-4-bytes-early/compute_pgm_rsrc1", "ComputePgmRsrc1 = %#x is the descriptor word at byte 44 (compute_pgm_rsrc3); compute_pgm_rsrc1 at byte 48 is %#x", got.Rsrc1, want.Rsrc1)
		} else {
			add("ComputePgmRsrc1-mismatch", "got %#x want %#x", got.Rsrc1, want.Rsrc1)
		}
	}
	if got.Rsrc2 != want.Rsrc2 {
		if e.Kind == kindDesc && got.Rsrc2 == rewriteRsrc2(w48, want.Kernarg > 0) {
			add("rsrc-words-read-4-bytes-early/compute_pgm_rsrc2", "ComputePgmRsrc2 = %#x is the (rewritten) descriptor word at byte 48 (compute_pgm_rsrc1 = %#x); rewritten compute_pgm_rsrc2 at byte 52 is %#x", got.Rsrc2, w48, want.Rsrc2)
		} else {
			add("ComputePgmRsrc2-mismatch", "got %#x want %#x", got.Rsrc2, want.Rsrc2)
		}
	}
	if got.Rsrc3 != want.Rsrc3 {
		if e.Kind == kindDesc && got.Rsrc3 == w40 {
			add("rsrc-words-read-4-bytes-early/compute_pgm_rsrc3", "ComputePgmRsrc3 = %#x is the reserved descriptor word at byte 40; compute_pgm_rsrc3 at byte 44 is %#x", got.Rsrc3, want.Rsrc3)
		} else {
			add("ComputePgmRsrc3-mismatch", "got %#x want %#x", got.Rsrc3, want.Rsrc3)
		}
	}
	if got.Vgpr != want.Vgpr || got.Sgpr != want.Sgpr {
		v44, s44 := regCounts(w44, e.VgSym, e.SgSym)
		if e.Kind == kindDesc && got.Vgpr == v44 && got.Sgpr == s44 {
			add("rsrc-words-read-4-bytes-early/register-counts", "WIVgprCount/WFSgprCount = %d/%d are derived from the descriptor word at byte 44 (%#x); from compute_pgm_rsrc1 (%#x) and the metadata symbols they are %d/%d", got.Vgpr, got.Sgpr, w44, want.Rsrc1, want.Vgpr, want.Sgpr)
		} else {
			if got.Vgpr != want.Vgpr {
				add("WIVgprCount-mismatch", "got %d want %d", got.Vgpr, want.Vgpr)
			}
			if got.Sgpr != want.Sgpr {
				add("WFSgprCount-mismatch", "got %d want %d", got.Sgpr, want.Sgpr)
			}
		}
	}
	if got.Kernarg != want.Kernarg {
		add("KernargSegmentByteSize-mismatch", "got %#x want %#x", got.Kernarg, want.Kernarg)
	}
	if got.Group != want.Group {
		add("GroupSegmentByteSize-mismatch", "got %#x want %#x", got.Group, want.Group)
	}
	if got.Private != want.Private {
		add("PrivateSegmentByteSize-mismatch", "got %#x want %#x", got.Private, want.Private)
	}
	for i := range want.Enable {
		if got.Enable[i] != want.Enable[i] {
			add(enableNames[i]+"-mismatch", "got %v want %v", got.Enable[i], want.Enable[i])
		}
	}
	if got.CodeMajor != want.CodeMajor || got.CodeMinor != want.CodeMinor {
		add("CodeVersion-mismatch", "got %d.%d want %d.%d", got.CodeMajor, got.CodeMinor, want.CodeMajor, want.CodeMinor)
	}
	if got.MachKind != want.MachKind || got.MachMajor != want.MachMajor || got.MachMinor != want.MachMinor || got.MachStp != want.MachStp {
		add("Machine-mismatch", "got kind %d version %d.%d.%d want kind %d version %d.%d.%d", got.MachKind, got.MachMajor, got.MachMinor, got.MachStp,
			want.MachKind, want.MachMajor, want.MachMinor, want.MachStp)
	}
}

func leU32(b []byte) uint32 { return uint32(b[0]) | uint32(b[1])<<8 | uint32(b[2])<<16 | uint32(b[3])<<24 }

// compare is the oracle: everything the property names, nothing more.
func compare(e *Expect, g *Got, name string) []Viol {
	kind := kindName[e.Kind]
	var out []Viol
	add := func(sig, f string, a ...any) {
		out = append(out, Viol{kind + "/" + sig, fmt.Sprintf(f, a...), name})
	}
	if g.MetaNil {
		add("nil-metadata", "KernelCodeObjectMeta is nil")
		return out
	}
	if g.SymName != name || g.SymValue != e.Sym.value || g.SymSize != e.Sym.size {
		add("symbol-mismatch", "Symbol = %s value %#x size %d, file has %s value %#x size %d", g.SymName, g.SymValue, g.SymSize, name, e.Sym.value, e.Sym.size)
	}
	if e.Ambiguous {
		// descriptor-less function whose first 256 bytes satisfy every header test: either reading
		if bytes.Equal(g.Data, e.AltData) {
			want := e.AltMeta
			want.Entry = g.Meta.Entry
			var v []Viol
			compareMeta(kind+"-read-as-header", want, g.Meta, e, &v, name)
			out = append(out, v...)
			if int(g.Meta.Entry) != 0 {
				add("entry-offset-after-strip", "entry offset %d after stripping", g.Meta.Entry)
			}
			return out
		}
	}
	if !bytes.Equal(g.Data, e.Data) {
		switch {
		case e.Kind == kindHeader && bytes.Equal(g.Data, e.Bytes):
			add("header-not-stripped", "a genuine 256-byte header (HSA kernel symbol) was not stripped: Data has %d bytes, instructions are %d bytes", len(g.Data), len(e.Data))
		case e.Kind != kindHeader && len(e.Bytes) >= 256 && bytes.Equal(g.Data, e.Bytes[256:]):
			add("stripped-256-bytes-of-instructions", "256 bytes stripped from a kernel that has no header: Data has %d bytes, instructions are %d bytes starting %s", len(g.Data), len(e.Data), hexN(e.Data, 24))
		default:
			add("instruction-bytes-mismatch", "Data = %s, file has %s", hexN(g.Data, 32), hexN(e.Data, 32))
		}
	}
	want := e.Meta
	switch e.Kind {
	case kindHeader:
		// "instructions start right after the stripped header"
		if g.Meta.Entry > uint64(len(g.Data)) || e.Meta.Entry > uint64(len(e.Bytes)) ||
			!bytes.Equal(g.Data[g.Meta.Entry:], e.Bytes[e.Meta.Entry:]) {
			add("entry-offset-mismatch", "loaded entry offset %d into %d bytes of Data does not designate the byte at header entry offset %d", g.Meta.Entry, len(g.Data), e.Meta.Entry)
		}
		want.Entry = g.Meta.Entry
	case kindDesc:
		if g.Meta.Entry != e.Meta.Entry {
			add("KernelCodeEntryByteOffset-mismatch", "got %#x, descriptor stores %#x", g.Meta.Entry, e.Meta.Entry)
		}
	case kindNone:
		if g.Meta.Entry != 0 {
			add("KernelCodeEntryByteOffset-mismatch", "got %#x for a kernel without metadata", g.Meta.Entry)
		}
	}
	compareMeta(kind, want, g.Meta, e, &out, name)
	if e.Kind != kindNone && g.Version != e.Version {
		add("version-mismatch", "Version = %d want %d", g.Version, e.Version)
	}
	return out
}

func fingerprint(g *Got) uint64 {
	h := fnv.New64a()
	h.Write(g.Data)
	fmt.Fprintf(h, "|%d|%+v", g.Version, g.Meta)
	return h.Sum64()
}

// CaseResult is what a worker returns for one file.
type CaseResult struct {
	Loads     int             `json:"loads"`
	Kernels   int             `json:"kernels"`
	Prints    []uint64        `json:"prints"`
	Viols     []Viol          `json:"viols,omitempty"`
	FileB64   string          `json:"file,omitempty"`
	Infra     string          `json:"infra,omitempty"`
	Sample    json.RawMessage `json:"sample,omitempty"`
	Ambiguous int             `json:"ambiguous"`
}

func canonical(k KernelSpec) *FileSpec {
	k2 := k
	return &FileSpec{Kernels: []KernelSpec{k2}, SecOrder: 0, Arr: 0}
}

func checkFile(file []byte, names []string, res *CaseResult) map[string]*Got {
	got := map[string]*Got{}
	rf, err := parseELF(file)
	if err != nil {
		res.Infra = "oracle cannot parse the file: " + err.Error()
		return got
	}
	for _, name := range names {
		e, err := rf.expect(name)
		if err != nil {
			res.Infra = "oracle: " + err.Error()
			return got
		}
		res.Loads++
		g, p := load(file, name)
		if p != "" {
			res.Viols = append(res.Viols, Viol{kindName[e.Kind] + "/loader-panic", "loader panicked: " + firstLine(p), name})
			continue
		}
		if e.Ambiguous {
			res.Ambiguous++
		}
		got[name] = g
		res.Prints = append(res.Prints, fingerprint(g))
		res.Viols = append(res.Viols, compare(e, g, name)...)
	}
	// the empty name: "the only kernel of the file". The loader resolves it when the file defines exactly one
	// kernel; the result must be what loading that kernel by its name gives.
	if len(names) == 1 && rf.singleKernelSymbol() {
		if byName := got[names[0]]; byName != nil {
			res.Loads++
			g, p := load(file, "")
			switch {
			case p != "":
				res.Viols = append(res.Viols, Viol{"empty-name/loader-panic", "loading the only kernel with the empty name panicked: " + firstLine(p), names[0]})
			case !bytes.Equal(g.Data, byName.Data) || !reflect.DeepEqual(g.Meta, byName.Meta) || g.Version != byName.Version || g.MetaNil != byName.MetaNil:
				res.Viols = append(res.Viols, Viol{"empty-name/differs-from-load-by-name",
					fmt.Sprintf("loading the only kernel of the file with the empty name gives version %d, %d instruction bytes, metadata %+v; by name: version %d, %d bytes, %+v",
						g.Version, len(g.Data), g.Meta, byName.Version, len(byName.Data), byName.Meta), names[0]})
			}
		}
	}
	return got
}

func firstLine(s string) string {
	if i := strings.IndexByte(s, '\n'); i >= 0 {
		s = s[:i]
	}
	if len(s) > 300 {
		s = s[:300]
	}
	return s
}

func runCase(c Case, wantSample bool) CaseResult {
	var res CaseResult
	if c.Spec == nil {
		file, err := os.ReadFile(filepath.Join(repoDir(), c.Path))
		if err != nil {
			res.Infra = err.Error()
			return res
		}
		rf, err := parseELF(file)
		if err != nil {
			res.Infra = c.Path + ": " + err.Error()
			return res
		}
		names := rf.kernelNames()
		if len(names) == 0 {
			res.Infra = c.Path + ": oracle found no kernel"
			return res
		}
		res.Kernels = len(names)
		checkFile(file, names, &res)
		if wantSample {
			e, _ := rf.expect(names[0])
			res.Sample, _ = json.Marshal(map[string]any{"shipped": c.Path, "kernels": names, "first_kernel_kind": kindName[e.Kind],
				"first_kernel_instruction_bytes": len(e.Data), "first_kernel_expected": fmt.Sprintf("%+v", e.Meta)})
		}
		return res
	}
	f := c.Spec
	file := f.Build()
	var names []string
	for _, k := range f.Kernels {
		names = append(names, k.Name)
	}
	res.Kernels = len(names)
	got := checkFile(file, names, &res)
	// ground truth of the generator against the oracle's reading (guards the oracle itself)
	if res.Infra == "" {
		rf, _ := parseELF(file)
		for _, k := range f.Kernels {
			e, _ := rf.expect(k.Name)
			if e.Kind != k.Kind || !bytes.Equal(e.Bytes, k.text()) {
				res.Infra = fmt.Sprintf("writer and oracle disagree on kernel %s (kind %d vs %d, %d vs %d bytes)", k.Name, e.Kind, k.Kind, len(e.Bytes), len(k.text()))
			}
		}
	}
	// metamorphic: the same kernel alone in a canonical file loads identically
	if len(f.Kernels) > 1 || f.Layout != 0 || f.TextLead != 0 || f.RoLead != 0 || f.Arr != 0 || f.SecOrder != 0 || f.Decoys {
		for _, k := range f.Kernels {
			g := got[k.Name]
			if g == nil {
				continue
			}
			alone := canonical(k).Build()
			res.Loads++
			ga, p := load(alone, k.Name)
			if p != "" {
				res.Viols = append(res.Viols, Viol{kindName[k.Kind] + "/loader-panic", "loader panicked on the single-kernel file: " + firstLine(p), k.Name})
				continue
			}
			if !bytes.Equal(ga.Data, g.Data) || !reflect.DeepEqual(ga.Meta, g.Meta) || ga.Version != g.Version {
				res.Viols = append(res.Viols, Viol{kindName[k.Kind] + "/depends-on-other-kernels-or-symbol-order",
					fmt.Sprintf("kernel %s loads differently from this file (%d bytes, %+v) than alone in a canonical file (%d bytes, %+v)", k.Name, len(g.Data), g.Meta, len(ga.Data), ga.Meta), k.Name})
			}
		}
	}
	if len(res.Viols) > 0 || res.Infra != "" {
		res.FileB64 = base64.StdEncoding.EncodeToString(file)
	}
	if wantSample {
		rf, _ := parseELF(file)
		e, _ := rf.expect(names[len(names)-1])
		kinds := []string{}
		for _, k := range f.Kernels {
			kinds = append(kinds, k.Name+":"+kindName[k.Kind])
		}
		res.Sample, _ = json.Marshal(map[string]any{"family": c.Family, "kernels": kinds, "ei_abiversion": f.ABI, "layout": f.Layout, "text_lead": f.TextLead,
			"rodata_lead": f.RoLead, "section_order": f.SecOrder, "symbol_group_order": f.Perm, "arrangement": f.Arr, "file_bytes": len(file),
			"loaded": names[len(names)-1], "expected_instruction_bytes": len(e.Data), "expected_meta": fmt.Sprintf("%+v", e.Meta)})
	}
	return res
}

// replayCase is stored in replay files.
type replayCase struct {
	Case    Case   `json:"case"`
	FileB64 string `json:"file_base64,omitempty"`
}

func main() {
	r := harness.Start("C13", "exploration")
	if *dumpFlag {
		dump()
		return
	}
	cases := genCases(r.Thorough(), repoDir())
	if *emitFlag != "" {
		os.MkdirAll(*emitFlag, 0o755)
		for i, c := range cases {
			if c.Spec != nil && i%200 == 0 {
				os.WriteFile(filepath.Join(*emitFlag, fmt.Sprintf("gen%06d.elf", i)), c.Spec.Build(), 0o644)
			}
		}
		return
	}
	if workers.IsWorker() {
		workers.Serve(func(i int) any {
			return runCase(cases[i], i%997 == 0 || cases[i].Spec == nil && i%16 == 0)
		}, func(c json.RawMessage) any {
			var rc replayCase
			if err := json.Unmarshal(c, &rc); err != nil {
				return CaseResult{Infra: err.Error()}
			}
			res := runCase(rc.Case, false)
			if rc.Case.Spec != nil && rc.FileB64 != "" && res.Infra == "" {
				if base64.StdEncoding.EncodeToString(rc.Case.Spec.Build()) != rc.FileB64 {
					res.Infra = "the writer no longer produces the recorded file for this spec"
				}
			}
			return res
		})
	}
	pool := workers.Pool{Args: []string{"-tier", r.Tier}, Chunk: 64, Deadline: r.Deadline()}
	r.Assume = []string{
		"a kernel with a 256-byte amd_kernel_code_t header is marked by symbol type STT_AMDGPU_HSA_KERNEL (code object V2, as in every shipped gfx803 object and llvm-mc-14 output); a kernel with a <name>.kd OBJECT symbol of size 64 has a kernel descriptor",
		"valid headers have amd_code_version 1.0-1.2, machine kind 1, machine version major 7-9 and kernel_code_entry_byte_offset 256 (what LLVM emits for the GPUs the simulator models)",
		"fields the loader deliberately rewrites for V5 (compute_pgm_rsrc2 forcing, SGPR enables, register counts raised from the metadata symbols) are compared with the documented rewrite applied to the correct descriptor field",
		"a descriptor-less function whose first 256 bytes pass all five header tests is indistinguishable from header+code; both readings are accepted (counted as ambiguous)",
		"metadata symbol values stay within architectural limits (<= 512 VGPRs, <= 102 SGPRs)",
	}
	if r.Replay != "" {
		if data, err := os.ReadFile(r.Replay); err == nil && bytes.Contains(data, []byte(`"launch_sequence"`)) {
			var f struct {
				Case uploadCase `json:"case"`
			}
			if json.Unmarshal(data, &f) == nil {
				if sig, msg := runUpload(f.Case); sig != "" {
					fmt.Printf("VIOLATION property=C13 replay=%s\n  signature: %s\n  %s\n", r.Replay, sig, msg)
					os.Exit(1)
				}
				fmt.Println("replay: no violation")
				os.Exit(0)
			}
		}
		replay(r, pool)
		return
	}
	uploadPass(r)
	pathPass(r)
	prints := map[uint64]struct{}{}
	loads, kernels, files, ambiguous := 0, 0, 0, 0
	fam := map[string]int{}
	complete, err := pool.Run(len(cases), func(wr workers.Result) {
		c := cases[wr.Index]
		if wr.Died {
			r.Report("loader-killed-the-process/"+c.Family, "the process ended while loading from this file (log.Fatal / os.Exit): "+firstLine(lastLine(wr.Stderr)), replayCase{Case: c})
			return
		}
		var res CaseResult
		if err := json.Unmarshal(wr.Data, &res); err != nil {
			r.Infra("case %d: %v", wr.Index, err)
			return
		}
		if res.Infra != "" {
			r.Infra("case %d (%s): %s", wr.Index, c.Family, res.Infra)
			return
		}
		files++
		fam[strings.SplitN(c.Family, "/", 2)[0]]++
		loads += res.Loads
		kernels += res.Kernels
		ambiguous += res.Ambiguous
		for _, p := range res.Prints {
			prints[p] = struct{}{}
		}
		if res.Sample != nil {
			r.Sample(res.Sample)
		}
		for _, v := range res.Viols {
			r.Report(v.Sig, fmt.Sprintf("kernel %s of a %s file: %s", v.Kernel, c.Family, v.Msg), replayCase{Case: c, FileB64: res.FileB64})
		}
	})
	if err != nil {
		r.Infra("%v", err)
	}
	r.Cov["evaluations"] = loads
	r.Cov["files"] = files
	r.Cov["kernels_loaded_by_name"] = kernels
	r.Cov["files_by_family"] = fam
	r.Cov["ambiguous_descriptorless_full_mimics_accepted_either_way"] = ambiguous
	r.Cov["distinct_nontrivial"] = len(prints)
	r.Cov["exhaustive"] = complete
	r.Cov["rule"] = "every generated code object of the enumeration (1-3 kernels x header kind per kernel x section address/lead-in layouts x all symbol-group orders x 4 symbol arrangements x metadata-symbol presence; 28 header-mimicking instruction prefixes x 5 lengths x kind x position; one-factor-at-a-time boundary values of every header / descriptor field and the rsrc1 x metadata-symbol cross product) and every shipped .hsaco x every kernel in it is loaded by name with the real loader and compared field by field with an independent ELF parser, plus a reload of each kernel alone in a canonical file; evaluations = loader calls, distinct_nontrivial = distinct (instruction bytes, metadata) results"
	fmt.Printf("files=%d loads=%d distinct results=%d families=%v\n", files, loads, len(prints), fam)
	r.Finish()
}

func lastLine(s string) string {
	s = strings.TrimSpace(s)
	if i := strings.LastIndexByte(s, '\n'); i >= 0 {
		return s[i+1:]
	}
	return s
}

func replay(r *harness.Run, pool workers.Pool) {
	data, err := os.ReadFile(r.Replay)
	if err != nil {
		fmt.Fprintln(os.Stderr, err)
		os.Exit(2)
	}
	var f struct {
		Signature string     `json:"signature"`
		Case      replayCase `json:"case"`
	}
	if err := json.Unmarshal(data, &f); err != nil {
		fmt.Fprintln(os.Stderr, err)
		os.Exit(2)
	}
	wr, err := pool.RunCase(f.Case)
	if err != nil {
		fmt.Println("INFRASTRUCTURE ERROR:", err)
		os.Exit(2)
	}
	if wr.Died {
		fmt.Printf("VIOLATION property=C13 replay=%s\n  signature: loader-killed-the-process/%s\n  %s\n", r.Replay, f.Case.Case.Family, lastLine(wr.Stderr))
		os.Exit(1)
	}
	var res CaseResult
	json.Unmarshal(wr.Data, &res)
	if res.Infra != "" {
		fmt.Println("INFRASTRUCTURE ERROR:", res.Infra)
		os.Exit(2)
	}
	sort.Slice(res.Viols, func(i, j int) bool { return res.Viols[i].Sig < res.Viols[j].Sig })
	hit := false
	for _, v := range res.Viols {
		fmt.Printf("  %s: kernel %s: %s\n", v.Sig, v.Kernel, v.Msg)
		if v.Sig == f.Signature {
			hit = true
		}
	}
	if hit || (f.Signature == "" && len(res.Viols) > 0) {
		fmt.Printf("VIOLATION property=C13 replay=%s\n  signature: %s\n", r.Replay, f.Signature)
		os.Exit(1)
	}
	fmt.Println("replay: no violation")
	os.Exit(0)
}

// dump prints the oracle's reading of the shipped objects (cross-checked
// against llvm-readelf --notes during development).
func dump() {
	for _, c := range genCases(false, repoDir()) {
		if c.Spec != nil {
			continue
		}
		file, _ := os.ReadFile(filepath.Join(repoDir(), c.Path))
		rf, err := parseELF(file)
		if err != nil {
			fmt.Println("ERR", c.Path, err)
			continue
		}
		for _, n := range rf.kernelNames() {
			e, err := rf.expect(n)
			if err != nil {
				fmt.Println("ERR", c.Path, n, err)
				continue
			}
			raw2 := uint32(0)
			if e.Kind == kindDesc {
				raw2 = leU32(e.KD[52:])
			}
			out, _ := json.Marshal(map[string]any{"file": c.Path, "kernel": n, "kind": kindName[e.Kind], "kernarg": e.Meta.Kernarg, "group": e.Meta.Group,
				"private": e.Meta.Private, "rsrc1": e.Meta.Rsrc1, "rsrc2_raw": raw2, "rsrc2": e.Meta.Rsrc2, "rsrc3": e.Meta.Rsrc3, "sgpr": e.Meta.Sgpr, "vgpr": e.Meta.Vgpr,
				"code_bytes": len(e.Data), "entry": e.Meta.Entry})
			fmt.Println(string(out))
		}
	}
}
