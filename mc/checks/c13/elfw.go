package main

// Independent ELF64 little-endian WRITER for generated AMDGPU code objects.
// Nothing here uses debug/elf. Layouts were cross-checked against objects
// assembled by llvm-mc-14 (see notes/C13.md):
//   amd_kernel_code_t (code object V2, 256 bytes in .text, symbol type
//   STT_AMDGPU_HSA_KERNEL=10) and kernel_descriptor_t (code object V3+,
//   64 bytes in .rodata, symbol <name>.kd).

import (
	"encoding/binary"
	"sort"
)

const (
	kindHeader = 0 // V2/V3: 256-byte amd_kernel_code_t in front of the code
	kindDesc   = 1 // V5: <name>.kd kernel descriptor in .rodata
	kindNone   = 2 // raw instructions, no metadata
)

var kindName = []string{"hdr", "kd", "none"}

// HdrSpec is the content of an amd_kernel_code_t.
type HdrSpec struct {
	Major, Minor                  uint32
	MachKind                      uint16
	MachMajor, MachMinor, MachStp uint16
	Entry                         uint64
	Rsrc1, Rsrc2, Flags           uint32
	Private, Group, GDS           uint32
	Kernarg                       uint64
	FBarrier                      uint32
	SgprCount, VgprCount          uint16
	FillReserved                  bool // fill the fields the loader skips with a position pattern
}

// KDSpec is the content of a kernel_descriptor_t.
type KDSpec struct {
	Group, Private, Kernarg uint32
	Entry                   uint64
	Rsrc3, Rsrc1, Rsrc2     uint32
	Props, Preload          uint16
}

// KernelSpec is one kernel of a generated file.
type KernelSpec struct {
	Name   string
	Kind   int
	Code   []byte // instruction bytes (for kindHeader: what follows the header)
	Hdr    HdrSpec
	KD     KDSpec
	HasVg  bool // <name>.num_vgpr present
	HasSg  bool // <name>.numbered_sgpr present
	VgSym  uint64
	SgSym  uint64
	Filler byte
}

// FileSpec is a generated code object.
type FileSpec struct {
	Kernels  []KernelSpec
	Layout   int   // 0: sh_addr 0 (relocatable); 1: .text sh_addr = sh_offset = 0x1000; 2: sh_addr != sh_offset
	TextLead int   // bytes in .text before the first kernel
	RoLead   int   // bytes in .rodata before the first descriptor
	SecOrder int   // 0: LLVM relocatable order; 1: linked-object-like order (.rodata before .text)
	Perm     []int // order of the kernel groups in the symbol table
	Arr      int   // arrangement of the symbols of a group (0..3)
	Decoys   bool
	// ABI: EI_ABIVERSION of a file with descriptor kernels (1 = code object V3, 2 = V4, 3 = V5, 4 = V6; 0 = 4).
	// Kernel descriptors exist from V3 on; the loader must treat all of them alike.
	ABI int
}

func le16(b []byte, v uint16) { binary.LittleEndian.PutUint16(b, v) }
func le32(b []byte, v uint32) { binary.LittleEndian.PutUint32(b, v) }
func le64(b []byte, v uint64) { binary.LittleEndian.PutUint64(b, v) }

func (h HdrSpec) bytes() []byte {
	b := make([]byte, 256)
	if h.FillReserved {
		for i := range b {
			b[i] = byte(0x80 | (i*7)&0x7f)
		}
	}
	le32(b[0:], h.Major)
	le32(b[4:], h.Minor)
	le16(b[8:], h.MachKind)
	le16(b[10:], h.MachMajor)
	le16(b[12:], h.MachMinor)
	le16(b[14:], h.MachStp)
	le64(b[16:], h.Entry)
	le32(b[48:], h.Rsrc1)
	le32(b[52:], h.Rsrc2)
	le32(b[56:], h.Flags)
	le32(b[60:], h.Private)
	le32(b[64:], h.Group)
	le32(b[68:], h.GDS)
	le64(b[72:], h.Kernarg)
	le32(b[80:], h.FBarrier)
	le16(b[84:], h.SgprCount)
	le16(b[86:], h.VgprCount)
	return b
}

func (k KDSpec) bytes() []byte {
	b := make([]byte, 64)
	le32(b[0:], k.Group)
	le32(b[4:], k.Private)
	le32(b[8:], k.Kernarg)
	le64(b[16:], k.Entry)
	le32(b[44:], k.Rsrc3)
	le32(b[48:], k.Rsrc1)
	le32(b[52:], k.Rsrc2)
	le16(b[56:], k.Props)
	le16(b[58:], k.Preload)
	return b
}

// text returns the bytes the kernel symbol covers.
func (k KernelSpec) text() []byte {
	if k.Kind == kindHeader {
		return append(k.Hdr.bytes(), k.Code...)
	}
	return append([]byte(nil), k.Code...)
}

type wsym struct {
	name  string
	info  byte
	other byte
	shndx uint16
	value uint64
	size  uint64
}

type wsec struct {
	name             string
	typ              uint32
	flags            uint64
	addr, off, size  uint64
	link, info       uint32
	align, entsize   uint64
	data             []byte
	nobits           bool
}

const shnAbs = 0xfff1

// fullMimic is a header-looking prefix (all five sniffed fields match).
func fullMimic() []byte {
	b := make([]byte, 24)
	le32(b[0:], 1)
	le32(b[4:], 1)
	le16(b[8:], 1)
	le16(b[10:], 8)
	le64(b[16:], 256)
	return b
}

// Build serialises the file. It also returns, per kernel, where the writer put
// things (used only for the evidence samples, never by the oracle).
func (f FileSpec) Build() []byte {
	nk := len(f.Kernels)
	// ---- .text
	var text []byte
	lead := make([]byte, f.TextLead)
	for i := range lead {
		lead[i] = byte(0xE0 | i&0xf)
	}
	if f.TextLead >= 0x100 {
		copy(lead, fullMimic()) // a sniffer applied to the section start instead of the symbol would bite
	}
	text = append(text, lead...)
	koff := make([]uint64, nk)
	ksize := make([]uint64, nk)
	for i, k := range f.Kernels {
		koff[i] = uint64(len(text))
		t := k.text()
		ksize[i] = uint64(len(t))
		text = append(text, t...)
		for j := 0; j < 12; j++ { // unaligned gap
			text = append(text, byte(0xA0|i<<2|j&3))
		}
	}
	// ---- .rodata
	var ro []byte
	for i := 0; i < f.RoLead; i++ {
		ro = append(ro, byte(0xC0|i&0xf))
	}
	kdoff := make([]uint64, nk)
	order := make([]int, 0, nk)
	for i := range f.Kernels {
		order = append(order, i)
	}
	if f.SecOrder == 1 {
		sort.Sort(sort.Reverse(sort.IntSlice(order)))
	}
	needRo := false
	for _, i := range order {
		if f.Kernels[i].Kind == kindDesc {
			needRo = true
			kdoff[i] = uint64(len(ro))
			ro = append(ro, f.Kernels[i].KD.bytes()...)
		}
	}
	hasRo := needRo || f.SecOrder == 0
	if hasRo && len(ro) == 0 {
		ro = []byte{0xC1, 0xC2, 0xC3, 0xC4}
	}

	// ---- section list
	var secs []*wsec
	add := func(s *wsec) int { secs = append(secs, s); return len(secs) - 1 }
	add(&wsec{})
	var iText, iRo, iBss, iSymtab, iStrtab, iShstr int
	textSec := &wsec{name: ".text", typ: 1, flags: 6, align: 4, data: text}
	roSec := &wsec{name: ".rodata", typ: 1, flags: 2, align: 8, data: ro}
	bssSec := &wsec{name: ".bss", typ: 8, flags: 3, align: 1, size: 1, nobits: true}
	noteSec := &wsec{name: ".note", typ: 7, flags: 2, align: 4, data: []byte{4, 0, 0, 0, 0, 0, 0, 0, 32, 0, 0, 0, 'A', 'M', 'D', 0}}
	symSec := &wsec{name: ".symtab", typ: 2, align: 8, entsize: 24}
	strSec := &wsec{name: ".strtab", typ: 3, align: 1}
	if f.SecOrder == 0 {
		iStrtab = add(strSec)
		iShstr = iStrtab
		iText = add(textSec)
		if hasRo {
			iRo = add(roSec)
		}
		iBss = add(bssSec)
		add(noteSec)
		iSymtab = add(symSec)
	} else {
		add(noteSec)
		if hasRo {
			iRo = add(roSec)
		}
		iText = add(textSec)
		iBss = add(bssSec)
		iSymtab = add(symSec)
		iShstr = add(&wsec{name: ".shstrtab", typ: 3, align: 1})
		iStrtab = add(strSec)
	}

	// ---- place PROGBITS data so that addresses are known before symbols
	cur := uint64(64)
	alignUp := func(v, a uint64) uint64 {
		if a <= 1 {
			return v
		}
		return (v + a - 1) / a * a
	}
	place := func(s *wsec) {
		if s.nobits {
			s.off = cur
			return
		}
		s.off = alignUp(cur, s.align)
		if s == textSec && f.Layout == 1 {
			s.off = alignUp(cur, 0x1000)
		}
		s.size = uint64(len(s.data))
		cur = s.off + s.size
	}
	for _, s := range secs[1:] {
		if s == symSec || s.typ == 3 {
			continue
		}
		place(s)
		switch f.Layout {
		case 1:
			if s.flags&2 != 0 {
				s.addr = s.off
			}
		case 2:
			switch s {
			case textSec:
				s.addr = 0x1700
			case roSec:
				s.addr = 0x4040
			case bssSec:
				s.addr = 0x6000
			case noteSec:
				s.addr = 0x200
			}
		}
	}

	// ---- symbols
	type group struct{ kern, kd, vg, sg *wsym }
	groups := make([]group, nk)
	for i, k := range f.Kernels {
		info := byte(0x12) // GLOBAL FUNC
		if k.Kind == kindHeader {
			info = 0x1a // GLOBAL STT_AMDGPU_HSA_KERNEL
		}
		groups[i].kern = &wsym{k.Name, info, 3, uint16(iText), textSec.addr + koff[i], ksize[i]}
		if k.Kind == kindDesc {
			groups[i].kd = &wsym{k.Name + ".kd", 0x11, 3, uint16(iRo), roSec.addr + kdoff[i], 64}
		}
		if k.HasVg {
			groups[i].vg = &wsym{k.Name + ".num_vgpr", 0, 0, shnAbs, k.VgSym, 0}
		}
		if k.HasSg {
			groups[i].sg = &wsym{k.Name + ".numbered_sgpr", 0, 0, shnAbs, k.SgSym, 0}
		}
	}
	var decoys []*wsym
	if f.Decoys {
		decoys = append(decoys,
			&wsym{"BB0_1", 0, 0, uint16(iText), textSec.addr + koff[0] + 4, 0},
			&wsym{f.Kernels[0].Name + "$local", 0, 0, uint16(iText), textSec.addr + koff[0], 0},
			&wsym{f.Kernels[0].Name + ".num_agpr", 0, 0, shnAbs, 77, 0},
			&wsym{f.Kernels[0].Name + ".private_seg_size", 0, 0, shnAbs, 88, 0},
			&wsym{"amdgpu.max_num_vgpr", 0, 0, shnAbs, 99, 0},
			&wsym{"__hip_cuid_1234", 0x11, 0, uint16(iBss), bssSec.addr, 1},
		)
	}
	perm := f.Perm
	if len(perm) != nk {
		perm = make([]int, nk)
		for i := range perm {
			perm[i] = i
		}
	}
	var syms []*wsym
	put := func(s ...*wsym) {
		for _, x := range s {
			if x != nil {
				syms = append(syms, x)
			}
		}
	}
	switch f.Arr {
	case 0:
		for _, g := range perm {
			put(groups[g].kern, groups[g].kd, groups[g].vg, groups[g].sg)
		}
		put(decoys...)
	case 1:
		put(decoys...)
		for _, g := range perm {
			put(groups[g].sg, groups[g].vg, groups[g].kd, groups[g].kern)
		}
	case 2: // LLVM: absolute metadata symbols first, then kernel / descriptor pairs
		for _, g := range perm {
			put(groups[g].vg, groups[g].sg)
		}
		put(decoys...)
		for _, g := range perm {
			put(groups[g].kern, groups[g].kd)
		}
	default: // all descriptors (reverse), decoys, all kernels, metadata last
		for i := len(perm) - 1; i >= 0; i-- {
			put(groups[perm[i]].kd)
		}
		put(decoys...)
		for _, g := range perm {
			put(groups[g].kern)
		}
		for _, g := range perm {
			put(groups[g].sg, groups[g].vg)
		}
	}

	// ELF wants local symbols before global ones (sh_info = first global): keep
	// the bindings when the order allows it, otherwise make every symbol global
	// so that any permutation is a well-formed table.
	firstGlobal, ordered := len(syms), true
	for i, s := range syms {
		if s.info>>4 != 0 && i < firstGlobal {
			firstGlobal = i
		}
		if s.info>>4 == 0 && i > firstGlobal {
			ordered = false
		}
	}
	if !ordered {
		firstGlobal = 0
		for _, s := range syms {
			if s.info>>4 == 0 {
				s.info |= 0x10
			}
		}
	}
	symSec.info = uint32(firstGlobal + 1)

	// ---- string tables
	strtab := []byte{0}
	addStr := func(tab *[]byte, s string) uint32 {
		if s == "" {
			return 0
		}
		o := uint32(len(*tab))
		*tab = append(*tab, s...)
		*tab = append(*tab, 0)
		return o
	}
	symdata := make([]byte, 24*(len(syms)+1))
	for i, s := range syms {
		e := symdata[24*(i+1):]
		le32(e[0:], addStr(&strtab, s.name))
		e[4] = s.info
		e[5] = s.other
		le16(e[6:], s.shndx)
		le64(e[8:], s.value)
		le64(e[16:], s.size)
	}
	symSec.data = symdata
	symSec.link = uint32(iStrtab)
	shstr := &strtab
	var shstrtab []byte
	if iShstr != iStrtab {
		shstrtab = []byte{0}
		shstr = &shstrtab
	}
	nameOff := make([]uint32, len(secs))
	for i, s := range secs {
		nameOff[i] = addStr(shstr, s.name)
	}
	secs[iStrtab].data = strtab
	if iShstr != iStrtab {
		secs[iShstr].data = shstrtab
	}
	for _, s := range secs[1:] {
		if s == symSec || s.typ == 3 {
			place(s)
		}
	}
	shoff := alignUp(cur, 8)
	total := shoff + uint64(64*len(secs))
	out := make([]byte, total)
	// ---- ELF header
	copy(out, []byte{0x7f, 'E', 'L', 'F', 2, 1, 1, 0x40})
	abi := byte(0)
	for _, k := range f.Kernels {
		if k.Kind != kindHeader {
			abi = 4
			if f.ABI != 0 {
				abi = byte(f.ABI)
			}
		}
	}
	out[8] = abi
	etype := uint16(1)
	if f.Layout != 0 {
		etype = 3
	}
	le16(out[16:], etype)
	le16(out[18:], 224) // EM_AMDGPU
	le32(out[20:], 1)
	le64(out[24:], textSec.addr)
	le64(out[32:], 0)
	le64(out[40:], shoff)
	le32(out[48:], 0x54c)
	le16(out[52:], 64)
	le16(out[54:], 0)
	le16(out[56:], 0)
	le16(out[58:], 64)
	le16(out[60:], uint16(len(secs)))
	le16(out[62:], uint16(iShstr))
	for i, s := range secs {
		if !s.nobits && len(s.data) > 0 {
			copy(out[s.off:], s.data)
		}
		h := out[shoff+uint64(64*i):]
		le32(h[0:], nameOff[i])
		le32(h[4:], s.typ)
		le64(h[8:], s.flags)
		le64(h[16:], s.addr)
		le64(h[24:], s.off)
		le64(h[32:], s.size)
		le32(h[40:], s.link)
		le32(h[44:], s.info)
		le64(h[48:], s.align)
		le64(h[56:], s.entsize)
	}
	_ = iSymtab
	return out
}
