package main

// Enumeration of the generated code objects (deterministic; the worker
// subprocesses rebuild the same list and address cases by index).

import (
	"os"
	"path/filepath"
	"sort"
	"strings"
)

// Case is one file to check: a generated spec or a shipped object.
type Case struct {
	Family string    `json:"family"`
	Spec   *FileSpec `json:"spec,omitempty"`
	Path   string    `json:"path,omitempty"` // shipped object (relative to the repository root)
}

var kernelNames = []string{"kern", "kern2", "_Z3fooPf"}

func codePattern(i, n int) []byte {
	b := make([]byte, n)
	for j := range b {
		b[j] = byte(j*13 + i*57 + 0x11)
	}
	return b
}

func defHdr(i int) HdrSpec {
	return HdrSpec{Major: 1, Minor: uint32(i % 3), MachKind: 1, MachMajor: uint16(7 + i%3), MachMinor: 0, MachStp: 3, Entry: 256,
		Rsrc1: 0x00ac0040 + uint32(i), Rsrc2: 0x108c + uint32(i)<<13, Flags: 0x9 | 1<<uint(4+i),
		Private: 0x1100 + uint32(i), Group: 0x2200 + uint32(i), GDS: 0x3300 + uint32(i), Kernarg: 0x40 + 8*uint64(i),
		FBarrier: 0x5500 + uint32(i), SgprCount: uint16(16 + 8*i), VgprCount: uint16(4 + 4*i), FillReserved: true}
}

func defKD(i int) KDSpec {
	return KDSpec{Group: 0x6600 + uint32(i), Private: 0x7700 + uint32(i), Kernarg: 0x130 + 8*uint32(i), Entry: 0x1000 * uint64(i),
		Rsrc3: 1 + uint32(i), Rsrc1: 0x00af0080 | uint32(i), Rsrc2: 0x84 | uint32(i&1)<<9 | uint32(i>>1&1)<<12, Props: 8}
}

var defLen = []int{40, 300, 8}

// metadata-symbol values: not monotonic in the kernel index, so that taking
// another kernel's symbol is visible whichever way the loader's max() goes
var defVg = []uint64{41, 13, 27}
var defSg = []uint64{61, 21, 5}

func defKernel(i, kind int) KernelSpec {
	return KernelSpec{Name: kernelNames[i], Kind: kind, Code: codePattern(i, defLen[i]), Hdr: defHdr(i), KD: defKD(i),
		VgSym: defVg[i], SgSym: defSg[i]}
}

func perms(n int) [][]int {
	if n == 1 {
		return [][]int{{0}}
	}
	var out [][]int
	for _, p := range perms(n - 1) {
		for pos := 0; pos <= len(p); pos++ {
			q := append([]int{}, p[:pos]...)
			q = append(q, n-1)
			q = append(q, p[pos:]...)
			out = append(out, q)
		}
	}
	return out
}

type layout struct{ L, textLead, roLead int }

var textLeads = []int{0, 4, 0x104}
var roLeads = []int{0, 0x40, 8}

func layouts(full bool, reduced3 bool) []layout {
	var out []layout
	for L := 0; L < 3; L++ {
		for t := 0; t < 3; t++ {
			for r := 0; r < 3; r++ {
				if !full && r != (L+t)%3 {
					continue // Latin square: every pair of values occurs
				}
				if reduced3 && t != L {
					continue
				}
				out = append(out, layout{L, textLeads[t], roLeads[r]})
			}
		}
	}
	return out
}

// ---- header-mimicking instruction prefixes

type mimic struct {
	Name string
	B    []byte
}

func mimics() []mimic {
	type fld struct {
		name  string
		off   int
		size  int
		match []uint64
		miss  []uint64
	}
	flds := []fld{
		{"major", 0, 4, []uint64{1}, []uint64{0, 2, 0x10001, 0x01000000}},
		{"minor", 4, 4, []uint64{0, 2}, []uint64{3, 0xffffffff, 0x10000}},
		{"kind", 8, 2, []uint64{1}, []uint64{0, 2, 0x101}},
		{"mmajor", 10, 2, []uint64{7, 9}, []uint64{6, 10, 0x107}},
		{"entry", 16, 8, []uint64{256}, []uint64{0, 255, 257, 0x100000100, 0x10000}},
	}
	mk := func(vals []uint64) []byte {
		b := make([]byte, 24)
		b[12], b[13], b[14], b[15] = 0, 0, 3, 0
		for i, f := range flds {
			switch f.size {
			case 2:
				le16(b[f.off:], uint16(vals[i]))
			case 4:
				le32(b[f.off:], uint32(vals[i]))
			default:
				le64(b[f.off:], vals[i])
			}
		}
		return b
	}
	allMatch := func() []uint64 {
		v := make([]uint64, len(flds))
		for i, f := range flds {
			v[i] = f.match[0]
		}
		return v
	}
	var out []mimic
	for _, mi := range []uint64{0, 2} {
		for _, mm := range []uint64{7, 9} {
			v := allMatch()
			v[1], v[3] = mi, mm
			out = append(out, mimic{"all-match", mk(v)})
		}
	}
	for i, f := range flds {
		for _, x := range f.miss {
			v := allMatch()
			v[i] = x
			out = append(out, mimic{"only-" + f.name + "-differs", mk(v)})
		}
	}
	for i, f := range flds {
		v := make([]uint64, len(flds))
		for j, g := range flds {
			v[j] = g.miss[0]
		}
		v[i] = f.match[0]
		out = append(out, mimic{"only-" + f.name + "-matches", mk(v)})
	}
	v := make([]uint64, len(flds))
	for j, g := range flds {
		v[j] = g.miss[0]
	}
	out = append(out, mimic{"none-matches", mk(v)})
	return out
}

func mimicCode(m mimic, n int) []byte {
	b := codePattern(1, n)
	copy(b, m.B)
	return b
}

// ---- boundary alphabets

var (
	a32     = []uint32{0, 1, 0xffff, 0x10000, 0xffffffff}
	aRsrc1  = []uint32{0, 1, 0x3f, 0x40, 0x3c0, 0x3ff, 0x400, 0x00af0080, 0xffffffff}
	aRsrc2  = []uint32{0, 1, 0x3e, 0x40, 0x80, 0x100, 0x200, 0x400, 0x800, 0x1000, 0x1800, 0x2000, 0x4000, 0xffffffff}
	aFlags  = []uint32{0, 1, 2, 4, 8, 0x10, 0x20, 0x40, 0x80, 0x100, 0x200, 0x400, 0x3ff, 0xffffffff}
	a16     = []uint16{0, 1, 0xff, 0x100, 0xffff}
	aKarg64 = []uint64{0, 1, 0xffffffff, 0x100000000, 0xffffffffffffffff}
	aEntry  = []uint64{0, 0x100, 0x1000, 0xfffffffffffff000, 0x7fffffffffffffff}
	aProps  = []uint16{0, 1, 2, 4, 8, 0x10, 0x20, 0x40, 0x400, 0xffff}
	aVgSym  = []int64{-1, 0, 1, 3, 4, 5, 8, 9, 64, 256, 512} // -1: symbol absent
	aSgSym  = []int64{-1, 0, 1, 5, 6, 7, 14, 22, 100, 102}
)

func hdrVariants() []HdrSpec {
	var out []HdrSpec
	base := defHdr(1)
	add := func(f func(h *HdrSpec)) {
		h := base
		f(&h)
		out = append(out, h)
	}
	for _, v := range []uint32{0, 1, 2} {
		add(func(h *HdrSpec) { h.Minor = v })
	}
	for _, v := range []uint16{7, 8, 9} {
		add(func(h *HdrSpec) { h.MachMajor = v })
	}
	for _, v := range []uint16{0, 1, 0xffff} {
		add(func(h *HdrSpec) { h.MachMinor = v })
		add(func(h *HdrSpec) { h.MachStp = v })
	}
	for _, v := range aRsrc1 {
		add(func(h *HdrSpec) { h.Rsrc1 = v })
	}
	for _, v := range aRsrc2 {
		add(func(h *HdrSpec) { h.Rsrc2 = v })
	}
	for _, v := range aFlags {
		add(func(h *HdrSpec) { h.Flags = v })
	}
	for _, v := range a32 {
		add(func(h *HdrSpec) { h.Private = v })
		add(func(h *HdrSpec) { h.Group = v })
	}
	for _, v := range []uint32{0, 0xdeadbeef} {
		add(func(h *HdrSpec) { h.GDS = v })
		add(func(h *HdrSpec) { h.FBarrier = v })
	}
	for _, v := range aKarg64 {
		add(func(h *HdrSpec) { h.Kernarg = v })
	}
	for _, v := range a16 {
		add(func(h *HdrSpec) { h.SgprCount = v })
		add(func(h *HdrSpec) { h.VgprCount = v })
	}
	add(func(h *HdrSpec) { h.FillReserved = false })
	add(func(h *HdrSpec) { // everything at its maximum
		*h = HdrSpec{Major: 1, Minor: 2, MachKind: 1, MachMajor: 9, MachMinor: 0xffff, MachStp: 0xffff, Entry: 256, Rsrc1: 0xffffffff, Rsrc2: 0xffffffff,
			Flags: 0xffffffff, Private: 0xffffffff, Group: 0xffffffff, GDS: 0xffffffff, Kernarg: 0xffffffffffffffff, FBarrier: 0xffffffff, SgprCount: 0xffff, VgprCount: 0xffff}
	})
	add(func(h *HdrSpec) { // everything at its minimum
		*h = HdrSpec{Major: 1, MachKind: 1, MachMajor: 7, Entry: 256}
	})
	return out
}

type kdVariant struct {
	KD     KDSpec
	Vg, Sg int64
}

func kdVariants() []kdVariant {
	var out []kdVariant
	base := defKD(1)
	add := func(f func(k *KDSpec)) {
		k := base
		f(&k)
		out = append(out, kdVariant{k, 13, 21})
	}
	for _, v := range a32 {
		add(func(k *KDSpec) { k.Group = v })
		add(func(k *KDSpec) { k.Private = v })
		add(func(k *KDSpec) { k.Kernarg = v })
	}
	for _, v := range aEntry {
		add(func(k *KDSpec) { k.Entry = v })
	}
	for _, v := range []uint32{0, 1, 2, 0xffffffff} {
		add(func(k *KDSpec) { k.Rsrc3 = v })
	}
	for _, v := range aRsrc1 {
		add(func(k *KDSpec) { k.Rsrc1 = v })
	}
	for _, v := range aRsrc2 {
		add(func(k *KDSpec) { k.Rsrc2 = v })
		add(func(k *KDSpec) { k.Rsrc2 = v; k.Kernarg = 0 })
	}
	for _, v := range aProps {
		add(func(k *KDSpec) { k.Props = v })
	}
	add(func(k *KDSpec) { k.Preload = 0xffff })
	add(func(k *KDSpec) {
		*k = KDSpec{Group: 0xffffffff, Private: 0xffffffff, Kernarg: 0xffffffff, Entry: 0xffffffffffffffff, Rsrc3: 0xffffffff, Rsrc1: 0xffffffff, Rsrc2: 0xffffffff, Props: 0xffff, Preload: 0xffff}
	})
	add(func(k *KDSpec) { *k = KDSpec{} })
	// granulated counts of rsrc1 against the metadata symbols (max() interplay, rounding)
	for _, r1 := range []uint32{0, 0x41, 0x3ff} {
		for _, vg := range aVgSym {
			for _, sg := range aSgSym {
				k := base
				k.Rsrc1 = r1
				// keep the word in front of rsrc1 different from it so that a misread is visible
				k.Rsrc3 = 2
				out = append(out, kdVariant{k, vg, sg})
			}
		}
	}
	return out
}

// embed puts kernel k alone, or as the second kernel after a kernel of another kind.
func embed(k KernelSpec, second bool, ly layout, secOrder int) *FileSpec {
	f := &FileSpec{Layout: ly.L, TextLead: ly.textLead, RoLead: ly.roLead, SecOrder: secOrder, Decoys: second}
	if second {
		otherKind := kindHeader
		if k.Kind == kindHeader {
			otherKind = kindDesc
		}
		o := defKernel(0, otherKind)
		o.HasVg, o.HasSg = true, true
		k.Name = kernelNames[1]
		f.Kernels = []KernelSpec{o, k}
		f.Perm = []int{1, 0}
		f.Arr = 2
	} else {
		k.Name = kernelNames[0]
		f.Kernels = []KernelSpec{k}
		f.Arr = 0
	}
	return f
}

func genCases(thorough bool, repo string) []Case {
	var cases []Case
	// ---- A: structure sweep
	nfl := 4
	if thorough {
		nfl = 8
	}
	var allMatch, nearMiss mimic
	for _, m := range mimics() {
		if m.Name == "all-match" && allMatch.B == nil {
			allMatch = m
		}
		if m.Name == "only-entry-differs" && nearMiss.B == nil {
			nearMiss = m
		}
	}
	for nk := 1; nk <= 3; nk++ {
		lys := layouts(thorough, !thorough && nk == 3)
		nkinds := 1
		for i := 0; i < nk; i++ {
			nkinds *= 3
		}
		pp := perms(nk)
		for kc := 0; kc < nkinds; kc++ {
			for li, ly := range lys {
				for pi, p := range pp {
					for arr := 0; arr < 4; arr++ {
						for fl := 0; fl < nfl; fl++ {
							f := &FileSpec{Layout: ly.L, TextLead: ly.textLead, RoLead: ly.roLead, SecOrder: (li + pi + arr) % 2,
								Perm: p, Arr: arr, Decoys: (pi+arr)%2 == 0, ABI: 1 + (kc+li+pi+arr+fl)%4}
							c := kc
							for i := 0; i < nk; i++ {
								k := defKernel(i, c%3)
								c /= 3
								k.HasVg = (fl+i)&1 == 1
								k.HasSg = (fl>>1+i)&1 == 1
								if fl >= 4 { // thorough: header-mimicking code in every structure
									switch i {
									case 0:
										k.Code = mimicCode(nearMiss, 280)
									case 1:
										k.Code = mimicCode(allMatch, 300)
									}
								}
								f.Kernels = append(f.Kernels, k)
							}
							cases = append(cases, Case{Family: "structure", Spec: f})
						}
					}
				}
			}
		}
	}
	// ---- B: instruction bytes that mimic a header
	lys := layouts(thorough, !thorough)
	for _, m := range mimics() {
		for _, n := range []int{24, 255, 256, 260, 600} {
			for kind := 0; kind < 3; kind++ {
				for pos := 0; pos < 3; pos++ {
					for li, ly := range lys {
						k := defKernel(1, kind)
						k.Code = mimicCode(m, n)
						k.HasVg, k.HasSg = kind == kindDesc, kind == kindDesc
						var f *FileSpec
						switch pos {
						case 0:
							f = embed(k, false, ly, li%2)
						case 1:
							f = embed(k, true, ly, li%2)
						default: // first of two, followed by a header kernel
							f = embed(k, false, ly, li%2)
							o := defKernel(2, kindHeader)
							f.Kernels = append(f.Kernels, o)
							f.Perm = []int{1, 0}
							f.Arr = 3
						}
						cases = append(cases, Case{Family: "mimic/" + m.Name, Spec: f})
					}
				}
			}
		}
	}
	// ---- B2: ELF identification: descriptor objects of code-object versions V3..V6 (EI_ABIVERSION 1..4) in every
	// position and layout - descriptors exist from V3 on and LLVM 11-17 / ROCm 3-6 default to V3..V5 (seed C13-7)
	for abi := 1; abi <= 4; abi++ {
		for pos := 0; pos < 3; pos++ {
			for li, ly := range lys {
				for sym := 0; sym < 4; sym++ {
					k := defKernel(1, kindDesc)
					k.HasVg, k.HasSg = sym&1 == 1, sym&2 == 2
					var f *FileSpec
					switch pos {
					case 0:
						f = embed(k, false, ly, li%2)
					case 1:
						f = embed(k, true, ly, li%2)
					default:
						f = embed(k, false, ly, li%2)
						f.Kernels = append(f.Kernels, defKernel(2, kindDesc))
						f.Perm = []int{1, 0}
						f.Arr = 3
					}
					f.ABI = abi
					cases = append(cases, Case{Family: "ident", Spec: f})
				}
			}
		}
	}
	// ---- C: metadata boundary values
	for _, h := range hdrVariants() {
		for pos := 0; pos < 2; pos++ {
			for li, ly := range lys {
				k := defKernel(1, kindHeader)
				k.Hdr = h
				cases = append(cases, Case{Family: "metadata/hdr", Spec: embed(k, pos == 1, ly, li%2)})
			}
		}
	}
	for _, v := range kdVariants() {
		for pos := 0; pos < 2; pos++ {
			for li, ly := range lys {
				k := defKernel(1, kindDesc)
				k.KD = v.KD
				if v.Vg >= 0 {
					k.HasVg, k.VgSym = true, uint64(v.Vg)
				}
				if v.Sg >= 0 {
					k.HasSg, k.SgSym = true, uint64(v.Sg)
				}
				cases = append(cases, Case{Family: "metadata/kd", Spec: embed(k, pos == 1, ly, li%2)})
			}
		}
	}
	// ---- D: every shipped object
	var shipped []string
	filepath.Walk(repo, func(p string, info os.FileInfo, err error) error {
		if err == nil && !info.IsDir() && strings.HasSuffix(p, ".hsaco") {
			rel, _ := filepath.Rel(repo, p)
			shipped = append(shipped, rel)
		}
		return nil
	})
	sort.Strings(shipped)
	for _, p := range shipped {
		cases = append(cases, Case{Family: "shipped", Path: p})
	}
	return cases
}
