package main

// Driver side of C13 (amd/driver/kernel.go is anchored in the property): the
// code a launch executes is the code of the kernel object that was launched.
// EnqueueLaunchKernel uploads a code object once per driver and reuses the
// device copy afterwards; "exactly that kernel's instruction bytes ... does not
// depend on the other kernels" must survive that reuse. Every sequence of up
// to three launches over a small alphabet of code objects (the same object
// again, a different object with the same symbol and length but other bytes,
// a reloaded equal copy, an object of another length) is enqueued on a real
// driver (single GPU and unified device); the queue is then replayed in order
// into a model of device memory, and at every launch command the bytes at the
// dispatch packet's kernel_object address must be the launched object's Data.

import (
	"bytes"
	"debug/elf"
	"encoding/binary"
	"fmt"

	"github.com/sarchlab/akita/v4/mem/vm"
	"github.com/sarchlab/akita/v4/sim"
	"github.com/sarchlab/mgpusim/v4/amd/driver"
	"github.com/sarchlab/mgpusim/v4/amd/insts"
	"github.com/sarchlab/mgpusim/v4/amd/kernels"

	"verif/mc/harness"
)

// upPort stands for a command processor's port: the driver only asks it for its name.
type upPort struct {
	sim.Port
	n sim.RemotePort
}

func (p upPort) AsRemote() sim.RemotePort { return p.n }
func (p upPort) Name() string             { return string(p.n) }

type uploadCase struct {
	Kind    string `json:"kind"` // "upload"
	Unified bool   `json:"unified_device"`
	Seq     []int  `json:"launch_sequence"` // indices into the code-object alphabet
	// Ctx: the launching context of each launch (index; nil = all launches from the first context). Context 1 is
	// a second process (its own PID and address space, made by Init), context 2 a sibling of context 0 (same PID).
	Ctx []int `json:"launching_context,omitempty"`
}

var uploadAlphabet = []string{"A", "B: same symbol and length as A, other bytes", "A2: equal copy of A loaded again", "C: other length", "A again (same object)"}

func uploadObjects() []*insts.KernelCodeObject {
	mk := func(n int, seed byte, sym *insts.KernelCodeObject) *insts.KernelCodeObject {
		meta := &insts.KernelCodeObjectMeta{}
		meta.KernargSegmentByteSize = 16
		meta.WFSgprCount, meta.WIVgprCount = 16, 4
		// LDS size "as stored in the file": non-zero and different per object, so that a packet which does not carry it
		// (or carries another object's) is visible
		meta.GroupSegmentByteSize = uint32(n)*4 + uint32(seed)*16
		data := make([]byte, n)
		for i := range data {
			data[i] = byte(i*7) + seed
		}
		co := &insts.KernelCodeObject{KernelCodeObjectMeta: meta, Data: data}
		// the ELF symbol the loader attaches: objects loaded from two files (or twice from one) that define
		// the same kernel name at the same place carry equal symbols in distinct structs
		co.Symbol = &elf.Symbol{Name: fmt.Sprintf("kernel_%d", n), Info: 0x1a, Section: 7, Value: 0x1100, Size: uint64(n)}
		if sym != nil {
			cp := *sym.Symbol
			co.Symbol = &cp
		}
		return co
	}
	a := mk(128, 1, nil)
	b := mk(128, 2, a)
	a2 := mk(128, 1, a)
	c := mk(192, 3, nil)
	return []*insts.KernelCodeObject{a, b, a2, c, a}
}

type upArgs struct {
	P   uint64
	N   uint32
	L   driver.LocalPtr // dynamic LDS: the driver places it behind the kernel's static LDS
	L2  driver.LocalPtr
	Pad uint32
}

const upDynLDS1, upDynLDS2 = 96, 32

func runUpload(c uploadCase) (sig, msg string) {
	defer func() {
		if e := recover(); e != nil {
			sig, msg = "driver-upload/panic", fmt.Sprint(e)
		}
	}()
	return runUploadNoRecover(c)
}

// runUploadNoRecover enqueues the launches one at a time; after each call the queue's new commands are applied,
// in order, to a model of PHYSICAL device memory (host-to-device copies are translated page by page through the
// driver's page table with the launching process's PID), and at the launch command the bytes the GPU would fetch
// at the dispatch packet's kernel_object - translated with the PID the launch command carries - must be the
// launched object's instruction bytes.
func runUploadNoRecover(c uploadCase) (sig, msg string) {
	pt := vm.NewPageTable(12)
	d := driver.MakeBuilder().WithEngine(sim.NewSerialEngine()).WithFreq(1 * sim.GHz).WithLog2PageSize(12).WithPageTable(pt).Build("Driver")
	for i := 0; i < 2; i++ {
		d.RegisterGPU(upPort{n: sim.RemotePort(fmt.Sprintf("GPU%d.CP", i+1))}, driver.DeviceProperties{CUCount: 4, DRAMSize: 4 << 20})
	}
	ctx0 := d.Init()
	ctxs := []*driver.Context{ctx0, d.Init(), d.InitWithExistingPID(ctx0)}
	var queues []*driver.CommandQueue
	for _, ctx := range ctxs {
		if c.Unified {
			d.SelectGPU(ctx, d.CreateUnifiedGPU(ctx, []int{1, 2}))
		} else {
			d.SelectGPU(ctx, 1)
		}
		queues = append(queues, d.CreateCommandQueue(ctx))
	}
	objs := uploadObjects()
	memory := map[uint64]byte{} // physical
	phys := func(pid vm.PID, va uint64) (uint64, bool) {
		pg, ok := pt.Find(pid, va)
		if !ok {
			return 0, false
		}
		return pg.PAddr + (va - pg.VAddr), true
	}
	for launch, i := range c.Seq {
		ci := 0
		if launch < len(c.Ctx) {
			ci = c.Ctx[launch]
		}
		q, pid := queues[ci], driver.VerifContextPID(ctxs[ci])
		d.EnqueueLaunchKernel(q, objs[i], [3]uint32{512, 1, 1}, [3]uint16{64, 1, 1}, &upArgs{N: 4, L: upDynLDS1, L2: upDynLDS2})
		want := objs[i]
		check := func(co *insts.KernelCodeObject, lpid vm.PID, pkt *kernels.HsaKernelDispatchPacket, what string) bool {
			if co != want {
				sig, msg = "driver-upload/launch-command-carries-another-code-object", fmt.Sprintf("launch %d (%s) of sequence %v", launch+1, what, c.Seq)
				return false
			}
			if lpid != pid {
				sig, msg = "driver-upload/launch-command-carries-another-pid", fmt.Sprintf("launch %d (%s) of sequence %v: pid %d, the launching context's is %d", launch+1, what, c.Seq, lpid, pid)
				return false
			}
			// the launch carries the loaded kernel's LDS requirement: static size from the code object + dynamic LDS arguments
			if wantLDS := want.GroupSegmentByteSize + upDynLDS1 + upDynLDS2; pkt.GroupSegmentSize != wantLDS {
				sig = "driver-upload/dispatch-packet-lds-size-is-not-the-loaded-kernels"
				msg = fmt.Sprintf("launch %d (%s) of the sequence %v over {%v}: the dispatch packet says group_segment_size %d; the launched code object's LDS size is %d and the arguments add %d+%d of dynamic LDS (want %d)",
					launch+1, what, c.Seq, uploadAlphabet, pkt.GroupSegmentSize, want.GroupSegmentByteSize, upDynLDS1, upDynLDS2, wantLDS)
				return false
			}
			// the kernel-argument block on the device holds the LDS offsets of the dynamic LDS arguments
			{
				var kb [24]byte
				okAll := true
				for j := range kb {
					pa, ok := phys(lpid, pkt.KernargAddress+uint64(j))
					if !ok {
						okAll = false
						break
					}
					kb[j] = memory[pa]
				}
				l1 := uint32(kb[12]) | uint32(kb[13])<<8 | uint32(kb[14])<<16 | uint32(kb[15])<<24
				l2 := uint32(kb[16]) | uint32(kb[17])<<8 | uint32(kb[18])<<16 | uint32(kb[19])<<24
				if !okAll || l1 != want.GroupSegmentByteSize || l2 != want.GroupSegmentByteSize+upDynLDS1 || kb[8] != 4 {
					sig = "driver-upload/kernel-argument-block-on-device-is-not-the-launch-arguments"
					msg = fmt.Sprintf("launch %d (%s) of the sequence %v over {%v}: kernarg block at %#x (mapped=%v) holds N=%d, dynamic LDS offsets %d and %d; want N=4, offsets %d and %d",
						launch+1, what, c.Seq, uploadAlphabet, pkt.KernargAddress, okAll, kb[8], l1, l2, want.GroupSegmentByteSize, want.GroupSegmentByteSize+upDynLDS1)
					return false
				}
			}
			got := make([]byte, len(want.Data))
			for j := range got {
				pa, ok := phys(lpid, pkt.KernelObject+uint64(j))
				if !ok {
					sig = "driver-upload/kernel-object-not-mapped-for-the-launching-process"
					msg = fmt.Sprintf("launch %d (%s) of the sequence %v over {%v} by contexts %v (context 1 is a second process): the dispatch packet's kernel_object %#x is not mapped in the address space of process %d, which launches it",
						launch+1, what, c.Seq, uploadAlphabet, c.Ctx, pkt.KernelObject, lpid)
					return false
				}
				got[j] = memory[pa]
			}
			if !bytes.Equal(got, want.Data) {
				k := 0
				for k < len(got) && got[k] == want.Data[k] {
					k++
				}
				sig = "driver-upload/device-code-is-not-the-launched-kernels-code"
				msg = fmt.Sprintf("launch %d (%s) of the sequence %v over {%v} by contexts %v: the dispatch packet's kernel_object %#x (process %d) holds bytes that differ from the launched object's instruction bytes at offset %d (%#x, want %#x) when the launch command is reached",
					launch+1, what, c.Seq, uploadAlphabet, c.Ctx, pkt.KernelObject, lpid, k, got[k], want.Data[k])
				return false
			}
			return true
		}
		launched := false
		for q.NumCommand() > 0 {
			cmd := q.Dequeue()
			switch m := cmd.(type) {
			case *driver.MemCopyH2DCommand:
				data, ok := m.Src.([]byte)
				if !ok { // structures travel in little-endian layout, as the driver's copy middleware serialises them
					var buf bytes.Buffer
					if err := binary.Write(&buf, binary.LittleEndian, m.Src); err == nil {
						data = buf.Bytes()
					}
				}
				for j, b := range data {
					if pa, ok := phys(pid, uint64(m.Dst)+uint64(j)); ok {
						memory[pa] = b
					}
				}
			case *driver.LaunchKernelCommand:
				if !check(m.CodeObject, pid, m.Packet, "single GPU") { // the launch request gets queue.Context.pid
					return
				}
				launched = true
			case *driver.LaunchUnifiedMultiGPUKernelCommand:
				for gi, pkt := range m.PacketArray {
					if pkt == nil {
						continue // the array has one spare slot
					}
					if !check(m.CodeObject, pid, pkt, fmt.Sprintf("unified device, packet of member %d", gi+1)) {
						return
					}
				}
				launched = true
			}
		}
		if !launched {
			return "driver-upload/launch-commands-missing", fmt.Sprintf("launch %d of %v enqueued no launch command", launch+1, c.Seq)
		}
	}
	return "", ""
}

func uploadPass(r *harness.Run) {
	n := len(uploadAlphabet)
	var cases []uploadCase
	for _, uni := range []bool{false, true} {
		for a := 0; a < n; a++ {
			cases = append(cases, uploadCase{"upload", uni, []int{a}, nil})
			for b := 0; b < n; b++ {
				cases = append(cases, uploadCase{"upload", uni, []int{a, b}, nil})
				for c := 0; c < n; c++ {
					cases = append(cases, uploadCase{"upload", uni, []int{a, b, c}, nil})
				}
			}
		}
	}
	// the same sequences of length <= 2 launched from two processes / a sibling context in every assignment
	for _, uni := range []bool{false, true} {
		for a := 0; a < n; a++ {
			for b := 0; b < n; b++ {
				for ca := 0; ca < 3; ca++ {
					for cb := 0; cb < 3; cb++ {
						if ca == 0 && cb == 0 {
							continue
						}
						cases = append(cases, uploadCase{"upload", uni, []int{a, b}, []int{ca, cb}})
					}
				}
			}
		}
	}
	for _, c := range cases {
		if sig, msg := runUpload(c); sig != "" {
			r.Report(sig, msg, c)
		}
	}
	r.Cov["driver_upload_launch_sequences"] = len(cases)
	fmt.Printf("driver upload: %d launch sequences (length <= 3 over %d code objects, single GPU and unified device; length 2 also from a second process and a sibling context)\n", len(cases), n)
}
