package main

// Driver side of C13 (amd/driver/kernel.go is anchored in the property): the
// code a launch executes is the code of the kernel object that was launched.
// EnqueueLaunchKernel uploads a code object once per driver and reuses the
// device copy afterwards; "exactly that kernel's instruction bytes ... does not
// depend on the other kernels" must survive that reuse. Every sequence of up
// to three launches over a small alphabet of code objects (the same object
// again, a different object with the same symbol and length but other bytes,
// a reloaded equal copy, an object of another length) is enqueued on a real
// driver (single GPU and unified device); the queue is then replayed in order
// into a model of device memory, and at every launch command the bytes at the
// dispatch packet's kernel_object address must be the launched object's Data.

import (
	"bytes"
	"debug/elf"
	"fmt"

	"github.com/sarchlab/akita/v4/mem/vm"
	"github.com/sarchlab/akita/v4/sim"
	"github.com/sarchlab/mgpusim/v4/amd/driver"
	"github.com/sarchlab/mgpusim/v4/amd/insts"
	"github.com/sarchlab/mgpusim/v4/amd/kernels"

	"verif/mc/harness"
)

// upPort stands for a command processor's port: the driver only asks it for its name.
type upPort struct {
	sim.Port
	n sim.RemotePort
}

func (p upPort) AsRemote() sim.RemotePort { return p.n }
func (p upPort) Name() string             { return string(p.n) }

type uploadCase struct {
	Kind    string `json:"kind"` // "upload"
	Unified bool   `json:"unified_device"`
	Seq     []int  `json:"launch_sequence"` // indices into the code-object alphabet
}

var uploadAlphabet = []string{"A", "B: same symbol and length as A, other bytes", "A2: equal copy of A loaded again", "C: other length", "A again (same object)"}

func uploadObjects() []*insts.KernelCodeObject {
	mk := func(n int, seed byte, sym *insts.KernelCodeObject) *insts.KernelCodeObject {
		meta := &insts.KernelCodeObjectMeta{}
		meta.KernargSegmentByteSize = 16
		meta.WFSgprCount, meta.WIVgprCount = 16, 4
		data := make([]byte, n)
		for i := range data {
			data[i] = byte(i*7) + seed
		}
		co := &insts.KernelCodeObject{KernelCodeObjectMeta: meta, Data: data}
		// the ELF symbol the loader attaches: objects loaded from two files (or twice from one) that define
		// the same kernel name at the same place carry equal symbols in distinct structs
		co.Symbol = &elf.Symbol{Name: fmt.Sprintf("kernel_%d", n), Info: 0x1a, Section: 7, Value: 0x1100, Size: uint64(n)}
		if sym != nil {
			cp := *sym.Symbol
			co.Symbol = &cp
		}
		return co
	}
	a := mk(128, 1, nil)
	b := mk(128, 2, a)
	a2 := mk(128, 1, a)
	c := mk(192, 3, nil)
	return []*insts.KernelCodeObject{a, b, a2, c, a}
}

type upArgs struct {
	P uint64
	N uint32
	Pad uint32
}

func runUpload(c uploadCase) (sig, msg string) {
	defer func() {
		if e := recover(); e != nil {
			sig, msg = "driver-upload/panic", fmt.Sprint(e)
		}
	}()
	return runUploadNoRecover(c)
}

func runUploadNoRecover(c uploadCase) (sig, msg string) {
	d := driver.MakeBuilder().WithEngine(sim.NewSerialEngine()).WithFreq(1 * sim.GHz).WithLog2PageSize(12).WithPageTable(vm.NewPageTable(12)).Build("Driver")
	for i := 0; i < 2; i++ {
		d.RegisterGPU(upPort{n: sim.RemotePort(fmt.Sprintf("GPU%d.CP", i+1))}, driver.DeviceProperties{CUCount: 4, DRAMSize: 4 << 20})
	}
	ctx := d.Init()
	if c.Unified {
		d.SelectGPU(ctx, d.CreateUnifiedGPU(ctx, []int{1, 2}))
	}
	q := d.CreateCommandQueue(ctx)
	objs := uploadObjects()
	for _, i := range c.Seq {
		d.EnqueueLaunchKernel(q, objs[i], [3]uint32{512, 1, 1}, [3]uint16{64, 1, 1}, &upArgs{N: 4})
	}
	// replay the queue in order into a model of device memory
	memory := map[uint64]byte{}
	launch := 0
	check := func(co *insts.KernelCodeObject, pkt *kernels.HsaKernelDispatchPacket, what string) bool {
		want := objs[c.Seq[launch]]
		if co != want {
			sig, msg = "driver-upload/launch-command-carries-another-code-object", fmt.Sprintf("launch %d (%s) of sequence %v", launch+1, what, c.Seq)
			return false
		}
		got := make([]byte, len(want.Data))
		for j := range got {
			got[j] = memory[pkt.KernelObject+uint64(j)]
		}
		if !bytes.Equal(got, want.Data) {
			k := 0
			for k < len(got) && got[k] == want.Data[k] {
				k++
			}
			sig = "driver-upload/device-code-is-not-the-launched-kernels-code"
			msg = fmt.Sprintf("launch %d (%s) of the sequence %v over {%v}: the dispatch packet's kernel_object %#x holds bytes that differ from the launched object's instruction bytes at offset %d (%#x, want %#x) when the launch command is reached",
				launch+1, what, c.Seq, uploadAlphabet, pkt.KernelObject, k, got[k], want.Data[k])
			return false
		}
		return true
	}
	for q.NumCommand() > 0 {
		cmd := q.Dequeue()
		switch m := cmd.(type) {
		case *driver.MemCopyH2DCommand:
			if data, ok := m.Src.([]byte); ok {
				for j, b := range data {
					memory[uint64(m.Dst)+uint64(j)] = b
				}
			}
		case *driver.LaunchKernelCommand:
			if !check(m.CodeObject, m.Packet, "single GPU") {
				return
			}
			launch++
		case *driver.LaunchUnifiedMultiGPUKernelCommand:
			for gi, pkt := range m.PacketArray {
				if pkt == nil {
					continue // the array has one spare slot
				}
				if !check(m.CodeObject, pkt, fmt.Sprintf("unified device, packet of member %d", gi+1)) {
					return
				}
			}
			launch++
		}
	}
	if launch != len(c.Seq) {
		return "driver-upload/launch-commands-missing", fmt.Sprintf("%d launches enqueued, %d launch commands in the queue", len(c.Seq), launch)
	}
	return "", ""
}

func uploadPass(r *harness.Run) {
	n := len(uploadAlphabet)
	var cases []uploadCase
	for _, uni := range []bool{false, true} {
		for a := 0; a < n; a++ {
			cases = append(cases, uploadCase{"upload", uni, []int{a}})
			for b := 0; b < n; b++ {
				cases = append(cases, uploadCase{"upload", uni, []int{a, b}})
				for c := 0; c < n; c++ {
					cases = append(cases, uploadCase{"upload", uni, []int{a, b, c}})
				}
			}
		}
	}
	for _, c := range cases {
		if sig, msg := runUpload(c); sig != "" {
			r.Report(sig, msg, c)
		}
	}
	r.Cov["driver_upload_launch_sequences"] = len(cases)
	fmt.Printf("driver upload: %d launch sequences (length <= 3 over %d code objects, single GPU and unified device)\n", len(cases), n)
}
