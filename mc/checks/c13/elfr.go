package main

// Independent ELF64 PARSER and the C13 oracle. No debug/elf here: section
// headers, the symbol table and the string tables are read from the raw
// bytes.

import (
	"encoding/binary"
	"fmt"
)

type rsec struct {
	name                  string
	typ                   uint32
	addr, off, size       uint64
	link                  uint32
}

type rsym struct {
	name  string
	typ   byte
	shndx uint16
	value uint64
	size  uint64
}

type rfile struct {
	raw  []byte
	secs []rsec
	syms []rsym
}

func cstr(tab []byte, off uint32) string {
	if int(off) >= len(tab) {
		return ""
	}
	e := int(off)
	for e < len(tab) && tab[e] != 0 {
		e++
	}
	return string(tab[off:e])
}

func parseELF(b []byte) (*rfile, error) {
	u16 := binary.LittleEndian.Uint16
	u32 := binary.LittleEndian.Uint32
	u64 := binary.LittleEndian.Uint64
	if len(b) < 64 || string(b[:4]) != "\x7fELF" || b[4] != 2 || b[5] != 1 {
		return nil, fmt.Errorf("not an ELF64 little-endian file")
	}
	shoff := u64(b[40:])
	shentsize := uint64(u16(b[58:]))
	shnum := int(u16(b[60:]))
	shstrndx := int(u16(b[62:]))
	if shentsize != 64 || shoff+uint64(shnum)*64 > uint64(len(b)) {
		return nil, fmt.Errorf("bad section header table")
	}
	f := &rfile{raw: b}
	type raw struct{ name uint32 }
	names := make([]uint32, shnum)
	for i := 0; i < shnum; i++ {
		h := b[shoff+uint64(i)*64:]
		names[i] = u32(h[0:])
		f.secs = append(f.secs, rsec{typ: u32(h[4:]), addr: u64(h[16:]), off: u64(h[24:]), size: u64(h[32:]), link: u32(h[40:])})
	}
	secData := func(i int) ([]byte, error) {
		s := f.secs[i]
		if s.typ == 8 {
			return nil, nil
		}
		if s.off+s.size > uint64(len(b)) {
			return nil, fmt.Errorf("section %d outside the file", i)
		}
		return b[s.off : s.off+s.size], nil
	}
	if shstrndx >= shnum {
		return nil, fmt.Errorf("bad shstrndx")
	}
	shstr, err := secData(shstrndx)
	if err != nil {
		return nil, err
	}
	for i := range f.secs {
		f.secs[i].name = cstr(shstr, names[i])
	}
	for i, s := range f.secs {
		if s.typ != 2 { // SHT_SYMTAB
			continue
		}
		data, err := secData(i)
		if err != nil {
			return nil, err
		}
		if int(s.link) >= shnum {
			return nil, fmt.Errorf("bad symtab link")
		}
		str, err := secData(int(s.link))
		if err != nil {
			return nil, err
		}
		for o := 24; o+24 <= len(data); o += 24 {
			e := data[o:]
			f.syms = append(f.syms, rsym{
				name: cstr(str, u32(e[0:])), typ: e[4] & 0xf, shndx: u16(e[6:]), value: u64(e[8:]), size: u64(e[16:]),
			})
		}
		break
	}
	return f, nil
}

// symBytes returns the bytes a defined symbol covers.
func (f *rfile) symBytes(s rsym) ([]byte, error) {
	if int(s.shndx) >= len(f.secs) || s.shndx == 0 {
		return nil, fmt.Errorf("symbol %s: section index %d", s.name, s.shndx)
	}
	sec := f.secs[s.shndx]
	if s.value < sec.addr || s.value-sec.addr+s.size > sec.size {
		return nil, fmt.Errorf("symbol %s outside its section", s.name)
	}
	o := sec.off + (s.value - sec.addr)
	if o+s.size > uint64(len(f.raw)) {
		return nil, fmt.Errorf("symbol %s outside the file", s.name)
	}
	return f.raw[o : o+s.size], nil
}

func (f *rfile) find(name string) (rsym, bool) {
	for _, s := range f.syms {
		if s.name == name {
			return s, true
		}
	}
	return rsym{}, false
}

// kernelNames lists the kernels of a file: STT_AMDGPU_HSA_KERNEL symbols and
// function symbols that own a <name>.kd descriptor, both in .text.
func (f *rfile) kernelNames() []string {
	var out []string
	for _, s := range f.syms {
		if int(s.shndx) >= len(f.secs) || f.secs[s.shndx].name != ".text" || s.size == 0 {
			continue
		}
		if s.typ == 10 {
			out = append(out, s.name)
		} else if s.typ == 2 {
			if kd, ok := f.find(s.name + ".kd"); ok && kd.size == 64 {
				out = append(out, s.name)
			}
		}
	}
	return out
}

// Meta is the metadata the property speaks about.
type Meta struct {
	Rsrc1, Rsrc2, Rsrc3 uint32
	Kernarg             uint64
	Group, Private      uint32
	Entry               uint64
	Enable              [10]bool // private_segment_buffer, dispatch_ptr, queue_ptr, kernarg_segment_ptr, dispatch_id, flat_scratch_init, private_segment_size, grid_workgroup_count_x/y/z
	CodeMajor, CodeMinor uint32
	MachKind, MachMajor, MachMinor, MachStp uint16
	Sgpr, Vgpr          uint16
}

var enableNames = []string{"EnableSgprPrivateSegmentBuffer", "EnableSgprDispatchPtr", "EnableSgprQueuePtr", "EnableSgprKernargSegmentPtr",
	"EnableSgprDispatchID", "EnableSgprFlatScratchInit", "EnableSgprPrivateSegmentSize", "EnableSgprGridWorkgroupCountX",
	"EnableSgprGridWorkgroupCountY", "EnableSgprGridWorkgroupCountZ"}

// Expect is what a correct loader must return for one kernel.
type Expect struct {
	Kind     int
	Sym      rsym
	Bytes    []byte // everything the symbol covers
	Data     []byte // instruction bytes
	Meta     Meta
	Version  int
	KD       []byte // raw descriptor (kindDesc)
	VgSym    *uint64
	SgSym    *uint64
	// Ambiguous: a descriptor-less function whose bytes are indistinguishable
	// from header+code; both readings are accepted (AltData/AltMeta = header reading).
	Ambiguous bool
	AltData   []byte
	AltMeta   Meta
}

func looksLikeHeader(b []byte) bool {
	if len(b) < 256 {
		return false
	}
	u16 := binary.LittleEndian.Uint16
	u32 := binary.LittleEndian.Uint32
	u64 := binary.LittleEndian.Uint64
	mm := u16(b[10:])
	return u32(b[0:]) == 1 && u32(b[4:]) <= 2 && u16(b[8:]) == 1 && mm >= 7 && mm <= 9 && u64(b[16:]) == 256
}

func parseHeaderMeta(b []byte) Meta {
	u16 := binary.LittleEndian.Uint16
	u32 := binary.LittleEndian.Uint32
	u64 := binary.LittleEndian.Uint64
	var m Meta
	m.CodeMajor = u32(b[0:])
	m.CodeMinor = u32(b[4:])
	m.MachKind = u16(b[8:])
	m.MachMajor = u16(b[10:])
	m.MachMinor = u16(b[12:])
	m.MachStp = u16(b[14:])
	m.Entry = u64(b[16:])
	m.Rsrc1 = u32(b[48:])
	m.Rsrc2 = u32(b[52:])
	fl := u32(b[56:])
	for i := 0; i < 10; i++ {
		m.Enable[i] = fl>>uint(i)&1 != 0
	}
	m.Private = u32(b[60:])
	m.Group = u32(b[64:])
	m.Kernarg = u64(b[72:])
	m.Sgpr = u16(b[84:])
	m.Vgpr = u16(b[86:])
	return m
}

// rewriteRsrc2 is the documented V5 rewrite of compute_pgm_rsrc2 (comments in
// parseV5KernelDescriptor): clear bit 0; user_sgpr_count := 2 when the kernel
// has kernel arguments; force workgroup id x and y; work-item id at least 1.
func rewriteRsrc2(r uint32, hasKernarg bool) uint32 {
	r &^= 1
	if hasKernarg {
		r = r&^(0x1f<<1) | 2<<1
	}
	r |= 1<<7 | 1<<8
	if r>>11&3 == 0 {
		r |= 1 << 11
	}
	return r
}

// regCounts is the documented derivation of the register counts of a V5
// kernel: granulated counts of compute_pgm_rsrc1, raised to the rounded-up
// counts of the <kernel>.num_vgpr / <kernel>.numbered_sgpr(+2 for VCC) symbols.
func regCounts(rsrc1 uint32, vg, sg *uint64) (vgpr, sgpr uint16) {
	vgpr = uint16((rsrc1&0x3f + 1) * 4)
	sgpr = uint16((rsrc1>>6&0xf + 1) * 8)
	if sg != nil {
		c := uint16(*sg) + 2
		c = (c + 7) / 8 * 8
		if c > sgpr {
			sgpr = c
		}
	}
	if vg != nil {
		c := uint16(*vg)
		c = (c + 3) / 4 * 4
		if c > vgpr {
			vgpr = c
		}
	}
	return
}

// expect computes the oracle for one kernel name from the raw file.
func (f *rfile) expect(name string) (*Expect, error) {
	u32 := binary.LittleEndian.Uint32
	u64 := binary.LittleEndian.Uint64
	var sym rsym
	found := false
	for _, s := range f.syms {
		if s.name == name && int(s.shndx) < len(f.secs) && s.shndx != 0 && f.secs[s.shndx].name == ".text" && s.size > 0 {
			sym, found = s, true
			break
		}
	}
	if !found {
		return nil, fmt.Errorf("kernel %q not in the file", name)
	}
	by, err := f.symBytes(sym)
	if err != nil {
		return nil, err
	}
	e := &Expect{Sym: sym, Bytes: by}
	if v, ok := f.find(name + ".num_vgpr"); ok {
		x := v.value
		e.VgSym = &x
	}
	if v, ok := f.find(name + ".numbered_sgpr"); ok {
		x := v.value
		e.SgSym = &x
	}
	if kd, ok := f.find(name + ".kd"); ok && kd.size == 64 && kd.shndx != 0 && int(kd.shndx) < len(f.secs) && f.secs[kd.shndx].typ == 1 {
		d, err := f.symBytes(kd)
		if err != nil {
			return nil, err
		}
		e.Kind = kindDesc
		e.KD = d
		e.Data = by
		e.Version = 5
		m := &e.Meta
		m.Group = u32(d[0:])
		m.Private = u32(d[4:])
		m.Kernarg = uint64(u32(d[8:]))
		m.Entry = u64(d[16:])
		m.Rsrc3 = u32(d[44:])
		m.Rsrc1 = u32(d[48:])
		m.Rsrc2 = rewriteRsrc2(u32(d[52:]), m.Kernarg > 0)
		m.Enable[3] = m.Kernarg > 0
		m.Vgpr, m.Sgpr = regCounts(m.Rsrc1, e.VgSym, e.SgSym)
		return e, nil
	}
	if sym.typ == 10 {
		if len(by) < 256 {
			return nil, fmt.Errorf("kernel %q: HSA kernel symbol shorter than its header", name)
		}
		e.Kind = kindHeader
		e.Meta = parseHeaderMeta(by)
		e.Data = by[256:]
		e.Version = 3
		return e, nil
	}
	e.Kind = kindNone
	e.Data = by
	e.Version = 5
	if looksLikeHeader(by) {
		e.Ambiguous = true
		e.AltData = by[256:]
		e.AltMeta = parseHeaderMeta(by)
	}
	return e, nil
}

// singleKernelSymbol reports whether the file defines exactly one sized symbol in .text (of any type): only then
// does the loader resolve the empty kernel name to "the only kernel"; with several it ends the process with a
// message (documented behaviour, not a subject of the property).
func (f *rfile) singleKernelSymbol() bool {
	n := 0
	for _, s := range f.syms {
		if s.shndx == 0 || int(s.shndx) >= len(f.secs) {
			continue
		}
		if f.secs[s.shndx].name == ".text" && s.size > 0 {
			n++
		}
	}
	return n == 1
}
