package main

// By-path loading (insts.LoadKernelCodeObjectFromFS, what every benchmark uses): "loading a kernel by name from any
// valid code-object file yields exactly that kernel's bytes and metadata as stored in the file" - also when the same
// path was loaded before and the file behind it has changed since (rebuilt kernel, relative path from another
// directory, reused temporary name). Every ordered pair (A, B) of a few generated files that define the same kernel
// name with different contents: write A to a path, load; write B to the SAME path, load; write A again, load; each
// result must equal what LoadKernelCodeObjectFromBytes gives for the bytes that are in the file at that moment.
// (seed C13-12: results memoised by path string)

import (
	"fmt"
	"os"
	"path/filepath"

	"github.com/sarchlab/mgpusim/v4/amd/insts"

	"verif/mc/harness"
)

func pathPass(r *harness.Run) {
	type pcase struct {
		Part  string `json:"part"`
		First int    `json:"first_file"`
		Then  int    `json:"second_file"`
	}
	// three files with the kernel "kern": a V3-header object, a V5-descriptor object, a header object with other code
	var files [][]byte
	for i, kind := range []int{0, 1, 0} {
		k := defKernel(i, kind)
		k.Name = "kern"
		files = append(files, canonical(k).Build())
	}
	dir, err := os.MkdirTemp("", "c13path")
	if err != nil {
		r.Infra("by-path pass: %v", err)
		return
	}
	defer os.RemoveAll(dir)
	loads := 0
	for a := range files {
		for b := range files {
			if a == b {
				continue
			}
			path := filepath.Join(dir, fmt.Sprintf("kernels_%d_%d.hsaco", a, b))
			for step, fi := range []int{a, b, a} {
				if err := os.WriteFile(path, files[fi], 0o644); err != nil {
					r.Infra("by-path pass: %v", err)
					return
				}
				want, wp := load(files[fi], "kern")
				got, gp := loadWith(func() *insts.KernelCodeObject { return insts.LoadKernelCodeObjectFromFS(path, "kern") })
				loads++
				if wp != "" || want == nil {
					continue // the by-bytes loader rejects the file: decided by the main pass
				}
				if gp != "" || got == nil {
					r.Report("by-path/load-fails", fmt.Sprintf("file %d written to a path that held file %d before (step %d): LoadKernelCodeObjectFromFS fails (%s) although LoadKernelCodeObjectFromBytes accepts the same bytes", fi, a, step, gp), pcase{"by-path", a, b})
					continue
				}
				if fingerprint(got) != fingerprint(want) {
					r.Report("by-path/result-is-not-the-files-current-contents", fmt.Sprintf("path written with file %d, loaded, rewritten with file %d, ... (step %d, file %d is in place): LoadKernelCodeObjectFromFS returns %d instruction bytes, version %d; the bytes in the file give %d instruction bytes, version %d", a, b, step, fi, len(got.Data), got.Version, len(want.Data), want.Version), pcase{"by-path", a, b})
				}
			}
		}
	}
	r.Cov["by_path_loads"] = loads
	fmt.Printf("by-path: %d loads through LoadKernelCodeObjectFromFS over rewritten files\n", loads)
}
