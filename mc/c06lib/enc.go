// Package c06lib holds the machinery of check C06 (lanes are independent and
// obey EXEC): raw field packing of the vector/scalar formats, a single
// instruction "machine" (real decoder output run by the real ALU on a real
// emu.Wavefront with a recording StorageAccessor), lane permutations, the
// EXEC alphabet and the lane-value patterns.
package c06lib

import "encoding/binary"

// Format is one of the instruction formats that C06 probes.
type Format int

// Formats. VOP3 covers VOP3a and VOP3b: the decoder chooses by opcode.
const (
	VOP1 Format = iota
	VOP2
	VOPC
	VOP3
	DS
	FLAT
	SOP2
	SOP1
	SOPC
	SOPK
	SOPP
	SMEM
	NumFormats
)

var formatNames = [...]string{"VOP1", "VOP2", "VOPC", "VOP3", "DS", "FLAT", "SOP2", "SOP1", "SOPC", "SOPK", "SOPP", "SMEM"}

func (f Format) String() string { return formatNames[f] }

// OpcodeCount is the size of the opcode field of the format (GCN3 ISA manual,
// chapter 13 "Microcode Formats").
func (f Format) OpcodeCount() int {
	switch f {
	case VOP1, VOPC, DS, SOP1:
		return 256
	case VOP2:
		return 64
	case VOP3:
		return 1024
	case FLAT, SOP2, SOPC, SOPP:
		return 128
	case SOPK:
		return 32
	case SMEM:
		return 256
	}
	return 0
}

// IsVector reports whether the format is a vector (per-lane) format.
func (f Format) IsVector() bool { return f <= FLAT }

// Register allocation shared by every encoding (the state builder fills these).
const (
	RegAddr  = 2  // v2 (v[2:3] for 64-bit flat addresses)
	RegSrc0  = 10 // v[10:13]  (DS/FLAT: data0)
	RegSrc1  = 20 // v[20:23]  (DS: data1)
	RegSrc2  = 30 // v[30:33]
	RegDst   = 40 // v[40:43]
	SRegUni  = 4  // s[4:5]   uniform scalar source
	SRegBase = 6  // s[6:7]   flat scalar base / smem base
	SRegMask = 8  // s[8:9]   lane-mask source (src2 of cndmask / addc / subb)
	SRegSrc1 = 10 // s[10:11] second scalar source of scalar formats
	SRegDst  = 20 // s[20:21] SDST (lane-mask result of VOP3b / VOP3 compares; dst of scalar formats)

	CodeVCC   = 106
	CodeVCCHi = 107
	CodeLit   = 255
	CodeSDWA  = 249
	CodeInt1  = 129 // inline constant 1
	CodeFOne  = 242 // inline constant 1.0
	CodeIntM3 = 195 // inline constant -3
	Literal   = 0x40490fdb
)

// Variant selects the operand kinds of one encoding of an opcode.
type Variant struct {
	Name string
	// Src* are 9-bit operand codes (256+n = VGPR n). In VOP2/VOPC, Src1 must be a VGPR.
	Src0, Src1, Src2 int
	Abs, Neg         int  // VOP3a modifiers
	SDst             int  // VOP3b SDST, VOP3a-compare destination SGPR (7-bit code)
	SDWA             bool // VOP2: src0 = SDWA
	SDWAPad          bool // with SDWA: dst_unused = UNUSED_PAD (the default of the assembler) instead of UNUSED_PRESERVE
	Off0, Off1       int  // DS offsets
	SAddr            int  // FLAT scalar base (0x7F = off)
	ImmOff           int  // FLAT 13-bit signed offset
	// Semantics used by the state builder / permutation action.
	// Unused fields are packed as zero (llvm-mc rejects encodings with non-zero reserved fields);
	// the check sets these after the first decode told it which operands the opcode has.
	NoSrc1, NoSrc2          bool // VOP3
	NoData0, NoData1, NoDst bool // DS, FLAT
	VCCData                 bool // VCC is read as uniform data in this variant: on INPUT it is not permuted with the lanes
	Src2Mask                bool // variant only meaningful for opcodes whose SRC2 is a lane mask (SRC2 = s[8:9] or VCC)
	// Operand aliasing. VDst is the VGPR number of the vector destination (RegDst unless VDstSet), SD the SGPR
	// number of the destination of the scalar formats (0 = SRegDst). Alias marks the variants in which a
	// destination register is (or overlaps) a source register of the same instruction; Applies tells, from the
	// facts of the canonical decode, whether the variant is a legal and distinct encoding for the opcode.
	VDst    int
	VDstSet bool // VDst is meaningful (v0 is a legal destination)
	SD      int
	Alias   bool
	Applies func(*OpFacts) bool
}

// OpFacts is what the canonical decode of an opcode tells about its operands.
type OpFacts struct {
	DstW       int    // register count of the destination: VGPRs for the vector formats (0 = no VGPR destination), SGPRs for the scalar formats
	SrcW       [3]int // register counts of src0..src2 (VOP*), data0/data1 (DS), data (FLAT), ssrc0/ssrc1 (scalar); 0 = absent
	HasSDst    bool   // VOP3b, or VOP3a compare: the encoding names a lane-mask destination
	WritesSDst bool   // probed: the handler writes that destination
	MaskOp     bool   // SRC2 is a lane mask
	IsLoad     bool   // DS/FLAT/SMEM with a register destination
	Addr64     bool   // FLAT: 64-bit VGPR address pair
	// EvenVGPRTuples: the architecture requires VGPR tuples to start at an even register (gfx90a / CDNA:
	// llvm-mc "vgpr tuples must be 64 bit aligned"), so partially overlapping pairs cannot be encoded there
	EvenVGPRTuples bool
	LiteralK       bool // v_madak / v_madmk: the mandatory literal already uses the constant bus, no SGPR source is legal
}

func (va *Variant) vdst() uint32 {
	if va.VDstSet {
		return uint32(va.VDst)
	}
	return RegDst
}

func (va *Variant) sd() uint32 {
	if va.SD != 0 {
		return uint32(va.SD)
	}
	return SRegDst
}

// VDstReg / SDReg are the destination registers the encoding names.
func (va *Variant) VDstReg() int { return int(va.vdst()) }
func (va *Variant) SDReg() int   { return int(va.sd()) }

func v(n int) int { return 256 + n }

// Variants lists the operand-kind variants of a format. The first one is the
// canonical all-VGPR form used for discovery.
func Variants(f Format) []Variant {
	switch f {
	case VOP1:
		return []Variant{
			{Name: "src0=vgpr", Src0: v(RegSrc0)},
			{Name: "src0=sgpr", Src0: SRegUni},
			{Name: "src0=inline-int", Src0: CodeIntM3},
			{Name: "src0=inline-float", Src0: CodeFOne},
			{Name: "src0=literal", Src0: CodeLit},
			{Name: "src0=vcc-as-data", Src0: CodeVCC, VCCData: true},
		}
	case VOP2, VOPC:
		return []Variant{
			{Name: "src0=vgpr", Src0: v(RegSrc0), Src1: v(RegSrc1)},
			{Name: "src0=sgpr", Src0: SRegUni, Src1: v(RegSrc1)},
			{Name: "src0=inline-int", Src0: CodeIntM3, Src1: v(RegSrc1)},
			{Name: "src0=inline-float", Src0: CodeFOne, Src1: v(RegSrc1)},
			{Name: "src0=literal", Src0: CodeLit, Src1: v(RegSrc1)},
			{Name: "src0=vcc-as-data", Src0: CodeVCC, Src1: v(RegSrc1), VCCData: true},
			{Name: "sdwa", Src0: CodeSDWA, Src1: v(RegSrc1), SDWA: true},
			{Name: "sdwa-pad", Src0: CodeSDWA, Src1: v(RegSrc1), SDWA: true, SDWAPad: true},
		}
	case VOP3:
		vvv := Variant{Src0: v(RegSrc0), Src1: v(RegSrc1), Src2: v(RegSrc2), SDst: SRegDst}
		mk := func(name string, f func(*Variant)) Variant {
			x := vvv
			x.Name = name
			f(&x)
			return x
		}
		return []Variant{
			mk("all-vgpr,sdst=sgpr", func(x *Variant) {}),
			mk("all-vgpr,sdst=vcc", func(x *Variant) { x.SDst = CodeVCC }),
			mk("src0=sgpr", func(x *Variant) { x.Src0 = SRegUni }),
			mk("src1=sgpr", func(x *Variant) { x.Src1 = SRegUni }),
			mk("src2=sgpr", func(x *Variant) { x.Src2 = SRegUni }),
			mk("src0=inline-int", func(x *Variant) { x.Src0 = CodeIntM3 }),
			mk("src1=inline-float", func(x *Variant) { x.Src1 = CodeFOne }),
			mk("src0=vcc-as-data", func(x *Variant) { x.Src0 = CodeVCC; x.VCCData = true }),
			mk("abs0,neg1", func(x *Variant) { x.Abs = 1; x.Neg = 2 }),
			mk("src2=sgpr-lane-mask", func(x *Variant) { x.Src2 = SRegMask; x.Src2Mask = true }),
			mk("src2=vcc-lane-mask", func(x *Variant) { x.Src2 = CodeVCC; x.Src2Mask = true }),
		}
	case DS:
		return []Variant{
			// single-address forms use offset1:offset0 as one 16-bit byte offset (8 and 259),
			// the read2/write2 forms two element offsets; every footprint stays below 512 bytes
			{Name: "offset0=8,offset1=0", Off0: 8, Off1: 0},
			{Name: "offset0=3,offset1=1", Off0: 3, Off1: 1},
		}
	case FLAT:
		return []Variant{
			{Name: "saddr=off,imm=0", SAddr: 0x7F},
			// GCN3's FLAT has no SADDR/offset fields (reserved, zero); the decoder reads zero as
			// "off" for GCN3 and as s[0:1] for CDNA3
			{Name: "saddr-field=0,imm=0", SAddr: 0},
			{Name: "saddr=off,imm=+16", SAddr: 0x7F, ImmOff: 16},
			{Name: "saddr=off,imm=-8", SAddr: 0x7F, ImmOff: -8},
			{Name: "saddr=sgpr,imm=0", SAddr: SRegBase},
			{Name: "saddr=sgpr,imm=+16", SAddr: SRegBase, ImmOff: 16},
		}
	case SOP2, SOPC:
		return []Variant{
			{Name: "sgpr,sgpr", Src0: SRegUni, Src1: SRegSrc1},
			{Name: "sgpr,inline", Src0: SRegUni, Src1: CodeInt1 + 4},
			{Name: "vcc,sgpr", Src0: CodeVCC, Src1: SRegSrc1},
		}
	case SOP1:
		return []Variant{
			{Name: "sgpr", Src0: SRegUni},
			{Name: "inline", Src0: CodeIntM3},
			{Name: "vcc", Src0: CodeVCC},
		}
	case SOPK:
		return []Variant{{Name: "simm16=0x8123", ImmOff: 0x8123}, {Name: "simm16=5", ImmOff: 5}}
	case SOPP:
		return []Variant{{Name: "simm16=3", ImmOff: 3}, {Name: "simm16=0xfffc", ImmOff: 0xfffc}}
	case SMEM:
		return []Variant{{Name: "imm=0x10", ImmOff: 0x10}}
	}
	return nil
}

// AllVariants is Variants followed by the operand-aliasing variants.
func AllVariants(f Format) []Variant { return append(Variants(f), AliasVariants(f)...) }

// Encode packs one instruction (8 bytes: the second dword is the literal /
// second microcode word). isVOP3b must be the decoder's own classification of
// the opcode (bits 8..14 are SDST in VOP3b, ABS/OPSEL in VOP3a); compareDst
// says that a VOP3a opcode (< 256) takes an SGPR destination in VDST.
func Encode(f Format, op int, va Variant, isVOP3b bool) []byte {
	var lo, hi uint32
	hi = Literal
	switch f {
	case VOP1:
		lo = 0x7E000000 | va.vdst()<<17 | uint32(op)<<9 | uint32(va.Src0)
	case VOP2:
		lo = uint32(op)<<25 | va.vdst()<<17 | uint32(va.Src1&0xff)<<9 | uint32(va.Src0)
		if va.SDWA {
			// src0=v10, dst_sel=WORD_1(5), dst_unused=PRESERVE(2), src0_sel=WORD_0(4), src1_sel=BYTE_2(2)
			unused := uint32(2)
			if va.SDWAPad {
				unused = 0 // dst_unused=PAD: the other bits of an ACTIVE lane's destination become 0; inactive lanes keep theirs
			}
			hi = uint32(RegSrc0) | 5<<8 | unused<<11 | 4<<16 | 2<<24
		}
	case VOPC:
		lo = 0x7C000000 | uint32(op)<<17 | uint32(va.Src1&0xff)<<9 | uint32(va.Src0)
	case VOP3:
		lo = 0xD0000000 | uint32(op)<<16
		if op < 256 { // compares: VDST holds an SGPR code
			lo |= uint32(va.SDst)
		} else {
			lo |= va.vdst()
		}
		if isVOP3b {
			lo |= uint32(va.SDst) << 8
		} else {
			lo |= uint32(va.Abs) << 8
		}
		hi = uint32(va.Src0) | uint32(va.Neg)<<29
		if !va.NoSrc1 {
			hi |= uint32(va.Src1) << 9
		}
		if !va.NoSrc2 {
			hi |= uint32(va.Src2) << 18
		}
	case DS:
		lo = 0xD8000000 | uint32(op)<<17 | uint32(va.Off1)<<8 | uint32(va.Off0)
		hi = uint32(RegAddr)
		if !va.NoData0 {
			hi |= uint32(RegSrc0) << 8
		}
		if !va.NoData1 {
			hi |= uint32(RegSrc1) << 16
		}
		if !va.NoDst {
			hi |= va.vdst() << 24
		}
	case FLAT:
		lo = 0xDC000000 | uint32(op)<<18 | uint32(va.ImmOff)&0x1fff
		if va.SAddr != 0x7F && va.SAddr != 0 {
			lo |= 2 << 14 // SEG = global: only global_* instructions take a scalar base (GFX9)
		}
		hi = uint32(RegAddr) | uint32(va.SAddr)<<16
		if !va.NoData0 {
			hi |= uint32(RegSrc0) << 8
		}
		if !va.NoDst {
			hi |= va.vdst() << 24
		}
	case SOP2:
		lo = 0x80000000 | uint32(op)<<23 | va.sd()<<16 | uint32(va.Src1)<<8 | uint32(va.Src0)
	case SOP1:
		lo = 0xBE800000 | va.sd()<<16 | uint32(op)<<8 | uint32(va.Src0)
	case SOPC:
		lo = 0xBF000000 | uint32(op)<<16 | uint32(va.Src1)<<8 | uint32(va.Src0)
	case SOPK:
		lo = 0xB0000000 | uint32(op)<<23 | va.sd()<<16 | uint32(va.ImmOff)&0xffff
	case SOPP:
		lo = 0xBF800000 | uint32(op)<<16 | uint32(va.ImmOff)&0xffff
	case SMEM:
		lo = 0xC0000000 | uint32(op)<<18 | 1<<17 | va.sd()<<6 | uint32(SRegBase>>1)
		hi = uint32(va.ImmOff)
	}
	b := make([]byte, 8)
	binary.LittleEndian.PutUint32(b, lo)
	binary.LittleEndian.PutUint32(b[4:], hi)
	return b
}
