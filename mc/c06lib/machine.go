package c06lib

import (
	"fmt"
	"sort"

	"github.com/sarchlab/akita/v4/mem/mem"
	"github.com/sarchlab/akita/v4/mem/vm"
	"github.com/sarchlab/mgpusim/v4/amd/emu"
	"github.com/sarchlab/mgpusim/v4/amd/emu/cdna3"
	"github.com/sarchlab/mgpusim/v4/amd/insts"
	"github.com/sarchlab/mgpusim/v4/amd/kernels"
)

// Arch selects the ALU under test.
type Arch int

// The two ALUs of the emulator.
const (
	GCN3 Arch = iota
	CDNA3
)

func (a Arch) String() string {
	if a == CDNA3 {
		return "cdna3"
	}
	return "gcn3"
}

// Memory layout of the machine.
const (
	LaneBytes   = 256 * 4 // one lane's slice of emu.Wavefront.VRegFile
	VFileBytes  = 64 * LaneBytes
	SFileBytes  = 4 * 102
	LDSBytes    = 16384
	LDSStride   = 128
	LDSPoison   = 0xFFFF0000
	MemBase     = uint64(0x00007f1234500000) // virtual address of lane region 0
	MemStride   = 256
	MemWindowLo = MemBase - 4096 // mapped window [MemWindowLo, MemWindowHi)
	MemWindowHi = MemBase + 5*4096
	MemPoison   = uint64(0x0dead00000000000)
	MemPoison32 = uint32(0xF0000000) // as a 32-bit offset from the scalar base
	PhysBase    = uint64(0x40000)
	PID         = vm.PID(7)
	log2Page    = 12
)

// Access is one recorded StorageAccessor call.
type Access struct {
	Write bool
	Addr  uint64
	Size  uint64
}

func (a Access) String() string {
	k := "R"
	if a.Write {
		k = "W"
	}
	return fmt.Sprintf("%s[%#x+%d]", k, a.Addr, a.Size)
}

// recorder is the recording StorageAccessor: it logs every call and then
// forwards it to the real accessor (real page table + real mem.Storage).
type recorder struct {
	real emu.StorageAccessor
	log  []Access
}

func (r *recorder) Read(pid vm.PID, vAddr, byteSize uint64) []byte {
	r.log = append(r.log, Access{false, vAddr, byteSize})
	return r.real.Read(pid, vAddr, byteSize)
}

func (r *recorder) Write(pid vm.PID, vAddr uint64, data []byte) {
	r.log = append(r.log, Access{true, vAddr, uint64(len(data))})
	r.real.Write(pid, vAddr, data)
}

// State is the complete architectural state one instruction acts on.
type State struct {
	V    []byte // VFileBytes, lane-major like emu.Wavefront.VRegFile
	S    []byte // SFileBytes
	VCC  uint64
	EXEC uint64
	SCC  byte
	M0   uint32
	PC   uint64
	LDS  []byte // nil when the format has no LDS effect
	Mem  []byte // contents of the mapped window; nil when the format has no memory effect
}

// NewState allocates a state; lds/memory only when asked.
func NewState(lds, memory bool) *State {
	s := &State{V: make([]byte, VFileBytes), S: make([]byte, SFileBytes)}
	if lds {
		s.LDS = make([]byte, LDSBytes)
	}
	if memory {
		s.Mem = make([]byte, MemWindowHi-MemWindowLo)
	}
	return s
}

// CopyFrom makes s a deep copy of o (same shape).
func (s *State) CopyFrom(o *State) {
	copy(s.V, o.V)
	copy(s.S, o.S)
	s.VCC, s.EXEC, s.SCC, s.M0, s.PC = o.VCC, o.EXEC, o.SCC, o.M0, o.PC
	if o.LDS != nil {
		copy(s.LDS, o.LDS)
	}
	if o.Mem != nil {
		copy(s.Mem, o.Mem)
	}
}

// Lane returns lane i's slice of the VGPR file.
func (s *State) Lane(i int) []byte { return s.V[i*LaneBytes : (i+1)*LaneBytes] }

// Machine runs single instructions: real ALU, real emu.Wavefront, real
// StorageAccessor (page table + storage) behind the recorder.
type Machine struct {
	Arch    Arch
	alu     emu.ALU
	wf      *emu.Wavefront
	rec     *recorder
	storage *mem.Storage
}

// NewMachine builds a machine the way emu.BuildComputeUnitWithALU does
// (NewStorageAccessor over a page table and a storage; ALU from the
// architecture's constructor), with the recorder in between.
func NewMachine(a Arch) *Machine {
	m := &Machine{Arch: a}
	m.storage = mem.NewStorage(1 << 20)
	pt := vm.NewPageTable(log2Page)
	for va := MemWindowLo; va < MemWindowHi; va += 1 << log2Page {
		pt.Insert(vm.Page{PID: PID, VAddr: va, PAddr: PhysBase + (va - MemWindowLo), PageSize: 1 << log2Page, Valid: true})
	}
	m.rec = &recorder{real: emu.NewStorageAccessor(m.storage, pt, log2Page, nil)}
	if a == CDNA3 {
		m.alu = cdna3.NewALU(m.rec)
	} else {
		m.alu = emu.NewALU(m.rec)
	}
	m.wf = emu.NewWavefront(kernels.NewWavefront())
	m.wf.VerifSetPID(PID)
	return m
}

// Outcome of one run.
type Outcome struct {
	Panic    string // "" = completed
	Accesses []Access
}

// Run executes inst on a copy of in and stores the post-state in out.
func (m *Machine) Run(inst *insts.Inst, in, out *State) Outcome {
	out.CopyFrom(in)
	return m.RunInPlace(inst, out)
}

// RunInPlace executes inst directly on s: the wavefront's register files and
// LDS are pointed at the state's own buffers (they are plain exported byte
// slices of emu.Wavefront), so s holds the post-state afterwards.
func (m *Machine) RunInPlace(inst *insts.Inst, s *State) (oc Outcome) {
	wf := m.wf
	wf.VRegFile = s.V
	wf.SRegFile = s.S
	wf.SetVCC(s.VCC)
	wf.SetEXEC(s.EXEC)
	wf.SetSCC(s.SCC)
	wf.M0 = s.M0
	wf.SetPC(s.PC)
	wf.VerifSetInst(inst)
	wf.LDS = s.LDS
	m.alu.SetLDS(s.LDS)
	if s.Mem != nil {
		if err := m.storage.Write(PhysBase, s.Mem); err != nil {
			panic(err)
		}
	}
	m.rec.log = m.rec.log[:0]
	func() {
		defer func() {
			if r := recover(); r != nil {
				oc.Panic = fmt.Sprint(r)
				if oc.Panic == "" {
					oc.Panic = "panic"
				}
			}
		}()
		m.alu.Run(wf)
	}()
	s.VCC, s.EXEC, s.SCC, s.M0, s.PC = wf.VCC(), wf.EXEC(), wf.SCC(), wf.M0, wf.PC()
	if s.Mem != nil {
		d, err := m.storage.Read(PhysBase, uint64(len(s.Mem)))
		if err != nil {
			panic(err)
		}
		copy(s.Mem, d)
	}
	if len(m.rec.log) > 0 {
		oc.Accesses = append([]Access(nil), m.rec.log...)
	}
	return oc
}

// SortAccesses orders an access list canonically (the handler's lane loop
// order is not part of the property).
func SortAccesses(a []Access) []Access {
	b := append([]Access(nil), a...)
	sort.Slice(b, func(i, j int) bool {
		if b[i].Addr != b[j].Addr {
			return b[i].Addr < b[j].Addr
		}
		if b[i].Size != b[j].Size {
			return b[i].Size < b[j].Size
		}
		return !b[i].Write && b[j].Write
	})
	return b
}
