package c06lib

import (
	"encoding/binary"
	"fmt"
	"math"
	"math/bits"
)

// NumPatterns is the number of lane-value patterns.
const NumPatterns = 3

// PatternNames describe the three lane-distinct input patterns.
var PatternNames = [NumPatterns]string{"int-boundary", "float-boundary", "arith-mixed"}

var int32Table = [64]uint32{
	0, 1, 2, 3, 4, 5, 7, 8, 15, 16, 17, 23, 24, 31, 32, 33,
	63, 64, 65, 127, 128, 255, 256, 0x7FFF, 0x8000, 0xFFFF, 0x10000, 0x7FFFFF, 0x800000, 0xFFFFFF, 0x1000000, 0x7FFFFFFF,
	0x80000000, 0x80000001, 0xFFFFFFFF, 0xFFFFFFFE, 0xFFFFFF00, 0xFFFF0000, 0xFF000000, 0xAAAAAAAA, 0x55555555, 0x12345678, 0x87654321, 0xDEADBEEF, 0x0F0F0F0F, 0xF0F0F0F0, 0x00FF00FF, 0xFF00FF00,
	100, 1000, 100000, 0xFFFFFFF0, 0x7FFFFFFE, 0x80000002, 0x40000000, 0xC0000000, 0x3FFFFFFF, 0xBFFFFFFF, 6, 9, 10, 11, 12, 13,
}

var float32Table [64]uint32
var int64Table [64]uint64
var float64Table [64]uint64

func dedupe32(cands []uint32, out *[64]uint32, name string) {
	seen := map[uint32]bool{}
	n := 0
	for _, x := range cands {
		if n < 64 && !seen[x] {
			seen[x] = true
			out[n] = x
			n++
		}
	}
	if n != 64 {
		panic(fmt.Sprintf("c06lib: value table %s has only %d distinct entries", name, n))
	}
}

func dedupe64(cands []uint64, out *[64]uint64, name string) {
	seen := map[uint64]bool{}
	n := 0
	for _, x := range cands {
		if n < 64 && !seen[x] {
			seen[x] = true
			out[n] = x
			n++
		}
	}
	if n != 64 {
		panic(fmt.Sprintf("c06lib: value table %s has only %d distinct entries", name, n))
	}
}

func init() {
	f := []float32{
		0, 1, 0.5, 2, 4, 1.5, 3.75, 100.25, 1e-10, 1e10, math.MaxFloat32, 1.17549435e-38, // smallest normal
		math.Pi, math.E, 0.15915494, 16777216, 2147483648, 4294967296, 0.1, 0.3, 255.5, 65535, 65536, 1e38, 3e38, 1e-38, 7,
	}
	// denormals, infinities, quiet / signalling / negative NaN first so that they are never cut off
	fc := []uint32{0x00000001, 0x807FFFFF, 0x7F800000, 0xFF800000, 0x7FC00000, 0x7F800001, 0xFFC00000}
	for _, x := range f {
		fc = append(fc, math.Float32bits(x), math.Float32bits(-x)) // -0 included
	}
	for i := 0; i < 64; i++ {
		fc = append(fc, math.Float32bits(float32(i)*1.25+0.125))
	}
	dedupe32(fc, &float32Table, "float32")
	dedupe32(append([]uint32(nil), int32Table[:]...), &int32Table, "int32")
	ic := []uint64{0, 1, 2, 3, 0xFFFFFFFFFFFFFFFF, 0xFFFFFFFFFFFFFFFE, 1 << 63, 1<<63 - 1, 1<<63 + 1, 0xFFFFFFFF, 0x100000000, 0xFFFFFFFF00000000,
		0x00000001FFFFFFFF, 0x7FFFFFFF, 0x80000000, 0xFFFFFFFF80000000, 0xAAAAAAAAAAAAAAAA, 0x5555555555555555, 0x0123456789ABCDEF, 0xFEDCBA9876543210}
	for _, k := range []uint{8, 16, 24, 31, 33, 40, 48, 56, 62} {
		var one uint64 = 1
		ic = append(ic, one<<k, one<<k-1, -(one << k))
	}
	for n := 0; n < 64; n++ {
		ic = append(ic, uint64(int32Table[n])<<32|uint64(int32Table[63-n]))
	}
	dedupe64(ic, &int64Table, "int64")
	dc := []uint64{math.Float64bits(math.MaxFloat64), 1, math.Float64bits(-math.SmallestNonzeroFloat64), 0x7FF0000000000001}
	for i := range float32Table {
		dc = append(dc, math.Float64bits(float64(math.Float32frombits(float32Table[i]))))
	}
	dedupe64(dc, &float64Table, "float64")
}

func mix32(x uint32) uint32 {
	x ^= x >> 16
	x *= 0x7feb352d
	x ^= x >> 15
	x *= 0x846ca68b
	x ^= x >> 16
	return x
}

var slotA = [6]int{1, 7, 11, 13, 19, 23}
var slotB = [6]int{0, 3, 5, 9, 21, 40}

// Val32 is the 32-bit input of operand slot k in lane l under pattern p.
func Val32(p, k, l int) uint32 {
	idx := (l*slotA[k] + slotB[k] + 17*p) % 64
	switch p {
	case 0:
		return int32Table[idx]
	case 1:
		return float32Table[idx]
	}
	switch k % 3 {
	case 0:
		return uint32(3*l + 1)
	case 1:
		if l%2 == 1 {
			return 0xFFFFFFFF - uint32(l)
		}
		return uint32(2 * l)
	}
	return uint32(l*l) | uint32(l&3)<<30
}

// Val64 is the 64-bit input of operand slot k in lane l under pattern p.
func Val64(p, k, l int) uint64 {
	idx := (l*slotA[k] + slotB[k] + 17*p) % 64
	switch p {
	case 0:
		return int64Table[idx]
	case 1:
		return float64Table[idx]
	}
	switch k % 3 {
	case 0:
		return uint64(3*l+1) | uint64(l)<<40
	case 1:
		if l%2 == 1 {
			return math.MaxUint64 - uint64(l)
		}
		return uint64(2*l) << 31
	}
	return math.Float64bits(float64(l)*0.75 - 20)
}

// Region is the address region (0..63) lane l uses under pattern p: a
// pattern-dependent bijection, so that active lanes always target pairwise
// distinct addresses and the lane->address map is not monotone.
func Region(p, l int) int {
	switch p {
	case 0:
		return l
	case 1:
		return (l*37 + 11) % 64
	}
	return 63 - l
}

// LDSAddr / MemAddr are the valid per-lane addresses.
func LDSAddr(p, l int) uint32 { return uint32(LDSStride*Region(p, l) + 16*p) }
func MemAddr(p, l int) uint64 { return MemBase + MemOff32(p, l) }
func MemOff32(p, l int) uint64 {
	return uint64(MemStride*Region(p, l) + 64 + 16*p)
}

// MemLane maps an accessed address back to (pattern-independent) region; ok
// is false when the address is outside every lane region.
func MemRegionOf(addr uint64) (region int, ok bool) {
	if addr < MemBase || addr >= MemBase+64*MemStride {
		return 0, false
	}
	return int((addr - MemBase) / MemStride), true
}

var vccConst = [NumPatterns]uint64{0xF0F0A5A53C3C9696, 0x0123456789ABCDEF, 0xFFFF0000FF00F0CC}
var maskConst = [NumPatterns]uint64{0x9669C33C5A5A0F0F, 0xFEDCBA9876543210, 0x00FFFF0033CC55AA}
var uniConst = [NumPatterns]uint64{0x00000003FFFFFFFB, 0x400921FB40490FDB, 0x0000002A00001234}
var uni1Const = [NumPatterns]uint64{0x0000000100000011, 0xBFF00000C0A00000, 0x8000000000000007}

var junkLane [VFileBytes]byte
var junkS [SFileBytes]byte
var junkLDS [LDSBytes]byte
var junkMem [MemWindowHi - MemWindowLo]byte

func init() {
	for i := 0; i < VFileBytes/4; i++ {
		binary.LittleEndian.PutUint32(junkLane[4*i:], mix32(uint32(i)+0x1000))
	}
	for i := 0; i < SFileBytes/4; i++ {
		binary.LittleEndian.PutUint32(junkS[4*i:], mix32(uint32(i)+0x5000000))
	}
	for i := 0; i < LDSBytes/4; i++ {
		binary.LittleEndian.PutUint32(junkLDS[4*i:], mix32(uint32(i)+0x6000000))
	}
	for i := 0; i < len(junkMem)/4; i++ {
		binary.LittleEndian.PutUint32(junkMem[4*i:], mix32(uint32(i)+0x7000000))
	}
}

// Widths are the operand widths in dwords taken from the decoded instruction.
type Widths struct{ Src [3]int }

// Shape describes what the state builder must know about an encoding.
type Shape struct {
	Format  Format
	Variant Variant
	W       Widths
	Addr64  bool // FLAT: the decoded address operand is a 64-bit VGPR pair (no scalar base)
	// MaskMode: 0 = the pattern's lane masks; 1 = VCC and the lane-mask SGPR pair are all ones, 2 = all zero
	// (a wavefront-uniform condition: the value a fast path for "every lane takes the same side" tests for)
	MaskMode int
}

func putV(s *State, l, reg int, x uint32) {
	binary.LittleEndian.PutUint32(s.V[l*LaneBytes+4*reg:], x)
}

func putS(s *State, reg int, x uint32) { binary.LittleEndian.PutUint32(s.S[4*reg:], x) }

// PutS64 writes an SGPR pair.
func PutS64(s *State, reg int, x uint64) { putS(s, reg, uint32(x)); putS(s, reg+1, uint32(x>>32)) }

// S64 reads an SGPR pair.
func S64(s *State, reg int) uint64 {
	return uint64(binary.LittleEndian.Uint32(s.S[4*reg:])) | uint64(binary.LittleEndian.Uint32(s.S[4*reg+4:]))<<32
}

// V32 reads a VGPR.
func V32(s *State, l, reg int) uint32 { return binary.LittleEndian.Uint32(s.V[l*LaneBytes+4*reg:]) }

// fillLaneOperands writes the source operands of lane l under pattern p.
func fillLaneOperands(s *State, sh *Shape, p, l int) {
	for k, base := range [3]int{RegSrc0, RegSrc1, RegSrc2} {
		w := sh.W.Src[k]
		switch {
		case w <= 1:
			putV(s, l, base, Val32(p, k, l))
		default:
			x := Val64(p, k, l)
			putV(s, l, base, uint32(x))
			putV(s, l, base+1, uint32(x>>32))
			if w > 2 {
				y := Val64(p, k+3, l)
				putV(s, l, base+2, uint32(y))
				putV(s, l, base+3, uint32(y>>32))
			}
		}
	}
}

// SetLaneAddr writes lane l's address registers: the valid pattern address,
// or (poison) an address outside the LDS / outside every mapped page, so that
// any access made on behalf of the lane faults and is seen.
func SetLaneAddr(s *State, sh *Shape, p, l int, poison bool) {
	switch sh.Format {
	case DS:
		a := LDSAddr(p, l)
		if poison {
			a = LDSPoison + uint32(LDSStride*Region(p, l))
		}
		putV(s, l, RegAddr, a)
	case FLAT:
		if sh.Addr64 {
			a := MemAddr(p, l)
			if poison {
				a = MemPoison + uint64(MemStride*Region(p, l))
			}
			putV(s, l, RegAddr, uint32(a))
			putV(s, l, RegAddr+1, uint32(a>>32))
		} else {
			a := uint32(MemOff32(p, l))
			if poison {
				a = MemPoison32 + uint32(MemStride*Region(p, l))
			}
			putV(s, l, RegAddr, a)
		}
	}
}

// SetLaneAddrTo points lane l's FLAT address operand at the virtual address a.
func SetLaneAddrTo(s *State, sh *Shape, l int, a uint64) {
	if sh.Addr64 {
		putV(s, l, RegAddr, uint32(a))
		putV(s, l, RegAddr+1, uint32(a>>32))
		return
	}
	putV(s, l, RegAddr, uint32(a-MemBase))
}

// Build fills s with the input state for (shape, pattern, exec). With poison,
// lanes whose EXEC bit is clear get faulting addresses.
func Build(s *State, sh *Shape, p int, exec uint64, poison bool) {
	copy(s.V, junkLane[:])
	copy(s.S, junkS[:])
	for l := 0; l < 64; l++ {
		fillLaneOperands(s, sh, p, l)
		SetLaneAddr(s, sh, p, l, poison && exec>>uint(l)&1 == 0)
	}
	PutS64(s, SRegUni, uniConst[p])
	PutS64(s, SRegBase, MemBase)
	if sh.Format == FLAT && sh.Variant.SAddr == 0 {
		PutS64(s, 0, MemBase) // CDNA3 reads SADDR=0 as s[0:1]
	}
	PutS64(s, SRegMask, maskConst[p])
	PutS64(s, SRegSrc1, uni1Const[p])
	s.VCC = vccConst[p]
	switch sh.MaskMode {
	case 1:
		s.VCC = math.MaxUint64
		PutS64(s, SRegMask, math.MaxUint64)
	case 2:
		s.VCC = 0
		PutS64(s, SRegMask, 0)
	}
	s.EXEC = exec
	s.SCC = byte(p & 1)
	s.M0 = 0
	s.PC = 0x1000
	if s.LDS != nil {
		copy(s.LDS, junkLDS[:])
	}
	if s.Mem != nil {
		copy(s.Mem, junkMem[:])
	}
}

// ---------------------------------------------------------------------------
// Lane permutations and the EXEC alphabet.

// Perm maps lane i to lane Perm[i].
type Perm [64]uint8

// PermBits moves bit i of x to bit p[i].
func (p *Perm) Bits(x uint64) uint64 {
	var y uint64
	for x != 0 {
		i := bits.TrailingZeros64(x)
		x &= x - 1
		y |= 1 << p[i]
	}
	return y
}

// NamedPerm is a generator with its name.
type NamedPerm struct {
	Name string
	P    Perm
}

func identity() Perm {
	var p Perm
	for i := range p {
		p[i] = uint8(i)
	}
	return p
}

// Generators returns the generating set: the 63 adjacent transpositions
// (which alone generate S_64), rotation by one, reversal, swap of the halves.
func Generators() []NamedPerm {
	var g []NamedPerm
	for i := 0; i < 63; i++ {
		p := identity()
		p[i], p[i+1] = uint8(i+1), uint8(i)
		g = append(g, NamedPerm{fmt.Sprintf("swap(%d,%d)", i, i+1), p})
	}
	var rot, rev, half Perm
	for i := 0; i < 64; i++ {
		rot[i] = uint8((i + 1) % 64)
		rev[i] = uint8(63 - i)
		half[i] = uint8((i + 32) % 64)
	}
	g = append(g, NamedPerm{"rotate+1", rot}, NamedPerm{"reverse", rev}, NamedPerm{"swap-halves", half})
	return g
}

// NamedExec is an EXEC mask with its name.
type NamedExec struct {
	Name string
	Mask uint64
}

// ExecAlphabet returns the EXEC masks: 0, all ones, each single bit, every
// prefix and suffix of length 1..63, the two alternating masks, the halves.
func ExecAlphabet() []NamedExec {
	e := []NamedExec{{"zero", 0}, {"all", math.MaxUint64}}
	for i := 0; i < 64; i++ {
		e = append(e, NamedExec{fmt.Sprintf("bit%d", i), 1 << uint(i)})
	}
	for n := 2; n <= 63; n++ { // prefix of length 1 is bit0
		e = append(e, NamedExec{fmt.Sprintf("prefix%d", n), 1<<uint(n) - 1})
	}
	for n := 2; n <= 63; n++ { // suffix of length 1 is bit63
		e = append(e, NamedExec{fmt.Sprintf("suffix%d", n), ^uint64(0) << uint(64-n)})
	}
	e = append(e, NamedExec{"alt5555", 0x5555555555555555}, NamedExec{"altAAAA", 0xAAAAAAAAAAAAAAAA})
	// low half / high half are prefix32 / suffix32, already present
	return e
}

// Roles tells which scalar registers hold lane masks (one bit per lane, moved
// with the lanes by a permutation) as opposed to wave-uniform data. Input and
// output roles are separate: the SDST pair of a VOP3b opcode / VOP3a compare
// (or VCC, for SDST = VCC and for the implicit VCC result of VOPC / VOP2 carry
// opcodes) is a lane mask PRODUCED by the instruction, whatever the same
// register meant on input (e.g. the uniform scalar source of the instruction).
type Roles struct {
	VCCIn, VCCOut bool  // VCC is a lane mask on input / on output
	In, Out       []int // SGPR pairs (number of the low register) that are lane masks on input / on output
}

// IsOut reports whether SGPR r is the low (0) or high (1) register of an output lane-mask pair.
func (ro *Roles) IsOut(r int) (low, high bool) {
	for _, x := range ro.Out {
		if r == x {
			return true, false
		}
		if r == x+1 {
			return false, true
		}
	}
	return false, false
}

// IsIn reports whether the pair starting at SGPR r is a lane mask on input.
func (ro *Roles) IsIn(r int) bool {
	for _, x := range ro.In {
		if r == x {
			return true
		}
	}
	return false
}

// Permute sets dst = pi . src for an INPUT state: lane pi[i] of dst is lane i
// of src; EXEC, VCC (if it is a lane mask on input) and the input lane-mask
// SGPR pairs have their bits moved the same way. Uniform state (other SGPRs,
// SCC, M0, PC, LDS, memory) is copied.
func Permute(dst, src *State, pi *Perm, ro *Roles) {
	for i := 0; i < 64; i++ {
		copy(dst.Lane(int(pi[i])), src.Lane(i))
	}
	copy(dst.S, src.S)
	for _, r := range ro.In {
		PutS64(dst, r, pi.Bits(S64(src, r)))
	}
	dst.VCC = src.VCC
	if ro.VCCIn {
		dst.VCC = pi.Bits(src.VCC)
	}
	dst.EXEC = pi.Bits(src.EXEC)
	dst.SCC, dst.M0, dst.PC = src.SCC, src.M0, src.PC
	if src.LDS != nil {
		copy(dst.LDS, src.LDS)
	}
	if src.Mem != nil {
		copy(dst.Mem, src.Mem)
	}
}
