package c06lib

// Operand-aliasing variants: a destination register is, or partially overlaps,
// a source register of the same instruction. Every form is legal ISA: all
// sources of an instruction are read (per lane for vector operands) before any
// result is written. Applies() keeps only the forms that are legal and distinct
// for an opcode (e.g. no misaligned SGPR pair, no partial overlap for 32-bit
// operands, at most one SGPR on the constant bus).

func hasSrc(k int) func(*OpFacts) bool { return func(f *OpFacts) bool { return f.SrcW[k] > 0 } }

func and(fs ...func(*OpFacts) bool) func(*OpFacts) bool {
	return func(x *OpFacts) bool {
		for _, f := range fs {
			if !f(x) {
				return false
			}
		}
		return true
	}
}

func wide(k int) func(*OpFacts) bool {
	return func(f *OpFacts) bool { return f.SrcW[k] >= 2 || (f.SrcW[k] > 0 && f.DstW >= 2) }
}
func wideDst(k int) func(*OpFacts) bool {
	return func(f *OpFacts) bool { return f.SrcW[k] > 0 && f.DstW >= 2 }
}
func src32(k int) func(*OpFacts) bool { return func(f *OpFacts) bool { return f.SrcW[k] == 1 } }
func notMaskOp(f *OpFacts) bool       { return !f.MaskOp }
func sdstWritten(f *OpFacts) bool     { return f.HasSDst && f.WritesSDst }
func hasVDst(f *OpFacts) bool         { return f.DstW > 0 }
func noLiteralK(f *OpFacts) bool      { return !f.LiteralK }

// Legal applies the rules that do not depend on the variant's intent: on
// architectures with even-aligned VGPR tuples a destination tuple (2 or more
// registers) must not start at an odd register.
func (va *Variant) Legal(f *OpFacts) (ok bool, why string) {
	if f.EvenVGPRTuples && va.VDstSet && va.VDst%2 == 1 && f.DstW >= 2 {
		return false, "CDNA3: a VGPR destination tuple must start at an even register (llvm-mc gfx90a: vgpr tuples must be 64 bit aligned), so this partial overlap is not encodable"
	}
	return true, ""
}

var srcRegs = [3]int{RegSrc0, RegSrc1, RegSrc2}

// vgprAlias lists dst == src_k and the two partial overlaps dst = src_k +- 1
// (only when 64-bit operands make them overlap) for the first n sources.
func vgprAlias(base Variant, prefix string, n int) []Variant {
	var out []Variant
	names := [3]string{"src0", "src1", "src2"}
	for k := 0; k < n; k++ {
		x := base
		x.Alias, x.VDst, x.VDstSet = true, srcRegs[k], true
		x.Name = prefix + "dst=" + names[k]
		x.Applies = and(hasVDst, hasSrc(k))
		if k == 2 {
			x.Applies = and(hasVDst, hasSrc(k), notMaskOp)
		}
		out = append(out, x)
		y := x
		y.VDst = srcRegs[k] + 1
		y.Name = prefix + "dst=" + names[k] + "+1(partial-overlap)"
		y.Applies = and(x.Applies, wide(k))
		out = append(out, y)
		z := x
		z.VDst = srcRegs[k] - 1
		z.Name = prefix + "dst=" + names[k] + "-1(partial-overlap)"
		z.Applies = and(x.Applies, wideDst(k))
		out = append(out, z)
		// aligned form of a width-mismatch overlap: the 32-bit source is the high half of the destination pair
		w := x
		w.Name = prefix + "dst-pair.hi=" + names[k]
		switch k {
		case 0:
			w.Src0 = v(srcRegs[k] + 1)
		case 1:
			w.Src1 = v(srcRegs[k] + 1)
		case 2:
			w.Src2 = v(srcRegs[k] + 1)
		}
		w.Applies = and(x.Applies, wideDst(k), src32(k))
		out = append(out, w)
	}
	return out
}

// AliasVariants lists the operand-aliasing variants of a format.
func AliasVariants(f Format) []Variant {
	switch f {
	case VOP1:
		return vgprAlias(Variant{Src0: v(RegSrc0)}, "", 1)
	case VOP2:
		out := vgprAlias(Variant{Src0: v(RegSrc0), Src1: v(RegSrc1)}, "", 2)
		// SDWA with dst_unused=PRESERVE: the destination is also read
		out = append(out,
			Variant{Name: "sdwa,dst=src0", Src0: CodeSDWA, Src1: v(RegSrc1), SDWA: true, VDst: RegSrc0, VDstSet: true, Alias: true},
			Variant{Name: "sdwa,dst=src1", Src0: CodeSDWA, Src1: v(RegSrc1), SDWA: true, VDst: RegSrc1, VDstSet: true, Alias: true},
			// the implicit VCC result of v_add/sub_u32 overwrites the register src0 is read from
			Variant{Name: "src0=vcc_hi-as-data", Src0: CodeVCCHi, Src1: v(RegSrc1), VCCData: true, Alias: true, Applies: and(src32(0), noLiteralK)},
			Variant{Name: "src0=vcc-as-data,dst=src1", Src0: CodeVCC, Src1: v(RegSrc1), VCCData: true, VDst: RegSrc1, VDstSet: true, Alias: true, Applies: noLiteralK},
		)
		return out
	case VOPC:
		return []Variant{
			{Name: "src0=vcc_hi-as-data", Src0: CodeVCCHi, Src1: v(RegSrc1), VCCData: true, Alias: true, Applies: src32(0)},
		}
	case VOP3:
		vvv := Variant{Src0: v(RegSrc0), Src1: v(RegSrc1), Src2: v(RegSrc2), SDst: SRegDst}
		out := vgprAlias(vvv, "", 3)
		mk := func(name string, app func(*OpFacts) bool, f func(*Variant)) {
			x := vvv
			x.Name, x.Alias, x.Applies = name, true, app
			f(&x)
			out = append(out, x)
		}
		// (a) the SDST pair is the pair that holds a uniform scalar source (low / high half)
		// (c) ... or the 64-bit addend of v_mad_u64_u32 / v_mad_i64_i32
		srcSet := [3]func(*Variant, int){
			func(x *Variant, c int) { x.Src0 = c }, func(x *Variant, c int) { x.Src1 = c }, func(x *Variant, c int) { x.Src2 = c }}
		names := [3]string{"src0", "src1", "src2"}
		for k := 0; k < 3; k++ {
			k := k
			base := and(sdstWritten, notMaskOp, hasSrc(k))
			mk(names[k]+"=sgpr,sdst=same-pair", base, func(x *Variant) { srcSet[k](x, SRegUni); x.SDst = SRegUni })
			mk(names[k]+"=sgpr-hi,sdst=same-pair", and(base, src32(k)), func(x *Variant) { srcSet[k](x, SRegUni+1); x.SDst = SRegUni })
			// (b) vcc_lo / vcc_hi / vcc read as uniform data, SDST = VCC
			mk(names[k]+"=vcc-as-data,sdst=vcc", base, func(x *Variant) { srcSet[k](x, CodeVCC); x.SDst = CodeVCC; x.VCCData = true })
			mk(names[k]+"=vcc_hi-as-data,sdst=vcc", and(base, src32(k)), func(x *Variant) { srcSet[k](x, CodeVCCHi); x.SDst = CodeVCC; x.VCCData = true })
		}
		mk("src0=src1=sgpr,sdst=same-pair", and(sdstWritten, notMaskOp, src32(0), src32(1)), func(x *Variant) { x.Src0, x.Src1, x.SDst = SRegUni, SRegUni, SRegUni })
		// vcc_hi as uniform data for the opcodes without SDST
		mk("src0=vcc_hi-as-data", and(src32(0), func(f *OpFacts) bool { return !f.HasSDst }), func(x *Variant) { x.Src0 = CodeVCCHi; x.VCCData = true })
		// the carry chain: carry-in (SRC2 lane mask) and carry-out (SDST) in the same pair
		mk("src2=sdst=sgpr-lane-mask", sdstWritten, func(x *Variant) { x.Src2, x.SDst, x.Src2Mask = SRegMask, SRegMask, true })
		mk("src2=sdst=vcc-lane-mask", sdstWritten, func(x *Variant) { x.Src2, x.SDst, x.Src2Mask = CodeVCC, CodeVCC, true })
		// both kinds at once: VGPR destination = a VGPR source and SDST pair = the scalar source's pair
		mk("src0=sgpr,sdst=same-pair,dst=src1", and(sdstWritten, notMaskOp, hasSrc(1)), func(x *Variant) { x.Src0, x.SDst, x.VDst, x.VDstSet = SRegUni, SRegUni, RegSrc1, true })
		return out
	case DS:
		isLoad := func(f *OpFacts) bool { return f.IsLoad }
		return []Variant{
			{Name: "offset0=8,offset1=0,dst=addr", Off0: 8, VDst: RegAddr, VDstSet: true, Alias: true, Applies: isLoad},
			{Name: "offset0=3,offset1=1,dst=addr", Off0: 3, Off1: 1, VDst: RegAddr, VDstSet: true, Alias: true, Applies: isLoad},
			{Name: "offset0=8,offset1=0,dst=addr-1(overlap)", Off0: 8, VDst: RegAddr - 1, VDstSet: true, Alias: true, Applies: func(f *OpFacts) bool { return f.IsLoad && f.DstW >= 2 }},
			{Name: "offset0=3,offset1=1,dst=addr-1(overlap)", Off0: 3, Off1: 1, VDst: RegAddr - 1, VDstSet: true, Alias: true, Applies: func(f *OpFacts) bool { return f.IsLoad && f.DstW >= 2 }},
			{Name: "offset0=8,offset1=0,dst=addr-2(tuple-contains-addr)", Off0: 8, VDst: RegAddr - 2, VDstSet: true, Alias: true, Applies: func(f *OpFacts) bool { return f.IsLoad && f.DstW >= 3 }},
		}
	case FLAT:
		isLoad := func(f *OpFacts) bool { return f.IsLoad }
		wideLoad := func(f *OpFacts) bool { return f.IsLoad && f.DstW >= 2 }
		return []Variant{
			{Name: "saddr=off,imm=0,dst=addr", SAddr: 0x7F, VDst: RegAddr, VDstSet: true, Alias: true, Applies: isLoad},
			{Name: "saddr=off,imm=0,dst=addr+1(addr.hi)", SAddr: 0x7F, VDst: RegAddr + 1, VDstSet: true, Alias: true, Applies: func(f *OpFacts) bool { return f.IsLoad && f.Addr64 }},
			{Name: "saddr=off,imm=0,dst=addr-1(overlap)", SAddr: 0x7F, VDst: RegAddr - 1, VDstSet: true, Alias: true, Applies: wideLoad},
			{Name: "saddr=off,imm=0,dst=addr-2(tuple-contains-addr)", SAddr: 0x7F, VDst: RegAddr - 2, VDstSet: true, Alias: true, Applies: func(f *OpFacts) bool { return f.IsLoad && f.DstW >= 3 }},
			{Name: "saddr-field=0,imm=0,dst=addr-2(tuple-contains-addr)", SAddr: 0, VDst: RegAddr - 2, VDstSet: true, Alias: true, Applies: func(f *OpFacts) bool { return f.IsLoad && f.DstW >= 3 }},
			{Name: "saddr=off,imm=+16,dst=addr", SAddr: 0x7F, ImmOff: 16, VDst: RegAddr, VDstSet: true, Alias: true, Applies: isLoad},
			{Name: "saddr-field=0,imm=0,dst=addr", SAddr: 0, VDst: RegAddr, VDstSet: true, Alias: true, Applies: isLoad},
			{Name: "saddr=sgpr,imm=0,dst=voffset", SAddr: SRegBase, VDst: RegAddr, VDstSet: true, Alias: true, Applies: isLoad},
			{Name: "saddr=sgpr,imm=0,dst=voffset-2(tuple-contains-voffset)", SAddr: SRegBase, VDst: RegAddr - 2, VDstSet: true, Alias: true, Applies: func(f *OpFacts) bool { return f.IsLoad && f.DstW >= 3 }},
			{Name: "saddr=sgpr,imm=+16,dst=voffset-1(overlap)", SAddr: SRegBase, ImmOff: 16, VDst: RegAddr - 1, VDstSet: true, Alias: true, Applies: wideLoad},
		}
	case SOP2:
		dst32 := func(f *OpFacts) bool { return f.DstW == 1 }
		dst64 := func(f *OpFacts) bool { return f.DstW >= 2 }
		return []Variant{
			{Name: "sdst=ssrc0", Src0: SRegUni, Src1: SRegSrc1, SD: SRegUni, Alias: true},
			{Name: "sdst=ssrc1", Src0: SRegUni, Src1: SRegSrc1, SD: SRegSrc1, Alias: true},
			{Name: "sdst=ssrc0=ssrc1", Src0: SRegUni, Src1: SRegUni, SD: SRegUni, Alias: true},
			// 32-bit destination = high half of a 64-bit source pair
			{Name: "sdst=ssrc0.hi", Src0: SRegUni, Src1: SRegSrc1, SD: SRegUni + 1, Alias: true, Applies: and(dst32, func(f *OpFacts) bool { return f.SrcW[0] >= 2 })},
			{Name: "sdst=ssrc1.hi", Src0: SRegUni, Src1: SRegSrc1, SD: SRegSrc1 + 1, Alias: true, Applies: and(dst32, func(f *OpFacts) bool { return f.SrcW[1] >= 2 })},
			// 64-bit destination pair whose high half is a 32-bit source
			{Name: "sdst-pair.hi=ssrc0", Src0: SRegUni + 1, Src1: SRegSrc1, SD: SRegUni, Alias: true, Applies: and(dst64, src32(0))},
			{Name: "sdst-pair.hi=ssrc1", Src0: SRegUni, Src1: SRegSrc1 + 1, SD: SRegSrc1, Alias: true, Applies: and(dst64, src32(1))},
			{Name: "sdst=vcc,ssrc0=vcc", Src0: CodeVCC, Src1: SRegSrc1, SD: CodeVCC, Alias: true},
		}
	case SOP1:
		dst32 := func(f *OpFacts) bool { return f.DstW == 1 }
		dst64 := func(f *OpFacts) bool { return f.DstW >= 2 }
		return []Variant{
			{Name: "sdst=ssrc0", Src0: SRegUni, SD: SRegUni, Alias: true, Applies: hasSrc(0)},
			{Name: "sdst=ssrc0.hi", Src0: SRegUni, SD: SRegUni + 1, Alias: true, Applies: and(dst32, func(f *OpFacts) bool { return f.SrcW[0] >= 2 })},
			{Name: "sdst-pair.hi=ssrc0", Src0: SRegUni + 1, SD: SRegUni, Alias: true, Applies: and(dst64, src32(0))},
			{Name: "sdst=vcc,ssrc0=vcc", Src0: CodeVCC, SD: CodeVCC, Alias: true, Applies: hasSrc(0)},
		}
	case SMEM:
		// the loaded registers overlap the base pair s[6:7] (x4 and wider tuples are 4-aligned)
		return []Variant{
			{Name: "imm=0x10,sdst=sbase", ImmOff: 0x10, SD: SRegBase, Alias: true, Applies: func(f *OpFacts) bool { return f.DstW <= 2 }},
			{Name: "imm=0x10,sdst=sbase.hi", ImmOff: 0x10, SD: SRegBase + 1, Alias: true, Applies: func(f *OpFacts) bool { return f.DstW == 1 }},
			{Name: "imm=0x10,sdst-tuple-contains-sbase", ImmOff: 0x10, SD: SRegBase &^ 3, Alias: true, Applies: func(f *OpFacts) bool { return f.DstW >= 4 }},
		}
	}
	return nil
}
