#!/usr/bin/env python3
"""Instruction templates for generated straight-line kernels (C02 CU-level layer).
Each template is a short, self-contained GCN3 snippet with correct s_waitcnt use that reads/writes only the
working registers v20..v23 / s20..s23 (plus scratch v17..v19, v24..v31, s24..s47, vcc, scc) and the data buffers.
Programs are prologue + templates... + epilogue, concatenated byte-wise (snippets are position independent).
Writes templates.json next to this file. Authoring-time only (needs llvm-mc-14)."""
import json, os, sys
sys.path.insert(0, os.path.dirname(os.path.abspath(__file__)))
from gen import assemble, gaddr

PROLOGUE = """
  s_load_dwordx2 s[4:5], s[0:1], 0x8
  s_load_dword s6, s[0:1], 0x10
  s_load_dwordx2 s[8:9], s[0:1], 0x0
  s_load_dwordx2 s[10:11], s[0:1], 0x20
  s_load_dwordx2 s[12:13], s[0:1], 0x28
  s_load_dwordx2 s[14:15], s[0:1], 0x18
  s_load_dwordx2 s[16:17], s[0:1], 0x30
  s_load_dwordx2 s[18:19], s[0:1], 0x38
  s_mov_b32 m0, -1
  s_waitcnt lgkmcnt(0)
""" + gaddr('v7','v8','s4','s5') + gaddr('v9','v10','s8','s9') + gaddr('v11','v12','s10','s11') + \
  gaddr('v13','v14','s12','s13') + gaddr('v15','v16','s14','s15') + """
  v_lshlrev_b32 v3, 2, v0
  flat_load_dword v20, v[9:10]
  flat_load_dword v21, v[11:12]
  v_mov_b32 v22, v0
  v_mov_b32 v23, 0
  s_mov_b32 s20, s2
  s_mov_b32 s21, 7
  s_mov_b32 s22, 0x55
  s_mov_b32 s23, -3
  s_waitcnt vmcnt(0)
  s_endpgm
"""
EPILOGUE = """
  s_waitcnt vmcnt(0) lgkmcnt(0)
  v_add_u32 v24, vcc, s20, v22
  v_xor_b32 v24, s21, v24
  v_add_u32 v25, vcc, s22, v23
  v_xor_b32 v25, s23, v25
  flat_store_dword v[7:8], v20
  flat_store_dword v[13:14], v21
""" + gaddr('v26','v27','s16','s17') + gaddr('v28','v29','s18','s19') + """
  flat_store_dword v[26:27], v24
  flat_store_dword v[28:29], v25
  s_waitcnt vmcnt(0)
  s_endpgm
"""
def off(k, lo='v9', hi='v10'):
    return f"""
  v_add_u32 v17, vcc, {k}, {lo}
  v_addc_u32 v18, vcc, 0, {hi}, vcc
"""
T = {}
# --- SALU
T['s_add'] = "s_add_u32 s20, s20, s21\n s_addc_u32 s21, s21, s22"
T['s_lit'] = "s_mov_b32 s22, 0x12345678\n s_xor_b32 s23, s23, s22"
T['s_shift'] = "s_lshl_b32 s21, s20, 3\n s_lshr_b32 s22, s23, 5\n s_ashr_i32 s23, s23, 1"
T['s_mul'] = "s_mul_i32 s22, s20, s21"
T['s_cmp_csel'] = "s_cmp_lt_u32 s20, s21\n s_cselect_b32 s23, s22, s20"
T['s_bfe'] = "s_bfe_u32 s21, s22, 0x80004\n s_and_b32 s22, s22, s23"
T['s_64'] = "s_mov_b64 s[24:25], s[20:21]\n s_lshl_b64 s[24:25], s[24:25], 4\n s_xor_b32 s22, s24, s25"
T['s_branch_skip'] = "s_cmp_eq_u32 s2, 0\n s_cbranch_scc1 L1\n s_add_u32 s20, s20, 11\nL1:\n s_add_u32 s21, s21, 1"
# the address of the next instruction, relative to nothing but the program counter (PC-relative addressing of
# constant data starts with this instruction): low 16 bits into a stored register
T['s_getpc'] = "s_getpc_b64 s[24:25]\n s_and_b32 s20, s24, 0xffff"
T['s_loop'] = "s_mov_b32 s24, 3\nL2:\n s_add_u32 s20, s20, s24\n s_sub_u32 s24, s24, 1\n s_cmp_lg_u32 s24, 0\n s_cbranch_scc1 L2"
# --- VALU
T['v_add'] = "v_add_u32 v20, vcc, v20, v21\n v_addc_u32 v22, vcc, v22, v23, vcc"
T['v_logic'] = "v_xor_b32 v21, v20, v21\n v_and_b32 v22, 0xff, v21\n v_or_b32 v23, s21, v22"
T['v_shift'] = "v_lshlrev_b32 v22, 3, v20\n v_lshrrev_b32 v23, 2, v21\n v_ashrrev_i32 v21, 1, v21"
T['v_mul'] = "v_mul_lo_u32 v22, v20, v21\n v_mul_hi_u32 v23, v20, v21"
T['v_mad24'] = "v_mad_u32_u24 v23, v20, v21, v22\n v_mul_u32_u24 v22, v20, v21"
T['v_cmp_cndmask'] = "v_cmp_lt_u32 vcc, v20, v21\n v_cndmask_b32 v22, v20, v21, vcc"
T['v_cmp_sgpr'] = "v_cmp_gt_u32 s[24:25], v21, v20\n v_cndmask_b32 v23, v22, v0, s[24:25]\n s_xor_b32 s22, s24, s25"
T['v_scalar_src'] = "v_mov_b32 v23, s20\n v_add_u32 v23, vcc, s21, v23"
T['v_f32'] = "v_cvt_f32_u32 v22, v20\n v_cvt_f32_u32 v23, v21\n v_add_f32 v22, v22, v23\n v_mul_f32 v23, v22, v23"
T['v_fma'] = "v_cvt_f32_u32 v24, v20\n v_cvt_f32_u32 v25, v21\n v_fma_f32 v22, v24, v25, v24\n v_mac_f32 v23, v24, v25"
T['v_minmax'] = "v_min_u32 v22, v20, v21\n v_max_i32 v23, v20, v21"
T['v_bfe'] = "v_bfe_u32 v22, v20, 4, 8\n v_lshlrev_b64 v[24:25], 3, v[20:21]\n v_xor_b32 v23, v24, v25"
T['v_readfirstlane'] = "v_readfirstlane_b32 s22, v21"
T['v_exec_partial'] = "s_mov_b64 s[24:25], exec\n s_mov_b64 exec, 0x0f0f0f0f\n v_add_u32 v20, vcc, 5, v20\n s_mov_b64 exec, s[24:25]"
T['v_exec_cmpx'] = "s_mov_b64 s[24:25], exec\n v_cmpx_lt_u32 vcc, v20, v21\n v_mov_b32 v22, 77\n s_mov_b64 exec, s[24:25]"
# --- LDS
T['lds_rw32'] = "ds_write_b32 v3, v20\n s_waitcnt lgkmcnt(0)\n ds_read_b32 v22, v3\n s_waitcnt lgkmcnt(0)"
T['lds_rw64'] = "v_lshlrev_b32 v17, 1, v3\n ds_write_b64 v17, v[20:21]\n s_waitcnt lgkmcnt(0)\n ds_read_b64 v[22:23], v17\n s_waitcnt lgkmcnt(0)"
T['lds_read2'] = "v_lshlrev_b32 v17, 1, v3\n ds_write2_b32 v17, v20, v21 offset1:1\n s_waitcnt lgkmcnt(0)\n ds_read2_b32 v[22:23], v17 offset1:1\n s_waitcnt lgkmcnt(0)"
# --- barriers (work-group wide): exchange through LDS with the wavefront 64 lanes further on; the trailing barrier keeps
# later LDS templates of faster wavefronts from overwriting a slot a slower neighbour has not read yet
T['barrier_lds_exchange'] = "ds_write_b32 v3, v20\n s_waitcnt lgkmcnt(0)\n s_barrier\n v_add_u32 v17, vcc, 64, v0\n v_and_b32 v17, s6, v17\n v_lshlrev_b32 v17, 2, v17\n ds_read_b32 v22, v17\n s_waitcnt lgkmcnt(0)\n s_barrier"
T['barrier_only'] = "s_barrier\n v_add_u32 v23, vcc, 1, v23"
T['lds_offset'] = "ds_write_b32 v3, v21 offset:16\n s_waitcnt lgkmcnt(0)\n ds_read_b32 v23, v3 offset:16\n s_waitcnt lgkmcnt(0)"
# --- SMEM
T['smem_x1'] = "s_load_dword s22, s[8:9], 0x10\n s_waitcnt lgkmcnt(0)\n s_add_u32 s20, s20, s22"
T['smem_x2'] = "s_load_dwordx2 s[24:25], s[8:9], 0x20\n s_waitcnt lgkmcnt(0)\n s_xor_b32 s21, s24, s25"
T['smem_x4'] = "s_load_dwordx4 s[24:27], s[10:11], 0x40\n s_waitcnt lgkmcnt(0)\n s_add_u32 s22, s24, s27\n s_xor_b32 s22, s22, s26"
T['smem_x8'] = "s_load_dwordx8 s[24:31], s[8:9], 0x100\n s_waitcnt lgkmcnt(0)\n s_add_u32 s23, s24, s31\n s_xor_b32 s23, s23, s28"
T['smem_x16'] = "s_load_dwordx16 s[24:39], s[10:11], 0x200\n s_waitcnt lgkmcnt(0)\n s_add_u32 s21, s24, s39\n s_xor_b32 s21, s21, s32"
# scalar loads that straddle a 64-byte line at a point that is not their midpoint (in is 64-byte aligned)
T['smem_x2_cross'] = "s_load_dwordx2 s[24:25], s[8:9], 0x3c\n s_waitcnt lgkmcnt(0)\n s_xor_b32 s21, s24, s25"
T['smem_x4_cross'] = "s_load_dwordx4 s[24:27], s[8:9], 0x34\n s_waitcnt lgkmcnt(0)\n s_add_u32 s22, s24, s27\n s_xor_b32 s22, s22, s26\n s_add_u32 s22, s22, s25"
T['smem_x8_cross'] = "s_load_dwordx8 s[24:31], s[10:11], 0x38\n s_waitcnt lgkmcnt(0)\n s_add_u32 s23, s24, s31\n s_xor_b32 s23, s23, s28\n s_add_u32 s23, s23, s26\n s_xor_b32 s23, s23, s30"
T['smem_x16_cross'] = "s_load_dwordx16 s[24:39], s[8:9], 0x74\n s_waitcnt lgkmcnt(0)\n s_add_u32 s21, s24, s39\n s_xor_b32 s21, s21, s32\n s_add_u32 s21, s21, s27\n s_xor_b32 s21, s21, s36"
T['smem_sgpr_off'] = "s_mov_b32 s24, 0x24\n s_load_dword s22, s[8:9], s24\n s_waitcnt lgkmcnt(0)"
# --- FLAT loads (in), aligned / unaligned / line crossing (lane 15 with +3 crosses a 64-byte line)
for name, op, dst in [('ubyte','flat_load_ubyte','v22'), ('sbyte','flat_load_sbyte','v22'), ('ushort','flat_load_ushort','v23'), ('sshort','flat_load_sshort','v23'), ('dword','flat_load_dword','v22')]:
    for k in ([0, 1, 3] if name != 'dword' else [0]):
        T[f'flat_ld_{name}_{k}'] = off(k) + f" {op} {dst}, v[17:18]\n s_waitcnt vmcnt(0)"
T['flat_ld_x2'] = "flat_load_dwordx2 v[22:23], v[9:10]\n s_waitcnt vmcnt(0)"
T['flat_ld_x4'] = "flat_load_dwordx4 v[24:27], v[11:12]\n s_waitcnt vmcnt(0)\n v_xor_b32 v22, v24, v27\n v_xor_b32 v23, v25, v26"
T['flat_ld_x3'] = "flat_load_dwordx3 v[24:26], v[9:10]\n s_waitcnt vmcnt(0)\n v_xor_b32 v22, v24, v26\n v_add_u32 v23, vcc, v25, v23"
# --- FLAT stores (tmp), then read back so that later templates depend on them
T['flat_st_byte'] = "flat_store_byte v[15:16], v20\n s_waitcnt vmcnt(0)"
T['flat_st_short'] = off(2, 'v15', 'v16') + " flat_store_short v[17:18], v21\n s_waitcnt vmcnt(0)"
T['flat_st_dword_ld'] = "flat_store_dword v[15:16], v21\n s_waitcnt vmcnt(0)\n flat_load_dword v22, v[15:16]\n s_waitcnt vmcnt(0)"
T['flat_st_x2'] = "v_lshlrev_b32 v24, 2, v3\n v_add_u32 v17, vcc, s14, v24\n v_mov_b32 v18, s15\n v_addc_u32 v18, vcc, 0, v18, vcc\n flat_store_dwordx2 v[17:18], v[20:21]\n s_waitcnt vmcnt(0)"
# wide accesses with a 16-byte stride per work-item whose bytes straddle a cache line off-centre (lane 3: 48+12 = 60 -> 4+12 split; +4: lane 3 at 52 -> 12+4)
def wide(k, base_lo='s14', base_hi='s15'):
    return f"""
  v_sub_u32 v24, vcc, v15, s14
  v_lshlrev_b32 v24, 2, v24
  v_add_u32 v24, vcc, {k}, v24
  v_add_u32 v17, vcc, {base_lo}, v24
  v_mov_b32 v18, {base_hi}
  v_addc_u32 v18, vcc, 0, v18, vcc
"""
T['flat_st_x4_cross12'] = wide(12) + " flat_store_dwordx4 v[17:18], v[20:23]\n s_waitcnt vmcnt(0)"
T['flat_st_x4_cross4'] = wide(4) + " flat_store_dwordx4 v[17:18], v[20:23]\n s_waitcnt vmcnt(0)"
T['flat_st_x2_cross'] = wide(12) + " flat_store_dwordx2 v[17:18], v[20:21]\n s_waitcnt vmcnt(0)"
T['flat_ld_x4_cross12'] = wide(12, 's8', 's9') + " flat_load_dwordx4 v[24:27], v[17:18]\n s_waitcnt vmcnt(0)\n v_xor_b32 v22, v24, v27\n v_xor_b32 v23, v25, v26"
T['flat_ld_x2_cross'] = wide(12, 's10', 's11') + " flat_load_dwordx2 v[22:23], v[17:18]\n s_waitcnt vmcnt(0)"
T['flat_st_partial_exec'] = "s_mov_b64 s[24:25], exec\n s_mov_b64 exec, 0xaaaaaaaa\n flat_store_dword v[15:16], v20\n s_waitcnt vmcnt(0)\n s_mov_b64 exec, s[24:25]"
# --- a loop whose vector memory instruction runs with no lane enabled the first time round and with all lanes afterwards
# (per-PC state that a unit keeps from a fully masked execution must not leak into the next iteration)
T['loop_masked_store'] = """s_mov_b64 s[24:25], exec
 s_mov_b32 s26, 0
L3:
 s_cmp_eq_u32 s26, 0
 s_cbranch_scc1 L3a
 s_mov_b64 exec, s[24:25]
 s_branch L3b
L3a:
 s_mov_b64 exec, 0
L3b:
 v_add_u32 v20, vcc, 1, v20
 flat_store_dword v[15:16], v20
 s_waitcnt vmcnt(0)
 s_mov_b64 exec, s[24:25]
 s_add_u32 s26, s26, 1
 s_cmp_lt_u32 s26, 3
 s_cbranch_scc1 L3"""
T['loop_masked_load'] = """s_mov_b64 s[24:25], exec
 s_mov_b32 s26, 0
L4:
 s_cmp_eq_u32 s26, 0
 s_cbranch_scc1 L4a
 s_mov_b64 exec, s[24:25]
 s_branch L4b
L4a:
 s_mov_b64 exec, 0
L4b:
 flat_load_dword v22, v[9:10]
 s_waitcnt vmcnt(0)
 v_add_u32 v23, vcc, v22, v23
 s_mov_b64 exec, s[24:25]
 s_add_u32 s26, s26, 1
 s_cmp_lt_u32 s26, 3
 s_cbranch_scc1 L4"""
# a gather: lanes 0..31 read one dword each from 32 different lines, lanes 32..63 consecutive dwords of the next lines
# (sparsely used lines followed by densely used ones in one instruction)
T['flat_ld_gather'] = """v_and_b32 v24, 63, v0
 v_lshlrev_b32 v25, 6, v24
 v_lshlrev_b32 v26, 2, v24
 v_add_u32 v26, vcc, 0x780, v26
 v_cmp_gt_u32 vcc, 32, v24
 v_cndmask_b32 v25, v26, v25, vcc
 v_add_u32 v17, vcc, s8, v25
 v_mov_b32 v18, s9
 v_addc_u32 v18, vcc, 0, v18, vcc
 flat_load_dword v22, v[17:18]
 s_waitcnt vmcnt(0)
 v_add_u32 v23, vcc, v22, v23"""
# stream compaction: the lanes with (lane & 3) == 3 are switched off and the others read CONSECUTIVE dwords
# (lane l reads in[l - l/4]): an EXEC mask with holes whose active lanes nevertheless form a unit-stride run, read
# of the shared input region (all wavefronts read the same 48 dwords; loads only, so race-free)
T['flat_ld_compact'] = """v_and_b32 v24, 63, v0
 v_lshrrev_b32 v25, 2, v24
 v_sub_u32 v25, vcc, v24, v25
 v_lshlrev_b32 v25, 2, v25
 v_add_u32 v17, vcc, s8, v25
 v_mov_b32 v18, s9
 v_addc_u32 v18, vcc, 0, v18, vcc
 v_and_b32 v26, 3, v24
 v_cmp_ne_u32 vcc, 3, v26
 s_and_saveexec_b64 s[24:25], vcc
 flat_load_dword v22, v[17:18]
 s_waitcnt vmcnt(0)
 s_mov_b64 exec, s[24:25]
 v_add_u32 v23, vcc, v22, v23"""
# the same with the holes at the low end of every group of eight and 64-bit elements
T['flat_ld_compact_x2'] = """v_and_b32 v24, 63, v0
 v_lshrrev_b32 v25, 3, v24
 v_lshlrev_b32 v25, 1, v25
 v_sub_u32 v25, vcc, v24, v25
 v_lshlrev_b32 v25, 3, v25
 v_add_u32 v17, vcc, s8, v25
 v_mov_b32 v18, s9
 v_addc_u32 v18, vcc, 0, v18, vcc
 v_and_b32 v26, 7, v24
 v_cmp_lt_u32 vcc, 1, v26
 s_and_saveexec_b64 s[24:25], vcc
 flat_load_dwordx2 v[26:27], v[17:18]
 s_waitcnt vmcnt(0)
 v_xor_b32 v22, v26, v27
 s_mov_b64 exec, s[24:25]
 v_add_u32 v23, vcc, v22, v23"""
T['flat_two_outstanding'] = "flat_load_dword v22, v[9:10]\n flat_load_dword v23, v[11:12]\n s_waitcnt vmcnt(1)\n v_add_u32 v20, vcc, v22, v20\n s_waitcnt vmcnt(0)\n v_add_u32 v21, vcc, v23, v21"

if __name__ == '__main__':
    def body(src):  # assemble snippet followed by s_endpgm (for the sanity assert in assemble) and drop that last instruction
        r = assemble('t', src + "\n s_endpgm\n")
        last = r['insts'].pop()
        r['hex'] = r['hex'][:-2 * last['size']]
        return r
    out = {'prologue': None, 'epilogue': assemble('epilogue', EPILOGUE), 'templates': {}}
    p = assemble('prologue', PROLOGUE)
    last = p['insts'].pop(); p['hex'] = p['hex'][:-2 * last['size']]
    out['prologue'] = p
    for n, src in T.items():
        out['templates'][n] = body(src)
    json.dump(out, open(os.path.join(os.path.dirname(os.path.abspath(__file__)), 'templates.json'), 'w'), indent=0)
    print(len(T), 'templates', 'prologue', len(p['hex']) // 2, 'epilogue', len(out['epilogue']['hex']) // 2)
