#!/usr/bin/env python3
"""Assembles the CU-level test kernels (GCN3, gfx803) with llvm-mc-14 and writes kernels.json next to this file.
Run at authoring time only; the checks embed kernels.json (committed) and do not need llvm-mc.
Register convention at dispatch (chosen by the harness' code-object metadata):
  s[0:1] kernarg ptr, s2 workgroup id x, v0 local id x (1-D work-groups, size = multiple of 64).
Kernarg: +0 in, +8 out, +16 mask (wgsize-1), +24 tmp, +32 in2, +40 out2."""
import subprocess, json, re, sys, os

PRO = """
  s_load_dwordx2 s[4:5], s[0:1], 0x8
  s_load_dword s6, s[0:1], 0x10
  s_mov_b32 m0, -1
"""
# v[lo:hi] = base(slo:shi) + 4*(wg*(mask+1)+idx) ; clobbers s7, vcc
def gaddr(lo, hi, slo, shi, idx='v0'):
    return f"""
  s_add_u32 s7, s6, 1
  s_mul_i32 s7, s7, s2
  v_add_u32 {lo}, vcc, s7, {idx}
  v_lshlrev_b32 {lo}, 2, {lo}
  v_mov_b32 {hi}, {shi}
  v_add_u32 {lo}, vcc, {slo}, {lo}
  v_addc_u32 {hi}, vcc, 0, {hi}, vcc
"""
K = {}
K['k1_lds_barrier'] = PRO + """
  v_lshlrev_b32 v3, 2, v0
  ds_write_b32 v3, v0
  s_waitcnt lgkmcnt(0)
  s_barrier
  v_add_u32 v4, vcc, 64, v0
  v_and_b32 v4, s6, v4
  v_lshlrev_b32 v5, 2, v4
  ds_read_b32 v6, v5
""" + gaddr('v7','v8','s4','s5') + """
  s_waitcnt lgkmcnt(0)
  flat_store_dword v[7:8], v6
  s_waitcnt vmcnt(0)
  s_endpgm
"""
K['k2_global_barrier'] = PRO + """
  s_load_dwordx2 s[8:9], s[0:1], 0x18
  s_waitcnt lgkmcnt(0)
""" + gaddr('v7','v8','s8','s9') + """
  flat_store_dword v[7:8], v0
  s_waitcnt vmcnt(0)
  s_barrier
  v_add_u32 v4, vcc, 64, v0
  v_and_b32 v4, s6, v4
""" + gaddr('v9','v10','s8','s9','v4') + """
  flat_load_dword v6, v[9:10]
""" + gaddr('v7','v8','s4','s5') + """
  s_waitcnt vmcnt(0)
  flat_store_dword v[7:8], v6
  s_waitcnt vmcnt(0)
  s_endpgm
"""
K['k3_two_barriers'] = PRO + """
  v_lshlrev_b32 v3, 2, v0
  ds_write_b32 v3, v0
  s_waitcnt lgkmcnt(0)
  s_barrier
  v_add_u32 v4, vcc, 64, v0
  v_and_b32 v4, s6, v4
  v_lshlrev_b32 v5, 2, v4
  ds_read_b32 v6, v5
  s_waitcnt lgkmcnt(0)
  s_barrier
  v_add_u32 v6, vcc, 1, v6
  ds_write_b32 v3, v6
  s_waitcnt lgkmcnt(0)
  s_barrier
  ds_read_b32 v11, v5
""" + gaddr('v7','v8','s4','s5') + """
  s_waitcnt lgkmcnt(0)
  flat_store_dword v[7:8], v11
  s_waitcnt vmcnt(0)
  s_endpgm
"""
K['k4_waitcnt_vm'] = PRO + """
  s_load_dwordx2 s[8:9], s[0:1], 0x0
  s_load_dwordx2 s[10:11], s[0:1], 0x20
  s_load_dwordx2 s[12:13], s[0:1], 0x28
  s_waitcnt lgkmcnt(0)
""" + gaddr('v9','v10','s8','s9') + gaddr('v11','v12','s10','s11') + gaddr('v7','v8','s4','s5') + gaddr('v13','v14','s12','s13') + """
  flat_load_dword v5, v[9:10]
  flat_load_dword v6, v[11:12]
  s_waitcnt vmcnt(1)
  flat_store_dword v[7:8], v5
  s_waitcnt vmcnt(1)
  flat_store_dword v[13:14], v6
  s_waitcnt vmcnt(0)
  s_endpgm
"""
K['k5_waitcnt_lgkm'] = PRO + """
  s_load_dwordx2 s[8:9], s[0:1], 0x0
  s_waitcnt lgkmcnt(0)
  s_load_dword s10, s[8:9], 0x4
  s_load_dword s11, s[8:9], 0x8
  s_waitcnt lgkmcnt(0)
  s_add_u32 s12, s10, s11
  v_add_u32 v6, vcc, s12, v0
""" + gaddr('v7','v8','s4','s5') + """
  flat_store_dword v[7:8], v6
  s_waitcnt vmcnt(0)
  s_endpgm
"""
K['k6_early_exit_before_barrier'] = PRO + """
  v_readfirstlane_b32 s14, v0
  s_lshr_b32 s14, s14, 6
  s_cmp_eq_u32 s14, 0
  s_cbranch_scc1 L_end
  v_lshlrev_b32 v3, 2, v0
  ds_write_b32 v3, v0
  s_waitcnt lgkmcnt(0)
  s_barrier
  v_add_u32 v4, vcc, 64, v0
  v_and_b32 v4, s6, v4
  v_lshlrev_b32 v5, 2, v4
  ds_read_b32 v6, v5
""" + gaddr('v7','v8','s4','s5') + """
  s_waitcnt lgkmcnt(0)
  flat_store_dword v[7:8], v6
  s_waitcnt vmcnt(0)
L_end:
  s_endpgm
"""
K['k7_late_exit_without_barrier'] = PRO + """
  s_load_dwordx2 s[8:9], s[0:1], 0x0
  v_readfirstlane_b32 s14, v0
  s_lshr_b32 s14, s14, 6
  s_cmp_eq_u32 s14, 0
  s_cbranch_scc0 L_others
  s_waitcnt lgkmcnt(0)
""" + gaddr('v9','v10','s8','s9') + """
  flat_load_dword v5, v[9:10]
  s_waitcnt vmcnt(0)
  v_add_u32 v5, vcc, 3, v5
""" + gaddr('v7','v8','s4','s5') + """
  flat_store_dword v[7:8], v5
  s_waitcnt vmcnt(0)
  s_endpgm
L_others:
  v_lshlrev_b32 v3, 2, v0
  ds_write_b32 v3, v0
  s_waitcnt lgkmcnt(0)
  s_barrier
  v_add_u32 v4, vcc, 64, v0
  v_and_b32 v4, s6, v4
  v_lshlrev_b32 v5, 2, v4
  ds_read_b32 v6, v5
""" + gaddr('v7','v8','s4','s5') + """
  s_waitcnt lgkmcnt(0)
  flat_store_dword v[7:8], v6
  s_waitcnt vmcnt(0)
  s_endpgm
"""
K['k8_store_then_endpgm'] = PRO + """
  s_waitcnt lgkmcnt(0)
""" + gaddr('v7','v8','s4','s5') + """
  v_add_u32 v6, vcc, 9, v0
  flat_store_dword v[7:8], v6
  s_endpgm
"""
K['k9_exit_with_pending_store_while_others_wait'] = PRO + """
  v_readfirstlane_b32 s14, v0
  s_lshr_b32 s14, s14, 6
  s_cmp_eq_u32 s14, 0
  s_cbranch_scc0 L_others
  s_waitcnt lgkmcnt(0)
""" + gaddr('v7','v8','s4','s5') + """
  v_add_u32 v6, vcc, 9, v0
  flat_store_dword v[7:8], v6
  s_endpgm
L_others:
  v_lshlrev_b32 v3, 2, v0
  ds_write_b32 v3, v0
  s_waitcnt lgkmcnt(0)
  s_barrier
  v_add_u32 v4, vcc, 64, v0
  v_and_b32 v4, s6, v4
  v_lshlrev_b32 v5, 2, v4
  ds_read_b32 v6, v5
""" + gaddr('v7','v8','s4','s5') + """
  s_waitcnt lgkmcnt(0)
  flat_store_dword v[7:8], v6
  s_waitcnt vmcnt(0)
  s_endpgm
"""

K['k10_many_scalar_loads'] = PRO + """
  s_load_dwordx2 s[8:9], s[0:1], 0x0
  s_waitcnt lgkmcnt(0)
  s_load_dword s10, s[8:9], 0x4
  s_load_dword s11, s[8:9], 0x8
  s_load_dword s12, s[8:9], 0xc
  s_load_dword s13, s[8:9], 0x10
  s_load_dword s14, s[8:9], 0x14
  s_load_dword s15, s[8:9], 0x18
  s_waitcnt lgkmcnt(0)
  s_add_u32 s16, s10, s11
  s_add_u32 s16, s16, s12
  s_add_u32 s16, s16, s13
  s_add_u32 s16, s16, s14
  s_add_u32 s16, s16, s15
  v_add_u32 v6, vcc, s16, v0
""" + gaddr('v7','v8','s4','s5') + """
  flat_store_dword v[7:8], v6
  s_waitcnt vmcnt(0)
  s_endpgm
"""
K['k11_many_stores'] = PRO + """
  s_load_dwordx2 s[8:9], s[0:1], 0x18
  s_load_dwordx2 s[12:13], s[0:1], 0x28
  s_waitcnt lgkmcnt(0)
""" + gaddr('v7','v8','s4','s5') + gaddr('v9','v10','s8','s9') + gaddr('v13','v14','s12','s13') + """
  v_add_u32 v4, vcc, 1, v0
  v_add_u32 v5, vcc, 2, v0
  v_add_u32 v6, vcc, 3, v0
  flat_store_dword v[7:8], v4
  flat_store_dword v[9:10], v5
  flat_store_dword v[13:14], v6
  s_waitcnt vmcnt(1)
  flat_store_dword v[7:8], v6
  s_waitcnt vmcnt(0)
  s_endpgm
"""

K['k12_register_signature_survives_neighbour_exit'] = PRO + """
  s_load_dwordx2 s[8:9], s[0:1], 0x0
  v_readfirstlane_b32 s14, v0
  s_lshr_b32 s14, s14, 6
  s_add_u32 s20, s14, 0x1100
  s_add_u32 s21, s14, 0x2200
  s_add_u32 s22, s14, 0x3300
  s_add_u32 s23, s14, 0x4400
  s_add_u32 s24, s14, 0x5500
  s_add_u32 s25, s14, 0x6600
  s_add_u32 s26, s14, 0x7700
  s_add_u32 s27, s14, 0x8800
  v_add_u32 v10, vcc, 0x10, v0
  v_add_u32 v11, vcc, 0x20, v0
  v_add_u32 v12, vcc, 0x30, v0
  v_add_u32 v13, vcc, 0x40, v0
  v_add_u32 v14, vcc, 0x50, v0
  v_add_u32 v15, vcc, 0x60, v0
  v_add_u32 v16, vcc, 0x70, v0
  v_add_u32 v17, vcc, 0x80, v0
  s_cmp_eq_u32 s14, 0
  s_cbranch_scc1 L_end
  s_waitcnt lgkmcnt(0)
""" + gaddr('v18','v19','s8','s9') + """
  flat_load_dword v5, v[18:19]
  s_waitcnt vmcnt(0)
  flat_load_dword v5, v[18:19]
  s_waitcnt vmcnt(0)
  s_xor_b32 s28, s20, s21
  s_xor_b32 s28, s28, s22
  s_xor_b32 s28, s28, s23
  s_xor_b32 s28, s28, s24
  s_xor_b32 s28, s28, s25
  s_xor_b32 s28, s28, s26
  s_xor_b32 s28, s28, s27
  v_add_u32 v6, vcc, v10, v11
  v_add_u32 v6, vcc, v6, v12
  v_add_u32 v6, vcc, v6, v13
  v_add_u32 v6, vcc, v6, v14
  v_add_u32 v6, vcc, v6, v15
  v_add_u32 v6, vcc, v6, v16
  v_add_u32 v6, vcc, v6, v17
  v_add_u32 v6, vcc, s28, v6
  v_add_u32 v6, vcc, v6, v5
""" + gaddr('v7','v8','s4','s5') + """
  flat_store_dword v[7:8], v6
  s_waitcnt vmcnt(0)
L_end:
  s_endpgm
"""

K['k13_gather_sparse_then_dense_line'] = PRO + """
  s_load_dwordx2 s[8:9], s[0:1], 0x0
  v_and_b32 v4, 63, v0
  v_lshlrev_b32 v5, 6, v4
  v_lshlrev_b32 v9, 2, v4
  v_add_u32 v9, vcc, 0x780, v9
  v_cmp_gt_u32 vcc, 32, v4
  v_cndmask_b32 v5, v9, v5, vcc
  s_waitcnt lgkmcnt(0)
  v_add_u32 v10, vcc, s8, v5
  v_mov_b32 v11, s9
  v_addc_u32 v11, vcc, 0, v11, vcc
  flat_load_dword v6, v[10:11]
  s_waitcnt vmcnt(0)
""" + gaddr('v7','v8','s4','s5') + """
  flat_store_dword v[7:8], v6
  s_waitcnt vmcnt(0)
  s_endpgm
"""

K['k14_unawaited_scalar_load_into_wg_id_register'] = """
  s_cmp_eq_u32 s2, 0
  s_cbranch_scc0 L_B
  s_load_dword s2, s[0:1], 0x10
  s_endpgm
L_B:
""" + PRO + """
  s_waitcnt lgkmcnt(0)
""" + gaddr('v7','v8','s4','s5') + """
  v_add_u32 v6, vcc, 9, v0
  flat_store_dword v[7:8], v6
  s_waitcnt vmcnt(0)
  s_endpgm
"""

# vector memory instructions executed with EXEC = 0 (no lane, no transaction), then a real load whose value is
# consumed behind s_waitcnt: the wait counters must balance although nothing was issued for the masked ones
K['k17_fully_masked_load_and_store_then_real_load'] = PRO + """
  s_load_dwordx2 s[8:9], s[0:1], 0x0
  s_waitcnt lgkmcnt(0)
""" + gaddr('v9','v10','s8','s9') + gaddr('v7','v8','s4','s5') + """
  s_mov_b64 s[14:15], exec
  s_mov_b64 exec, 0
  flat_load_dword v5, v[9:10]
  flat_store_dword v[7:8], v0
  s_mov_b64 exec, s[14:15]
  flat_load_dword v5, v[9:10]
  s_waitcnt vmcnt(0)
  v_add_u32 v6, vcc, 5, v5
  flat_store_dword v[7:8], v6
  s_waitcnt vmcnt(0)
  s_endpgm
"""

# a load and a younger store in flight together, waited for with vmcnt(1): the older access (the load) must have
# returned when the wait completes, whichever of the two the memory hierarchy could answer first. The first store
# warms the store's line and translation, so that on a real platform the second store is acknowledged quickly
# while the load goes all the way to DRAM.
K['k18_cold_load_then_warm_store_wait_vmcnt1'] = PRO + """
  s_load_dwordx2 s[8:9], s[0:1], 0x0
  s_load_dwordx2 s[12:13], s[0:1], 0x28
  s_waitcnt lgkmcnt(0)
""" + gaddr('v9','v10','s8','s9') + gaddr('v7','v8','s4','s5') + gaddr('v13','v14','s12','s13') + """
  flat_store_dword v[13:14], v0
  s_waitcnt vmcnt(0)
  flat_load_dword v5, v[9:10]
  flat_store_dword v[13:14], v0
  s_waitcnt vmcnt(1)
  v_add_u32 v6, vcc, 3, v5
  flat_store_dword v[7:8], v6
  s_waitcnt vmcnt(0)
  s_endpgm
"""

# work-groups with an even id meet at a barrier; work-groups with an odd id, resident on the other SIMDs of the same
# compute unit, issue a long run of s_nop (one scheduler-evaluated instruction per cycle and wavefront) meanwhile, so
# that whenever the barrier is released the scheduler is evaluating other work-groups' instructions in the same cycle
K['k19_barrier_release_while_neighbour_groups_issue_nops'] = PRO + """
  s_waitcnt lgkmcnt(0)
  s_and_b32 s7, s2, 1
  s_cmp_eq_u32 s7, 0
  s_cbranch_scc1 L_EVEN
""" + "  s_nop 0\n" * 160 + """
  s_branch L_STORE
L_EVEN:
  v_lshlrev_b32 v3, 2, v0
  ds_write_b32 v3, v0
  s_waitcnt lgkmcnt(0)
  s_barrier
  s_nop 0
  s_barrier
L_STORE:
""" + gaddr('v7','v8','s4','s5') + """
  v_add_u32 v6, vcc, 9, v0
  flat_store_dword v[7:8], v6
  s_waitcnt vmcnt(0)
  s_endpgm
"""

K['k15_uncoalesced_64_lines_per_load'] = PRO + """
  s_load_dwordx2 s[8:9], s[0:1], 0x0
  v_and_b32 v4, 63, v0
  v_lshlrev_b32 v5, 6, v4
  s_waitcnt lgkmcnt(0)
  v_add_u32 v10, vcc, s8, v5
  v_mov_b32 v11, s9
  v_addc_u32 v11, vcc, 0, v11, vcc
  flat_load_dword v6, v[10:11]
  s_waitcnt vmcnt(0)
""" + gaddr('v7','v8','s4','s5') + """
  flat_store_dword v[7:8], v6
  s_waitcnt vmcnt(0)
  s_endpgm
"""

# platform-level kernel (launched through the driver, not in the CU world): 3-D work-groups of 4 x 4 x Z, one
# work-group; out[z*16 + y*4 + x] = x | y << 8 | z << 16 from the hardware-initialised work-item ids v0, v1, v2
K['p1_workitem_ids_3d_4x4xZ'] = """
  s_load_dwordx2 s[4:5], s[0:1], 0x8
  v_lshlrev_b32 v3, 2, v1
  v_add_u32 v3, vcc, v3, v0
  v_lshlrev_b32 v4, 4, v2
  v_add_u32 v3, vcc, v3, v4
  v_lshlrev_b32 v3, 2, v3
  v_lshlrev_b32 v5, 8, v1
  v_or_b32 v5, v5, v0
  v_lshlrev_b32 v6, 16, v2
  v_or_b32 v5, v5, v6
  s_waitcnt lgkmcnt(0)
  v_add_u32 v7, vcc, s4, v3
  v_mov_b32 v8, s5
  v_addc_u32 v8, vcc, 0, v8, vcc
  flat_store_dword v[7:8], v5
  s_waitcnt vmcnt(0)
  s_endpgm
"""

K['k16_vcc_pair_then_vcc_halves'] = PRO + """
  s_mov_b32 s20, 0x11111111
  s_mov_b32 s21, 0x22222222
  s_mov_b64 vcc, s[20:21]
  s_mov_b32 vcc_lo, 0x44444444
  s_mov_b64 s[22:23], vcc
  s_mov_b32 vcc_hi, 0x08080808
  s_mov_b64 s[24:25], vcc
  s_xor_b32 s26, s22, s23
  s_xor_b32 s26, s26, s24
  s_add_u32 s26, s26, s25
  s_waitcnt lgkmcnt(0)
  v_add_u32 v6, vcc, s26, v0
""" + gaddr('v7','v8','s4','s5') + """
  flat_store_dword v[7:8], v6
  s_waitcnt vmcnt(0)
  s_endpgm
"""

def assemble(name, src, mcpu='gfx803'):
    p = subprocess.run(['llvm-mc-14', '-arch=amdgcn', '-mcpu=' + mcpu, '-show-encoding'], input=src, capture_output=True, text=True)
    if p.returncode != 0 or 'error' in p.stderr:
        print(name, p.stderr); sys.exit(1)
    obj = '/tmp/_k_%d.o' % os.getpid()
    q = subprocess.run(['llvm-mc-14', '-arch=amdgcn', '-mcpu=' + mcpu, '-filetype=obj', '-o', obj], input=src, capture_output=True, text=True)
    assert q.returncode == 0, q.stderr
    d = subprocess.run(['llvm-objdump-14', '-d', '--mcpu=' + mcpu, obj], capture_output=True, text=True).stdout
    os.remove(obj)
    insts, code = [], b''
    for line in d.splitlines():
        m = re.match(r'^\s+(\S.*?)\s+//\s+([0-9A-F]+):\s+((?:[0-9A-F]{8}\s*)+)$', line)
        if m:
            words = m.group(3).split()
            b = b''.join(int(w, 16).to_bytes(4, 'little') for w in words)
            insts.append({'pc': int(m.group(2), 16), 'asm': ' '.join(m.group(1).split()), 'size': len(b)})
            code += b
    assert insts and insts[-1]['asm'].startswith('s_endpgm'), (name, insts[-3:])
    return {'hex': code.hex(), 'insts': insts}

if __name__ == '__main__':
    out = {}
    extra = os.path.join(os.path.dirname(os.path.abspath(__file__)), 'extra_kernels.py')
    if os.path.exists(extra):
        ns = {'PRO': PRO, 'gaddr': gaddr}
        exec(open(extra).read(), ns)
        K.update(ns.get('K', {}))
    for name, src in K.items():
        out[name] = assemble(name, src)
        print(name, len(out[name]['hex']) // 2, 'bytes', len(out[name]['insts']), 'instructions')
    json.dump(out, open(os.path.join(os.path.dirname(os.path.abspath(__file__)), 'kernels.json'), 'w'), indent=0)
