// Package cuworld closes one real compute unit (timing cu.ComputeUnit or the
// functional emu.ComputeUnit) with an environment that plays the dispatcher
// and the instruction / scalar / vector memories over one flat byte array.
// It serves C14 (barriers, wait counts, termination) and the CU-level layer
// of C02 (timing == emulation).
package cuworld

import (
	_ "embed"
	"encoding/binary"
	"encoding/hex"
	"encoding/json"
	"fmt"
	"sort"
	"strings"

	"github.com/sarchlab/akita/v4/mem/mem"
	"github.com/sarchlab/akita/v4/mem/vm"
	"github.com/sarchlab/akita/v4/sim"
	"github.com/sarchlab/akita/v4/tracing"
	"github.com/sarchlab/mgpusim/v4/amd/emu"
	"github.com/sarchlab/mgpusim/v4/amd/insts"
	"github.com/sarchlab/mgpusim/v4/amd/kernels"
	"github.com/sarchlab/mgpusim/v4/amd/protocol"
	"github.com/sarchlab/mgpusim/v4/amd/timing/cu"
	"github.com/sarchlab/mgpusim/v4/amd/timing/wavefront"

	"verif/mc/explore"
	"verif/mc/world"
)

// Memory map of the flat environment memory.
const (
	Kernarg = 0x2000
	In      = 0x3000
	In2     = 0x5000
	Out     = 0x7000
	Out2    = 0x9000
	Tmp     = 0xB000
	Out3    = 0xD000
	Out4    = 0xE000
	Code    = 0x10000
	MemSize = 0x12000
)

// InstInfo is one instruction of an assembled kernel.
type InstInfo struct {
	PC   uint64 `json:"pc"`
	Asm  string `json:"asm"`
	Size int    `json:"size"`
}

// Kernel is an assembled test kernel.
type Kernel struct {
	Name  string
	Code  []byte
	Insts []InstInfo
}

//go:embed kernels/kernels.json
var kernelsJSON []byte

//go:embed kernels/templates.json
var templatesJSON []byte

type snippet struct {
	Hex   string     `json:"hex"`
	Insts []InstInfo `json:"insts"`
}

// Templates are the assembled snippets for generated straight-line kernels.
type Templates struct {
	Prologue, Epilogue snippet
	T                  map[string]snippet
	Names              []string
}

// LoadTemplates returns the templates (kernels/templates.json, produced by kernels/templates.py).
func LoadTemplates() *Templates {
	var raw struct {
		Prologue  snippet            `json:"prologue"`
		Epilogue  snippet            `json:"epilogue"`
		Templates map[string]snippet `json:"templates"`
	}
	if err := json.Unmarshal(templatesJSON, &raw); err != nil {
		panic(err)
	}
	t := &Templates{Prologue: raw.Prologue, Epilogue: raw.Epilogue, T: raw.Templates}
	for n := range raw.Templates {
		t.Names = append(t.Names, n)
	}
	sort.Strings(t.Names)
	return t
}

// Program concatenates prologue, the named templates and the epilogue.
func (t *Templates) Program(seq []string) *Kernel {
	k := &Kernel{Name: strings.Join(seq, "+")}
	add := func(s snippet) {
		b, err := hex.DecodeString(s.Hex)
		if err != nil {
			panic(err)
		}
		base := uint64(len(k.Code))
		for _, in := range s.Insts {
			k.Insts = append(k.Insts, InstInfo{PC: base + in.PC, Asm: in.Asm, Size: in.Size})
		}
		k.Code = append(k.Code, b...)
	}
	add(t.Prologue)
	for _, n := range seq {
		s, ok := t.T[n]
		if !ok {
			panic("unknown template " + n)
		}
		add(s)
	}
	add(t.Epilogue)
	return k
}

// LoadKernels returns the assembled kernels (kernels/kernels.json, produced by kernels/gen.py with llvm-mc).
func LoadKernels(dir string) map[string]*Kernel {
	data := kernelsJSON
	var raw map[string]struct {
		Hex   string     `json:"hex"`
		Insts []InstInfo `json:"insts"`
	}
	if err := json.Unmarshal(data, &raw); err != nil {
		panic(err)
	}
	out := map[string]*Kernel{}
	for n, r := range raw {
		b, err := hex.DecodeString(r.Hex)
		if err != nil {
			panic(err)
		}
		out[n] = &Kernel{Name: n, Code: b, Insts: r.Insts}
	}
	return out
}

// Geometry of a 1-D launch.
type Geometry struct {
	WGSize int // work-items per work-group (multiple of 64, power of two)
	NumWG  int
}

// InitialMemory builds the flat memory image for a kernel and geometry.
func InitialMemory(k *Kernel, g Geometry) []byte {
	m := make([]byte, MemSize)
	le := binary.LittleEndian
	le.PutUint64(m[Kernarg+0:], In)
	le.PutUint64(m[Kernarg+8:], Out)
	le.PutUint32(m[Kernarg+16:], uint32(g.WGSize-1))
	le.PutUint64(m[Kernarg+24:], Tmp)
	le.PutUint64(m[Kernarg+32:], In2)
	le.PutUint64(m[Kernarg+40:], Out2)
	le.PutUint64(m[Kernarg+48:], Out3)
	le.PutUint64(m[Kernarg+56:], Out4)
	for i := 0; i < 0x400; i++ {
		le.PutUint32(m[Out3+4*i:], 0x0ddd0000+uint32(i))
		le.PutUint32(m[Out4+4*i:], 0x0eee0000+uint32(i))
	}
	for i := 0; i < 0x800; i++ {
		le.PutUint32(m[In+4*i:], uint32(1000+3*i))
		le.PutUint32(m[In2+4*i:], uint32(7*i+5))
		le.PutUint32(m[Out+4*i:], 0xdead0000+uint32(i))
		le.PutUint32(m[Out2+4*i:], 0xbeef0000+uint32(i))
		le.PutUint32(m[Tmp+4*i:], 0xcafe0000+uint32(i))
	}
	copy(m[Code:], k.Code)
	return m
}

func codeObject(k *Kernel, g Geometry) (*insts.KernelCodeObject, *kernels.HsaKernelDispatchPacket) {
	meta := &insts.KernelCodeObjectMeta{}
	meta.EnableSgprKernargSegmentPtr = true
	meta.ComputePgmRsrc2 = 1 << 7 // workgroup id x
	meta.WFSgprCount = 64
	meta.WIVgprCount = 32
	meta.GroupSegmentByteSize = uint32(ldsBytes(g))
	meta.KernargSegmentByteSize = 64
	meta.KernelCodeEntryByteOffset = 0
	co := &insts.KernelCodeObject{KernelCodeObjectMeta: meta, Data: k.Code}
	pkt := &kernels.HsaKernelDispatchPacket{
		WorkgroupSizeX: uint16(g.WGSize), WorkgroupSizeY: 1, WorkgroupSizeZ: 1,
		GridSizeX: uint32(g.WGSize * g.NumWG), GridSizeY: 1, GridSizeZ: 1,
		GroupSegmentSize: uint32(ldsBytes(g)),
		KernelObject:     Code,
		KernargAddress:   Kernarg,
	}
	return co, pkt
}

func ldsBytes(g Geometry) int { return 16*g.WGSize + 64 }

func workGroups(k *Kernel, g Geometry) []*kernels.WorkGroup {
	co, pkt := codeObject(k, g)
	gb := kernels.NewGridBuilder()
	gb.SetKernel(kernels.KernelLaunchInfo{CodeObject: co, Packet: pkt, PacketAddr: 0x1000})
	var wgs []*kernels.WorkGroup
	for i := 0; i < gb.NumWG(); i++ {
		wgs = append(wgs, gb.NextWG())
	}
	return wgs
}

// Event is one instruction issue / completion observed on the timing CU.
type Event struct {
	Cycle    int
	WG, WF   int // work-group index, wavefront index within the group
	PC       uint64
	Name     string
	Start    bool
	Seq      int // position in the wavefront's instruction sequence
	taskID   string
}

// Result of one run.
type Result struct {
	Mem         []byte
	PCs         map[[2]int][]uint64 // (wg, wf) -> executed PCs in order
	Events      []Event
	Completions map[int][]int // wg -> cycles of WGCompletionMsg
	Quiet       bool
	Panic       string
	// port-level bookkeeping for the termination rule
	VecOutstandingAtEnd map[[2]int]int // at s_endpgm completion: unanswered vector transactions of that wavefront
	Viol                *explore.Violation
}

type fakeP struct {
	sim.Port
	n sim.RemotePort
}

func (f fakeP) AsRemote() sim.RemotePort { return f.n }

// TimingOpts are the knobs of the timing CU and of the environment.
type TimingOpts struct {
	Scoreboard bool
	CDNA3      bool
	Resident   int   // work-groups mapped at once (1 or 2)
	Delays     []int // delay alphabet for memory answers
	// NoAddrAttribution turns off the per-wavefront attribution of data addresses (one dword per work-item in
	// every buffer), which only the C14 kernels guarantee; generated programs may use other strides.
	NoAddrAttribution bool
	// NoReadAttribution: only vector WRITES are attributed to wavefronts by address (kernels whose wavefronts all
	// read the same input lines, e.g. gathers; every wavefront still writes only its own work-items' slots).
	NoReadAttribution bool
	// SlowScalar/SlowVector/SlowInst > 0: that memory takes one request per so many cycles (sustained
	// back-pressure: the CU's port buffer and the unit's own queues fill). Horizon overrides the cycle horizon.
	SlowScalar, SlowVector, SlowInst int
	// SlowACE > 0: the dispatcher takes one message (work-group completion) per so many cycles, so that the
	// CU's 4-entry outgoing buffer towards it fills while further work-groups finish.
	SlowACE int
	Horizon int
	// WarmSGPRs/WarmVGPRs > 0: launch history. Before the kernel, a one-wavefront work-group of a kernel that
	// consists of s_endpgm only and declares that many scalar / vector registers runs to completion on the same
	// CU (state that a CU keeps across kernels - scratch buffers, pools, allocation cursors - is then not fresh).
	WarmSGPRs, WarmVGPRs int
	// Before != nil: launch history with a whole kernel. The kernel Before runs to completion with geometry
	// BeforeGeo on the same CU first (its own code address and kernel arguments); the environment then restores
	// the data buffers, so that the kernel under test starts from the usual memory but from a CU that has state
	// left by another kernel (pools, caches, scratch buffers, LDS, allocation cursors).
	Before    *Kernel
	BeforeGeo Geometry
	// MI300AKnobs: the compute-unit parameters of the mi300a timing platform instead of the builder's defaults
	// (wavefront pool 8, vector-memory instruction pipeline 2 stages, transaction pipeline 4 stages x 8 wide,
	// memory pipeline buffer 64, coalescing penalty 3 cycles for sparsely used read lines). Timing parameters may
	// change simulated time only.
	MI300AKnobs bool
	// CoalescingPenalty > 0 alone: only that parameter on top of the defaults.
	CoalescingPenalty int
	// TransPipelineWidth > 0 alone: the width of the vector-memory transaction pipeline on top of the defaults.
	TransPipelineWidth int
}

type taskHook struct{ f func(ctx sim.HookCtx) }

func (h taskHook) Func(ctx sim.HookCtx) { h.f(ctx) }

// RunTiming executes the kernel on a real timing CU under the explorer.
func RunTiming(x *explore.Exec, k *Kernel, g Geometry, o TimingOpts) (res *Result) {
	res = &Result{PCs: map[[2]int][]uint64{}, Completions: map[int][]int{}, VecOutstandingAtEnd: map[[2]int]int{}}
	defer func() {
		if r := recover(); r != nil {
			if fmt.Sprintf("%T", r) == "explore.infraError" {
				panic(r)
			}
			res.Panic = fmt.Sprint(r)
		}
	}()
	f2k := map[string][2]int{}
	hz := 6000
	if o.Horizon > 0 {
		hz = o.Horizon
	}
	w := world.New(x, hz)
	w.MaxEvts = 400000
	memory := InitialMemory(k, g)
	const ace, imem, smem, vmem = sim.RemotePort("Env.ACE"), sim.RemotePort("Env.IMem"), sim.RemotePort("Env.SMem"), sim.RemotePort("Env.VMem")
	b := cu.MakeBuilder().WithEngine(w.Engine).WithFreq(w.Freq).
		WithInstMem(fakeP{n: imem}).WithScalarMem(fakeP{n: smem}).
		WithVectorMemModules(&mem.SinglePortMapper{Port: vmem}).
		WithRegisterScoreboard(o.Scoreboard)
	if o.MI300AKnobs {
		b = b.WithWfPoolSize(8).WithVecMemInstPipelineStages(2).WithVecMemTransPipelineStages(4).WithVecMemTransPipelineWidth(8).
			WithMemPipelineBufferSize(64).WithMaxCoalescingPenalty(3)
	}
	if o.CoalescingPenalty > 0 {
		b = b.WithMaxCoalescingPenalty(o.CoalescingPenalty)
	}
	if o.TransPipelineWidth > 0 {
		b = b.WithVecMemTransPipelineWidth(o.TransPipelineWidth)
	}
	c := b.Build("CU")
	toACE, toI, toS, toV := c.ToACE, c.ToInstMem, c.ToScalarMem, c.ToVectorMem
	w.NewWire("wire", toACE, toI, toS, toV, c.ToCP)

	wgs := workGroups(k, g)
	wgIndex := map[*kernels.WorkGroup]int{}
	wfIndex := map[string][2]int{} // raw wavefront UID -> (wg, wf)
	for i, wg := range wgs {
		wgIndex[wg] = i
		for j, wf := range wg.Wavefronts {
			wfIndex[wf.UID] = [2]int{i, j}
		}
	}
	names := map[uint64]string{}
	for _, in := range k.Insts {
		names[Code+in.PC] = strings.Fields(in.Asm)[0]
	}

	// ---- trace hook on the CU
	open := map[string]int{} // task id -> index of start event
	seq := map[[2]int]int{}
	ended := map[[2]int]bool{}
	vecOutstanding := map[[2]int]int{}
	c.AcceptHook(taskHook{func(ctx sim.HookCtx) {
		t, ok := ctx.Item.(tracing.Task)
		if !ok {
			return
		}
		switch ctx.Pos {
		case tracing.HookPosTaskStart:
			if t.Kind != "inst" {
				return
			}
			d := t.Detail.(map[string]interface{})
			twf := d["wf"].(*wavefront.Wavefront)
			key, known := wfIndex[twf.Wavefront.UID]
			if !known {
				return // the warm-up wavefront
			}
			pc := twf.PC()
			ev := Event{Cycle: w.Cycle(), WG: key[0], WF: key[1], PC: pc - Code, Name: names[pc], Start: true, Seq: seq[key], taskID: t.ID}
			seq[key]++
			open[t.ID] = len(res.Events)
			res.Events = append(res.Events, ev)
			res.PCs[key] = append(res.PCs[key], pc-Code)
		case tracing.HookPosTaskEnd:
			i, ok := open[t.ID]
			if !ok {
				return
			}
			delete(open, t.ID)
			s := res.Events[i]
			ev := s
			ev.Cycle, ev.Start = w.Cycle(), false
			res.Events = append(res.Events, ev)
			if s.Name == "s_endpgm" {
				key := [2]int{s.WG, s.WF}
				ended[key] = true
				res.VecOutstandingAtEnd[key] = vecOutstanding[key]
			}
		}
	}})

	// which wavefront does a data address belong to? one dword per work-item in every buffer
	wfOfAddr := func(a uint64) ([2]int, bool) {
		if o.NoAddrAttribution {
			return [2]int{}, false
		}
		for _, base := range []uint64{In, In2, Out, Out2, Tmp, Out3, Out4} {
			lim := uint64(0x2000)
			if base >= Out3 {
				lim = 0x1000
			}
			if a >= base && a < base+lim {
				gid := int(a-base) / 4
				return [2]int{gid / g.WGSize, gid % g.WGSize / 64}, true
			}
		}
		return [2]int{}, false
	}

	var viol *explore.Violation
	fail := func(sig, f string, a ...any) {
		if viol == nil {
			viol = explore.Viol(sig, f, a...)
		}
	}
	delays := o.Delays
	// ---- memories: in-order per port (the shader array puts a reorder buffer on each of the three paths)
	mkMem := func(port sim.Port, tag string, self sim.RemotePort, vector bool) (*world.Sink, *world.Feeder) {
		f := &world.Feeder{W: w, Port: port, Tag: tag, DelayAlphabet: delays}
		s := &world.Sink{W: w, Port: port, Tag: tag, StallAlphabet: []int{2}}
		f.OnDeliver = func(m sim.Msg) {
			if !vector {
				return
			}
			if key, ok := f2k[m.(mem.AccessRsp).GetRspTo()]; ok {
				vecOutstanding[key]--
			}
		}
		s.Handle = func(m sim.Msg) {
			switch r := m.(type) {
			case *mem.ReadReq:
				if r.Address+r.AccessByteSize > MemSize {
					fail("memory-access-out-of-range", "%s read %x+%d", tag, r.Address, r.AccessByteSize)
					return
				}
				data := append([]byte{}, memory[r.Address:r.Address+r.AccessByteSize]...)
				if vector && !o.NoReadAttribution {
					if key, ok := wfOfAddr(r.Address); ok {
						vecOutstanding[key]++
						f2k[r.ID] = key
					}
				}
				f.Add(mem.DataReadyRspBuilder{}.WithSrc(self).WithDst(port.AsRemote()).WithRspTo(r.ID).WithData(data).Build(), true)
			case *mem.WriteReq:
				if r.Address+uint64(len(r.Data)) > MemSize {
					fail("memory-access-out-of-range", "%s write %x+%d", tag, r.Address, len(r.Data))
					return
				}
				for j, bt := range r.Data {
					if r.DirtyMask == nil || r.DirtyMask[j] {
						memory[int(r.Address)+j] = bt
					}
				}
				if key, ok := wfOfAddr(r.Address); ok {
					vecOutstanding[key]++
					f2k[r.ID] = key
					if ended[key] {
						fail("memory-write-after-wavefront-ended", "wavefront %v wrote %x after its s_endpgm completed", key, r.Address)
					}
				}
				f.Add(mem.WriteDoneRspBuilder{}.WithSrc(self).WithDst(port.AsRemote()).WithRspTo(r.ID).Build(), true)
			default:
				fail("memory-port-unexpected-message", "%s: %T", tag, m)
			}
		}
		return s, f
	}
	iS, iF := mkMem(toI, "imem", imem, false)
	iS.NoChoice = true
	iF.DelayAlphabet = nil
	sS, sF := mkMem(toS, "smem", smem, false)
	vS, vF := mkMem(toV, "vmem", vmem, true)
	iS.Every, sS.Every, vS.Every = o.SlowInst, o.SlowScalar, o.SlowVector

	// ---- dispatcher
	aceF := &world.Feeder{W: w, Port: toACE, Tag: "ace"}
	next := 0
	running := 0
	doneWG := map[int]bool{}
	mapIDs := map[string]int{}
	// launch history: the warm-up work-group(s) go first and must complete before the kernel's first work-group
	warmIDs, warmLeft := map[string]bool{}, 0
	if o.WarmSGPRs+o.WarmVGPRs > 0 {
		wco, wpkt := codeObject(k, Geometry{WGSize: 64, NumWG: 1})
		wco.WFSgprCount, wco.WIVgprCount = uint16(o.WarmSGPRs), uint16(o.WarmVGPRs)
		wco.GroupSegmentByteSize, wpkt.GroupSegmentSize = 0, 0
		wpkt.KernelObject = Code + k.Insts[len(k.Insts)-1].PC // the final s_endpgm
		gb := kernels.NewGridBuilder()
		gb.SetKernel(kernels.KernelLaunchInfo{CodeObject: wco, Packet: wpkt, PacketAddr: 0x1800})
		wwg := gb.NextWG()
		req := protocol.MapWGReqBuilder{}.WithSrc(ace).WithDst(toACE.AsRemote()).WithPID(1).WithWG(wwg).
			AddWf(protocol.WfDispatchLocation{Wavefront: wwg.Wavefronts[0], SIMDID: 0}).Build()
		warmIDs[req.ID] = true
		warmLeft++
		aceF.Add(req, false)
	}
	const beforeCode, beforeKernarg = Code + 0x1800, Kernarg + 0x800
	pristine := append([]byte{}, memory[:Code]...) // without the preceding kernel's arguments
	if o.Before != nil {
		bg := o.BeforeGeo
		copy(memory[beforeCode:], o.Before.Code)
		copy(memory[beforeKernarg:beforeKernarg+64], memory[Kernarg:Kernarg+64])
		binary.LittleEndian.PutUint32(memory[beforeKernarg+16:], uint32(bg.WGSize-1))
		bco, bpkt := codeObject(o.Before, bg)
		bpkt.KernelObject, bpkt.KernargAddress = beforeCode, beforeKernarg
		gb := kernels.NewGridBuilder()
		gb.SetKernel(kernels.KernelLaunchInfo{CodeObject: bco, Packet: bpkt, PacketAddr: 0x1900})
		for i := 0; i < gb.NumWG(); i++ {
			wg := gb.NextWG()
			rb := protocol.MapWGReqBuilder{}.WithSrc(ace).WithDst(toACE.AsRemote()).WithPID(1).WithWG(wg)
			for j, wf := range wg.Wavefronts {
				n := i*len(wg.Wavefronts) + j
				rb = rb.AddWf(protocol.WfDispatchLocation{Wavefront: wf, SIMDID: n % 4, SGPROffset: n * 64 * 4, VGPROffset: (n / 4) * 32 * 4, LDSOffset: i * ldsBytes(bg)})
			}
			req := rb.Build()
			warmIDs[req.ID] = true
			warmLeft++
			aceF.Add(req, false)
		}
	}
	warmDone := warmLeft == 0
	// register / LDS slots of the resident work-groups: a slot is free again when ITS work-group has completed
	// (work-groups need not complete in the order they were mapped)
	slotBusy := make([]bool, o.Resident)
	slotOf := map[int]int{}
	mapNext := func() {
		for warmDone && next < len(wgs) && running < o.Resident {
			wg := wgs[next]
			rb := protocol.MapWGReqBuilder{}.WithSrc(ace).WithDst(toACE.AsRemote()).WithPID(1).WithWG(wg)
			slot := 0
			for slotBusy[slot] {
				slot++
			}
			slotBusy[slot], slotOf[next] = true, slot
			for j, wf := range wg.Wavefronts {
				n := slot*len(wg.Wavefronts) + j
				rb = rb.AddWf(protocol.WfDispatchLocation{Wavefront: wf, SIMDID: n % 4, SGPROffset: n * 64 * 4, VGPROffset: (n / 4) * 32 * 4, LDSOffset: slot * ldsBytes(g)})
			}
			req := rb.Build()
			mapIDs[req.ID] = next
			aceF.Add(req, false)
			next++
			running++
		}
	}
	aceS := &world.Sink{W: w, Port: toACE, Tag: "ace", StallAlphabet: []int{1, 5}, Every: o.SlowACE}
	aceS.Handle = func(m sim.Msg) {
		cmsg, ok := m.(*protocol.WGCompletionMsg)
		if !ok {
			fail("dispatch-port-unexpected-message", "%T", m)
			return
		}
		for _, id := range cmsg.RspTo {
			if warmIDs[id] {
				delete(warmIDs, id)
				warmLeft--
				if warmLeft == 0 {
					warmDone = true
					copy(memory[:Code], pristine) // the kernel under test starts from the usual data
				}
				continue
			}
			i, ok := mapIDs[id]
			if !ok {
				fail("completion-for-unknown-request", "%s", id)
				continue
			}
			doneWG[i] = true
			running--
			slotBusy[slotOf[i]] = false
		}
	}
	world.OnSend(toACE, func(m sim.Msg) {
		cmsg, ok := m.(*protocol.WGCompletionMsg)
		if !ok {
			return
		}
		for _, id := range cmsg.RspTo {
			if i, ok := mapIDs[id]; ok {
				res.Completions[i] = append(res.Completions[i], w.Cycle())
			}
		}
	})
	w.Step = func() bool {
		mapNext()
		pending := aceS.Step(2)
		pending = iS.Step(4) || pending
		pending = sS.Step(8) || pending
		pending = vS.Step(16) || pending
		mapNext()
		pending = aceF.Step(1) || pending
		pending = iF.Step(4) || pending
		pending = sF.Step(8) || pending
		pending = vF.Step(16) || pending
		return pending
	}
	res.Quiet = w.Run()
	res.Mem = memory
	res.Viol = viol
	if res.Quiet && viol == nil {
		for i := range wgs {
			if !doneWG[i] {
				// a structural hang: the engine ran out of events with a work-group outstanding
				var st []string
				for j := range wgs[i].Wavefronts {
					pcs := res.PCs[[2]int{i, j}]
					last := "none"
					if len(pcs) > 0 {
						last = names[Code+pcs[len(pcs)-1]]
					}
					st = append(st, fmt.Sprintf("wf%d last=%s ended=%v", j, last, ended[[2]int{i, j}]))
				}
				res.Viol = explore.Viol("work-group-never-completes", "quiescent with work-group %d outstanding: %s", i, strings.Join(st, "; "))
				break
			}
		}
	}
	return res
}

// RunEmu executes the kernel on the real functional-emulation CU.
func RunEmu(k *Kernel, g Geometry) (res *Result) {
	res = &Result{PCs: map[[2]int][]uint64{}, Completions: map[int][]int{}}
	defer func() {
		if r := recover(); r != nil {
			res.Panic = fmt.Sprint(r)
		}
	}()
	x := &explore.Exec{}
	w := world.New(x, 100000)
	storage := mem.NewStorage(1 << 20)
	storage.Write(0, InitialMemory(k, g))
	pt := vm.NewPageTable(12)
	for a := uint64(0); a < MemSize+0x1000; a += 0x1000 {
		pt.Insert(vm.Page{PID: 1, VAddr: a, PAddr: a, PageSize: 0x1000, Valid: true})
	}
	c := emu.BuildComputeUnit("EmuCU", w.Engine, insts.NewDisassembler(), pt, 12, storage, nil)
	w.NewWire("wire", c.ToDispatcher)
	wgs := workGroups(k, g)
	wfIndex := map[*kernels.Wavefront][2]int{}
	for i, wg := range wgs {
		for j, wf := range wg.Wavefronts {
			wfIndex[wf] = [2]int{i, j}
		}
	}
	// the hook fires after the instruction executed (PC already advanced / branched): the PC of an
	// instruction is the PC the wavefront had after its previous instruction (the entry for the first)
	after := map[[2]int]uint64{}
	c.AcceptHook(taskHook{func(ctx sim.HookCtx) {
		wf, ok := ctx.Item.(*emu.Wavefront)
		if !ok {
			return
		}
		key := wfIndex[wf.Wavefront]
		pc, seen := after[key]
		if !seen {
			pc = Code
		}
		res.PCs[key] = append(res.PCs[key], pc-Code)
		after[key] = wf.PC()
	}})
	const ace = sim.RemotePort("Env.ACE")
	f := &world.Feeder{W: w, Port: c.ToDispatcher, Tag: "ace"}
	for _, wg := range wgs {
		rb := protocol.MapWGReqBuilder{}.WithSrc(ace).WithDst(c.ToDispatcher.AsRemote()).WithPID(1).WithWG(wg)
		for _, wf := range wg.Wavefronts {
			rb = rb.AddWf(protocol.WfDispatchLocation{Wavefront: wf})
		}
		f.Add(rb.Build(), false)
	}
	s := &world.Sink{W: w, Port: c.ToDispatcher, Tag: "ace", NoChoice: true, Handle: func(m sim.Msg) {}}
	w.Step = func() bool {
		p := s.Step(4)
		return f.Step(1) || p
	}
	res.Quiet = w.Run()
	res.Mem, _ = storage.Read(0, MemSize)
	return res
}

// BranchNote: for branch instructions the emu hook sees the PC after the
// branch was applied; PCs of taken branches are therefore recovered from the
// instruction table by the caller (see NormalizePCs).

// DataRegion returns the bytes of the data buffers only (everything below the code).
func DataRegion(m []byte) []byte { return m[:Code] }

// SortedKeys returns wavefront keys in order.
func SortedKeys(m map[[2]int][]uint64) [][2]int {
	var ks [][2]int
	for k := range m {
		ks = append(ks, k)
	}
	sort.Slice(ks, func(i, j int) bool { return ks[i][0] < ks[j][0] || ks[i][0] == ks[j][0] && ks[i][1] < ks[j][1] })
	return ks
}

// EmuDispatchBody closes the real functional-emulation CU with an explorer-driven dispatcher. The work-groups of
// the grid are mapped in batches: batch i+1 is sent when the CU has put the completion message of batch i on its
// port (the emulation CU runs what it has at the next whole second of simulated time). The dispatcher may read a
// completion message late: for every message the explorer chooses how many FURTHER completion messages the CU
// must have sent before the dispatcher takes it (0 = at once).
// Oracle (property C09, for any completion order and delay): every MapWGReq is acknowledged exactly once over all
// WGCompletionMsg, judged on what a message holds when the dispatcher reads it.
func EmuDispatchBody(k *Kernel, g Geometry, batchSizes []int) explore.Body {
	return func(x *explore.Exec) *explore.Violation {
		w := world.New(x, 1<<40)
		w.MaxEvts = 200000
		storage := mem.NewStorage(1 << 20)
		storage.Write(0, InitialMemory(k, g))
		pt := vm.NewPageTable(12)
		for a := uint64(0); a < MemSize+0x1000; a += 0x1000 {
			pt.Insert(vm.Page{PID: 1, VAddr: a, PAddr: a, PageSize: 0x1000, Valid: true})
		}
		c := emu.BuildComputeUnit("EmuCU", w.Engine, insts.NewDisassembler(), pt, 12, storage, nil)
		w.NewWire("wire", c.ToDispatcher)
		wgs := workGroups(k, g)
		const ace = sim.RemotePort("Env.ACE")
		var viol *explore.Violation
		fail := func(sig, f string, a ...any) {
			if viol == nil {
				viol = explore.Viol("emu-cu/"+sig, f, a...)
			}
		}
		ids := map[string]int{}
		acks := make([]int, len(wgs))
		var trace strings.Builder
		f := &world.Feeder{W: w, Port: c.ToDispatcher, Tag: "ace"}
		sent := 0 // completion messages the CU has put on its port
		world.OnSend(c.ToDispatcher, func(m sim.Msg) {
			if _, ok := m.(*protocol.WGCompletionMsg); ok {
				sent++
			}
		})
		next, batch, sentAtLastInject := 0, 0, -1
		inject := func() {
			for batch < len(batchSizes) && sent >= batch {
				for j := 0; j < batchSizes[batch] && next < len(wgs); j++ {
					wg := wgs[next]
					rb := protocol.MapWGReqBuilder{}.WithSrc(ace).WithDst(c.ToDispatcher.AsRemote()).WithPID(1).WithWG(wg)
					for _, wf := range wg.Wavefronts {
						rb = rb.AddWf(protocol.WfDispatchLocation{Wavefront: wf})
					}
					req := rb.Build()
					ids[req.ID] = next
					f.Add(req, false)
					next++
				}
				batch++
				sentAtLastInject = sent
			}
		}
		read := func(m sim.Msg) {
			cm, ok := m.(*protocol.WGCompletionMsg)
			if !ok {
				fail("unexpected-message-to-dispatcher", "%T", m)
				return
			}
			fmt.Fprintf(&trace, "read-after-%d-sent[", sent)
			for _, id := range cm.RspTo {
				i, ok := ids[id]
				if !ok {
					fail("completion-for-unknown-request", "%s", id)
					continue
				}
				acks[i]++
				fmt.Fprintf(&trace, "%d ", i)
				if acks[i] > 1 {
					fail("work-group-completion-reported-twice", "work-group %d acknowledged %d times (trace %s)", i, acks[i], trace.String())
				}
			}
			trace.WriteString("];")
		}
		// messages travel to the dispatcher's incoming buffer at once (as over a connection) and are READ later
		type held struct {
			m   sim.Msg
			rel int
		}
		var inbox []held
		w.Step = func() bool {
			inject()
			for {
				m := c.ToDispatcher.RetrieveOutgoing()
				if m == nil {
					break
				}
				k := 0
				if x.CanDeviate() {
					k = x.Choose(3, "read-completion-after-further-messages")
				}
				inbox = append(inbox, held{m, sent + k})
			}
			allIn := batch == len(batchSizes) && sent > sentAtLastInject
			for len(inbox) > 0 && (sent >= inbox[0].rel || allIn) {
				read(inbox[0].m)
				inbox = inbox[1:]
			}
			inject()
			return f.Step(4)
		}
		quiet := w.Run()
		if viol != nil {
			return viol
		}
		if !quiet {
			return nil
		}
		for i, n := range acks {
			if i < next && n == 0 {
				return explore.Viol("emu-cu/work-group-completion-never-reported", "work-group %d was mapped and never acknowledged (trace %s)", i, trace.String())
			}
		}
		x.Outcome(trace.String())
		return nil
	}
}

// DriverCodeObject is the kernel as a code object the driver can launch on a real platform (same register
// convention as in the CU world: s[0:1] kernarg pointer, s2 work-group id x, v0 local id x; kernarg layout
// +0 in, +8 out, +16 mask, +24 tmp, +32 in2, +40 out2).
func DriverCodeObject(k *Kernel, wgSize int) *insts.KernelCodeObject {
	co, _ := codeObject(k, Geometry{WGSize: wgSize, NumWG: 1})
	co.KernargSegmentByteSize = 48
	return co
}

// DriverCodeObject3D is DriverCodeObject for kernels that use the work-item ids of all three dimensions (v0, v1, v2).
func DriverCodeObject3D(k *Kernel) *insts.KernelCodeObject {
	co := DriverCodeObject(k, 64)
	co.ComputePgmRsrc2 |= 2 << 11 // enable_vgpr_workitem_id = 2: x, y, z
	return co
}
