// Package explore is E1: a stateless, deviation-bounded, exhaustive explorer of
// choice sequences. A harness body is a deterministic function of the answers
// it gets from Exec.Choose; the explorer enumerates every answer vector whose
// number of non-default (non-zero) answers is within the bound, each exactly
// once, re-executing the body on a fresh instance for every vector.
package explore

import (
	"fmt"
	"runtime"
	"runtime/debug"
	"sort"
	"strings"
	"sync"
	"sync/atomic"
	"time"
)

// Violation is what a body returns when the oracle fails.
type Violation struct {
	Sig string // stable signature used for known-finding matching
	Msg string // human readable detail
}

func (v *Violation) Error() string { return v.Sig + ": " + v.Msg }

// Viol builds a violation.
func Viol(sig, format string, a ...any) *Violation {
	return &Violation{Sig: sig, Msg: fmt.Sprintf(format, a...)}
}

// Point is one recorded choice point.
type Point struct {
	N   int
	Tag string
}

// Exec is one execution of a body.
type Exec struct {
	prefix  []int
	Choices []int
	Points  []Point
	Devs    int // non-default answers taken so far
	bound   int
	Capped  bool // body hit its horizon
	Pruned  bool // state cache said: already explored
	Steps   int  // transitions (component steps), counted by the body
	outcome string
	exp     *Explorer
	Trace   []string // optional free-form trace lines (only kept when Record)
	Record  bool
	noAlt   map[int]bool // points declared free (cost 0) -- unused by default
}

// Choose asks for an answer in [0,n). 0 is the default; any other answer is a
// deviation (cost 1). While replaying the prefix the recorded answer is
// returned; afterwards the default.
func (x *Exec) Choose(n int, tag string) int {
	if n <= 0 {
		panic(fmt.Sprintf("explore: Choose(%d,%s)", n, tag))
	}
	i := len(x.Choices)
	c := 0
	if i < len(x.prefix) {
		c = x.prefix[i]
		if c >= n {
			panic(infraError{fmt.Sprintf("replay divergence at point %d (%s): recorded choice %d but only %d alternatives", i, tag, c, n)})
		}
	}
	if c != 0 {
		x.Devs++
	}
	x.Choices = append(x.Choices, c)
	x.Points = append(x.Points, Point{n, tag})
	return c
}

// Budget returns the number of deviations still available to descendants of
// this execution at the current point.
func (x *Exec) Budget() int { return x.bound - x.Devs }

// CanDeviate is a hint: when false, the body may skip asking (it must then
// behave exactly as if the answer were 0). Using it keeps choice vectors short.
func (x *Exec) CanDeviate() bool {
	return len(x.Choices) < len(x.prefix) || x.Devs < x.bound
}

// Visit reports a canonical state fingerprint at a quiescent point. It returns
// true when the same state has already been (or is being) explored with at
// least the remaining deviation budget: the body must then return immediately.
// Only sound when fp captures everything future behaviour and the oracle
// depend on.
func (x *Exec) Visit(fp string) bool {
	if len(x.Choices) < len(x.prefix) {
		return false // still replaying: never prune on the way to the new suffix
	}
	e := x.exp
	rem := x.bound - x.Devs
	e.mu.Lock()
	old, ok := e.seen[fp]
	if ok && old >= rem {
		e.mu.Unlock()
		x.Pruned = true
		return true
	}
	e.seen[fp] = rem
	e.mu.Unlock()
	return false
}

// NoteState counts a distinct state without pruning.
func (x *Exec) NoteState(fp string) {
	e := x.exp
	e.mu.Lock()
	if _, ok := e.seen[fp]; !ok {
		e.seen[fp] = -1
	}
	e.mu.Unlock()
}

// Outcome records the observable outcome of this execution (for the distinct
// outcome statistic).
func (x *Exec) Outcome(s string) { x.outcome = s }

// Logf appends to the trace when recording (replay mode).
func (x *Exec) Logf(format string, a ...any) {
	if x.Record {
		x.Trace = append(x.Trace, fmt.Sprintf(format, a...))
	}
}

type infraError struct{ msg string }

// Body is a harness body. It returns nil or a violation.
type Body func(x *Exec) *Violation

// Found is a confirmed violation with its replayable choice vector.
type Found struct {
	Sig     string
	Msg     string
	Choices []int
	Tags    []string
}

// Stats are the coverage numbers of a run.
type Stats struct {
	Executions   int64
	ChoicePoints int64
	Transitions  int64
	MaxDepth     int64
	States       int
	Pruned       int64
	CappedExecs  int64
	Bound        int
	Exhaustive   bool
	Outcomes     int
	OutcomeList  []string
	WallS        float64
	Infra        []string
}

// Explorer runs a body exhaustively.
type Explorer struct {
	Bound    int           // max deviations
	Workers  int           // goroutines (default NumCPU)
	Deadline time.Time     // zero = none; on expiry the search stops, Exhaustive=false
	MaxExecs int64         // 0 = none
	MaxFound int           // stop after this many distinct-signature violations (default 20)
	PanicSig func(string) string // maps a recovered panic text to a signature; nil => "panic"
	// ReportIrreproducible: a violation that a re-run of the same choice vector does not reproduce is reported
	// (own signature suffix) instead of being an infrastructure error: see confirm.
	ReportIrreproducible bool

	mu       sync.Mutex
	seen     map[string]int
	outcomes map[string]int
	found    map[string]*Found
	infra    []string
	stack    [][]int
	active   int
	cond     *sync.Cond
	stop     atomic.Bool
	st       Stats
}

// RunOne executes the body once with the given choice prefix (defaults
// afterwards). Panics inside the body become violations with signature from
// PanicSig; infrastructure errors are returned in infra.
func (e *Explorer) RunOne(body Body, prefix []int, record bool) (x *Exec, v *Violation, infra string) {
	if e.seen == nil {
		e.seen = map[string]int{}
	}
	x = &Exec{prefix: prefix, bound: e.Bound, exp: e, Record: record}
	defer func() {
		if r := recover(); r != nil {
			if ie, ok := r.(infraError); ok {
				infra = ie.msg
				return
			}
			txt := fmt.Sprint(r)
			sig := "panic"
			if e.PanicSig != nil {
				sig = e.PanicSig(txt)
			}
			if sig == "" { // body says: this panic is an accepted outcome
				v = nil
				return
			}
			st := string(debug.Stack())
			v = &Violation{Sig: sig, Msg: "panic: " + txt + "\n" + trimStack(st)}
		}
	}()
	v = body(x)
	return
}

func trimStack(s string) string {
	lines := strings.Split(s, "\n")
	var out []string
	for _, l := range lines {
		if strings.Contains(l, "/repo/") || strings.Contains(l, "akita") {
			out = append(out, strings.TrimSpace(l))
		}
		if len(out) >= 12 {
			break
		}
	}
	return strings.Join(out, "\n")
}

// Explore enumerates all choice vectors within the bound.
func (e *Explorer) Explore(body Body) (Stats, []*Found) {
	start := time.Now()
	if e.Workers <= 0 {
		e.Workers = runtime.NumCPU()
	}
	if e.MaxFound == 0 {
		e.MaxFound = 20
	}
	e.seen = map[string]int{}
	e.outcomes = map[string]int{}
	e.found = map[string]*Found{}
	e.cond = sync.NewCond(&e.mu)
	e.stack = [][]int{{}}
	e.st = Stats{Bound: e.Bound, Exhaustive: true}

	var wg sync.WaitGroup
	for w := 0; w < e.Workers; w++ {
		wg.Add(1)
		go func() {
			defer wg.Done()
			e.worker(body)
		}()
	}
	wg.Wait()

	e.st.States = len(e.seen)
	e.st.Outcomes = len(e.outcomes)
	for o := range e.outcomes {
		e.st.OutcomeList = append(e.st.OutcomeList, o)
	}
	sort.Strings(e.st.OutcomeList)
	if len(e.st.OutcomeList) > 12 {
		e.st.OutcomeList = e.st.OutcomeList[:12]
	}
	e.st.WallS = time.Since(start).Seconds()
	e.st.Infra = e.infra
	var fs []*Found
	for _, f := range e.found {
		fs = append(fs, f)
	}
	sort.Slice(fs, func(i, j int) bool { return fs[i].Sig < fs[j].Sig })
	return e.st, fs
}

func (e *Explorer) worker(body Body) {
	for {
		e.mu.Lock()
		for len(e.stack) == 0 && e.active > 0 && !e.stop.Load() {
			e.cond.Wait()
		}
		if e.stop.Load() || (len(e.stack) == 0 && e.active == 0) {
			if len(e.stack) > 0 {
				e.st.Exhaustive = false
			}
			e.mu.Unlock()
			e.cond.Broadcast()
			return
		}
		prefix := e.stack[len(e.stack)-1]
		e.stack = e.stack[:len(e.stack)-1]
		e.active++
		e.mu.Unlock()

		e.step(body, prefix)

		e.mu.Lock()
		e.active--
		e.mu.Unlock()
		e.cond.Broadcast()
	}
}

func (e *Explorer) step(body Body, prefix []int) {
	if !e.Deadline.IsZero() && time.Now().After(e.Deadline) {
		e.stop.Store(true)
		e.mu.Lock()
		e.st.Exhaustive = false
		e.mu.Unlock()
		return
	}
	x, v, infra := e.RunOne(body, prefix, false)
	if infra != "" {
		e.mu.Lock()
		e.infra = append(e.infra, infra)
		e.mu.Unlock()
		e.stop.Store(true)
		return
	}
	n := atomic.AddInt64(&e.st.Executions, 1)
	atomic.AddInt64(&e.st.ChoicePoints, int64(len(x.Points)))
	atomic.AddInt64(&e.st.Transitions, int64(x.Steps))
	for {
		m := atomic.LoadInt64(&e.st.MaxDepth)
		if int64(len(x.Points)) <= m || atomic.CompareAndSwapInt64(&e.st.MaxDepth, m, int64(len(x.Points))) {
			break
		}
	}
	if x.Pruned {
		atomic.AddInt64(&e.st.Pruned, 1)
	}
	if x.Capped {
		atomic.AddInt64(&e.st.CappedExecs, 1)
		e.mu.Lock()
		e.st.Exhaustive = false
		e.mu.Unlock()
	}
	if e.MaxExecs > 0 && n >= e.MaxExecs {
		e.stop.Store(true)
		e.mu.Lock()
		e.st.Exhaustive = false
		e.mu.Unlock()
	}
	if v != nil {
		e.confirm(body, x, v)
	}

	// children: alternatives at every point after the prefix
	var kids [][]int
	devs := 0
	for i := 0; i < len(prefix) && i < len(x.Choices); i++ {
		if x.Choices[i] != 0 {
			devs++
		}
	}
	if devs+1 <= e.Bound {
		for i := len(x.Points) - 1; i >= len(prefix); i-- {
			// choices after the prefix are all 0 in this execution
			for alt := x.Points[i].N - 1; alt >= 1; alt-- {
				k := make([]int, i+1)
				copy(k, x.Choices[:i])
				k[i] = alt
				kids = append(kids, k)
			}
		}
	}
	e.mu.Lock()
	if x.outcome != "" {
		e.outcomes[x.outcome]++
	}
	e.stack = append(e.stack, kids...)
	e.mu.Unlock()
}

// confirm re-runs a violating vector 5 times; identical signature every time
// or it is an infrastructure (nondeterminism) error, not a violation.
func (e *Explorer) confirm(body Body, x *Exec, v *Violation) {
	e.mu.Lock()
	_, dup := e.found[v.Sig]
	e.mu.Unlock()
	if dup {
		return
	}
	for i := 0; i < 5; i++ {
		_, v2, infra := e.RunOne(body, x.Choices, false)
		if infra != "" || v2 == nil || v2.Sig != v.Sig {
			e.mu.Lock()
			got := "<nil>"
			if v2 != nil {
				got = v2.Sig
			}
			if e.ReportIrreproducible {
				// The world is rebuilt from scratch for every execution, so an outcome that differs between two
				// executions of the same choice vector depends on state that outlives the world: package-level
				// state of the code under test (an object pool, a cache, a counter). The violating execution did
				// happen on the real code; it is reported under its own signature, with what the re-run gave.
				sig := v.Sig + "/outcome-depends-on-earlier-executions-in-the-process"
				if _, dup := e.found[sig]; !dup {
					tags := make([]string, len(x.Points))
					for i, p := range x.Points {
						tags[i] = p.Tag
					}
					e.found[sig] = &Found{Sig: sig, Msg: fmt.Sprintf("%s; a re-run of the same choice vector in a freshly built world gave %s %s: the outcome depends on state that outlives the world (package-level state of the code under test)", v.Msg, got, infra),
						Choices: append([]int{}, x.Choices...), Tags: tags}
				}
				e.mu.Unlock()
				return
			}
			e.infra = append(e.infra, fmt.Sprintf("nondeterministic replay of %v: first %s then %s %s", x.Choices, v.Sig, got, infra))
			e.mu.Unlock()
			e.stop.Store(true)
			return
		}
	}
	tags := make([]string, len(x.Points))
	for i, p := range x.Points {
		tags[i] = p.Tag
	}
	e.mu.Lock()
	if _, dup := e.found[v.Sig]; !dup {
		e.found[v.Sig] = &Found{Sig: v.Sig, Msg: v.Msg, Choices: append([]int{}, x.Choices...), Tags: tags}
		if len(e.found) >= e.MaxFound {
			e.stop.Store(true)
			e.st.Exhaustive = false
		}
	}
	e.mu.Unlock()
}
