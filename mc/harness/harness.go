// Package harness is the shared front end of every check: flags, known
// findings, replay files, evidence files, exit codes.
//
// Exit codes: 0 held (possibly with KNOWN-FINDING lines), 1 VIOLATION,
// 2 infrastructure error (never reported as a violation).
package harness

import (
	"encoding/json"
	"flag"
	"fmt"
	"os"
	"os/exec"
	"path/filepath"
	"runtime"
	"sort"
	"strconv"
	"strings"
	"sync"
	"sync/atomic"
	"time"

	"verif/mc/explore"
)

// Dir is /verif (overridable for tests).
func Dir() string {
	if d := os.Getenv("VERIF_DIR"); d != "" {
		return d
	}
	return "/verif"
}

// Finding is one entry of known_findings.json.
type Finding struct {
	Property  string `json:"property"`
	Signature string `json:"signature"`
	What      string `json:"what"`
	Status    string `json:"status"` // open | fixed
	Commit    string `json:"commit,omitempty"`
}

type findingsFile struct {
	Findings []Finding `json:"findings"`
}

// Run is the state of one check run.
type Run struct {
	ID       string
	Level    string
	Tier     string
	Seed     int
	Replay   string
	start    time.Time
	known    []Finding
	mu       sync.Mutex
	knownHit map[string]string
	viol     []string
	infra    []string
	Cov      map[string]any
	Assume   []string
	samples  []any
	deadline time.Time
	Quiet    bool   // do not print one line per scenario
	Part     string // non-empty: this process is a sub-part of check ID (own evidence file, merged by the main binary)
	allSigs  map[string]bool
}

// SeenSignaturePrefix reports whether any violation (listed or not) whose
// signature starts with prefix was reported so far.
func (r *Run) SeenSignaturePrefix(prefix string) bool {
	r.mu.Lock()
	defer r.mu.Unlock()
	for s := range r.allSigs {
		if strings.HasPrefix(s, prefix) {
			return true
		}
	}
	return false
}

// StartPart is Start for an auxiliary binary of check id: same findings file,
// same replay directory and VIOLATION lines, but the evidence goes to
// evidence/parts/<id>.<part>.json for the main binary to merge (MergePart).
func StartPart(id, part, level string) *Run {
	r := Start(id, level)
	r.Part = part
	return r
}

// PartResult is what MergePart returns about an auxiliary binary's run.
type PartResult struct {
	Coverage   map[string]any `json:"coverage"`
	Assume     []string       `json:"assumptions"`
	Violations int            `json:"violations"`
	WallS      float64        `json:"wall_s"`
}

// ReadPart loads the evidence an auxiliary binary wrote.
func ReadPart(id, part string) (*PartResult, error) {
	data, err := os.ReadFile(filepath.Join(Dir(), "evidence", "parts", id+"."+part+".json"))
	if err != nil {
		return nil, err
	}
	var p PartResult
	if err := json.Unmarshal(data, &p); err != nil {
		return nil, err
	}
	return &p, nil
}

// RunPart runs the auxiliary binary <this binary>-<part> (built by run.sh /
// build.sh next to the main one) with the tier of this run and the standard
// streams passed through, and merges what it wrote: its coverage goes under
// coverage["part_<part>"], its counts are added to the totals, its violations
// (already printed by it, with replay files of its own) make this run exit 1.
func (r *Run) RunPart(part string, extraArgs ...string) {
	os.Remove(filepath.Join(Dir(), "evidence", "parts", r.ID+"."+part+".json"))
	rc := RunPartBinary(part, append([]string{"-tier", r.Tier}, extraArgs...)...)
	p, err := ReadPart(r.ID, part)
	if err != nil || rc >= 2 {
		r.Infra("part %s: exit %d, evidence: %v", part, rc, err)
		return
	}
	if rc == 1 {
		r.NoteExternalViolations(p.Violations, "part "+part)
	}
	if kh, ok := p.Coverage["known_findings_reobserved"].([]any); ok {
		for _, k := range kh {
			r.NoteKnownHit(fmt.Sprint(k))
		}
	}
	delete(p.Coverage, "known_findings_reobserved")
	r.Cov["part_"+part] = p.Coverage
	for _, k := range []string{"evaluations", "states", "transitions", "traces_validated_against_impl", "distinct_nontrivial"} {
		var a int64
		switch v := r.Cov[k].(type) {
		case int64:
			a = v
		case int:
			a = int64(v)
		case float64:
			a = int64(v)
		}
		if b, ok := p.Coverage[k].(float64); ok {
			r.Cov[k] = a + int64(b)
		}
	}
	if ex, ok := p.Coverage["exhaustive"].(bool); ok && !ex {
		r.Cov["exhaustive"] = false
	}
	r.Assume = append(r.Assume, p.Assume...)
}

// RunPartBinary executes <this binary>-<part> and returns its exit code.
func RunPartBinary(part string, args ...string) int {
	cmd := exec.Command(os.Args[0]+"-"+part, args...)
	cmd.Stdout, cmd.Stderr = os.Stdout, os.Stderr
	if err := cmd.Run(); err != nil {
		if ee, ok := err.(*exec.ExitError); ok {
			return ee.ExitCode()
		}
		fmt.Fprintln(os.Stderr, "part", part+":", err)
		return 2
	}
	return 0
}

// NoteExternalViolations makes Finish exit 1 for violations an auxiliary
// binary already reported (it printed the VIOLATION lines itself).
func (r *Run) NoteExternalViolations(n int, what string) {
	r.mu.Lock()
	defer r.mu.Unlock()
	for i := 0; i < n; i++ {
		r.viol = append(r.viol, what)
	}
}

// NoteKnownHit records a listed finding re-observed by an auxiliary binary.
func (r *Run) NoteKnownHit(sig string) {
	r.mu.Lock()
	defer r.mu.Unlock()
	r.knownHit[sig] = "re-observed by an auxiliary binary"
}

// Start parses flags and loads known findings.
func Start(id, level string) *Run {
	r := &Run{ID: id, Level: level, start: time.Now(), knownHit: map[string]string{}, Cov: map[string]any{}}
	tier := flag.String("tier", "quick", "quick|thorough")
	replay := flag.String("replay", "", "replay file")
	budget := flag.Int("budget", 0, "time budget in seconds (0 = tier default)")
	flag.Parse()
	r.Tier = *tier
	if t := os.Getenv("VERIF_TIER"); t != "" && !isFlagSet("tier") {
		r.Tier = t
	}
	if r.Tier != "quick" && r.Tier != "thorough" {
		fmt.Fprintln(os.Stderr, "bad tier", r.Tier)
		os.Exit(2)
	}
	r.Replay = *replay
	if s := os.Getenv("VERIF_SEED"); s != "" {
		r.Seed, _ = strconv.Atoi(s)
	}
	b := *budget
	if b == 0 {
		if r.Tier == "quick" {
			b = 240
		} else {
			b = 2400
		}
	}
	r.deadline = r.start.Add(time.Duration(b) * time.Second)
	data, err := os.ReadFile(filepath.Join(Dir(), "known_findings.json"))
	if err == nil {
		var ff findingsFile
		if err := json.Unmarshal(data, &ff); err != nil {
			fmt.Fprintln(os.Stderr, "known_findings.json:", err)
			os.Exit(2)
		}
		for _, f := range ff.Findings {
			if f.Property == id && f.Status == "open" {
				r.known = append(r.known, f)
			}
		}
	}
	return r
}

func isFlagSet(name string) bool {
	set := false
	flag.Visit(func(f *flag.Flag) {
		if f.Name == name {
			set = true
		}
	})
	return set
}

// Deadline is the internal soft time budget. Hitting it truncates the search
// (exhaustive:false) and never decides a property.
func (r *Run) Deadline() time.Time { return r.deadline }

// Phase runs f with the soft deadline pulled in to the given fraction of the
// whole budget (measured from the start of the run), then restores it. It lets
// a check with several enumeration phases keep time for the later ones.
func (r *Run) Phase(fraction float64, f func()) {
	old := r.deadline
	d := r.start.Add(time.Duration(float64(old.Sub(r.start)) * fraction))
	if d.Before(old) {
		r.deadline = d
	}
	f()
	r.deadline = old
}

// Thorough reports the tier.
func (r *Run) Thorough() bool { return r.Tier == "thorough" }

// Sample adds a written-out case to the evidence (first 8 kept).
func (r *Run) Sample(s any) {
	r.mu.Lock()
	if len(r.samples) < 8 {
		r.samples = append(r.samples, s)
	}
	r.mu.Unlock()
}

// Infra records an infrastructure error.
func (r *Run) Infra(format string, a ...any) {
	r.mu.Lock()
	r.infra = append(r.infra, fmt.Sprintf(format, a...))
	r.mu.Unlock()
}

func matchSig(pat, sig string) bool {
	if strings.HasSuffix(pat, "*") {
		return strings.HasPrefix(sig, strings.TrimSuffix(pat, "*"))
	}
	return pat == sig
}

// Report handles one violation: a listed open finding is printed as
// KNOWN-FINDING, anything else is written to a replay file and printed as
// VIOLATION. replay is any JSON-serialisable description sufficient to
// reproduce the case without the explorer.
func (r *Run) Report(sig, msg string, replay any) {
	r.mu.Lock()
	defer r.mu.Unlock()
	if r.allSigs == nil {
		r.allSigs = map[string]bool{}
	}
	r.allSigs[sig] = true
	for _, k := range r.known {
		if matchSig(k.Signature, sig) {
			if _, done := r.knownHit[k.Signature]; !done {
				r.knownHit[k.Signature] = sig
				fmt.Printf("KNOWN-FINDING: property=%s %s [%s]\n", r.ID, k.What, k.Signature)
			}
			return
		}
	}
	for _, v := range r.viol {
		if v == sig {
			return
		}
	}
	r.viol = append(r.viol, sig)
	dir := filepath.Join(Dir(), "replays", r.ID)
	os.MkdirAll(dir, 0o755)
	name := sanitize(sig)
	path := filepath.Join(dir, name+".json")
	out := map[string]any{"check": r.ID, "signature": sig, "message": msg, "case": replay}
	data, _ := json.MarshalIndent(out, "", " ")
	os.WriteFile(path, data, 0o644)
	fmt.Printf("VIOLATION property=%s replay=%s\n", r.ID, path)
	fmt.Printf("  signature: %s\n  %s\n", sig, strings.ReplaceAll(firstN(msg, 1500), "\n", "\n  "))
}

func firstN(s string, n int) string {
	if len(s) > n {
		return s[:n] + "…"
	}
	return s
}

func sanitize(s string) string {
	var b strings.Builder
	for _, c := range s {
		switch {
		case c >= 'a' && c <= 'z', c >= 'A' && c <= 'Z', c >= '0' && c <= '9', c == '-', c == '_', c == '.':
			b.WriteRune(c)
		default:
			b.WriteByte('_')
		}
	}
	out := b.String()
	if len(out) > 100 {
		out = out[:100]
	}
	return out
}

// Violations returns the number of unlisted violations so far.
func (r *Run) Violations() int {
	r.mu.Lock()
	defer r.mu.Unlock()
	return len(r.viol)
}

// Finish writes the evidence file and exits with the right code.
func (r *Run) Finish() {
	cov := r.Cov
	if _, ok := cov["samples"]; !ok {
		if len(r.samples) == 0 {
			r.samples = append(r.samples, "no sample recorded")
		}
		cov["samples"] = r.samples
	}
	kh := []string{}
	for k := range r.knownHit {
		kh = append(kh, k)
	}
	sort.Strings(kh)
	cov["known_findings_reobserved"] = kh
	// known findings listed but NOT re-observed are worth a line (not an error)
	for _, k := range r.known {
		if _, ok := r.knownHit[k.Signature]; !ok && r.Part == "" {
			fmt.Printf("note: listed finding not re-observed in this tier: %s\n", k.Signature)
		}
	}
	if len(r.infra) > 0 {
		cov["infrastructure_errors"] = r.infra
	}
	ev := map[string]any{
		"property_id": r.ID,
		"tier":        r.Tier,
		"seed":        r.Seed,
		"level":       r.Level,
		"coverage":    cov,
		"assumptions": r.Assume,
		"wall_s":      time.Since(r.start).Seconds(),
		"violations":  len(r.viol),
	}
	if r.Assume == nil {
		ev["assumptions"] = []string{}
	}
	data, _ := json.MarshalIndent(ev, "", " ")
	evFile := filepath.Join(Dir(), "evidence", r.ID+".json")
	if r.Part != "" {
		evFile = filepath.Join(Dir(), "evidence", "parts", r.ID+"."+r.Part+".json")
	}
	os.MkdirAll(filepath.Dir(evFile), 0o755)
	if err := os.WriteFile(evFile, data, 0o644); err != nil {
		fmt.Fprintln(os.Stderr, "evidence:", err)
		os.Exit(2)
	}
	if len(r.infra) > 0 {
		for _, s := range r.infra {
			fmt.Fprintln(os.Stderr, "INFRASTRUCTURE ERROR:", s)
		}
		os.Exit(2)
	}
	if len(r.viol) > 0 {
		os.Exit(1)
	}
	if r.Part != "" {
		fmt.Printf("part %s of %s done, no new violation, %.1fs\n", r.Part, r.ID, time.Since(r.start).Seconds())
		os.Exit(0)
	}
	fmt.Printf("OK property=%s tier=%s wall=%.1fs\n", r.ID, r.Tier, time.Since(r.start).Seconds())
	os.Exit(0)
}

// ---------------------------------------------------------------------------
// Explorer scenarios

// Scenario is one closed system explored with E1.
type Scenario struct {
	Name  string
	Bound int // deviation bound for this tier
	Body  explore.Body
	// PanicSig maps panic text to a signature ("" = accepted outcome).
	PanicSig func(string) string
	NoIter   bool // do not iterate bounds 0..Bound, run Bound only
}

// IrreproducibleSuffix marks violations whose outcome depends on earlier executions in the process (explore.confirm).
const IrreproducibleSuffix = "/outcome-depends-on-earlier-executions-in-the-process"

// ReplayCase is the replay artefact of an explorer scenario.
type ReplayCase struct {
	Scenario string   `json:"scenario"`
	Choices  []int    `json:"choices"`
	Tags     []string `json:"tags,omitempty"`
}

// Totals aggregates explorer statistics over scenarios.
type Totals struct {
	Scenarios   int
	Executions  int64
	Transitions int64
	States      int
	Choice      int64
	MaxDepth    int64
	Outcomes    int
	Exhaustive  bool
	PerScenario []map[string]any
}

// RunScenarios explores every scenario (or replays one) and fills coverage.
func (r *Run) RunScenarios(scs []Scenario) {
	if r.Replay != "" {
		r.replay(scs)
		return
	}
	if only := os.Getenv("VERIF_ONLY"); only != "" { // development aid: restrict to matching scenarios, one line each
		var f []Scenario
		for _, sc := range scs {
			if strings.Contains(sc.Name, only) {
				f = append(f, sc)
			}
		}
		scs = f
		r.Quiet = false
	}
	tot := Totals{Exhaustive: true}
	type res struct {
		last      explore.Stats
		completed int
	}
	results := make([]res, len(scs))
	runOne := func(i int, workers int) {
		sc := scs[i]
		b0 := 0
		if sc.NoIter {
			b0 = sc.Bound
		}
		var last explore.Stats
		var completed = -1
		for b := b0; b <= sc.Bound; b++ {
			ex := &explore.Explorer{Bound: b, Deadline: r.deadline, PanicSig: sc.PanicSig, Workers: workers, ReportIrreproducible: true}
			st, found := ex.Explore(sc.Body)
			for _, s := range st.Infra {
				r.Infra("%s: %s", sc.Name, s)
			}
			for _, f := range found {
				r.Report(f.Sig, f.Msg, ReplayCase{Scenario: sc.Name, Choices: f.Choices, Tags: f.Tags})
			}
			last = st
			if st.Exhaustive {
				completed = b
			} else {
				break
			}
		}
		results[i] = res{last, completed}
	}
	if len(scs) > 32 {
		// many small scenarios: one worker each, scenarios in parallel
		var next int64 = -1
		var wg sync.WaitGroup
		for w := 0; w < runtime.NumCPU(); w++ {
			wg.Add(1)
			go func() {
				defer wg.Done()
				for {
					i := int(atomic.AddInt64(&next, 1))
					if i >= len(scs) {
						return
					}
					runOne(i, 1)
				}
			}()
		}
		wg.Wait()
	} else {
		for i := range scs {
			runOne(i, 0)
		}
	}
	for i, sc := range scs {
		last, completed := results[i].last, results[i].completed
		tot.Scenarios++
		tot.Executions += last.Executions
		tot.Transitions += last.Transitions
		tot.States += last.States
		tot.Choice += last.ChoicePoints
		tot.Outcomes += last.Outcomes
		if last.MaxDepth > tot.MaxDepth {
			tot.MaxDepth = last.MaxDepth
		}
		if completed < sc.Bound {
			tot.Exhaustive = false
		}
		if len(tot.PerScenario) < 60 {
			tot.PerScenario = append(tot.PerScenario, map[string]any{
				"scenario": sc.Name, "bound_requested": sc.Bound, "bound_completed": completed,
				"executions": last.Executions, "states": last.States, "transitions": last.Transitions,
				"distinct_outcomes": last.Outcomes, "capped_executions": last.CappedExecs, "pruned": last.Pruned,
				"max_choice_points": last.MaxDepth,
			})
		}
		if !r.Quiet {
			fmt.Printf("scenario %-40s bound=%d/%d execs=%d states=%d transitions=%d outcomes=%d capped=%d %.1fs\n",
				sc.Name, completed, sc.Bound, last.Executions, last.States, last.Transitions, last.Outcomes, last.CappedExecs, last.WallS)
		}
		if len(r.samples) < 3 && len(last.OutcomeList) > 0 {
			r.Sample(map[string]any{"scenario": sc.Name, "an_outcome": last.OutcomeList[0]})
		}
	}
	fmt.Printf("scenarios=%d executions=%d transitions=%d distinct_outcomes=%d exhaustive=%v\n", tot.Scenarios, tot.Executions, tot.Transitions, tot.Outcomes, tot.Exhaustive)
	states := tot.States
	if states == 0 {
		states = int(tot.Outcomes)
	}
	r.Cov["states"] = states
	r.Cov["transitions"] = tot.Transitions
	r.Cov["traces_validated_against_impl"] = tot.Executions
	r.Cov["evaluations"] = tot.Executions
	r.Cov["distinct_nontrivial"] = tot.Outcomes
	r.Cov["rule"] = "every choice vector (environment answers / schedules) with at most bound non-default answers is executed once on a fresh instance of the real component; distinct_nontrivial counts distinct observable outcomes (port-level traces) over all scenarios"
	r.Cov["exhaustive"] = tot.Exhaustive
	r.Cov["scenarios"] = tot.PerScenario
	r.Cov["scenarios_total"] = tot.Scenarios
	r.Cov["max_choice_points"] = tot.MaxDepth
}

func (r *Run) replay(scs []Scenario) {
	data, err := os.ReadFile(r.Replay)
	if err != nil {
		fmt.Fprintln(os.Stderr, err)
		os.Exit(2)
	}
	var f struct {
		Signature string     `json:"signature"`
		Case      ReplayCase `json:"case"`
	}
	if err := json.Unmarshal(data, &f); err != nil {
		fmt.Fprintln(os.Stderr, err)
		os.Exit(2)
	}
	for _, sc := range scs {
		if sc.Name != f.Case.Scenario {
			continue
		}
		if strings.HasSuffix(f.Signature, IrreproducibleSuffix) {
			// the outcome depends on what ran earlier in the process: the whole scenario is explored again
			for b := 0; b <= sc.Bound; b++ {
				exa := &explore.Explorer{Bound: b, PanicSig: sc.PanicSig, Workers: 1, ReportIrreproducible: true}
				_, found := exa.Explore(sc.Body)
				for _, fd := range found {
					if fd.Sig == f.Signature {
						fmt.Printf("VIOLATION property=%s replay=%s\n  signature: %s\n  %s\n", r.ID, r.Replay, fd.Sig, fd.Msg)
						os.Exit(1)
					}
				}
			}
			fmt.Println("replay: no violation")
			os.Exit(0)
		}
		ex := &explore.Explorer{Bound: 1 << 30, PanicSig: sc.PanicSig}
		x, v, infra := ex.RunOne(sc.Body, f.Case.Choices, true)
		for _, l := range x.Trace {
			fmt.Println(l)
		}
		if infra != "" {
			fmt.Println("INFRASTRUCTURE ERROR:", infra)
			os.Exit(2)
		}
		if v != nil {
			fmt.Printf("VIOLATION property=%s replay=%s\n  signature: %s\n  %s\n", r.ID, r.Replay, v.Sig, v.Msg)
			os.Exit(1)
		}
		fmt.Println("replay: no violation")
		os.Exit(0)
	}
	fmt.Fprintln(os.Stderr, "scenario not found:", f.Case.Scenario)
	os.Exit(2)
}

// ---------------------------------------------------------------------------
// Parallel enumeration of an indexed finite space.

// ForEach runs f(i) for i in [0,n) on all cores. It stops early (returning
// false) when the deadline passes.
func (r *Run) ForEach(n int, f func(i int)) (complete bool) {
	workers := runtime.NumCPU()
	var next int64
	var mu sync.Mutex
	complete = true
	var wg sync.WaitGroup
	for w := 0; w < workers; w++ {
		wg.Add(1)
		go func() {
			defer wg.Done()
			for {
				mu.Lock()
				i := int(next)
				next++
				mu.Unlock()
				if i >= n {
					return
				}
				if i%64 == 0 && time.Now().After(r.deadline) {
					mu.Lock()
					complete = false
					next = int64(n)
					mu.Unlock()
					return
				}
				f(i)
			}
		}()
	}
	wg.Wait()
	return complete
}
