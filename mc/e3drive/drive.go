// Package e3drive drives E3 explorations: it turns e3scn scenarios into
// explorer bodies (one controlled execution per choice vector) and enumerates
// the choice vectors with worker subprocesses (the scheduler is process-global,
// so parallelism is by process; a worker also bounds the damage of leaks and of
// a hang in uninstrumented code).
package e3drive

import (
	"bufio"
	"encoding/json"
	"flag"
	"fmt"
	"io"
	"log"
	"os"
	"os/exec"
	"runtime"
	"runtime/pprof"
	"sort"
	"strings"
	"sync"
	"time"

	"github.com/sarchlab/akita/v4/sim"

	"verif/mc/e3scn"
	"verif/mc/explore"
	"verif/mc/harness"
	"verif/mc/sched"
	ssync "verif/mc/sched/ssync"
)

var workerFlag = flag.Bool("e3worker", false, "internal: run as exploration worker")
var benchFlag = flag.Int("e3bench", 0, "internal: run the default schedule of every scenario N times in-process and print timings")
var profFlag = flag.String("e3prof", "", "internal: CPU profile file for -e3bench")
var workersFlag = flag.Int("workers", 0, "number of worker processes (0 = NumCPU)")

// Scenario is one exploration target.
type Scenario struct {
	Sc      e3scn.Scenario
	Bound   int
	Horizon int
	// Twice runs every schedule twice and compares the outcomes (sampling of
	// map iteration order).
	Twice bool
	// DeadlockIsNotMine: a deadlock ends the execution without an outcome and
	// without a violation (C05: lost wake-ups are C12's findings); counted.
	DeadlockIsNotMine bool
	// NondetIsViolation (C05): behaviour that differs under one and the same
	// choice vector (replay divergence, unstable confirmation) is the property
	// violation itself, not an infrastructure error.
	NondetIsViolation bool
	// Post, when set, inspects the outcome of an execution.
	Post func(outcome string) *explore.Violation
}

// ---------------------------------------------------------------------------
// controlled runtime

type managedRT struct {
	wg       ssync.WaitGroup
	viol     *explore.Violation
	outcome  string
	classify func([]e3scn.Blocked) string
}

func (m *managedRT) Go(name string, f func()) {
	m.wg.Add(1)
	sched.GoApp(name, func() {
		defer m.wg.Done()
		f()
	})
}
func (m *managedRT) Wait() { m.wg.Wait() }
func (m *managedRT) Fail(sig, format string, a ...any) {
	if m.viol == nil {
		m.viol = explore.Viol(sig, format, a...)
		sched.Logf("ORACLE VIOLATION %s: %s", sig, m.viol.Msg)
	}
}
func (m *managedRT) Logf(format string, a ...any)              { sched.Logf(format, a...) }
func (m *managedRT) Quiesce()                                  { sched.Quiesce() }
func (m *managedRT) Outcome(s string)                          { m.outcome = s }
func (m *managedRT) OnDeadlock(f func([]e3scn.Blocked) string) { m.classify = f }

// RunOnce performs one controlled execution of a scenario.
type chooser struct {
	*explore.Exec
	prefix int
}

// Replaying: still inside the choice prefix inherited from the parent execution.
func (c *chooser) Replaying() bool { return len(c.Choices) < c.prefix }

func RunOnce(sc *Scenario, x *explore.Exec, prefixLen int) (*explore.Violation, string, *sched.Result) {
	rt := &managedRT{}
	hz := sc.Horizon
	if hz == 0 {
		hz = 60000
	}
	cfg := sched.Config{Horizon: hz, Record: x.Record}
	cfg.Classify = func(r *sched.Result) string {
		if rt.classify == nil {
			return ""
		}
		var bl []e3scn.Blocked
		for _, t := range r.Threads {
			bl = append(bl, e3scn.Blocked{ID: t.ID, Name: t.Name, Daemon: t.Daemon, What: t.What, Stack: t.Stack, Finished: t.Finished,
				LastPreempt: t.LastPreempt, LastPreemptStack: t.LastPreemptStack})
		}
		return rt.classify(bl)
	}
	res := sched.Run(&chooser{Exec: x, prefix: prefixLen}, cfg, func() { sc.Sc.Main(rt, sc.Sc.Opts) })
	x.Steps += res.Steps
	if x.Record {
		x.Trace = append(x.Trace, res.Trace...)
	}
	switch res.Kind {
	case "capped":
		x.Capped = true
		return nil, "", res
	case "deadlock":
		if sc.DeadlockIsNotMine {
			return nil, "", res
		}
		return explore.Viol("deadlock/"+res.Class, "%s", res.Msg), "", res
	case "abort":
		return explore.Viol(abortSig(res.Msg), "%s", res.Msg), "", res
	}
	if rt.viol != nil {
		return rt.viol, "", res
	}
	return nil, rt.outcome, res
}

func abortSig(msg string) string {
	first := msg
	if i := strings.Index(first, "\n"); i >= 0 {
		first = first[:i]
	}
	// "panic in thread T3 (d.runEngine): text" -> panic/d.runEngine/text
	kind := "abort"
	if strings.HasPrefix(first, "panic in thread") {
		kind = "panic"
	} else if strings.Contains(first, "Exit(") || strings.Contains(first, "fatal") {
		kind = "exit"
	}
	name, text := "", first
	if i := strings.Index(first, "("); i >= 0 {
		if j := strings.Index(first[i:], ")"); j > 0 && strings.HasPrefix(first, "panic in thread") {
			name = first[i+1 : i+j]
			text = strings.TrimPrefix(first[i+j+1:], ": ")
		}
	}
	if kind == "exit" {
		if i := strings.Index(first, "after recovered panic: "); i >= 0 {
			text = first[i+len("after recovered panic: "):]
		}
		if i := strings.Index(first, "in thread T"); i >= 0 {
			if a := strings.Index(first[i:], "("); a >= 0 {
				if b := strings.Index(first[i+a:], ")"); b > 0 {
					name = first[i+a+1 : i+a+b]
				}
			}
		}
	}
	text = strings.Map(func(r rune) rune {
		if r >= '0' && r <= '9' {
			return '#'
		}
		return r
	}, text)
	if len(text) > 60 {
		text = text[:60]
	}
	return kind + "/" + name + "/" + strings.TrimSpace(text)
}

// Sampling reports whether a signature is the result of the twice-run sampling
// (same schedule, different outcome): by nature not reproducible on demand.
func Sampling(sig string) bool {
	return strings.HasPrefix(sig, "same-schedule-different-outcome") || strings.HasPrefix(sig, "nondeterministic")
}

// LastKind is how the first run of the last Execute ended ("ok", "deadlock", ...).
var LastKind string

// Execute runs one choice vector (twice when the scenario asks for it).
func Execute(sc *Scenario, bound int, prefix []int, record bool, st *stateSink) (x *explore.Exec, v *explore.Violation, infra string, outcome string) {
	ex := &explore.Explorer{Bound: bound}
	var out1 string
	LastKind = ""
	body := func(o *string) explore.Body {
		return func(x *explore.Exec) *explore.Violation {
			v, out, res := RunOnce(sc, x, len(prefix))
			if st != nil {
				st.add(res.States)
			}
			*o = out
			if LastKind == "" {
				LastKind = res.Kind
			}
			return v
		}
	}
	x, v, infra = ex.RunOne(body(&out1), prefix, record)
	if infra != "" && sc.NondetIsViolation && strings.Contains(infra, "replay divergence") {
		return x, explore.Viol("nondeterministic-under-fixed-schedule", "a choice vector recorded by one execution does not fit the next execution of the same prefix: %s", infra), "", ""
	}
	if v != nil || infra != "" || x.Capped {
		return x, v, infra, ""
	}
	if sc.Twice {
		// the same schedule again on a fresh instance: everything the harness
		// does not own (map iteration order) gets a second draw
		var out2 string
		_, v2, infra2 := ex.RunOne(body(&out2), x.Choices, false)
		if infra2 != "" {
			if sc.NondetIsViolation {
				return x, explore.Viol("nondeterministic-under-fixed-schedule", "the second run of the same choice vector took a different path: %s", infra2), "", ""
			}
			return x, nil, "second run of the same schedule: " + infra2, ""
		}
		if v2 != nil {
			return x, explore.Viol("nondeterministic-under-fixed-schedule", "second run of the same schedule failed: %s: %s", v2.Sig, v2.Msg), "", ""
		}
		if out2 != out1 {
			return x, explore.Viol("same-schedule-different-outcome", "run 1: %s\nrun 2: %s", out1, out2), "", ""
		}
	}
	if sc.Post != nil {
		if pv := sc.Post(out1); pv != nil {
			return x, pv, "", out1
		}
	}
	return x, nil, "", out1
}

type stateSink struct {
	seen map[uint64]struct{}
	new  []uint64
}

func (s *stateSink) add(fps []uint64) {
	for _, fp := range fps {
		if _, ok := s.seen[fp]; !ok {
			s.seen[fp] = struct{}{}
			s.new = append(s.new, fp)
		}
	}
}

// ---------------------------------------------------------------------------
// worker protocol

type job struct {
	Scenario string `json:"s"`
	Bound    int    `json:"b"`
	Prefix   []int  `json:"p"`
	Confirm  bool   `json:"c,omitempty"`
}

type reply struct {
	N        []int    `json:"n"`
	Choices  []int    `json:"ch"`
	Steps    int      `json:"st"`
	Capped   bool     `json:"cap,omitempty"`
	Outcome  string   `json:"o,omitempty"`
	Sig      string   `json:"sig,omitempty"`
	Msg      string   `json:"msg,omitempty"`
	Infra    string   `json:"infra,omitempty"`
	States   []uint64 `json:"fp,omitempty"`
	Tags     []string `json:"tags,omitempty"`
	Bye      bool     `json:"bye,omitempty"`
	RSSMB    int      `json:"rss,omitempty"`
	Unstable string   `json:"unstable,omitempty"`
	Kind     string   `json:"k,omitempty"`
}

const workerMaxJobs = 40000

func prewarm() {
	log.SetOutput(io.Discard)
	sim.GetIDGenerator().Generate()
}

func serveWorker(scs []Scenario) {
	prewarm()
	in := bufio.NewReaderSize(os.NewFile(3, "jobs"), 1<<20)
	out := bufio.NewWriterSize(os.NewFile(4, "replies"), 1<<20)
	byName := map[string]*Scenario{}
	for i := range scs {
		byName[scs[i].Sc.Name] = &scs[i]
	}
	sink := &stateSink{seen: map[uint64]struct{}{}}
	dec := json.NewDecoder(in)
	enc := json.NewEncoder(out)
	for n := 1; ; n++ {
		var j job
		if err := dec.Decode(&j); err != nil {
			os.Exit(0)
		}
		sc := byName[j.Scenario]
		var rp reply
		if sc == nil {
			rp.Infra = "unknown scenario " + j.Scenario
		} else {
			sink.new = sink.new[:0]
			x, v, infra, outcome := Execute(sc, j.Bound, j.Prefix, false, sink)
			rp.Infra = infra
			rp.Choices = x.Choices
			rp.N = make([]int, len(x.Points))
			for i, p := range x.Points {
				rp.N[i] = p.N
			}
			rp.Steps, rp.Capped = x.Steps, x.Capped
			rp.Outcome = outcome
			rp.Kind = LastKind
			rp.States = append([]uint64(nil), sink.new...)
			if v != nil {
				rp.Sig, rp.Msg = v.Sig, v.Msg
			}
			if j.Confirm && v != nil && Sampling(v.Sig) {
				// a verdict about nondeterminism itself cannot be confirmed by re-running
				for _, p := range x.Points {
					rp.Tags = append(rp.Tags, p.Tag)
				}
			} else if j.Confirm && v != nil {
				for i := 0; i < 5; i++ {
					_, v2, infra2, _ := Execute(sc, j.Bound, x.Choices, false, nil)
					if infra2 != "" || v2 == nil || v2.Sig != v.Sig {
						got := "<nil>"
						if v2 != nil {
							got = v2.Sig
						}
						rp.Unstable = fmt.Sprintf("nondeterministic replay of %v: first %s then %s %s", x.Choices, v.Sig, got, infra2)
						if sc.NondetIsViolation {
							rp.Sig, rp.Msg, rp.Unstable = "nondeterministic-under-fixed-schedule", rp.Unstable, ""
						}
						break
					}
				}
				for _, p := range x.Points {
					rp.Tags = append(rp.Tags, p.Tag)
				}
			}
		}
		if n >= workerMaxJobs {
			rp.Bye = true
		}
		if n%500 == 0 || rp.Bye {
			var ms runtime.MemStats
			runtime.ReadMemStats(&ms)
			rp.RSSMB = int(ms.Sys >> 20)
			if rp.RSSMB > 3000 {
				rp.Bye = true
			}
		}
		if err := enc.Encode(&rp); err != nil {
			os.Exit(0)
		}
		out.Flush()
		if rp.Bye {
			os.Exit(0)
		}
	}
}

type worker struct {
	cmd *exec.Cmd
	enc *json.Encoder
	dec *json.Decoder
	w   *os.File
	r   *os.File
}

func startWorker() (*worker, error) {
	jr, jw, err := os.Pipe()
	if err != nil {
		return nil, err
	}
	rr, rw, err := os.Pipe()
	if err != nil {
		return nil, err
	}
	cmd := exec.Command(os.Args[0], append(append([]string{}, os.Args[1:]...), "-e3worker")...)
	// one P per worker: exactly one managed goroutine runs at a time anyway, and
	// hand-offs between goroutines of the same P are direct switches
	cmd.Env = append(os.Environ(), "GOMAXPROCS=1")
	cmd.ExtraFiles = []*os.File{jr, rw}
	cmd.Stdout = os.Stderr
	cmd.Stderr = os.Stderr
	if err := cmd.Start(); err != nil {
		return nil, err
	}
	jr.Close()
	rw.Close()
	return &worker{cmd: cmd, enc: json.NewEncoder(jw), dec: json.NewDecoder(bufio.NewReaderSize(rr, 1<<20)), w: jw, r: rr}, nil
}

func (w *worker) stop() {
	w.w.Close()
	done := make(chan struct{})
	go func() { w.cmd.Wait(); close(done) }()
	select {
	case <-done:
	case <-time.After(5 * time.Second):
		w.cmd.Process.Kill()
		<-done
	}
	w.r.Close()
}

// call sends one job; a worker that does not answer within the watchdog
// period is killed and reported as an infrastructure error (never a verdict).
func (w *worker) call(j *job) (*reply, error) {
	if err := w.enc.Encode(j); err != nil {
		return nil, err
	}
	var rp reply
	errc := make(chan error, 1)
	go func() { errc <- w.dec.Decode(&rp) }()
	select {
	case err := <-errc:
		if err != nil {
			return nil, fmt.Errorf("worker died: %v", err)
		}
		return &rp, nil
	case <-time.After(180 * time.Second):
		w.cmd.Process.Kill()
		return nil, fmt.Errorf("worker hung (watchdog 180 s)")
	}
}

// ---------------------------------------------------------------------------
// coordinator

type exploration struct {
	sc       *Scenario
	bound    int
	deadline time.Time
	maxFound int

	mu       sync.Mutex
	cond     *sync.Cond
	stack    [][]int
	active   int
	stop     bool
	st       explore.Stats
	states   map[uint64]struct{}
	outcomes map[string]int
	found    map[string]*explore.Found
	infra    []string
	maxRSS   int
	dead     int64
	outVec   map[string][]int
}

func (e *exploration) run(nw int, states map[uint64]struct{}) (explore.Stats, []*explore.Found) {
	start := time.Now()
	e.cond = sync.NewCond(&e.mu)
	e.stack = [][]int{{}}
	e.states = states
	e.outcomes = map[string]int{}
	e.outVec = map[string][]int{}
	e.found = map[string]*explore.Found{}
	e.st = explore.Stats{Bound: e.bound, Exhaustive: true}
	if e.maxFound == 0 {
		e.maxFound = 20
	}
	var wg sync.WaitGroup
	for i := 0; i < nw; i++ {
		wg.Add(1)
		go func() {
			defer wg.Done()
			e.loop()
		}()
	}
	wg.Wait()
	e.st.States = len(e.states)
	e.st.Outcomes = len(e.outcomes)
	for o := range e.outcomes {
		e.st.OutcomeList = append(e.st.OutcomeList, o)
	}
	sort.Strings(e.st.OutcomeList)
	e.st.WallS = time.Since(start).Seconds()
	e.st.Infra = e.infra
	var fs []*explore.Found
	for _, f := range e.found {
		fs = append(fs, f)
	}
	sort.Slice(fs, func(i, j int) bool { return fs[i].Sig < fs[j].Sig })
	return e.st, fs
}

func (e *exploration) fail(msg string) {
	e.mu.Lock()
	e.infra = append(e.infra, msg)
	e.stop = true
	e.st.Exhaustive = false
	e.mu.Unlock()
	e.cond.Broadcast()
}

func (e *exploration) loop() {
	w, err := startWorker()
	if err != nil {
		e.fail("cannot start worker: " + err.Error())
		return
	}
	defer func() { w.stop() }()
	for {
		e.mu.Lock()
		for len(e.stack) == 0 && e.active > 0 && !e.stop {
			e.cond.Wait()
		}
		if e.stop || (len(e.stack) == 0 && e.active == 0) {
			if len(e.stack) > 0 {
				e.st.Exhaustive = false
			}
			e.mu.Unlock()
			e.cond.Broadcast()
			return
		}
		if !e.deadline.IsZero() && time.Now().After(e.deadline) {
			e.stop = true
			e.st.Exhaustive = false
			e.mu.Unlock()
			e.cond.Broadcast()
			return
		}
		prefix := e.stack[len(e.stack)-1]
		e.stack = e.stack[:len(e.stack)-1]
		e.active++
		e.mu.Unlock()

		rp, err := w.call(&job{Scenario: e.sc.Sc.Name, Bound: e.bound, Prefix: prefix})
		if err == nil && rp.Infra != "" {
			err = fmt.Errorf("%s", rp.Infra)
		}
		if err != nil {
			e.mu.Lock()
			e.active--
			e.mu.Unlock()
			e.fail(fmt.Sprintf("%s: %v while executing choice vector %v", e.sc.Sc.Name, err, prefix))
			return
		}
		if rp.Sig != "" {
			e.mu.Lock()
			_, dup := e.found[rp.Sig]
			e.mu.Unlock()
			if !dup && !rp.Bye {
				cr, err := w.call(&job{Scenario: e.sc.Sc.Name, Bound: e.bound, Prefix: rp.Choices, Confirm: true})
				switch {
				case err != nil:
					e.mu.Lock()
					e.active--
					e.mu.Unlock()
					e.fail(fmt.Sprintf("%s: %v while confirming %v", e.sc.Sc.Name, err, rp.Choices))
					return
				case cr.Sig != rp.Sig && Sampling(cr.Sig):
					// the confirmation itself showed nondeterminism (C05)
					e.mu.Lock()
					if _, dup := e.found[cr.Sig]; !dup {
						e.found[cr.Sig] = &explore.Found{Sig: cr.Sig, Msg: cr.Msg, Choices: rp.Choices, Tags: cr.Tags}
					}
					e.mu.Unlock()
				case cr.Unstable != "" || (cr.Sig != rp.Sig && !Sampling(rp.Sig)):
					e.fail(fmt.Sprintf("%s: %s (confirmation gave %q)", e.sc.Sc.Name, cr.Unstable, cr.Sig))
				default:
					e.mu.Lock()
					if _, dup := e.found[rp.Sig]; !dup {
						e.found[rp.Sig] = &explore.Found{Sig: rp.Sig, Msg: rp.Msg, Choices: rp.Choices, Tags: cr.Tags}
						if len(e.found) >= e.maxFound {
							e.stop = true
							e.st.Exhaustive = false
						}
					}
					e.mu.Unlock()
				}
				if cr != nil && cr.Bye {
					rp.Bye = true
				}
			}
		}
		// children
		var kids [][]int
		devs := 0
		for i := 0; i < len(prefix) && i < len(rp.Choices); i++ {
			if rp.Choices[i] != 0 {
				devs++
			}
		}
		if devs+1 <= e.bound {
			for i := len(rp.N) - 1; i >= len(prefix); i-- {
				for alt := rp.N[i] - 1; alt >= 1; alt-- {
					k := make([]int, i+1)
					copy(k, rp.Choices[:i])
					k[i] = alt
					kids = append(kids, k)
				}
			}
		}
		e.mu.Lock()
		e.active--
		e.st.Executions++
		e.st.ChoicePoints += int64(len(rp.N))
		e.st.Transitions += int64(rp.Steps)
		if int64(len(rp.N)) > e.st.MaxDepth {
			e.st.MaxDepth = int64(len(rp.N))
		}
		if rp.Capped {
			e.st.CappedExecs++
			e.st.Exhaustive = false
		}
		if rp.Kind == "deadlock" {
			e.dead++
		}
		if rp.Outcome != "" {
			e.outcomes[rp.Outcome]++
			if old, ok := e.outVec[rp.Outcome]; !ok || nonzero(rp.Choices) < nonzero(old) || (nonzero(rp.Choices) == nonzero(old) && len(rp.Choices) < len(old)) {
				e.outVec[rp.Outcome] = rp.Choices
			}
		}
		for _, fp := range rp.States {
			e.states[fp] = struct{}{}
		}
		if rp.RSSMB > e.maxRSS {
			e.maxRSS = rp.RSSMB
		}
		e.stack = append(e.stack, kids...)
		e.mu.Unlock()
		e.cond.Broadcast()
		if rp.Bye {
			w.stop()
			w, err = startWorker()
			if err != nil {
				e.fail("cannot restart worker: " + err.Error())
				return
			}
		}
	}
}

// Summary is what Main hands back for check-specific evidence.
type Summary struct {
	PerScenario []map[string]any
	Outcomes    map[string][]string // scenario -> distinct outcomes (up to 12)
	Found       map[string][]*explore.Found
	// OutcomeVectors: scenario -> outcome -> a choice vector with the fewest
	// deviations that produced it (from the last completed bound).
	OutcomeVectors map[string]map[string][]int
}

// Main runs the check: worker mode, replay mode, or the exploration.
func Main(r *harness.Run, scs []Scenario, rule string) *Summary {
	if *workerFlag {
		serveWorker(scs)
		os.Exit(0)
	}
	prewarm()
	if *benchFlag > 0 {
		bench(scs, *benchFlag)
	}
	if r.Replay != "" {
		replay(r, scs)
	}
	if only := os.Getenv("E3_ONLY"); only != "" { // development aid: restrict the scenarios
		var keep []Scenario
		for _, sc := range scs {
			if strings.Contains(sc.Sc.Name, only) {
				keep = append(keep, sc)
			}
		}
		scs = keep
	}
	nw := *workersFlag
	if nw <= 0 {
		nw = runtime.NumCPU()
	}
	sum := &Summary{Outcomes: map[string][]string{}, Found: map[string][]*explore.Found{}, OutcomeVectors: map[string]map[string][]int{}}
	exhaustive := true
	var totExec, totTrans, totChoice, maxDepth int64
	totOutcomes := 0
	allStates := map[uint64]struct{}{}
	for i := range scs {
		sc := &scs[i]
		var last explore.Stats
		completed := -1
		maxRSS := 0
		var scFound []*explore.Found
		var dead int64
		for b := 0; b <= sc.Bound; b++ {
			e := &exploration{sc: sc, bound: b, deadline: r.Deadline()}
			st, found := e.run(nw, allStates)
			for _, s := range st.Infra {
				r.Infra("%s: %s", sc.Sc.Name, s)
			}
			for _, f := range found {
				r.Report(f.Sig, f.Msg, harness.ReplayCase{Scenario: sc.Sc.Name, Choices: f.Choices, Tags: f.Tags})
			}
			if b == sc.Bound || !st.Exhaustive {
				scFound = found
			}
			last = st
			dead = e.dead
			sum.OutcomeVectors[sc.Sc.Name] = e.outVec
			if e.maxRSS > maxRSS {
				maxRSS = e.maxRSS
			}
			if st.Exhaustive {
				completed = b
			} else {
				break
			}
		}
		totExec += last.Executions
		totTrans += last.Transitions
		totChoice += last.ChoicePoints
		totOutcomes += last.Outcomes
		if last.MaxDepth > maxDepth {
			maxDepth = last.MaxDepth
		}
		if completed < sc.Bound {
			exhaustive = false
		}
		var sigs []string
		for _, f := range scFound {
			sigs = append(sigs, f.Sig)
		}
		ol := last.OutcomeList
		if len(ol) > 12 {
			ol = ol[:12]
		}
		sum.Outcomes[sc.Sc.Name] = ol
		sum.Found[sc.Sc.Name] = scFound
		ps := map[string]any{
			"scenario": sc.Sc.Name, "application_threads": sc.Sc.Threads,
			"preemption_bound_requested": sc.Bound, "preemption_bound_completed": completed,
			"executions": last.Executions, "choice_points": last.ChoicePoints, "scheduling_points": last.Transitions,
			"max_choice_points_in_one_execution": last.MaxDepth, "distinct_outcomes": last.Outcomes,
			"capped_executions": last.CappedExecs, "violation_signatures": sigs, "wall_s": round1(last.WallS),
			"worker_max_sys_mb": maxRSS, "executions_ending_in_deadlock": dead,
		}
		sum.PerScenario = append(sum.PerScenario, ps)
		fmt.Printf("scenario %-44s bound=%d/%d execs=%d choice-points=%d sched-points=%d outcomes=%d capped=%d violations=%d %.1fs\n",
			sc.Sc.Name, completed, sc.Bound, last.Executions, last.ChoicePoints, last.Transitions, last.Outcomes, last.CappedExecs, len(scFound), last.WallS)
		if len(ol) > 0 {
			r.Sample(map[string]any{"scenario": sc.Sc.Name, "an_outcome": ol[0]})
		}
	}
	r.Cov["states"] = len(allStates)
	r.Cov["states_definition"] = "distinct control states seen at choice points: vector over threads of (program position = innermost return addresses at the scheduling point, blocked/finished status, running thread)"
	r.Cov["transitions"] = totTrans
	r.Cov["traces_validated_against_impl"] = totExec
	r.Cov["evaluations"] = totExec
	r.Cov["executions"] = totExec
	r.Cov["choice_points"] = totChoice
	r.Cov["distinct_nontrivial"] = totOutcomes
	r.Cov["rule"] = rule
	r.Cov["exhaustive"] = exhaustive
	r.Cov["scenarios"] = sum.PerScenario
	r.Cov["max_choice_points"] = maxDepth
	r.Cov["worker_processes"] = nw
	return sum
}

func nonzero(v []int) int {
	n := 0
	for _, c := range v {
		if c != 0 {
			n++
		}
	}
	return n
}

func round1(f float64) float64 { return float64(int(f*10+0.5)) / 10 }

// replay re-executes one recorded choice vector and prints the schedule.
func replay(r *harness.Run, scs []Scenario) {
	data, err := os.ReadFile(r.Replay)
	if err != nil {
		fmt.Fprintln(os.Stderr, err)
		os.Exit(2)
	}
	var f struct {
		Signature string             `json:"signature"`
		Case      harness.ReplayCase `json:"case"`
	}
	if err := json.Unmarshal(data, &f); err != nil {
		fmt.Fprintln(os.Stderr, err)
		os.Exit(2)
	}
	for i := range scs {
		sc := &scs[i]
		if sc.Sc.Name != f.Case.Scenario {
			continue
		}
		fmt.Printf("replay of %s, scenario %s, choice vector %v\n", f.Signature, sc.Sc.Name, f.Case.Choices)
		fmt.Println("schedule (T<id> <thread> <operation> <source position of the caller>; only operations of the shim are shown):")
		x, v, infra, outcome := Execute(sc, 1<<30, f.Case.Choices, true, nil)
		for _, l := range x.Trace {
			fmt.Println(" ", l)
		}
		fmt.Println("condensed schedule (thread switches only):")
		for _, l := range x.Trace {
			if strings.Contains(l, "PREEMPTED") || strings.Contains(l, "BLOCKS") || strings.Contains(l, "   -> T") || strings.Contains(l, "FINISHED") ||
				strings.Contains(l, " go ") || strings.Contains(l, "spawns") || strings.Contains(l, "PANIC") || strings.Contains(l, "ORACLE") || strings.Contains(l, "Exit(") {
				fmt.Println(" ", l)
			}
		}
		if infra != "" {
			fmt.Println("INFRASTRUCTURE ERROR:", infra)
			os.Exit(2)
		}
		if v != nil {
			fmt.Printf("VIOLATION property=%s replay=%s\n  signature: %s\n  %s\n", r.ID, r.Replay, v.Sig, strings.ReplaceAll(v.Msg, "\n", "\n  "))
			os.Exit(1)
		}
		fmt.Println("replay: no violation; outcome:", outcome)
		os.Exit(0)
	}
	fmt.Fprintln(os.Stderr, "scenario not found:", f.Case.Scenario)
	os.Exit(2)
}

func bench(scs []Scenario, n int) {
	if *profFlag != "" {
		f, _ := os.Create(*profFlag)
		pprof.StartCPUProfile(f)
		defer pprof.StopCPUProfile()
	}
	for i := range scs {
		sc := &scs[i]
		var ms runtime.MemStats
		start := time.Now()
		steps, pts := 0, 0
		for k := 0; k < n; k++ {
			x, _, _, _ := Execute(sc, 2, nil, false, nil)
			steps, pts = x.Steps, len(x.Points)
		}
		runtime.ReadMemStats(&ms)
		fmt.Printf("%-44s %8.3f ms/exec  sched-points=%d choice-points=%d goroutines=%d sys=%dMB\n", sc.Sc.Name,
			float64(time.Since(start).Microseconds())/1000/float64(n), steps, pts, runtime.NumGoroutine(), ms.Sys>>20)
	}
	if *profFlag != "" {
		pprof.StopCPUProfile()
	}
	os.Exit(0)
}
