// Package workers runs the cases of an indexed finite space in worker
// subprocesses (E6). Code under test that calls log.Fatal / os.Exit /
// atexit.Exit, keeps package-level state that is not goroutine safe, or
// registers global handlers can then neither kill the check nor make two
// cases interfere: a worker that dies is reported for exactly the case it was
// executing and is restarted on the rest of its chunk.
//
// The binary re-executes itself (os.Args[0]) with -worker. Protocol on the
// worker's stdin/stdout (the real fd 1 is re-pointed to /dev/null inside the
// worker so that prints of the code under test cannot corrupt it):
//
//	parent -> worker   I <lo> <hi>\n        run cases lo..hi-1
//	                   C <json>\n           run one self-contained (replay) case
//	worker -> parent   B <i>\n              about to run case i (-1 for C)
//	                   R <i> <json>\n       result of case i
package workers

import (
	"bufio"
	"bytes"
	"encoding/json"
	"flag"
	"fmt"
	"io"
	"os"
	"os/exec"
	"runtime"
	"strconv"
	"strings"
	"sync"
	"syscall"
	"time"
)

var workerFlag = flag.Bool("worker", false, "internal: serve cases on stdin/stdout")

// IsWorker reports whether this process was started as a worker (valid after
// flag.Parse, i.e. after harness.Start).
func IsWorker() bool { return *workerFlag }

// Serve is the worker main loop; it never returns.
func Serve(byIndex func(i int) any, byCase func(c json.RawMessage) any) {
	fd, err := syscall.Dup(1)
	if err != nil {
		fmt.Fprintln(os.Stderr, "worker: dup:", err)
		os.Exit(3)
	}
	proto := bufio.NewWriter(os.NewFile(uintptr(fd), "proto"))
	devnull, err := os.OpenFile(os.DevNull, os.O_WRONLY, 0)
	if err == nil {
		syscall.Dup2(int(devnull.Fd()), 1)
		os.Stdout = devnull
	}
	in := bufio.NewReader(os.Stdin)
	emit := func(i int, res any) {
		data, err := json.Marshal(res)
		if err != nil {
			fmt.Fprintln(os.Stderr, "worker: marshal:", err)
			os.Exit(3)
		}
		fmt.Fprintf(proto, "R %d %s\n", i, data)
		proto.Flush()
	}
	for {
		line, err := in.ReadString('\n')
		if err != nil {
			os.Exit(0)
		}
		line = strings.TrimRight(line, "\n")
		switch {
		case strings.HasPrefix(line, "I "):
			f := strings.Fields(line)
			lo, _ := strconv.Atoi(f[1])
			hi, _ := strconv.Atoi(f[2])
			for i := lo; i < hi; i++ {
				fmt.Fprintf(proto, "B %d\n", i)
				proto.Flush()
				emit(i, byIndex(i))
			}
		case strings.HasPrefix(line, "C "):
			fmt.Fprintf(proto, "B -1\n")
			proto.Flush()
			emit(-1, byCase(json.RawMessage(line[2:])))
		}
	}
}

// Result is what the parent sees for one case.
type Result struct {
	Index  int
	Data   json.RawMessage
	Died   bool   // the worker process ended while executing this case
	Stderr string // tail of the worker's stderr (when Died)
}

type tailBuf struct {
	mu  sync.Mutex
	buf []byte
}

func (t *tailBuf) Write(p []byte) (int, error) {
	t.mu.Lock()
	t.buf = append(t.buf, p...)
	if len(t.buf) > 8192 {
		t.buf = t.buf[len(t.buf)-8192:]
	}
	t.mu.Unlock()
	return len(p), nil
}

func (t *tailBuf) String() string {
	t.mu.Lock()
	defer t.mu.Unlock()
	return string(t.buf)
}

type proc struct {
	cmd *exec.Cmd
	in  io.WriteCloser
	out *bufio.Reader
	err *tailBuf
}

func start(args []string, dir string) (*proc, error) {
	cmd := exec.Command(os.Args[0], append([]string{"-worker"}, args...)...)
	cmd.Dir = dir
	in, err := cmd.StdinPipe()
	if err != nil {
		return nil, err
	}
	out, err := cmd.StdoutPipe()
	if err != nil {
		return nil, err
	}
	tb := &tailBuf{}
	cmd.Stderr = tb
	if err := cmd.Start(); err != nil {
		return nil, err
	}
	return &proc{cmd: cmd, in: in, out: bufio.NewReaderSize(out, 1<<16), err: tb}, nil
}

func (p *proc) stop() {
	p.in.Close()
	p.cmd.Wait()
}

// Pool configuration.
type Pool struct {
	Args     []string  // extra arguments for the workers (e.g. -tier)
	Dir      string    // working directory of the workers ("" = inherit)
	Chunk    int       // cases per request (default 32)
	Workers  int       // default NumCPU
	Deadline time.Time // stop handing out work after this (zero = never)
	// Recycle restarts a worker after it has served this many cases (0 =
	// never); bounds memory held by global registries of the code under test.
	Recycle int
}

// Run executes cases 0..n-1 and calls handle for every result (serialised,
// in no particular order). It returns false if the deadline cut it short and
// an error for infrastructure failures (workers cannot be started, protocol
// violations).
func (pl Pool) Run(n int, handle func(Result)) (complete bool, err error) {
	if pl.Chunk <= 0 {
		pl.Chunk = 32
	}
	if pl.Workers <= 0 {
		pl.Workers = runtime.NumCPU()
	}
	var mu sync.Mutex
	next := 0
	complete = true
	var firstErr error
	grab := func() (lo, hi int, ok bool) {
		mu.Lock()
		defer mu.Unlock()
		if firstErr != nil || next >= n {
			return 0, 0, false
		}
		if !pl.Deadline.IsZero() && time.Now().After(pl.Deadline) {
			complete = false
			next = n
			return 0, 0, false
		}
		lo = next
		hi = lo + pl.Chunk
		if hi > n {
			hi = n
		}
		next = hi
		return lo, hi, true
	}
	fail := func(e error) {
		mu.Lock()
		if firstErr == nil {
			firstErr = e
		}
		mu.Unlock()
	}
	var hmu sync.Mutex
	deliver := func(r Result) {
		hmu.Lock()
		handle(r)
		hmu.Unlock()
	}
	var wg sync.WaitGroup
	for w := 0; w < pl.Workers; w++ {
		wg.Add(1)
		go func() {
			defer wg.Done()
			var p *proc
			served := 0
			defer func() {
				if p != nil {
					p.stop()
				}
			}()
			for {
				lo, hi, ok := grab()
				if !ok {
					return
				}
				for lo < hi {
					if p != nil && pl.Recycle > 0 && served >= pl.Recycle {
						p.stop()
						p = nil
						served = 0
					}
					if p == nil {
						var e error
						if p, e = start(pl.Args, pl.Dir); e != nil {
							fail(fmt.Errorf("cannot start worker: %w", e))
							return
						}
					}
					fmt.Fprintf(p.in, "I %d %d\n", lo, hi)
					cur := -1
					for lo < hi {
						line, e := p.out.ReadBytes('\n')
						if e != nil {
							// worker died
							p.cmd.Wait()
							if cur < 0 {
								fail(fmt.Errorf("worker died outside a case (chunk %d..%d): %s", lo, hi, p.err.String()))
								return
							}
							deliver(Result{Index: cur, Died: true, Stderr: p.err.String()})
							lo = cur + 1
							p = nil
							break
						}
						i, data, kind, e := parseLine(line)
						if e != nil {
							fail(e)
							return
						}
						if kind == 'B' {
							cur = i
							continue
						}
						if i != lo {
							fail(fmt.Errorf("protocol: result for %d, expected %d", i, lo))
							return
						}
						deliver(Result{Index: i, Data: data})
						served++
						lo++
						cur = -1
					}
				}
			}
		}()
	}
	wg.Wait()
	return complete, firstErr
}

// RunCase executes one self-contained case in a fresh worker.
func (pl Pool) RunCase(c any) (Result, error) {
	data, err := json.Marshal(c)
	if err != nil {
		return Result{}, err
	}
	p, err := start(pl.Args, pl.Dir)
	if err != nil {
		return Result{}, err
	}
	defer p.stop()
	fmt.Fprintf(p.in, "C %s\n", data)
	began := false
	for {
		line, e := p.out.ReadBytes('\n')
		if e != nil {
			p.cmd.Wait()
			if !began {
				return Result{}, fmt.Errorf("worker died before the case: %s", p.err.String())
			}
			return Result{Index: -1, Died: true, Stderr: p.err.String()}, nil
		}
		_, d, kind, e := parseLine(line)
		if e != nil {
			return Result{}, e
		}
		if kind == 'B' {
			began = true
			continue
		}
		return Result{Index: -1, Data: d}, nil
	}
}

func parseLine(line []byte) (i int, data json.RawMessage, kind byte, err error) {
	line = bytes.TrimRight(line, "\n")
	if len(line) < 3 || (line[0] != 'B' && line[0] != 'R') || line[1] != ' ' {
		return 0, nil, 0, fmt.Errorf("protocol: unexpected worker output %q", firstN(line, 200))
	}
	rest := line[2:]
	sp := bytes.IndexByte(rest, ' ')
	num := rest
	if sp >= 0 {
		num = rest[:sp]
		data = append(json.RawMessage(nil), rest[sp+1:]...)
	}
	i, err = strconv.Atoi(string(num))
	if err != nil {
		return 0, nil, 0, fmt.Errorf("protocol: bad index in %q", firstN(line, 200))
	}
	return i, data, line[0], nil
}

func firstN(b []byte, n int) []byte {
	if len(b) > n {
		return b[:n]
	}
	return b
}
