package e3scn

import (
	"bytes"
	"fmt"

	"github.com/sarchlab/mgpusim/v4/amd/driver"
)

// Scenario is one closed program: a world plus application threads.
type Scenario struct {
	Name string
	Opts Opts
	// Main runs as the first application thread. It builds the world itself
	// (so that the construction is part of the controlled execution).
	Main func(rt RT, o Opts)
	// Threads is the number of application threads (documentation).
	Threads int
}

var idSeq = map[string]int{}

func h2d(w *World, q *driver.CommandQueue, id string, dst driver.Ptr, data []byte) string {
	w.Driver.Enqueue(q, &driver.MemCopyH2DCommand{ID: id, Dst: dst, Src: data})
	return id
}

func d2h(w *World, q *driver.CommandQueue, id string, out []byte, src driver.Ptr) string {
	w.Driver.Enqueue(q, &driver.MemCopyD2HCommand{ID: id, Dst: out, Src: src})
	return id
}

func expect(w *World, what string, got, want []byte) {
	if !bytes.Equal(got, want) {
		w.RT.Fail("wrong-data/"+what, "%s: read back %v, expected %v", what, got, want)
	}
}

func outcome(w *World, ctxs []*driver.Context, bufs []driver.Ptr, n int, extra string) {
	var b bytes.Buffer
	if Instrumented {
		for i, c := range ctxs {
			fmt.Fprintf(&b, "mem%d=%v ", i, w.DeviceBytes(ctxPID(c), bufs[i], n))
		}
	}
	fmt.Fprintf(&b, "%s| %s", extra, w.Times())
	w.RT.Outcome(b.String())
}

// Commands1Q: one thread, one queue, n in {1,2,3} commands, then drain.
func Commands1Q(n int, o Opts) Scenario {
	return Scenario{Name: fmt.Sprintf("1thread-1queue-%dcmd%s", n, suffix(o)), Opts: o, Threads: 1, Main: func(rt RT, o Opts) {
		w := NewWorld(rt, o)
		d := w.Driver
		ctx := d.Init()
		buf := d.AllocateMemory(ctx, 8)
		q := d.CreateCommandQueue(ctx)
		a := []byte{1, 2, 3, 4, 5, 6, 7, 8}
		b := []byte{11, 12, 13, 14, 15, 16, 17, 18}
		out := make([]byte, 8)
		var ids []string
		want := a
		switch n {
		case 1:
			ids = append(ids, h2d(w, q, "c0", buf, a))
		case 2:
			ids = append(ids, h2d(w, q, "c0", buf, a), d2h(w, q, "c1", out, buf))
		default:
			ids = append(ids, h2d(w, q, "c0", buf, a), h2d(w, q, "c1", buf, b), d2h(w, q, "c2", out, buf))
			want = b
		}
		w.Drain("main", q, ids...)
		w.CheckOrder("q", ids)
		if n >= 2 {
			expect(w, "d2h-after-h2d", out, want)
		}
		outcome(w, []*driver.Context{ctx}, []driver.Ptr{buf}, 8, fmt.Sprint(out))
	}}
}

// Kernel1Q: H2D data; kernel add; D2H on one queue (the launch itself enqueues
// three more H2D copies before the kernel command).
func Kernel1Q(o Opts) Scenario {
	return Scenario{Name: "1thread-1queue-h2d-kernel-d2h" + suffix(o), Opts: o, Threads: 1, Main: func(rt RT, o Opts) {
		w := NewWorld(rt, o)
		d := w.Driver
		ctx := d.Init()
		buf := d.AllocateMemory(ctx, 4)
		q := d.CreateCommandQueue(ctx)
		out := make([]byte, 4)
		h2d(w, q, "c0", buf, []byte{1, 2, 3, 4})
		d.EnqueueLaunchKernel(q, AddKernel, [3]uint32{4, 1, 1}, [3]uint16{4, 1, 1}, &KernelArgs{Buf: buf, N: 4, Add: 5})
		d2h(w, q, "c9", out, buf)
		w.Drain("main", q, "c0", "c9")
		w.CheckOrder("q", []string{"c0", "c9"})
		expect(w, "d2h-after-kernel-after-h2d", out, []byte{6, 7, 8, 9})
		outcome(w, []*driver.Context{ctx}, []driver.Ptr{buf}, 4, fmt.Sprint(out))
	}}
}

// UnifiedKernel: a kernel on a unified device made of GPU 1 and GPU 2 (needs
// Opts.GPUs >= 2): the driver sends one launch request per member GPU with a
// work-group filter; with equal latencies both completions reach the driver in
// the same cycle.
func UnifiedKernel(o Opts) Scenario {
	return Scenario{Name: "1thread-1queue-h2d-unified-kernel-d2h" + suffix(o), Opts: o, Threads: 1, Main: func(rt RT, o Opts) {
		w := NewWorld(rt, o)
		d := w.Driver
		ctx := d.Init()
		d.SelectGPU(ctx, d.CreateUnifiedGPU(ctx, []int{1, 2}))
		buf := d.AllocateMemory(ctx, 16)
		q := d.CreateCommandQueue(ctx)
		in, want, out := make([]byte, 16), make([]byte, 16), make([]byte, 16)
		for i := range in {
			in[i] = byte(3*i + 1)
			want[i] = in[i] + 5
		}
		h2d(w, q, "c0", buf, in)
		// 8 work-groups of 2: the two 4-CU GPUs get work-groups [0,4) and [4,8)
		d.EnqueueLaunchKernel(q, AddKernel, [3]uint32{16, 1, 1}, [3]uint16{2, 1, 1}, &KernelArgs{Buf: buf, N: 16, Add: 5})
		d2h(w, q, "c9", out, buf)
		w.Drain("main", q, "c0", "c9")
		w.CheckOrder("q", []string{"c0", "c9"})
		expect(w, "d2h-after-unified-kernel-after-h2d", out, want)
		outcome(w, []*driver.Context{ctx}, []driver.Ptr{buf}, 16, fmt.Sprint(out))
	}}
}

// TwoQueues: one thread, two queues of one context.
func TwoQueues(o Opts) Scenario {
	return Scenario{Name: "1thread-2queues" + suffix(o), Opts: o, Threads: 1, Main: func(rt RT, o Opts) {
		w := NewWorld(rt, o)
		d := w.Driver
		ctx := d.Init()
		x := d.AllocateMemory(ctx, 4)
		y := d.AllocateMemory(ctx, 4)
		q1 := d.CreateCommandQueue(ctx)
		q2 := d.CreateCommandQueue(ctx)
		o1, o2 := make([]byte, 4), make([]byte, 4)
		h2d(w, q1, "a0", x, []byte{1, 2, 3, 4})
		h2d(w, q2, "b0", y, []byte{5, 6, 7, 8})
		d2h(w, q1, "a1", o1, x)
		d2h(w, q2, "b1", o2, y)
		w.Drain("main", q2, "b0", "b1")
		expect(w, "queue2", o2, []byte{5, 6, 7, 8})
		w.Drain("main", q1, "a0", "a1")
		expect(w, "queue1", o1, []byte{1, 2, 3, 4})
		w.CheckOrder("q1", []string{"a0", "a1"})
		w.CheckOrder("q2", []string{"b0", "b1"})
		outcome(w, []*driver.Context{ctx, ctx}, []driver.Ptr{x, y}, 4, fmt.Sprint(o1, o2))
	}}
}

// BackToBack: blocking API calls one after another, so that an engine exit
// meets the next enqueue.
func BackToBack(calls int, o Opts) Scenario {
	return Scenario{Name: fmt.Sprintf("1thread-back-to-back-%dcalls%s", calls, suffix(o)), Opts: o, Threads: 1, Main: func(rt RT, o Opts) {
		w := NewWorld(rt, o)
		d := w.Driver
		ctx := d.Init()
		buf := d.AllocateMemory(ctx, 4)
		out := make([]byte, 4)
		a := []byte{9, 8, 7, 6}
		b := []byte{1, 3, 5, 7}
		want := a
		d.MemCopyH2D(ctx, buf, a)
		if calls >= 3 {
			d.MemCopyH2D(ctx, buf, b)
			want = b
		}
		d.MemCopyD2H(ctx, out, buf)
		expect(w, "MemCopyD2H-after-MemCopyH2D", out, want)
		if calls >= 4 {
			out2 := make([]byte, 4)
			d.MemCopyD2H(ctx, out2, buf)
			expect(w, "second-MemCopyD2H", out2, want)
		}
		outcome(w, []*driver.Context{ctx}, []driver.Ptr{buf}, 4, fmt.Sprintf("%v T=%d ", out, int64(float64(w.Engine.CurrentTime())*1e9+0.5)))
	}}
}

// TwoThreadsOneQueue: two application threads work on ONE queue: both enqueue copies on it and both wait for it
// to drain (a listener of one thread is notified by the other thread's enqueues and by the simulation thread's
// dequeues while its owner may still be blocked on the kick).
func TwoThreadsOneQueue(o Opts) Scenario {
	return Scenario{Name: "2threads-one-queue" + suffix(o), Opts: o, Threads: 2, Main: func(rt RT, o Opts) {
		w := NewWorld(rt, o)
		d := w.Driver
		ctx := d.Init()
		q := d.CreateCommandQueue(ctx)
		bufs := []driver.Ptr{d.AllocateMemory(ctx, 4), d.AllocateMemory(ctx, 4)}
		outs := make([][]byte, 2)
		for i := 0; i < 2; i++ {
			i := i
			name := fmt.Sprintf("app%d", i)
			rt.Go(name, func() {
				data := []byte{byte(10*i + 1), byte(10*i + 2), byte(10*i + 3), byte(10*i + 4)}
				out := make([]byte, 4)
				outs[i] = out
				ids := []string{h2d(w, q, name+"c0", bufs[i], data), d2h(w, q, name+"c1", out, bufs[i])}
				w.DrainShared(name, q, ids...)
				expect(w, name+"-own-data", out, data)
			})
		}
		rt.Wait()
		outcome(w, []*driver.Context{ctx}, bufs, 4, fmt.Sprint(outs))
	}}
}

// TwoThreadsOneQueueNoop: the smallest two-thread program on one queue: thread A enqueues two no-op commands and
// waits for the queue, thread B only waits for the queue (its listener is notified by A's enqueues and by the
// simulation thread's dequeues while B may still be blocked on the kick).
func TwoThreadsOneQueueNoop(o Opts) Scenario {
	return Scenario{Name: "2threads-one-queue-noop" + suffix(o), Opts: o, Threads: 2, Main: func(rt RT, o Opts) {
		w := NewWorld(rt, o)
		d := w.Driver
		ctx := d.Init()
		q := d.CreateCommandQueue(ctx)
		d.Enqueue(q, &driver.NoopCommand{ID: "n0"})
		rt.Go("appB", func() {
			w.DrainShared("appB", q)
		})
		rt.Go("appA", func() {
			d.Enqueue(q, &driver.NoopCommand{ID: "n1"})
			d.Enqueue(q, &driver.NoopCommand{ID: "n2"})
			w.DrainShared("appA", q, "n1", "n2")
		})
		rt.Wait()
		rt.Quiesce()
		if n := verifNumCommands(q); n > 0 {
			rt.Fail("commands-left-in-queue-at-the-end", "%d command(s) still queued after both threads returned from DrainCommandQueue and the engine went idle", n)
		}
		rt.Outcome(fmt.Sprintf("queue-left=%d", verifNumCommands(q)))
	}}
}

// ThreeDrainers: three application threads wait for ONE queue that holds three no-op commands (enqueued before
// they start). Several kicks are in flight while the engine goroutine is inside an event: runAsync may be waiting
// in Engine.Pause for the event to end while another drainer is still blocked on its kick with notifications
// already pending for it.
func ThreeDrainers(o Opts) Scenario {
	return Scenario{Name: "3threads-drain-one-queue-noop" + suffix(o), Opts: o, Threads: 3, Main: func(rt RT, o Opts) {
		w := NewWorld(rt, o)
		d := w.Driver
		ctx := d.Init()
		q := d.CreateCommandQueue(ctx)
		for i := 0; i < 3; i++ {
			d.Enqueue(q, &driver.NoopCommand{ID: fmt.Sprintf("n%d", i)})
		}
		for i := 0; i < 3; i++ {
			name := fmt.Sprintf("app%d", i)
			rt.Go(name, func() { w.DrainShared(name, q) })
		}
		rt.Wait()
		rt.Quiesce()
		rt.Outcome(fmt.Sprintf("queue-left=%d", verifNumCommands(q)))
	}}
}

// TwoThreads: two application threads, own context each (shared=false) or one
// shared context (shared=true); each copies its own pattern in and out.
func TwoThreads(shared bool, o Opts) Scenario {
	name := "2threads-own-context"
	if shared {
		name = "2threads-shared-context"
	}
	return Scenario{Name: name + suffix(o), Opts: o, Threads: 2, Main: func(rt RT, o Opts) {
		w := NewWorld(rt, o)
		d := w.Driver
		var sharedCtx *driver.Context
		if shared {
			sharedCtx = d.Init()
		}
		ctxs := make([]*driver.Context, 2)
		bufs := make([]driver.Ptr, 2)
		outs := make([][]byte, 2)
		for i := 0; i < 2; i++ {
			i := i
			name := fmt.Sprintf("app%d", i)
			rt.Go(name, func() {
				ctx := sharedCtx
				if ctx == nil {
					ctx = d.Init()
				}
				ctxs[i] = ctx
				buf := d.AllocateMemory(ctx, 4)
				bufs[i] = buf
				q := d.CreateCommandQueue(ctx)
				data := []byte{byte(10*i + 1), byte(10*i + 2), byte(10*i + 3), byte(10*i + 4)}
				out := make([]byte, 4)
				outs[i] = out
				ids := []string{h2d(w, q, name+"c0", buf, data), d2h(w, q, name+"c1", out, buf)}
				w.Drain(name, q, ids...)
				w.CheckOrder(name, ids)
				expect(w, name+"-own-data", out, data)
			})
		}
		rt.Wait()
		if !shared && Instrumented && ctxs[0] != nil && ctxs[1] != nil && ctxPID(ctxs[0]) == ctxPID(ctxs[1]) {
			rt.Fail("contexts-share-pid", "two Init() calls returned contexts with the same pid %d", ctxPID(ctxs[0]))
		}
		outcome(w, ctxs, bufs, 4, fmt.Sprint(outs))
	}}
}

func suffix(o Opts) string {
	s := ""
	if o.Magic {
		s += "-magic"
	}
	if o.TailTicks > 0 {
		s += fmt.Sprintf("-gputail%d", o.TailTicks)
	}
	if o.GPUs > 1 {
		s += fmt.Sprintf("-%dgpu-farflush%d", o.GPUs, o.FarFlushLatency)
		if o.RspLatency != 1 {
			s += fmt.Sprintf("-lat%d", o.RspLatency)
		}
	}
	return s
}

// AsyncAlloc: a kernel is in flight while the application allocates more
// memory in the same context (the driver walks Context.buffers on the engine
// thread).
func AsyncAlloc(o Opts) Scenario {
	return Scenario{Name: "1thread-kernel-in-flight-allocate" + suffix(o), Opts: o, Threads: 1, Main: func(rt RT, o Opts) {
		w := NewWorld(rt, o)
		d := w.Driver
		ctx := d.Init()
		buf := d.AllocateMemory(ctx, 4)
		q := d.CreateCommandQueue(ctx)
		out := make([]byte, 4)
		h2d(w, q, "c0", buf, []byte{1, 2, 3, 4})
		d.EnqueueLaunchKernel(q, AddKernel, [3]uint32{4, 1, 1}, [3]uint16{4, 1, 1}, &KernelArgs{Buf: buf, N: 4, Add: 5})
		d2h(w, q, "c9", out, buf)
		q2 := d.CreateCommandQueue(ctx)
		h2d(w, q2, "k0", buf, []byte{1, 2, 3, 4})
		w.Drain("main", q2, "k0") // starts the engine; q is still being processed
		for i := 0; i < 3; i++ {
			d.AllocateMemory(ctx, 4)
		}
		w.Drain("main", q, "c0", "c9")
		outcome(w, []*driver.Context{ctx}, []driver.Ptr{buf}, 4, "")
	}}
}

// RaceScenarios are the bodies run free under the race detector.
func RaceScenarios(o Opts) []Scenario {
	om := o
	om.Magic = true
	return []Scenario{
		Commands1Q(3, o), BackToBack(3, o), TwoQueues(o), TwoThreads(false, o), TwoThreads(true, o), Kernel1Q(o), AsyncAlloc(o), Commands1Q(3, om),
	}
}

// AsyncRefill: the asynchronous API with a large host buffer that the application refills between the enqueue and
// the drain (n bytes; the simulation only runs inside DrainCommandQueue, so what reaches the device is the buffer's
// content at that call - whatever threads the driver uses internally). The outcome is a digest of the device
// bytes and of what a following D2H returns.
func AsyncRefill(n int, o Opts) Scenario {
	return Scenario{Name: fmt.Sprintf("1thread-async-h2d-%dKiB-host-buffer-refilled-before-drain%s", n/1024, suffix(o)), Opts: o, Threads: 1, Main: func(rt RT, o Opts) {
		w := NewWorld(rt, o)
		d := w.Driver
		ctx := d.Init()
		buf := d.AllocateMemory(ctx, uint64(n))
		q := d.CreateCommandQueue(ctx)
		host := make([]byte, n)
		for i := range host {
			host[i] = byte(i*7 + 1)
		}
		d.EnqueueMemCopyH2D(q, buf, host)
		for i := range host {
			host[i] = byte(i*13 + 5)
		}
		d.DrainCommandQueue(q)
		out := make([]byte, n)
		d.MemCopyD2H(ctx, out, buf)
		rt.Quiesce()
		sum := func(b []byte) uint64 {
			h := uint64(1469598103934665603)
			for _, x := range b {
				h = (h ^ uint64(x)) * 1099511628211
			}
			return h
		}
		first := "first-fill"
		switch {
		case len(out) > 0 && out[0] == host[0] && out[n-1] == host[n-1]:
			first = "refill"
		case len(out) > 0 && out[0] != 1:
			first = "mixture"
		}
		rt.Outcome(fmt.Sprintf("bytes: device holds the %s (digest %x)", first, sum(out)))
	}}
}

// Repro is the C05 body: one application thread issues `calls` blocking API
// calls (2..4: MemCopyH2D, [MemCopyH2D,] MemCopyD2H, [LaunchKernel+MemCopyD2H]);
// the observables are taken when the calls have returned and the engine has
// gone idle.
func Repro(calls int, o Opts) Scenario {
	return Scenario{Name: fmt.Sprintf("1thread-%dblocking-calls%s", calls, suffix(o)), Opts: o, Threads: 1, Main: func(rt RT, o Opts) {
		w := NewWorld(rt, o)
		d := w.Driver
		ctx := d.Init()
		buf := d.AllocateMemory(ctx, 4)
		out := make([]byte, 4)
		a := []byte{9, 8, 7, 6}
		b := []byte{1, 3, 5, 7}
		want := a
		d.MemCopyH2D(ctx, buf, a)
		if calls >= 3 {
			d.MemCopyH2D(ctx, buf, b)
			want = b
		}
		if calls >= 4 {
			d.LaunchKernel(ctx, AddKernel, [3]uint32{4, 1, 1}, [3]uint16{4, 1, 1}, &KernelArgs{Buf: buf, N: 4, Add: 5})
			want = []byte{6, 8, 10, 12}
		}
		d.MemCopyD2H(ctx, out, buf)
		expect(w, "MemCopyD2H-result", out, want)
		rt.Quiesce()
		tEnd := w.Engine.CurrentTime()
		ns := func(t float64) int64 { return int64(t*1e9 + 0.5) }
		var mem []byte
		if Instrumented {
			mem = w.DeviceBytes(ctxPID(ctx), buf, 4)
		}
		rt.Outcome(fmt.Sprintf("bytes: dev=%v host=%v; durations: %s; times: %s; T_end(engine idle)=%d",
			mem, out, w.Durations(), w.Times(), ns(float64(tEnd))))
	}}
}
