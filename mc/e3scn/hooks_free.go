//go:build !e3

package e3scn

import (
	"github.com/sarchlab/akita/v4/mem/vm"
	"github.com/sarchlab/akita/v4/sim"
	"github.com/sarchlab/mgpusim/v4/amd/driver"
)

// Instrumented is false in the free-running (-race) build.
const Instrumented = false

func resetGlobals()                               {}
func verifNumCommands(q *driver.CommandQueue) int { return -1 }
func verifEngineRunning(d *driver.Driver) bool    { return false }
func verifPending(e *sim.SerialEngine) int        { return 0 }
func ctxPID(c *driver.Context) vm.PID             { return 0 }

func verifQueues(d *driver.Driver) []*driver.CommandQueue { return nil }
func verifNumListeners(q *driver.CommandQueue) int        { return 0 }

// EmuPlatform exists only in the instrumented build.
func EmuPlatform(program string) Scenario {
	return Scenario{Name: "emu-1gpu-" + program, Threads: 1, Main: func(rt RT, o Opts) {
		panic("EmuPlatform needs the E3 (instrumented) build")
	}}
}
