//go:build e3

package e3scn

import (
	"github.com/sarchlab/akita/v4/mem/vm"
	"github.com/sarchlab/akita/v4/sim"
	"github.com/sarchlab/mgpusim/v4/amd/driver"
)

// Instrumented is true in the E3 (controlled scheduler) build.
const Instrumented = true

func resetGlobals()                               { driver.VerifResetNextPID() }
func verifNumCommands(q *driver.CommandQueue) int { return q.VerifNumCommands() }
func verifEngineRunning(d *driver.Driver) bool    { return d.VerifEngineRunning() }
func verifPending(e *sim.SerialEngine) int        { return e.VerifPendingEvents() }
func ctxPID(c *driver.Context) vm.PID             { return vm.PID(c.VerifPID()) }

func verifQueues(d *driver.Driver) []*driver.CommandQueue { return d.VerifQueues() }
func verifNumListeners(q *driver.CommandQueue) int        { return q.VerifNumListeners() }
